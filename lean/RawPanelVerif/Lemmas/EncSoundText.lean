import RawPanelVerif.Lemmas.EncSoundGfx
/-! C01 `enc_sound`, text section: the 21-field `HWCt#` line of any in-domain text state is read back as the
normal form of that state. -/
namespace RawPanelVerif.EncSound
open RawPanelVerif RawPanelVerif.Bytes RawPanelVerif.MsgIn RawPanelVerif.Model.In RawPanelVerif.InBits RawPanelVerif.ReadIn
open RawPanelVerif.Spec.In RawPanelVerif.TotalIn

variable (O : Oracles)

theorem i32ok_range (n : Int) (h : i32ok n = true) : -2147483648 ≤ n ∧ n ≤ 2147483647 := by
  unfold i32ok at h
  simp only [Bool.and_eq_true, decide_eq_true_eq] at h
  exact h

theorem itoa_ne_nil (z : Int) : itoa z ≠ [] := by
  unfold itoa
  split
  · simp
  · exact digitsOf_ne_nil _

theorem utoa_ne_nil (n : Nat) : utoa n ≠ [] := itoa_ne_nil _

theorem intField_itoa (z : Int) (h : -4294967296 < z ∧ z < 4294967296) : intField? (itoa z) = some z := by
  unfold intField?
  rw [if_neg (itoa_ne_nil z), int_itoa z h]

theorem intField_nil : intField? [] = some 0 := rfl
theorem numField_nil : numField? [] = some 0 := rfl

theorem numField_utoa (n : Nat) (h : n < 4294967296) : numField? (utoa n) = some n := by
  unfold numField?
  rw [if_neg (utoa_ne_nil n), num_utoa n h]

theorem intField_utoa (n : Nat) (h : n < 4294967296) : intField? (utoa n) = some (n : Int) := by
  unfold utoa
  exact intField_itoa _ (by omega)

/-- `strconv.Itoa(x)` written only if `x > 0`: read back as `x` in all cases -/
theorem numField_posField (n : Nat) (h : n < 4294967296) : numField? (posField n) = some n := by
  unfold posField
  split
  · exact numField_utoa n h
  · have : n = 0 := by omega
    subst this; rfl

/-- optional signed field written `if z ≠ 0` / `if z > 0` (for z ≥ 0) -/
theorem intField_ifne (z : Int) (h : -4294967296 < z ∧ z < 4294967296) :
    intField? (if z ≠ 0 then itoa z else []) = some z := by
  split
  · exact intField_itoa z h
  · rename_i h0
    have : z = 0 := by omega
    subst this; rfl

theorem intField_ifpos (z : Int) (h : 0 ≤ z ∧ z < 4294967296) :
    intField? (if z > 0 then itoa z else []) = some z := by
  split
  · exact intField_itoa z (by omega)
  · have : z = 0 := by omega
    subst this; rfl

theorem readTextColor_enc (c : Option Color) (h : (match c with | some c => colorOk c | none => true) = true) :
    readTextColor (colorField c) = some (textColorOf c) := by
  unfold colorField
  cases c with
  | none => rfl
  | some c =>
    simp only [] at h ⊢
    obtain ⟨rgb, idx⟩ := c
    cases rgb with
    | some rgb =>
      cases idx with
      | some i => simp [colorOk] at h
      | none =>
        obtain ⟨r, g, b⟩ := rgb
        have hci := colorInt_rgb { red := r, green := g, blue := b } none
        have hlt : colorInt { rgb := some { red := r, green := g, blue := b }, index := none } < 4294967296 := by rw [hci]; simp only []; omega
        have hpos : colorInt { rgb := some { red := r, green := g, blue := b }, index := none } ≠ 0 := by rw [hci]; simp only []; omega
        unfold readTextColor
        rw [numField_utoa _ hlt]
        have hp := InBits.textColor_pack_rgb r g b none
        generalize colorInt { rgb := some { red := r, green := g, blue := b }, index := none } = n at *
        cases n with
        | zero => exact absurd rfl hpos
        | succ k =>
          simp only [hp]
          rfl
    | none =>
      cases idx with
      | none => rfl
      | some i =>
        simp only [colorOk] at h
        have hr := enumOk_range _ _ h
        have hci := colorInt_index i
        have e : ((i % 32).toNat) = i.toNat := by omega
        rw [e] at hci
        unfold readTextColor
        rw [hci, numField_utoa _ (by omega)]
        by_cases h0 : i.toNat = 0
        · rw [h0]
          have : i = 0 := by omega
          subst this
          rfl
        · have es : i = ((i.toNat : Nat) : Int) := by omega
          have hp := InBits.textColor_pack_index i.toNat (by omega)
          rw [← es, hci] at hp
          cases hk : i.toNat with
          | zero => exact absurd hk h0
          | succ k =>
            rw [hk] at hp
            simp only [hp]
            unfold textColorOf colorOf
            simp only []
            rw [hk]
            rfl

theorem noBar (s : Bytes) (h : noBarLF s = true) : (124 : UInt8) ∉ s ∧ (10 : UInt8) ∉ s := by
  unfold noBarLF at h
  simp only [Bool.and_eq_true, Bool.not_eq_true', List.contains_eq_mem, decide_eq_false_iff_not] at h
  exact h

section
variable (b : UInt8) (hd : isDigit b = false) (h45 : b ≠ 45)
include hd h45

theorem nb_itoa (z : Int) : b ∉ itoa z := not_mem_itoa z b hd h45
theorem nb_utoa (n : Nat) : b ∉ utoa n := not_mem_utoa n b hd
theorem nb_pos (n : Nat) : b ∉ posField n := by
  unfold posField; split
  · exact nb_utoa b hd h45 n
  · simp
theorem nb_one : b ∉ asc "1" := by
  intro h
  have : b = 49 := by simpa [asc] using h
  subst this
  exact absurd hd (by decide)
theorem nb_scale (t : Text) (f : Scale → Int) : b ∉ scaleField t f := by
  unfold scaleField; split
  · exact nb_itoa b hd h45 _
  · simp
theorem nb_style (t : Text) (f : TextStyle → Nat) : b ∉ styleField t f := by
  unfold styleField; split
  · exact nb_pos b hd h45 _
  · simp
theorem nb_color (c : Option Color) : b ∉ colorField c := by
  unfold colorField; split
  · exact nb_utoa b hd h45 _
  · simp

/-- none of the 21 fields contains a byte that is neither a digit nor `-` nor in the three text fields -/
theorem fields_nobyte (t : Text) (h1 : b ∉ t.title) (h2 : b ∉ t.textline1) (h3 : b ∉ t.textline2) :
    ∀ f ∈ textField0P t :: textFieldsTail t, b ∉ f := by
  intro f hf
  simp only [textFieldsTail, List.mem_cons, List.not_mem_nil, or_false] at hf
  rcases hf with hf | hf | hf | hf | hf | hf | hf | hf | hf | hf | hf | hf | hf | hf | hf | hf | hf | hf | hf | hf | hf
  all_goals subst hf
  · unfold textField0P
    split
    · exact nb_itoa b hd h45 _
    · split
      · exact nb_utoa b hd h45 _
      · simp
  · split
    · exact nb_itoa b hd h45 _
    · simp
  · split
    · exact nb_pos b hd h45 _
    · simp
  · exact h1
  · split
    · exact nb_one b hd h45
    · simp
  · exact h2
  · exact h3
  · split
    · exact nb_itoa b hd h45 _
    · simp
  · split
    · exact nb_itoa b hd h45 _
    · simp
  · exact nb_scale b hd h45 _ _
  · exact nb_scale b hd h45 _ _
  · exact nb_scale b hd h45 _ _
  · exact nb_scale b hd h45 _ _
  · exact nb_scale b hd h45 _ _
  · simp
  · exact nb_style b hd h45 _ _
  · exact nb_style b hd h45 _ _
  · exact nb_style b hd h45 _ _
  · split
    · exact nb_one b hd h45
    · simp
  · exact nb_color b hd h45 _
  · exact nb_color b hd h45 _
end

theorem fields_nobar (t : Text) (h1 : noBarLF t.title = true) (h2 : noBarLF t.textline1 = true) (h3 : noBarLF t.textline2 = true) :
    ∀ f ∈ textField0P t :: textFieldsTail t, (124 : UInt8) ∉ f :=
  fields_nobyte 124 (by decide) (by decide) t (noBar _ h1).1 (noBar _ h2).1 (noBar _ h3).1

theorem fields_nolf (t : Text) (h1 : noBarLF t.title = true) (h2 : noBarLF t.textline1 = true) (h3 : noBarLF t.textline2 = true) :
    ∀ f ∈ textField0P t :: textFieldsTail t, (10 : UInt8) ∉ f :=
  fields_nobyte 10 (by decide) (by decide) t (noBar _ h1).2 (noBar _ h2).2 (noBar _ h3).2

def f0val (t : Text) : Int :=
  if !isFmt t.formatting [7, 10, 11] then t.integerValue
  else if isFmt t.formatting [10, 11] then ((ufsOf t : Nat) : Int)
  else 0

theorem f0_parse (t : Text) (hiv : i32ok t.integerValue = true)
    (hst : (match t.textStyling with | some ts => u32ok ts.unformattedFontSize | none => true) = true) :
    intField? (textField0P t) = some (f0val t) := by
  unfold textField0P f0val
  have hr := i32ok_range _ hiv
  split
  · exact intField_itoa _ (by omega)
  · split
    · refine intField_utoa _ ?_
      unfold ufsOf
      cases hts : t.textStyling with
      | none => simp
      | some ts =>
        rw [hts] at hst
        exact u32ok_lt _ hst
    · rfl

theorem f0_nil_iff (t : Text) : textField0P t = [] ↔ (isFmt t.formatting [7, 10, 11] = true ∧ isFmt t.formatting [10, 11] = false) := by
  unfold textField0P
  split
  · rename_i h
    constructor
    · intro e; exact absurd e (itoa_ne_nil _)
    · intro ⟨h1, _⟩; simp [h1] at h
  · rename_i h
    split
    · rename_i h2
      constructor
      · intro e; exact absurd e (utoa_ne_nil _)
      · intro ⟨_, h3⟩; rw [h2] at h3; exact absurd h3 (by simp)
    · rename_i h2
      constructor
      · intro _; exact ⟨by simpa using h, by simpa using h2⟩
      · intro _; rfl

def scaleVal (t : Text) (f : Scale → Int) : Int := match scaleOn t with | some s => f s | none => 0
def styleVal (t : Text) (f : TextStyle → Nat) : Nat := match t.textStyling with | some ts => f ts | none => 0

/-- two text states with the same normal form: fields that `normText` erases need only agree where they matter -/
theorem normText_eq_of (X Y : TextE)
    (hfmt : X.format = Y.format)
    (hval : (Y.format == 7 || is1011 Y.format) = false → X.value = Y.value)
    (hfs : is1011 Y.format = true → X.fontSize = Y.fontSize)
    (hsolid : is1011 Y.format = false → Y.title ≠ [] → X.solidBar = Y.solidBar)
    (hpair : is1011 Y.format = false → X.pairMode = Y.pairMode)
    (hst : X.scaleType = Y.scaleType)
    (hrl : Y.scaleType ≠ 0 → X.rangeLow = Y.rangeLow) (hrh : Y.scaleType ≠ 0 → X.rangeHigh = Y.rangeHigh)
    (hll : Y.scaleType ≠ 0 → X.limitLow = Y.limitLow) (hlh : Y.scaleType ≠ 0 → X.limitHigh = Y.limitHigh)
    (h1 : X.stateIcon = Y.stateIcon) (h2 : X.modIcon = Y.modIcon) (h3 : X.title = Y.title) (h4 : X.line1 = Y.line1)
    (h5 : X.line2 = Y.line2) (h6 : X.value2 = Y.value2) (h7 : X.textFace = Y.textFace) (h8 : X.titleFace = Y.titleFace)
    (h9 : X.fixedWidth = Y.fixedWidth) (h10 : X.textW = Y.textW) (h11 : X.textH = Y.textH) (h12 : X.titleW = Y.titleW)
    (h13 : X.titleH = Y.titleH) (h14 : X.padding = Y.padding) (h15 : X.spacing = Y.spacing) (h16 : X.inverted = Y.inverted)
    (h17 : X.pixelColor = Y.pixelColor) (h18 : X.bgColor = Y.bgColor) :
    normText X = normText Y := by
  cases X; cases Y
  simp only [] at *
  subst hfmt hst h1 h2 h3 h4 h5 h6 h7 h8 h9 h10 h11 h12 h13 h14 h15 h16 h17 h18
  unfold normText
  simp only [TextE.mk.injEq, true_and, and_true]
  rename_i value format stateIcon modIcon title solidBar line1 line2 value2 pairMode scaleType rangeLow rangeHigh limitLow limitHigh textFace titleFace fixedWidth textW textH titleW titleH padding spacing fontSize inverted pixelColor bgColor value' solidBar' pairMode' rangeLow' rangeHigh' limitLow' limitHigh' fontSize'
  refine ⟨?_, ?_, ?_, ?_, ?_, ?_, ?_, ?_⟩
  · cases hc : (format == 7 || is1011 format)
    · simp [hval hc]
    · simp
  · cases hc : is1011 format
    · by_cases ht : title = []
      · simp [ht]
      · simp [hsolid hc ht]
    · simp
  · cases hc : is1011 format
    · simp [hpair hc]
    · simp
  · by_cases hc : scaleType = 0
    · simp [hc]
    · simp [hc, hrl hc]
  · by_cases hc : scaleType = 0
    · simp [hc]
    · simp [hc, hrh hc]
  · by_cases hc : scaleType = 0
    · simp [hc]
    · simp [hc, hll hc]
  · by_cases hc : scaleType = 0
    · simp [hc]
    · simp [hc, hlh hc]
  · cases hc : is1011 format
    · simp
    · simp [hfs hc]

theorem scale_parse (t : Text) (f : Scale → Int) (hf : ∀ s, t.scale = some s → -4294967296 < f s ∧ f s < 4294967296) :
    intField? (scaleField t f) = some (scaleVal t f) := by
  unfold scaleField scaleVal
  cases hs : scaleOn t with
  | none => rfl
  | some s =>
    simp only []
    refine intField_itoa _ (hf s ?_)
    unfold scaleOn at hs
    cases hsc : t.scale with
    | none => rw [hsc] at hs; simp at hs
    | some s' =>
      rw [hsc] at hs
      simp only [] at hs
      split at hs
      · injection hs with hs; rw [hs]
      · simp at hs

theorem style_parse (t : Text) (f : TextStyle → Nat) (hf : ∀ ts, t.textStyling = some ts → f ts < 4294967296) :
    numField? (styleField t f) = some (styleVal t f) := by
  unfold styleField styleVal
  cases hs : t.textStyling with
  | none => rfl
  | some ts => exact numField_posField _ (hf ts hs)

theorem isFmt3 (f : Int) : isFmt f [7, 10, 11] = true ↔ (f = 7 ∨ f = 10 ∨ f = 11) := by
  simp [isFmt]
theorem isFmt2 (f : Int) : isFmt f [10, 11] = true ↔ (f = 10 ∨ f = 11) := by
  simp [isFmt]
theorem is1011_iff (f : Int) : is1011 f = true ↔ (f = 10 ∨ f = 11) := by
  simp [is1011]

theorem L_fmt (t : Text) :
    (if textField0P t = [] ∧ (if t.formatting > 0 ∧ t.formatting ≠ 7 then t.formatting else 0) = 0 then 7
     else if t.formatting > 0 ∧ t.formatting ≠ 7 then t.formatting else 0) = t.formatting → True := fun _ => trivial

theorem L_fmt' (t : Text) (h : 0 ≤ t.formatting) :
    (if textField0P t = [] ∧ (if t.formatting > 0 ∧ t.formatting ≠ 7 then t.formatting else 0) = 0 then 7
     else if t.formatting > 0 ∧ t.formatting ≠ 7 then t.formatting else 0) = t.formatting := by
  have hnil := f0_nil_iff t
  generalize hf1 : (if t.formatting > 0 ∧ t.formatting ≠ 7 then t.formatting else 0) = f1
  have hf1' : f1 = if t.formatting = 7 then 0 else t.formatting := by
    rw [← hf1]; split <;> split <;> omega
  by_cases h7 : t.formatting = 7
  · have hn : textField0P t = [] := hnil.mpr ⟨(isFmt3 _).mpr (Or.inl h7), by
      cases hc : isFmt t.formatting [10, 11]
      · rfl
      · have := (isFmt2 _).mp hc; omega⟩
    rw [if_pos h7] at hf1'
    rw [if_pos ⟨hn, hf1'⟩]; omega
  · rw [if_neg h7] at hf1'
    by_cases h0 : t.formatting = 0
    · have : ¬ textField0P t = [] := by
        intro e
        have := (isFmt3 _).mp (hnil.mp e).1
        omega
      rw [if_neg (fun hc => this hc.1)]; omega
    · rw [if_neg (fun hc => by omega)]; omega

theorem L_val (t : Text) (h : (t.formatting == 7 || is1011 t.formatting) = false) : f0val t = t.integerValue := by
  simp only [Bool.or_eq_false_iff, beq_eq_false_iff_ne, ne_eq] at h
  unfold f0val
  have : isFmt t.formatting [7, 10, 11] = false := by
    cases hc : isFmt t.formatting [7, 10, 11]
    · rfl
    · have := (isFmt3 _).mp hc
      have h2 : ¬ (t.formatting = 10 ∨ t.formatting = 11) := fun hx => by
        have := (is1011_iff _).mpr hx; rw [h.2] at this; exact absurd this (by simp)
      omega
  simp [this]

theorem L_fs (t : Text) (h : is1011 t.formatting = true) : (f0val t).toNat = ufsOf t := by
  have h' := (is1011_iff _).mp h
  unfold f0val
  have h3 : isFmt t.formatting [7, 10, 11] = true := (isFmt3 _).mpr (by omega)
  have h2 : isFmt t.formatting [10, 11] = true := (isFmt2 _).mpr h'
  simp [h3, h2]

theorem ufsOf_textOf (t : Text) : (textOf t).fontSize = ufsOf t := by
  unfold textOf ufsOf
  cases t.textStyling <;> rfl

theorem scaleVal_type (t : Text) (h : ∀ s, t.scale = some s → 0 ≤ s.scaleType) :
    scaleVal t (fun s => s.scaleType) = (textOf t).scaleType := by
  unfold scaleVal scaleOn textOf
  cases hs : t.scale with
  | none => rfl
  | some s =>
    simp only [Option.getD_some]
    by_cases hp : s.scaleType > 0
    · rw [if_pos hp]
    · rw [if_neg hp]
      have := h s hs
      show (0 : Int) = s.scaleType
      omega

theorem scaleVal_other (t : Text) (f : Scale → Int) (h : (textOf t).scaleType ≠ 0) (h0 : ∀ s, t.scale = some s → 0 ≤ s.scaleType) :
    scaleVal t f = f (t.scale.getD {}) := by
  unfold scaleVal scaleOn
  unfold textOf at h
  cases hs : t.scale with
  | none => rw [hs] at h; exact absurd rfl h
  | some s =>
    rw [hs] at h
    simp only [Option.getD_some] at h ⊢
    have := h0 s hs
    rw [if_pos (by omega)]

theorem styleVal_face (t : Text)
    (h : ∀ ts, t.textStyling = some ts → fontOk ts.textFont = true ∧ fontOk ts.titleFont = true) :
    styleVal t fontFaceBits % 8 = (textOf t).textFace ∧ styleVal t fontFaceBits / 8 % 8 = (textOf t).titleFace ∧
    decide (styleVal t fontFaceBits / 64 % 2 = 1) = (textOf t).fixedWidth := by
  unfold styleVal textOf
  cases hs : t.textStyling with
  | none => exact ⟨rfl, rfl, rfl⟩
  | some ts =>
    have hh := h ts hs
    simp only [Option.getD_some, fontFaceBits_eq]
    obtain ⟨tf, xf, fixed, pad, sp, ufs⟩ := ts
    simp only [] at hh ⊢
    have k : ∀ f : Option Font, fontOk f = true → faceOf f = (f.getD {}).face.toNat ∧ faceOf f < 8 := by
      intro f hf
      cases f with
      | none => exact ⟨rfl, by decide⟩
      | some f =>
        simp only [fontOk, Bool.and_eq_true] at hf
        have := enumOk_range _ _ hf.1.1
        unfold faceOf
        simp only [Option.getD_some]
        omega
    have k1 := k xf hh.1
    have k2 := k tf hh.2
    cases fixed <;> simp <;> omega

theorem styleVal_size (t : Text)
    (h : ∀ ts, t.textStyling = some ts → fontOk ts.textFont = true ∧ fontOk ts.titleFont = true) :
    styleVal t fontSizeBits % 4 = (textOf t).textW ∧ styleVal t fontSizeBits / 4 % 4 = (textOf t).textH ∧
    styleVal t fontSizeBits / 16 % 4 = (textOf t).titleW ∧ styleVal t fontSizeBits / 64 % 4 = (textOf t).titleH := by
  unfold styleVal textOf
  cases hs : t.textStyling with
  | none => exact ⟨rfl, rfl, rfl, rfl⟩
  | some ts =>
    have hh := h ts hs
    simp only [Option.getD_some, fontSizeBits_eq]
    obtain ⟨tf, xf, fixed, pad, sp, ufs⟩ := ts
    simp only [] at hh ⊢
    have k : ∀ f : Option Font, fontOk f = true → wOf f = (f.getD {}).width ∧ hOf f = (f.getD {}).height ∧ wOf f < 4 ∧ hOf f < 4 := by
      intro f hf
      cases f with
      | none => exact ⟨rfl, rfl, by decide, by decide⟩
      | some f =>
        simp only [fontOk, Bool.and_eq_true, decide_eq_true_eq] at hf
        unfold wOf hOf
        simp only [Option.getD_some]
        omega
    have k1 := k xf hh.1
    have k2 := k tf hh.2
    omega

theorem styleVal_adv (t : Text)
    (h : ∀ ts, t.textStyling = some ts → ts.titleBarPadding < 4 ∧ ts.extraSpacing < 8) :
    styleVal t advSettingsBits % 4 = (textOf t).padding ∧ styleVal t advSettingsBits / 4 % 8 = (textOf t).spacing := by
  unfold styleVal textOf
  cases hs : t.textStyling with
  | none => exact ⟨rfl, rfl⟩
  | some ts =>
    have hh := h ts hs
    simp only [Option.getD_some, advSettingsBits_eq]
    omega

theorem readText_enc (t : Text) (hok : textOk t = true) :
    readText (implodeRTE 124 (textField0P t :: textFieldsTail t)) = some (normText (textOf t)) := by
  unfold textOk at hok
  simp only [Bool.and_eq_true] at hok
  obtain ⟨⟨⟨⟨⟨⟨⟨⟨⟨⟨⟨⟨⟨hiv, hfmt⟩, hsi⟩, hmi⟩, hti⟩, hl1⟩, hl2⟩, hiv2⟩, hpm⟩, hsc⟩, hst⟩, hpc⟩, hbc⟩, hpair⟩ := hok
  have hf : ∀ i, fld (splitOn 124 (implodeRTE 124 (textField0P t :: textFieldsTail t))) i = (textField0P t :: textFieldsTail t).getD i [] :=
    fun i => fields_roundtrip 124 _ (fields_nobar t hti hl1 hl2) i
  unfold readText
  simp only [hf]
  simp only [textFieldsTail, List.getD_cons_succ, List.getD_cons_zero]
  have hsty : (match t.textStyling with | some ts => u32ok ts.unformattedFontSize | none => true) = true := by
    cases hts : t.textStyling with
    | none => rfl
    | some ts => rw [hts] at hst; simp only [Bool.and_eq_true] at hst; exact hst.2
  have rfmt := enumOk_range _ _ hfmt
  have rsi := enumOk_range _ _ hsi
  have rmi := enumOk_range _ _ hmi
  have rpm := enumOk_range _ _ hpm
  have riv2 := i32ok_range _ hiv2
  rw [f0_parse t hiv hsty]
  have e1 : intField? (if t.formatting > 0 ∧ t.formatting ≠ 7 then itoa t.formatting else []) =
      some (if t.formatting > 0 ∧ t.formatting ≠ 7 then t.formatting else 0) := by
    split
    · exact intField_itoa _ (by omega)
    · rfl
  have hicon : iconInt t = t.stateIcon.toNat + 8 * t.modifierIcon.toNat := by
    rw [iconInt_eq]; omega
  have e2 : numField? (if t.stateIcon > 0 ∨ t.modifierIcon > 0 then posField (iconInt t) else []) = some (iconInt t) := by
    split
    · exact numField_posField _ (by rw [hicon]; omega)
    · have : iconInt t = 0 := by rw [hicon]; omega
      rw [this]; rfl
  have e4 : numField? (if (!t.solidHeaderBar) = true then asc "1" else []) = some (if t.solidHeaderBar then 0 else 1) := by
    cases t.solidHeaderBar <;> rfl
  have e7 := intField_ifne t.integerValue2 (by omega)
  have e8 := intField_ifpos t.pairMode (by omega)
  have hscr : ∀ s, t.scale = some s → (0 ≤ s.scaleType ∧ s.scaleType ≤ 3) ∧ (-2147483648 ≤ s.rangeLow ∧ s.rangeLow ≤ 2147483647) ∧
      (-2147483648 ≤ s.rangeHigh ∧ s.rangeHigh ≤ 2147483647) ∧ (-2147483648 ≤ s.limitLow ∧ s.limitLow ≤ 2147483647) ∧
      (-2147483648 ≤ s.limitHigh ∧ s.limitHigh ≤ 2147483647) := by
    intro s hs
    rw [hs] at hsc
    simp only [Bool.and_eq_true] at hsc
    exact ⟨enumOk_range _ _ hsc.1.1.1.1, i32ok_range _ hsc.1.1.1.2, i32ok_range _ hsc.1.1.2, i32ok_range _ hsc.1.2, i32ok_range _ hsc.2⟩
  have e9 := scale_parse t (fun s => s.scaleType) (fun s hs => by have := hscr s hs; omega)
  have e10 := scale_parse t (fun s => s.rangeLow) (fun s hs => by have := hscr s hs; omega)
  have e11 := scale_parse t (fun s => s.rangeHigh) (fun s hs => by have := hscr s hs; omega)
  have e12 := scale_parse t (fun s => s.limitLow) (fun s hs => by have := hscr s hs; omega)
  have e13 := scale_parse t (fun s => s.limitHigh) (fun s hs => by have := hscr s hs; omega)
  have hstr : ∀ ts, t.textStyling = some ts →
      fontFaceBits ts < 128 ∧ fontSizeBits ts < 256 ∧ advSettingsBits ts < 32 := by
    intro ts _
    rw [fontFaceBits_eq, fontSizeBits_eq, advSettingsBits_eq]
    refine ⟨?_, ?_, ?_⟩
    · unfold faceOf
      cases ts.textFont <;> cases ts.titleFont <;> cases ts.fixedWidth <;> simp <;> omega
    · unfold wOf hOf
      cases ts.textFont <;> cases ts.titleFont <;> simp <;> omega
    · omega
  have e15 := style_parse t fontFaceBits (fun ts h => by have := hstr ts h; omega)
  have e16 := style_parse t fontSizeBits (fun ts h => by have := hstr ts h; omega)
  have e17 := style_parse t advSettingsBits (fun ts h => by have := hstr ts h; omega)
  have e18 : numField? (if t.inverted = true then asc "1" else []) = some (if t.inverted then 1 else 0) := by
    cases t.inverted <;> rfl
  rw [e1, e2, e4, e7, e8, e9, e10, e11, e12, e13, e15, e16, e17, e18, readTextColor_enc _ hpc, readTextColor_enc _ hbc]
  simp only [bind, Option.bind, pure]
  congr 1
  have hsty2 : ∀ ts, t.textStyling = some ts → (fontOk ts.textFont = true ∧ fontOk ts.titleFont = true) ∧
      (ts.titleBarPadding < 4 ∧ ts.extraSpacing < 8) := by
    intro ts hts
    rw [hts] at hst
    simp only [Bool.and_eq_true, decide_eq_true_eq] at hst
    exact ⟨⟨hst.1.1.1.1, hst.1.1.1.2⟩, hst.1.1.2, hst.1.2⟩
  have hface := styleVal_face t (fun ts h => (hsty2 ts h).1)
  have hsize := styleVal_size t (fun ts h => (hsty2 ts h).1)
  have hadv := styleVal_adv t (fun ts h => (hsty2 ts h).2)
  have hsc0 : ∀ s, t.scale = some s → 0 ≤ s.scaleType := fun s hs => (hscr s hs).1.1
  apply normText_eq_of
  all_goals simp only []
  case hfmt => exact L_fmt' t rfmt.1
  case hval => exact fun h => L_val t h
  case hfs => exact fun h => (L_fs t h).trans (ufsOf_textOf t).symm
  case hsolid => intro _ _; show _ = t.solidHeaderBar; cases t.solidHeaderBar <;> rfl
  case hpair =>
    intro h1011
    show _ = t.pairMode
    have h1011' : is1011 t.formatting = false := h1011
    rw [h1011'] at hpair
    simp only [Bool.false_or, Bool.or_eq_true, Bool.not_eq_true', decide_eq_true_eq, Bool.or_eq_false_iff, bne_eq_false_iff_eq] at hpair
    by_cases hc : (t.textline2 ≠ [] ∨ (if t.integerValue2 ≠ 0 then itoa t.integerValue2 else []) ≠ []) ∧ t.pairMode < 1
    · exfalso
      rcases hpair with hp | hp
      · rcases hc.1 with h | h
        · exact h hp.1
        · rw [if_neg (by simp [hp.2])] at h; exact h rfl
      · omega
    · rw [if_neg hc]
  case hst => exact scaleVal_type t hsc0
  case hrl => exact fun h => scaleVal_other t _ h hsc0
  case hrh => exact fun h => scaleVal_other t _ h hsc0
  case hll => exact fun h => scaleVal_other t _ h hsc0
  case hlh => exact fun h => scaleVal_other t _ h hsc0
  case h1 => show _ = t.stateIcon.toNat; rw [hicon]; omega
  case h2 => show _ = t.modifierIcon.toNat; rw [hicon]; omega
  case h3 => rfl
  case h4 => rfl
  case h5 => rfl
  case h6 => rfl
  case h7 => exact hface.1
  case h8 => exact hface.2.1
  case h9 => exact hface.2.2
  case h10 => exact hsize.1
  case h11 => exact hsize.2.1
  case h12 => exact hsize.2.2.1
  case h13 => exact hsize.2.2.2
  case h14 => exact hadv.1
  case h15 => exact hadv.2
  case h16 => show _ = t.inverted; cases t.inverted <;> rfl
  case h17 => rfl
  case h18 => rfl

theorem text_reads (id : Nat) (hid : id < 4294967296) (t : Option Text)
    (h : (match t with | some t => t = {} || textOk t | none => true) = true) :
    Reads O (textLinesP id t) (opt t (fun t => if t = {} then [] else [Effect.setText id (normText (textOf t))])) := by
  cases t with
  | none => exact Reads.nil O
  | some t =>
    simp only [] at h
    unfold textLinesP opt
    simp only []
    by_cases he : t = {}
    · have : textIsEmpty t = true := by unfold textIsEmpty; simp [he]
      rw [if_pos this, if_pos he]
      exact Reads.nil O
    · have hne : ¬ textIsEmpty t = true := by unfold textIsEmpty; simpa using he
      rw [if_neg hne, if_neg he]
      simp only [he, decide_false, Bool.false_or] at h
      refine Reads.single ?_
      rw [read_hash O (asc "HWCt") (asc "HWCt#") id _ (by decide) (by decide) (by decide) (by decide)]
      unfold readHash
      rw [if_neg (by decide), if_neg (by decide), if_neg (by decide), if_pos rfl, readText_enc t h]
      simp only []
      rw [forIds_utoa id hid]

end RawPanelVerif.EncSound
