import RawPanelVerif.Lemmas.TileSteps
import RawPanelVerif.Lemmas.MonoTotal
import RawPanelVerif.Lemmas.TileCentre
/-!
# Work budget of the tile layout (C18, "does not hang")

`Bd a B`: the operations accumulated so far cost at most `B` loop iterations (`Mono.opWork`, proved against the tick
counter of the checked mono model), and the text sizes are within 1..4 / 0..4 — so each further character costs at most
1522 iterations, a line height is at most 32.
-/
namespace RawPanelVerif.Tile
open RawPanelVerif RawPanelVerif.Mono RawPanelVerif.Gen

/-- budget of the operations accumulated so far -/
def Acc.work (a : Acc) : Nat := (a.ops.toList.map (fun d => opWork d.toOp)).sum

structure Bd (a : Acc) (B : Nat) : Prop where
  w : a.work ≤ B
  h1 : 1 ≤ a.t.tsH
  h4 : a.t.tsH ≤ 4
  v0 : 0 ≤ a.t.tsV
  v4 : a.t.tsV ≤ 4

theorem Bd.mono {a : Acc} {B B' : Nat} (h : Bd a B) (hB : B ≤ B') : Bd a B' := ⟨Nat.le_trans h.w hB, h.h1, h.h4, h.v0, h.v4⟩

theorem Bd_ite {a b : Acc} {B : Nat} (c : Prop) [Decidable c] (ha : Bd a B) (hb : Bd b B) : Bd (if c then a else b) B := by
  split <;> assumption

theorem work_emit (a : Acc) (op : DOp) : (a.emit op).work = a.work + opWork op.toOp := by
  unfold Acc.work Acc.emit; simp

theorem Bd_emit {a : Acc} {B : Nat} (h : Bd a B) (op : DOp) (k : Nat) (hk : opWork op.toOp ≤ k) : Bd (a.emit op) (B + k) :=
  ⟨by rw [work_emit]; have := h.w; omega, h.h1, h.h4, h.v0, h.v4⟩

theorem Bd_font {a : Acc} {B : Nat} (h : Bd a B) (n : Int) (p : Bool) : Bd (a.font n p) B := ⟨h.w, h.h1, h.h4, h.v0, h.v4⟩
theorem Bd_color {a : Acc} {B : Nat} (h : Bd a B) (c : Bool) : Bd (a.color c) B := ⟨h.w, h.h1, h.h4, h.v0, h.v4⟩
theorem Bd_cursor {a : Acc} {B : Nat} (h : Bd a B) (x y : Int) : Bd (a.cursor x y) B := ⟨h.w, h.h1, h.h4, h.v0, h.v4⟩

theorem Bd_size {a : Acc} {B : Nat} (h : Bd a B) (hh vv : Int) (h4 : hh ≤ 4) (v0 : 0 ≤ vv) (v4 : vv ≤ 4) : Bd (a.size hh vv) B := by
  refine ⟨h.w, ?_, ?_, ?_, ?_⟩ <;> (unfold Acc.size setTextSize; simp only []) <;> (repeat' split) <;> omega

theorem Bd_render {a : Acc} {B : Nat} (h : Bd a B) (g : Geom) (s : List Nat) : Bd (a.render g s) (B + 1522 * s.length) := by
  have hs := renderText_style s { geo := g, bytes := #[] } a.t
  refine ⟨?_, ?_, ?_, ?_, ?_⟩
  · have hw : (a.render g s).work = a.work + textWork a.t s := by
      unfold Acc.work Acc.render; simp [DOp.toOp, opWork]
    have := textWork_le a.t s 4 h.h4 h.v4
    have hb := h.w
    rw [hw]
    have e : s.length * (82 + 72 * (4 * (4 + 1))) = 1522 * s.length := by rw [Nat.mul_comm]
    omega
  · show 1 ≤ (renderText _ s).2.tsH; rw [hs.tsH]; exact h.h1
  · show (renderText _ s).2.tsH ≤ 4; rw [hs.tsH]; exact h.h4
  · show 0 ≤ (renderText _ s).2.tsV; rw [hs.tsV]; exact h.v0
  · show (renderText _ s).2.tsV ≤ 4; rw [hs.tsV]; exact h.v4

/-- a line is at most 32 pixels high -/
theorem Bd_lineHeight {a : Acc} {B : Nat} (h : Bd a B) : 0 ≤ a.lineHeight ∧ a.lineHeight ≤ 32 := by
  unfold Acc.lineHeight
  have hb := bbH_le a.t
  have e := C20.lineHeight_eq a.t h.v0 (by have := h.v4; omega) (by omega)
  rw [e]
  have h0 := h.v0
  have h4 := h.v4
  generalize a.t.tsV = v at *
  generalize a.t.fp.bbH = b at *
  have : (b : Int) * v ≤ 8 * 4 := Int.mul_le_mul (by omega) h4 h0 (by omega)
  have : 0 ≤ (b : Int) * v := Int.mul_nonneg (by omega) h0
  omega

theorem qint_le (c : Bool) (a b k : Int) (ha : a ≤ k) (hb : b ≤ k) : qint c a b ≤ k := by unfold qint; split <;> assumption
theorem qint_ge (c : Bool) (a b k : Int) (ha : k ≤ a) (hb : k ≤ b) : k ≤ qint c a b := by unfold qint; split <;> assumption

/-- the "auto narrow" size: within range whenever the font size fields are (they are `& 3`) -/
theorem Bd_narrow {a : Acc} {B : Nat} (h : Bd a B) (mAH fH fV : Int) (hfH : fH ≤ 4) (hfV0 : 0 ≤ fV) (hfV : fV ≤ 4) :
    Bd (a.size (qint (fH > 0) fH 1) (qint (fV > 0) fV (qint (mAH ≥ 12) 2 0))) B :=
  Bd_size h _ _ (qint_le _ _ _ _ hfH (by omega))
    (qint_ge _ _ _ _ hfV0 (qint_ge _ _ _ _ (by omega) (by omega)))
    (qint_le _ _ _ _ hfV (qint_le _ _ _ _ (by omega) (by omega)))

theorem Bd_labelStep {acc : Acc} {B : Nat} (h : Bd acc B) (g : Geom) (tl out : List Nat) (pair a aw mAH mCM fH fV : Int)
    (hfH : fH ≤ 4) (hfV0 : 0 ≤ fV) (hfV : fV ≤ 4) :
    Bd (labelStep acc g tl out pair a aw mAH mCM fH fV) (B + 1522 * tl.length) := by
  unfold labelStep
  split
  · split
    · exact Bd_render (Bd_cursor h _ _) g tl
    · exact Bd_render (Bd_cursor (Bd_ite _ (Bd_narrow h mAH fH fV hfH hfV0 hfV) h) _ _) g tl
  · exact h.mono (by omega)

theorem Bd_valueStep {acc : Acc} {B : Nat} (h : Bd acc B) (g : Geom) (tl out : List Nat) (fmt pair a aw mAH mCM fH fV : Int)
    (hfH : fH ≤ 4) (hfV0 : 0 ≤ fV) (hfV : fV ≤ 4) :
    Bd (valueStep acc g tl out fmt pair a aw mAH mCM fH fV) (B + 1522 * (out.length + 2)) := by
  have e2 : (asciiBytes "1/").length = 2 := by decide
  unfold valueStep
  split
  · split
    · have h1 := Bd_render (Bd_cursor h
          (if tl.length > 0 then constrain (aw - acc.strWidth out - 2) 0 aw else shr1 (constrain (aw - acc.strWidth out) 0 aw))
          (mCM + 1 + (a - 1) * (u32 (acc.lineHeight + 1)))) g out
      simp only []
      split
      · have h2 := Bd_render (Bd_cursor (Bd_size h1 1 1 (by omega) (by omega) (by omega)) (constrain
          ((if tl.length > 0 then constrain (aw - acc.strWidth out - 2) 0 aw else shr1 (constrain (aw - acc.strWidth out) 0 aw)) - 10) 0 100)
          (mCM + 1 + (a - 1) * (u32 (acc.lineHeight + 1)))) g (asciiBytes "1/")
        rw [e2] at h2
        exact h2.mono (by omega)
      · exact h1.mono (by omega)
    · have hn := Bd_ite (aw < acc.strWidth out) (Bd_narrow h mAH fH fV hfH hfV0 hfV) h
      generalize (if aw < acc.strWidth out then acc.size (qint (fH > 0) fH 1) (qint (fV > 0) fV (qint (mAH ≥ 12) 2 0)) else acc) = acc' at hn
      have h1 := Bd_render (Bd_cursor hn
          (if tl.length > 0 then constrain (aw - acc'.strWidth out - 2) 0 aw else shr1 (constrain (aw - acc'.strWidth out) 0 aw))
          (mCM + 1 - (u32 acc'.lineHeight) / 2)) g out
      simp only []
      split
      · have h2 := Bd_render (Bd_cursor (Bd_size h1 1 1 (by omega) (by omega) (by omega)) (constrain
          ((if tl.length > 0 then constrain (aw - acc'.strWidth out - 2) 0 aw else shr1 (constrain (aw - acc'.strWidth out) 0 aw)) - 10) 0 100)
          (mCM + 1 - (u32 acc'.lineHeight) / 2 - 2)) g (asciiBytes "1/")
        rw [e2] at h2
        exact h2.mono (by omega)
      · exact h1.mono (by omega)
  · exact h.mono (by omega)

theorem rrect1_work (x y w hh : Int) (c : Bool) (H : Nat) (hH : hh ≤ H) :
    opWork (DOp.rrect x y w hh 1 c).toOp ≤ 2 * w.toNat + 2 * H + 4 := by
  simp only [DOp.toOp, opWork]
  omega

theorem Bd_borderStep {acc : Acc} {B : Nat} (h : Bd acc B) (pair a aw mCM : Int) :
    Bd (borderStep acc pair a aw mCM) (B + (2 * aw.toNat + 140)) := by
  obtain ⟨l0, l32⟩ := Bd_lineHeight h
  unfold borderStep
  split
  · exact (Bd_emit h _ _ (rrect1_work _ _ _ _ _ 35 (by omega))).mono (by omega)
  · split
    · split
      · exact (Bd_emit h _ _ (rrect1_work _ _ _ _ _ 68 (by omega))).mono (by omega)
      · exact h.mono (by omega)
    · exact h.mono (by omega)

theorem frrect0_work (x y w hh : Int) (c : Bool) (W H : Nat) (hW : w.toNat ≤ W) (hH : hh.toNat ≤ H) :
    opWork (DOp.frrect x y w hh 0 c).toOp ≤ W * (1 + H) := by
  simp only [DOp.toOp, opWork, fcircWork]
  have : (w - 2 * 0).toNat = w.toNat := by simp
  rw [this]
  have := Nat.mul_le_mul hW (show 1 + hh.toNat ≤ 1 + H by omega)
  simp only [Int.toNat_zero, Nat.zero_mul, Nat.add_zero]
  exact this

theorem barLen_toNat_le (n rd aw : Int) : (barLen n rd aw).toNat ≤ aw.toNat := by
  by_cases h : 0 ≤ aw
  · have := barLen_range n rd aw h; omega
  · have := barLen_nonpos n rd aw (by omega); omega

theorem Bd_scaleBar {acc : Acc} {B : Nat} (h : Bd acc B) (inp : TileIn) (sc : Scale) (width aw ah : Int) :
    Bd (scaleBar acc inp sc width aw ah) (B + (2 * width.toNat + 8 * aw.toNat + 40)) := by
  rw [scaleBar_eq]
  split
  · generalize hwb : barLen (inp.intVal - sc.rl) (i32 (sc.rh - sc.rl)) aw = wBar
    have hwB : wBar.toNat ≤ aw.toNat := by rw [← hwb]; exact barLen_toNat_le _ _ _
    have b0 : Bd (acc.emit (.rrect 0 (ah - 1) width 1 0 true)) (B + (2 * width.toNat + 2)) :=
      Bd_emit h _ _ (by simp only [DOp.toOp, opWork]; omega)
    have b1 : Bd (barStep (acc.emit (.rrect 0 (ah - 1) width 1 0 true)) sc wBar ah) (B + (2 * width.toNat + 2) + aw.toNat * 4) := by
      unfold barStep
      exact Bd_ite _ (Bd_emit b0 _ _ (frrect0_work _ _ _ _ _ aw.toNat 3 hwB (by omega))) (b0.mono (by omega))
    generalize barStep (acc.emit (.rrect 0 (ah - 1) width 1 0 true)) sc wBar ah = a1 at b1
    unfold scaleRest
    simp only []
    have b2 := Bd_ite (sc.stype = 2) (Bd_emit b1 (.frrect (constrain (wBar - 1) 0 (aw - 3)) (ah - 3) 3 3 0 true) _
      (frrect0_work _ _ _ _ _ 3 3 (by omega) (by omega))) (b1.mono (by omega))
    generalize (if sc.stype = 2 then a1.emit (.frrect (constrain (wBar - 1) 0 (aw - 3)) (ah - 3) 3 3 0 true) else a1) = a2 at b2
    have hc : (constrain (wBar - shr1 aw).natAbs 1 (shr1 aw)).toNat ≤ 1 + aw.toNat := by
      unfold constrain shr1
      split
      · omega
      · split <;> omega
    have b3 := Bd_ite (sc.stype = 3) (Bd_emit b2 (.frrect (qint (wBar - shr1 aw < 0) (constrain (shr1 aw + (wBar - shr1 aw)) 0 aw) (shr1 aw))
      (ah - 3) (constrain (wBar - shr1 aw).natAbs 1 (shr1 aw)) 3 0 true) _
      (frrect0_work _ _ _ _ _ (1 + aw.toNat) 3 hc (by omega))) (b2.mono (by omega))
    generalize (if sc.stype = 3 then a2.emit (.frrect (qint (wBar - shr1 aw < 0) (constrain (shr1 aw + (wBar - shr1 aw)) 0 aw) (shr1 aw))
      (ah - 3) (constrain (wBar - shr1 aw).natAbs 1 (shr1 aw)) 3 0 true) else a2) = a3 at b3
    have b4 := Bd_ite (sc.rh > sc.lh) (Bd_emit b3 (.frrect (constrain (barLen (i32 (sc.lh - sc.rl)) (i32 (sc.rh - sc.rl)) aw) 0 (aw - 1))
      (ah - 4) 1 3 0 true) _ (frrect0_work _ _ _ _ _ 1 3 (by omega) (by omega))) (b3.mono (by omega))
    generalize (if sc.rh > sc.lh then a3.emit (.frrect (constrain (barLen (i32 (sc.lh - sc.rl)) (i32 (sc.rh - sc.rl)) aw) 0 (aw - 1))
      (ah - 4) 1 3 0 true) else a3) = a4 at b4
    have b5 := Bd_ite (sc.rl < sc.ll) (Bd_emit b4 (.frrect (constrain (barLen (i32 (sc.ll - sc.rl)) (i32 (sc.rh - sc.rl)) aw) 0 (aw - 1))
      (ah - 4) 1 3 0 true) _ (frrect0_work _ _ _ _ _ 1 3 (by omega) (by omega))) (b4.mono (by omega))
    exact b5.mono (by omega)
  · exact h.mono (by omega)

/-- one content iteration -/
theorem Bd_contentIter {acc : Acc} {B : Nat} (h : Bd acc B) (g : Geom) (inp : TileIn) (sc : Scale)
    (a width height aw ah mAH mCM fH fV : Int) (hfH : fH ≤ 4) (hfV0 : 0 ≤ fV) (hfV : fV ≤ 4) :
    Bd (contentIter acc g inp sc a width height aw ah mAH mCM fH fV)
      (B + (1522 * ((iterLine inp a).length + (iterValue inp a).length + 2) + 2 * width.toNat + 10 * aw.toNat + 180)) := by
  rw [contentIter_eq, contentBody_steps]
  have b1 := Bd_labelStep h g (iterLine inp a) (iterValue inp a) inp.pair a aw mAH mCM fH fV hfH hfV0 hfV
  have b2 := Bd_valueStep b1 g (iterLine inp a) (iterValue inp a) inp.fmt inp.pair a aw mAH mCM fH fV hfH hfV0 hfV
  have b3 := Bd_borderStep b2 inp.pair a aw mCM
  split
  · exact (Bd_scaleBar b3 inp sc width aw ah).mono (by omega)
  · exact b3.mono (by omega)

theorem frrect1_work (x y w hh : Int) (c : Bool) (W H : Nat) (hW : w.toNat ≤ W) (hH : hh.toNat ≤ H) :
    opWork (DOp.frrect x y w hh 1 c).toOp ≤ W * (1 + H) + 2 + 8 * H := by
  simp only [DOp.toOp, opWork, fcircWork]
  have h1 : (w - 2 * 1).toNat ≤ W := by omega
  have := Nat.mul_le_mul h1 (show 1 + hh.toNat ≤ 1 + H by omega)
  have e : (1 : Int).toNat = 1 := rfl
  rw [e]
  omega

theorem Bd_titleStep {acc : Acc} {B : Nat} (h : Bd acc B) (g : Geom) (inp : TileIn) (aw th tp : Int) (TH : Nat) (hth : th.toNat ≤ TH) :
    Bd (titleStep acc g inp aw th tp) (B + (aw.toNat * (1 + TH) + 2 + 8 * TH + 1522 * inp.title.length)) := by
  unfold titleStep
  split
  · have hb : Bd (if (!inp.solid) = true then (acc.emit (.hline 1 (u32 (th - 1)) (aw - 2) true)).color true
        else (acc.emit (.frrect 0 0 aw th 1 true)).color false) (B + (aw.toNat * (1 + TH) + 2 + 8 * TH)) := by
      refine Bd_ite _ (Bd_color ((Bd_emit h _ (aw.toNat * (1 + TH) + 2 + 8 * TH) ?_)) _)
        (Bd_color (Bd_emit h _ _ (frrect1_work _ _ _ _ _ aw.toNat TH (by omega) hth)) _)
      simp only [DOp.toOp, opWork]
      have : aw.toNat ≤ aw.toNat * (1 + TH) := Nat.le_mul_of_pos_right _ (by omega)
      omega
    generalize (if (!inp.solid) = true then (acc.emit (.hline 1 (u32 (th - 1)) (aw - 2) true)).color true
        else (acc.emit (.frrect 0 0 aw th 1 true)).color false) = a1 at hb
    exact (Bd_render (Bd_cursor hb _ _) g inp.title).mono (by omega)
  · exact h.mono (by omega)

theorem bitmap_work (x y : Int) (bits : Array UInt8) (w hh : Int) (c i a : Bool) :
    opWork (DOp.bitmap x y bits w hh c i a).toOp = hh.toNat * (1 + w.toNat) := rfl

theorem Bd_stateIconStep {acc : Acc} {B : Nat} (h : Bd acc B) (inp : TileIn) (aw th : Int) :
    Bd (stateIconStep acc inp aw th) (B + 84) := by
  unfold stateIconStep
  have b1 := Bd_ite (inp.stateIcon = 1) (Bd_emit h (.bitmap (aw - 7) th speedGraphic 5 2 true false false) 12 (by rw [bitmap_work]; decide))
    (h.mono (by omega))
  exact Bd_ite _ ((Bd_emit b1 _ 72 (by rw [bitmap_work]; decide)).mono (by omega)) (b1.mono (by omega))

theorem Bd_tailIconStep {acc : Acc} {B : Nat} (h : Bd acc B) (inp : TileIn) (aw ah th : Int) :
    Bd (tailIconStep acc inp aw ah th) (B + 144) := by
  unfold tailIconStep
  have b1 := Bd_ite (inp.stateIcon = 3) (Bd_emit h (.bitmap (aw - 8) (ah - 8) noAccessGraphic 8 8 true true true) 72 (by rw [bitmap_work]; decide))
    (h.mono (by omega))
  exact Bd_ite _ ((Bd_emit b1 _ 72 (by rw [bitmap_work]; decide)).mono (by omega)) (b1.mono (by omega))

theorem Bd_contentSetup {acc : Acc} {B : Nat} (h : Bd acc B) (inp : TileIn) (height ffc : Int) (fprop : Bool) (mAH fH fV : Int)
    (hfH : fH ≤ 4) (hfV0 : 0 ≤ fV) (hfV : fV ≤ 4) : Bd (contentSetup acc inp height ffc fprop mAH fH fV) B := by
  unfold contentSetup
  have b1 := Bd_size (Bd_color (Bd_font h ffc fprop) true) (qint (fH > 0) fH (qint (inp.pair > 0) 1 2))
    (qint (fV > 0) fV (qint (height ≥ 48) 2 0))
    (qint_le _ _ _ _ hfH (qint_le _ _ _ _ (by omega) (by omega)))
    (qint_ge _ _ _ _ hfV0 (qint_ge _ _ _ _ (by omega) (by omega)))
    (qint_le _ _ _ _ hfV (qint_le _ _ _ _ (by omega) (by omega)))
  have b2 := Bd_ite (height < 32 ∧ inp.pair > 0) (Bd_font b1 2 fprop) b1
  exact Bd_ite _ (Bd_size b2 1 1 (by omega) (by omega) (by omega)) b2

theorem emod4 (x : Int) : 0 ≤ x.emod 4 ∧ x.emod 4 ≤ 3 := by
  have : x.emod 4 = x % 4 := rfl
  omega

/-- facts about the derived values: the size fields are two-bit, the active area is not wider than the tile -/
theorem derive_facts (inp : TileIn) (width height shrink border : Int) :
    (0 ≤ (derive inp width height shrink border).fH ∧ (derive inp width height shrink border).fH ≤ 3) ∧
    (0 ≤ (derive inp width height shrink border).fV ∧ (derive inp width height shrink border).fV ≤ 3) ∧
    (0 ≤ (derive inp width height shrink border).tH ∧ (derive inp width height shrink border).tH ≤ 3) ∧
    (0 ≤ (derive inp width height shrink border).tV ∧ (derive inp width height shrink border).tV ≤ 3) ∧
    (derive inp width height shrink border).aw.toNat ≤ width.toNat ∧
    (derive inp width height shrink border).ah.toNat ≤ height.toNat :=
  ⟨emod4 _, emod4 _, emod4 _, emod4 _,
   by show (qint _ _ _).toNat ≤ _
      unfold qint
      by_cases hb : border > 0 <;> simp only [hb, decide_true, decide_false, if_true, Bool.false_eq_true, if_false] <;>
        (try split) <;> omega,
   by show (qint _ _ _).toNat ≤ _
      unfold qint
      by_cases hb : border > 0 <;> simp only [hb, decide_true, decide_false, if_true, Bool.false_eq_true, if_false] <;>
        (try split) <;> omega⟩

theorem derive_rest (inp : TileIn) (width height shrink border : Int) :
    (derive inp width height shrink border).pad = (inp.styling.getD {}).titlePad ∧
    (derive inp width height shrink border).aw = (activeWH width height shrink border).1 ∧
    (derive inp width height shrink border).ah = (activeWH width height shrink border).2 := ⟨rfl, rfl, rfl⟩

theorem Bd_acc0 (d : Derived) : Bd (acc0 d) 0 :=
  ⟨by show ([] : List Nat).sum ≤ 0; decide, by show (1 : Int) ≤ 1; decide, by show (1 : Int) ≤ 4; decide,
   by show (0 : Int) ≤ 1; decide, by show (1 : Int) ≤ 4; decide⟩

theorem Bd_plainSetup (inp : TileIn) (width height shrink border : Int) :
    Bd ((((acc0 (derive inp width height shrink border)).font (derive inp width height shrink border).ffc
        (derive inp width height shrink border).fprop).color true).size
      (qint ((derive inp width height shrink border).fH > 0) (derive inp width height shrink border).fH
        (constrain (derive inp width height shrink border).unf 1 4))
      (qint ((derive inp width height shrink border).fV > 0) (derive inp width height shrink border).fV
        (constrain (derive inp width height shrink border).unf 1 4))) 0 := by
  obtain ⟨⟨a0, a3⟩, ⟨b0, b3⟩, _⟩ := derive_facts inp width height shrink border
  have hu := constrain_range (derive inp width height shrink border).unf 1 4 (by decide)
  exact Bd_size (Bd_color (Bd_font (Bd_acc0 _) _ _) true) _ _ (qint_le _ _ _ _ (by omega) hu.2)
    (qint_ge _ _ _ _ b0 (by omega)) (qint_le _ _ _ _ (by omega) hu.2)

theorem Bd_plain10 (inp : TileIn) (width height shrink border : Int) :
    Bd (plain10 inp (derive inp width height shrink border)) (1522 * inp.title.length) := by
  unfold plain10
  exact (Bd_render (Bd_cursor (Bd_plainSetup inp width height shrink border) _ _) _ inp.title).mono (by omega)

theorem Bd_plain11 (inp : TileIn) (width height shrink border : Int) :
    Bd (plain11 inp (derive inp width height shrink border)) (1522 * (inp.line1.length + inp.line2.length)) := by
  unfold plain11
  have b1 := fun x y => Bd_render (Bd_cursor (Bd_plainSetup inp width height shrink border) x y)
    (derive inp width height shrink border).g inp.line1
  exact (Bd_render (Bd_cursor (b1 _ _) _ _) _ inp.line2).mono (by omega)

theorem Bd_titleSetup (inp : TileIn) (width height shrink border : Int) :
    Bd (titleSetup (derive inp width height shrink border) width height) 0 := by
  obtain ⟨_, _, ⟨a0, a3⟩, ⟨b0, b3⟩, _⟩ := derive_facts inp width height shrink border
  unfold titleSetup
  exact Bd_size (Bd_font (Bd_acc0 _) _ _) _ _ (qint_le _ _ _ _ (by omega) (qint_le _ _ _ _ (by omega) (by omega)))
    (qint_ge _ _ _ _ b0 (by omega)) (qint_le _ _ _ _ (by omega) (by omega))

/-- with `TitleBarPadding` in its documented range 0..3 the title bar is at most 37 pixels high -/
theorem titleHeight_le (inp : TileIn) (width height shrink border : Int) (hp : (inp.styling.getD {}).titlePad ≤ 3) :
    0 ≤ titleHeightOf (derive inp width height shrink border) width height ∧
    titleHeightOf (derive inp width height shrink border) width height ≤ 37 := by
  obtain ⟨l0, l32⟩ := Bd_lineHeight (Bd_titleSetup inp width height shrink border)
  have hpad : (derive inp width height shrink border).pad ≤ 3 := hp
  unfold titleHeightOf
  generalize (titleSetup (derive inp width height shrink border) width height).lineHeight = lh at *
  have htp : 1 ≤ titlePaddingOf (derive inp width height shrink border) width height ∧
      titlePaddingOf (derive inp width height shrink border) width height ≤ 3 := by
    unfold titlePaddingOf qint
    repeat' split
    all_goals (first | omega | (rename_i hh; simp at hh; omega))
  generalize titlePaddingOf (derive inp width height shrink border) width height = tp at *
  have e1 : u32 tp = tp := by unfold u32; exact Int.emod_eq_of_lt (by omega) (by omega)
  rw [e1]
  have e2 : u32 (lh - 1 + 2 * tp) = lh - 1 + 2 * tp := by unfold u32; exact Int.emod_eq_of_lt (by omega) (by omega)
  rw [e2]
  omega

theorem Bd_headPart (inp : TileIn) (width height shrink border : Int) (hp : (inp.styling.getD {}).titlePad ≤ 3) :
    Bd (headPart inp (derive inp width height shrink border) width height)
      ((derive inp width height shrink border).aw.toNat * 38 + 298 + 1522 * inp.title.length + 84) := by
  obtain ⟨t0, t37⟩ := titleHeight_le inp width height shrink border hp
  unfold headPart
  exact (Bd_stateIconStep (Bd_titleStep (Bd_titleSetup inp width height shrink border) _ inp _ _ _ 37 (by omega)) inp _ _).mono
    (by omega)

/-- the strings one call renders: title, two label lines, two formatted values, twice "1/" -/
def textLen (inp : TileIn) : Nat :=
  inp.title.length + inp.line1.length + inp.line2.length + (valueString inp.fmt inp.intVal).length +
    (valueString inp.fmt inp.intVal2).length + 4

theorem Bd_tileAcc (inp : TileIn) (width height shrink border : Int) (hp : (inp.styling.getD {}).titlePad ≤ 3) :
    Bd (tileAcc inp width height shrink border) (1522 * textLen inp + 62 * width.toNat + 900) := by
  obtain ⟨⟨a0, a3⟩, ⟨b0, b3⟩, _, _, haw, _⟩ := derive_facts inp width height shrink border
  rw [tileAcc_eq_with, tileAccWith_steps]
  split
  · exact (Bd_plain10 inp width height shrink border).mono (by unfold textLen; omega)
  split
  · exact (Bd_plain11 inp width height shrink border).mono (by unfold textLen; omega)
  have hh := Bd_headPart inp width height shrink border hp
  unfold defaultWith
  simp only []
  split
  · have c0 := Bd_contentSetup hh inp height (derive inp width height shrink border).ffc (derive inp width height shrink border).fprop
      (availOf inp (derive inp width height shrink border) width height) (derive inp width height shrink border).fH
      (derive inp width height shrink border).fV (by omega) b0 (by omega)
    have c1 := Bd_contentIter c0 (derive inp width height shrink border).g inp (derive inp width height shrink border).sc 0 width height
      (derive inp width height shrink border).aw (derive inp width height shrink border).ah
      (availOf inp (derive inp width height shrink border) width height) (middleOf inp (derive inp width height shrink border) width height)
      (derive inp width height shrink border).fH (derive inp width height shrink border).fV (by omega) b0 (by omega)
    have c2 := Bd_ite (inp.pair > 0) (Bd_contentIter c1 (derive inp width height shrink border).g inp
      (derive inp width height shrink border).sc 1 width height
      (derive inp width height shrink border).aw (derive inp width height shrink border).ah
      (availOf inp (derive inp width height shrink border) width height) (middleOf inp (derive inp width height shrink border) width height)
      (derive inp width height shrink border).fH (derive inp width height shrink border).fV (by omega) b0 (by omega)) (c1.mono (by omega))
    have c3 := Bd_tailIconStep c2 inp (derive inp width height shrink border).aw (derive inp width height shrink border).ah
      (titleHeightOf (derive inp width height shrink border) width height)
    refine c3.mono ?_
    have e0 : (iterLine inp 0).length = inp.line1.length := rfl
    have e1 : (iterLine inp 1).length = inp.line2.length := rfl
    have e2 : (iterValue inp 0).length = (valueString inp.fmt inp.intVal).length := rfl
    have e3 : (iterValue inp 1).length = (valueString inp.fmt inp.intVal2).length := rfl
    rw [e0, e1, e2, e3]
    unfold textLen
    omega
  · exact hh.mono (by unfold textLen; omega)

/-- the closed-form budget of one call -/
def tileWorkBound (w h L : Nat) : Nat := w * (1 + h) + 1522 * L + 62 * w + 900

theorem tileWork_le (inp : TileIn) (w h : Nat) (shrink border : Int) (hp : (inp.styling.getD {}).titlePad ≤ 3) :
    ((tileOps inp w h shrink border).map opWork).sum ≤ tileWorkBound w h (textLen inp) := by
  have hb := (Bd_tileAcc inp w h shrink border hp).w
  unfold Acc.work at hb
  unfold tileOps layoutOps tileWorkBound
  simp only [List.map_cons, List.sum_cons, List.map_map, opWork]
  have e : (List.map (opWork ∘ DOp.toOp) (tileAcc inp w h shrink border).ops.toList) =
      (List.map (fun d => opWork d.toOp) (tileAcc inp w h shrink border).ops.toList) := rfl
  rw [e]
  simp only [Int.toNat_natCast] at hb ⊢
  omega

end RawPanelVerif.Tile
