import RawPanelVerif.Lemmas.EncSoundText
/-! C01 `enc_sound`: assembly over ids, states, messages; no emitted line contains a line feed (in the domain), so the
return-site flattening is the identity; final statement `enc_sound_all`. -/
namespace RawPanelVerif.EncSound
open RawPanelVerif RawPanelVerif.Bytes RawPanelVerif.MsgIn RawPanelVerif.Model.In RawPanelVerif.InBits RawPanelVerif.ReadIn
open RawPanelVerif.Spec.In RawPanelVerif.TotalIn

variable (O : Oracles)

theorem id_reads (s : State) (hs : stateOk s = true) (id : Nat) (hid : id < 4294967296) :
    Reads O (idLinesP s id) (effectsOfStateId s id) := by
  unfold stateOk at hs
  simp only [Bool.and_eq_true] at hs
  obtain ⟨⟨⟨⟨⟨⟨_, hm⟩, hc⟩, he⟩, ht⟩, hg⟩, hp⟩ := hs
  unfold idLinesP effectsOfStateId
  have : s.processors = none := by
    cases hh : s.processors with
    | none => rfl
    | some _ => rw [hh] at hp; simp at hp
  rw [this, show procLines none = [] from rfl, List.append_nil]
  exact Reads.append (Reads.append (Reads.append (Reads.append (Reads.append
    (mode_reads O id hid s.mode hm) (color_reads O id hid s.color hc)) (ext_reads O id hid s.ext he))
    (text_reads O id hid s.text ht)) (gfx_reads O id hid s.gfx hg)) (raw_reads O id hid s.rawADC)

theorem state_reads (s : State) (hs : stateOk s = true) : Reads O (stateLinesP s) (effectsOfState s) := by
  unfold stateLinesP effectsOfState
  apply Reads.flatMap
  intro id hid
  have : s.ids.all u32ok = true := by
    unfold stateOk at hs
    simp only [Bool.and_eq_true] at hs
    exact hs.1.1.1.1.1.1
  rw [List.all_eq_true] at this
  exact id_reads O s hs id (u32ok_lt _ (this id hid))

theorem msg_reads (m : InMsg) (hm : msgOk O m = true) : Reads O (msgLinesP O m) (effectsOfIn m) := by
  unfold msgOk at hm
  simp only [Bool.and_eq_true] at hm
  obtain ⟨⟨⟨hf, hc⟩, hs⟩, hr⟩ := hm
  unfold msgLinesP effectsOfIn
  refine Reads.append (Reads.append (Reads.append (flow_reads O m.flow hf) ?_) ?_) ?_
  · exact optLine_reads O _ _ _ (fun c hcc => cmd_reads O c (optOk_some _ _ _ hc hcc))
  · apply Reads.flatMap
    intro s hs'
    rw [List.all_eq_true] at hs
    exact state_reads O s (hs s hs')
  · apply Reads.flatMap
    intro r hr'
    rw [List.all_eq_true] at hr
    exact reg_reads O r (hr r hr')

theorem raw_reads_all (ms : List InMsg) (h : inDomainIn O ms = true) : Reads O (encRawP O ms) (ms.flatMap effectsOfIn) := by
  unfold encRawP
  apply Reads.flatMap
  intro m hm
  unfold inDomainIn at h
  rw [List.all_eq_true] at h
  exact msg_reads O m (h m hm)

/-! ## no line feed in any emitted line (in the domain) -/

def NoLF (ls : List Bytes) : Prop := ∀ l ∈ ls, (10 : UInt8) ∉ l

theorem NoLF.nil : NoLF [] := fun _ h => by simp at h
theorem NoLF.append {a b : List Bytes} (ha : NoLF a) (hb : NoLF b) : NoLF (a ++ b) := by
  intro l hl
  simp only [List.mem_append] at hl
  rcases hl with hl | hl
  · exact ha l hl
  · exact hb l hl
theorem NoLF.single {l : Bytes} (h : (10 : UInt8) ∉ l) : NoLF [l] := by
  intro x hx
  simp only [List.mem_singleton] at hx
  subst hx; exact h
theorem NoLF.flatMap {α : Type} (xs : List α) (f : α → List Bytes) (h : ∀ x ∈ xs, NoLF (f x)) : NoLF (xs.flatMap f) := by
  intro l hl
  simp only [List.mem_flatMap] at hl
  obtain ⟨x, hx, hl⟩ := hl
  exact h x hx l hl
theorem NoLF.flag (b : Bool) (w : Bytes) (h : (10 : UInt8) ∉ w) : NoLF (flag b w) := by
  cases b
  · exact NoLF.nil
  · exact NoLF.single h
theorem NoLF.optLine {α : Type} (o : Option α) (f : α → List Bytes) (h : ∀ a, o = some a → NoLF (f a)) : NoLF (optLine o f) := by
  cases o with
  | none => exact NoLF.nil
  | some a => exact h a rfl
theorem NoLF.map {α : Type} (xs : List α) (f : α → Bytes) (h : ∀ x ∈ xs, (10 : UInt8) ∉ f x) : NoLF (xs.map f) := by
  intro l hl
  simp only [List.mem_map] at hl
  obtain ⟨x, hx, rfl⟩ := hl
  exact h x hx

theorem nl_append (a b : Bytes) (ha : (10 : UInt8) ∉ a) (hb : (10 : UInt8) ∉ b) : (10 : UInt8) ∉ a ++ b := by
  intro h
  simp only [List.mem_append] at h
  rcases h with h | h
  · exact ha h
  · exact hb h
theorem nl_utoa (n : Nat) : (10 : UInt8) ∉ utoa n := not_mem_utoa n 10 (by decide)
theorem nl_itoa (z : Int) : (10 : UInt8) ∉ itoa z := not_mem_itoa z 10 (by decide) (by decide)
theorem nl_b01 (b : Bool) : (10 : UInt8) ∉ b01 b := by cases b <;> decide
theorem nl_b64 (b : Bytes) : (10 : UInt8) ∉ B64In.encode b := not_mem_b64 b 10 (by decide) (by decide)
theorem nl_nil : (10 : UInt8) ∉ ([] : Bytes) := by simp

macro "nolf" : tactic =>
  `(tactic| repeat (first | exact nl_utoa _ | exact nl_itoa _ | exact nl_b01 _ | exact nl_b64 _ | exact nl_nil | assumption | decide | apply nl_append))

theorem flow_nolf (f : Int) : NoLF (flowLines f) := by
  unfold flowLines
  split
  · exact NoLF.single (by decide)
  · split
    · exact NoLF.single (by decide)
    · split
      · exact NoLF.single (by decide)
      · exact NoLF.nil

theorem env_nolf (m : Int) : NoLF (envLine m) := by
  unfold envLine
  split
  · exact NoLF.single (by decide)
  · split
    · exact NoLF.single (by decide)
    · split
      · exact NoLF.single (by decide)
      · exact NoLF.nil

theorem cmd_nolf (c : Command) (h : cmdOk O c = true) : NoLF (cmdLines O c) := by
  simp only [cmdOk, Bool.and_eq_true] at h
  obtain ⟨⟨⟨⟨⟨⟨⟨⟨⟨h1, h2⟩, h3⟩, h4⟩, h5⟩, h6⟩, h7⟩, h8⟩, h9⟩, h10⟩ := h
  unfold cmdLines
  repeat' apply NoLF.append
  any_goals (exact NoLF.flag _ _ (by decide))
  · exact NoLF.optLine _ _ (fun p _ => NoLF.single (by nolf))
  · exact NoLF.optLine _ _ (fun j _ => NoLF.single (nl_append _ _ (by decide) (C07.strip_no_lf j)))
  · refine NoLF.optLine _ _ (fun n hn => NoLF.single (nl_append _ _ (by decide) ?_))
    have := optOk_some _ _ _ h2 hn
    simp only [Bool.and_eq_true, Bool.not_eq_true', List.contains_eq_mem, decide_eq_false_iff_not] at this
    exact this.2
  · exact NoLF.optLine _ _ (fun m _ => env_nolf m)
  all_goals exact NoLF.optLine _ _ (fun v _ => NoLF.single (by nolf))

theorem nl_join (fs : List Bytes) (h : ∀ f ∈ fs, (10 : UInt8) ∉ f) : (10 : UInt8) ∉ implodeRTE 124 fs := by
  intro hm
  unfold implodeRTE at hm
  rcases mem_join 124 10 _ hm with h1 | ⟨f, hf, hb⟩
  · exact absurd h1 (by decide)
  · exact h f (mem_dropTrailingEmpty fs f hf) hb

theorem nl_gfxKeyword (t : Int) : (10 : UInt8) ∉ gfxKeyword t := by
  unfold gfxKeyword
  split
  · decide
  · split <;> decide

theorem nl_gfxHeader (g : Gfx) (total : Nat) : (10 : UInt8) ∉ gfxHeader g total := by
  unfold gfxHeader
  cases g.xyOffset
  · simp only [Bool.false_eq_true, if_false]; nolf
  · simp only [if_true]; nolf

theorem id_nolf (s : State) (hs : stateOk s = true) (id : Nat) : NoLF (idLinesP s id) := by
  unfold stateOk at hs
  simp only [Bool.and_eq_true] at hs
  obtain ⟨⟨⟨⟨⟨⟨_, _⟩, _⟩, _⟩, ht⟩, _⟩, hp⟩ := hs
  have : s.processors = none := by
    cases hh : s.processors with
    | none => rfl
    | some _ => rw [hh] at hp; simp at hp
  unfold idLinesP
  rw [this]
  repeat' apply NoLF.append
  · exact NoLF.optLine _ _ (fun m _ => NoLF.single (by nolf))
  · refine NoLF.optLine _ _ (fun c _ => ?_)
    cases c.rgb with
    | some rgb => exact NoLF.single (by nolf)
    | none =>
      cases c.index with
      | some i => exact NoLF.single (by nolf)
      | none => exact NoLF.nil
  · exact NoLF.optLine _ _ (fun m _ => NoLF.single (by nolf))
  · unfold textLinesP
    cases hst : s.text with
    | none => exact NoLF.nil
    | some t =>
      simp only []
      split
      · exact NoLF.nil
      · rename_i hne
        rw [hst] at ht
        simp only [] at ht
        have he : ¬ t = {} := by unfold textIsEmpty at hne; simpa using hne
        simp only [he, decide_false, Bool.false_or] at ht
        have hok := ht
        unfold textOk at ht
        simp only [Bool.and_eq_true] at ht
        obtain ⟨⟨⟨⟨⟨⟨⟨⟨⟨⟨⟨⟨⟨_, _⟩, _⟩, _⟩, hti⟩, hl1⟩, hl2⟩, _⟩, _⟩, _⟩, _⟩, _⟩, _⟩, _⟩ := ht
        refine NoLF.single (nl_append _ _ (by nolf) (nl_join _ (fields_nolf t hti hl1 hl2)))
  · unfold gfxLinesP
    cases s.gfx with
    | none => exact NoLF.nil
    | some g =>
      simp only []
      split
      · exact NoLF.nil
      · refine NoLF.map _ _ (fun i _ => ?_)
        unfold gfxLineOf
        have := nl_gfxKeyword g.imageType
        have := nl_gfxHeader g (totalLines g.imageData.length)
        split <;> nolf
  · exact NoLF.optLine _ _ (fun m _ => NoLF.single (by nolf))
  · exact NoLF.nil

theorem reg_nolf (r : Register) (h : regOk r = true) : NoLF (regLine r) := by
  unfold regOk at h
  simp only [Bool.and_eq_true] at h
  obtain ⟨⟨_, _⟩, hid⟩ := h
  have hidl : (10 : UInt8) ∉ r.id := by
    split at hid
    · exact all_not_mem _ r.id 10 hid (by decide)
    · exact all_not_mem _ r.id 10 hid (by decide)
  unfold regLine
  split
  · exact NoLF.single (by nolf)
  · split
    · exact NoLF.single (by nolf)
    · split
      · exact NoLF.single (by nolf)
      · split
        · exact NoLF.single (by nolf)
        · exact NoLF.nil

theorem raw_nolf (ms : List InMsg) (h : inDomainIn O ms = true) : NoLF (encRawP O ms) := by
  unfold encRawP
  refine NoLF.flatMap _ _ (fun m hm => ?_)
  unfold inDomainIn at h
  rw [List.all_eq_true] at h
  have hmm := h m hm
  unfold msgOk at hmm
  simp only [Bool.and_eq_true] at hmm
  obtain ⟨⟨⟨_, hc⟩, hs⟩, hr⟩ := hmm
  unfold msgLinesP
  refine NoLF.append (NoLF.append (NoLF.append (flow_nolf m.flow) ?_) ?_) ?_
  · exact NoLF.optLine _ _ (fun c hcc => cmd_nolf O c (optOk_some _ _ _ hc hcc))
  · refine NoLF.flatMap _ _ (fun s hs' => ?_)
    rw [List.all_eq_true] at hs
    unfold stateLinesP
    exact NoLF.flatMap _ _ (fun id _ => id_nolf s (hs s hs') id)
  · refine NoLF.flatMap _ _ (fun r hr' => ?_)
    rw [List.all_eq_true] at hr
    exact reg_nolf r (hr r hr')

/-- **enc_sound** -/
theorem enc_sound_all (ms : List InMsg) (h : inDomainIn O ms = true) :
    readInbound O (encIn O ms) = ms.flatMap effectsOfIn := by
  unfold encIn
  rw [map_singleLine_id _ (raw_nolf O ms h)]
  exact (raw_reads_all O ms h).result

end RawPanelVerif.EncSound
