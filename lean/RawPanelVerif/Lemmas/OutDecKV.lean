import RawPanelVerif.Lemmas.OutSysDec
/-! The key=value family and registers for `decOut_sound` (C04). -/
namespace RawPanelVerif.OutLemmas
open RawPanelVerif RawPanelVerif.Bytes RawPanelVerif.MsgOut RawPanelVerif.EncOut RawPanelVerif.DecOut
open RawPanelVerif.Spec.Out

/-! ### the key=value family: the model's matcher -/

theorem append_sep_inj (sep : UInt8) (a b c d : Bytes) (ha : sep ∉ a) (hc : sep ∉ c) (h : a ++ sep :: b = c ++ sep :: d) :
    a = c ∧ b = d := by
  induction a generalizing c with
  | nil =>
    cases c with
    | nil => simpa using h
    | cons x xs =>
      simp only [List.nil_append, List.cons_append, List.cons.injEq] at h
      exact absurd (by simp [h.1]) hc
  | cons y ys ih =>
    cases c with
    | nil =>
      simp only [List.nil_append, List.cons_append, List.cons.injEq] at h
      exact absurd (by simp [h.1]) ha
    | cons x xs =>
      simp only [List.cons_append, List.cons.injEq] at h
      obtain ⟨e, r⟩ := ih xs (fun m => ha (by simp [m])) (fun m => hc (by simp [m])) h.2
      exact ⟨by rw [h.1, e], r⟩

theorem stripPrefix_some (p s r : Bytes) (h : stripPrefix p s = some r) : s = p ++ r := by
  rw [stripPrefix_eq_dropPrefix] at h; exact dropPrefix_some p s r h

theorem findSome_unique {α β : Type} (f : α → Option β) (l : List α) (a : α) (b : β) (ha : a ∈ l) (hfa : f a = some b)
    (hother : ∀ x ∈ l, x ≠ a → f x = none) : l.findSome? f = some b := by
  induction l with
  | nil => simp at ha
  | cons x xs ih =>
    rw [List.findSome?_cons]
    by_cases e : x = a
    · subst e; rw [hfa]
    · rw [hother x (by simp) e]
      simp only [List.mem_cons] at ha
      rcases ha with ha | ha
      · exact absurd ha.symm e
      · exact ih ha (fun y hy => hother y (by simp [hy]))

theorem genericKeys_no_eq : ∀ k ∈ genericKeys, (61 : UInt8) ∉ k := by decide
theorem generic_iff_info : (∀ k ∈ genericKeys, k ∈ infoKeys) ∧ (∀ k ∈ infoKeys, k ∈ genericKeys) := by decide

theorem matchGeneric_line (key v : Bytes) (hk : key ∈ genericKeys) (hv : v ≠ []) (h10 : (10 : UInt8) ∉ v) :
    matchGeneric (key ++ 61 :: v) = some (key, v) := by
  unfold matchGeneric
  apply findSome_unique _ _ key (key, v) hk
  · rw [stripPrefix_append]
    simp [hv, h10]
  · intro k' hk' hne
    cases hs : stripPrefix k' (key ++ 61 :: v) with
    | none => rfl
    | some r =>
      cases r with
      | nil => rfl
      | cons c cs =>
        by_cases hc : c = 61
        · subst hc
          have e := stripPrefix_some _ _ _ hs
          have := append_sep_inj 61 key v k' cs (genericKeys_no_eq key hk) (genericKeys_no_eq k' hk') e
          exact absurd this.1.symm hne
        · try simp only []
          split
          · rename_i v' heq; injection heq with heq; injection heq with h1 _; exact absurd h1 hc
          · rfl

theorem matchGeneric_none_of (l : Bytes) (key v : Bytes) (h : matchGeneric l = some (key, v)) :
    l = key ++ 61 :: v ∧ key ∈ genericKeys ∧ v ≠ [] ∧ (10 : UInt8) ∉ v := by
  unfold matchGeneric at h
  obtain ⟨k, hk, hf⟩ := List.exists_of_findSome?_eq_some h
  cases hs : stripPrefix k l with
  | none => rw [hs] at hf; simp at hf
  | some r =>
    rw [hs] at hf
    cases r with
    | nil => simp at hf
    | cons c cs =>
      by_cases hc : c = 61
      · subst hc
        try simp only [] at hf
        split at hf
        · rename_i hcond
          injection hf with hf; injection hf with h1 h2; subst h1 h2
          exact ⟨stripPrefix_some _ _ _ hs, hk, hcond.1, by simpa using hcond.2⟩
        · exact absurd hf (by simp)
      · try simp only [] at hf
        split at hf
        · rename_i v' heq; injection heq with heq; injection heq with h1 _; exact absurd h1 hc
        · exact absurd hf (by simp)

theorem spanP_spec (p : UInt8 → Bool) (s : Bytes) :
    s = (spanP p s).1 ++ (spanP p s).2 ∧ (spanP p s).1.all p = true ∧ (∀ c cs, (spanP p s).2 = c :: cs → p c = false) := by
  induction s with
  | nil => simp [spanP]
  | cons c cs ih =>
    unfold spanP
    by_cases h : p c = true
    · simp only [h, if_true, List.cons_append, List.all_cons, Bool.true_and]
      exact ⟨by rw [← ih.1], ih.2.1, ih.2.2⟩
    · have hf : p c = false := by simpa using h
      simp only [hf, Bool.false_eq_true, if_false, List.nil_append, List.all_nil, true_and]
      intro c' cs' e; injection e with e1 _; subst e1; exact hf

theorem matchReg_some (l w i v : Bytes) (h : matchReg l = some (w, i, v)) :
    l = w ++ i ++ 61 :: v ∧ w ∈ regWords ∧ i.all DecOut.isUpperDigit = true ∧ v ≠ [] ∧ v.all isDigit = true := by
  unfold matchReg at h
  obtain ⟨w', hw', hf⟩ := List.exists_of_findSome?_eq_some h
  unfold matchRegWord at hf
  cases hs : stripPrefix w' l with
  | none => rw [hs] at hf; simp at hf
  | some r0 =>
    rw [hs] at hf
    simp only [] at hf
    obtain ⟨e, hall, _⟩ := spanP_spec DecOut.isUpperDigit r0
    split at hf
    · rename_i v' hsp
      split at hf
      · rename_i hc
        injection hf with hf; injection hf with h1 h2; injection h2 with h2 h3
        subst h1 h3
        refine ⟨?_, hw', ?_, hc.1, hc.2⟩
        · rw [stripPrefix_some _ _ _ hs, e, hsp, h2, List.append_assoc]
        · rw [← h2]; exact hall
      · exact absurd hf (by simp)
    · exact absurd hf (by simp)

theorem regWords_no_eq : ∀ w ∈ regWords, (61 : UInt8) ∉ w := by decide

theorem upperDigit_no_eq (i : Bytes) (h : i.all DecOut.isUpperDigit = true) : (61 : UInt8) ∉ i := by
  intro hm
  rw [List.all_eq_true] at h
  have := h 61 hm
  exact absurd this (by decide)

theorem infoKeys_ne_nil : ∀ k ∈ infoKeys, k ≠ [] := by decide

/-- the decoder on `key=value`, `key` a grammar key, value non-empty without LF -/
theorem decLine_kv (o : OutOracle) (key v : Bytes) (hk : key ∈ infoKeys) (hv : v ≠ []) (h10 : (10 : UInt8) ∉ v) :
    decLine repaired o (key ++ 61 :: v) = decGeneric o key v := by
  obtain ⟨c, cs, hkc, h72, h109⟩ := infoKeys_head key hk
  have h1 : dropPrefix (asc "HWC#") (key ++ 61 :: v) = none := by
    rw [hkc]; exact dropPrefix_head_ne _ _ _ _ (fun e => h72 e.symm)
  have h2 : dropPrefix (asc "map=") (key ++ 61 :: v) = none := by
    rw [hkc]; exact dropPrefix_head_ne _ _ _ _ (fun e => h109 e.symm)
  unfold decLine
  rw [if_neg (by rw [hkc]; simp), flowOfWord_none _ (not_flow_of_eq _ (by simp))]
  simp only []
  rw [matchCmd_not_hwc _ _ h1]
  simp only []
  rw [matchMap_not_map _ h2]
  simp only []
  rw [matchGeneric_line key v (generic_iff_info.2 key hk) hv h10]

/-- `key=` (no value): no regex matches, the decoder returns the empty message -/
theorem decLine_kv_empty (o : OutOracle) (key : Bytes) (hk : key ∈ infoKeys) : decLine repaired o (key ++ [61]) = some {} := by
  obtain ⟨c, cs, hkc, h72, h109⟩ := infoKeys_head key hk
  have h1 : dropPrefix (asc "HWC#") (key ++ [61]) = none := by
    rw [hkc]; exact dropPrefix_head_ne _ _ _ _ (fun e => h72 e.symm)
  have h2 : dropPrefix (asc "map=") (key ++ [61]) = none := by
    rw [hkc]; exact dropPrefix_head_ne _ _ _ _ (fun e => h109 e.symm)
  have hg : matchGeneric (key ++ [61]) = none := by
    cases hm : matchGeneric (key ++ [61]) with
    | none => rfl
    | some kv =>
      obtain ⟨k', v'⟩ := kv
      obtain ⟨e, hk', hv', _⟩ := matchGeneric_none_of _ k' v' hm
      have := append_sep_inj 61 key [] k' v' (infoKeys_no_eq key hk) (genericKeys_no_eq k' hk') e
      exact absurd this.2.symm hv'
  have hr : matchReg (key ++ [61]) = none := by
    cases hm : matchReg (key ++ [61]) with
    | none => rfl
    | some t =>
      obtain ⟨w, i, v'⟩ := t
      obtain ⟨e, hw, hi, hv', _⟩ := matchReg_some _ w i v' hm
      have hno : (61 : UInt8) ∉ w ++ i := by
        intro hm'; simp only [List.mem_append] at hm'
        rcases hm' with hm' | hm'
        · exact regWords_no_eq w hw hm'
        · exact upperDigit_no_eq i hi hm'
      have := append_sep_inj 61 key [] (w ++ i) v' (infoKeys_no_eq key hk) hno e
      exact absurd this.2.symm hv'
  unfold decLine
  rw [if_neg (by rw [hkc]; simp), flowOfWord_none _ (not_flow_of_eq _ (by simp))]
  simp only []
  rw [matchCmd_not_hwc _ _ h1]
  simp only []
  rw [matchMap_not_map _ h2]
  simp only []
  rw [hg]
  simp only []
  rw [hr]

theorem eff_empty (o : OutOracle) : effectsOfOut o {} = [] := by
  unfold effectsOfOut
  simp only [flowEff0, optEff, List.flatMap_nil, List.append_nil, List.map_nil]

end RawPanelVerif.OutLemmas
