import RawPanelVerif.Lemmas.DecGfx3
/-!
C02 `dec_context_free`: batches that contain lines outside the grammar's domain (`classify = .outside`; not graphics
parts).  The decoder treats every line that `regex_gfx` does not accept on its own: what it appends for the line does
not depend on the state (`decLine_local`).  Hence on `inDomainLinesCtx` the decoded batch has the reader's effects for
every well-formed / non-grammar line and, for every outside line, the effects that line has when decoded alone
(`decLines_ctx`, the analogue of `DecGfx.decLines_full`).
-/
namespace RawPanelVerif.DecCtx
open RawPanelVerif RawPanelVerif.Bytes RawPanelVerif.MsgIn RawPanelVerif.Model.In RawPanelVerif.Spec.In
open RawPanelVerif.DecSound RawPanelVerif.DecShape RawPanelVerif.ReadIn RawPanelVerif.EncSound RawPanelVerif.DecGfx
open RawPanelVerif.TotalIn

theorem isGfxFamLine_eq (l : Bytes) : isGfxFamLine l = isGfxLine l := rfl

/-- a line `regex_gfx` accepts names a graphics family -/
theorem gfxFam_of_match (l : Bytes) (m : List Bytes) (h : matchGfx l = some m) : isGfxFamLine l = true := by
  obtain ⟨kw, ids, v, hk, hids, hs⟩ := matchGfx_prefix l m h
  have h61 : (61 : UInt8) ∉ ids := all_dc_no61 _ hids
  have h35 : (35 : UInt8) ∉ ids := all_not_mem _ ids 35 hids (by decide)
  simp only [kwGfx, List.mem_cons, List.not_mem_nil, or_false] at hk
  unfold isGfxFamLine
  rcases hk with rfl | rfl | rfl
  · have e : asc "HWCgRGB#" ++ ids = asc "HWCgRGB" ++ 35 :: ids := by
      rw [show asc "HWCgRGB#" = asc "HWCgRGB" ++ [35] by decide]; simp
    have hk61 : (61 : UInt8) ∉ asc "HWCgRGB" ++ 35 :: ids := by
      intro hm
      rcases List.mem_append.1 hm with hm | hm
      · revert hm; decide
      · rcases List.mem_cons.1 hm with hm | hm
        · exact absurd hm (by decide)
        · exact h61 hm
    rw [hs, e, cut_append 61 _ v hk61]
    simp only []
    rw [cut_append 35 (asc "HWCgRGB") ids (by decide)]
    simp only []
    decide
  · have e : asc "HWCgGray#" ++ ids = asc "HWCgGray" ++ 35 :: ids := by
      rw [show asc "HWCgGray#" = asc "HWCgGray" ++ [35] by decide]; simp
    have hk61 : (61 : UInt8) ∉ asc "HWCgGray" ++ 35 :: ids := by
      intro hm
      rcases List.mem_append.1 hm with hm | hm
      · revert hm; decide
      · rcases List.mem_cons.1 hm with hm | hm
        · exact absurd hm (by decide)
        · exact h61 hm
    rw [hs, e, cut_append 61 _ v hk61]
    simp only []
    rw [cut_append 35 (asc "HWCgGray") ids (by decide)]
    simp only []
    decide
  · have e : asc "HWCg#" ++ ids = asc "HWCg" ++ 35 :: ids := by
      rw [show asc "HWCg#" = asc "HWCg" ++ [35] by decide]; simp
    have hk61 : (61 : UInt8) ∉ asc "HWCg" ++ 35 :: ids := by
      intro hm
      rcases List.mem_append.1 hm with hm | hm
      · revert hm; decide
      · rcases List.mem_cons.1 hm with hm | hm
        · exact absurd hm (by decide)
        · exact h61 hm
    rw [hs, e, cut_append 61 _ v hk61]
    simp only []
    rw [cut_append 35 (asc "HWCg") ids (by decide)]
    simp only []
    decide

theorem matchGfx_none_of_fam (l : Bytes) (h : isGfxFamLine l = false) : matchGfx l = none := by
  cases hm : matchGfx l with
  | none => rfl
  | some m => rw [gfxFam_of_match l m hm] at h; exact absurd h (by simp)

/-- **a line that is not a graphics part is decoded on its own**: what the decoder appends does not depend on the
messages decoded so far nor on the graphics reassembly state, and that state is left alone -/
theorem decLine_local (O : Oracles) (s : Bytes) (hg : matchGfx s = none) :
    ∃ outs : List (Option InMsg), ∀ st : DecSt, decLine O false st s = .ok { st with out := st.out ++ outs } := by
  cases h0 : literalMsg s with
  | some m =>
    refine ⟨optList m, fun st => ?_⟩
    unfold decLine
    simp only [h0, pure, Except.pure]
    cases m with
    | none => cases st; simp [optList]
    | some msg => rfl
  | none =>
    by_cases h1 : s.head? = some 123
    · refine ⟨[some (stateMsg (O.parseState s))], fun st => ?_⟩
      unfold decLine
      simp only [h0, h1, if_true, pure, Except.pure]
    · by_cases h2 : s.head? = some 91
      · refine ⟨(O.parseMsgs s).filter Option.isSome, fun st => ?_⟩
        unfold decLine
        simp only [h0, pure, Except.pure]
        rw [if_neg h1, if_pos h2]
        simp
      · cases h3 : matchCmd s with
        | some m =>
          obtain ⟨a, b, c, d, rfl⟩ := matchCmd_len _ _ h3
          obtain ⟨r, hr⟩ := decCmd_ok a b c d
          refine ⟨optList r, fun st => ?_⟩
          unfold decLine
          simp only [h0, h3, hr, bind, Except.bind, pure, Except.pure]
          rw [if_neg h1, if_neg h2]
          cases r with
          | none => cases st; simp [optList]
          | some msg => rfl
        | none =>
          cases h5 : matchSingle s with
          | some m =>
            obtain ⟨a, b, c, rfl⟩ := matchSingle_len _ _ h5
            obtain ⟨r, hr⟩ := decSingle_ok a b c
            refine ⟨optList r, fun st => ?_⟩
            unfold decLine
            simp only [h0, h3, hg, h5, hr, bind, Except.bind, pure, Except.pure]
            rw [if_neg h1, if_neg h2]
            cases r with
            | none => cases st; simp [optList]
            | some msg => rfl
          | none =>
            cases h6 : matchDual s with
            | some m =>
              obtain ⟨a, b, c, d, rfl⟩ := matchDual_len _ _ h6
              obtain ⟨r, hr⟩ := decDual_ok a b c d
              refine ⟨optList r, fun st => ?_⟩
              unfold decLine
              simp only [h0, h3, hg, h5, h6, hr, bind, Except.bind, pure, Except.pure]
              rw [if_neg h1, if_neg h2]
              cases r with
              | none => cases st; simp [optList]
              | some msg => rfl
            | none =>
              cases h7 : matchStr s with
              | some m =>
                obtain ⟨a, b, c, rfl⟩ := matchStr_len _ _ h7
                obtain ⟨r, hr⟩ := decStr_ok O a b c
                refine ⟨optList r, fun st => ?_⟩
                unfold decLine
                simp only [h0, h3, hg, h5, h6, h7, hr, bind, Except.bind, pure, Except.pure]
                rw [if_neg h1, if_neg h2]
                cases r with
                | none => cases st; simp [optList]
                | some msg => rfl
              | none =>
                cases h8 : matchReg s with
                | some m =>
                  obtain ⟨a, b, c, d, rfl⟩ := matchReg_len _ _ h8
                  obtain ⟨r, hr⟩ := decReg_ok a b c d
                  refine ⟨optList r, fun st => ?_⟩
                  unfold decLine
                  simp only [h0, h3, hg, h5, h6, h7, h8, hr, bind, Except.bind, pure, Except.pure]
                  rw [if_neg h1, if_neg h2]
                  cases r with
                  | none => cases st; simp [optList]
                  | some msg => rfl
                | none =>
                  refine ⟨[some {}], fun st => ?_⟩
                  unfold decLine
                  simp only [h0, h3, hg, h5, h6, h7, h8, pure, Except.pure]
                  rw [if_neg h1, if_neg h2]

/-- the effects of what the decoder model returns for the one-line batch `[l]` -/
def aloneModel (O : Oracles) (l : Bytes) : List Effect :=
  match decInE O [l] with
  | .ok ms => ms.flatMap effectsOfMsgOpt
  | .error _ => []

theorem aloneModel_of_local (O : Oracles) (l : Bytes) (outs : List (Option InMsg))
    (h : ∀ st : DecSt, decLine O false st l = .ok { st with out := st.out ++ outs }) :
    aloneModel O l = outs.flatMap effectsOfMsgOpt := by
  unfold aloneModel decInE decLines
  rw [h {}]
  simp [decLines]

/-- the reading `readFromWith` with the deliveries of the all-default image left out (cf. `DecGfx.readFromNB`) -/
def readFromNBWith (O : Oracles) (alone : Bytes → List Effect) : Option Xfer → List Bytes → List Effect
  | _, [] => []
  | x, l :: ls =>
    if isLoneLine O l then alone l ++ readFromNBWith O alone x ls
    else match readLine O l with
      | .effects es => es ++ readFromNBWith O alone x ls
      | .gfx p => (stepGfx x p).2.filter (fun e => !isBlankEffect e) ++ readFromNBWith O alone (stepGfx x p).1 ls

/-- no graphics transfer of the batch delivers the all-default image (cf. `DecGfx.noBlankImage`) -/
def noBlankImageCtx (O : Oracles) : Option Xfer → List Bytes → Bool
  | _, [] => true
  | x, l :: ls =>
    if isLoneLine O l then noBlankImageCtx O x ls
    else match readLine O l with
      | .effects _ => noBlankImageCtx O x ls
      | .gfx p => !(stepGfx x p).2.any isBlankEffect && noBlankImageCtx O (stepGfx x p).1 ls

theorem readFromNBWith_lone (O : Oracles) (alone : Bytes → List Effect) (x : Option Xfer) (l : Bytes) (ls : List Bytes)
    (h : isLoneLine O l = true) : readFromNBWith O alone x (l :: ls) = alone l ++ readFromNBWith O alone x ls := by
  simp only [readFromNBWith, h, ↓reduceIte]

theorem readFromNBWith_eff (O : Oracles) (alone : Bytes → List Effect) (x : Option Xfer) (l : Bytes) (ls : List Bytes)
    (es : List Effect) (h : ¬ isLoneLine O l = true) (hr : readLine O l = .effects es) :
    readFromNBWith O alone x (l :: ls) = es ++ readFromNBWith O alone x ls := by
  simp only [readFromNBWith, h, hr, Bool.false_eq_true, if_false]

theorem readFromNBWith_gfx (O : Oracles) (alone : Bytes → List Effect) (x : Option Xfer) (l : Bytes) (ls : List Bytes)
    (p : GfxPart) (h : ¬ isLoneLine O l = true) (hr : readLine O l = .gfx p) :
    readFromNBWith O alone x (l :: ls) =
      (stepGfx x p).2.filter (fun e => !isBlankEffect e) ++ readFromNBWith O alone (stepGfx x p).1 ls := by
  simp only [readFromNBWith, h, hr, Bool.false_eq_true, if_false]

theorem readFromNBWith_eq (O : Oracles) (alone : Bytes → List Effect) (ls : List Bytes) :
    ∀ x, noBlankImageCtx O x ls = true → readFromNBWith O alone x ls = readFromWith O alone x ls := by
  induction ls with
  | nil => intro x _; rfl
  | cons l ls ih =>
    intro x h
    unfold noBlankImageCtx at h
    unfold readFromNBWith readFromWith
    by_cases hl : isLoneLine O l = true
    · rw [if_pos hl] at h ⊢
      rw [if_pos hl, ih x h]
    · rw [if_neg hl] at h ⊢
      rw [if_neg hl]
      cases hr : readLine O l with
      | effects es =>
        rw [hr] at h
        simp only [] at h ⊢
        rw [ih x h]
      | gfx p =>
        rw [hr] at h
        simp only [Bool.and_eq_true, Bool.not_eq_true'] at h ⊢
        rw [ih _ h.2, filter_none_blank _ h.1]

theorem disciplineCtx_lone (O : Oracles) (x : Option Xfer) (l : Bytes) (ls : List Bytes)
    (h : gfxDisciplineCtx O x (l :: ls) = true) (hl : isLoneLine O l = true) : gfxDisciplineCtx O x ls = true := by
  unfold gfxDisciplineCtx at h
  rw [if_pos hl] at h
  exact h

theorem disciplineCtx_eff (O : Oracles) (x : Option Xfer) (l : Bytes) (ls : List Bytes) (es : List Effect)
    (h : gfxDisciplineCtx O x (l :: ls) = true) (hl : ¬ isLoneLine O l = true) (hr : readLine O l = .effects es) :
    gfxDisciplineCtx O x ls = true := by
  unfold gfxDisciplineCtx at h
  rw [if_neg hl, hr] at h
  exact h

theorem disciplineCtx_gfx (O : Oracles) (x : Option Xfer) (l : Bytes) (ls : List Bytes) (p : GfxPart)
    (h : gfxDisciplineCtx O x (l :: ls) = true) (hl : ¬ isLoneLine O l = true) (hr : readLine O l = .gfx p) :
    stepGfx x p ≠ (none, []) ∧ gfxDisciplineCtx O (stepGfx x p).1 ls = true := by
  unfold gfxDisciplineCtx at h
  rw [if_neg hl, hr] at h
  simp only [] at h
  split at h
  · simp at h
  · rename_i x' es hne heq
    rw [heq]
    exact ⟨fun e => by
      simp only [Prod.mk.injEq] at e
      exact hne e.1 e.2 |> fun f => f, h⟩

/-- **all lines of a batch with outside lines** -/
theorem decLines_ctx (O : Oracles) (ls : List Bytes) :
    ∀ (st : DecSt) (x : Option Xfer), Inv st.gfx x →
      (∀ l ∈ ls, classify O l ≠ .outside ∨ isGfxFamLine l = false) → gfxDisciplineCtx O x ls = true →
      ∃ st' outs, decLines O false st ls = .ok st' ∧ st'.out = st.out ++ outs ∧
        outs.flatMap effectsOfMsgOpt = readFromNBWith O (aloneModel O) x ls := by
  induction ls with
  | nil => intro st x _ _ _; exact ⟨st, [], rfl, by simp, rfl⟩
  | cons l ls ih =>
    intro st x hinv hcl hdisc
    have hrest : ∀ y ∈ ls, classify O y ≠ .outside ∨ isGfxFamLine y = false := fun y hy => hcl y (by simp [hy])
    by_cases hl : isLoneLine O l = true
    · -- an outside line that is not a graphics part: decoded on its own
      have hnf : isGfxFamLine l = false := by
        unfold isLoneLine at hl
        simp only [Bool.and_eq_true, Bool.not_eq_true'] at hl
        exact hl.2
      obtain ⟨o1, hloc⟩ := decLine_local O l (matchGfx_none_of_fam l hnf)
      obtain ⟨st', o2, hd2, ho2, he2⟩ := ih { st with out := st.out ++ o1 } x hinv hrest (disciplineCtx_lone O x l ls hdisc hl)
      refine ⟨st', o1 ++ o2, ?_, ?_, ?_⟩
      · unfold decLines
        rw [hloc st]
        exact hd2
      · rw [ho2]; simp
      · rw [List.flatMap_append, he2, ← aloneModel_of_local O l o1 hloc, readFromNBWith_lone O _ x l ls hl]
    · -- a line the grammar reads: as in `decLines_full`
      have hno : classify O l ≠ .outside := by
        intro ho
        rcases hcl l (by simp) with h | h
        · exact h ho
        · apply hl
          unfold isLoneLine
          simp [ho, h]
      have plain : InNoGfxDomain O l → ∃ st' outs, decLines O false st (l :: ls) = .ok st' ∧ st'.out = st.out ++ outs ∧
          outs.flatMap effectsOfMsgOpt = readFromNBWith O (aloneModel O) x (l :: ls) := by
        intro hdom
        obtain ⟨hs, hr⟩ := line_sound_nogfx' O l hdom
        obtain ⟨o1, hd1, he1⟩ := hs false st
        obtain ⟨st', o2, hd2, ho2, he2⟩ := ih { st with out := st.out ++ o1 } x hinv hrest (disciplineCtx_eff O x l ls _ hdisc hl hr)
        refine ⟨st', o1 ++ o2, ?_, ?_, ?_⟩
        · unfold decLines
          rw [hd1]
          exact hd2
        · rw [ho2]; simp
        · rw [List.flatMap_append, he1, he2, readFromNBWith_eff O _ x l ls _ hl hr]
      rcases not_outside _ hno with hw | hn
      · by_cases hg : isGfxLine l = true
        · obtain ⟨p, m, hr, hlit, h1, h2, h3, hm, hrel⟩ := gfx_line O l hw hg
          obtain ⟨hne, hdisc'⟩ := disciplineCtx_gfx O x l ls p hdisc hl hr
          obtain ⟨g', r, hd, hinv', heff⟩ := gfx_step st.gfx x l m p hrel hinv hne
          have hdl := decLine_gfx O st l m g' r hlit h1 h2 h3 hm hd hinv'.1
          obtain ⟨st', o2, hd2, ho2, he2⟩ := ih { out := st.out ++ optList r, gfx := g' } (stepGfx x p).1 hinv' hrest hdisc'
          refine ⟨st', optList r ++ o2, ?_, ?_, ?_⟩
          · unfold decLines
            rw [hdl]
            exact hd2
          · rw [ho2]; simp
          · rw [List.flatMap_append, flatMap_optList, heff, he2, readFromNBWith_gfx O _ x l ls p hl hr]
        · exact plain (Or.inl ⟨hw, by cases h : isGfxLine l <;> simp_all⟩)
      · exact plain (Or.inr hn)

/-- **no line changes what its neighbours denote** (unguarded form: minus the deliveries of the all-default image) -/
theorem dec_context_free_nb (O : Oracles) (ls : List Bytes) (h : inDomainLinesCtx O ls = true) :
    ∃ ms, decInE O ls = .ok ms ∧ ms.flatMap effectsOfMsgOpt = readFromNBWith O (aloneModel O) none ls := by
  unfold inDomainLinesCtx at h
  simp only [Bool.and_eq_true, List.all_eq_true, Bool.or_eq_true, bne_iff_ne, ne_eq, Bool.not_eq_true'] at h
  obtain ⟨st', outs, hd, ho, he⟩ := decLines_ctx O ls {} none inv_init h.1 h.2
  refine ⟨outs, ?_, he⟩
  unfold decInE
  rw [hd]
  simp only []
  rw [ho]
  rfl

/-- … under the guard of `dec_sound` -/
theorem dec_context_free (O : Oracles) (ls : List Bytes) (h : inDomainLinesCtx O ls = true) (hb : noBlankImageCtx O none ls = true) :
    ∃ ms, decInE O ls = .ok ms ∧ ms.flatMap effectsOfMsgOpt = readInboundWith O (aloneModel O) ls := by
  obtain ⟨ms, h1, h2⟩ := dec_context_free_nb O ls h
  exact ⟨ms, h1, by rw [h2, readFromNBWith_eq O _ ls none hb]; rfl⟩

end RawPanelVerif.DecCtx
