import RawPanelVerif.Lemmas.DecSound1
/-! C02 `dec_sound`: registers, literal words, JSON lines; dispatch of a well-formed line to its family
(`line_sound`); sequences (`dec_sound_partial`). -/
namespace RawPanelVerif.DecSound
open RawPanelVerif RawPanelVerif.Bytes RawPanelVerif.MsgIn RawPanelVerif.Model.In RawPanelVerif.InBits RawPanelVerif.ReadIn
open RawPanelVerif.Spec.In RawPanelVerif.EncSound RawPanelVerif.TotalIn RawPanelVerif.DecShape

theorem effects_regMsg (r : Register) : effectsOfIn (regMsg r) = effectsOfReg r := by
  simp [effectsOfIn, regMsg, effectsOfFlow, opt]

theorem decLine_reg (O : Oracles) (pinned : Bool) (st : DecSt) (l : Bytes) (m : List Bytes)
    (hlit : literalMsg l = none) (h1 : l.head? ≠ some 123) (h2 : l.head? ≠ some 91)
    (h3 : matchCmd l = none) (h4 : matchGfx l = none) (h5 : matchSingle l = none) (h6 : matchDual l = none)
    (h7 : matchStr l = none) (hm : matchReg l = some m) :
    decLine O pinned st l = (match decReg m with
      | .ok (some msg) => .ok { st with out := st.out ++ [some msg] }
      | .ok none => .ok st
      | .error e => .error e) := by
  unfold decLine
  simp only [hlit, h3, h4, h5, h6, h7, hm, bind, Except.bind, pure, Except.pure]
  rw [if_neg h1, if_neg h2]
  cases decReg m with
  | error e => rfl
  | ok r => cases r <;> rfl

theorem kwStr_no61 (kw : Bytes) (hk : kw ∈ kwStr) : (61 : UInt8) ∉ kw := by
  simp only [kwStr, List.mem_cons, List.not_mem_nil, or_false] at hk
  rcases hk with rfl | rfl | rfl <;> decide

theorem matchStr_none_key (l key v : Bytes) (hc : cut 61 l = some (key, v)) (hk : key ∉ kwStr) : matchStr l = none := by
  apply opt_none_of_forall
  intro m hm
  obtain ⟨kw', v', hk', _, hs, _⟩ := matchStr_some l m hm
  rw [hs, cut_append 61 _ _ (kwStr_no61 kw' hk')] at hc
  simp only [Option.some.injEq, Prod.mk.injEq] at hc
  rw [← hc.1] at hk
  exact hk hk'

theorem matchReg_hit (pre : List Bytes) (kw : Bytes) (post : List Bytes) (id d : Bytes)
    (hk : kwReg = pre ++ kw :: post) (hpre : pre.all (fun p => mismatch p kw) = true)
    (hid : id.all Model.In.isUpperDigit = true) (hne : d ≠ []) (hd : d.all isDigit = true) :
    matchReg (kw ++ id ++ 61 :: d) = some [kw ++ id ++ 61 :: d, kw, id, d] := by
  unfold matchReg
  rw [hk, List.append_assoc, firstKw_hit pre kw post _ hpre]
  simp only []
  rw [spanP_append Model.In.isUpperDigit id 61 d hid (by decide)]
  simp only [hne, hd, ne_eq, not_false_eq_true, and_self, if_true]

theorem plainKeys_sub (key : Bytes) (h : plainKeys.contains key = false) :
    key ≠ asc "ActivePanel" ∧ key ≠ asc "PanelBrightness" ∧ key ∉ kwSingle ∧ key ∉ kwStr := by
  have ne := fun k hk => contains_false_ne plainKeys key k h hk
  refine ⟨ne _ (by decide), ne _ (by decide), ?_, ?_⟩
  · intro hm
    simp only [kwSingle, List.mem_cons, List.not_mem_nil, or_false] at hm
    rcases hm with rfl | rfl | rfl | rfl | rfl | rfl | rfl | rfl | rfl | rfl <;> exact absurd h (by decide)
  · intro hm
    simp only [kwStr, List.mem_cons, List.not_mem_nil, or_false] at hm
    rcases hm with rfl | rfl | rfl <;> exact absurd h (by decide)

/-- plain register lines -/
theorem sound_regPlain (O : Oracles) (l key v id : Bytes) (k : RegKind) (n : Nat)
    (hc : cut 61 l = some (key, v)) (hf : cut 35 key = none) (hp : plainKeys.contains key = false)
    (hr : readRegKey regWord key = some (k, id)) (hn : num? v = some n) : LineSound O l := by
  intro pinned st
  obtain ⟨v1, v2, v3, v4⟩ := num_spec v n hn
  obtain ⟨hid, hcase⟩ := readRegKey_some key id k hr
  obtain ⟨e, _⟩ := cut_some 61 l key v hc
  obtain ⟨p1, p2, p3, p4⟩ := plainKeys_sub key hp
  have hid' : id.all Model.In.isUpperDigit = true := by rw [upperDigit_same]; exact hid
  have common : ∀ (W : Bytes) (pre post : List Bytes) (regNo : Int), key = W ++ id → keyHeadOk W = true →
      kwReg = pre ++ W :: post → pre.all (fun p => mismatch p W) = true →
      decReg [l, W, id, v] = .ok (some (regMsg { reg := regNo, id := id, value := u32 (atoiV v) })) →
      effectsOfReg { reg := regNo, id := id, value := n } = [Effect.reg k id n] →
      ∃ outs, decLine O pinned st l = .ok { st with out := st.out ++ outs } ∧ outs.flatMap effectsOfMsgOpt = lineEffects O l := by
    intro W pre post regNo hkey hW hk hpre hdec heff
    have hh := head_kw W (id ++ 61 :: v) hW
    rw [← List.append_assoc, ← hkey, ← e] at hh
    have hm := matchReg_hit pre W post id v hk hpre hid' v1 v2
    rw [← hkey, ← e] at hm
    refine ⟨[some (regMsg { reg := regNo, id := id, value := u32 (atoiV v) })], ?_, ?_⟩
    · rw [decLine_reg O pinned st l _ (literal_none_plain l key v hc p1) hh.1 hh.2 (matchCmd_none_plain l key v hc hf)
        (matchGfx_none_plain l key v hc hf) (matchSingle_none_key l key v hc p3) (matchDual_none_key l key v hc p2)
        (matchStr_none_key l key v hc p4) hm, hdec]
    · rw [flatMap_single_some]
      unfold lineEffects
      rw [readLine_plain O l key v hh.1 hh.2 hc hf]
      simp only []
      have ne := fun k' hk' => contains_false_ne plainKeys key k' hp hk'
      unfold readPlain
      rw [if_neg (ne _ (by decide)), if_neg (ne _ (by decide)), if_neg (ne _ (by decide)), if_neg (ne _ (by decide)),
        if_neg (ne _ (by decide))]
      have hl : numCmdTable.lookup key = none := by
        apply lookup_none_of_not_mem
        cases hcc : (numCmdTable.map (·.1)).contains key with
        | false => rfl
        | true =>
          exfalso
          have hm' : key ∈ numCmdTable.map (·.1) := by simpa using hcc
          have : key ∈ plainKeys := by unfold plainKeys; simp only [List.mem_append]; exact Or.inr hm'
          exact ne key this rfl
      rw [hl, hr]
      simp only [hn]
      rw [num_atoiV v n hn, u32_cast n v4]
      rw [effects_regMsg]
      exact heff
  rcases hcase with ⟨hk, rfl⟩ | ⟨hk, rfl⟩ | ⟨hk, rfl⟩
  · refine common (asc "Mem") [asc "Flag#"] [asc "Shift", asc "State"] 0 hk (by decide) (by decide) (by decide) ?_ ?_
    · simp only [decReg, sub, bind, Except.bind, pure, Except.pure, List.getElem?_cons_succ, List.getElem?_cons_zero]
      rw [if_pos trivial]
    · unfold effectsOfReg; rw [if_pos rfl]
  · refine common (asc "Shift") [asc "Flag#", asc "Mem"] [asc "State"] 2 hk (by decide) (by decide) (by decide) ?_ ?_
    · simp only [decReg, sub, bind, Except.bind, pure, Except.pure, List.getElem?_cons_succ, List.getElem?_cons_zero]
      rw [if_neg (by decide), if_neg (by decide), if_pos trivial]
    · unfold effectsOfReg; simp only []; rw [if_neg (by decide), if_neg (by decide), if_pos trivial]
  · refine common (asc "State") [asc "Flag#", asc "Mem", asc "Shift"] [] 3 hk (by decide) (by decide) (by decide) ?_ ?_
    · simp only [decReg, sub, bind, Except.bind, pure, Except.pure, List.getElem?_cons_succ, List.getElem?_cons_zero]
      rw [if_neg (by decide), if_neg (by decide), if_neg (by decide), if_pos trivial]
    · unfold effectsOfReg; simp only []; rw [if_neg (by decide), if_neg (by decide), if_neg (by decide), if_pos trivial]

/-! ### `Flag#` -/

def startsF (l : Bytes) : Bool := l.head? == some 70

theorem startsF_append (kw r : Bytes) (hne : kw ≠ []) : startsF (kw ++ r) = startsF kw := by
  cases kw with
  | nil => exact absurd rfl hne
  | cons c cs => rfl

theorem kwCmd_notF (kw : Bytes) (h : kw ∈ kwCmd) : kw ≠ [] ∧ startsF kw = false := by
  simp only [kwCmd, List.mem_cons, List.not_mem_nil, or_false] at h
  rcases h with rfl | rfl | rfl | rfl | rfl <;> exact ⟨by decide, by decide⟩
theorem kwGfx_notF (kw : Bytes) (h : kw ∈ kwGfx) : kw ≠ [] ∧ startsF kw = false := by
  simp only [kwGfx, List.mem_cons, List.not_mem_nil, or_false] at h
  rcases h with rfl | rfl | rfl <;> exact ⟨by decide, by decide⟩
theorem kwSingle_notF (kw : Bytes) (h : kw ∈ kwSingle) : kw ≠ [] ∧ startsF kw = false := by
  simp only [kwSingle, List.mem_cons, List.not_mem_nil, or_false] at h
  rcases h with rfl | rfl | rfl | rfl | rfl | rfl | rfl | rfl | rfl | rfl <;> exact ⟨by decide, by decide⟩
theorem kwStr_notF (kw : Bytes) (h : kw ∈ kwStr) : kw ≠ [] ∧ startsF kw = false := by
  simp only [kwStr, List.mem_cons, List.not_mem_nil, or_false] at h
  rcases h with rfl | rfl | rfl <;> exact ⟨by decide, by decide⟩

theorem flag_others_none (l : Bytes) (hF : startsF l = true) :
    matchCmd l = none ∧ matchGfx l = none ∧ matchSingle l = none ∧ matchDual l = none ∧ matchStr l = none := by
  refine ⟨?_, ?_, ?_, ?_, ?_⟩
  · apply opt_none_of_forall; intro m hm
    obtain ⟨kw, ids, v, hk, _, _, _, hs, _⟩ := matchCmd_some l m hm
    obtain ⟨k1, k2⟩ := kwCmd_notF kw hk
    rw [hs, List.append_assoc, startsF_append kw _ k1, k2] at hF; exact absurd hF (by simp)
  · apply opt_none_of_forall; intro m hm
    obtain ⟨kw, ids, v, hk, _, hs⟩ := matchGfx_prefix l m hm
    obtain ⟨k1, k2⟩ := kwGfx_notF kw hk
    rw [hs, List.append_assoc, startsF_append kw _ k1, k2] at hF; exact absurd hF (by simp)
  · apply opt_none_of_forall; intro m hm
    obtain ⟨kw, d, hk, _, _, hs, _⟩ := matchSingle_some l m hm
    obtain ⟨k1, k2⟩ := kwSingle_notF kw hk
    rw [hs, startsF_append kw _ k1, k2] at hF; exact absurd hF (by simp)
  · apply opt_none_of_forall; intro m hm
    obtain ⟨a, b, _, _, _, _, hs, _⟩ := matchDual_some l m hm
    rw [hs, startsF_append _ _ (by decide)] at hF; exact absurd hF (by decide)
  · apply opt_none_of_forall; intro m hm
    obtain ⟨kw, v, hk, _, hs, _⟩ := matchStr_some l m hm
    obtain ⟨k1, k2⟩ := kwStr_notF kw hk
    rw [hs, startsF_append kw _ k1, k2] at hF; exact absurd hF (by simp)

theorem digits_upper (s : Bytes) (h : s.all isDigit = true) : s.all Model.In.isUpperDigit = true := by
  rw [List.all_eq_true] at h ⊢
  intro b hb
  unfold Model.In.isUpperDigit
  rw [h b hb]; simp

theorem flagId_spec (ids idn : Bytes) (h : flagId? ids = some idn) (h2 : ids = [] ∨ (num? ids).isSome = true) :
    ids.all isDigit = true ∧ idn = itoa (atoiV ids) ∧ flagId? idn = some idn := by
  unfold flagId? at h
  by_cases he : ids = []
  · subst he
    simp only [if_true, Option.some.injEq] at h
    subst h
    exact ⟨rfl, by decide, by decide⟩
  · rw [if_neg he] at h
    rcases h2 with h2 | h2
    · exact absurd h2 he
    · cases hn : num? ids with
      | none => rw [hn] at h2; simp at h2
      | some k =>
        obtain ⟨n1, n2, n3, n4⟩ := num_spec ids k hn
        have hd : digitsVal? ids = some k := by
          unfold digitsVal?; rw [if_pos ⟨n1, n2⟩, n3]
        rw [hd] at h
        simp only [Option.map_some, Option.some.injEq] at h
        subst h
        refine ⟨n2, ?_, ?_⟩
        · rw [num_atoiV ids k hn]
          unfold itoa
          rw [if_neg (by omega)]
          rfl
        · unfold flagId?
          rw [if_neg (digitsOf_ne_nil k), digitsVal_digitsOf]
          rfl

theorem sound_flag (O : Oracles) (l key v ids idn : Bytes) (n : Nat)
    (hc : cut 61 l = some (key, v)) (hf : cut 35 key = some (asc "Flag", ids))
    (hid : flagId? ids = some idn) (hid2 : ids = [] ∨ (num? ids).isSome = true) (hn : num? v = some n) : LineSound O l := by
  intro pinned st
  obtain ⟨hl, h35⟩ := hash_line_eq l key v _ ids hc hf
  obtain ⟨v1, v2, v3, v4⟩ := num_spec v n hn
  obtain ⟨f1, f2, f3⟩ := flagId_spec ids idn hid hid2
  have hl' : l = asc "Flag#" ++ ids ++ 61 :: v := by rw [hl]; rfl
  have hh : l.head? ≠ some 123 ∧ l.head? ≠ some 91 := by rw [hl', List.append_assoc]; exact head_kw _ _ (by decide)
  have hF : startsF l = true := by rw [hl', List.append_assoc, startsF_append _ _ (by decide)]; decide
  obtain ⟨o1, o2, o3, o4, o5⟩ := flag_others_none l hF
  have hm := matchReg_hit [] (asc "Flag#") [asc "Mem", asc "Shift", asc "State"] ids v (by decide) (by decide) (digits_upper ids f1) v1 v2
  rw [← hl'] at hm
  have hval : u32 (if atoiV v > 0 then 1 else 0) = (if n > 0 then 1 else 0) := by
    rw [num_atoiV v n hn]
    by_cases hp : n > 0
    · rw [if_pos (by omega), if_pos hp]; rfl
    · rw [if_neg (by omega), if_neg hp]; rfl
  have hdec : decReg [l, asc "Flag#", ids, v] = .ok (some (regMsg { reg := 1, id := idn, value := if n > 0 then 1 else 0 })) := by
    simp only [decReg, sub, bind, Except.bind, pure, Except.pure, List.getElem?_cons_succ, List.getElem?_cons_zero]
    rw [if_neg (by decide), if_pos trivial, ← f2, hval]
  refine ⟨[some (regMsg { reg := 1, id := idn, value := if n > 0 then 1 else 0 })], ?_, ?_⟩
  · rw [decLine_reg O pinned st l _ (literal_none_of_hash l h35) hh.1 hh.2 o1 o2 o3 o4 o5 hm, hdec]
  · have hread : lineEffects O l = [Effect.reg RegKind.flag idn (if n > 0 then 1 else 0)] := by
      unfold lineEffects
      rw [readLine_hash O l key v _ ids hh.1 hh.2 hc hf]
      unfold readHash
      rw [if_neg (by decide), if_neg (by decide), if_neg (by decide), if_neg (by decide), if_neg (by decide),
        if_neg (by decide), if_neg (by decide), if_neg (by decide), if_pos rfl, hid, hn]
    rw [flatMap_single_some, effects_regMsg, hread]
    unfold effectsOfReg
    simp only []
    rw [if_neg (by decide), if_pos trivial, f3]
    simp only []
    by_cases hp : n > 0
    · simp [hp]
    · simp [hp]

/-! ### words, JSON -/

theorem sound_literal (O : Oracles) (l : Bytes) (m : InMsg) (hlit : literalMsg l = some (some m))
    (heff : effectsOfIn m = lineEffects O l) : LineSound O l := by
  intro pinned st
  refine ⟨[some m], ?_, by rw [flatMap_single_some, heff]⟩
  unfold decLine
  simp only [hlit, pure, Except.pure]

theorem lookup_some_mem {β : Type} (tbl : List (Bytes × β)) (key : Bytes) (e : β) (h : tbl.lookup key = some e) :
    key ∈ tbl.map (·.1) := by
  induction tbl with
  | nil => simp [List.lookup] at h
  | cons p ps ih =>
    obtain ⟨k, v⟩ := p
    simp only [List.lookup] at h
    cases hk : key == k with
    | true => simp only [List.map_cons, List.mem_cons]; left; simpa using hk
    | false => rw [hk] at h; simp only [List.map_cons, List.mem_cons]; right; exact ih h

theorem sound_word (O : Oracles) (l : Bytes) (e : Effect) (h : wordTable.lookup l = some e) : LineSound O l := by
  have hm := lookup_some_mem _ _ _ h
  simp only [wordTable, List.map_cons, List.map_nil, List.mem_cons, List.not_mem_nil, or_false] at hm
  rcases hm with rfl | rfl | rfl | rfl | rfl | rfl | rfl | rfl | rfl | rfl | rfl | rfl | rfl | rfl | rfl | rfl | rfl | rfl
  all_goals exact sound_literal O _ _ rfl rfl

theorem sound_activePanel (O : Oracles) : LineSound O (asc "ActivePanel=1") := sound_literal O _ _ rfl rfl

theorem literal_none_json (l : Bytes) (h : l.head? = some 123 ∨ l.head? = some 91) : literalMsg l = none := by
  apply opt_none_of_forall
  intro m hm
  have hne : l ≠ [] := by intro e; rw [e] at h; simp at h
  obtain ⟨_, _, h1, h2⟩ := literal_facts l m hm hne
  rcases h with h | h
  · exact h1 h
  · exact h2 h

theorem sound_jsonState (O : Oracles) (l : Bytes) (h : l.head? = some 123) : LineSound O l := by
  intro pinned st
  refine ⟨[some (stateMsg (O.parseState l))], ?_, ?_⟩
  · unfold decLine
    simp only [literal_none_json l (Or.inl h), pure, Except.pure]
    rw [if_pos h]
  · rw [flatMap_single_some, C02kern.effects_stateMsg]
    unfold lineEffects readLine
    cases l with
    | nil => simp at h
    | cons c cs =>
      simp only [List.head?_cons, Option.some.injEq] at h
      subst h
      rfl

theorem flatMap_filter_some (ms : List (Option InMsg)) :
    (ms.filter Option.isSome).flatMap effectsOfMsgOpt = ms.flatMap effectsOfMsgOpt := by
  induction ms with
  | nil => rfl
  | cons m ms ih =>
    cases m with
    | none => simp [List.filter, effectsOfMsgOpt, ih]
    | some x => simp [List.filter, ih]

theorem sound_jsonArray (O : Oracles) (l : Bytes) (h : l.head? = some 91) : LineSound O l := by
  intro pinned st
  refine ⟨if pinned then O.parseMsgs l else (O.parseMsgs l).filter Option.isSome, ?_, ?_⟩
  · unfold decLine
    simp only [literal_none_json l (Or.inr h), pure, Except.pure]
    rw [if_neg (by rw [h]; decide), if_pos h]
  · have : lineEffects O l = (O.parseMsgs l).flatMap effectsOfMsgOpt := by
      unfold lineEffects readLine
      cases l with
      | nil => simp at h
      | cons c cs =>
        simp only [List.head?_cons, Option.some.injEq] at h
        subst h
        rfl
    rw [this]
    cases pinned
    · simp only [Bool.false_eq_true, if_false]; exact flatMap_filter_some _
    · simp only [if_true]

/-! ## E. every well-formed line outside the text and graphics families -/

/-- the line is an `HWCt#` or `HWCg*#` line -/
def isTextOrGfx (l : Bytes) : Bool :=
  match cut 61 l with
  | some (key, _) =>
    (match cut 35 key with
     | some (fam, _) => fam == asc "HWCt" || fam == asc "HWCg" || fam == asc "HWCgRGB" || fam == asc "HWCgGray"
     | none => false)
  | none => false

theorem isSome_iff {α : Type} (o : Option α) (h : o.isSome = true) : ∃ a, o = some a := by
  cases o with
  | none => simp at h
  | some a => exact ⟨a, rfl⟩

theorem readPlain_numKey (O : Oracles) (K v : Bytes) (mk : Nat → CmdE)
    (hsp : K ≠ asc "ActivePanel" ∧ K ≠ asc "PanelBrightness" ∧ K ≠ asc "SetCalibrationProfile" ∧ K ≠ asc "SetNetworkConfig" ∧
           K ≠ asc "SimulateEnvironmentalHealth")
    (hl : numCmdTable.lookup K = some mk) (hne : (readPlain O K v).isEmpty = false) : ∃ n, num? v = some n := by
  unfold readPlain at hne
  rw [if_neg hsp.1, if_neg hsp.2.1, if_neg hsp.2.2.1, if_neg hsp.2.2.2.1, if_neg hsp.2.2.2.2, hl] at hne
  simp only [] at hne
  cases hn : num? v with
  | none => rw [hn] at hne; simp at hne
  | some n => exact ⟨n, rfl⟩

theorem sound_plainKey (O : Oracles) (l key v : Bytes) (hc : cut 61 l = some (key, v)) (hk : plainKeys.contains key = true)
    (hlf : l.contains 10 = false) (hne : (readPlain O key v).isEmpty = false)
    (hcal : ¬ (key = asc "SetCalibrationProfile" ∧ normPayload v ≠ v)) : LineSound O l := by
  have hm : key ∈ plainKeys := by simpa using hk
  simp only [plainKeys, numCmdTable, List.map_cons, List.map_nil, List.cons_append, List.nil_append, List.mem_cons,
    List.not_mem_nil, or_false] at hm
  rcases hm with rfl | rfl | rfl | rfl | rfl | rfl | rfl | rfl | rfl | rfl | rfl | rfl | rfl | rfl
  · -- ActivePanel
    have : v = asc "1" := by
      unfold readPlain at hne
      rw [if_pos rfl] at hne
      by_cases hv : v = asc "1"
      · exact hv
      · rw [if_neg hv] at hne; simp at hne
    obtain ⟨e, _⟩ := cut_some 61 l _ v hc
    rw [this] at e
    have : l = asc "ActivePanel=1" := by rw [e]; decide
    rw [this]
    exact sound_activePanel O
  · -- PanelBrightness
    unfold readPlain at hne
    rw [if_neg (by decide), if_pos rfl] at hne
    unfold readBrightness at hne
    cases hcv : cut 44 v with
    | none =>
      rw [hcv] at hne
      simp only [] at hne
      cases hn : num? v with
      | none => rw [hn] at hne; simp at hne
      | some n => exact sound_brightness1 O l v n hc hn
    | some ab =>
      obtain ⟨a, b⟩ := ab
      rw [hcv] at hne
      simp only [] at hne
      cases ha : num? a with
      | none => rw [ha] at hne; simp at hne
      | some x =>
        cases hb : num? b with
        | none => rw [ha, hb] at hne; simp at hne
        | some y => exact sound_brightness2 O l v a b x y hc hcv ha hb
  · exact sound_cal O l v hc hlf (by
      by_cases h : normPayload v = v
      · exact h
      · exact absurd ⟨rfl, h⟩ hcal)
  · exact sound_net O l v hc hlf
  · exact sound_env O l v hc hlf
  · obtain ⟨n, hn⟩ := readPlain_numKey O _ v CmdE.heartBeatTimer (by kwfacts) (by rfl) hne
    exact sound_HeartBeatTimer O l v n hc hn
  · obtain ⟨n, hn⟩ := readPlain_numKey O _ v CmdE.dimmedGain (by kwfacts) (by rfl) hne
    exact sound_DimmedGain O l v n hc hn
  · obtain ⟨n, hn⟩ := readPlain_numKey O _ v CmdE.publishSystemStat (by kwfacts) (by rfl) hne
    exact sound_PublishSystemStat O l v n hc hn
  · obtain ⟨n, hn⟩ := readPlain_numKey O _ v CmdE.loadCPU (by kwfacts) (by rfl) hne
    exact sound_LoadCPU O l v n hc hn
  · obtain ⟨n, hn⟩ := readPlain_numKey O _ v CmdE.sleepTimer (by kwfacts) (by rfl) hne
    exact sound_SleepTimer O l v n hc hn
  · obtain ⟨n, hn⟩ := readPlain_numKey O _ v CmdE.sleepMode (by kwfacts) (by rfl) hne
    exact sound_SleepMode O l v n hc hn
  · obtain ⟨n, hn⟩ := readPlain_numKey O _ v CmdE.sleepScreenSaver (by kwfacts) (by rfl) hne
    exact sound_SleepScreenSaver O l v n hc hn
  · obtain ⟨n, hn⟩ := readPlain_numKey O _ v (fun n => CmdE.webserver (n > 0)) (by kwfacts) (by rfl) hne
    exact sound_Webserver O l v n hc hn
  · obtain ⟨n, hn⟩ := readPlain_numKey O _ v (fun n => CmdE.jsonOnOutbound (n > 0)) (by kwfacts) (by rfl) hne
    exact sound_JSONonOutbound O l v n hc hn

theorem wf_of_ite (c : Prop) [Decidable c] (h : (if c then LineClass.wellFormed else LineClass.outside) = .wellFormed) : c := by
  split at h
  · assumption
  · simp at h

theorem bool_not_true {b : Bool} (h : ¬ b = true) : b = false := by cases b <;> simp_all

/-- **every well-formed line outside the text / graphics families decodes to what the reference reader reads** -/
theorem line_sound (O : Oracles) (l : Bytes) (hw : classify O l = .wellFormed) (hnt : isTextOrGfx l = false) : LineSound O l := by
  unfold classify at hw
  split at hw
  · exact sound_jsonState O _ rfl
  · exact sound_jsonArray O _ rfl
  · cases hc : cut 61 l with
    | none =>
      rw [hc] at hw
      simp only [] at hw
      cases hl : wordTable.lookup l with
      | none => rw [hl] at hw; simp at hw
      | some e => exact sound_word O l e hl
    | some kv =>
      obtain ⟨key, v⟩ := kv
      rw [hc] at hw
      simp only [] at hw
      unfold isTextOrGfx at hnt
      rw [hc] at hnt
      simp only [] at hnt
      cases hf : cut 35 key with
      | some fi =>
        obtain ⟨fam, ids⟩ := fi
        rw [hf] at hw hnt
        simp only [] at hw hnt
        simp only [Bool.or_eq_false_iff, beq_eq_false_iff_ne, ne_eq] at hnt
        obtain ⟨⟨⟨nt1, nt2⟩, nt3⟩, nt4⟩ := hnt
        split at hw
        · simp at hw
        · split at hw
          · simp at hw
          · rename_i hg hlf
            by_cases hFlag : fam = asc "Flag"
            · subst hFlag
              rw [if_pos rfl] at hw
              have hok := wf_of_ite _ hw
              simp only [Bool.and_eq_true] at hok
              obtain ⟨hid, hv⟩ := hok
              obtain ⟨n, hn⟩ := isSome_iff _ hv
              cases hfi : flagId? ids with
              | none => rw [hfi] at hid; simp at hid
              | some idn =>
                rw [hfi] at hid
                simp only [Bool.or_eq_true, decide_eq_true_eq] at hid
                exact sound_flag O l key v ids idn n hc hf hfi hid hn
            · rw [if_neg hFlag] at hw
              have hok := wf_of_ite _ hw
              cases hids : ids? ids with
              | none => rw [hids] at hok; simp at hok
              | some idl =>
                rw [hids] at hok
                simp only [Option.isNone_some, Bool.false_eq_true, if_false] at hok
                by_cases h1 : fam = asc "HWC"
                · subst h1
                  rw [if_pos (Or.inl rfl)] at hok
                  obtain ⟨n, hn⟩ := isSome_iff _ hok
                  exact sound_mode O l key v ids idl n hc hf hids hn
                · by_cases h2 : fam = asc "HWCx"
                  · subst h2
                    rw [if_pos (Or.inr (Or.inl rfl))] at hok
                    obtain ⟨n, hn⟩ := isSome_iff _ hok
                    exact sound_ext O l key v ids idl n hc hf hids hn
                  · by_cases h3 : fam = asc "HWCc"
                    · subst h3
                      rw [if_pos (Or.inr (Or.inr rfl))] at hok
                      obtain ⟨n, hn⟩ := isSome_iff _ hok
                      exact sound_color O l key v ids idl n hc hf hids hn
                    · rw [if_neg (by intro hc'; rcases hc' with hc' | hc' | hc'; exact h1 hc'; exact h2 hc'; exact h3 hc')] at hok
                      by_cases h5 : fam = asc "HWCrawADCValues"
                      · subst h5
                        rw [if_pos rfl] at hok
                        simp only [Bool.or_eq_true, decide_eq_true_eq] at hok
                        exact sound_raw O l key v ids idl hc hf hids hok
                      · exfalso
                        have hg' : grammarFams.contains fam = true := by
                          cases hgc : grammarFams.contains fam with
                          | true => rfl
                          | false => rw [hgc] at hg; simp at hg
                        have hm : fam ∈ grammarFams := by simpa using hg'
                        simp only [grammarFams, List.mem_cons, List.not_mem_nil, or_false] at hm
                        rcases hm with h | h | h | h | h | h | h | h | h
                        · exact h1 h
                        · exact h2 h
                        · exact h3 h
                        · exact nt1 h
                        · exact h5 h
                        · exact nt2 h
                        · exact nt3 h
                        · exact nt4 h
                        · exact hFlag h
      | none =>
        rw [hf] at hw
        simp only [] at hw
        split at hw
        · rename_i hk
          split at hw
          · simp at hw
          · rename_i hlf
            split at hw
            · simp at hw
            · rename_i hne
              split at hw
              · simp at hw
              · rename_i hcal
                exact sound_plainKey O l key v hc hk (bool_not_true hlf) (bool_not_true hne) hcal
        · rename_i hk
          cases hr : readRegKey regWord key with
          | none => rw [hr] at hw; simp at hw
          | some ki =>
            obtain ⟨k, id⟩ := ki
            rw [hr] at hw
            simp only [] at hw
            split at hw
            · rename_i hnv
              obtain ⟨n, hn⟩ := isSome_iff _ hnv.1
              exact sound_regPlain O l key v id k n hc hf (bool_not_true hk) hr hn
            · simp at hw

/-! ## F. sequences -/

theorem readHash_gfx (fam ids v : Bytes) (p : GfxPart) (h : readHash fam ids v = .gfx p) :
    fam = asc "HWCg" ∨ fam = asc "HWCgRGB" ∨ fam = asc "HWCgGray" := by
  unfold readHash at h
  split at h
  · simp at h
  · split at h
    · simp at h
    · split at h
      · simp at h
      · split at h
        · simp at h
        · split at h
          · simp at h
          · split at h
            · rename_i e; exact Or.inl e
            · split at h
              · rename_i e; exact Or.inr (Or.inl e)
              · split at h
                · rename_i e; exact Or.inr (Or.inr e)
                · split at h <;> simp at h

theorem readLine_gfx (O : Oracles) (l : Bytes) (p : GfxPart) (h : readLine O l = .gfx p) : isTextOrGfx l = true := by
  unfold readLine at h
  split at h
  · simp at h
  · simp at h
  · unfold isTextOrGfx
    cases hc : cut 61 l with
    | none => rw [hc] at h; simp at h
    | some kv =>
      obtain ⟨key, v⟩ := kv
      rw [hc] at h
      simp only [] at h ⊢
      cases hf : cut 35 key with
      | none => rw [hf] at h; simp at h
      | some fi =>
        obtain ⟨fam, ids⟩ := fi
        rw [hf] at h
        simp only [] at h ⊢
        rcases readHash_gfx fam ids v p h with e | e | e <;> simp [e]

/-- the lines of the partial domain: well-formed and not a text / graphics line, or non-grammar -/
def InPartialDomain (O : Oracles) (l : Bytes) : Prop :=
  (classify O l = .wellFormed ∧ isTextOrGfx l = false) ∨ classify O l = .nonGrammar

theorem line_sound' (O : Oracles) (l : Bytes) (h : InPartialDomain O l) :
    LineSound O l ∧ readLine O l = .effects (lineEffects O l) := by
  rcases h with ⟨hw, hnt⟩ | hn
  · refine ⟨line_sound O l hw hnt, ?_⟩
    unfold lineEffects
    cases hr : readLine O l with
    | effects es => rfl
    | gfx p => have := readLine_gfx O l p hr; rw [hnt] at this; exact absurd this (by simp)
  · have hr := nongrammar_read O l hn
    refine ⟨?_, by unfold lineEffects; rw [hr]⟩
    intro pinned st
    refine ⟨if l = [] then [] else [some {}], nongrammar_decLine O pinned st l hn, ?_⟩
    unfold lineEffects
    rw [hr]
    split <;> rfl

theorem decLines_sound (O : Oracles) (pinned : Bool) (ls : List Bytes) (h : ∀ l ∈ ls, InPartialDomain O l) :
    ∀ (st : DecSt) (x : Option Xfer), ∃ outs, decLines O pinned st ls = .ok { st with out := st.out ++ outs } ∧
      outs.flatMap effectsOfMsgOpt = readFrom O x ls := by
  induction ls with
  | nil => intro st x; exact ⟨[], by simp [decLines], rfl⟩
  | cons l ls ih =>
    intro st x
    obtain ⟨hs, hr⟩ := line_sound' O l (h l (by simp))
    obtain ⟨o1, hd1, he1⟩ := hs pinned st
    obtain ⟨o2, hd2, he2⟩ := ih (fun y hy => h y (by simp [hy])) { st with out := st.out ++ o1 } x
    refine ⟨o1 ++ o2, ?_, ?_⟩
    · unfold decLines
      rw [hd1]
      simp only []
      rw [hd2]
      simp
    · rw [List.flatMap_append, he1, he2]
      simp only [readFrom, hr]

/-- **dec_sound (partial)** -/
theorem dec_sound_partial (O : Oracles) (ls : List Bytes) (h : ∀ l ∈ ls, InPartialDomain O l) :
    ∃ ms, decInE O ls = .ok ms ∧ ms.flatMap effectsOfMsgOpt = readInbound O ls := by
  obtain ⟨outs, hd, he⟩ := decLines_sound O false ls h {} none
  refine ⟨outs, ?_, he⟩
  unfold decInE
  rw [hd]
  simp

end RawPanelVerif.DecSound
