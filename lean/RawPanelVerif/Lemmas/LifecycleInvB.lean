import RawPanelVerif.Lemmas.LifecycleInvC
/-! Invariant B of the lifecycle LTS: the delivery log of every connection is exactly frames 0,1,…,delivered-1, in order. -/
namespace RawPanelVerif.Lifecycle

/-- frames delivered for connection ordinal `j`, newest first -/
def delsOf (j : Nat) : List Ev → List Nat
  | [] => []
  | .deliver k f :: r => if k = j then f :: delsOf j r else delsOf j r
  | _ :: r => delsOf j r

structure InvB (s : St) : Prop where
  dels : ∀ i c, s.conns[i]? = some c → delsOf (s.conns.length - 1 - i) s.log = (List.range c.delivered).reverse
  none : ∀ j, j ≥ s.conns.length → delsOf j s.log = []

theorem invB_init (nc rc : Nat) : InvB (initWith nc rc) := ⟨by simp [initWith], by simp [initWith, delsOf]⟩

/-- steps that keep the connections' `delivered` counters and add a non-delivery event (or nothing) to the log -/
theorem InvB.of_same {s s' : St} (hi : InvB s) (hlen : s'.conns.length = s.conns.length)
    (hd : ∀ (i : Nat) (c' : Conn), s'.conns[i]? = some c' → ∃ c : Conn, s.conns[i]? = some c ∧ c'.delivered = c.delivered)
    (hlog : ∀ j, delsOf j s'.log = delsOf j s.log) : InvB s' := by
  refine ⟨fun i c' h => ?_, fun j hj => by rw [hlog]; exact hi.none j (by omega)⟩
  obtain ⟨c, hc, hcd⟩ := hd i c' h
  rw [hlog, hlen, hcd]; exact hi.dels i c hc

theorem head_same {c c' : Conn} {rest : List Conn} (hcd : c'.delivered = c.delivered) :
    ∀ (i : Nat) (d' : Conn), (c' :: rest)[i]? = some d' → ∃ d : Conn, (c :: rest)[i]? = some d ∧ d'.delivered = d.delivered := by
  intro i d' h
  cases i with
  | zero => simp at h; subst h; exact ⟨c, by simp, hcd⟩
  | succ j => simp at h; exact ⟨d', by simp [h], rfl⟩

theorem set_same {cs : List Conn} {i : Nat} {c c' : Conn} (hc : cs[i]? = some c) (hcd : c'.delivered = c.delivered) :
    ∀ (j : Nat) (d' : Conn), (cs.set i c')[j]? = some d' → ∃ d : Conn, cs[j]? = some d ∧ d'.delivered = d.delivered := by
  intro j d' h
  rcases getElem?_set_cases h with ⟨hj, hd⟩ | ⟨_, hd⟩
  · subst hj; subst hd; exact ⟨c, hc, hcd⟩
  · exact ⟨d', hd, rfl⟩

theorem invB_step (ae : Bool) (s s' : St) (l : Lbl) (hi : InvB s) (hs : step ae s l = some s') : InvB s' := by
  cases l with
  | cancel => have := step_cancel hs; subst this; exact ⟨hi.dels, hi.none⟩
  | offer => have := step_offer hs; subst this; exact ⟨hi.dels, hi.none⟩
  | consumerStop => have := step_consumerStop hs; subst this; exact ⟨hi.dels, hi.none⟩
  | consumerResume => have := step_consumerResume hs; subst this; exact ⟨hi.dels, hi.none⟩
  | tick d => have := step_tick hs; subst this; exact ⟨hi.dels, hi.none⟩
  | dialFail => obtain ⟨_, rfl⟩ := step_dialFail hs; exact ⟨hi.dels, hi.none⟩
  | noConnTimer => obtain ⟨_, _, rfl⟩ := step_noConnTimer hs; exact ⟨hi.dels, hi.none⟩
  | noConnDrain => obtain ⟨_, _, rfl⟩ := step_noConnDrain hs; exact ⟨hi.dels, hi.none⟩
  | sleepDone =>
    obtain ⟨_, _, rfl⟩ := step_sleepDone hs
    exact hi.of_same rfl (fun i c h => ⟨c, h, rfl⟩) (fun j => by simp [delsOf])
  | onConnect =>
    obtain ⟨_, rfl⟩ := step_onConnect hs
    exact hi.of_same rfl (fun i c h => ⟨c, h, rfl⟩) (fun j => by simp [delsOf])
  | ret =>
    obtain ⟨_, rfl⟩ := step_ret hs
    exact hi.of_same rfl (fun i c h => ⟨c, h, rfl⟩) (fun j => by simp [delsOf])
  | onDisconnect b =>
    obtain ⟨c, rest, hcs, _, _, rfl⟩ := step_onDisconnect hs
    exact hi.of_same rfl (fun i c h => ⟨c, h, rfl⟩) (fun j => by simp [delsOf])
  | readErr =>
    obtain ⟨c, rest, hcs, _, _, _, rfl⟩ := step_readErr hs
    exact ⟨hi.dels, hi.none⟩
  | readFault =>
    obtain ⟨c, rest, hcs, _, _, _, _, _, _, rfl⟩ := step_readFault hs
    exact hi.of_same (by simp [hcs]) (by rw [hcs]; exact head_same rfl) (fun j => rfl)
  | peerClose =>
    obtain ⟨c, rest, hcs, _, rfl⟩ := step_peerClose hs
    exact hi.of_same (by simp [hcs]) (by rw [hcs]; exact head_same rfl) (fun j => rfl)
  | byteArrive fin =>
    obtain ⟨c, rest, hcs, _, _, rfl⟩ := step_byteArrive hs
    exact hi.of_same (by simp [hcs]) (by rw [hcs]; exact head_same rfl) (fun j => rfl)
  | takeFrame =>
    obtain ⟨c, rest, hcs, _, _, _, _, rfl⟩ := step_takeFrame hs
    exact hi.of_same (by simp [hcs]) (by rw [hcs]; exact head_same rfl) (fun j => rfl)
  | spawnWriter =>
    obtain ⟨c, rest, hcs, _, rfl⟩ := step_spawnWriter hs
    exact hi.of_same (by simp [hcs]) (by rw [hcs]; exact head_same rfl) (fun j => rfl)
  | closeQuit =>
    obtain ⟨c, rest, hcs, _, rfl⟩ := step_closeQuit hs
    exact hi.of_same (by simp [hcs]) (by rw [hcs]; exact head_same rfl) (fun j => rfl)
  | connClose =>
    obtain ⟨c, rest, hcs, _, rfl⟩ := step_connClose hs
    exact hi.of_same (by simp [hcs]) (by rw [hcs]; exact head_same rfl) (fun j => rfl)
  | writerStart i =>
    obtain ⟨c, hcs, _, rfl⟩ := step_writerStart hs
    exact hi.of_same (by simp) (set_same hcs rfl) (fun j => rfl)
  | writerSeesCancel i =>
    obtain ⟨c, hcs, _, _, rfl⟩ := step_writerSeesCancel hs
    exact hi.of_same (by simp) (set_same hcs rfl) (fun j => rfl)
  | writerSeesQuit i =>
    obtain ⟨c, hcs, _, _, rfl⟩ := step_writerSeesQuit hs
    exact hi.of_same (by simp) (set_same hcs rfl) (fun j => rfl)
  | writerTake i =>
    obtain ⟨c, hcs, _, _, rfl⟩ := step_writerTake hs
    exact hi.of_same (by simp) (set_same hcs rfl) (fun j => rfl)
  | writeDone i =>
    obtain ⟨c, hcs, _, _, rfl⟩ := step_writeDone hs
    exact hi.of_same (by simp) (set_same hcs rfl) (fun j => rfl)
  | writeErr i =>
    obtain ⟨c, hcs, _, _, rfl⟩ := step_writeErr hs
    exact hi.of_same (by simp) (set_same hcs rfl) (fun j => rfl)
  | dialOk bin =>
    obtain ⟨_, rfl⟩ := step_dialOk hs
    refine ⟨fun i c h => ?_, fun j hj => ?_⟩
    · cases i with
      | zero =>
        simp at h; subst h
        simpa [delsOf] using hi.none s.conns.length (Nat.le_refl _)
      | succ k =>
        simp at h
        have := hi.dels k c h
        have hk : k < s.conns.length := by
          rcases Nat.lt_or_ge k s.conns.length with hk | hk
          · exact hk
          · rw [List.getElem?_eq_none hk] at h; simp at h
        simp only [delsOf, List.length_cons]
        rw [show s.conns.length + 1 - 1 - (k + 1) = s.conns.length - 1 - k by omega]
        exact this
    · simp at hj
      simpa [delsOf] using hi.none j (by omega)
  | deliver =>
    obtain ⟨c, rest, hcs, _, _, _, rfl⟩ := step_deliver hs
    refine ⟨fun i d h => ?_, fun j hj => ?_⟩
    · cases i with
      | zero =>
        simp at h; subst h
        have := hi.dels 0 c (by simp [hcs])
        simp [hcs] at this
        simp [delsOf, this, List.range_succ]
      | succ k =>
        simp at h
        have := hi.dels (k + 1) d (by simp [hcs, h])
        have hk : k < rest.length := by
          rcases Nat.lt_or_ge k rest.length with hk | hk
          · exact hk
          · rw [List.getElem?_eq_none hk] at h; simp at h
        simp [hcs] at this
        have hne : ¬ (rest.length = rest.length - (k + 1)) := by omega
        simp [delsOf, hne, this]
    · simp at hj
      have := hi.none j (by simp [hcs]; omega)
      have hne : ¬ (rest.length = j) := by omega
      simp [delsOf, hne, this]

theorem invB_reachable {ae : Bool} {s : St} (h : Reachable ae s) : InvB s := by
  induction h with
  | init nc rc => exact invB_init nc rc
  | step l _ hs ih => exact invB_step ae _ _ l ih hs

end RawPanelVerif.Lifecycle
