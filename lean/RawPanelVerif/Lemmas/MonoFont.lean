import RawPanelVerif.Model.Mono
/-!
# Facts about the regenerated font tables (`Gen/Fonts.lean`), checked by kernel evaluation

Every table has 96 glyphs of the declared width; every index `GetCharWidth`, `GetCharStart` and `DrawChar` compute for
any byte lies inside the table.  The heavy `decide +kernel` facts live here so that the files building on them stay fast.
(Restated under their historical names in `Props/C20.lean`.)
-/
namespace RawPanelVerif.Mono
open RawPanelVerif.Gen

/-! ## Font tables (regenerated from /repo) -/

/-- the three cases of `SetFont` -/
theorem fontParams_cases (n : Int) :
    fontParams n = fontParams 1 ∨ fontParams n = fontParams 2 ∨ fontParams n = fontParams 0 := by
  unfold fontParams
  by_cases h1 : n = 1
  · left; simp [h1]
  · by_cases h2 : n = 2
    · right; left; simp [h2]
    · right; right; simp [h1, h2]

theorem font_tables_sized :
    (fontParams 0).table.size = 96 * (fontParams 0).memW ∧
    (fontParams 1).table.size = 96 * (fontParams 1).memW ∧
    (fontParams 2).table.size = 96 * (fontParams 2).memW ∧
    (∀ n : Int, (fontParams n).first = 32 ∧ (fontParams n).last = 127 ∧ (fontParams n).bbH ≤ 8 ∧
      1 ≤ (fontParams n).memW ∧ (fontParams n).memW ≤ (fontParams n).bbW ∧ (fontParams n).bbW ≤ 8) := by
  refine ⟨by decide +kernel, by decide +kernel, by decide +kernel, ?_⟩
  intro n
  rcases fontParams_cases n with h | h | h <;> rw [h] <;> decide +kernel

/-- every table index `(ch - first) * memW + a` with `ch` in the font's range and `a < memW` is inside the table -/
theorem glyph_index_in_range (n : Int) (ch a : Nat) (hr : (fontParams n).inRange ch = true)
    (ha : a < (fontParams n).memW) :
    (ch - (fontParams n).first) * (fontParams n).memW + a < (fontParams n).table.size := by
  obtain ⟨s0, s1, s2, hall⟩ := font_tables_sized
  obtain ⟨hf, hl, _, _, _, _⟩ := hall n
  unfold FontParams.inRange at hr
  simp only [Bool.and_eq_true, decide_eq_true_eq] at hr
  rw [hf, hl] at hr
  have hsz : (fontParams n).table.size = 96 * (fontParams n).memW := by
    rcases fontParams_cases n with h | h | h
    · rw [h]; exact s1
    · rw [h]; exact s2
    · rw [h]; exact s0
  rw [hsz, hf]
  have : ch - 32 ≤ 95 := by omega
  calc (ch - 32) * (fontParams n).memW + a < (ch - 32) * (fontParams n).memW + (fontParams n).memW := by omega
    _ = (ch - 32 + 1) * (fontParams n).memW := by rw [Nat.add_mul]; simp
    _ ≤ 96 * (fontParams n).memW := Nat.mul_le_mul_right _ (by omega)


/-- text state with a given font number / mode (the only fields glyph metrics read) -/
def tf (n : Int) (prop : Bool) : TextSt := { font := n, prop := prop }

/-- per glyph: blank-column counts are consistent, and the width of a blank glyph fits the table row -/
def glyphOk (n : Int) (ch : Nat) : Bool :=
  let p := fontParams n
  let off := (ch - p.first) * p.memW
  let sb := startBlanks p off p.memW 0
  let eb := endBlanks p off p.memW 0
  (sb == p.memW || sb + eb < p.memW) && sb ≤ p.memW &&
  (constrain (p.bbW / 2 : Nat) 3 p.bbW).toNat ≤ p.memW + 1 &&
  ((p.tight == 1 && p.memW + 1 == p.bbW) || (p.tight == 0 && p.memW == p.bbW))

/-- checked over the regenerated tables: all 96 glyphs of all three fonts -/
theorem glyph_facts : ∀ n ∈ [0, 1, 2], ∀ ch ∈ List.range 128, 32 ≤ ch → glyphOk (n : Int) ch = true := by
  decide +kernel

theorem glyph_facts' (n : Int) (ch : Nat) (h1 : 32 ≤ ch) (h2 : ch ≤ 127) : glyphOk n ch = true := by
  have key : ∀ m : Int, m ∈ [0, 1, 2] → glyphOk m ch = true :=
    fun m hm => glyph_facts m hm ch (by simp; omega) h1
  have hdep : ∀ m : Int, fontParams n = fontParams m → glyphOk n ch = glyphOk m ch := by
    intro m hm; unfold glyphOk; rw [hm]
  rcases fontParams_cases n with h | h | h
  · rw [hdep 1 h]; exact key 1 (by simp)
  · rw [hdep 2 h]; exact key 2 (by simp)
  · rw [hdep 0 h]; exact key 0 (by simp)

/-- **No index panic in `DrawChar`**: for any font number, mode, byte and column the font-table index it reads is
inside the (regenerated) table. -/
theorem drawChar_index_in_range (n : Int) (prop : Bool) (ch i : Nat)
    (hr : (fontParams n).inRange ch = true) (hi : i < charWidth (tf n prop) ch)
    (hskip : ¬ ((prop || decide ((fontParams n).tight > 0)) = true ∧ i + 1 = charWidth (tf n prop) ch)) :
    (ch - (fontParams n).first) * (fontParams n).memW + charStart (tf n prop) ch + i < (fontParams n).table.size := by
  obtain ⟨_, _, _, hall⟩ := font_tables_sized
  obtain ⟨hf, hl, _, hm1, hmw, hbw⟩ := hall n
  have hr' := hr
  unfold FontParams.inRange at hr'
  simp only [Bool.and_eq_true, decide_eq_true_eq] at hr'
  rw [hf, hl] at hr'
  have hg := glyph_facts' n ch hr'.1 hr'.2
  unfold glyphOk at hg
  simp only [Bool.and_eq_true, Bool.or_eq_true, beq_iff_eq, decide_eq_true_eq] at hg
  obtain ⟨⟨⟨hsb, hsble⟩, hspace⟩, htight⟩ := hg
  have key : charStart (tf n prop) ch + i < (fontParams n).memW := by
    unfold charWidth charStart tf TextSt.fp at *
    simp only [hr, Bool.true_and] at hi hskip ⊢
    cases prop with
    | true =>
      simp only [if_true, Bool.true_or, true_and] at hi hskip ⊢
      split at hi
      · rename_i hblank
        rw [if_pos hblank]
        rw [if_pos hblank] at hskip
        have : (constrain ((fontParams n).bbW / 2 : Nat) 3 (fontParams n).bbW).toNat % 256 ≤ (fontParams n).memW + 1 :=
          Nat.le_trans (Nat.mod_le _ _) hspace
        omega
      · rename_i hblank
        rw [if_neg hblank] at hskip ⊢
        rcases hsb with hsb | hsb
        · exact absurd hsb hblank
        · omega
    | false =>
      simp only [Bool.false_eq_true, if_false, Bool.false_or] at hi hskip ⊢
      rcases htight with ⟨ht, hm⟩ | ⟨ht, hm⟩
      · have : (fontParams n).tight > 0 := by omega
        simp only [this, decide_true, true_and] at hskip
        omega
      · omega
  have := glyph_index_in_range n ch (charStart (tf n prop) ch + i) hr key
  omega

theorem fp_pos (n : Int) : 1 ≤ (fontParams n).bbW ∧ 1 ≤ (fontParams n).bbH := by
  rcases fontParams_cases n with h | h | h <;> rw [h] <;> decide +kernel


/-- every glyph is at most 9 columns wide (8×8 font: 8 table columns + 1 spacing column) -/
theorem charWidth_le (t : TextSt) (ch : Nat) : charWidth t ch ≤ 9 := by
  obtain ⟨_, _, _, hall⟩ := font_tables_sized
  obtain ⟨hf, hl, _, hm1, hmw, hbw⟩ := hall t.font
  unfold charWidth
  simp only []
  split
  · rename_i hc
    simp only [Bool.and_eq_true] at hc
    have hr := hc.1
    unfold TextSt.fp FontParams.inRange at hr
    simp only [Bool.and_eq_true, decide_eq_true_eq] at hr
    rw [hf, hl] at hr
    have hg := glyph_facts' t.font ch hr.1 hr.2
    unfold glyphOk at hg
    simp only [Bool.and_eq_true, Bool.or_eq_true, beq_iff_eq, decide_eq_true_eq] at hg
    obtain ⟨⟨⟨hsb, hsble⟩, hspace⟩, htight⟩ := hg
    unfold TextSt.fp
    split
    · have : (constrain ((fontParams t.font).bbW / 2 : Nat) 3 (fontParams t.font).bbW).toNat % 256 ≤ (fontParams t.font).memW + 1 :=
        Nat.le_trans (Nat.mod_le _ _) hspace
      omega
    · rename_i hblank
      rcases hsb with hsb | hsb
      · exact absurd hsb hblank
      · omega
  · unfold TextSt.fp; omega

theorem bbH_le (t : TextSt) : t.fp.bbH ≤ 8 := by
  obtain ⟨_, _, _, hall⟩ := font_tables_sized
  exact (hall t.font).2.2.1

end RawPanelVerif.Mono
