import RawPanelVerif.Lemmas.DecText
/-! C02 `dec_sound`: `HWCt#` text lines (`sound_text`), every well-formed line that is not a graphics line
(`line_sound_nogfx`), and sequences without graphics lines (`dec_sound_nogfx`). -/
namespace RawPanelVerif.DecSound
open RawPanelVerif RawPanelVerif.Bytes RawPanelVerif.MsgIn RawPanelVerif.Model.In RawPanelVerif.InBits RawPanelVerif.ReadIn
open RawPanelVerif.Spec.In RawPanelVerif.EncSound RawPanelVerif.TotalIn RawPanelVerif.DecShape RawPanelVerif.DecText

theorem effects_text (idl : List Nat) (t : Text) (ht : t ≠ {}) :
    effectsOfIn (stateMsg { ids := idl, text := some t }) = idl.map (fun id => Effect.setText id (normText (textOf t))) := by
  rw [C02kern.effects_stateMsg]
  unfold effectsOfState effectsOfStateId
  simp only [opt, List.nil_append, List.append_nil, if_neg ht]
  exact C02kern.flatMap_singleton idl _

/-- a well-formed `HWCt#` line -/
theorem sound_text (O : Oracles) (l key v ids : Bytes) (idl : List Nat)
    (hc : cut 61 l = some (key, v)) (hf : cut 35 key = some (asc "HWCt", ids))
    (hids : ids? ids = some idl) (hlf : l.contains 10 = false) (hwf : textWellFormed v = true) : LineSound O l := by
  obtain ⟨hl, h35⟩ := hash_line_eq l key v _ ids hc hf
  obtain ⟨i1, i2, i3⟩ := ids_spec ids idl hids
  obtain ⟨t, ht, hk⟩ := text_kernel v hwf
  have hl' : l = asc "HWCt#" ++ ids ++ 61 :: v := by rw [hl]; rfl
  refine sound_of_cmd O l [asc "HWC#", asc "HWCx#", asc "HWCc#"] (asc "HWCt#") _ ids v
    (stateMsg { ids := idl, text := some (decText v) }) hl' h35 (by decide) rfl (by decide) i1 i2
    (noLF_of_contains l key v hc hlf) ?_ ?_
  · simp only [decCmd, sub, bind, Except.bind, pure, Except.pure, List.getElem?_cons_succ, List.getElem?_cons_zero]
    rw [if_neg (by decide), if_neg (by decide), if_neg (by decide), if_pos trivial, i3]
  · have hh : l.head? ≠ some 123 ∧ l.head? ≠ some 91 := by rw [hl', List.append_assoc]; exact head_kw _ _ (by decide)
    unfold lineEffects
    rw [readLine_hash O l key v _ ids hh.1 hh.2 hc hf]
    unfold readHash
    rw [if_neg (by decide), if_neg (by decide), if_neg (by decide), if_pos rfl, ht]
    simp only []
    rw [forIds_some ids idl _ hids, effects_text idl _ (decText_ne_default v), hk]

/-- the line is an `HWCg#`, `HWCgRGB#` or `HWCgGray#` line -/
def isGfxLine (l : Bytes) : Bool :=
  match cut 61 l with
  | some (key, _) =>
    (match cut 35 key with
     | some (fam, _) => fam == asc "HWCg" || fam == asc "HWCgRGB" || fam == asc "HWCgGray"
     | none => false)
  | none => false

/-- **every well-formed line outside the graphics families decodes to what the reference reader reads** -/
theorem line_sound_nogfx (O : Oracles) (l : Bytes) (hw : classify O l = .wellFormed) (hng : isGfxLine l = false) :
    LineSound O l := by
  by_cases hnt : isTextOrGfx l = false
  · exact line_sound O l hw hnt
  · have hnt' : isTextOrGfx l = true := by cases h : isTextOrGfx l <;> simp_all
    unfold isTextOrGfx at hnt'
    unfold isGfxLine at hng
    cases hc : cut 61 l with
    | none => rw [hc] at hnt'; simp at hnt'
    | some kv =>
      obtain ⟨key, v⟩ := kv
      rw [hc] at hnt' hng
      simp only [] at hnt' hng
      cases hf : cut 35 key with
      | none => rw [hf] at hnt'; simp at hnt'
      | some fi =>
        obtain ⟨fam, ids⟩ := fi
        rw [hf] at hnt' hng
        simp only [] at hnt' hng
        simp only [Bool.or_eq_false_iff, beq_eq_false_iff_ne, ne_eq] at hng
        obtain ⟨⟨g1, g2⟩, g3⟩ := hng
        simp only [Bool.or_eq_true, beq_iff_eq] at hnt'
        have hfam : fam = asc "HWCt" := by
          rcases hnt' with ((h | h) | h) | h
          · exact h
          · exact absurd h g1
          · exact absurd h g2
          · exact absurd h g3
        subst hfam
        obtain ⟨hl, _⟩ := hash_line_eq l key v _ ids hc hf
        have hhead : l.head? = some 72 := by rw [hl]; rfl
        unfold classify at hw
        split at hw
        · simp at hhead
        · simp at hhead
        · rw [hc] at hw
          simp only [] at hw
          rw [hf] at hw
          simp only [] at hw
          split at hw
          · simp at hw
          · split at hw
            · simp at hw
            · rename_i hg hlf
              have hok := wf_of_ite _ hw
              rw [if_neg (show ¬ asc "HWCt" = asc "Flag" by decide)] at hok
              cases hids : ids? ids with
              | none => rw [hids] at hok; simp at hok
              | some idl =>
                rw [hids] at hok
                simp only [Option.isNone_some, Bool.false_eq_true, if_false] at hok
                rw [if_neg (show ¬ (asc "HWCt" = asc "HWC" ∨ asc "HWCt" = asc "HWCx" ∨ asc "HWCt" = asc "HWCc") by decide),
                  if_pos trivial] at hok
                exact sound_text O l key v ids idl hc hf hids (bool_not_true hlf) hok

/-- the lines of the graphics-free domain: well-formed and not a graphics line, or non-grammar -/
def InNoGfxDomain (O : Oracles) (l : Bytes) : Prop :=
  (classify O l = .wellFormed ∧ isGfxLine l = false) ∨ classify O l = .nonGrammar

theorem isGfxLine_of_textOrGfx (l : Bytes) (h : isTextOrGfx l = false) : isGfxLine l = false := by
  unfold isTextOrGfx at h
  unfold isGfxLine
  cases hc : cut 61 l with
  | none => rfl
  | some kv =>
    obtain ⟨key, v⟩ := kv
    rw [hc] at h
    simp only [] at h ⊢
    cases hf : cut 35 key with
    | none => rfl
    | some fi =>
      obtain ⟨fam, ids⟩ := fi
      rw [hf] at h
      simp only [] at h ⊢
      simp only [Bool.or_eq_false_iff] at h ⊢
      exact ⟨⟨h.1.1.2, h.1.2⟩, h.2⟩

/-- the graphics-free domain contains the partial domain of `dec_sound_partial` -/
theorem InNoGfxDomain_of_partial (O : Oracles) (l : Bytes) (h : InPartialDomain O l) : InNoGfxDomain O l := by
  rcases h with ⟨hw, hnt⟩ | hn
  · exact Or.inl ⟨hw, isGfxLine_of_textOrGfx l hnt⟩
  · exact Or.inr hn

theorem readLine_gfx' (O : Oracles) (l : Bytes) (p : GfxPart) (h : readLine O l = .gfx p) : isGfxLine l = true := by
  unfold readLine at h
  split at h
  · simp at h
  · simp at h
  · unfold isGfxLine
    cases hc : cut 61 l with
    | none => rw [hc] at h; simp at h
    | some kv =>
      obtain ⟨key, v⟩ := kv
      rw [hc] at h
      simp only [] at h ⊢
      cases hf : cut 35 key with
      | none => rw [hf] at h; simp at h
      | some fi =>
        obtain ⟨fam, ids⟩ := fi
        rw [hf] at h
        simp only [] at h ⊢
        rcases readHash_gfx fam ids v p h with e | e | e <;> simp [e]

/-- a line of the graphics-free domain: sound, graphics state untouched, and an effects line for the reader -/
theorem line_sound_nogfx' (O : Oracles) (l : Bytes) (h : InNoGfxDomain O l) :
    LineSound O l ∧ readLine O l = .effects (lineEffects O l) := by
  rcases h with ⟨hw, hng⟩ | hn
  · refine ⟨line_sound_nogfx O l hw hng, ?_⟩
    unfold lineEffects
    cases hr : readLine O l with
    | effects es => rfl
    | gfx p => have := readLine_gfx' O l p hr; rw [hng] at this; exact absurd this (by simp)
  · exact line_sound' O l (Or.inr hn)

theorem decLines_sound_nogfx (O : Oracles) (pinned : Bool) (ls : List Bytes) (h : ∀ l ∈ ls, InNoGfxDomain O l) :
    ∀ (st : DecSt) (x : Option Xfer), ∃ outs, decLines O pinned st ls = .ok { st with out := st.out ++ outs } ∧
      outs.flatMap effectsOfMsgOpt = readFrom O x ls := by
  induction ls with
  | nil => intro st x; exact ⟨[], by simp [decLines], rfl⟩
  | cons l ls ih =>
    intro st x
    obtain ⟨hs, hr⟩ := line_sound_nogfx' O l (h l (by simp))
    obtain ⟨o1, hd1, he1⟩ := hs pinned st
    obtain ⟨o2, hd2, he2⟩ := ih (fun y hy => h y (by simp [hy])) { st with out := st.out ++ o1 } x
    refine ⟨o1 ++ o2, ?_, ?_⟩
    · unfold decLines
      rw [hd1]
      simp only []
      rw [hd2]
      simp
    · rw [List.flatMap_append, he1, he2]
      simp only [readFrom, hr]

/-- **dec_sound without graphics lines** (text lines included) -/
theorem dec_sound_nogfx (O : Oracles) (ls : List Bytes) (h : ∀ l ∈ ls, InNoGfxDomain O l) :
    ∃ ms, decInE O ls = .ok ms ∧ ms.flatMap effectsOfMsgOpt = readInbound O ls := by
  obtain ⟨outs, hd, he⟩ := decLines_sound_nogfx O false ls h {} none
  refine ⟨outs, ?_, he⟩
  unfold decInE
  rw [hd]
  simp

end RawPanelVerif.DecSound
