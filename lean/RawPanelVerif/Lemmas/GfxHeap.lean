import RawPanelVerif.Lemmas.GfxSafeStream
/-!
C05, "never altered after delivery" for the streaming reader, with object identity.

`Stream.parse` (the model compared with `ASCIIreader.Parse` on every record) returns images by value.  Here the same
reader is run with its image objects in a session heap (`Stream.runH`): the object a message refers to is cell `ref` of
the region allocated by the batch call of the `Parse` call that returned it.

* `parse_is_handover`   `Parse` returns nil or exactly what the batch converter returns for the handed-over lines
                        (`Stream.parse = handover` then `Batch.decode`): the link between the two models.
* `parseH_sees`         reading the returned references in the region at return time gives `Stream.parse`'s messages.
* `runH_heap`           the session heap after a history is the initial heap followed by the calls' regions, each
                        exactly as it was when its call returned (later calls only allocate).
* `stream_never_altered` every delivery: the bytes its object holds in the session heap at the END of the history are the
                        bytes it held when `Parse` returned it; and the deliveries are those of `Stream.parse`.

What this rests on in the Go code (and where it is checked): `Parse` keeps no pointer to an image — the reader has only
the five value-typed fields (`reader_fields_are_values`, regenerated from the struct declaration on every run); the batch
converter allocates its image objects itself (`&rwp.HWCGfx{…}` at entry and at each chunk 0: `Batch.run` starts from a
fresh store); there is no package-level mutable state (C06 `no_shared_mutable_state`).  The S and J sections of every
`gfx.*` record list the bytes the real delivered objects hold at the end of the history (`F …`), compared with the model.
-/
namespace RawPanelVerif.Gfx
open RawPanelVerif

/-! ### `Parse` hands over to the batch converter -/

theorem parseP_is_handoverP (s : RState) (p : Parsed) (line : Bytes) :
    Stream.parseP s p line =
      ((Stream.handoverP s p line).1,
        match (Stream.handoverP s p line).2 with
        | none => []
        | some ls => Batch.decode Batch.step ls) := by
  unfold Stream.parseP Stream.handoverP
  simp only []
  repeat' split
  all_goals first | rfl | simp_all

theorem parse_is_handover (s : RState) (l : Bytes) :
    Stream.parse s l =
      ((Stream.handover s l).1,
        match (Stream.handover s l).2 with
        | none => []
        | some ls => Batch.decode Batch.step ls) := by
  unfold Stream.parse Stream.handover
  simp only []
  cases matchGfx (trimSpace l) with
  | none => rfl
  | some m => simp only []; exact parseP_is_handoverP _ _ _

/-- the messages of a call, read in its region at return time -/
def Call.seen (c : Call) : List Seen := c.outs.map (see c.region)

theorem parseH_state (s : RState) (l : Bytes) : (Stream.parseH s l).1 = (Stream.parse s l).1 := by
  rw [parse_is_handover]
  unfold Stream.parseH
  simp only []
  generalize Stream.handover s l = h
  obtain ⟨a, b⟩ := h
  cases b <;> rfl

theorem parseH_sees (s : RState) (l : Bytes) :
    (Call.mk (Stream.parseH s l).2.1 (Stream.parseH s l).2.2).seen = (Stream.parse s l).2 := by
  rw [parse_is_handover]
  unfold Stream.parseH Call.seen
  simp only []
  generalize Stream.handover s l = h
  obtain ⟨a, b⟩ := h
  cases b with
  | none => rfl
  | some ls => simp [Batch.decode, List.map_map, Function.comp_def]

/-! ### the session heap only grows -/

theorem runH_heap : ∀ (ls : List Bytes) (s : RState) (heap : List (List Img)),
    (Stream.runH s heap ls).2.1 = heap ++ (Stream.runH s heap ls).2.2.map (·.region) := by
  intro ls
  induction ls with
  | nil => intro s heap; simp [Stream.runH]
  | cons l ls ih =>
    intro s heap
    simp only [Stream.runH, List.map_cons]
    rw [ih]
    simp

theorem runH_calls_indep : ∀ (ls : List Bytes) (s : RState) (h1 h2 : List (List Img)),
    (Stream.runH s h1 ls).2.2 = (Stream.runH s h2 ls).2.2 ∧ (Stream.runH s h1 ls).1 = (Stream.runH s h2 ls).1 := by
  intro ls
  induction ls with
  | nil => intro s h1 h2; exact ⟨rfl, rfl⟩
  | cons l ls ih =>
    intro s h1 h2
    have := ih (Stream.parseH s l).1 (h1 ++ [(Stream.parseH s l).2.2]) (h2 ++ [(Stream.parseH s l).2.2])
    simp only [Stream.runH]
    rw [this.1, this.2]
    exact ⟨rfl, rfl⟩

/-- the session follows `Stream.parse`: same reader states, same messages per call -/
theorem runH_follows : ∀ (ls : List Bytes) (s : RState) (heap : List (List Img)) (pos : Nat),
    (Stream.runH s heap ls).1 = (Stream.runFrom Stream.parse s pos ls).1 ∧
    (Stream.runH s heap ls).2.2.map Call.seen = (Stream.runFrom Stream.parse s pos ls).2.map (·.2) := by
  intro ls
  induction ls with
  | nil => intro s heap pos; exact ⟨rfl, rfl⟩
  | cons l ls ih =>
    intro s heap pos
    have := ih (Stream.parseH s l).1 (heap ++ [(Stream.parseH s l).2.2]) (pos + 1)
    simp only [Stream.runH, Stream.runFrom, List.map_cons]
    rw [parseH_state] at this
    rw [parseH_state, this.1, this.2, parseH_sees]
    exact ⟨rfl, rfl⟩

/-! ### deliveries with object identity -/

/-- the deliveries of a session whose calls started at heap index / line position `i`: the image as read when `Parse`
returned (in the call's region at that time), and the bytes the same object — cell `ref` of region `i` — holds in the
final session heap `H` -/
def delivsH (H : List (List Img)) : Nat → List Call → List Spec.Gfx.Deliv
  | _, [] => []
  | i, c :: rest =>
    c.outs.filterMap (fun o =>
      match o with
      | .gfx ids ref =>
        some { pos := some i, img := specImg ids (c.region.getD ref {}), final := ((H.getD i []).getD ref {}).data }
      | .other _ => none) ++ delivsH H (i + 1) rest

/-- the deliveries of the history `lines` through a fresh reader, objects in the session heap -/
def streamDelivsH (lines : List Bytes) : List Spec.Gfx.Deliv :=
  delivsH (Stream.runH {} [] lines).2.1 0 (Stream.runH {} [] lines).2.2

theorem seenDelivs_call (i : Nat) (c : Call) :
    seenDelivs i c.seen =
      c.outs.filterMap (fun o =>
        match o with
        | .gfx ids ref =>
          some { pos := some i, img := specImg ids (c.region.getD ref {}), final := (c.region.getD ref {}).data }
        | .other _ => none) := by
  unfold seenDelivs Call.seen
  rw [List.filterMap_map]
  congr 1
  funext o
  cases o <;> rfl

theorem delivsH_eq (pre : List (List Img)) : ∀ (cs : List Call) (post : List (List Img)),
    delivsH (pre ++ cs.map (·.region) ++ post) pre.length cs =
      ((List.range' pre.length cs.length).zip cs).flatMap (fun ic => seenDelivs ic.1 ic.2.seen) := by
  intro cs
  induction cs generalizing pre with
  | nil => intro post; rfl
  | cons c cs ih =>
    intro post
    have hget : (pre ++ (c :: cs).map (·.region) ++ post).getD pre.length [] = c.region := by
      simp [List.getD_eq_getElem?_getD, List.append_assoc]
    have hrest := ih (pre ++ [c.region]) post
    simp only [List.length_append, List.length_singleton] at hrest
    have e : pre ++ [c.region] ++ cs.map (·.region) ++ post = pre ++ (c :: cs).map (·.region) ++ post := by simp
    rw [e] at hrest
    simp only [delivsH, hget, List.length_cons, List.range'_succ, List.zip_cons_cons, List.flatMap_cons]
    rw [hrest, seenDelivs_call]

/-- **never altered, streaming**: for every history whatsoever, the deliveries of the reader with object identity are
those of `Stream.parse`, and the bytes each delivered object holds in the session heap at the end of the history
are the bytes it held when `Parse` returned it -/
theorem streamDelivsH_eq (lines : List Bytes) :
    streamDelivsH lines = delivsOfStream (Stream.run Stream.parse lines).2 := by
  unfold streamDelivsH
  rw [runH_heap]
  have h := delivsH_eq [] (Stream.runH {} [] lines).2.2 []
  simp only [List.nil_append, List.append_nil, List.length_nil] at h ⊢
  rw [h]
  have hf := (runH_follows lines {} [] 0).2
  unfold Stream.run delivsOfStream
  -- both sides enumerate the calls with their positions
  have key : ∀ (ls : List Bytes) (s : RState) (heap : List (List Img)) (pos : Nat),
      ((List.range' pos (Stream.runH s heap ls).2.2.length).zip (Stream.runH s heap ls).2.2).flatMap
          (fun ic => seenDelivs ic.1 ic.2.seen) =
        (Stream.runFrom Stream.parse s pos ls).2.flatMap (fun ps => seenDelivs ps.1 ps.2) := by
    intro ls
    induction ls with
    | nil => intro s heap pos; rfl
    | cons l ls ih =>
      intro s heap pos
      have := ih (Stream.parseH s l).1 (heap ++ [(Stream.parseH s l).2.2]) (pos + 1)
      rw [parseH_state] at this
      simp only [Stream.runH, Stream.runFrom, List.length_cons, List.range'_succ, List.zip_cons_cons,
        List.flatMap_cons]
      rw [parseH_state, this, parseH_sees]
  exact key lines {} [] 0

theorem stream_never_altered (lines : List Bytes) : ∀ d ∈ streamDelivsH lines, d.final = d.img.data := by
  intro d hd
  rw [streamDelivsH_eq] at hd
  simp only [delivsOfStream, List.mem_flatMap] at hd
  obtain ⟨ps, _, hd⟩ := hd
  simp only [seenDelivs, List.mem_filterMap] at hd
  obtain ⟨sn, _, hd⟩ := hd
  cases sn with
  | other _ => simp at hd
  | gfx ids img r => simp only [Option.some.injEq] at hd; rw [← hd]; rfl

end RawPanelVerif.Gfx
