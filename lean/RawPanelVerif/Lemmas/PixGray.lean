import RawPanelVerif.Lemmas.PixLemmas
/-!
# Content of the 4-bit-grey export for **every** width (odd ones included)

`GetImgSliceGray` walks each row in pairs of columns: byte `p` of the output holds, for row `p / rs` and pair `p % rs`
(`rs = ⌈W/2⌉` pairs per row), the grey of stored bit `2j` in the high nibble and of stored bit `2j+1` in the low nibble.
For odd `W` the last pair of a row reaches the padding bit at column `W`, and since only `⌊W·H/2⌋` bytes exist the pairs
beyond the end are dropped (`pointer < len(Gray16Image)`).
-/
namespace RawPanelVerif.Pix
open RawPanelVerif.Mono

/-- the byte written for the pair of stored bits `(x, y)`, `(x+1, y)` -/
def pairByte (c : Canvas) (gp gb : Byte) (x y : Nat) : Byte :=
  (gv c gp gb x y &&& 0xF0#8) ||| ((gv c gp gb (x + 1) y >>> 4) &&& 0x0F#8)

theorem grayRow_saturated (c : Canvas) (gp gb : Byte) (row col ptr : Nat) (out : Array Byte) (h : out.size ≤ ptr) :
    grayRow c gp gb row col ptr out = some (ptr, out) := by
  fun_induction grayRow c gp gb row col ptr out with
  | case1 col ptr out hc hp hnone => omega
  | case2 col ptr out hc hp b1 hb1 hnone => omega
  | case3 col ptr out hc hp b1 hb1 hiV b2 hb2 v ih => omega
  | case4 col ptr out hc hp ih => exact ih h
  | case5 col ptr out hc => rfl

theorem grayRow_content (c : Canvas) (hW : c.geo.W ≤ c.geo.wib * 8) (hsz : c.geo.wib * c.geo.H ≤ c.bytes.size)
    (gp gb : Byte) (row : Nat) (hr : row < c.geo.H) (col ptr : Nat) (out : Array Byte)
    (hc : col % 2 = 0) (hp : ptr ≤ out.size) :
    ∃ ptr' out', grayRow c gp gb row col ptr out = some (ptr', out') ∧ out'.size = out.size ∧
      ptr' = min out.size (ptr + (c.geo.W + 1 - col) / 2) ∧
      (∀ j, j < ptr → out'[j]? = out[j]?) ∧
      (∀ i, ptr + i < ptr' → out'[ptr + i]? = some (pairByte c gp gb (col + 2 * i) row)) := by
  fun_induction grayRow c gp gb row col ptr out with
  | case1 col ptr out hcw hps hnone =>
    obtain ⟨b, hb, _⟩ := canvas_read c hsz col row (by omega) hr
    rw [hb] at hnone; cases hnone
  | case2 col ptr out hcw hps b1 hb1 hnone =>
    obtain ⟨b, hb, _⟩ := canvas_read c hsz (col + 1) row (by omega) hr
    rw [hb] at hnone; cases hnone
  | case3 col ptr out hcw hps b1 hb1 hiV b2 hb2 v ih =>
    obtain ⟨p', o', h1, h2, h3, h4, h5⟩ := ih (by omega) (by rw [Array.size_set]; omega)
    obtain ⟨b, hb, hbit1⟩ := canvas_read c hsz col row (by omega) hr
    obtain ⟨b', hb', hbit2⟩ := canvas_read c hsz (col + 1) row (by omega) hr
    rw [hb] at hb1; cases hb1
    rw [hb'] at hb2; cases hb2
    rw [Array.size_set] at h2 h3
    refine ⟨p', o', h1, h2, by omega, ?_, ?_⟩
    · intro j hj
      have hne : ptr ≠ j := by omega
      rw [h4 j (by omega)]
      simp only [Array.getElem?_set, if_neg hne]
    · intro i hi
      cases i with
      | zero =>
        rw [Nat.add_zero, h4 ptr (by omega), Array.getElem?_set_self]
        congr 1
        simp only [v, hiV, pairByte, gv, hbit1, hbit2, Nat.mul_zero, Nat.add_zero, dite_eq_ite]
      | succ i =>
        have := h5 i (by omega)
        have e1 : ptr + 1 + i = ptr + (i + 1) := by omega
        have e2 : col + 2 + 2 * i = col + 2 * (i + 1) := by omega
        rw [e1, e2] at this
        exact this
  | case4 col ptr out hcw hps ih =>
    have hsat := grayRow_saturated c gp gb row (col + 1) ptr out (by omega)
    refine ⟨ptr, out, hsat, rfl, by omega, fun _ _ => rfl, ?_⟩
    intro i hi; omega
  | case5 col ptr out hcw =>
    refine ⟨ptr, out, rfl, rfl, by omega, fun _ _ => rfl, ?_⟩
    intro i hi; omega

theorem div_mod_of (p r rs i : Nat) (hi : i < rs) (hp : p = r * rs + i) : p / rs = r ∧ p % rs = i := by
  subst hp
  constructor
  · rw [Nat.mul_comm, Nat.mul_add_div (by omega), Nat.div_eq_of_lt hi]; rfl
  · rw [Nat.mul_comm, Nat.mul_add_mod, Nat.mod_eq_of_lt hi]

/-- **Every byte of the grey export, any width**: byte `p` = the pair of stored bits `(2j, r)`, `(2j+1, r)` with
`r = p / ⌈W/2⌉`, `j = p % ⌈W/2⌉` -/
theorem sliceGray_bytes (c : Canvas) (hwf : c.WF) (pcol bcol : Nat) :
    ∃ out, sliceGray c pcol bcol = some out ∧ out.size = c.geo.W * c.geo.H / 2 ∧
      ∀ p, p < c.geo.W * c.geo.H / 2 →
        out[p]? = some (pairByte c (rgb16ToGray pcol) (rgb16ToGray bcol) (2 * (p % ((c.geo.W + 1) / 2))) (p / ((c.geo.W + 1) / 2))) := by
  obtain ⟨hW, hsz⟩ := hwf
  obtain ⟨s', hs, hinv⟩ := forN_inv c.geo.H
    (fun (st : Nat × Array Byte) row => grayRow c (rgb16ToGray pcol) (rgb16ToGray bcol) row 0 st.1 st.2)
    (0, Array.replicate (c.geo.W * c.geo.H / 2) 0#8)
    (fun r st => st.2.size = c.geo.W * c.geo.H / 2 ∧ st.1 = min st.2.size (r * ((c.geo.W + 1) / 2)) ∧
      ∀ p, p < st.1 →
        st.2[p]? = some (pairByte c (rgb16ToGray pcol) (rgb16ToGray bcol) (2 * (p % ((c.geo.W + 1) / 2))) (p / ((c.geo.W + 1) / 2))))
    (by
      refine ⟨by simp, by simp, ?_⟩
      intro p hp; omega)
    (by
      rintro r ⟨p, o⟩ hr ⟨hi1, hi2, hi3⟩
      simp only [] at hi1 hi2 hi3
      obtain ⟨p', o', h1, h2, h3, h4, h5⟩ := grayRow_content c hW (by omega) (rgb16ToGray pcol) (rgb16ToGray bcol) r hr 0 p o
        rfl (by omega)
      simp only [Nat.sub_zero] at h3
      refine ⟨(p', o'), h1, by simp only []; omega, ?_, ?_⟩
      · simp only []
        rw [h2, Nat.add_mul, Nat.one_mul]
        omega
      · intro q hq
        simp only [] at hq ⊢
        by_cases hlt : q < p
        · rw [h4 q hlt]; exact hi3 q hlt
        · have hq' : p + (q - p) < p' := by omega
          have := h5 (q - p) hq'
          have e : p + (q - p) = q := by omega
          rw [e] at this
          rw [this]
          -- the row was not saturated at its start: p = r * rs
          have hp : p = r * ((c.geo.W + 1) / 2) := by omega
          have hi : q - p < (c.geo.W + 1) / 2 := by omega
          obtain ⟨d1, d2⟩ := div_mod_of q r ((c.geo.W + 1) / 2) (q - p) hi (by omega)
          rw [d1, d2]
          simp only [Nat.zero_add])
  refine ⟨s'.2, by unfold sliceGray; simp only [hs, Option.map_some], hinv.1, ?_⟩
  intro p hp
  refine hinv.2.2 p ?_
  rw [hinv.2.1, hinv.1]
  -- all ⌊W·H/2⌋ bytes are reached: H rows of ⌈W/2⌉ pairs cover them
  have : c.geo.W * c.geo.H / 2 ≤ c.geo.H * ((c.geo.W + 1) / 2) := by
    have h1 : c.geo.W ≤ 2 * ((c.geo.W + 1) / 2) := by omega
    have h2 : c.geo.W * c.geo.H ≤ 2 * ((c.geo.W + 1) / 2) * c.geo.H := Nat.mul_le_mul_right _ h1
    have h3 : 2 * ((c.geo.W + 1) / 2) * c.geo.H = 2 * (c.geo.H * ((c.geo.W + 1) / 2)) := by
      rw [Nat.mul_assoc, Nat.mul_comm ((c.geo.W + 1) / 2) c.geo.H]
    omega
  omega

theorem pairByte_hi (c : Canvas) (gp gb : Byte) (x y : Nat) : (pairByte c gp gb x y) >>> 4 = gv c gp gb x y >>> 4 := nib_hi _ _
theorem pairByte_lo (c : Canvas) (gp gb : Byte) (x y : Nat) : (pairByte c gp gb x y) &&& 0x0F#8 = gv c gp gb (x + 1) y >>> 4 := nib_lo _ _

end RawPanelVerif.Pix
