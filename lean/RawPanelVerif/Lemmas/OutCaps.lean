import RawPanelVerif.Lemmas.OutLemmas
/-! Capability-list lemmas (C03 `caps_all_subsets`, C04 `support_any_order`). -/
namespace RawPanelVerif.OutLemmas
open RawPanelVerif RawPanelVerif.Bytes RawPanelVerif.MsgOut RawPanelVerif.EncOut RawPanelVerif.DecOut
open RawPanelVerif.Spec.Out

/-! ### capabilities -/
/-- the capabilities in the order of the Spec's `capNames` -/
def specCaps : List Cap :=
  [.ascii, .binary, .jsonFeedback, .jsonInbound, .jsonOutbound, .processors, .system, .rawADCValues, .burninProfile,
   .envHealth, .registers, .calibration, .networkSettings]

theorem capNames_eq : capNames = specCaps.map Cap.name := by decide
theorem supportFlags_eq (s : Support) : supportFlags s = specCaps.map s.get := rfl

theorem capName_inj (c d : Cap) (h : Cap.name c = Cap.name d) : c = d := by
  cases c <;> cases d <;> first | rfl | exact absurd h (by decide)

theorem capName_no_comma (c : Cap) : (44 : UInt8) ∉ Cap.name c := by cases c <;> decide
theorem capName_no_lf (c : Cap) : (10 : UInt8) ∉ Cap.name c := by cases c <;> decide
theorem capName_ne_nil (c : Cap) : Cap.name c ≠ [] := by cases c <;> decide
theorem capName_mem (c : Cap) : Cap.name c ∈ capNames := by cases c <;> decide
theorem cap_mem_all (c : Cap) : c ∈ Cap.all := by cases c <;> decide
theorem cap_mem_spec (c : Cap) : c ∈ specCaps := by cases c <;> decide

theorem readInfo_support (o : OutOracle) (v : Bytes) :
    readInfo o (asc "_support") v =
      if (splitOn 44 v).all (fun n => n ∈ capNames) then .grammar (supportEff (capNames.map (fun n => (splitOn 44 v).contains n)))
      else .outside := by
  unfold readInfo readInfoOther
  rw [if_neg (by decide), if_neg (by decide), if_neg (by decide), if_neg (by decide), if_neg (by decide),
    if_neg (by decide), if_neg (by decide), if_neg (by decide), if_pos rfl]

theorem contains_capName (cs : List Cap) (c : Cap) : (cs.map Cap.name).contains (Cap.name c) = decide (c ∈ cs) := by
  induction cs with
  | nil => simp
  | cons d ds ih =>
    simp only [List.map_cons, List.contains_cons, ih, List.mem_cons]
    by_cases h : c = d
    · subst h; simp
    · have : ¬ (Cap.name c = Cap.name d) := fun e => h (capName_inj c d e)
      simp [h, this]

theorem join_ne_nil (sep : UInt8) (f : Bytes) (fs : List Bytes) (hf : f ≠ []) : join sep (f :: fs) ≠ [] := by
  cases fs with
  | nil => simpa [join] using hf
  | cons g gs => simp [join, hf]

/-- **caps_all_subsets**: for every one of the 2^13 capability sets the reader of the `_support=` line returns exactly
that set (an empty set gives `_support=`, which carries no information).  Proved over the capability table, not by
enumeration of the subsets. -/
theorem caps_all_subsets (o : OutOracle) (s : Support) :
    readLine o (supportLine s) =
      if (supportFlags s).any id then .grammar [.support (supportFlags s)] else .nonGrammar := by
  have hk : kSupport = asc "_support" ++ [61] := by decide
  unfold supportLine supportNames
  rw [hk]
  cases hn : Cap.all.filter (Support.get s) with
  | nil =>
    have hnone : ∀ c, s.get c = false := by
      intro c
      have : c ∉ Cap.all.filter (Support.get s) := by rw [hn]; simp
      simp only [List.mem_filter, cap_mem_all, true_and] at this
      simpa using this
    have hany : (supportFlags s).any id = false := by
      rw [supportFlags_eq]
      simp [hnone]
    rw [hany]
    simp only [List.map_nil, join, List.append_nil, Bool.false_eq_true, if_false]
    exact readLine_kv_empty o _ (by decide)
  | cons c cs =>
    have hnames : ∀ n ∈ (c :: cs).map Cap.name, ∃ d, n = Cap.name d := by
      intro n hn'; simp only [List.mem_map] at hn'
      obtain ⟨d, _, rfl⟩ := hn'; exact ⟨d, rfl⟩
    have hv : join 44 ((c :: cs).map Cap.name) ≠ [] := by
      simp only [List.map_cons]; exact join_ne_nil 44 _ _ (capName_ne_nil c)
    have h10 : (10 : UInt8) ∉ join 44 ((c :: cs).map Cap.name) := by
      intro h
      rcases mem_join 44 10 _ h with h | ⟨f, hf, hb⟩
      · exact absurd h (by decide)
      · obtain ⟨d, rfl⟩ := hnames f hf; exact capName_no_lf d hb
    have hsplit : splitOn 44 (join 44 ((c :: cs).map Cap.name)) = (c :: cs).map Cap.name :=
      splitOn_join 44 _ (by simp) (fun f hf => by obtain ⟨d, rfl⟩ := hnames f hf; exact capName_no_comma d)
    rw [List.append_assoc, List.singleton_append, readLine_kv o _ _ (by decide) hv h10, readInfo_support, hsplit]
    have hall : ((c :: cs).map Cap.name).all (fun n => n ∈ capNames) = true := by
      rw [List.all_eq_true]; intro n hn'
      obtain ⟨d, rfl⟩ := hnames n hn'
      simpa using capName_mem d
    rw [if_pos hall]
    have hflags : capNames.map (fun n => ((c :: cs).map Cap.name).contains n) = supportFlags s := by
      rw [capNames_eq, supportFlags_eq, List.map_map]
      apply List.map_congr_left
      intro d _
      simp only [Function.comp]
      rw [contains_capName, ← hn]
      simp [List.mem_filter, cap_mem_all]
    rw [hflags]
    have hany : (supportFlags s).any id = true := by
      rw [supportFlags_eq]
      have hc : c ∈ Cap.all.filter (Support.get s) := by rw [hn]; simp
      simp only [List.mem_filter] at hc
      simp only [List.any_map, List.any_eq_true]
      exact ⟨c, cap_mem_spec c, by simpa using hc.2⟩
    unfold supportEff
    rw [hany]
    simp

end RawPanelVerif.OutLemmas
