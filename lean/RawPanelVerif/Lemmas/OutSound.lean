import RawPanelVerif.Lemmas.OutCaps
import RawPanelVerif.Lemmas.OutItems
import RawPanelVerif.Lemmas.OutUtf8
import RawPanelVerif.Lemmas.StripIdem
/-! Section-by-section lemmas for `encOut_sound` (C03): the reader on every kind of produced line. -/
namespace RawPanelVerif.OutLemmas
open RawPanelVerif RawPanelVerif.Bytes RawPanelVerif.MsgOut RawPanelVerif.EncOut RawPanelVerif.DecOut
open RawPanelVerif.Spec.Out

/-! ### `readInfo` per key class -/
theorem payload_not_text : ∀ k ∈ payloadKeys, k ∉ textKeys := by decide
theorem num_not_before : ∀ k ∈ numKeys, k ∉ textKeys ∧ k ∉ payloadKeys := by decide
theorem num0_not_before : ∀ k ∈ num0Keys, k ∉ textKeys ∧ k ∉ payloadKeys ∧ k ∉ numKeys := by decide
theorem other_not_before : ∀ k ∈ otherKeys, k ∉ textKeys ∧ k ∉ payloadKeys ∧ k ∉ numKeys ∧ k ∉ num0Keys := by decide

theorem text_sub : ∀ k ∈ textKeys, k ∈ infoKeys := by decide
theorem payload_sub : ∀ k ∈ payloadKeys, k ∈ infoKeys := by decide
theorem num_sub : ∀ k ∈ numKeys, k ∈ infoKeys := by decide
theorem num0_sub : ∀ k ∈ num0Keys, k ∈ infoKeys := by decide
theorem other_sub : ∀ k ∈ otherKeys, k ∈ infoKeys := by decide

theorem readInfo_text (o : OutOracle) (key v : Bytes) (hk : key ∈ textKeys) :
    readInfo o key v = .grammar [.info key (.text v)] := by
  unfold readInfo; rw [if_pos hk]

theorem readInfo_payload (o : OutOracle) (key v : Bytes) (hk : key ∈ payloadKeys) (hs : key ≠ asc "_panelTopology_svgbase") :
    readInfo o key v = .grammar (payloadEff key v) := by
  unfold readInfo; rw [if_neg (payload_not_text key hk), if_pos hk, if_neg hs]

theorem readInfo_svg (o : OutOracle) (v : Bytes) : readInfo o (asc "_panelTopology_svgbase") v = .grammar (svgEff v) := by
  unfold readInfo; rw [if_neg (by decide), if_pos (by decide), if_pos rfl]

/-- the Spec's own LF splitter is `strings.Split(·, "\n")` -/
theorem splitLF_eq (s : Bytes) : Spec.Strip.splitLF s = splitOn 10 s := by
  induction s with
  | nil => rfl
  | cons c cs ih =>
    unfold Spec.Strip.splitLF splitOn
    rw [ih]
    by_cases hc : c = 10
    · rw [if_pos hc, if_pos hc]
    · rw [if_neg hc, if_neg hc]
      cases splitOn 10 cs <;> rfl

/-- the C07 normal form of the Spec is what the JSON / message flattening computes -/
theorem normLines_eq_strip (s : Bytes) : normLines s = Strip.stripLineBreaks s := by
  unfold normLines Strip.stripLineBreaks; rw [splitLF_eq]

/-- the flattened text is in normal form (trimmed): true of every valid UTF-8 payload, and of every flat one -/
def IdemOk (s : Bytes) : Prop := trimSpace (Strip.stripLineBreaks s) = Strip.stripLineBreaks s

theorem normLines_strip (s : Bytes) (h : IdemOk s) : normLines (Strip.stripLineBreaks s) = normLines s := by
  rw [normLines_eq_strip, normLines_eq_strip, Strip.strip_noLF _ (C07.strip_no_lf s), h]

theorem idemOk_of_payloadOk (s : Bytes) (h : Spec.Out.payloadOk s = true) : IdemOk s :=
  Strip.strip_trimmed s (by unfold Strip.validUtf8; rw [beq_iff_eq]; exact specValid_run _ s h)

theorem readInfo_num (o : OutOracle) (key v : Bytes) (hk : key ∈ numKeys) :
    readInfo o key v = ofNum v (fun n => [.info key (.num n)]) := by
  have := num_not_before key hk
  unfold readInfo; rw [if_neg this.1, if_neg this.2, if_pos hk]

theorem readInfo_num0 (o : OutOracle) (key v : Bytes) (hk : key ∈ num0Keys) :
    readInfo o key v = ofNum v (numEff0 key) := by
  have := num0_not_before key hk
  unfold readInfo; rw [if_neg this.1, if_neg this.2.1, if_neg this.2.2, if_pos hk]

theorem readInfo_other (o : OutOracle) (key v : Bytes) (hk : key ∈ otherKeys) : readInfo o key v = readInfoOther o key v := by
  have := other_not_before key hk
  unfold readInfo; rw [if_neg this.1, if_neg this.2.1, if_neg this.2.2.1, if_neg this.2.2.2]

/-! ### effects of a list of produced lines -/

/-- effects of one produced line (after the return-site flattening) -/
def E (o : OutOracle) (l : Bytes) : List Effect := (readLine o (Strip.singleLine l)).effects
/-- effects of a list of produced lines -/
def R (o : OutOracle) (ls : List Bytes) : List Effect := readOutbound o (ls.map Strip.singleLine)

theorem R_nil (o : OutOracle) : R o [] = [] := rfl
theorem R_cons (o : OutOracle) (l : Bytes) (ls : List Bytes) : R o (l :: ls) = E o l ++ R o ls := by
  simp [R, E, readOutbound]
theorem R_one (o : OutOracle) (l : Bytes) : R o [l] = E o l := by simp [R_cons, R_nil]
theorem R_append (o : OutOracle) (a b : List Bytes) : R o (a ++ b) = R o a ++ R o b := by
  simp [R, readOutbound]
theorem R_flatMap {α : Type} (o : OutOracle) (f : α → List Bytes) (xs : List α) :
    R o (xs.flatMap f) = xs.flatMap (fun x => R o (f x)) := by
  induction xs with
  | nil => rfl
  | cons x xs ih => simp [List.flatMap_cons, R_append, ih]

theorem E_of (o : OutOracle) (l : Bytes) (c : LineClass) (h10 : (10 : UInt8) ∉ l) (h : readLine o l = c) : E o l = c.effects := by
  unfold E; rw [C07.singleLine_id l h10, h]

/-- `key=value` line with a grammar key -/
theorem E_kv (o : OutOracle) (key v : Bytes) (hk : key ∈ infoKeys) (hv : v ≠ []) (h10 : (10 : UInt8) ∉ v) :
    E o (key ++ 61 :: v) = (readInfo o key v).effects := by
  apply E_of
  · intro h; simp only [List.mem_append, List.mem_cons] at h
    rcases h with h | h | h
    · exact infoKeys_no_lf key hk h
    · exact absurd h (by decide)
    · exact h10 h
  · exact readLine_kv o key v hk hv h10

theorem E_kv_empty (o : OutOracle) (key : Bytes) (hk : key ∈ infoKeys) : E o (key ++ [61]) = [] := by
  have := E_of o (key ++ [61]) .nonGrammar (by
    intro h; simp only [List.mem_append, List.mem_cons] at h
    rcases h with h | h | h
    · exact infoKeys_no_lf key hk h
    · exact absurd h (by decide)
    · simp at h) (readLine_kv_empty o key hk)
  exact this

theorem noLF_iff (s : Bytes) : noLF s = true ↔ (10 : UInt8) ∉ s := by
  unfold noLF; simp

/-! ### text / numeric sections -/

theorem R_textLine (o : OutOracle) (key kq v : Bytes) (hkq : kq = key ++ [61]) (hk : key ∈ textKeys) (h10 : noLF v = true) :
    R o (textLine kq v) = textEff key v := by
  unfold textLine textEff
  by_cases hv : v = []
  · simp [hv, R_nil]
  · rw [if_pos hv, if_neg hv, R_one, hkq, List.append_assoc, List.singleton_append,
      E_kv o key v (text_sub key hk) hv ((noLF_iff v).1 h10), readInfo_text o key v hk]
    rfl

theorem inU32_le (n : Nat) (h : inU32 n = true) : n ≤ u32Max := by simpa [inU32] using h

theorem utoa_ne_nil (n : Nat) : utoa n ≠ [] := digitsOf_ne_nil n

/-- `key=<n>` for a key whose value is always reported -/
theorem R_numLine (o : OutOracle) (key kq : Bytes) (n : Nat) (hkq : kq = key ++ [61]) (hk : key ∈ numKeys) (hn : inU32 n = true) :
    R o [kq ++ utoa n] = numEff key n := by
  rw [R_one, hkq, List.append_assoc, List.singleton_append,
    E_kv o key _ (num_sub key hk) (utoa_ne_nil n) (not_mem_utoa n 10 (by decide)), readInfo_num o key _ hk,
    ofNum_utoa n (inU32_le n hn)]
  rfl

/-- `key=<n>` emitted only if `n > 0`, for a key whose zero value means "not reported" -/
theorem R_num0Line (o : OutOracle) (key kq : Bytes) (n : Nat) (hkq : kq = key ++ [61]) (hk : key ∈ num0Keys) (hn : inU32 n = true) :
    R o (if n > 0 then [kq ++ utoa n] else []) = numEff0 key n := by
  unfold numEff0
  by_cases h0 : n = 0
  · simp [h0, R_nil]
  · rw [if_pos (by omega), if_neg h0, R_one, hkq, List.append_assoc, List.singleton_append,
      E_kv o key _ (num0_sub key hk) (utoa_ne_nil n) (not_mem_utoa n 10 (by decide)), readInfo_num0 o key _ hk,
      ofNum_utoa n (inU32_le n hn)]
    simp [LineClass.effects, numEff0, h0]

theorem R_bluePill (o : OutOracle) (b : Bool) :
    R o (if b then [kBluePill1] else []) = (if b then [.info (asc "_bluePillReady") (.flag true)] else []) := by
  cases b
  · simp [R_nil]
  · have hk : kBluePill1 = asc "_bluePillReady" ++ 61 :: [49] := by decide
    simp only [if_true]
    rw [R_one, hk, E_kv o _ _ (by decide) (by decide) (by decide), readInfo_other o _ _ (by decide)]
    unfold readInfoOther
    rw [if_pos rfl]
    have : readNum [49] = some 1 := by decide
    simp [ofNum, this, LineClass.effects]

theorem R_isSleeping (o : OutOracle) (b : Bool) :
    R o [kIsSleeping ++ b01 b] = [.info (asc "_isSleeping") (.flag b)] := by
  have hk : kIsSleeping = asc "_isSleeping" ++ [61] := by decide
  rw [R_one, hk, List.append_assoc, List.singleton_append,
    E_kv o _ _ (by decide) (by cases b <;> decide) (by cases b <;> decide), readInfo_other o _ _ (by decide)]
  unfold readInfoOther
  rw [if_neg (by decide), if_pos rfl]
  cases b
  · have : readNum (b01 false) = some 0 := by decide
    simp [ofNum, this, LineClass.effects]
  · have : readNum (b01 true) = some 1 := by decide
    simp [ofNum, this, LineClass.effects]

theorem R_panelType (o : OutOracle) (t : Int) (ht : 0 ≤ t ∧ t ≤ 5) :
    R o (panelTypeLines t) = panelTypeEff t := by
  have hk : kPanelType = asc "_panelType" ++ [61] := by decide
  have hcases : t = 0 ∨ t = 1 ∨ t = 2 ∨ t = 3 ∨ t = 4 ∨ t = 5 := by omega
  have key : ∀ w : Bytes, w ∈ panelTypeWords → w ≠ [] → (10 : UInt8) ∉ w →
      R o [kPanelType ++ w] = [.info (asc "_panelType") (.word w)] := by
    intro w hw hne h10
    rw [R_one, hk, List.append_assoc, List.singleton_append, E_kv o _ _ (by decide) hne h10, readInfo_other o _ _ (by decide)]
    unfold readInfoOther
    rw [if_neg (by decide), if_neg (by decide), if_pos rfl, if_pos hw]
    rfl
  rcases hcases with h | h | h | h | h | h <;> subst h
  · rfl
  all_goals exact key _ (by decide) (by decide) (by decide)

theorem R_env (o : OutOracle) (t : Int) (ht : 0 ≤ t ∧ t ≤ 2) :
    R o (envLines t) = envEff t := by
  have hk : kEnvHealth = asc "EnvironmentalHealth" ++ [61] := by decide
  have hcases : t = 0 ∨ t = 1 ∨ t = 2 := by omega
  have key : ∀ w : Bytes, w ∈ runModeWords → w ≠ [] → (10 : UInt8) ∉ w →
      R o [kEnvHealth ++ w] = [.info (asc "EnvironmentalHealth") (.word w)] := by
    intro w hw hne h10
    rw [R_one, hk, List.append_assoc, List.singleton_append, E_kv o _ _ (by decide) hne h10, readInfo_other o _ _ (by decide)]
    unfold readInfoOther
    rw [if_neg (by decide), if_neg (by decide), if_neg (by decide), if_pos rfl, if_pos hw]
    rfl
  rcases hcases with h | h | h <;> subst h
  all_goals exact key _ (by decide) (by decide) (by decide)

theorem R_flow (o : OutOracle) (f : Int) :
    R o (flowLines f) = flowEff f := by
  have key : ∀ w : Bytes, w ∈ flowWords → (10 : UInt8) ∉ w → R o [w] = [.flow w] := by
    intro w hw h10
    rw [R_one]
    apply E_of o w (.grammar [.flow w]) h10
    unfold readLine
    rw [contains_false_of _ _ h10]
    simp [hw]
  unfold flowLines flowEff flowWord
  by_cases h2 : f = 2
  · subst h2; exact key _ (by decide) (by decide)
  by_cases h3 : f = 3
  · subst h3; exact key _ (by decide) (by decide)
  by_cases h1 : f = 1
  · subst h1; exact key _ (by decide) (by decide)
  by_cases h4 : f = 4
  · subst h4; exact key _ (by decide) (by decide)
  by_cases h5 : f = 5
  · subst h5; exact key _ (by decide) (by decide)
  by_cases h100 : f = 100
  · subst h100; exact key _ (by decide) (by decide)
  simp [h1, h2, h3, h4, h5, h100, R_nil]

/-! ### `;`-lists -/
theorem itemOk_spec (s : Bytes) (h : itemOk s = true) : s ≠ [] ∧ (59 : UInt8) ∉ s ∧ (10 : UInt8) ∉ s ∧ trimSpace s = s := by
  unfold itemOk noLF at h
  simp only [Bool.and_eq_true, bne_iff_ne, ne_eq, Bool.not_eq_true', beq_iff_eq] at h
  obtain ⟨⟨⟨h1, h2⟩, h3⟩, h4⟩ := h
  refine ⟨h1, ?_, ?_, h4⟩
  · simpa using h2
  · simpa using h3

theorem readItems_join (items : List Bytes) (hne : items ≠ []) (hall : items.all itemOk = true) :
    readItems (join 59 items) = items := by
  rw [List.all_eq_true] at hall
  rw [readItems_eq_filter]
  rw [splitOn_join 59 items hne (fun f hf => (itemOk_spec f (hall f hf)).2.1)]
  have h1 : items.map trimSpace = items := by
    rw [List.map_congr_left (g := id) (fun f hf => (itemOk_spec f (hall f hf)).2.2.2)]
    simp
  rw [h1]
  rw [List.filter_eq_self]
  intro f hf
  simpa using (itemOk_spec f (hall f hf)).1

theorem join_items_props (items : List Bytes) (hall : items.all itemOk = true) (hne : items ≠ []) :
    join 59 items ≠ [] ∧ (10 : UInt8) ∉ join 59 items := by
  rw [List.all_eq_true] at hall
  constructor
  · cases items with
    | nil => exact absurd rfl hne
    | cons f fs => exact join_ne_nil 59 f fs (itemOk_spec f (hall f (by simp))).1
  · intro h
    rcases mem_join 59 10 _ h with h | ⟨f, hf, hb⟩
    · exact absurd h (by decide)
    · exact (itemOk_spec f (hall f hf)).2.2.1 hb

theorem readInfo_items (o : OutOracle) (key v : Bytes) (hk : key = asc "_serverModeLockToIP" ∨ key = asc "_connections") :
    readInfo o key v = .grammar (itemsEff key (readItems v)) := by
  rw [readInfo_other o key v (by rcases hk with h | h <;> subst h <;> decide)]
  unfold readInfoOther
  rcases hk with h | h <;> subst h
  · rw [if_neg (by decide), if_neg (by decide), if_neg (by decide), if_neg (by decide), if_neg (by decide), if_neg (by decide),
      if_pos (Or.inl rfl)]
  · rw [if_neg (by decide), if_neg (by decide), if_neg (by decide), if_neg (by decide), if_neg (by decide), if_neg (by decide),
      if_pos (Or.inr rfl)]

/-- `_serverModeLockToIP=a;b;c` (emitted only for a non-empty list) and `_connections=a;b;c` -/
theorem R_items (o : OutOracle) (key kq : Bytes) (items : List Bytes) (hkq : kq = key ++ [61])
    (hk : key = asc "_serverModeLockToIP" ∨ key = asc "_connections") (hall : items.all itemOk = true) (hne : items ≠ []) :
    R o [kq ++ join 59 items] = itemsEff key items := by
  obtain ⟨hv, h10⟩ := join_items_props items hall hne
  rw [R_one, hkq, List.append_assoc, List.singleton_append,
    E_kv o key _ (by rcases hk with h | h <;> subst h <;> decide) hv h10, readInfo_items o key _ hk,
    readItems_join items hne hall]
  rfl

theorem R_lockToIP (o : OutOracle) (items : List Bytes) (hall : items.all itemOk = true) :
    R o (if items ≠ [] then [kLockToIP ++ join 59 items] else []) = itemsEff (asc "_serverModeLockToIP") items := by
  by_cases hne : items = []
  · subst hne; simp [R_nil, itemsEff]
  · rw [if_pos hne]; exact R_items o _ _ items (by decide) (Or.inl rfl) hall hne

theorem R_connections (o : OutOracle) (items : List Bytes) (hall : items.all itemOk = true) :
    R o [kConnections ++ join 59 items] = itemsEff (asc "_connections") items := by
  by_cases hne : items = []
  · subst hne
    have hk : kConnections = asc "_connections" ++ [61] := by decide
    simp only [join, List.append_nil]
    rw [R_one, hk, E_kv_empty o _ (by decide)]
    rfl
  · exact R_items o _ _ items (by decide) (Or.inr rfl) hall hne

/-! ### payloads (flat: no LF and no white space at the two ends — then the flattening is the identity) -/

def flatPayload (s : Bytes) : Bool := noLF s && trimSpace s == s

theorem strip_flat (s : Bytes) (h : flatPayload s = true) : Strip.stripLineBreaks s = s := by
  unfold flatPayload at h
  simp only [Bool.and_eq_true, beq_iff_eq] at h
  unfold Strip.stripLineBreaks
  rw [splitOn_nosep 10 s ((noLF_iff s).1 h.1)]
  simp [h.2]

/-- the SVG payload: empty, or flat and ending in `>` -/
def flatSvg (s : Bytes) : Bool := s == [] || (flatPayload s && Strip.endsWithGt s)

/-! ### ASCII payloads: the C07 flattening keeps the white-space-free content, for any line structure -/

/-- ASCII white space (the single-byte white-space runes) -/
def isAws (b : UInt8) : Bool := b = 9 || b = 10 || b = 11 || b = 12 || b = 13 || b = 32
def nw (b : UInt8) : Bool := !isAws b
def asciiStr (s : Bytes) : Bool := s.all (fun b => b < 0x80)

theorem wsLen_ascii (b : UInt8) (r : Bytes) (hb : b < 0x80) :
    Spec.Strip.wsLen (b :: r) = if isAws b = true then 1 else 0 := by
  by_cases hw : isAws b = true
  · rw [if_pos hw]
    unfold isAws at hw
    simp only [Bool.or_eq_true, decide_eq_true_eq] at hw
    rcases hw with ((((h | h) | h) | h) | h) | h <;> subst h <;> rfl
  · rw [if_neg hw]
    unfold Spec.Strip.wsLen
    split
    all_goals first
      | rfl
      | (rename_i heq; injection heq with e1 _; subst e1; exfalso; first | (revert hb; decide) | (apply hw; decide))


theorem content_ascii (n : Nat) (s : Bytes) (hs : asciiStr s = true) (hn : s.length ≤ n) :
    Spec.Strip.content n s = s.filter nw := by
  induction n generalizing s with
  | zero =>
    have : s = [] := by cases s with | nil => rfl | cons c cs => simp at hn
    subst this; rfl
  | succ n ih =>
    cases s with
    | nil => rfl
    | cons b r =>
      unfold asciiStr at hs
      simp only [List.all_cons, Bool.and_eq_true, decide_eq_true_eq] at hs
      have hr : asciiStr r = true := hs.2
      have hlen : r.length ≤ n := by simp at hn; omega
      unfold Spec.Strip.content
      rw [wsLen_ascii b r hs.1]
      by_cases hw : isAws b = true
      · rw [if_pos hw]
        simp only [List.drop_succ_cons, List.drop_zero]
        rw [ih r hr hlen]
        simp [nw, hw]
      · rw [if_neg hw]
        simp only []
        rw [ih r hr hlen]
        simp [nw, hw]

theorem contentOf_ascii (s : Bytes) (hs : asciiStr s = true) : content s = s.filter nw := by
  unfold content Spec.Strip.contentOf
  exact content_ascii _ s hs (by omega)

/-- an ASCII white-space rune is one ASCII white-space byte -/
theorem wsRune_ascii (w : Bytes) (h : Strip.WsRune w) (ha : asciiStr w = true) : w.filter nw = [] := by
  unfold Strip.WsRune dropSpace1 at h
  split at h
  all_goals first
    | (exfalso; revert ha; unfold asciiStr; simp; done)
    | (injection h with h; subst h; decide)
    | (exact absurd h (by simp))


theorem wsRuneRev_ascii (w : Bytes) (h : Strip.WsRuneRev w) (ha : asciiStr w = true) : w.filter nw = [] := by
  unfold Strip.WsRuneRev dropSpace1Rev at h
  split at h
  all_goals first
    | (exfalso; revert ha; unfold asciiStr; simp; done)
    | (injection h with h; subst h; decide)
    | (exact absurd h (by simp))

theorem ascii_append (a b : Bytes) : asciiStr (a ++ b) = (asciiStr a && asciiStr b) := by
  unfold asciiStr; simp

theorem allWs_ascii (p : Bytes) (h : Strip.AllWs p) (ha : asciiStr p = true) : p.filter nw = [] := by
  induction h with
  | nil => rfl
  | cons w r hw _ ih =>
    rw [ascii_append, Bool.and_eq_true] at ha
    rw [List.filter_append, wsRune_ascii w hw ha.1, ih ha.2]; rfl

theorem allWsRev_ascii (p : Bytes) (h : Strip.AllWsRev p) (ha : asciiStr p = true) : p.filter nw = [] := by
  induction h with
  | nil => rfl
  | cons w r hw _ ih =>
    rw [ascii_append, Bool.and_eq_true] at ha
    rw [List.filter_append, wsRuneRev_ascii w hw ha.1, ih ha.2]; rfl

theorem ascii_reverse (a : Bytes) : asciiStr a.reverse = asciiStr a := by
  unfold asciiStr; simp

/-- on an ASCII string `TrimSpace` removes only ASCII white-space bytes -/
theorem trim_filter (l : Bytes) (ha : asciiStr l = true) : (trimSpace l).filter nw = l.filter nw ∧ asciiStr (trimSpace l) = true := by
  obtain ⟨pre, suf, e, hp, hs⟩ := Strip.trimSpace_decomp l
  have ha' := ha
  rw [e, ascii_append, ascii_append, Bool.and_eq_true, Bool.and_eq_true] at ha'
  obtain ⟨⟨h1, h2⟩, h3⟩ := ha'
  refine ⟨?_, h2⟩
  have e1 := allWs_ascii pre hp h1
  have e2 := allWsRev_ascii suf.reverse hs (by rw [ascii_reverse]; exact h3)
  have e2' : suf.filter nw = [] := by
    have := congrArg List.reverse e2
    rw [List.filter_reverse] at this
    simpa using this
  conv => rhs; rw [e]
  rw [List.filter_append, List.filter_append, e1, e2']
  simp

theorem nw_lf : nw 10 = false := by decide
theorem nw_sp : nw 32 = false := by decide

/-- filtering the LF-join of lines = filtering each line -/
theorem filter_join (lines : List Bytes) : (join 10 lines).filter nw = (lines.map (fun l => l.filter nw)).flatten := by
  induction lines with
  | nil => rfl
  | cons f rest ih =>
    cases rest with
    | nil => simp [join]
    | cons g gs =>
      simp only [join, List.filter_append, List.filter_cons, nw_lf, Bool.false_eq_true, if_false, List.map_cons, List.flatten_cons]
      rw [ih]; simp

theorem mem_join_of_mem (lines : List Bytes) (l : Bytes) (b : UInt8) (hl : l ∈ lines) (hb : b ∈ l) : b ∈ join 10 lines := by
  induction lines with
  | nil => simp at hl
  | cons f rest ih =>
    cases rest with
    | nil =>
      simp only [List.mem_cons, List.not_mem_nil, or_false] at hl
      subst hl; simpa [join] using hb
    | cons g gs =>
      simp only [join, List.mem_append, List.mem_cons]
      simp only [List.mem_cons] at hl
      rcases hl with e | e
      · subst e; exact Or.inl hb
      · exact Or.inr (Or.inr (ih (by simp only [List.mem_cons]; exact e)))

theorem ascii_lines (s : Bytes) (ha : asciiStr s = true) : ∀ l ∈ splitOn 10 s, asciiStr l = true := by
  intro l hl
  unfold asciiStr at ha ⊢
  rw [List.all_eq_true] at ha ⊢
  intro b hb
  apply ha
  rw [← join_splitOn 10 s]
  exact mem_join_of_mem _ l b hl hb

theorem flatten_filter' (lines : List Bytes) (f : Bytes → Bytes) (hl : ∀ l ∈ lines, asciiStr l = true)
    (hf : ∀ l, asciiStr l = true → (f l).filter nw = l.filter nw) :
    ((lines.map f).flatten).filter nw = (lines.map (fun l => l.filter nw)).flatten := by
  induction lines with
  | nil => rfl
  | cons l rest ih =>
    simp only [List.map_cons, List.flatten_cons, List.filter_append]
    rw [hf l (hl l (by simp)), ih (fun x hx => hl x (by simp [hx]))]

/-- a per-line transformation that keeps the non-white-space bytes keeps them over the whole flattening -/
theorem flatten_filter (s : Bytes) (f : Bytes → Bytes) (ha : asciiStr s = true)
    (hf : ∀ l, asciiStr l = true → (f l).filter nw = l.filter nw) :
    (((splitOn 10 s).map f).flatten).filter nw = s.filter nw := by
  have hj := join_splitOn 10 s
  conv => rhs; rw [← hj]
  rw [filter_join]
  exact flatten_filter' _ f (ascii_lines s ha) hf

theorem ascii_flatten' (lines : List Bytes) (f : Bytes → Bytes) (hl : ∀ l ∈ lines, asciiStr l = true)
    (hf : ∀ l, asciiStr l = true → asciiStr (f l) = true) : asciiStr ((lines.map f).flatten) = true := by
  induction lines with
  | nil => rfl
  | cons l rest ih =>
    simp only [List.map_cons, List.flatten_cons, ascii_append, Bool.and_eq_true]
    exact ⟨hf l (hl l (by simp)), ih (fun x hx => hl x (by simp [hx]))⟩

theorem ascii_flatten (s : Bytes) (f : Bytes → Bytes) (ha : asciiStr s = true)
    (hf : ∀ l, asciiStr l = true → asciiStr (f l) = true) : asciiStr (((splitOn 10 s).map f).flatten) = true :=
  ascii_flatten' _ f (ascii_lines s ha) hf

/-- **ASCII payloads**: the flattening keeps exactly the white-space-free content, whatever the line structure -/
theorem content_strip_ascii (s : Bytes) (ha : asciiStr s = true) : content (Strip.stripLineBreaks s) = content s := by
  have h1 : asciiStr (Strip.stripLineBreaks s) = true := ascii_flatten s trimSpace ha (fun l hl => (trim_filter l hl).2)
  rw [contentOf_ascii _ h1, contentOf_ascii s ha]
  exact flatten_filter s trimSpace ha (fun l hl => (trim_filter l hl).1)

theorem svgPart_filter (l : Bytes) (ha : asciiStr l = true) :
    (Strip.svgPart l).filter nw = l.filter nw ∧ asciiStr (Strip.svgPart l) = true := by
  obtain ⟨h1, h2⟩ := trim_filter l ha
  unfold Strip.svgPart
  simp only []
  split
  · exact ⟨h1, h2⟩
  · rw [List.filter_append, h1, ascii_append, h2]
    exact ⟨by simp [nw_sp], by decide⟩

theorem content_stripSvg_ascii (s : Bytes) (ha : asciiStr s = true) : content (Strip.stripLineBreaksSvg s) = content s := by
  have h1 : asciiStr (Strip.stripLineBreaksSvg s) = true := ascii_flatten s Strip.svgPart ha (fun l hl => (svgPart_filter l hl).2)
  rw [contentOf_ascii _ h1, contentOf_ascii s ha]
  exact flatten_filter s Strip.svgPart ha (fun l hl => (svgPart_filter l hl).1)

theorem payloadEff_congr (key v v' : Bytes) (h : normLines v = normLines v') : payloadEff key v = payloadEff key v' := by
  unfold payloadEff; rw [h]

theorem svgEff_congr (v v' : Bytes) (h : content v = content v') : svgEff v = svgEff v' := by
  unfold svgEff; rw [h]

/-- payload accepted by the earlier theorems: ASCII with any line structure, or any bytes without LF / outer white space -/
def okPayload (s : Bytes) : Bool := asciiStr s || flatPayload s
def okSvg (s : Bytes) : Bool := asciiStr s || flatSvg s

theorem normLines_nil : normLines [] = [] := by decide

/-- `key=<flattened payload>` (JSON profiles, topology JSON, message texts) when the flattened text has the normal form
of the field -/
theorem R_payload_norm (o : OutOracle) (key kq s t : Bytes) (hkq : kq = key ++ [61]) (hk : key ∈ payloadKeys)
    (hs : key ≠ asc "_panelTopology_svgbase") (h10 : (10 : UInt8) ∉ t) (hc : normLines t = normLines s) :
    R o [kq ++ t] = payloadEff key s := by
  by_cases ht : t = []
  · subst ht
    rw [R_one, hkq, List.append_nil, E_kv_empty o key (payload_sub key hk)]
    unfold payloadEff
    rw [← hc, normLines_nil]; simp
  · rw [R_one, hkq, List.append_assoc, List.singleton_append, E_kv o key t (payload_sub key hk) ht h10,
      readInfo_payload o key t hk hs, ← payloadEff_congr key t s hc]
    rfl

/-- the SVG line when the flattened text keeps the white-space-free content of the field -/
theorem R_svg_content (o : OutOracle) (s t : Bytes) (h10 : (10 : UInt8) ∉ t) (hc : content t = content s) :
    R o [kSvgbase ++ t] = svgEff s := by
  have hk : kSvgbase = asc "_panelTopology_svgbase" ++ [61] := by decide
  by_cases ht : t = []
  · subst ht
    rw [R_one, hk, List.append_nil, E_kv_empty o _ (by decide)]
    unfold svgEff
    have : content [] = [] := by decide
    rw [← hc, this]; simp
  · rw [R_one, hk, List.append_assoc, List.singleton_append, E_kv o _ t (by decide) ht h10,
      readInfo_svg o t, ← svgEff_congr t s hc]
    rfl

/-! ### payloads of the whole domain: valid UTF-8 (`payloadOk`), any line structure, multi-byte white space included -/

/-- `key=<flattened payload>` for every payload whose flattening is trimmed (⇐ valid UTF-8): the reader sees exactly the
normal form of the field — interior white space included -/
theorem R_payloadI (o : OutOracle) (key kq s : Bytes) (hkq : kq = key ++ [61]) (hk : key ∈ payloadKeys)
    (hs : key ≠ asc "_panelTopology_svgbase") (h : IdemOk s) :
    R o [kq ++ Strip.stripLineBreaks s] = payloadEff key s :=
  R_payload_norm o key kq s _ hkq hk hs (C07.strip_no_lf s) (normLines_strip s h)

/-- the SVG line, for EVERY byte string -/
theorem R_svgAll (o : OutOracle) (s : Bytes) :
    R o [kSvgbase ++ Strip.stripLineBreaksSvg s] = svgEff s :=
  R_svg_content o s _ (C07.stripSvg_no_lf s) (Strip.contentOf_stripSvg s)

/-! ### network configuration -/
theorem R_netCfg (o : OutOracle) (c : NetCfg) (h1 : o.netOfJson (o.jsonOfNet c) = some c) (h2 : noLF (o.jsonOfNet c) = true)
    (h3 : o.jsonOfNet c ≠ []) :
    R o [kNetCfg ++ o.jsonOfNet c] = [.info (asc "_networkConfig") (.net c)] := by
  have hk : kNetCfg = asc "_networkConfig" ++ [61] := by decide
  rw [R_one, hk, List.append_assoc, List.singleton_append, E_kv o _ _ (by decide) h3 ((noLF_iff _).1 h2),
    readInfo_other o _ _ (by decide)]
  unfold readInfoOther
  rw [if_neg (by decide), if_neg (by decide), if_neg (by decide), if_neg (by decide), if_neg (by decide), if_pos rfl, h1]
  rfl

/-! ### map, events, registers, support -/

theorem mapLine_noLF (kv : Nat × Nat) : (10 : UInt8) ∉ mapLine kv := by
  unfold mapLine
  intro h; simp only [List.mem_append, List.mem_cons] at h
  rcases h with (h | h) | h | h
  · exact absurd h (by decide)
  · exact not_mem_utoa _ 10 (by decide) h
  · exact absurd h (by decide)
  · exact not_mem_utoa _ 10 (by decide) h

theorem R_map (o : OutOracle) (avail : List (Nat × Nat)) (h : avail.all (fun kv => inU32 kv.1 && inU32 kv.2) = true) :
    R o (avail.map mapLine) = avail.map (fun kv => Effect.mapEntry kv.1 kv.2) := by
  induction avail with
  | nil => rfl
  | cons kv rest ih =>
    simp only [List.all_cons, Bool.and_eq_true] at h
    rw [List.map_cons, R_cons, ih h.2, E_of o _ _ (mapLine_noLF kv) (map_line o kv.1 kv.2 (inU32_le _ h.1.1) (inU32_le _ h.1.2))]
    rfl

theorem valueLine_noLF (id : Nat) (k v : Bytes) (hk : (10 : UInt8) ∉ k) (hv : (10 : UInt8) ∉ v) : (10 : UInt8) ∉ valueLine id k v := by
  unfold valueLine
  intro h; simp only [List.mem_append, List.mem_cons] at h
  rcases h with (h | h) | h | h | h | h
  · exact absurd h (by decide)
  · exact not_mem_utoa _ 10 (by decide) h
  · exact absurd h (by decide)
  · exact hk h
  · exact absurd h (by decide)
  · exact hv h

theorem binaryLine_noLF (id : Nat) (b : BinaryEvent) : (10 : UInt8) ∉ binaryLine id b := by
  unfold binaryLine edgeSuffix
  intro h; simp only [List.mem_append, List.mem_cons] at h
  rcases h with ((h | h) | h) | h | h
  · exact absurd h (by decide)
  · exact not_mem_utoa _ 10 (by decide) h
  · split at h
    · simp only [List.mem_cons] at h
      rcases h with h | h
      · exact absurd h (by decide)
      · exact not_mem_itoa _ 10 (by decide) (by decide) h
    · simp at h
  · exact absurd h (by decide)
  · split at h <;> exact absurd h (by decide)

theorem R_event (o : OutOracle) (e : Event) (h : eventOk e = true) : R o (eventLines e) = eventEff e := by
  unfold eventOk at h
  simp only [Bool.and_eq_true] at h
  obtain ⟨⟨⟨⟨⟨hid, hb⟩, hp⟩, ha⟩, hs⟩, hr⟩ := h
  have hid' := inU32_le _ hid
  unfold eventLines eventEff
  simp only [R_append]
  congr 1
  · congr 1
    · congr 1
      · congr 1
        · cases hbe : e.binary with
          | none => rfl
          | some b =>
            rw [hbe] at hb
            simp only [optLine, optEff, R_one]
            rw [E_of o _ _ (binaryLine_noLF _ b) (event_line o e.hwcid hid' b.edge hb b.pressed)]
            rfl
        · cases hpe : e.pulsed with
          | none => rfl
          | some v =>
            rw [hpe] at hp
            simp only [optLine, optEff, R_one]
            rw [E_of o _ _ (valueLine_noLF _ _ _ (by decide) (not_mem_itoa v 10 (by decide) (by decide))) (enc_line o e.hwcid hid' v hp)]
            rfl
      · cases hae : e.absolute with
        | none => rfl
        | some v =>
          rw [hae] at ha
          simp only [optLine, optEff, R_one]
          rw [E_of o _ _ (valueLine_noLF _ _ _ (by decide) (not_mem_utoa v 10 (by decide))) (abs_line o e.hwcid hid' v (inU32_le _ ha))]
          rfl
    · cases hse : e.speed with
      | none => rfl
      | some v =>
        rw [hse] at hs
        simp only [optLine, optEff, R_one]
        rw [E_of o _ _ (valueLine_noLF _ _ _ (by decide) (not_mem_itoa v 10 (by decide) (by decide))) (speed_line o e.hwcid hid' v hs)]
        rfl
  · cases hre : e.rawAnalog with
    | none => rfl
    | some v =>
      rw [hre] at hr
      simp only [optLine, optEff, R_one]
      rw [E_of o _ _ (valueLine_noLF _ _ _ (by decide) (not_mem_utoa v 10 (by decide))) (raw_line o e.hwcid hid' v (inU32_le _ hr))]
      rfl

theorem R_events (o : OutOracle) (evs : List Event) (h : evs.all eventOk = true) :
    R o (evs.flatMap eventLines) = evs.flatMap eventEff := by
  rw [R_flatMap]
  rw [List.all_eq_true] at h
  induction evs with
  | nil => rfl
  | cons e es ih =>
    simp only [List.flatMap_cons]
    rw [R_event o e (h e (by simp)), ih (fun x hx => h x (by simp [hx]))]

theorem registerLines_noLF (r : Register) (hr : registerOk r = true) : ∀ l ∈ registerLines r, (10 : UInt8) ∉ l := by
  unfold registerOk at hr
  simp only [Bool.and_eq_true, decide_eq_true_eq] at hr
  obtain ⟨⟨⟨h0, h3⟩, _⟩, hid⟩ := hr
  have hidu : r.id.all Spec.Out.isUpperDigit = true := by
    split at hid
    · simp only [Bool.and_eq_true] at hid; exact digits_upper _ hid.1
    · exact hid
  intro l hl
  unfold registerLines at hl
  cases hp : regPrefix r.reg with
  | none => rw [hp] at hl; simp at hl
  | some p =>
    rw [hp] at hl
    simp only [List.mem_singleton] at hl
    subst hl
    have hp10 : (10 : UInt8) ∉ p := by
      unfold regPrefix at hp
      repeat' split at hp
      all_goals first | (injection hp with hp; subst hp; decide) | exact absurd hp (by simp)
    intro h; simp only [List.mem_append, List.mem_cons] at h
    rcases h with (h | h) | h | h
    · exact hp10 h
    · exact upperDigit_not 10 (by decide) _ hidu h
    · exact absurd h (by decide)
    · exact not_mem_utoa _ 10 (by decide) h

theorem R_eq_readOutbound (o : OutOracle) (ls : List Bytes) (h : ∀ l ∈ ls, (10 : UInt8) ∉ l) : R o ls = readOutbound o ls := by
  unfold R
  have : ls.map Strip.singleLine = ls := by
    rw [List.map_congr_left (g := id) (fun l hl => C07.singleLine_id l (h l hl))]; simp
  rw [this]

theorem R_registers (o : OutOracle) (rs : List Register) (h : rs.all registerOk = true) :
    R o (rs.flatMap registerLines) = rs.flatMap regEff := by
  rw [R_flatMap]
  rw [List.all_eq_true] at h
  induction rs with
  | nil => rfl
  | cons r rest ih =>
    simp only [List.flatMap_cons]
    rw [R_eq_readOutbound o _ (registerLines_noLF r (h r (by simp))), register_line o r (h r (by simp)),
      ih (fun x hx => h x (by simp [hx]))]

theorem supportLine_noLF (s : Support) : (10 : UInt8) ∉ supportLine s := by
  unfold supportLine supportNames
  intro h; simp only [List.mem_append] at h
  rcases h with h | h
  · exact absurd h (by decide)
  · rcases mem_join 44 10 _ h with h | ⟨f, hf, hb⟩
    · exact absurd h (by decide)
    · simp only [List.mem_map] at hf
      obtain ⟨c, _, rfl⟩ := hf
      exact capName_no_lf c hb

theorem R_support (o : OutOracle) (s : Support) : R o [supportLine s] = supportEff (supportFlags s) := by
  rw [R_one, E_of o _ _ (supportLine_noLF s) (caps_all_subsets o s)]
  unfold supportEff
  split <;> rfl

/-! ### SysStat -/

theorem splitOn_fields (fields : List (Bytes × Bytes)) (h : ∀ kv ∈ fields, (58 : UInt8) ∉ kv.1 ∧ (58 : UInt8) ∉ kv.2) :
    splitOn 58 (fields.flatMap (fun kv => kv.1 ++ 58 :: (kv.2 ++ [58]))) = fields.flatMap (fun kv => [kv.1, kv.2]) ++ [[]] := by
  induction fields with
  | nil => rfl
  | cons kv rest ih =>
    have hkv := h kv (by simp)
    simp only [List.flatMap_cons, List.append_assoc, List.cons_append, List.nil_append]
    rw [splitOn_append_sep 58 kv.1 _ hkv.1, splitOn_append_sep 58 kv.2 _ hkv.2, ih (fun x hx => h x (by simp [hx]))]

theorem pairUp_fields (fields : List (Bytes × Bytes)) :
    pairUp (fields.flatMap (fun kv => [kv.1, kv.2]) ++ [[]]) = some fields := by
  induction fields with
  | nil => rfl
  | cons kv rest ih =>
    simp only [List.flatMap_cons, List.cons_append, List.nil_append, pairUp, ih]
    rfl

theorem mapM_zip (o : OutOracle) (ps : List (Bytes × Bytes)) (xs : List Val)
    (h : ps.map (fun kv => readSysVal o kv.1 kv.2) = xs.map some) :
    ps.mapM (fun kv => (readSysVal o kv.1 kv.2).map (fun x => (kv.1, x))) = some ((ps.map (·.1)).zip xs) := by
  induction ps generalizing xs with
  | nil => cases xs <;> simp_all
  | cons kv rest ih =>
    cases xs with
    | nil => simp at h
    | cons x xs =>
      simp only [List.map_cons, List.cons.injEq] at h
      rw [List.mapM_cons, h.1, ih xs h.2]
      rfl

theorem lookup_zip_map (keys : List Bytes) (xs : List Val) (d : Bytes → Val) (f : Bytes → Val → Effect)
    (hd : distinct keys = true) (hl : keys.length = xs.length) :
    keys.map (fun k => f k (((keys.zip xs).lookup k).getD (d k))) = List.zipWith f keys xs := by
  induction keys generalizing xs with
  | nil => rfl
  | cons k ks ih =>
    cases xs with
    | nil => simp at hl
    | cons x xs =>
      simp only [distinct, Bool.and_eq_true, Bool.not_eq_true'] at hd
      have hk : k ∉ ks := by simpa using hd.1
      simp only [List.zip_cons_cons, List.map_cons, List.zipWith_cons_cons, List.lookup_cons, beq_self_eq_true, Option.getD_some]
      congr 1
      rw [← ih xs hd.2 (by simpa using hl)]
      apply List.map_congr_left
      intro k' hk'
      have : (k' == k) = false := by
        simp only [beq_eq_false_iff_ne, ne_eq]; intro e; subst e; exact hk hk'
      rw [this]

/-- the typed values of the 20 fields, in the order of the format string -/
def sysVals (o : OutOracle) (s : SysStat) : List Val :=
  [.num s.cpuUsage, .opaque (o.parseF (o.fmtF 1 s.cpuTemp)), .opaque (o.parseF (o.fmtF 1 s.extTemp)),
   .opaque (o.parseF (o.fmtF 2 s.cpuVoltage)), .num s.cpuFreqCurrent, .num s.cpuFreqMin, .num s.cpuFreqMax, .num s.memTotal,
   .num s.memFree, .num s.memAvailable, .num s.memBuffers, .num s.memCached, .flag s.underVoltageNow, .flag s.underVoltage,
   .flag s.freqCapNow, .flag s.freqCap, .flag s.throttledNow, .flag s.throttled, .flag s.softTempLimitNow, .flag s.softTempLimit]

theorem readSysVal_usage (o : OutOracle) (n : Nat) (hn : n ≤ u32Max) : readSysVal o (asc "CPUUsage") (utoa n) = some (.num n) := by
  unfold readSysVal utoa
  rw [if_pos rfl, readNum_digitsOf n hn]; rfl

theorem readSysVal_float (o : OutOracle) (k t : Bytes) (hk : k ∈ floatKeys) (ht : floatTextOk t = true) :
    readSysVal o k t = some (.opaque (o.parseF t)) := by
  have : k ≠ asc "CPUUsage" := by revert hk; revert k; decide
  unfold readSysVal
  rw [if_neg this, if_pos hk, if_pos ht]

theorem int_not_before : ∀ k ∈ intKeys, k ≠ asc "CPUUsage" ∧ k ∉ floatKeys := by decide
theorem flag_not_before : ∀ k ∈ flagKeys, k ≠ asc "CPUUsage" ∧ k ∉ floatKeys ∧ k ∉ intKeys := by decide

theorem readSysVal_int (o : OutOracle) (k : Bytes) (v : Int) (hk : k ∈ intKeys) (hv : inI32 v = true) :
    readSysVal o k (itoa v) = some (.num v) := by
  have := int_not_before k hk
  obtain ⟨h1, h2⟩ := inI32_range v hv
  unfold readSysVal
  rw [if_neg this.1, if_neg this.2, if_pos hk, readInt_itoa v (by omega) (by omega)]
  simp [hv]

theorem readSysVal_flag (o : OutOracle) (k : Bytes) (b : Bool) (hk : k ∈ flagKeys) :
    readSysVal o k (b01 b) = some (.flag b) := by
  have := flag_not_before k hk
  unfold readSysVal
  rw [if_neg this.1, if_neg this.2.1, if_neg this.2.2, if_pos hk]
  cases b <;> simp [b01]

theorem floatText_no (t : Bytes) (h : floatTextOk t = true) (c : UInt8)
    (hc : (isDigit c || c = 45 || c = 43 || c = 46 || c = 101 || c = 69) = false) : c ∉ t := by
  intro hm
  unfold floatTextOk at h
  simp only [Bool.and_eq_true] at h
  have := h.2
  rw [List.all_eq_true] at this
  have := this c hm
  simp only [Bool.or_eq_true, decide_eq_true_eq] at this
  simp only [Bool.or_eq_false_iff, decide_eq_false_iff_not] at hc
  obtain ⟨⟨⟨⟨⟨h1, h2⟩, h3⟩, h4⟩, h5⟩, h6⟩ := hc
  rcases this with ((((h | h) | h) | h) | h) | h
  · rw [h1] at h; exact absurd h (by decide)
  · exact h2 h
  · exact h3 h
  · exact h4 h
  · exact h5 h
  · exact h6 h

theorem b01_no (b : Bool) (c : UInt8) (hc : isDigit c = false) : c ∉ b01 b := by
  cases b <;> (simp only [b01]; intro h; simp at h; subst h; exact absurd hc (by decide))

def cleanVal (v : Bytes) : Prop := (58 : UInt8) ∉ v ∧ (10 : UInt8) ∉ v

theorem clean_utoa (n : Nat) : cleanVal (utoa n) := ⟨not_mem_utoa n 58 (by decide), not_mem_utoa n 10 (by decide)⟩
theorem clean_itoa (v : Int) : cleanVal (itoa v) := ⟨not_mem_itoa v 58 (by decide) (by decide), not_mem_itoa v 10 (by decide) (by decide)⟩
theorem clean_b01 (b : Bool) : cleanVal (b01 b) := ⟨b01_no b 58 (by decide), b01_no b 10 (by decide)⟩
theorem clean_float (t : Bytes) (h : floatTextOk t = true) : cleanVal t :=
  ⟨floatText_no t h 58 (by decide), floatText_no t h 10 (by decide)⟩

theorem sysStatOk_spec (o : OutOracle) (s : SysStat) (h : sysStatOk o s = true) :
    s.cpuUsage ≤ u32Max ∧ floatTextOk (o.fmtF 1 s.cpuTemp) = true ∧ floatTextOk (o.fmtF 1 s.extTemp) = true ∧
    floatTextOk (o.fmtF 2 s.cpuVoltage) = true ∧ inI32 s.cpuFreqCurrent = true ∧ inI32 s.cpuFreqMin = true ∧
    inI32 s.cpuFreqMax = true ∧ inI32 s.memTotal = true ∧ inI32 s.memFree = true ∧ inI32 s.memAvailable = true ∧
    inI32 s.memBuffers = true ∧ inI32 s.memCached = true := by
  unfold sysStatOk at h
  simp only [Bool.and_eq_true] at h
  obtain ⟨⟨⟨⟨⟨⟨⟨⟨⟨⟨⟨h1, h2⟩, h3⟩, h4⟩, h5⟩, h6⟩, h7⟩, h8⟩, h9⟩, h10⟩, h11⟩, h12⟩ := h
  exact ⟨inU32_le _ h1, h2, h3, h4, h5, h6, h7, h8, h9, h10, h11, h12⟩

theorem fields_clean (o : OutOracle) (s : SysStat) (h : sysStatOk o s = true) :
    ∀ kv ∈ sysStatFields o s, cleanVal kv.1 ∧ cleanVal kv.2 := by
  obtain ⟨_, h2, h3, h4, _⟩ := sysStatOk_spec o s h
  intro kv hkv
  simp only [sysStatFields, List.mem_cons, List.not_mem_nil, or_false] at hkv
  rcases hkv with e | e | e | e | e | e | e | e | e | e | e | e | e | e | e | e | e | e | e | e <;> subst e <;> dsimp only
  · exact ⟨⟨by decide, by decide⟩, clean_utoa _⟩
  · exact ⟨⟨by decide, by decide⟩, clean_float _ h2⟩
  · exact ⟨⟨by decide, by decide⟩, clean_float _ h3⟩
  · exact ⟨⟨by decide, by decide⟩, clean_float _ h4⟩
  all_goals first | exact ⟨⟨by decide, by decide⟩, clean_itoa _⟩ | exact ⟨⟨by decide, by decide⟩, clean_b01 _⟩

theorem fields_vals (o : OutOracle) (s : SysStat) (h : sysStatOk o s = true) :
    (sysStatFields o s).map (fun kv => readSysVal o kv.1 kv.2) = (sysVals o s).map some := by
  obtain ⟨h1, h2, h3, h4, h5, h6, h7, h8, h9, h10, h11, h12⟩ := sysStatOk_spec o s h
  simp only [sysStatFields, sysVals, List.map_cons, List.map_nil]
  rw [readSysVal_usage o _ h1, readSysVal_float o _ _ (by decide) h2, readSysVal_float o _ _ (by decide) h3,
    readSysVal_float o _ _ (by decide) h4, readSysVal_int o _ _ (by decide) h5, readSysVal_int o _ _ (by decide) h6,
    readSysVal_int o _ _ (by decide) h7, readSysVal_int o _ _ (by decide) h8, readSysVal_int o _ _ (by decide) h9,
    readSysVal_int o _ _ (by decide) h10, readSysVal_int o _ _ (by decide) h11, readSysVal_int o _ _ (by decide) h12,
    readSysVal_flag o (asc "UnderVoltageNow") _ (by decide), readSysVal_flag o (asc "UnderVoltage") _ (by decide),
    readSysVal_flag o (asc "FreqCapNow") _ (by decide), readSysVal_flag o (asc "FreqCap") _ (by decide),
    readSysVal_flag o (asc "ThrottledNow") _ (by decide), readSysVal_flag o (asc "Throttled") _ (by decide),
    readSysVal_flag o (asc "SoftTempLimitNow") _ (by decide), readSysVal_flag o (asc "SoftTempLimit") _ (by decide)]

theorem fields_keys (o : OutOracle) (s : SysStat) : (sysStatFields o s).map (·.1) = sysKeys := rfl

theorem readSysStat_fields (o : OutOracle) (s : SysStat) (h : sysStatOk o s = true) :
    readSysStat o ((sysStatFields o s).flatMap (fun kv => kv.1 ++ 58 :: (kv.2 ++ [58]))) =
      .grammar (List.zipWith Effect.sysstat sysKeys (sysVals o s)) := by
  unfold readSysStat
  rw [splitOn_fields _ (fun kv hkv => ⟨(fields_clean o s h kv hkv).1.1, (fields_clean o s h kv hkv).2.1⟩), pairUp_fields]
  simp only []
  rw [fields_keys, if_neg (by decide), mapM_zip o _ (sysVals o s) (fields_vals o s h), fields_keys]
  simp only []
  rw [lookup_zip_map sysKeys (sysVals o s) sysDefault Effect.sysstat (by decide) rfl]

theorem R_sysStat (o : OutOracle) (s : SysStat) (h : sysStatOk o s = true) (hpf : ∀ t, o.parseF t = t) :
    R o [sysStatLine o s] = sysStatEff o s := by
  have hk : kSysStat = asc "SysStat" ++ [61] := by decide
  have hclean := fields_clean o s h
  have h10 : (10 : UInt8) ∉ (sysStatFields o s).flatMap (fun kv => kv.1 ++ 58 :: (kv.2 ++ [58])) := by
    intro hm
    simp only [List.mem_flatMap, List.mem_append, List.mem_cons, List.not_mem_nil, or_false] at hm
    obtain ⟨kv, hkv, hm⟩ := hm
    rcases hm with hm | hm | hm | hm
    · exact (hclean kv hkv).1.2 hm
    · exact absurd hm (by decide)
    · exact (hclean kv hkv).2.2 hm
    · exact absurd hm (by decide)
  have hne : (sysStatFields o s).flatMap (fun kv => kv.1 ++ 58 :: (kv.2 ++ [58])) ≠ [] := by
    simp [sysStatFields]
  unfold sysStatLine
  rw [R_one, hk, List.append_assoc, List.singleton_append, E_kv o _ _ (by decide) hne h10, readInfo_other o _ _ (by decide)]
  unfold readInfoOther
  rw [if_neg (by decide), if_neg (by decide), if_neg (by decide), if_neg (by decide), if_neg (by decide), if_neg (by decide),
    if_neg (by decide), if_pos rfl, readSysStat_fields o s h]
  simp only [LineClass.effects, sysVals, hpf]
  rfl

theorem R_panelInfo (o : OutOracle) (p : PanelInfo) (h : panelInfoOk p = true) : R o (panelInfoLines p) = panelInfoEff p := by
  unfold panelInfoOk at h
  simp only [Bool.and_eq_true, decide_eq_true_eq] at h
  obtain ⟨⟨⟨⟨⟨⟨⟨h1, h2⟩, h3⟩, h4⟩, h5⟩, h6⟩, h7⟩, h8⟩ := h
  unfold panelInfoLines panelInfoHead panelInfoEff
  simp only [R_append]
  rw [R_textLine o (asc "_model") kModel _ (by decide) (by decide) h1,
    R_textLine o (asc "_serial") kSerial _ (by decide) (by decide) h2,
    R_textLine o (asc "_version") kVersion _ (by decide) (by decide) h4,
    R_textLine o (asc "_name") kName _ (by decide) (by decide) h3,
    R_textLine o (asc "_platform") kPlatform _ (by decide) (by decide) h5,
    R_bluePill, R_num0Line o (asc "_serverModeMaxClients") kMaxClients _ (by decide) (by decide) h6,
    R_lockToIP o _ h7, R_panelType o _ h8]
  cases hs : p.support with
  | none => simp only [R_nil, optEff, List.append_nil]
  | some s => simp only [R_support, optEff]

theorem R_runTime (o : OutOracle) (r : RunTimeStats)
    (h : (inU32 r.bootsCount && inU32 r.totalUptime && inU32 r.sessionUptime && inU32 r.screenSaveOnTime) = true) :
    R o (runTimeLines r) =
      numEff0 (asc "_bootsCount") r.bootsCount ++ numEff0 (asc "_totalUptimeMin") r.totalUptime ++
      numEff0 (asc "_sessionUptimeMin") r.sessionUptime ++ numEff0 (asc "_screenSaverOnMin") r.screenSaveOnTime := by
  simp only [Bool.and_eq_true] at h
  obtain ⟨⟨⟨h1, h2⟩, h3⟩, h4⟩ := h
  unfold runTimeLines
  simp only [R_append]
  rw [R_num0Line o (asc "_bootsCount") kBoots _ (by decide) (by decide) h1,
    R_num0Line o (asc "_totalUptimeMin") kTotalUp _ (by decide) (by decide) h2,
    R_num0Line o (asc "_sessionUptimeMin") kSessionUp _ (by decide) (by decide) h3,
    R_num0Line o (asc "_screenSaverOnMin") kScreenSaver _ (by decide) (by decide) h4]

/-- payload fields covered by the earlier, narrower theorem `msg_sound`: ASCII text with ANY line / white-space structure,
or arbitrary bytes on which the flattening is the identity (no LF, no white space at the ends; SVG: empty or ending in
`>`).  `msg_sound_full` no longer needs it: the domain's `payloadOk` (valid UTF-8) suffices. -/
def flatMsg (m : OutMsg) : Bool :=
  optOk m.topology (fun t => okSvg t.svgbase && okPayload t.json) && optOk m.burnin okPayload &&
  optOk m.calibration okPayload && optOk m.defaultCalibration okPayload && optOk m.errorMsg okPayload &&
  optOk m.message okPayload

theorem R_optPayloadU (o : OutOracle) (key kq : Bytes) (x : Option Bytes) (hkq : kq = key ++ [61]) (hk : key ∈ payloadKeys)
    (hs : key ≠ asc "_panelTopology_svgbase") (h : optOk x payloadOk = true) :
    R o (optLine x (fun j => kq ++ Strip.stripLineBreaks j)) = optEff x (payloadEff key) := by
  cases x with
  | none => rfl
  | some j => exact R_payloadI o key kq j hkq hk hs (idemOk_of_payloadOk j h)

theorem R_optNum (o : OutOracle) (key kq : Bytes) (x : Option Nat) (hkq : kq = key ++ [61]) (hk : key ∈ numKeys)
    (h : optOk x inU32 = true) :
    R o (optLine x (fun v => kq ++ utoa v)) = optEff x (numEff key) := by
  cases x with
  | none => rfl
  | some n => exact R_numLine o key kq n hkq hk h

/-- one message of the domain (every payload valid UTF-8, any line structure): the reader of the produced lines returns
exactly what the message carries, in order -/
theorem msg_sound_full (o : OutOracle) (m : OutMsg) (h : inDomainMsg o m = true) (hpf : ∀ t, o.parseF t = t) :
    R o (encMsgRaw o m) = effectsOfOut o m := by
  unfold inDomainMsg at h
  simp only [Bool.and_eq_true] at h
  obtain ⟨⟨⟨⟨⟨⟨⟨⟨⟨⟨⟨⟨⟨⟨⟨⟨⟨⟨⟨_, hmap⟩, _⟩, hpi⟩, ftopo⟩, fburn⟩, fcal⟩, fdcal⟩, hnet⟩, hst⟩, hhb⟩, hdg⟩, hconn⟩, hrts⟩, ferr⟩, fmsg⟩, henv⟩, hsys⟩, hev⟩, hreg⟩ := h
  unfold encMsgRaw effectsOfOut
  simp only [R_append]
  rw [R_flow, R_map o _ hmap, R_events o _ hev, R_registers o _ hreg,
    R_optPayloadU o (asc "_burninProfile") kBurnin _ (by decide) (by decide) (by decide) fburn,
    R_optPayloadU o (asc "_calibrationProfile") kCalib _ (by decide) (by decide) (by decide) fcal,
    R_optPayloadU o (asc "_defaultCalibrationProfile") kDefCalib _ (by decide) (by decide) (by decide) fdcal,
    R_optPayloadU o (asc "ErrorMsg") kErrorMsg _ (by decide) (by decide) (by decide) ferr,
    R_optPayloadU o (asc "Msg") kMsg _ (by decide) (by decide) (by decide) fmsg,
    R_optNum o (asc "_sleepTimer") kSleepTimer _ (by decide) (by decide) hst,
    R_optNum o (asc "_heartBeatTimer") kHeartBeat _ (by decide) (by decide) hhb,
    R_optNum o (asc "DimmedGain") kDimmedGain _ (by decide) (by decide) hdg]
  have e_pi : R o (optLines m.panelInfo panelInfoLines) = optEff m.panelInfo panelInfoEff := by
    cases hx : m.panelInfo with
    | none => rfl
    | some p => rw [hx] at hpi; exact R_panelInfo o p hpi
  have e_topo : R o (optLines m.topology topologyLines) =
      optEff m.topology (fun t => svgEff t.svgbase ++ payloadEff (asc "_panelTopology_HWC") t.json) := by
    cases hx : m.topology with
    | none => rfl
    | some t =>
      rw [hx] at ftopo
      simp only [optOk, Bool.and_eq_true] at ftopo
      simp only [optLines, optEff, topologyLines]
      rw [show [kSvgbase ++ Strip.stripLineBreaksSvg t.svgbase, kTopoHWC ++ Strip.stripLineBreaks t.json] =
        [kSvgbase ++ Strip.stripLineBreaksSvg t.svgbase] ++ [kTopoHWC ++ Strip.stripLineBreaks t.json] from rfl, R_append,
        R_svgAll o _, R_payloadI o (asc "_panelTopology_HWC") kTopoHWC _ (by decide) (by decide) (by decide) (idemOk_of_payloadOk _ ftopo.2)]
  have e_net : R o (optLine m.netConfig (fun c => kNetCfg ++ o.jsonOfNet c)) =
      optEff m.netConfig (fun c => [.info (asc "_networkConfig") (.net c)]) := by
    cases hx : m.netConfig with
    | none => rfl
    | some c =>
      rw [hx] at hnet
      simp only [optOk, Bool.and_eq_true, beq_iff_eq, bne_iff_ne, ne_eq] at hnet
      exact R_netCfg o c hnet.1.1 hnet.1.2 hnet.2
  have e_ss : R o (optLine m.sleepState (fun b => kIsSleeping ++ b01 b)) =
      optEff m.sleepState (fun b => [.info (asc "_isSleeping") (.flag b)]) := by
    cases m.sleepState with
    | none => rfl
    | some b => exact R_isSleeping o b
  have e_conn : R o (optLine m.connections (fun c => kConnections ++ join 59 c)) =
      optEff m.connections (itemsEff (asc "_connections")) := by
    cases hx : m.connections with
    | none => rfl
    | some c => rw [hx] at hconn; exact R_connections o c hconn
  have e_rts : R o (optLines m.runTimeStats runTimeLines) = optEff m.runTimeStats (fun r =>
      numEff0 (asc "_bootsCount") r.bootsCount ++ numEff0 (asc "_totalUptimeMin") r.totalUptime ++
      numEff0 (asc "_sessionUptimeMin") r.sessionUptime ++ numEff0 (asc "_screenSaverOnMin") r.screenSaveOnTime) := by
    cases hx : m.runTimeStats with
    | none => rfl
    | some r => rw [hx] at hrts; exact R_runTime o r hrts
  have e_env : R o (optLines m.envHealth envLines) = optEff m.envHealth envEff := by
    cases hx : m.envHealth with
    | none => rfl
    | some e =>
      rw [hx] at henv
      simp only [optOk, Bool.and_eq_true, decide_eq_true_eq] at henv
      exact R_env o e henv
  have e_sys : R o (optLine m.sysStat (sysStatLine o)) = optEff m.sysStat (sysStatEff o) := by
    cases hx : m.sysStat with
    | none => rfl
    | some s => rw [hx] at hsys; exact R_sysStat o s hsys hpf
  rw [e_pi, e_topo, e_net, e_ss, e_conn, e_rts, e_env, e_sys]

/-- the earlier statement (extra hypothesis `flatMsg`, now superfluous) -/
theorem msg_sound (o : OutOracle) (m : OutMsg) (h : inDomainMsg o m = true) (_hf : flatMsg m = true) (hpf : ∀ t, o.parseF t = t) :
    R o (encMsgRaw o m) = effectsOfOut o m := msg_sound_full o m h hpf

theorem sameMsg_refl (e : List Effect) : sameMsg e e = true := by
  unfold sameMsg
  simp only [beq_self_eq_true, Bool.true_and]
  rw [List.isPerm_iff]

theorem approx_flatten (es : List (List Effect)) : approx es es.flatten = true := by
  induction es with
  | nil => rfl
  | cons e rest ih =>
    simp only [approx, List.flatten_cons, List.take_left', List.drop_left', sameMsg_refl, ih, Bool.and_self]

theorem encOut_R (o : OutOracle) (ms : List OutMsg) : readOutbound o (encOut o ms) = ms.flatMap (fun m => R o (encMsgRaw o m)) := by
  unfold encOut
  have : readOutbound o ((ms.flatMap (encMsgRaw o)).map Strip.singleLine) = R o (ms.flatMap (encMsgRaw o)) := rfl
  rw [this, R_flatMap]

theorem flatMap_congr' {α β : Type} (l : List α) (f g : α → List β) (h : ∀ x ∈ l, f x = g x) : l.flatMap f = l.flatMap g := by
  induction l with
  | nil => simp
  | cons a as ih =>
    simp only [List.flatMap_cons]
    rw [h a (by simp), ih (fun x hx => h x (by simp [hx]))]

end RawPanelVerif.OutLemmas
