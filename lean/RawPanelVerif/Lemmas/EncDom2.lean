import RawPanelVerif.Lemmas.EncDom1
/-! Round trip, part 2: flow / command lines, `HWC#` / `HWCx#` / `HWCc#` / `HWCrawADCValues#` lines and register lines of a
message of `inDomainIn` are well-formed lines.  Two places need more than `inDomainIn` (the statement without them is
false, see Props/C02): a FLAG register id must be a protocol numeral (`< 2^32`), and a calibration payload must be a
fixed point of the C07 normal form once normalised (true of valid UTF-8). -/
namespace RawPanelVerif.EncDom
open RawPanelVerif RawPanelVerif.Bytes RawPanelVerif.MsgIn RawPanelVerif.Model.In RawPanelVerif.InBits RawPanelVerif.ReadIn
open RawPanelVerif.Spec.In RawPanelVerif.TotalIn RawPanelVerif.EncSound RawPanelVerif.DecGfx

variable (O : Oracles)

/-! ## flow and commands -/

theorem Dom.single' {O : Oracles} {l : Bytes} (h : ∃ es, readLine O l = .effects es) (hc : classify O l = .wellFormed) : Dom O [l] := by
  obtain ⟨es, h⟩ := h
  exact Dom.single h hc

theorem flow_dom (f : Int) : Dom O (flowLines f) := by
  unfold flowLines
  by_cases h2 : f = 2
  · rw [if_pos h2]; exact Dom.single' ⟨_, by rfl⟩ (by rfl)
  · by_cases h3 : f = 3
    · rw [if_neg h2, if_pos h3]; exact Dom.single' ⟨_, by rfl⟩ (by rfl)
    · by_cases h1 : f = 1
      · rw [if_neg h2, if_neg h3, if_pos h1]; exact Dom.single' ⟨_, by rfl⟩ (by rfl)
      · rw [if_neg h2, if_neg h3, if_neg h1]; exact Dom.nil O

theorem env_dom (m : Int) : Dom O (envLine m) := by
  unfold envLine
  by_cases h0 : m = 0
  · rw [if_pos h0]; exact Dom.single' ⟨_, by rfl⟩ (by rfl)
  · by_cases h1 : m = 1
    · rw [if_neg h0, if_pos h1]; exact Dom.single' ⟨_, by rfl⟩ (by rfl)
    · by_cases h2 : m = 2
      · rw [if_neg h0, if_neg h1, if_pos h2]; exact Dom.single' ⟨_, by rfl⟩ (by rfl)
      · rw [if_neg h0, if_neg h1, if_neg h2]; exact Dom.nil O

/-- a command line `Keq ++ v` read as a non-empty effect list -/
theorem plain_dom (K Keq v : Bytes) (es : List Effect) (he : Keq = K ++ [61]) (h0 : keyHeadOk K = true)
    (h61 : (61 : UInt8) ∉ K) (h35 : cut 35 K = none) (hk : plainKeys.contains K = true)
    (hnl : (10 : UInt8) ∉ Keq ++ v) (hr : readLine O (Keq ++ v) = .effects es) (hes : es ≠ [])
    (hcal : K = asc "SetCalibrationProfile" → normPayload v = v) : Dom O [Keq ++ v] :=
  Dom.single hr (classify_plain O K Keq v es he h0 h61 h35 hk hnl hr hes hcal)

theorem num_dom (K Keq : Bytes) (mk : Nat → CmdE) (v : Nat) (hv : v < 4294967296) (he : Keq = K ++ [61])
    (h0 : keyHeadOk K = true) (h61 : (61 : UInt8) ∉ K) (h35 : cut 35 K = none)
    (hsp : K ≠ asc "ActivePanel" ∧ K ≠ asc "PanelBrightness" ∧ K ≠ asc "SetCalibrationProfile" ∧ K ≠ asc "SetNetworkConfig" ∧
           K ≠ asc "SimulateEnvironmentalHealth")
    (hl : numCmdTable.lookup K = some mk) (hk : plainKeys.contains K = true) (hK10 : (10 : UInt8) ∉ Keq) :
    Dom O [Keq ++ utoa v] :=
  plain_dom O K Keq (utoa v) _ he h0 h61 h35 hk (nl_append _ _ hK10 (nl_utoa v))
    (numLine O K Keq mk v hv he h0 h61 h35 hsp hl) (by simp) (fun e => absurd e hsp.2.2.1)

theorem cmd_dom (c : Command) (h : cmdOk O c = true) (hg : rtCmdOk c = true) : Dom O (cmdLines O c) := by
  simp only [cmdOk, Bool.and_eq_true] at h
  obtain ⟨⟨⟨⟨⟨⟨⟨⟨⟨h1, h2⟩, h3⟩, h4⟩, h5⟩, h6⟩, h7⟩, h8⟩, h9⟩, h10⟩ := h
  unfold cmdLines
  repeat' apply Dom.append
  any_goals (exact Dom.flag _ _ _ (by rfl) (by rfl))
  · -- brightness
    refine Dom.optLine _ _ (fun p hp => ?_)
    have := optOk_some _ _ _ h1 hp
    simp only [Bool.and_eq_true] at this
    have hr := brightness_line O p.1 p.2 (u32ok_lt _ this.1) (u32ok_lt _ this.2)
    have e : asc "PanelBrightness=" ++ utoa p.1 ++ asc "," ++ utoa p.2 = asc "PanelBrightness=" ++ (utoa p.1 ++ asc "," ++ utoa p.2) := by simp
    rw [e] at hr ⊢
    exact plain_dom O (asc "PanelBrightness") _ _ _ (by decide) (by decide) (by decide) (by decide) (by decide) (by nolf) hr (by simp)
      (fun e => absurd e (by decide))
  · -- calibration profile
    refine Dom.optLine _ _ (fun j hj => ?_)
    have hc := optOk_some _ _ _ hg hj
    unfold rtCalOk at hc
    have hc' : normPayload (Strip.stripLineBreaks j) = Strip.stripLineBreaks j := by
      have : normPayload (normPayload j) = normPayload j := by simpa using hc
      exact this
    exact plain_dom O (asc "SetCalibrationProfile") _ _ _ (by decide) (by decide) (by decide) (by decide) (by decide)
      (nl_append _ _ (by decide) (C07.strip_no_lf j)) (cal_line O j) (by simp) (fun _ => hc')
  · -- network configuration
    refine Dom.optLine _ _ (fun n hn => ?_)
    have := optOk_some _ _ _ h2 hn
    simp only [Bool.and_eq_true, beq_iff_eq, Bool.not_eq_true', List.contains_eq_mem, decide_eq_false_iff_not] at this
    exact plain_dom O (asc "SetNetworkConfig") _ _ _ (by decide) (by decide) (by decide) (by decide) (by decide)
      (nl_append _ _ (by decide) this.2) (net_line O n this.1) (by simp) (fun e => absurd e (by decide))
  · exact Dom.optLine _ _ (fun m _ => env_dom O m)
  · refine Dom.optLine _ _ (fun v hv => ?_)
    exact num_dom O (asc "SleepTimer") _ _ v (u32ok_lt _ (optOk_some _ _ _ h4 hv)) (by decide) (by decide) (by decide) (by decide) (by kwfacts) (by rfl) (by decide) (by decide)
  · refine Dom.optLine _ _ (fun v hv => ?_)
    have hr := enumOk_range v 2147483647 (optOk_some _ (fun e => enumOk e 2147483647) v h5 hv)
    rw [itoa_nonneg v hr.1]
    exact num_dom O (asc "SleepMode") _ _ v.toNat (by omega) (by decide) (by decide) (by decide) (by decide) (by kwfacts) (by rfl) (by decide) (by decide)
  · refine Dom.optLine _ _ (fun v hv => ?_)
    have hr := enumOk_range v 2147483647 (optOk_some _ (fun e => enumOk e 2147483647) v h6 hv)
    rw [itoa_nonneg v hr.1]
    exact num_dom O (asc "SleepScreenSaver") _ _ v.toNat (by omega) (by decide) (by decide) (by decide) (by decide) (by kwfacts) (by rfl) (by decide) (by decide)
  · refine Dom.optLine _ _ (fun v hv => ?_)
    exact num_dom O (asc "DimmedGain") _ _ v (u32ok_lt _ (optOk_some _ _ _ h7 hv)) (by decide) (by decide) (by decide) (by decide) (by kwfacts) (by rfl) (by decide) (by decide)
  · refine Dom.optLine _ _ (fun v hv => ?_)
    exact num_dom O (asc "HeartBeatTimer") _ _ v (u32ok_lt _ (optOk_some _ _ _ h8 hv)) (by decide) (by decide) (by decide) (by decide) (by kwfacts) (by rfl) (by decide) (by decide)
  · refine Dom.optLine _ _ (fun v hv => ?_)
    exact num_dom O (asc "PublishSystemStat") _ _ v (u32ok_lt _ (optOk_some _ _ _ h9 hv)) (by decide) (by decide) (by decide) (by decide) (by kwfacts) (by rfl) (by decide) (by decide)
  · refine Dom.optLine _ _ (fun v hv => ?_)
    have hr := enumOk_range v 2147483647 (optOk_some _ (fun e => enumOk e 2147483647) v h10 hv)
    rw [itoa_nonneg v hr.1]
    exact num_dom O (asc "LoadCPU") _ _ v.toNat (by omega) (by decide) (by decide) (by decide) (by decide) (by kwfacts) (by rfl) (by decide) (by decide)
  · refine Dom.optLine _ _ (fun v _ => ?_)
    rw [b01_eq]
    exact num_dom O (asc "Webserver") (asc "Webserver=") _ (if v then 1 else 0) (by cases v <;> decide) (by decide) (by decide) (by decide) (by decide) (by kwfacts) (by rfl) (by decide) (by decide)
  · refine Dom.optLine _ _ (fun v _ => ?_)
    rw [b01_eq]
    exact num_dom O (asc "JSONonOutbound") (asc "JSONonOutbound=") _ (if v then 1 else 0) (by cases v <;> decide) (by decide) (by decide) (by decide) (by decide) (by kwfacts) (by rfl) (by decide) (by decide)

/-! ## single-line state sections -/

theorem hashOk_num (F : Bytes) (hF : F = asc "HWC" ∨ F = asc "HWCx" ∨ F = asc "HWCc") (id n : Nat) (hid : id < 4294967296)
    (hn : n < 4294967296) : hashOk F (utoa id) (utoa n) = true := by
  unfold hashOk
  have hnf : F ≠ asc "Flag" := by rcases hF with e | e | e <;> rw [e] <;> decide
  rw [if_neg hnf, ids_utoa id hid]
  simp only [Option.isNone_some, Bool.false_eq_true, if_false]
  rw [if_pos hF, num_utoa n hn]
  rfl

/-- a `family#id=number` line of one of the three packed-integer families -/
theorem packed_dom (F Fh : Bytes) (hF : Fh = F ++ [35]) (hfam : F = asc "HWC" ∨ F = asc "HWCx" ∨ F = asc "HWCc")
    (id n : Nat) (hid : id < 4294967296) (hn : n < 4294967296) : Dom O [Fh ++ utoa id ++ asc "=" ++ utoa n] := by
  have h0 : keyHeadOk F = true := by rcases hfam with e | e | e <;> rw [e] <;> decide
  have h61 : (61 : UInt8) ∉ F := by rcases hfam with e | e | e <;> rw [e] <;> decide
  have h35 : (35 : UInt8) ∉ F := by rcases hfam with e | e | e <;> rw [e] <;> decide
  have h10 : (10 : UInt8) ∉ Fh := by rcases hfam with e | e | e <;> rw [hF, e] <;> decide
  have hg : grammarFams.contains F = true := by rcases hfam with e | e | e <;> rw [e] <;> decide
  refine Dom.single' ?_ (classify_hash O F Fh (utoa id) (utoa n) hF h0 h61 h35 (not_mem_utoa id 61 (by decide)) hg (by nolf)
    (hashOk_num F hfam id n hid hn))
  rw [read_hash O F Fh id _ hF h0 h61 h35]
  unfold readHash
  rcases hfam with e | e | e
  · rw [e, if_pos rfl]; exact ⟨_, rfl⟩
  · rw [e, if_neg (by decide), if_pos rfl]; exact ⟨_, rfl⟩
  · rw [e, if_neg (by decide), if_neg (by decide), if_pos rfl]; exact ⟨_, rfl⟩

theorem mode_dom (id : Nat) (hid : id < 4294967296) (m : Option Mode) : Dom O (modeLines id m) := by
  unfold modeLines
  refine Dom.optLine _ _ (fun m _ => ?_)
  obtain ⟨s, o, b⟩ := m
  have hmi : modeInt { state := s, output := o, blink := b } < 4294967296 := by
    rw [modeInt_eq]; cases o <;> simp <;> omega
  exact packed_dom O (asc "HWC") (asc "HWC#") (by decide) (Or.inl rfl) id _ hid hmi

theorem ext_dom (id : Nat) (hid : id < 4294967296) (e : Option Ext) : Dom O (extLines id e) := by
  unfold extLines
  refine Dom.optLine _ _ (fun e _ => ?_)
  obtain ⟨i, v⟩ := e
  have hmi : extInt { interp := i, value := v } < 4294967296 := by rw [extInt_eq]; omega
  exact packed_dom O (asc "HWCx") (asc "HWCx#") (by decide) (Or.inr (Or.inl rfl)) id _ hid hmi

theorem color_dom (id : Nat) (hid : id < 4294967296) (c : Option Color) : Dom O (colorLines id c) := by
  unfold colorLines
  refine Dom.optLine _ _ (fun c _ => ?_)
  obtain ⟨rgb, idx⟩ := c
  cases rgb with
  | some rgb =>
    have hmi : colorRGBInt rgb < 4294967296 := by rw [colorRGBInt_eq]; omega
    exact packed_dom O (asc "HWCc") (asc "HWCc#") (by decide) (Or.inr (Or.inr rfl)) id _ hid hmi
  | none =>
    cases idx with
    | none => exact Dom.nil O
    | some i =>
      have hmi : colorIndexInt i < 4294967296 := by rw [colorIndexInt_eq]; omega
      exact packed_dom O (asc "HWCc") (asc "HWCc#") (by decide) (Or.inr (Or.inr rfl)) id _ hid hmi

theorem raw_dom (id : Nat) (hid : id < 4294967296) (r : Option Bool) : Dom O (rawLines id r) := by
  unfold rawLines
  refine Dom.optLine _ _ (fun on _ => ?_)
  have hok : hashOk (asc "HWCrawADCValues") (utoa id) (b01 on) = true := by
    unfold hashOk
    rw [if_neg (by decide), ids_utoa id hid]
    simp only [Option.isNone_some, Bool.false_eq_true, if_false]
    rw [if_neg (by decide), if_neg (by decide)]
    first
      | (rw [if_pos rfl]; cases on <;> decide)
      | (rw [if_pos trivial]; cases on <;> decide)
  refine Dom.single' ?_ (classify_hash O (asc "HWCrawADCValues") (asc "HWCrawADCValues#") (utoa id) (b01 on) (by decide) (by decide)
    (by decide) (by decide) (not_mem_utoa id 61 (by decide)) (by decide) (by nolf) hok)
  rw [read_hash O (asc "HWCrawADCValues") (asc "HWCrawADCValues#") id _ (by decide) (by decide) (by decide) (by decide)]
  unfold readHash
  rw [if_neg (by decide), if_neg (by decide), if_neg (by decide), if_neg (by decide), if_pos rfl]
  exact ⟨_, rfl⟩

/-! ## registers -/

theorem reg_dom (r : Register) (h : regOk r = true) (hg : rtRegOk r = true) : Dom O (regLine r) := by
  unfold regOk at h
  simp only [Bool.and_eq_true] at h
  obtain ⟨⟨hk, hv⟩, hid⟩ := h
  have hr := enumOk_range _ _ hk
  have hv' := u32ok_lt _ hv
  unfold regLine
  have : r.reg = 0 ∨ r.reg = 1 ∨ r.reg = 2 ∨ r.reg = 3 := by omega
  rcases this with e | e | e | e
  · rw [e] at hid ⊢
    simp only [show ¬ ((0 : Int) = 1) by decide, if_false] at hid
    simp only [if_true]
    exact Dom.single
      (read_regPlain O (asc "Mem") (asc "Mem") r.id .mem r.value hv' (by decide) (by decide) (by decide) (by decide)
        hid (by decide) (by decide) (regKey_mem r.id hid) rfl)
      (classify_reg O (asc "Mem") (asc "Mem") r.id .mem r.value hv' rfl (by decide) (by decide) (by decide) (by decide) hid (by decide)
        (regKey_mem r.id hid))
  · rw [e] at hid ⊢
    simp only [if_true] at hid
    simp only [show ¬ ((1 : Int) = 0) by decide, if_false, if_true]
    have hnum : r.id = [] ∨ (num? r.id).isSome = true := by
      unfold rtRegOk at hg
      rw [e] at hg
      simpa using hg
    have hflag : (flagId? r.id).isSome = true := by
      unfold flagId?
      split
      · rfl
      · unfold digitsVal?
        rename_i hne
        rw [if_pos ⟨hne, hid⟩]
        rfl
    have hok : hashOk (asc "Flag") r.id (utoa r.value) = true := by
      unfold hashOk
      rw [if_pos rfl, num_utoa _ hv']
      cases hf : flagId? r.id with
      | none => rw [hf] at hflag; exact absurd hflag (by simp)
      | some _ =>
        rcases hnum with h | h
        · simp [h]
        · simp [h]
    have h61 : (61 : UInt8) ∉ r.id := all_not_mem _ r.id 61 hid (by decide)
    have h10 : (10 : UInt8) ∉ r.id := all_not_mem _ r.id 10 hid (by decide)
    refine Dom.single' ?_ (classify_hash O (asc "Flag") (asc "Flag#") r.id (utoa r.value) (by decide) (by decide)
      (by decide) (by decide) h61 (by decide) (by nolf) hok)
    rw [read_hash' O (asc "Flag") (asc "Flag#") r.id _ (by decide) (by decide) (by decide) (by decide) h61]
    unfold readHash
    rw [if_neg (by decide), if_neg (by decide), if_neg (by decide), if_neg (by decide), if_neg (by decide),
      if_neg (by decide), if_neg (by decide), if_neg (by decide), if_pos rfl]
    exact ⟨_, rfl⟩
  · rw [e] at hid ⊢
    simp only [show ¬ ((2 : Int) = 1) by decide, if_false] at hid
    simp only [show ¬ ((2 : Int) = 0) by decide, show ¬ ((2 : Int) = 1) by decide, if_false, if_true]
    exact Dom.single
      (read_regPlain O (asc "Shift") (asc "Shift") r.id .shift r.value hv' (by decide) (by decide) (by decide) (by decide)
        hid (by decide) (by decide) (regKey_shift r.id hid) rfl)
      (classify_reg O (asc "Shift") (asc "Shift") r.id .shift r.value hv' rfl (by decide) (by decide) (by decide) (by decide) hid (by decide)
        (regKey_shift r.id hid))
  · rw [e] at hid ⊢
    simp only [show ¬ ((3 : Int) = 1) by decide, if_false] at hid
    simp only [show ¬ ((3 : Int) = 0) by decide, show ¬ ((3 : Int) = 1) by decide, show ¬ ((3 : Int) = 2) by decide, if_false, if_true]
    exact Dom.single
      (read_regPlain O (asc "State") (asc "State") r.id .state r.value hv' (by decide) (by decide) (by decide) (by decide)
        hid (by decide) (by decide) (regKey_state r.id hid) rfl)
      (classify_reg O (asc "State") (asc "State") r.id .state r.value hv' rfl (by decide) (by decide) (by decide) (by decide) hid (by decide)
        (regKey_state r.id hid))

end RawPanelVerif.EncDom
