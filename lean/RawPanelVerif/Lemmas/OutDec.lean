import RawPanelVerif.Lemmas.OutCaps
/-! Decoder-model lemmas (C04): numerals as digit strings, the event matcher on well-formed shapes. -/
namespace RawPanelVerif.OutLemmas
open RawPanelVerif RawPanelVerif.Bytes RawPanelVerif.MsgOut RawPanelVerif.EncOut RawPanelVerif.DecOut
open RawPanelVerif.Spec.Out

/-! ### numerals as arbitrary digit strings -/

/-- a `num` of the grammar: non-empty digits with value < 2^32 -/
def IsNum (ds : Bytes) : Prop := ds ≠ [] ∧ ds.all isDigit = true ∧ natOfDigits ds ≤ u32Max

theorem readNum_some (ds : Bytes) (n : Nat) (h : readNum ds = some n) : IsNum ds ∧ n = natOfDigits ds := by
  unfold readNum at h
  split at h
  · rename_i hc; injection h with h; exact ⟨⟨hc.1, by simpa using hc.2.1, hc.2.2⟩, h.symm⟩
  · exact absurd h (by simp)

theorem readNum_of_isNum (ds : Bytes) (h : IsNum ds) : readNum ds = some (natOfDigits ds) := by
  unfold readNum
  rw [if_pos ⟨h.1, by simpa using h.2.1, h.2.2⟩]

theorem digit_head (ds : Bytes) (h : ds.all isDigit = true) (b : UInt8) (bs : Bytes) (e : ds = b :: bs) : b ≠ 45 ∧ b ≠ 43 := by
  subst e
  simp only [List.all_cons, Bool.and_eq_true] at h
  have hb := h.1
  unfold isDigit at hb
  simp only [Bool.and_eq_true, decide_eq_true_eq] at hb
  constructor <;> (intro e; subst e; exact absurd hb.1 (by decide))

/-- `Atoi` of a digit string without overflow -/
theorem atoiV_digits (ds : Bytes) (hne : ds ≠ []) (hall : ds.all isDigit = true) (hle : (natOfDigits ds : Int) ≤ maxInt64) :
    atoiV ds = natOfDigits ds := by
  have hs : scanU 0 ds = .ok (natOfDigits ds) := by
    have := scanU_ok ds 0 hall (by
      have e : ds.foldl (fun acc b => 10 * acc + (b.toNat - 48)) 0 = natOfDigits ds := rfl
      rw [e]; unfold maxUint64; unfold maxInt64 at hle; omega)
    exact this
  cases hd : ds with
  | nil => exact absurd hd hne
  | cons b bs =>
    have hb := digit_head ds hall b bs hd
    unfold atoiV
    split
    · rename_i d heq; injection heq with e1 _; exact absurd e1 hb.1
    · rename_i d heq; injection heq with e1 _; exact absurd e1 hb.2
    · simp only []
      rw [← hd, if_neg hne, hs]
      unfold maxInt64 at *
      simp only [Bool.false_eq_true, if_false]
      split <;> omega

theorem intval_num (ds : Bytes) (h : IsNum ds) : intval ds = natOfDigits ds := by
  unfold intval
  exact atoiV_digits ds h.1 h.2.1 (by have := h.2.2; unfold u32Max at this; unfold maxInt64; omega)

theorem u32_num (ds : Bytes) (h : IsNum ds) : u32 (intval ds) = natOfDigits ds := by
  rw [intval_num ds h]
  have := h.2.2
  unfold u32Max at this
  unfold u32
  omega

theorem i32_small (n : Nat) (h : n < 2147483648) : i32 (n : Int) = n := by
  unfold i32; simp only []; split <;> omega

theorem isNum_no (ds : Bytes) (h : IsNum ds) (c : UInt8) (hc : isDigit c = false) : c ∉ ds := by
  intro hm
  have := h.2.1
  rw [List.all_eq_true] at this
  have := this c hm
  rw [hc] at this; exact absurd this (by decide)

/-! ### the model's event matcher on well-formed shapes -/

theorem spanP_digits (ds r : Bytes) (hall : ds.all isDigit = true) (hr : ∀ c cs, r = c :: cs → isDigit c = false) :
    spanP isDigit (ds ++ r) = (ds, r) :=
  spanP_append isDigit ds r (by rw [List.all_eq_true] at hall; exact hall) hr

theorem takeDot_dot (r : Bytes) : takeDot (46 :: r) = some ([46], r) := by
  unfold takeDot
  simp [runeLen]

/-- `matchCmd` on `HWC#<ids>=<tail>` -/
theorem matchCmd_plain (kinds : List Bytes) (ids t : Bytes) (hid : IsNum ids) (k g5 v : Bytes)
    (ht : matchTail kinds t = some (k, g5, v)) :
    matchCmd kinds (kHWC ++ ids ++ 61 :: t) = some ⟨ids, [], [], k, g5, v⟩ := by
  unfold matchCmd
  rw [List.append_assoc, stripPrefix_append]
  try simp only []
  rw [spanP_digits ids (61 :: t) hid.2.1 (by intro c cs e; injection e with e _; subst e; decide)]
  try simp only []
  rw [if_neg hid.1, ht]

/-- `matchCmd` on `HWC#<ids>.<eds>=<tail>` -/
theorem matchCmd_edge (kinds : List Bytes) (ids eds t : Bytes) (hid : IsNum ids) (he : IsNum eds) (k g5 v : Bytes)
    (ht : matchTail kinds t = some (k, g5, v)) :
    matchCmd kinds (kHWC ++ ids ++ 46 :: (eds ++ 61 :: t)) = some ⟨ids, 46 :: eds, eds, k, g5, v⟩ := by
  unfold matchCmd
  rw [List.append_assoc, stripPrefix_append]
  try simp only []
  rw [spanP_digits ids (46 :: (eds ++ 61 :: t)) hid.2.1 (by intro c cs e; injection e with e _; subst e; decide)]
  try simp only []
  rw [if_neg hid.1]
  try simp only []
  rw [takeDot_dot]
  try simp only []
  rw [spanP_digits eds (61 :: t) he.2.1 (by intro c cs e; injection e with e _; subst e; decide)]
  try simp only []
  rw [if_neg he.1, ht]
  rfl

theorem matchTail_Down : matchTail kindsRepaired (asc "Down") = some (asc "Down", [], []) := by decide
theorem matchTail_Up : matchTail kindsRepaired (asc "Up") = some (asc "Up", [], []) := by decide
theorem matchTail_Press : matchTail kindsRepaired (asc "Press") = some (asc "Press", [], []) := by decide


theorem kHWC_lit : kHWC = [72, 87, 67, 35] := by decide
theorem asc_ping : asc "ping" = [112, 105, 110, 103] := by decide
theorem asc_ack : asc "ack" = [97, 99, 107] := by decide
theorem asc_nack : asc "nack" = [110, 97, 99, 107] := by decide
theorem asc_BSY : asc "BSY" = [66, 83, 89] := by decide
theorem asc_RDY : asc "RDY" = [82, 68, 89] := by decide
theorem asc_list : asc "list" = [108, 105, 115, 116] := by decide

theorem flowOfWord_hwc (r : Bytes) : flowOfWord (kHWC ++ r) = none := by
  unfold flowOfWord
  rw [kHWC_lit, asc_ping, asc_ack, asc_nack, asc_BSY, asc_RDY, asc_list]
  simp

/-- the event branch of the decoder for a line starting with `HWC#` that the event regex matches -/
theorem decLine_hwc (V : Variant) (o : OutOracle) (r : Bytes) (m : CmdM) (hm : matchCmd V.kinds (kHWC ++ r) = some m) :
    decLine V o (kHWC ++ r) = decEvent m.id m.edge m.kind m.val := by
  unfold decLine
  rw [if_neg (by rw [kHWC_lit]; simp), flowOfWord_hwc, hm]

theorem intval_nil : intval [] = 0 := by decide

/-- optional edge suffix `.digits` and its value -/
def edgeText : Option Bytes → Bytes | none => [] | some e => 46 :: e
def edgeVal : Option Bytes → Int | none => 0 | some e => (natOfDigits e : Int)
def EdgeOk : Option Bytes → Prop | none => True | some e => IsNum e ∧ natOfDigits e < 2147483648

/-- `HWC#id=Down|Up|Press` and `HWC#id.edge=Down|Up|Press` decode to the binary event(s) -/
theorem decLine_binary (o : OutOracle) (ids : Bytes) (hid : IsNum ids) (eds : Option Bytes) (he : EdgeOk eds) (w : Bytes)
    (hw : w = asc "Down" ∨ w = asc "Up" ∨ w = asc "Press") :
    decLine repaired o (kHWC ++ ids ++ edgeText eds ++ 61 :: w) =
      some { events := if w = asc "Press" then [binEv (natOfDigits ids) true (edgeVal eds), binEv (natOfDigits ids) false (edgeVal eds)]
                       else [binEv (natOfDigits ids) (w == asc "Down") (edgeVal eds)] } := by
  have ht : matchTail kindsRepaired w = some (w, [], []) := by
    rcases hw with h | h | h <;> subst h <;> decide
  cases eds with
  | none =>
    simp only [edgeText, edgeVal, List.append_nil]
    rw [List.append_assoc, decLine_hwc repaired o _ _ (by
      have := matchCmd_plain kindsRepaired ids w hid w [] [] ht
      rwa [List.append_assoc] at this)]
    unfold decEvent
    simp only [u32_num ids hid, intval_nil]
    rcases hw with h | h | h <;> subst h <;> simp [i32] <;> decide
  | some e =>
    obtain ⟨hen, hlt⟩ := he
    simp only [edgeText, edgeVal]
    rw [List.append_assoc, List.append_assoc, decLine_hwc repaired o _ _ (by
      have := matchCmd_edge kindsRepaired ids e w hid hen w [] [] ht
      rw [List.append_assoc] at this
      exact this)]
    unfold decEvent
    simp only [u32_num ids hid, intval_num e hen, i32_small _ hlt]
    rcases hw with h | h | h <;> subst h <;> simp <;> decide

end RawPanelVerif.OutLemmas
