import RawPanelVerif.Model.SvgIcon
import RawPanelVerif.Spec.SvgSpec
/-!
Helper lemmas for C15: whatever `escapeText` writes is accepted by the Spec's recogniser of attribute-value bodies and
element content (`Spec.Svg.scanTo`), for **every** byte string; hence the text `printNode` prints for any node is
accepted by `Spec.Svg.printedOk`.

Method: `escapeText` emits one *unit* per decoded rune (an escape such as `&#34;`, the three bytes of U+FFFD, or the
rune's own bytes).  Every unit takes the recogniser from its start state back to its start state without meeting a
delimiter (`walk`), and contains no `>`.
-/
namespace RawPanelVerif.Topo.Svg
open RawPanelVerif RawPanelVerif.Topo

/-- stepping through `u` from `st` without meeting the delimiter in the start state -/
def walk (stop : Nat) : Spec.Svg.CS → Str → Option Spec.Svg.CS
  | st, [] => some st
  | st, c :: r =>
    if st = .start ∧ c.toNat = stop then none
    else match Spec.Svg.cstep st c with
      | none => none
      | some st' => walk stop st' r

theorem walk_cons_of_step {stop : Nat} {st st' : Spec.Svg.CS} {c : UInt8} (r : Str)
    (hstop : ¬ (st = .start ∧ c.toNat = stop)) (hs : Spec.Svg.cstep st c = some st') :
    walk stop st (c :: r) = walk stop st' r := by
  simp only [walk, hstop, if_false, hs]

theorem scanTo_append_walk (stop : Nat) (u : Str) : ∀ (st st' : Spec.Svg.CS) (x : Str), walk stop st u = some st' →
    Spec.Svg.scanTo stop st (u ++ x) = (Spec.Svg.scanTo stop st' x).map (fun p => (u ++ p.1, p.2)) := by
  induction u with
  | nil =>
    intro st st' x h
    simp only [walk, Option.some.injEq] at h
    subst h
    simp
  | cons c r ih =>
    intro st st' x h
    simp only [walk] at h
    by_cases hstop : st = .start ∧ c.toNat = stop
    · simp [hstop] at h
    · simp only [hstop, if_false] at h
      cases hs : Spec.Svg.cstep st c with
      | none => simp [hs] at h
      | some st1 =>
        simp only [hs] at h
        simp only [List.cons_append, Spec.Svg.scanTo, hstop, if_false, hs, ih st1 st' x h, Option.map_map]
        rfl

/-! ## `cstep` by byte class -/

theorem cstep_ascii {c : UInt8} (h : c.toNat < 0x80) (h1 : c.toNat ≠ 60) (h2 : c.toNat ≠ 38)
    (h3 : Spec.Svg.isChar c.toNat = true) : Spec.Svg.cstep .start c = some .start := by
  simp only [Spec.Svg.cstep, h1, h2, h, h3, if_true, if_false]

theorem cstep_lead2 {c : UInt8} (h : 0xC2 ≤ c.toNat) (h' : c.toNat < 0xE0) :
    Spec.Svg.cstep .start c = some (.u 0 0x80 0xBF) := by
  have a1 : c.toNat ≠ 60 := by omega
  have a2 : c.toNat ≠ 38 := by omega
  have a3 : ¬ c.toNat < 0x80 := by omega
  have a4 : ¬ c.toNat < 0xC2 := by omega
  simp only [Spec.Svg.cstep, a1, a2, a3, a4, h', if_true, if_false]

theorem cstep_lead3 {c : UInt8} (h : 0xE0 ≤ c.toNat) (h' : c.toNat < 0xF0) (hef : c.toNat ≠ 0xEF) :
    Spec.Svg.cstep .start c
      = some (.u 1 (if c.toNat = 0xE0 then 0xA0 else 0x80) (if c.toNat = 0xED then 0x9F else 0xBF)) := by
  have a1 : c.toNat ≠ 60 := by omega
  have a2 : c.toNat ≠ 38 := by omega
  have a3 : ¬ c.toNat < 0x80 := by omega
  have a4 : ¬ c.toNat < 0xC2 := by omega
  have a5 : ¬ c.toNat < 0xE0 := by omega
  by_cases e0 : c.toNat = 0xE0
  · simp (config := { decide := true }) only [Spec.Svg.cstep, e0, if_true, if_false]
  · by_cases ed : c.toNat = 0xED
    · simp (config := { decide := true }) only [Spec.Svg.cstep, ed, if_true, if_false]
    · simp only [Spec.Svg.cstep, a1, a2, a3, a4, a5, e0, ed, hef, h', if_true, if_false]

theorem cstep_leadEF {c : UInt8} (h : c.toNat = 0xEF) : Spec.Svg.cstep .start c = some .ef := by
  simp (config := { decide := true }) only [Spec.Svg.cstep, h, if_true, if_false]

theorem cstep_lead4 {c : UInt8} (h : 0xF0 ≤ c.toNat) (h' : c.toNat < 0xF5) :
    Spec.Svg.cstep .start c
      = some (.u 2 (if c.toNat = 0xF0 then 0x90 else 0x80) (if c.toNat = 0xF4 then 0x8F else 0xBF)) := by
  by_cases e0 : c.toNat = 0xF0
  · simp (config := { decide := true }) only [Spec.Svg.cstep, e0, if_true, if_false]
  · by_cases e4 : c.toNat = 0xF4
    · simp (config := { decide := true }) only [Spec.Svg.cstep, e4, if_true, if_false]
    · have a1 : c.toNat ≠ 60 := by omega
      have a2 : c.toNat ≠ 38 := by omega
      have a3 : ¬ c.toNat < 0x80 := by omega
      have a4 : ¬ c.toNat < 0xC2 := by omega
      have a5 : ¬ c.toNat < 0xE0 := by omega
      have a6 : c.toNat ≠ 0xE0 := by omega
      have a7 : c.toNat ≠ 0xED := by omega
      have a8 : c.toNat ≠ 0xEF := by omega
      have a9 : ¬ c.toNat < 0xF0 := by omega
      have a10 : c.toNat < 0xF4 := by omega
      simp only [Spec.Svg.cstep, a1, a2, a3, a4, a5, a6, a7, a8, a9, a10, e0, e4, if_true, if_false]

theorem cstep_u_succ {c : UInt8} {m lo hi : Nat} (h : lo ≤ c.toNat ∧ c.toNat ≤ hi) :
    Spec.Svg.cstep (.u (m + 1) lo hi) c = some (.u m 0x80 0xBF) := by
  simp only [Spec.Svg.cstep, h, and_self, if_true]

theorem cstep_u_zero {c : UInt8} {lo hi : Nat} (h : lo ≤ c.toNat ∧ c.toNat ≤ hi) :
    Spec.Svg.cstep (.u 0 lo hi) c = some .start := by
  simp only [Spec.Svg.cstep, h, and_self, if_true]

/-! ## units -/

/-- a unit: passes the recogniser start-to-start for both delimiters, and has no `>` -/
structure UnitOk (u : Str) : Prop where
  w34 : walk 34 .start u = some .start
  w60 : walk 60 .start u = some .start
  no62 : ∀ c ∈ u, c ≠ 62

theorem unit_quot : UnitOk escQuot := ⟨by decide, by decide, by decide⟩
theorem unit_apos : UnitOk escApos := ⟨by decide, by decide, by decide⟩
theorem unit_amp : UnitOk escAmp := ⟨by decide, by decide, by decide⟩
theorem unit_lt : UnitOk escLT := ⟨by decide, by decide, by decide⟩
theorem unit_gt : UnitOk escGT := ⟨by decide, by decide, by decide⟩
theorem unit_tab : UnitOk escTab := ⟨by decide, by decide, by decide⟩
theorem unit_nl : UnitOk escNL := ⟨by decide, by decide, by decide⟩
theorem unit_cr : UnitOk escCR := ⟨by decide, by decide, by decide⟩
theorem unit_fffd : UnitOk escFFFD := ⟨by decide, by decide, by decide⟩

theorem ne62_of_toNat {c : UInt8} (h : c.toNat ≠ 62) : c ≠ 62 := by
  intro e; subst e; exact h rfl

/-- a rune copied as it is: one ASCII byte -/
theorem unit_ascii {c : UInt8} (h : c.toNat < 0x80) (h34 : c.toNat ≠ 34) (h38 : c.toNat ≠ 38) (h60 : c.toNat ≠ 60)
    (h62 : c.toNat ≠ 62) (hc : Spec.Svg.isChar c.toNat = true) : UnitOk [c] := by
  refine ⟨?_, ?_, ?_⟩
  · rw [walk_cons_of_step _ (by simp [h34]) (cstep_ascii h h60 h38 hc)]; rfl
  · rw [walk_cons_of_step _ (by simp [h60]) (cstep_ascii h h60 h38 hc)]; rfl
  · intro x hx
    simp only [List.mem_cons, List.not_mem_nil, or_false] at hx
    subst hx; exact ne62_of_toNat h62

theorem unit_two {c0 c1 : UInt8} (h0 : 0xC2 ≤ c0.toNat) (h0' : c0.toNat < 0xE0)
    (h1 : 0x80 ≤ c1.toNat ∧ c1.toNat ≤ 0xBF) : UnitOk [c0, c1] := by
  have s34 : ¬ ((Spec.Svg.CS.start = .start) ∧ c0.toNat = 34) := by omega
  have s60 : ¬ ((Spec.Svg.CS.start = .start) ∧ c0.toNat = 60) := by omega
  refine ⟨?_, ?_, ?_⟩
  · rw [walk_cons_of_step _ s34 (cstep_lead2 h0 h0'), walk_cons_of_step _ (by simp) (cstep_u_zero h1)]; rfl
  · rw [walk_cons_of_step _ s60 (cstep_lead2 h0 h0'), walk_cons_of_step _ (by simp) (cstep_u_zero h1)]; rfl
  · intro x hx
    simp only [List.mem_cons, List.not_mem_nil, or_false] at hx
    rcases hx with rfl | rfl <;> apply ne62_of_toNat <;> omega

theorem unit_three {c0 c1 c2 : UInt8} (h0 : 0xE0 ≤ c0.toNat) (h0' : c0.toNat < 0xF0)
    (h1 : (if c0.toNat = 0xE0 then 0xA0 else 0x80) ≤ c1.toNat ∧ c1.toNat ≤ (if c0.toNat = 0xED then 0x9F else 0xBF))
    (h2 : 0x80 ≤ c2.toNat ∧ c2.toNat ≤ 0xBF)
    (hch : ¬ (c0.toNat = 0xEF ∧ c1.toNat = 0xBF ∧ 0xBD < c2.toNat)) : UnitOk [c0, c1, c2] := by
  have s34 : ¬ ((Spec.Svg.CS.start = .start) ∧ c0.toNat = 34) := by omega
  have s60 : ¬ ((Spec.Svg.CS.start = .start) ∧ c0.toNat = 60) := by omega
  have hno : ∀ x ∈ [c0, c1, c2], x ≠ 62 := by
    intro x hx
    simp only [List.mem_cons, List.not_mem_nil, or_false] at hx
    have b1 : 0x80 ≤ c1.toNat := by
      have := h1.1; split at this <;> omega
    rcases hx with rfl | rfl | rfl <;> apply ne62_of_toNat <;> omega
  by_cases hef : c0.toNat = 0xEF
  · have g1 : 0x80 ≤ c1.toNat ∧ c1.toNat ≤ 0xBF := by
      have := h1; simp (config := { decide := true }) only [hef, if_false] at this; exact this
    by_cases hbf : c1.toNat = 0xBF
    · have e1 : Spec.Svg.cstep .ef c1 = some .efbf := by simp only [Spec.Svg.cstep, hbf, if_true]
      have e2 : Spec.Svg.cstep .efbf c2 = some .start := by
        have : 0x80 ≤ c2.toNat ∧ c2.toNat ≤ 0xBD := by omega
        simp only [Spec.Svg.cstep, this, and_self, if_true]
      refine ⟨?_, ?_, hno⟩
      · rw [walk_cons_of_step _ s34 (cstep_leadEF hef), walk_cons_of_step _ (by simp) e1,
          walk_cons_of_step _ (by simp) e2]; rfl
      · rw [walk_cons_of_step _ s60 (cstep_leadEF hef), walk_cons_of_step _ (by simp) e1,
          walk_cons_of_step _ (by simp) e2]; rfl
    · have e1 : Spec.Svg.cstep .ef c1 = some (.u 0 0x80 0xBF) := by
        have : 0x80 ≤ c1.toNat ∧ c1.toNat ≤ 0xBE := by omega
        simp only [Spec.Svg.cstep, hbf, this, and_self, if_true, if_false]
      refine ⟨?_, ?_, hno⟩
      · rw [walk_cons_of_step _ s34 (cstep_leadEF hef), walk_cons_of_step _ (by simp) e1,
          walk_cons_of_step _ (by simp) (cstep_u_zero h2)]; rfl
      · rw [walk_cons_of_step _ s60 (cstep_leadEF hef), walk_cons_of_step _ (by simp) e1,
          walk_cons_of_step _ (by simp) (cstep_u_zero h2)]; rfl
  · refine ⟨?_, ?_, hno⟩
    · rw [walk_cons_of_step _ s34 (cstep_lead3 h0 h0' hef), walk_cons_of_step _ (by simp) (cstep_u_succ h1),
        walk_cons_of_step _ (by simp) (cstep_u_zero h2)]; rfl
    · rw [walk_cons_of_step _ s60 (cstep_lead3 h0 h0' hef), walk_cons_of_step _ (by simp) (cstep_u_succ h1),
        walk_cons_of_step _ (by simp) (cstep_u_zero h2)]; rfl

theorem unit_four {c0 c1 c2 c3 : UInt8} (h0 : 0xF0 ≤ c0.toNat) (h0' : c0.toNat < 0xF5)
    (h1 : (if c0.toNat = 0xF0 then 0x90 else 0x80) ≤ c1.toNat ∧ c1.toNat ≤ (if c0.toNat = 0xF4 then 0x8F else 0xBF))
    (h2 : 0x80 ≤ c2.toNat ∧ c2.toNat ≤ 0xBF) (h3 : 0x80 ≤ c3.toNat ∧ c3.toNat ≤ 0xBF) : UnitOk [c0, c1, c2, c3] := by
  have s34 : ¬ ((Spec.Svg.CS.start = .start) ∧ c0.toNat = 34) := by omega
  have s60 : ¬ ((Spec.Svg.CS.start = .start) ∧ c0.toNat = 60) := by omega
  refine ⟨?_, ?_, ?_⟩
  · rw [walk_cons_of_step _ s34 (cstep_lead4 h0 h0'), walk_cons_of_step _ (by simp) (cstep_u_succ h1),
      walk_cons_of_step _ (by simp) (cstep_u_succ h2), walk_cons_of_step _ (by simp) (cstep_u_zero h3)]; rfl
  · rw [walk_cons_of_step _ s60 (cstep_lead4 h0 h0'), walk_cons_of_step _ (by simp) (cstep_u_succ h1),
      walk_cons_of_step _ (by simp) (cstep_u_succ h2), walk_cons_of_step _ (by simp) (cstep_u_zero h3)]; rfl
  · intro x hx
    simp only [List.mem_cons, List.not_mem_nil, or_false] at hx
    have b1 : 0x80 ≤ c1.toNat := by
      have := h1.1; split at this <;> omega
    rcases hx with rfl | rfl | rfl | rfl <;> apply ne62_of_toNat <;> omega

/-! ## every unit `escapeText` emits is good -/

theorem inCharRange_eq (r : Nat) : inCharRange r = Spec.Svg.isChar r := rfl

/-- the rune decoded at the head of a non-empty string, and what is written for it -/
theorem unit_ok (c0 : UInt8) (r : Str) :
    UnitOk (escOf (decodeRune (c0 :: r)).1 (decodeRune (c0 :: r)).2 (c0 :: r)) := by
  by_cases a0 : c0.toNat < 0x80
  · -- ASCII
    have hd : decodeRune (c0 :: r) = (c0.toNat, 1) := by simp only [decodeRune, a0, if_true]
    rw [hd]
    simp only [escOf]
    split; · exact unit_quot
    split; · exact unit_apos
    split; · exact unit_amp
    split; · exact unit_lt
    split; · exact unit_gt
    split; · exact unit_tab
    split; · exact unit_nl
    split; · exact unit_cr
    split; · exact unit_fffd
    rename_i h34 _ h38 h60 h62 _ _ _ hch
    simp only [Bool.or_eq_true, Bool.not_eq_true', Bool.and_eq_true, decide_eq_true_eq, not_or] at hch
    have hc : Spec.Svg.isChar c0.toNat = true := by
      rw [← inCharRange_eq]
      cases h : inCharRange c0.toNat with
      | true => rfl
      | false => exact absurd h hch.1
    exact unit_ascii a0 h34 h38 h60 h62 hc
  · by_cases a1 : c0.toNat < 0xC2
    · have hd : decodeRune (c0 :: r) = (0xFFFD, 1) := by simp only [decodeRune, a0, a1, if_true, if_false]
      rw [hd]; exact unit_fffd
    · by_cases a2 : c0.toNat < 0xE0
      · -- two bytes
        cases r with
        | nil =>
          have hd : decodeRune [c0] = (0xFFFD, 1) := by simp only [decodeRune, a0, a1, a2, if_true, if_false]
          rw [hd]; exact unit_fffd
        | cons c1 r1 =>
          by_cases g1 : 0x80 ≤ c1.toNat ∧ c1.toNat ≤ 0xBF
          · have hd : decodeRune (c0 :: c1 :: r1) = ((c0.toNat % 32) * 64 + c1.toNat % 64, 2) := by
              simp only [decodeRune, a0, a1, a2, g1, and_self, if_true, if_false]
            rw [hd]
            have hr : 0x80 ≤ (c0.toNat % 32) * 64 + c1.toNat % 64 ∧ (c0.toNat % 32) * 64 + c1.toNat % 64 ≤ 0x7FF := by omega
            generalize (c0.toNat % 32) * 64 + c1.toNat % 64 = rn at hr
            have hin : inCharRange rn = true := by
              simp only [inCharRange, Bool.or_eq_true, Bool.and_eq_true, decide_eq_true_eq]; omega
            have e : escOf rn 2 (c0 :: c1 :: r1) = [c0, c1] := by
              simp only [escOf, hin]
              rw [if_neg (by omega), if_neg (by omega), if_neg (by omega), if_neg (by omega), if_neg (by omega),
                if_neg (by omega), if_neg (by omega), if_neg (by omega)]
              simp
            rw [e]
            exact unit_two (by omega) a2 g1
          · have hd : decodeRune (c0 :: c1 :: r1) = (0xFFFD, 1) := by
              simp only [decodeRune, a0, a1, a2, g1, if_true, if_false]
            rw [hd]; exact unit_fffd
      · by_cases a3 : c0.toNat < 0xF0
        · -- three bytes
          by_cases g : ∃ c1 c2 r2, r = c1 :: c2 :: r2 ∧
              (if c0.toNat = 0xE0 then 0xA0 else 0x80) ≤ c1.toNat ∧ c1.toNat ≤ (if c0.toNat = 0xED then 0x9F else 0xBF) ∧
              0x80 ≤ c2.toNat ∧ c2.toNat ≤ 0xBF
          · obtain ⟨c1, c2, r2, rfl, g1, g1', g2, g2'⟩ := g
            have hd : decodeRune (c0 :: c1 :: c2 :: r2)
                = ((c0.toNat % 16) * 4096 + (c1.toNat % 64) * 64 + c2.toNat % 64, 3) := by
              simp only [decodeRune, a0, a1, a2, a3, g1, g1', g2, g2', and_self, if_true, if_false]
            rw [hd]
            have b1 : 0x80 ≤ c1.toNat ∧ c1.toNat ≤ 0xBF := by
              constructor
              · split at g1 <;> omega
              · split at g1' <;> omega
            have hr : 0x800 ≤ (c0.toNat % 16) * 4096 + (c1.toNat % 64) * 64 + c2.toNat % 64 := by
              split at g1 <;> omega
            by_cases hbad : c0.toNat = 0xEF ∧ c1.toNat = 0xBF ∧ 0xBD < c2.toNat
            · -- U+FFFE, U+FFFF: not in the character range
              have hin : inCharRange ((c0.toNat % 16) * 4096 + (c1.toNat % 64) * 64 + c2.toNat % 64) = false := by
                obtain ⟨e0, e1, e2⟩ := hbad
                have : (c0.toNat % 16) * 4096 + (c1.toNat % 64) * 64 + c2.toNat % 64 = 0xFFFE ∨
                    (c0.toNat % 16) * 4096 + (c1.toNat % 64) * 64 + c2.toNat % 64 = 0xFFFF := by omega
                rcases this with e | e <;> rw [e] <;> decide
              generalize (c0.toNat % 16) * 4096 + (c1.toNat % 64) * 64 + c2.toNat % 64 = rn at hr hin
              have e : escOf rn 3 (c0 :: c1 :: c2 :: r2) = escFFFD := by
                simp only [escOf, hin]
                rw [if_neg (by omega), if_neg (by omega), if_neg (by omega), if_neg (by omega), if_neg (by omega),
                  if_neg (by omega), if_neg (by omega), if_neg (by omega)]
                simp
              rw [e]; exact unit_fffd
            · have hin : inCharRange ((c0.toNat % 16) * 4096 + (c1.toNat % 64) * 64 + c2.toNat % 64) = true := by
                simp only [inCharRange, Bool.or_eq_true, Bool.and_eq_true, decide_eq_true_eq]
                split at g1' <;> omega
              generalize (c0.toNat % 16) * 4096 + (c1.toNat % 64) * 64 + c2.toNat % 64 = rn at hr hin
              have e : escOf rn 3 (c0 :: c1 :: c2 :: r2) = [c0, c1, c2] := by
                simp only [escOf, hin]
                rw [if_neg (by omega), if_neg (by omega), if_neg (by omega), if_neg (by omega), if_neg (by omega),
                  if_neg (by omega), if_neg (by omega), if_neg (by omega)]
                simp
              rw [e]
              exact unit_three (by omega) a3 ⟨g1, g1'⟩ ⟨g2, g2'⟩ hbad
          · have hd : decodeRune (c0 :: r) = (0xFFFD, 1) := by
              cases r with
              | nil => simp only [decodeRune, a0, a1, a2, a3, if_true, if_false]
              | cons c1 r1 =>
                cases r1 with
                | nil => simp only [decodeRune, a0, a1, a2, a3, if_true, if_false]
                | cons c2 r2 =>
                  have : ¬ ((if c0.toNat = 0xE0 then 0xA0 else 0x80) ≤ c1.toNat ∧
                      c1.toNat ≤ (if c0.toNat = 0xED then 0x9F else 0xBF) ∧ 0x80 ≤ c2.toNat ∧ c2.toNat ≤ 0xBF) :=
                    fun h => g ⟨c1, c2, r2, rfl, h⟩
                  simp only [decodeRune, a0, a1, a2, a3, this, if_true, if_false]
            rw [hd]; exact unit_fffd
        · by_cases a4 : c0.toNat < 0xF5
          · -- four bytes
            by_cases g : ∃ c1 c2 c3 r3, r = c1 :: c2 :: c3 :: r3 ∧
                (if c0.toNat = 0xF0 then 0x90 else 0x80) ≤ c1.toNat ∧ c1.toNat ≤ (if c0.toNat = 0xF4 then 0x8F else 0xBF) ∧
                0x80 ≤ c2.toNat ∧ c2.toNat ≤ 0xBF ∧ 0x80 ≤ c3.toNat ∧ c3.toNat ≤ 0xBF
            · obtain ⟨c1, c2, c3, r3, rfl, g1, g1', g2, g2', g3, g3'⟩ := g
              have hd : decodeRune (c0 :: c1 :: c2 :: c3 :: r3)
                  = ((c0.toNat % 8) * 262144 + (c1.toNat % 64) * 4096 + (c2.toNat % 64) * 64 + c3.toNat % 64, 4) := by
                simp only [decodeRune, a0, a1, a2, a3, a4, g1, g1', g2, g2', g3, g3', and_self, if_true, if_false]
              rw [hd]
              have hr : 0x10000 ≤ (c0.toNat % 8) * 262144 + (c1.toNat % 64) * 4096 + (c2.toNat % 64) * 64 + c3.toNat % 64 ∧
                  (c0.toNat % 8) * 262144 + (c1.toNat % 64) * 4096 + (c2.toNat % 64) * 64 + c3.toNat % 64 ≤ 0x10FFFF := by
                split at g1 <;> split at g1' <;> omega
              generalize (c0.toNat % 8) * 262144 + (c1.toNat % 64) * 4096 + (c2.toNat % 64) * 64 + c3.toNat % 64 = rn at hr
              have hin : inCharRange rn = true := by
                simp only [inCharRange, Bool.or_eq_true, Bool.and_eq_true, decide_eq_true_eq]; omega
              have e : escOf rn 4 (c0 :: c1 :: c2 :: c3 :: r3) = [c0, c1, c2, c3] := by
                simp only [escOf, hin]
                rw [if_neg (by omega), if_neg (by omega), if_neg (by omega), if_neg (by omega), if_neg (by omega),
                  if_neg (by omega), if_neg (by omega), if_neg (by omega)]
                simp
              rw [e]
              exact unit_four (by omega) a4 ⟨g1, g1'⟩ ⟨g2, g2'⟩ ⟨g3, g3'⟩
            · have hd : decodeRune (c0 :: r) = (0xFFFD, 1) := by
                cases r with
                | nil => simp only [decodeRune, a0, a1, a2, a3, a4, if_true, if_false]
                | cons c1 r1 =>
                  cases r1 with
                  | nil => simp only [decodeRune, a0, a1, a2, a3, a4, if_true, if_false]
                  | cons c2 r2 =>
                    cases r2 with
                    | nil => simp only [decodeRune, a0, a1, a2, a3, a4, if_true, if_false]
                    | cons c3 r3 =>
                      have : ¬ ((if c0.toNat = 0xF0 then 0x90 else 0x80) ≤ c1.toNat ∧
                          c1.toNat ≤ (if c0.toNat = 0xF4 then 0x8F else 0xBF) ∧ 0x80 ≤ c2.toNat ∧ c2.toNat ≤ 0xBF ∧
                          0x80 ≤ c3.toNat ∧ c3.toNat ≤ 0xBF) :=
                        fun h => g ⟨c1, c2, c3, r3, rfl, h⟩
                      simp only [decodeRune, a0, a1, a2, a3, a4, this, if_true, if_false]
              rw [hd]; exact unit_fffd
          · have hd : decodeRune (c0 :: r) = (0xFFFD, 1) := by
              simp only [decodeRune, a0, a1, a2, a3, a4, if_false]
            rw [hd]; exact unit_fffd

/-! ## the whole escaped string -/

theorem scanTo_escapeFuel (stop : Nat) (hs : stop = 34 ∨ stop = 60) (d : UInt8) (hd : d.toNat = stop) (rest : Str) :
    ∀ (fuel : Nat) (s : Str),
      Spec.Svg.scanTo stop .start (escapeFuel fuel s ++ d :: rest) = some (escapeFuel fuel s, rest) := by
  have base : Spec.Svg.scanTo stop .start (d :: rest) = some ([], rest) := by
    simp only [Spec.Svg.scanTo, hd, and_self, if_true]
  intro fuel
  induction fuel with
  | zero => intro s; simpa [escapeFuel] using base
  | succ f ih =>
    intro s
    cases s with
    | nil => simpa [escapeFuel] using base
    | cons c0 r =>
      simp only [escapeFuel, List.append_assoc]
      have hu := unit_ok c0 r
      have hw : walk stop .start (escOf (decodeRune (c0 :: r)).1 (decodeRune (c0 :: r)).2 (c0 :: r)) = some .start := by
        rcases hs with rfl | rfl
        · exact hu.w34
        · exact hu.w60
      rw [scanTo_append_walk stop _ _ _ _ hw, ih]
      rfl

theorem no62_escapeFuel : ∀ (fuel : Nat) (s : Str), ∀ c ∈ escapeFuel fuel s, c ≠ 62 := by
  intro fuel
  induction fuel with
  | zero => intro s c hc; simp [escapeFuel] at hc
  | succ f ih =>
    intro s c hc
    cases s with
    | nil => simp [escapeFuel] at hc
    | cons c0 r =>
      simp only [escapeFuel, List.mem_append] at hc
      rcases hc with hc | hc
      · exact (unit_ok c0 r).no62 c hc
      · exact ih _ c hc

/-- an attribute value as printed is an `AttValue` body: the recogniser reads exactly it up to the closing quote -/
theorem scanTo_attr (v rest : Str) :
    Spec.Svg.scanTo 34 .start (escapeText v ++ 34 :: rest) = some (escapeText v, rest) :=
  scanTo_escapeFuel 34 (Or.inl rfl) 34 rfl rest _ _

/-- element content as printed: read exactly up to the `<` of the end tag -/
theorem scanTo_text (v rest : Str) :
    Spec.Svg.scanTo 60 .start (escapeText v ++ 60 :: rest) = some (escapeText v, rest) :=
  scanTo_escapeFuel 60 (Or.inr rfl) 60 rfl rest _ _

theorem noCDEnd_of_no62 (l : Str) (h : ∀ c ∈ l, c ≠ 62) : Spec.Svg.noCDEnd l = true := by
  induction l with
  | nil => rfl
  | cons c r ih =>
    simp only [Spec.Svg.noCDEnd, Bool.and_eq_true, Bool.not_eq_true', Bool.and_eq_false_iff]
    refine ⟨?_, ih (fun x hx => h x (List.mem_cons_of_mem _ hx))⟩
    right
    cases h2 : (r.take 2 == [93, 62]) with
    | false => rfl
    | true =>
      exfalso
      have e : r.take 2 = [93, 62] := by simpa using h2
      have hm : (62 : UInt8) ∈ r.take 2 := by rw [e]; simp
      exact h 62 (List.mem_cons_of_mem _ (List.mem_of_mem_take hm)) rfl

theorem noCDEnd_escape (v : Str) : Spec.Svg.noCDEnd (escapeText v) = true :=
  noCDEnd_of_no62 _ (no62_escapeFuel _ _)

/-! ## the printed element -/

theorem eat_append (p s : Str) : Spec.Svg.eat p (p ++ s) = some s := by
  induction p with
  | nil => cases s <;> rfl
  | cons a r ih => simp only [List.cons_append, Spec.Svg.eat, if_true, ih]

theorem eatAttrs_print (attrs : List (Str × Str)) (tail : Str) :
    Spec.Svg.eatAttrs (attrs.map (·.1)) (attrs.flatMap printAttr ++ tail) = some tail := by
  induction attrs with
  | nil => rfl
  | cons kv r ih =>
    have e : printAttr kv ++ (List.flatMap printAttr r ++ tail)
        = ([32] ++ kv.1 ++ [61, 34]) ++ (escapeText kv.2 ++ 34 :: (List.flatMap printAttr r ++ tail)) := by
      simp [printAttr, List.append_assoc]
    simp only [List.map_cons, List.flatMap_cons, Spec.Svg.eatAttrs]
    rw [List.append_assoc (printAttr kv), e, eat_append]
    simp only
    rw [scanTo_attr]
    exact ih

/-- the text the printer writes for **any** node (arbitrary byte strings as values and content) is accepted -/
theorem printedOk_printNode (n : Node) : Spec.Svg.printedOk n (printNode n) = true := by
  unfold Spec.Svg.printedOk printNode
  rw [List.append_assoc, eat_append]
  simp only
  rw [eatAttrs_print]
  simp only
  by_cases ht : n.text = []
  · simp [ht]
  · simp only [ht, if_false, List.append_assoc]
    rw [eat_append]
    simp only [List.cons_append, List.nil_append]
    rw [scanTo_text]
    simp [noCDEnd_escape]

end RawPanelVerif.Topo.Svg
