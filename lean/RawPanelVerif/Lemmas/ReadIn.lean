import RawPanelVerif.Lemmas.TotalIn
/-!
Generic lemmas for reading encoder output with the reference reader: numerals, cutting at `=` / `#`, the
`Reads` calculus (a block of lines that the reader turns into a block of effects, leaving the transfer state closed).
-/
namespace RawPanelVerif.ReadIn
open RawPanelVerif RawPanelVerif.Bytes RawPanelVerif.MsgIn RawPanelVerif.Model.In RawPanelVerif.InBits
open RawPanelVerif.Spec.In

/-! ## numerals -/

theorem utoa_eq (n : Nat) : utoa n = digitsOf n := by
  unfold utoa itoa
  rw [if_neg (by omega)]
  rfl

theorem digit_of_mem_digitsOf (n : Nat) (b : UInt8) (h : b ∈ digitsOf n) : isDigit b = true := by
  have := digitsOf_all_digit n
  rw [List.all_eq_true] at this
  exact this b h

theorem isDigit_range (b : UInt8) (h : isDigit b = true) : 48 ≤ b.toNat ∧ b.toNat ≤ 57 := by
  unfold isDigit at h
  simp only [Bool.and_eq_true, decide_eq_true_eq] at h
  exact ⟨UInt8.le_iff_toNat_le.mp h.1, UInt8.le_iff_toNat_le.mp h.2⟩

/-- a byte that is not a digit does not occur in a numeral -/
theorem not_mem_digitsOf (n : Nat) (b : UInt8) (hb : isDigit b = false) : b ∉ digitsOf n := by
  intro h
  rw [digit_of_mem_digitsOf n b h] at hb
  exact absurd hb (by simp)

theorem not_mem_utoa (n : Nat) (b : UInt8) (hb : isDigit b = false) : b ∉ utoa n := by
  rw [utoa_eq]; exact not_mem_digitsOf n b hb

theorem not_mem_itoa (z : Int) (b : UInt8) (hb : isDigit b = false) (h45 : b ≠ 45) : b ∉ itoa z := by
  unfold itoa
  split
  · intro h
    simp only [List.mem_cons] at h
    rcases h with h | h
    · exact h45 h
    · exact not_mem_digitsOf _ b hb h
  · exact not_mem_digitsOf _ b hb

theorem digitsVal_digitsOf (n : Nat) : digitsVal? (digitsOf n) = some n := by
  unfold digitsVal?
  rw [if_pos ⟨digitsOf_ne_nil n, digitsOf_all_digit n⟩, natOfDigits_digitsOf]

theorem num_utoa (n : Nat) (h : n < 4294967296) : num? (utoa n) = some n := by
  rw [utoa_eq]
  unfold num?
  rw [digitsVal_digitsOf]
  simp only [h, if_true]

theorem digitsOf_cons (n : Nat) : ∃ b bs, digitsOf n = b :: bs ∧ b ≠ 45 ∧ b ≠ 43 := by
  cases hd : digitsOf n with
  | nil => exact absurd hd (digitsOf_ne_nil n)
  | cons b bs => exact ⟨b, bs, rfl, digitsOf_head_digit n b (by rw [hd]; simp)⟩

theorem int_itoa (z : Int) (h : -4294967296 < z ∧ z < 4294967296) : int? (itoa z) = some z := by
  unfold itoa
  by_cases hz : z < 0
  · rw [if_pos hz]
    unfold int?
    simp only []
    have := num_utoa z.natAbs (by omega)
    rw [utoa_eq] at this
    rw [this]
    show some (-((z.natAbs : Nat) : Int)) = some z
    congr 1; omega
  · rw [if_neg hz]
    obtain ⟨b, bs, hd, hb, _⟩ := digitsOf_cons z.natAbs
    have := num_utoa z.natAbs (by omega)
    rw [utoa_eq] at this
    unfold int?
    rw [hd]
    split
    · rename_i r heq
      injection heq with e1 _
      exact absurd e1 hb
    · rw [← hd, this]
      show some (((z.natAbs : Nat) : Int)) = some z
      congr 1; omega

theorem mapM?_single {α β : Type} (f : α → Option β) (a : α) (b : β) (h : f a = some b) : mapM? f [a] = some [b] := by
  simp [mapM?, h]

theorem ids_utoa (n : Nat) (h : n < 4294967296) : ids? (utoa n) = some [n] := by
  unfold ids?
  rw [splitOn_nosep 44 (utoa n) (not_mem_utoa n 44 (by decide))]
  exact mapM?_single _ _ _ (num_utoa n h)

theorem forIds_utoa (n : Nat) (h : n < 4294967296) (f : Nat → Effect) : forIds (utoa n) f = [f n] := by
  unfold forIds
  rw [ids_utoa n h]
  rfl

/-! ## cutting -/

theorem cut_append (sep : UInt8) (k v : Bytes) (h : sep ∉ k) : cut sep (k ++ sep :: v) = some (k, v) := by
  induction k with
  | nil => simp [cut]
  | cons c cs ih =>
    have hc : c ≠ sep := fun e => h (by simp [e])
    have hcs : sep ∉ cs := fun e => h (by simp [e])
    simp [cut, hc, ih hcs]

theorem cut_none (sep : UInt8) (k : Bytes) (h : sep ∉ k) : cut sep k = none := by
  induction k with
  | nil => rfl
  | cons c cs ih =>
    have hc : c ≠ sep := fun e => h (by simp [e])
    have hcs : sep ∉ cs := fun e => h (by simp [e])
    simp [cut, hc, ih hcs]

/-- a line `key=value` whose key neither starts like JSON nor contains `=` -/
theorem readLine_kv (O : Oracles) (c : UInt8) (cs v : Bytes) (h1 : c ≠ 123) (h2 : c ≠ 91) (h3 : (61 : UInt8) ∉ c :: cs) :
    readLine O ((c :: cs) ++ 61 :: v) =
      (match cut 35 (c :: cs) with
       | some (fam, idsText) => readHash fam idsText v
       | none => .effects (readPlain O (c :: cs) v)) := by
  have hcut := cut_append 61 (c :: cs) v h3
  unfold readLine
  split
  · rename_i heq
    simp only [List.cons_append] at heq
    injection heq with e _
    exact absurd e h1
  · rename_i heq
    simp only [List.cons_append] at heq
    injection heq with e _
    exact absurd e h2
  · rw [hcut]
    rfl

/-! ## the `Reads` calculus -/

/-- `ls` is read as the effects `es`, whatever follows, starting and ending with no transfer open -/
def Reads (O : Oracles) (ls : List Bytes) (es : List Effect) : Prop :=
  ∀ rest, readFrom O none (ls ++ rest) = es ++ readFrom O none rest

theorem Reads.nil (O : Oracles) : Reads O [] [] := fun _ => rfl

theorem Reads.append {O : Oracles} {a b : List Bytes} {ea eb : List Effect} (ha : Reads O a ea) (hb : Reads O b eb) :
    Reads O (a ++ b) (ea ++ eb) := by
  intro rest
  rw [List.append_assoc, ha, hb, List.append_assoc]

theorem Reads.single {O : Oracles} {l : Bytes} {es : List Effect} (h : readLine O l = .effects es) : Reads O [l] es := by
  intro rest
  simp only [List.singleton_append, readFrom, h]

theorem Reads.flatMap {O : Oracles} {α : Type} (xs : List α) (f : α → List Bytes) (g : α → List Effect)
    (h : ∀ x ∈ xs, Reads O (f x) (g x)) : Reads O (xs.flatMap f) (xs.flatMap g) := by
  induction xs with
  | nil => exact Reads.nil O
  | cons x xs ih =>
    simp only [List.flatMap_cons]
    exact Reads.append (h x (by simp)) (ih (fun y hy => h y (by simp [hy])))

theorem Reads.result {O : Oracles} {ls : List Bytes} {es : List Effect} (h : Reads O ls es) : readInbound O ls = es := by
  have := h []
  simp only [List.append_nil, readFrom] at this
  exact this

/-! ## flattening is the identity on LF-free strings -/

theorem map_singleLine_id (ls : List Bytes) (h : ∀ l ∈ ls, (10 : UInt8) ∉ l) : ls.map Strip.singleLine = ls := by
  induction ls with
  | nil => rfl
  | cons l ls ih =>
    simp only [List.map_cons]
    rw [C07.singleLine_id l (h l (by simp)), ih (fun x hx => h x (by simp [hx]))]

end RawPanelVerif.ReadIn
