import RawPanelVerif.Model.MonoInt64
import RawPanelVerif.Lemmas.MonoFont
import RawPanelVerif.Lemmas.MonoFrame
/-!
# No `int` overflow on the 32-bit domain: the overflow-carrying model equals the `Int` model

Tiers used in the lemma statements (all literals so that `omega` sees them):
`2^31 = 2147483648` arguments / geometry, `2^33 = 8589934592` derived extents, `2^59`, `2^60`, `2^61` derived coordinates,
`2^62 = 4611686018427387904` the check of `withChk`.
-/
namespace RawPanelVerif.Mono
open RawPanelVerif.Gen

theorem withChk_eq {α : Type} (v : Int) (k : Int → Option α) (h : InR v) : withChk v k = k v := by
  unfold withChk; rw [if_pos h]

theorem mul_bounds (a b A B : Int) (ha : -A ≤ a ∧ a ≤ A) (hb : -B ≤ b ∧ b ≤ B) :
    -(A * B) ≤ a * b ∧ a * b ≤ A * B := by
  have hA : 0 ≤ A := by omega
  have hB : 0 ≤ B := by omega
  rcases Int.le_total 0 a with h0 | h0 <;> rcases Int.le_total 0 b with h1 | h1
  · have u : a * b ≤ A * B := Int.mul_le_mul ha.2 hb.2 h1 hA
    have l : 0 ≤ a * b := Int.mul_nonneg h0 h1
    have : 0 ≤ A * B := Int.mul_nonneg hA hB
    omega
  · have u : a * (-b) ≤ A * B := Int.mul_le_mul ha.2 (by omega) (by omega) hA
    have l : 0 ≤ a * (-b) := Int.mul_nonneg h0 (by omega)
    rw [Int.mul_neg] at u l
    have : 0 ≤ A * B := Int.mul_nonneg hA hB
    omega
  · have u : (-a) * b ≤ A * B := Int.mul_le_mul (by omega) hb.2 h1 hA
    have l : 0 ≤ (-a) * b := Int.mul_nonneg (by omega) h1
    rw [Int.neg_mul] at u l
    have : 0 ≤ A * B := Int.mul_nonneg hA hB
    omega
  · have u : (-a) * (-b) ≤ A * B := Int.mul_le_mul (by omega) (by omega) (by omega) hA
    have l : 0 ≤ (-a) * (-b) := Int.mul_nonneg (by omega) (by omega)
    rw [Int.neg_mul_neg] at u l
    have : 0 ≤ A * B := Int.mul_nonneg hA hB
    omega

/-- geometry of a canvas in the 32-bit domain -/
def SmallG (g : Geom) : Prop :=
  (g.W : Int) < 2147483648 ∧ (g.H : Int) < 2147483648 ∧ (g.wib : Int) < 2147483648 ∧
  -2147483648 < g.bx ∧ g.bx < 2147483648 ∧ -2147483648 < g.byy ∧ g.byy < 2147483648 ∧
  -2147483648 < g.bw ∧ g.bw < 2147483648 ∧ -2147483648 < g.bh ∧ g.bh < 2147483648

theorem drawPixel64_eq (c : Canvas) (hg : SmallG c.geo) (x y : Int)
    (hx : -2305843009213693952 ≤ x ∧ x ≤ 2305843009213693952) (hy : -2305843009213693952 ≤ y ∧ y ≤ 2305843009213693952)
    (col : Bool) : drawPixel64 c x y col = some (drawPixel c x y col) := by
  obtain ⟨g1, g2, g3, g4, g5, g6, g7, g8, g9, g10, g11⟩ := hg
  unfold drawPixel64 drawPixel
  rw [withChk_eq _ _ (by unfold InR; omega), withChk_eq _ _ (by unfold InR; omega),
    withChk_eq _ _ (by unfold InR; omega), withChk_eq _ _ (by unfold InR; omega)]
  simp only []
  split
  · rename_i hc
    obtain ⟨b1, b2, b3, b4⟩ := inClip_bounds hc
    have hm := mul_bounds (y + c.geo.byy) (c.geo.wib : Int) 2147483647 2147483647 (by omega) (by omega)
    have hd : 0 ≤ (x + c.geo.bx).tdiv 8 ∧ (x + c.geo.bx).tdiv 8 < 268435456 := by
      rw [Int.tdiv_eq_ediv_of_nonneg b1]; omega
    have e : (2147483647 : Int) * 2147483647 = 4611686014132420609 := by decide
    rw [e] at hm
    rw [withChk_eq _ _ (by unfold InR; omega), withChk_eq _ _ (by unfold InR; omega)]
    split <;> rfl
  · rfl

theorem loop64_eq (f : Canvas → Nat → Option Canvas) (g : Canvas → Nat → Canvas) (P : Canvas → Prop) (n : Nat)
    (hstep : ∀ c i, i < n → P c → f c i = some (g c i) ∧ P (g c i)) (c : Canvas) (hc : P c) :
    loop64 f n c = some (loopN n g c) ∧ P (loopN n g c) := by
  induction n with
  | zero => exact ⟨rfl, hc⟩
  | succ n ih =>
    obtain ⟨e, p⟩ := ih (fun c i hi => hstep c i (by omega))
    obtain ⟨e', p'⟩ := hstep (loopN n g c) n (by omega) p
    rw [loopN_succ]
    unfold loop64
    rw [e]
    exact ⟨e', p'⟩

theorem vline64_eq (c : Canvas) (hg : SmallG c.geo) (x y h : Int) (col : Bool)
    (hx : -2305843009213693952 ≤ x ∧ x ≤ 2305843009213693952)
    (hy : -1152921504606846976 ≤ y ∧ y ≤ 1152921504606846976) (hh : h ≤ 34359738368) :
    vline64 c x y h col = some (vline c x y h col) ∧ (vline c x y h col).geo = c.geo := by
  unfold vline64 vline
  have := loop64_eq (fun c i => withChk (y + i) fun yy => drawPixel64 c x yy col) (fun c i => drawPixel c x (y + i) col)
    (fun c' => c'.geo = c.geo) h.toNat (fun c' i hi hc' => by
      have hi' : (i : Int) < 34359738368 := by omega
      rw [withChk_eq _ _ (by unfold InR; omega)]
      exact ⟨drawPixel64_eq c' (by rw [hc']; exact hg) x (y + i) hx (by omega) col, by rw [drawPixel_geo]; exact hc'⟩) c rfl
  exact this

theorem hline64_eq (c : Canvas) (hg : SmallG c.geo) (x y w : Int) (col : Bool)
    (hx : -1152921504606846976 ≤ x ∧ x ≤ 1152921504606846976)
    (hy : -2305843009213693952 ≤ y ∧ y ≤ 2305843009213693952) (hw : w ≤ 8589934592) :
    hline64 c x y w col = some (hline c x y w col) ∧ (hline c x y w col).geo = c.geo := by
  unfold hline64 hline
  have := loop64_eq (fun c i => withChk (x + i) fun xx => drawPixel64 c xx y col) (fun c i => drawPixel c (x + i) y col)
    (fun c' => c'.geo = c.geo) w.toNat (fun c' i hi hc' => by
      have hi' : (i : Int) < 8589934592 := by omega
      rw [withChk_eq _ _ (by unfold InR; omega)]
      exact ⟨drawPixel64_eq c' (by rw [hc']; exact hg) (x + i) y (by omega) hy col, by rw [drawPixel_geo]; exact hc'⟩) c rfl
  exact this

theorem fillRect64_eq (c : Canvas) (hg : SmallG c.geo) (x y w h : Int) (col : Bool)
    (hx : -1152921504606846976 ≤ x ∧ x ≤ 1152921504606846976)
    (hy : -1152921504606846976 ≤ y ∧ y ≤ 1152921504606846976)
    (hw : -8589934592 ≤ w ∧ w ≤ 8589934592) (hh : h ≤ 8589934592) :
    fillRect64 c x y w h col = some (fillRect c x y w h col) ∧ (fillRect c x y w h col).geo = c.geo := by
  unfold fillRect64 fillRect
  rw [withChk_eq _ _ (by unfold InR; omega)]
  have := loop64_eq (fun c i => withChk (x + i) fun xx => vline64 c xx y h col) (fun c i => vline c (x + i) y h col)
    (fun c' => c'.geo = c.geo) w.toNat (fun c' i hi hc' => by
      have hi' : (i : Int) < 8589934592 := by omega
      rw [withChk_eq _ _ (by unfold InR; omega)]
      obtain ⟨e, ge⟩ := vline64_eq c' (by rw [hc']; exact hg) (x + i) y h col (by omega) hy (by omega)
      exact ⟨e, by rw [ge]; exact hc'⟩) c rfl
  exact this

/-! ## corner loops -/

/-- invariant of the Bresenham variables for radius `r` -/
def CircInv (s : Circ) (r : Int) : Prop :=
  0 ≤ s.x ∧ s.x ≤ r ∧ 0 ≤ s.y ∧ s.y ≤ r ∧ s.ddFx = 2 * s.x + 1 ∧ s.ddFy = -2 * s.y ∧
  -2 * r - 1 ≤ s.f ∧ s.f ≤ 2 * r + 2 + 3 * s.x

theorem circNext64_eq (s : Circ) (r : Int) (hr : r < 2147483648) (hinv : CircInv s r) (h : s.x < s.y) :
    circNext64 s = some s.next ∧ CircInv s.next r := by
  obtain ⟨i1, i2, i3, i4, i5, i6, i7, i8⟩ := hinv
  unfold circNext64 Circ.next
  by_cases hf : s.f ≥ 0
  · rw [if_pos hf]
    simp only [hf, if_true]
    rw [withChk_eq _ _ (by unfold InR; omega), withChk_eq _ _ (by unfold InR; omega),
      withChk_eq _ _ (by unfold InR; omega), withChk_eq _ _ (by unfold InR; omega),
      withChk_eq _ _ (by unfold InR; omega), withChk_eq _ _ (by unfold InR; omega)]
    refine ⟨rfl, ?_⟩
    unfold CircInv
    simp only []
    omega
  · rw [if_neg hf]
    simp only [hf, if_false]
    rw [withChk_eq _ _ (by unfold InR; omega), withChk_eq _ _ (by unfold InR; omega),
      withChk_eq _ _ (by unfold InR; omega)]
    refine ⟨rfl, ?_⟩
    unfold CircInv
    simp only []
    omega

theorem circInit64_eq (r : Int) (hr : -2147483648 < r ∧ r < 2147483648) : circInit64 r = some (Circ.init r) := by
  unfold circInit64 Circ.init
  rw [withChk_eq _ _ (by unfold InR; omega), withChk_eq _ _ (by unfold InR; omega)]

theorem circInit_inv (r : Int) (h : 0 ≤ r) : CircInv (Circ.init r) r := by
  unfold CircInv Circ.init; dsimp only; omega

theorem then64_eq {a : Option Canvas} {f : Canvas → Option Canvas} {c1 c2 : Canvas}
    (h1 : a = some c1) (h2 : f c1 = some c2) : then64 a f = some c2 := by
  rw [h1]; exact h2

theorem px2_64_eq (c : Canvas) (hg : SmallG c.geo) (x1 y1 x2 y2 : Int) (col : Bool)
    (h1 : -2305843009213693952 ≤ x1 ∧ x1 ≤ 2305843009213693952) (h2 : -2305843009213693952 ≤ y1 ∧ y1 ≤ 2305843009213693952)
    (h3 : -2305843009213693952 ≤ x2 ∧ x2 ≤ 2305843009213693952) (h4 : -2305843009213693952 ≤ y2 ∧ y2 ≤ 2305843009213693952) :
    px2_64 c x1 y1 x2 y2 col = some (drawPixel (drawPixel c x1 y1 col) x2 y2 col) := by
  unfold px2_64
  rw [withChk_eq _ _ (by unfold InR; omega), withChk_eq _ _ (by unfold InR; omega)]
  refine then64_eq (drawPixel64_eq c hg x1 y1 h1 h2 col) ?_
  rw [withChk_eq _ _ (by unfold InR; omega), withChk_eq _ _ (by unfold InR; omega)]
  exact drawPixel64_eq _ (by rw [drawPixel_geo]; exact hg) x2 y2 h3 h4 col

theorem ite64_eq {b : Bool} {a : Option Canvas} {c c1 : Canvas} (h : a = some c1) :
    (if b then a else some c) = some (if b then c1 else c) := by
  cases b
  · rfl
  · exact h

theorem ite_geo {b : Bool} {c c1 : Canvas} (h : c1.geo = c.geo) : (if b then c1 else c).geo = c.geo := by
  cases b
  · rfl
  · exact h

theorem circPlot64_eq (c : Canvas) (hg : SmallG c.geo) (x0 y0 corner : Int) (col : Bool) (x y : Int)
    (hx0 : -1152921504606846976 ≤ x0 ∧ x0 ≤ 1152921504606846976) (hy0 : -1152921504606846976 ≤ y0 ∧ y0 ≤ 1152921504606846976)
    (hx : 0 ≤ x ∧ x < 2147483648) (hy : 0 ≤ y ∧ y < 2147483648) :
    circPlot64 c x0 y0 corner col x y = some (circPlot c x0 y0 corner col x y) ∧
    (circPlot c x0 y0 corner col x y).geo = c.geo := by
  unfold circPlot64 circPlot
  simp only []
  have pg : ∀ (c : Canvas) (a b d e : Int), (drawPixel (drawPixel c a b col) d e col).geo = c.geo :=
    fun c a b d e => by rw [drawPixel_geo, drawPixel_geo]
  have s1 := ite64_eq (b := cornerBit corner 4) (c := c)
    (px2_64_eq c hg (x0 + x) (y0 + y) (x0 + y) (y0 + x) col (by omega) (by omega) (by omega) (by omega))
  have g1 : (if cornerBit corner 4 then drawPixel (drawPixel c (x0 + x) (y0 + y) col) (x0 + y) (y0 + x) col else c).geo = c.geo :=
    ite_geo (pg _ _ _ _ _)
  generalize (if cornerBit corner 4 then drawPixel (drawPixel c (x0 + x) (y0 + y) col) (x0 + y) (y0 + x) col else c) = c1 at s1 g1 ⊢
  have s2 := ite64_eq (b := cornerBit corner 2) (c := c1)
    (px2_64_eq c1 (by rw [g1]; exact hg) (x0 + x) (y0 - y) (x0 + y) (y0 - x) col (by omega) (by omega) (by omega) (by omega))
  have g2 : (if cornerBit corner 2 then drawPixel (drawPixel c1 (x0 + x) (y0 - y) col) (x0 + y) (y0 - x) col else c1).geo = c.geo :=
    (ite_geo (pg _ _ _ _ _)).trans g1
  generalize (if cornerBit corner 2 then drawPixel (drawPixel c1 (x0 + x) (y0 - y) col) (x0 + y) (y0 - x) col else c1) = c2 at s2 g2 ⊢
  have s3 := ite64_eq (b := cornerBit corner 8) (c := c2)
    (px2_64_eq c2 (by rw [g2]; exact hg) (x0 - y) (y0 + x) (x0 - x) (y0 + y) col (by omega) (by omega) (by omega) (by omega))
  have g3 : (if cornerBit corner 8 then drawPixel (drawPixel c2 (x0 - y) (y0 + x) col) (x0 - x) (y0 + y) col else c2).geo = c.geo :=
    (ite_geo (pg _ _ _ _ _)).trans g2
  generalize (if cornerBit corner 8 then drawPixel (drawPixel c2 (x0 - y) (y0 + x) col) (x0 - x) (y0 + y) col else c2) = c3 at s3 g3 ⊢
  have s4 := ite64_eq (b := cornerBit corner 1) (c := c3)
    (px2_64_eq c3 (by rw [g3]; exact hg) (x0 - y) (y0 - x) (x0 - x) (y0 - y) col (by omega) (by omega) (by omega) (by omega))
  have g4 : (if cornerBit corner 1 then drawPixel (drawPixel c3 (x0 - y) (y0 - x) col) (x0 - x) (y0 - y) col else c3).geo = c.geo :=
    (ite_geo (pg _ _ _ _ _)).trans g3
  exact ⟨then64_eq s1 (then64_eq s2 (then64_eq s3 s4)), g4⟩

theorem drawCircleHelperLoop64_eq (c : Canvas) (x0 y0 corner : Int) (col : Bool) (s : Circ) (r : Int) (g : Geom)
    (hgc : c.geo = g) (hg : SmallG g) (hr : r < 2147483648) (hinv : CircInv s r)
    (hx0 : -1152921504606846976 ≤ x0 ∧ x0 ≤ 1152921504606846976) (hy0 : -1152921504606846976 ≤ y0 ∧ y0 ≤ 1152921504606846976) :
    drawCircleHelperLoop64 c x0 y0 corner col s = some (drawCircleHelperLoop c x0 y0 corner col s) ∧
    (drawCircleHelperLoop c x0 y0 corner col s).geo = g := by
  fun_induction drawCircleHelperLoop c x0 y0 corner col s with
  | case1 c s h ih =>
    rw [drawCircleHelperLoop64, dif_pos h]
    obtain ⟨e, inv'⟩ := circNext64_eq s r hr hinv h
    rw [e]
    simp only [dif_pos]
    have inv'' := inv'
    obtain ⟨j1, j2, j3, j4, _⟩ := inv''
    obtain ⟨e2, g2⟩ := circPlot64_eq c (by rw [hgc]; exact hg) x0 y0 corner col s.next.x s.next.y hx0 hy0 (by omega) (by omega)
    rw [e2]
    simp only []
    exact ih (g2.trans hgc) inv'
  | case2 c s h =>
    rw [drawCircleHelperLoop64, dif_neg h]
    exact ⟨rfl, hgc⟩

theorem drawCircleHelper64_eq (c : Canvas) (hg : SmallG c.geo) (x0 y0 r corner : Int) (col : Bool)
    (hr : -2147483648 < r ∧ r < 2147483648)
    (hx0 : -1152921504606846976 ≤ x0 ∧ x0 ≤ 1152921504606846976) (hy0 : -1152921504606846976 ≤ y0 ∧ y0 ≤ 1152921504606846976) :
    drawCircleHelper64 c x0 y0 r corner col = some (drawCircleHelper c x0 y0 r corner col) ∧
    (drawCircleHelper c x0 y0 r corner col).geo = c.geo := by
  unfold drawCircleHelper64 drawCircleHelper
  rw [circInit64_eq r hr]
  simp only []
  by_cases h0 : 0 ≤ r
  · exact drawCircleHelperLoop64_eq c x0 y0 corner col (Circ.init r) r c.geo rfl hg hr.2 (circInit_inv r h0) hx0 hy0
  · -- negative radius: the loop condition `0 < r` is false at once
    have hn : ¬ ((Circ.init r).x < (Circ.init r).y) := by simp [Circ.init]; omega
    rw [drawCircleHelperLoop64, dif_neg hn, drawCircleHelperLoop, dif_neg hn]
    exact ⟨rfl, rfl⟩

theorem vline2_64_eq (c : Canvas) (hg : SmallG c.geo) (x1 y1 h1 x2 y2 h2 : Int) (col : Bool)
    (a1 : -2305843009213693952 ≤ x1 ∧ x1 ≤ 2305843009213693952) (a2 : -1152921504606846976 ≤ y1 ∧ y1 ≤ 1152921504606846976)
    (a3 : -34359738368 ≤ h1 ∧ h1 ≤ 34359738368)
    (a4 : -2305843009213693952 ≤ x2 ∧ x2 ≤ 2305843009213693952) (a5 : -1152921504606846976 ≤ y2 ∧ y2 ≤ 1152921504606846976)
    (a6 : -34359738368 ≤ h2 ∧ h2 ≤ 34359738368) :
    vline2_64 c x1 y1 h1 x2 y2 h2 col = some (vline (vline c x1 y1 h1 col) x2 y2 h2 col) ∧
    (vline (vline c x1 y1 h1 col) x2 y2 h2 col).geo = c.geo := by
  unfold vline2_64
  rw [withChk_eq _ _ (by unfold InR; omega), withChk_eq _ _ (by unfold InR; omega), withChk_eq _ _ (by unfold InR; omega)]
  obtain ⟨e1, g1⟩ := vline64_eq c hg x1 y1 h1 col a1 a2 a3.2
  obtain ⟨e2, g2⟩ := vline64_eq (vline c x1 y1 h1 col) (by rw [g1]; exact hg) x2 y2 h2 col a4 a5 a6.2
  refine ⟨then64_eq e1 ?_, g2.trans g1⟩
  rw [withChk_eq _ _ (by unfold InR; omega), withChk_eq _ _ (by unfold InR; omega), withChk_eq _ _ (by unfold InR; omega)]
  exact e2

theorem fillCircPlot64_eq (c : Canvas) (hg : SmallG c.geo) (x0 y0 corner delta : Int) (col : Bool) (x y : Int)
    (hx0 : -576460752303423488 ≤ x0 ∧ x0 ≤ 576460752303423488) (hy0 : -576460752303423488 ≤ y0 ∧ y0 ≤ 576460752303423488)
    (hd : -17179869184 ≤ delta ∧ delta ≤ 17179869184)
    (hx : 0 ≤ x ∧ x < 2147483648) (hy : 0 ≤ y ∧ y < 2147483648) :
    fillCircPlot64 c x0 y0 corner delta col x y = some (fillCircPlot c x0 y0 corner delta col x y) ∧
    (fillCircPlot c x0 y0 corner delta col x y).geo = c.geo := by
  unfold fillCircPlot64 fillCircPlot
  simp only []
  rw [withChk_eq _ _ (by unfold InR; omega), withChk_eq _ _ (by unfold InR; omega)]
  obtain ⟨e1, g1⟩ := vline2_64_eq c hg (x0 + x) (y0 - y) (2 * y + 1 + delta) (x0 + y) (y0 - x) (2 * x + 1 + delta) col
    (by omega) (by omega) (by omega) (by omega) (by omega) (by omega)
  have s1 := ite64_eq (b := cornerBit corner 1) (c := c) e1
  have gg1 : (if cornerBit corner 1 then vline (vline c (x0 + x) (y0 - y) (2 * y + 1 + delta) col) (x0 + y) (y0 - x) (2 * x + 1 + delta) col else c).geo = c.geo :=
    ite_geo g1
  generalize (if cornerBit corner 1 then vline (vline c (x0 + x) (y0 - y) (2 * y + 1 + delta) col) (x0 + y) (y0 - x) (2 * x + 1 + delta) col else c) = c1 at s1 gg1 ⊢
  obtain ⟨e2, g2⟩ := vline2_64_eq c1 (by rw [gg1]; exact hg) (x0 - x) (y0 - y) (2 * y + 1 + delta) (x0 - y) (y0 - x) (2 * x + 1 + delta) col
    (by omega) (by omega) (by omega) (by omega) (by omega) (by omega)
  have s2 := ite64_eq (b := cornerBit corner 2) (c := c1) e2
  exact ⟨then64_eq s1 s2, (ite_geo g2).trans gg1⟩

theorem fillCircleHelperLoop64_eq (c : Canvas) (x0 y0 corner delta : Int) (col : Bool) (s : Circ) (r : Int) (g : Geom)
    (hgc : c.geo = g) (hg : SmallG g) (hr : r < 2147483648) (hinv : CircInv s r)
    (hx0 : -576460752303423488 ≤ x0 ∧ x0 ≤ 576460752303423488) (hy0 : -576460752303423488 ≤ y0 ∧ y0 ≤ 576460752303423488)
    (hd : -17179869184 ≤ delta ∧ delta ≤ 17179869184) :
    fillCircleHelperLoop64 c x0 y0 corner delta col s = some (fillCircleHelperLoop c x0 y0 corner delta col s) ∧
    (fillCircleHelperLoop c x0 y0 corner delta col s).geo = g := by
  fun_induction fillCircleHelperLoop c x0 y0 corner delta col s with
  | case1 c s h ih =>
    rw [fillCircleHelperLoop64, dif_pos h]
    obtain ⟨e, inv'⟩ := circNext64_eq s r hr hinv h
    rw [e]
    simp only [dif_pos]
    have inv'' := inv'
    obtain ⟨j1, j2, j3, j4, _⟩ := inv''
    obtain ⟨e2, g2⟩ := fillCircPlot64_eq c (by rw [hgc]; exact hg) x0 y0 corner delta col s.next.x s.next.y hx0 hy0 hd
      (by omega) (by omega)
    rw [e2]
    simp only []
    exact ih (g2.trans hgc) inv'
  | case2 c s h =>
    rw [fillCircleHelperLoop64, dif_neg h]
    exact ⟨rfl, hgc⟩

theorem fillCircleHelper64_eq (c : Canvas) (hg : SmallG c.geo) (x0 y0 r corner delta : Int) (col : Bool)
    (hr : -2147483648 < r ∧ r < 2147483648)
    (hx0 : -576460752303423488 ≤ x0 ∧ x0 ≤ 576460752303423488) (hy0 : -576460752303423488 ≤ y0 ∧ y0 ≤ 576460752303423488)
    (hd : -17179869184 ≤ delta ∧ delta ≤ 17179869184) :
    fillCircleHelper64 c x0 y0 r corner delta col = some (fillCircleHelper c x0 y0 r corner delta col) ∧
    (fillCircleHelper c x0 y0 r corner delta col).geo = c.geo := by
  unfold fillCircleHelper64 fillCircleHelper
  rw [circInit64_eq r hr]
  simp only []
  by_cases h0 : 0 ≤ r
  · exact fillCircleHelperLoop64_eq c x0 y0 corner delta col (Circ.init r) r c.geo rfl hg hr.2 (circInit_inv r h0) hx0 hy0 hd
  · have hn : ¬ ((Circ.init r).x < (Circ.init r).y) := by simp [Circ.init]; omega
    rw [fillCircleHelperLoop64, dif_neg hn, fillCircleHelperLoop, dif_neg hn]
    exact ⟨rfl, rfl⟩

/-! ## rounded rectangles, bitmaps -/

theorem drawRoundRect64_eq (c : Canvas) (hg : SmallG c.geo) (x y w h r : Int) (col : Bool)
    (hx : -2147483648 < x ∧ x < 2147483648) (hy : -2147483648 < y ∧ y < 2147483648)
    (hw : -2147483648 < w ∧ w < 2147483648) (hh : -2147483648 < h ∧ h < 2147483648)
    (hr : -2147483648 < r ∧ r < 2147483648) :
    drawRoundRect64 c x y w h r col = some (drawRoundRect c x y w h r col) := by
  unfold drawRoundRect64 drawRoundRect
  repeat rw [withChk_eq _ _ (by unfold InR; omega)]
  simp only []
  obtain ⟨e1, g1⟩ := hline64_eq c hg (x + r) y (w - 2 * r) col (by omega) (by omega) (by omega)
  obtain ⟨e2, g2⟩ := hline64_eq _ (by rw [g1]; exact hg) (x + r) (y + h - 1) (w - 2 * r) col (by omega) (by omega) (by omega)
  have g2' := g2.trans g1
  obtain ⟨e3, g3⟩ := vline64_eq _ (by rw [g2']; exact hg) x (y + r) (h - 2 * r) col (by omega) (by omega) (by omega)
  have g3' := g3.trans g2'
  obtain ⟨e4, g4⟩ := vline64_eq _ (by rw [g3']; exact hg) (x + w - 1) (y + r) (h - 2 * r) col (by omega) (by omega) (by omega)
  have g4' := g4.trans g3'
  obtain ⟨e5, g5⟩ := drawCircleHelper64_eq _ (by rw [g4']; exact hg) (x + r) (y + r) r 1 col hr (by omega) (by omega)
  have g5' := g5.trans g4'
  obtain ⟨e6, g6⟩ := drawCircleHelper64_eq _ (by rw [g5']; exact hg) (x + w - r - 1) (y + r) r 2 col hr (by omega) (by omega)
  have g6' := g6.trans g5'
  obtain ⟨e7, g7⟩ := drawCircleHelper64_eq _ (by rw [g6']; exact hg) (x + w - r - 1) (y + h - r - 1) r 4 col hr (by omega) (by omega)
  have g7' := g7.trans g6'
  obtain ⟨e8, _⟩ := drawCircleHelper64_eq _ (by rw [g7']; exact hg) (x + r) (y + h - r - 1) r 8 col hr (by omega) (by omega)
  exact then64_eq e1 (then64_eq e2 (then64_eq e3 (then64_eq e4 (then64_eq e5 (then64_eq e6 (then64_eq e7 e8))))))

theorem fillRoundRect64_eq (c : Canvas) (hg : SmallG c.geo) (x y w h r : Int) (col : Bool)
    (hx : -2147483648 < x ∧ x < 2147483648) (hy : -2147483648 < y ∧ y < 2147483648)
    (hw : -2147483648 < w ∧ w < 2147483648) (hh : -2147483648 < h ∧ h < 2147483648)
    (hr : -2147483648 < r ∧ r < 2147483648) :
    fillRoundRect64 c x y w h r col = some (fillRoundRect c x y w h r col) := by
  unfold fillRoundRect64 fillRoundRect
  repeat rw [withChk_eq _ _ (by unfold InR; omega)]
  simp only []
  obtain ⟨e1, g1⟩ := fillRect64_eq c hg (x + r) y (w - 2 * r) h col (by omega) (by omega) (by omega) (by omega)
  obtain ⟨e2, g2⟩ := fillCircleHelper64_eq _ (by rw [g1]; exact hg) (x + w - r - 1) (y + r) r 1 (h - 2 * r - 1) col hr
    (by omega) (by omega) (by omega)
  have g2' := g2.trans g1
  obtain ⟨e3, _⟩ := fillCircleHelper64_eq _ (by rw [g2']; exact hg) (x + r) (y + r) r 2 (h - 2 * r - 1) col hr
    (by omega) (by omega) (by omega)
  exact then64_eq e1 (then64_eq e2 e3)

theorem drawBitmap64_eq (c : Canvas) (hg : SmallG c.geo) (x y : Int) (bits : Array UInt8) (w h : Int)
    (col inverted drawAll : Bool)
    (hx : -1152921504606846976 ≤ x ∧ x ≤ 1152921504606846976) (hy : -1152921504606846976 ≤ y ∧ y ≤ 1152921504606846976)
    (hw : -2147483648 < w ∧ w < 2147483648) (hh : h < 2147483648) :
    drawBitmap64 c x y bits w h col inverted drawAll = some (drawBitmap c x y bits w h col inverted drawAll) ∧
    (drawBitmap c x y bits w h col inverted drawAll).geo = c.geo := by
  unfold drawBitmap64 drawBitmap
  rw [withChk_eq _ _ (by unfold InR; omega)]
  simp only []
  have hbw : ((((w + 7).tdiv 8).toNat : Nat) : Int) ≤ 268435456 := by
    rcases Int.le_total 0 (w + 7) with h0 | h0
    · rw [Int.tdiv_eq_ediv_of_nonneg h0]; omega
    · have : (w + 7).tdiv 8 ≤ 0 := by
        have e : w + 7 = -(-(w + 7)) := by omega
        rw [e, Int.neg_tdiv]
        have := Int.tdiv_nonneg (a := -(w + 7)) (b := 8) (by omega) (by omega)
        omega
      omega
  refine loop64_eq _ _ (fun c' => c'.geo = c.geo) h.toNat (fun c1 j hj hc1 => ?_) c rfl
  refine loop64_eq _ _ (fun c' => c'.geo = c.geo) w.toNat (fun c2 i hi hc2 => ?_) c1 hc1
  have hj' : (j : Int) < 2147483648 := by omega
  have hi' : (i : Int) < 2147483648 := by omega
  have hm := mul_bounds (j : Int) ((((w + 7).tdiv 8).toNat : Nat) : Int) 2147483648 268435456 (by omega) (by omega)
  have e : (2147483648 : Int) * 268435456 = 576460752303423488 := by decide
  rw [e] at hm
  have hi8 : (((i / 8 : Nat) : Nat) : Int) < 2147483648 := by omega
  rw [withChk_eq _ _ (by unfold InR; omega), withChk_eq _ _ (by unfold InR; omega)]
  split
  · split
    · rw [withChk_eq _ _ (by unfold InR; omega), withChk_eq _ _ (by unfold InR; omega)]
      exact ⟨drawPixel64_eq c2 (by rw [hc2]; exact hg) _ _ (by omega) (by omega) _, by rw [drawPixel_geo]; exact hc2⟩
    · exact ⟨rfl, hc2⟩
  · exact ⟨rfl, hc2⟩

/-! ## text -/

theorem fp_small (t : TextSt) : (t.fp.bbW : Int) ≤ 8 ∧ (t.fp.bbH : Int) ≤ 8 := by
  obtain ⟨_, _, _, hall⟩ := font_tables_sized
  obtain ⟨_, _, h3, _, _, h6⟩ := hall t.font
  unfold TextSt.fp; omega

theorem drawBlock64_eq (c : Canvas) (hg : SmallG c.geo) (x y : Int) (i j : Nat) (tsH tsV : Int) (col : Bool)
    (hx : -576460752303423488 ≤ x ∧ x ≤ 576460752303423488) (hy : -576460752303423488 ≤ y ∧ y ≤ 576460752303423488)
    (hi : i ≤ 16) (hj : j ≤ 16) (hH : -2147483648 < tsH ∧ tsH < 2147483648) (hV : -2147483648 < tsV ∧ tsV < 2147483648) :
    drawBlock64 c x y i j tsH tsV col = some (drawBlock c x y i j tsH tsV col) ∧
    (drawBlock c x y i j tsH tsV col).geo = c.geo := by
  unfold drawBlock64 drawBlock
  split
  · rw [withChk_eq _ _ (by unfold InR; omega), withChk_eq _ _ (by unfold InR; omega)]
    exact ⟨drawPixel64_eq c hg _ _ (by omega) (by omega) col, drawPixel_geo _ _ _ _⟩
  · have m1 := mul_bounds (i : Int) tsH 16 2147483648 (by omega) (by omega)
    have m2 := mul_bounds (j : Int) tsV 16 2147483648 (by omega) (by omega)
    have e : (16 : Int) * 2147483648 = 34359738368 := by decide
    rw [e] at m1 m2
    rw [withChk_eq _ _ (by unfold InR; omega), withChk_eq _ _ (by unfold InR; omega),
      withChk_eq _ _ (by unfold InR; omega), withChk_eq _ _ (by unfold InR; omega)]
    exact fillRect64_eq c hg _ _ tsH tsV col (by omega) (by omega) (by omega) (by omega)

theorem drawChar64_eq (c : Canvas) (hg : SmallG c.geo) (t : TextSt) (x y : Int) (ch : Nat) (col bg : Bool) (tsH tsV : Int)
    (hx : -288230376151711744 ≤ x ∧ x ≤ 288230376151711744) (hy : -288230376151711744 ≤ y ∧ y ≤ 288230376151711744)
    (hH : -2147483648 < tsH ∧ tsH < 2147483648) (hV : -2147483648 < tsV ∧ tsV < 2147483648) :
    drawChar64 c t x y ch col bg tsH tsV = some (drawChar c t x y ch col bg tsH tsV) ∧
    (drawChar c t x y ch col bg tsH tsV).geo = c.geo := by
  have hcw := charWidth_le t ch
  obtain ⟨hbw, hbh⟩ := fp_small t
  have hgw : -2147483648 < getBWidth c.geo ∧ getBWidth c.geo < 2147483648 := by
    obtain ⟨g1, g2, g3, g4, g5, g6, g7, g8, g9, g10, g11⟩ := hg
    unfold getBWidth; split <;> omega
  unfold drawChar64 drawChar
  simp only []
  have m1 := mul_bounds ((charWidth t ch : Int) - 1) tsH 16 2147483648 (by omega) (by omega)
  have m2 := mul_bounds (t.fp.bbW : Int) tsH 16 2147483648 (by omega) (by omega)
  have m3 := mul_bounds (t.fp.bbH : Int) tsV 16 2147483648 (by omega) (by omega)
  have e : (16 : Int) * 2147483648 = 34359738368 := by decide
  rw [e] at m1 m2 m3
  rw [withChk_eq _ _ (by unfold InR; omega), withChk_eq _ _ (by unfold InR; omega),
    withChk_eq _ _ (by unfold InR; omega), withChk_eq _ _ (by unfold InR; omega),
    withChk_eq _ _ (by unfold InR; omega), withChk_eq _ _ (by unfold InR; omega),
    withChk_eq _ _ (by unfold InR; omega), withChk_eq _ _ (by unfold InR; omega)]
  split
  · exact ⟨rfl, rfl⟩
  · refine loop64_eq _ _ (fun c' => c'.geo = c.geo) _ (fun c1 i hi hc1 => ?_) c rfl
    refine loop64_eq _ _ (fun c' => c'.geo = c.geo) _ (fun c2 j hj hc2 => ?_) c1 hc1
    have hblk : ∀ colr, drawBlock64 c2 x y i j tsH tsV colr = some (drawBlock c2 x y i j tsH tsV colr) ∧
        (drawBlock c2 x y i j tsH tsV colr).geo = c.geo := by
      intro colr
      obtain ⟨e1, g1⟩ := drawBlock64_eq c2 (by rw [hc2]; exact hg) x y i j tsH tsV colr (by omega) (by omega)
        (by omega) (by omega) hH hV
      exact ⟨e1, g1.trans hc2⟩
    split
    · exact hblk col
    · split
      · exact hblk bg
      · exact ⟨rfl, hc2⟩

/-- cursor and sizes of a text state in the domain: `|cx|, |cy| ≤ K`, sizes below `2^31`, spacing a byte -/
def SmallT (t : TextSt) (K : Int) : Prop :=
  -K ≤ t.cx ∧ t.cx ≤ K ∧ -K ≤ t.cy ∧ t.cy ≤ K ∧ -2147483648 < t.tsH ∧ t.tsH < 2147483648 ∧
  -2147483648 < t.tsV ∧ t.tsV < 2147483648 ∧ t.spacing < 256

theorem writeChar_lf' (c : Canvas) (t : TextSt) :
    writeChar (c, t) 10 = (c, { t with cy := t.cy + lineAdvance t, cx := 0 }) := by
  unfold writeChar; simp

theorem writeChar_cr (c : Canvas) (t : TextSt) : writeChar (c, t) 13 = (c, t) := by
  unfold writeChar; simp

theorem writeChar_glyph (c : Canvas) (t : TextSt) (ch : Nat) (h10 : ch ≠ 10) (h13 : ch ≠ 13) :
    writeChar (c, t) ch =
      if t.wrap ∧ t.cx + t.tsH * (charWidth t ch : Int) + t.spacing > getBWidth c.geo - t.tsH * ((charWidth t ch : Int) - 1) then
        (drawChar c t t.cx t.cy ch t.tcol t.tbg t.tsH t.tsV, { t with cy := t.cy + lineAdvance t, cx := 0 })
      else (drawChar c t t.cx t.cy ch t.tcol t.tbg t.tsH t.tsV, { t with cx := t.cx + t.tsH * (charWidth t ch : Int) + t.spacing }) := by
  unfold writeChar; simp only [h10, h13, if_false]

theorem writeChar64_eq (c : Canvas) (hg : SmallG c.geo) (t : TextSt) (ch : Nat) (K : Int) (hK : K ≤ 288230376151711744 - 34359738368)
    (ht : SmallT t K) :
    writeChar64 (c, t) ch = some (writeChar (c, t) ch) ∧ (writeChar (c, t) ch).1.geo = c.geo ∧
    SmallT (writeChar (c, t) ch).2 (K + 34359738368) := by
  obtain ⟨t1, t2, t3, t4, t5, t6, t7, t8, t9⟩ := ht
  have hcw := charWidth_le t ch
  obtain ⟨hbw, hbh⟩ := fp_small t
  have hgw : -2147483648 < getBWidth c.geo ∧ getBWidth c.geo < 2147483648 := by
    obtain ⟨g1, g2, g3, g4, g5, g6, g7, g8, g9, g10, g11⟩ := hg
    unfold getBWidth; split <;> omega
  have mla := mul_bounds t.tsV (t.fp.bbH : Int) 2147483648 8 (by omega) (by omega)
  have m1 := mul_bounds t.tsH (charWidth t ch : Int) 2147483648 9 (by omega) (by omega)
  have m2 := mul_bounds t.tsH ((charWidth t ch : Int) - 1) 2147483648 9 (by omega) (by omega)
  have e8 : (2147483648 : Int) * 8 = 17179869184 := by decide
  have e9 : (2147483648 : Int) * 9 = 19327352832 := by decide
  rw [e8] at mla
  rw [e9] at m1 m2
  have hla : lineAdvance t = t.tsV * (t.fp.bbH : Int) := rfl
  by_cases h10 : ch = 10
  · subst h10
    rw [writeChar_lf']
    unfold writeChar64
    simp only [if_true]
    rw [withChk_eq _ _ (by unfold InR; omega), withChk_eq _ _ (by unfold InR; omega)]
    refine ⟨?_, ?_, ?_⟩
    · first | rfl | trivial
    · first | rfl | trivial
    · unfold SmallT; simp only []; omega
  · by_cases h13 : ch = 13
    · subst h13
      rw [writeChar_cr]
      unfold writeChar64
      refine ⟨by simp, rfl, ?_⟩
      show SmallT t (K + 34359738368)
      unfold SmallT; omega
    · obtain ⟨e1, g1⟩ := drawChar64_eq c hg t t.cx t.cy ch t.tcol t.tbg t.tsH t.tsV (by omega) (by omega) ⟨t5, t6⟩ ⟨t7, t8⟩
      rw [writeChar_glyph c t ch h10 h13]
      unfold writeChar64
      simp only [h10, h13, if_false]
      rw [e1]
      simp only []
      rw [withChk_eq _ _ (by unfold InR; omega), withChk_eq _ _ (by unfold InR; omega),
        withChk_eq _ _ (by unfold InR; omega), withChk_eq _ _ (by unfold InR; omega),
        withChk_eq _ _ (by unfold InR; omega)]
      have eadd : t.cx + (t.tsH * (charWidth t ch : Int) + (t.spacing : Int)) =
          t.cx + t.tsH * (charWidth t ch : Int) + (t.spacing : Int) := by omega
      rw [eadd]
      by_cases hwr : t.wrap = true ∧
          t.cx + t.tsH * (charWidth t ch : Int) + (t.spacing : Int) > getBWidth c.geo - t.tsH * ((charWidth t ch : Int) - 1)
      · rw [if_pos hwr, if_pos hwr]
        rw [withChk_eq _ _ (by unfold InR; omega), withChk_eq _ _ (by unfold InR; omega)]
        refine ⟨rfl, g1, ?_⟩
        unfold SmallT; simp only []; omega
      · rw [if_neg hwr, if_neg hwr]
        refine ⟨rfl, g1, ?_⟩
        unfold SmallT; simp only []; omega

theorem smallT_mono (t : TextSt) (K K' : Int) (h : K ≤ K') (ht : SmallT t K) : SmallT t K' := by
  unfold SmallT at *; omega

theorem renderText64_eq (s : List Nat) (c : Canvas) (hg : SmallG c.geo) (t : TextSt) (K : Int)
    (hK : K + s.length * 34359738368 ≤ 288230376151711744) (ht : SmallT t K) :
    renderText64 (c, t) s = some (renderText (c, t) s) := by
  induction s generalizing c t K with
  | nil => rfl
  | cons ch rest ih =>
    have hl : ((ch :: rest).length : Int) = rest.length + 1 := by simp
    rw [hl] at hK
    have hr0 : (0 : Int) ≤ rest.length := by omega
    obtain ⟨e, g, st⟩ := writeChar64_eq c hg t ch K (by omega) ht
    unfold renderText64 renderText
    rw [e]
    simp only [List.foldl_cons]
    exact ih (writeChar (c, t) ch).1 (by rw [g]; exact hg) (writeChar (c, t) ch).2 (K + 34359738368) (by omega) st

theorem strWidthAcc64_eq (t : TextSt) (s : List Nat) (w K : Int) (hH : -2147483648 < t.tsH ∧ t.tsH < 2147483648)
    (hsp : t.spacing < 256) (hw : -K ≤ w ∧ w ≤ K) (hK : K + s.length * 34359738368 ≤ 288230376151711744) :
    strWidthAcc64 t w s = some (s.foldl (fun w ch => w + (charWidth t ch : Int) * t.tsH + t.spacing) w) ∧
    -(K + s.length * 34359738368) ≤ s.foldl (fun w ch => w + (charWidth t ch : Int) * t.tsH + t.spacing) w ∧
    s.foldl (fun w ch => w + (charWidth t ch : Int) * t.tsH + t.spacing) w ≤ K + s.length * 34359738368 := by
  induction s generalizing w K with
  | nil => exact ⟨rfl, by simp; omega, by simp; omega⟩
  | cons ch rest ih =>
    have hl : ((ch :: rest).length : Int) = rest.length + 1 := by simp
    rw [hl] at hK ⊢
    have hr0 : (0 : Int) ≤ rest.length := by omega
    have hcw := charWidth_le t ch
    have m1 := mul_bounds (charWidth t ch : Int) t.tsH 9 2147483648 (by omega) (by omega)
    have e : (9 : Int) * 2147483648 = 19327352832 := by decide
    rw [e] at m1
    unfold strWidthAcc64
    rw [withChk_eq _ _ (by unfold InR; omega), withChk_eq _ _ (by unfold InR; omega), withChk_eq _ _ (by unfold InR; omega)]
    simp only [List.foldl_cons]
    have e2 : w + ((charWidth t ch : Int) * t.tsH + (t.spacing : Int)) = w + (charWidth t ch : Int) * t.tsH + (t.spacing : Int) := by omega
    rw [e2]
    obtain ⟨a, b, c'⟩ := ih (w + (charWidth t ch : Int) * t.tsH + (t.spacing : Int)) (K + 34359738368) (by omega) (by omega)
    exact ⟨a, by omega, by omega⟩

theorem strWidth64_eq (t : TextSt) (s : List Nat) (hH : -2147483648 < t.tsH ∧ t.tsH < 2147483648) (hsp : t.spacing < 256)
    (hl : s.length ≤ 4194304) : strWidth64 t s = some (strWidth t s) := by
  have hl' : (s.length : Int) ≤ 4194304 := by omega
  obtain ⟨e, lo, hi⟩ := strWidthAcc64_eq t s 0 0 hH hsp (by omega) (by omega)
  unfold strWidth64 strWidth
  rw [e]
  simp only []
  rw [withChk_eq _ _ (by unfold InR; omega)]

/-! ## every operation -/

/-- all arguments of an operation are below `2^31` in magnitude, strings of at most `2^22` characters -/
def SmallOp : Op → Prop
  | .px x y _ => (-2147483648 < x ∧ x < 2147483648) ∧ (-2147483648 < y ∧ y < 2147483648)
  | .hline x y w _ => (-2147483648 < x ∧ x < 2147483648) ∧ (-2147483648 < y ∧ y < 2147483648) ∧ (-2147483648 < w ∧ w < 2147483648)
  | .vline x y h _ => (-2147483648 < x ∧ x < 2147483648) ∧ (-2147483648 < y ∧ y < 2147483648) ∧ (-2147483648 < h ∧ h < 2147483648)
  | .frect x y w h _ => (-2147483648 < x ∧ x < 2147483648) ∧ (-2147483648 < y ∧ y < 2147483648) ∧
      (-2147483648 < w ∧ w < 2147483648) ∧ (-2147483648 < h ∧ h < 2147483648)
  | .rrect x y w h r _ => (-2147483648 < x ∧ x < 2147483648) ∧ (-2147483648 < y ∧ y < 2147483648) ∧
      (-2147483648 < w ∧ w < 2147483648) ∧ (-2147483648 < h ∧ h < 2147483648) ∧ (-2147483648 < r ∧ r < 2147483648)
  | .frrect x y w h r _ => (-2147483648 < x ∧ x < 2147483648) ∧ (-2147483648 < y ∧ y < 2147483648) ∧
      (-2147483648 < w ∧ w < 2147483648) ∧ (-2147483648 < h ∧ h < 2147483648) ∧ (-2147483648 < r ∧ r < 2147483648)
  | .circ x0 y0 r _ _ => (-2147483648 < x0 ∧ x0 < 2147483648) ∧ (-2147483648 < y0 ∧ y0 < 2147483648) ∧ (-2147483648 < r ∧ r < 2147483648)
  | .fcirc x0 y0 r _ d _ => (-2147483648 < x0 ∧ x0 < 2147483648) ∧ (-2147483648 < y0 ∧ y0 < 2147483648) ∧
      (-2147483648 < r ∧ r < 2147483648) ∧ (-2147483648 < d ∧ d < 2147483648)
  | .bitmap x y _ w h _ _ _ => (-2147483648 < x ∧ x < 2147483648) ∧ (-2147483648 < y ∧ y < 2147483648) ∧
      (-2147483648 < w ∧ w < 2147483648) ∧ (-2147483648 < h ∧ h < 2147483648)
  | .glyph _ x y _ _ _ h v => (-2147483648 < x ∧ x < 2147483648) ∧ (-2147483648 < y ∧ y < 2147483648) ∧
      (-2147483648 < h ∧ h < 2147483648) ∧ (-2147483648 < v ∧ v < 2147483648)
  | .text t s => SmallT t 2147483648 ∧ s.length ≤ 4194304
  | .bbox _ _ _ _ => True
  | .inv _ => True

/-- **No overflow on the 32-bit domain**: geometry and arguments below `2^31` ⇒ every checked intermediate stays inside
`(-2^62, 2^62)` and the overflow-carrying model returns what the `Int` model returns. -/
theorem applyOp64_eq (c : Canvas) (hg : SmallG c.geo) (op : Op) (ho : SmallOp op) : applyOp64 c op = some (applyOp c op) := by
  cases op with
  | px x y col =>
    obtain ⟨h1, h2⟩ := ho
    exact drawPixel64_eq c hg x y (by omega) (by omega) col
  | hline x y w col =>
    obtain ⟨h1, h2, h3⟩ := ho
    exact (hline64_eq c hg x y w col (by omega) (by omega) (by omega)).1
  | vline x y h col =>
    obtain ⟨h1, h2, h3⟩ := ho
    exact (vline64_eq c hg x y h col (by omega) (by omega) (by omega)).1
  | frect x y w h col =>
    obtain ⟨h1, h2, h3, h4⟩ := ho
    exact (fillRect64_eq c hg x y w h col (by omega) (by omega) (by omega) (by omega)).1
  | rrect x y w h r col =>
    obtain ⟨h1, h2, h3, h4, h5⟩ := ho
    exact drawRoundRect64_eq c hg x y w h r col h1 h2 h3 h4 h5
  | frrect x y w h r col =>
    obtain ⟨h1, h2, h3, h4, h5⟩ := ho
    exact fillRoundRect64_eq c hg x y w h r col h1 h2 h3 h4 h5
  | circ x0 y0 r k col =>
    obtain ⟨h1, h2, h3⟩ := ho
    exact (drawCircleHelper64_eq c hg x0 y0 r k col h3 (by omega) (by omega)).1
  | fcirc x0 y0 r k d col =>
    obtain ⟨h1, h2, h3, h4⟩ := ho
    exact (fillCircleHelper64_eq c hg x0 y0 r k d col h3 (by omega) (by omega) (by omega)).1
  | bitmap x y bits w h col i a =>
    obtain ⟨h1, h2, h3, h4⟩ := ho
    exact (drawBitmap64_eq c hg x y bits w h col i a (by omega) (by omega) h3 h4.2).1
  | glyph t x y ch col bg h v =>
    obtain ⟨h1, h2, h3, h4⟩ := ho
    exact (drawChar64_eq c hg t x y ch col bg h v (by omega) (by omega) h3 h4).1
  | text t s =>
    have h1 : SmallT t 2147483648 := ho.1
    have h2 : s.length ≤ 4194304 := ho.2
    have hl : (s.length : Int) ≤ 4194304 := by omega
    show (renderText64 (c, t) s).map (·.1) = some (renderText (c, t) s).1
    rw [renderText64_eq s c hg t 2147483648 (by omega) h1]
    rfl
  | bbox x y w h => rfl
  | inv b => rfl

end RawPanelVerif.Mono
