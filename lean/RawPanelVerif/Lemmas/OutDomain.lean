import RawPanelVerif.Lemmas.OutSound
/-!
# Every line the outbound encoder produces for a message of the C03 domain is in the domain of C04

`encOut_inDomainLines : inDomainOut o ms → inDomainLines o (encOut o ms)` — each produced line is read by the grammar
reader as well-formed (`.grammar`) or, for a `key=` line without value / an empty capability list, as non-grammar; never
`.outside`.  This is what lets C03 (`encOut_sound_full`) be composed with C04 (`decOut_sound`) into the round trip
`C04.roundtrip_out`.
-/
namespace RawPanelVerif.OutLemmas
open RawPanelVerif RawPanelVerif.Bytes RawPanelVerif.MsgOut RawPanelVerif.EncOut RawPanelVerif.DecOut
open RawPanelVerif.Spec.Out

/-- the produced line (after the return-site flattening) is not outside the reader's domain -/
def InDom (o : OutOracle) (l : Bytes) : Prop := readLine o (Strip.singleLine l) ≠ .outside

theorem inDom_of (o : OutOracle) (l : Bytes) (c : LineClass) (h10 : (10 : UInt8) ∉ l) (h : readLine o l = c) (hc : c ≠ .outside) :
    InDom o l := by
  unfold InDom; rw [C07.singleLine_id l h10, h]; exact hc

theorem inDom_kv (o : OutOracle) (key v : Bytes) (hk : key ∈ infoKeys) (hv : v ≠ []) (h10 : (10 : UInt8) ∉ v)
    (h : readInfo o key v ≠ .outside) : InDom o (key ++ 61 :: v) := by
  apply inDom_of o _ _ _ (readLine_kv o key v hk hv h10) h
  intro hm; simp only [List.mem_append, List.mem_cons] at hm
  rcases hm with hm | hm | hm
  · exact infoKeys_no_lf key hk hm
  · exact absurd hm (by decide)
  · exact h10 hm

theorem inDom_kv_empty (o : OutOracle) (key : Bytes) (hk : key ∈ infoKeys) : InDom o (key ++ [61]) := by
  apply inDom_of o _ .nonGrammar _ (readLine_kv_empty o key hk) (by simp)
  intro hm; simp only [List.mem_append, List.mem_cons] at hm
  rcases hm with hm | hm | hm
  · exact infoKeys_no_lf key hk hm
  · exact absurd hm (by decide)
  · simp at hm

/-- `kq ++ v` with `kq = key=`: value empty or not -/
theorem inDom_kq (o : OutOracle) (key kq v : Bytes) (hkq : kq = key ++ [61]) (hk : key ∈ infoKeys) (h10 : (10 : UInt8) ∉ v)
    (h : v ≠ [] → readInfo o key v ≠ .outside) : InDom o (kq ++ v) := by
  by_cases hv : v = []
  · subst hv; rw [hkq, List.append_nil]; exact inDom_kv_empty o key hk
  · rw [hkq, List.append_assoc, List.singleton_append]; exact inDom_kv o key v hk hv h10 (h hv)

theorem grammar_ne (e : List Effect) : LineClass.grammar e ≠ .outside := by simp

theorem dom_textLine (o : OutOracle) (key kq v : Bytes) (hkq : kq = key ++ [61]) (hk : key ∈ textKeys) (h10 : noLF v = true) :
    ∀ l ∈ textLine kq v, InDom o l := by
  intro l hl
  unfold textLine at hl
  split at hl
  · simp only [List.mem_singleton] at hl; subst hl
    exact inDom_kq o key kq v hkq (text_sub key hk) ((noLF_iff v).1 h10) (fun _ => by rw [readInfo_text o key v hk]; simp)
  · simp at hl

theorem dom_num (o : OutOracle) (key kq : Bytes) (n : Nat) (hkq : kq = key ++ [61]) (hk : key ∈ numKeys ∨ key ∈ num0Keys)
    (hn : inU32 n = true) : InDom o (kq ++ utoa n) := by
  rcases hk with hk | hk
  · exact inDom_kq o key kq _ hkq (num_sub key hk) (not_mem_utoa n 10 (by decide))
      (fun _ => by rw [readInfo_num o key _ hk, ofNum_utoa n (inU32_le n hn)]; simp)
  · exact inDom_kq o key kq _ hkq (num0_sub key hk) (not_mem_utoa n 10 (by decide))
      (fun _ => by rw [readInfo_num0 o key _ hk, ofNum_utoa n (inU32_le n hn)]; simp)

theorem dom_payload (o : OutOracle) (key kq t : Bytes) (hkq : kq = key ++ [61]) (hk : key ∈ payloadKeys) (h10 : (10 : UInt8) ∉ t) :
    InDom o (kq ++ t) := by
  refine inDom_kq o key kq t hkq (payload_sub key hk) h10 (fun _ => ?_)
  by_cases hs : key = asc "_panelTopology_svgbase"
  · subst hs; rw [readInfo_svg]; simp
  · rw [readInfo_payload o key t hk hs]; simp

theorem dom_items (o : OutOracle) (key kq : Bytes) (items : List Bytes) (hkq : kq = key ++ [61])
    (hk : key = asc "_serverModeLockToIP" ∨ key = asc "_connections") (hall : items.all itemOk = true) :
    InDom o (kq ++ join 59 items) := by
  have hki : key ∈ infoKeys := by rcases hk with h | h <;> subst h <;> decide
  by_cases hne : items = []
  · subst hne; simp only [join, List.append_nil]; rw [hkq]; exact inDom_kv_empty o key hki
  · obtain ⟨_, h10⟩ := join_items_props items hall hne
    exact inDom_kq o key kq _ hkq hki h10 (fun _ => by rw [readInfo_items o key _ hk]; simp)

theorem dom_flow (o : OutOracle) (f : Int) : ∀ l ∈ flowLines f, InDom o l := by
  have key : ∀ w : Bytes, w ∈ flowWords → (10 : UInt8) ∉ w → InDom o w := by
    intro w hw h10
    apply inDom_of o w (.grammar [.flow w]) h10 _ (by simp)
    unfold readLine
    rw [contains_false_of _ _ h10]
    simp [hw]
  intro l hl
  unfold flowLines at hl
  repeat' split at hl
  all_goals first
    | (simp only [List.mem_singleton] at hl; subst hl; exact key _ (by decide) (by decide))
    | (simp at hl)

theorem dom_panelType (o : OutOracle) (t : Int) : ∀ l ∈ panelTypeLines t, InDom o l := by
  have hk : kPanelType = asc "_panelType" ++ [61] := by decide
  intro l hl
  unfold panelTypeLines at hl
  cases hw : panelTypeWord t with
  | none => rw [hw] at hl; simp at hl
  | some w =>
    rw [hw] at hl
    simp only [List.mem_singleton] at hl; subst hl
    have hmem : w ∈ panelTypeWords ∧ (10 : UInt8) ∉ w := by
      unfold panelTypeWord at hw
      repeat' split at hw
      all_goals first | (injection hw with hw; subst hw; decide) | exact absurd hw (by simp)
    refine inDom_kq o _ _ w hk (by decide) hmem.2 (fun _ => ?_)
    rw [readInfo_other o _ _ (by decide)]
    unfold readInfoOther
    rw [if_neg (by decide), if_neg (by decide), if_pos rfl, if_pos hmem.1]
    simp

theorem dom_env (o : OutOracle) (t : Int) : ∀ l ∈ envLines t, InDom o l := by
  have hk : kEnvHealth = asc "EnvironmentalHealth" ++ [61] := by decide
  intro l hl
  unfold envLines at hl
  cases hw : envWord t with
  | none => rw [hw] at hl; simp at hl
  | some w =>
    rw [hw] at hl
    simp only [List.mem_singleton] at hl; subst hl
    have hmem : w ∈ runModeWords ∧ (10 : UInt8) ∉ w := by
      unfold envWord at hw
      repeat' split at hw
      all_goals first | (injection hw with hw; subst hw; decide) | exact absurd hw (by simp)
    refine inDom_kq o _ _ w hk (by decide) hmem.2 (fun _ => ?_)
    rw [readInfo_other o _ _ (by decide)]
    unfold readInfoOther
    rw [if_neg (by decide), if_neg (by decide), if_neg (by decide), if_pos rfl, if_pos hmem.1]
    simp

theorem dom_support (o : OutOracle) (s : Support) : InDom o (supportLine s) := by
  apply inDom_of o _ _ (supportLine_noLF s) (caps_all_subsets o s)
  split <;> simp

theorem dom_panelInfo (o : OutOracle) (p : PanelInfo) (h : panelInfoOk p = true) : ∀ l ∈ panelInfoLines p, InDom o l := by
  unfold panelInfoOk at h
  simp only [Bool.and_eq_true] at h
  obtain ⟨⟨⟨⟨⟨⟨⟨h1, h2⟩, h3⟩, h4⟩, h5⟩, h6⟩, h7⟩, _⟩ := h
  intro l hl
  unfold panelInfoLines panelInfoHead at hl
  simp only [List.mem_append] at hl
  rcases hl with (((((((((hl | hl) | hl) | hl) | hl) | hl) | hl) | hl) | hl) | hl)
  · exact dom_textLine o (asc "_model") _ _ (by decide) (by decide) h1 l hl
  · exact dom_textLine o (asc "_serial") _ _ (by decide) (by decide) h2 l hl
  · exact dom_textLine o (asc "_version") _ _ (by decide) (by decide) h4 l hl
  · exact dom_textLine o (asc "_name") _ _ (by decide) (by decide) h3 l hl
  · exact dom_textLine o (asc "_platform") _ _ (by decide) (by decide) h5 l hl
  · split at hl
    · simp only [List.mem_singleton] at hl; subst hl
      have hk : kBluePill1 = asc "_bluePillReady" ++ 61 :: [49] := by decide
      rw [hk]
      refine inDom_kv o _ _ (by decide) (by decide) (by decide) ?_
      rw [readInfo_other o _ _ (by decide)]
      unfold readInfoOther
      rw [if_pos rfl]
      have : readNum [49] = some 1 := by decide
      simp [ofNum, this]
    · simp at hl
  · split at hl
    · simp only [List.mem_singleton] at hl; subst hl
      exact dom_num o (asc "_serverModeMaxClients") _ _ (by decide) (Or.inr (by decide)) h6
    · simp at hl
  · split at hl
    · simp only [List.mem_singleton] at hl; subst hl
      exact dom_items o (asc "_serverModeLockToIP") _ _ (by decide) (Or.inl rfl) h7
    · simp at hl
  · exact dom_panelType o _ l hl
  · cases hsup : p.support with
    | none => rw [hsup] at hl; simp at hl
    | some sp =>
      rw [hsup] at hl
      simp only [List.mem_singleton] at hl; subst hl
      exact dom_support o sp

theorem dom_optLine {α : Type} (o : OutOracle) (x : Option α) (f : α → Bytes) (h : ∀ a, x = some a → InDom o (f a)) :
    ∀ l ∈ optLine x f, InDom o l := by
  intro l hl
  cases x with
  | none => simp [optLine] at hl
  | some a => simp only [optLine, List.mem_singleton] at hl; subst hl; exact h a rfl

theorem dom_optLines {α : Type} (o : OutOracle) (x : Option α) (f : α → List Bytes) (h : ∀ a, x = some a → ∀ l ∈ f a, InDom o l) :
    ∀ l ∈ optLines x f, InDom o l := by
  intro l hl
  cases x with
  | none => simp [optLines] at hl
  | some a => exact h a rfl l hl

theorem dom_runTime (o : OutOracle) (r : RunTimeStats)
    (h : (inU32 r.bootsCount && inU32 r.totalUptime && inU32 r.sessionUptime && inU32 r.screenSaveOnTime) = true) :
    ∀ l ∈ runTimeLines r, InDom o l := by
  simp only [Bool.and_eq_true] at h
  obtain ⟨⟨⟨h1, h2⟩, h3⟩, h4⟩ := h
  intro l hl
  unfold runTimeLines at hl
  simp only [List.mem_append] at hl
  rcases hl with ((hl | hl) | hl) | hl
  · split at hl
    · simp only [List.mem_singleton] at hl; subst hl; exact dom_num o (asc "_bootsCount") _ _ (by decide) (Or.inr (by decide)) h1
    · simp at hl
  · split at hl
    · simp only [List.mem_singleton] at hl; subst hl; exact dom_num o (asc "_totalUptimeMin") _ _ (by decide) (Or.inr (by decide)) h2
    · simp at hl
  · split at hl
    · simp only [List.mem_singleton] at hl; subst hl; exact dom_num o (asc "_sessionUptimeMin") _ _ (by decide) (Or.inr (by decide)) h3
    · simp at hl
  · split at hl
    · simp only [List.mem_singleton] at hl; subst hl; exact dom_num o (asc "_screenSaverOnMin") _ _ (by decide) (Or.inr (by decide)) h4
    · simp at hl

theorem dom_sysStat (o : OutOracle) (s : SysStat) (h : sysStatOk o s = true) : InDom o (sysStatLine o s) := by
  have hk : kSysStat = asc "SysStat" ++ [61] := by decide
  have hclean := fields_clean o s h
  have h10 : (10 : UInt8) ∉ (sysStatFields o s).flatMap (fun kv => kv.1 ++ 58 :: (kv.2 ++ [58])) := by
    intro hm
    simp only [List.mem_flatMap, List.mem_append, List.mem_cons, List.not_mem_nil, or_false] at hm
    obtain ⟨kv, hkv, hm⟩ := hm
    rcases hm with hm | hm | hm | hm
    · exact (hclean kv hkv).1.2 hm
    · exact absurd hm (by decide)
    · exact (hclean kv hkv).2.2 hm
    · exact absurd hm (by decide)
  unfold sysStatLine
  refine inDom_kq o _ _ _ hk (by decide) h10 (fun _ => ?_)
  rw [readInfo_other o _ _ (by decide)]
  unfold readInfoOther
  rw [if_neg (by decide), if_neg (by decide), if_neg (by decide), if_neg (by decide), if_neg (by decide), if_neg (by decide),
    if_neg (by decide), if_pos rfl, readSysStat_fields o s h]
  simp

theorem dom_event (o : OutOracle) (e : Event) (h : eventOk e = true) : ∀ l ∈ eventLines e, InDom o l := by
  unfold eventOk at h
  simp only [Bool.and_eq_true] at h
  obtain ⟨⟨⟨⟨⟨hid, hb⟩, hp⟩, ha⟩, hs⟩, hr⟩ := h
  have hid' := inU32_le _ hid
  intro l hl
  unfold eventLines at hl
  simp only [List.mem_append] at hl
  rcases hl with (((hl | hl) | hl) | hl) | hl
  · refine dom_optLine o _ _ (fun b hbe => ?_) l hl
    rw [hbe] at hb
    exact inDom_of o _ _ (binaryLine_noLF _ b) (event_line o e.hwcid hid' b.edge hb b.pressed) (by simp)
  · refine dom_optLine o _ _ (fun v hv => ?_) l hl
    rw [hv] at hp
    exact inDom_of o _ _ (valueLine_noLF _ _ _ (by decide) (not_mem_itoa v 10 (by decide) (by decide))) (enc_line o e.hwcid hid' v hp) (by simp)
  · refine dom_optLine o _ _ (fun v hv => ?_) l hl
    rw [hv] at ha
    exact inDom_of o _ _ (valueLine_noLF _ _ _ (by decide) (not_mem_utoa v 10 (by decide))) (abs_line o e.hwcid hid' v (inU32_le _ ha)) (by simp)
  · refine dom_optLine o _ _ (fun v hv => ?_) l hl
    rw [hv] at hs
    exact inDom_of o _ _ (valueLine_noLF _ _ _ (by decide) (not_mem_itoa v 10 (by decide) (by decide))) (speed_line o e.hwcid hid' v hs) (by simp)
  · refine dom_optLine o _ _ (fun v hv => ?_) l hl
    rw [hv] at hr
    exact inDom_of o _ _ (valueLine_noLF _ _ _ (by decide) (not_mem_utoa v 10 (by decide))) (raw_line o e.hwcid hid' v (inU32_le _ hr)) (by simp)

theorem dom_register (o : OutOracle) (r : Register) (hr : registerOk r = true) : ∀ l ∈ registerLines r, InDom o l := by
  have hno := registerLines_noLF r hr
  unfold registerOk at hr
  simp only [Bool.and_eq_true, decide_eq_true_eq] at hr
  obtain ⟨⟨⟨h0, h3⟩, hv⟩, hid⟩ := hr
  have hvv : r.value ≤ u32Max := by simpa [inU32] using hv
  have hv10 : (10 : UInt8) ∉ utoa r.value := not_mem_utoa _ 10 (by decide)
  intro l hl
  have h10 := hno l hl
  unfold registerLines regPrefix at hl
  have hcases : r.reg = 0 ∨ r.reg = 1 ∨ r.reg = 2 ∨ r.reg = 3 := by omega
  rcases hcases with h | h | h | h
  · rw [h] at hid hl
    simp only [show ¬ ((0:Int) = 1) by decide, if_false] at hid
    simp only [if_true, List.mem_singleton] at hl
    subst hl
    refine inDom_of o _ _ h10 (readLine_reg o _ _ _ (Or.inl rfl) hid hv10) ?_
    rw [readRegister_word _ _ _ hvv (Or.inl rfl) hid]; simp
  · rw [h] at hid hl
    simp only [if_true, Bool.and_eq_true] at hid
    simp only [show ¬ ((1:Int) = 0) by decide, if_false, if_true, List.mem_singleton] at hl
    subst hl
    refine inDom_of o _ _ h10 (readLine_reg o _ _ _ (Or.inr (Or.inr (Or.inr rfl))) (digits_upper _ hid.1) hv10) ?_
    rw [readRegister_flag _ _ hvv hid.1 (by simpa [inU32] using hid.2)]; simp
  · rw [h] at hid hl
    simp only [show ¬ ((2:Int) = 1) by decide, if_false] at hid
    simp only [show ¬ ((2:Int) = 0) by decide, show ¬ ((2:Int) = 1) by decide, if_false, if_true, List.mem_singleton] at hl
    subst hl
    refine inDom_of o _ _ h10 (readLine_reg o _ _ _ (Or.inr (Or.inl rfl)) hid hv10) ?_
    rw [readRegister_word _ _ _ hvv (Or.inr (Or.inl rfl)) hid]; simp
  · rw [h] at hid hl
    simp only [show ¬ ((3:Int) = 1) by decide, if_false] at hid
    simp only [show ¬ ((3:Int) = 0) by decide, show ¬ ((3:Int) = 1) by decide, show ¬ ((3:Int) = 2) by decide, if_false, if_true,
      List.mem_singleton] at hl
    subst hl
    refine inDom_of o _ _ h10 (readLine_reg o _ _ _ (Or.inr (Or.inr (Or.inl rfl))) hid hv10) ?_
    rw [readRegister_word _ _ _ hvv (Or.inr (Or.inr rfl)) hid]; simp

/-- every line produced for one message of the domain -/
theorem encMsgRaw_dom (o : OutOracle) (m : OutMsg) (h : inDomainMsg o m = true) : ∀ l ∈ encMsgRaw o m, InDom o l := by
  unfold inDomainMsg at h
  simp only [Bool.and_eq_true] at h
  obtain ⟨⟨⟨⟨⟨⟨⟨⟨⟨⟨⟨⟨⟨⟨⟨⟨⟨⟨⟨_, hmap⟩, _⟩, hpi⟩, ftopo⟩, fburn⟩, fcal⟩, fdcal⟩, hnet⟩, hst⟩, hhb⟩, hdg⟩, hconn⟩, hrts⟩, ferr⟩, fmsg⟩, henv⟩, hsys⟩, hev⟩, hreg⟩ := h
  intro l hl
  unfold encMsgRaw at hl
  simp only [List.mem_append] at hl
  rcases hl with (((((((((((((((((((hl | hl) | hl) | hl) | hl) | hl) | hl) | hl) | hl) | hl) | hl) | hl) | hl) | hl) | hl) | hl) | hl) | hl) | hl) | hl)
  · exact dom_flow o m.flow l hl
  · exact dom_optLines o _ _ (fun p hp => dom_panelInfo o p (by rw [hp] at hpi; exact hpi)) l hl
  · refine dom_optLines o _ _ (fun t _ => ?_) l hl
    intro l' hl'
    unfold topologyLines at hl'
    simp only [List.mem_cons, List.not_mem_nil, or_false] at hl'
    rcases hl' with rfl | rfl
    · exact dom_payload o (asc "_panelTopology_svgbase") _ _ (by decide) (by decide) (C07.stripSvg_no_lf _)
    · exact dom_payload o (asc "_panelTopology_HWC") _ _ (by decide) (by decide) (C07.strip_no_lf _)
  · exact dom_optLine o _ _ (fun j _ => dom_payload o (asc "_burninProfile") _ _ (by decide) (by decide) (C07.strip_no_lf j)) l hl
  · refine dom_optLine o _ _ (fun c hc => ?_) l hl
    rw [hc] at hnet
    simp only [optOk, Bool.and_eq_true, beq_iff_eq, bne_iff_ne, ne_eq] at hnet
    have hk : kNetCfg = asc "_networkConfig" ++ [61] := by decide
    refine inDom_kq o _ _ _ hk (by decide) ((noLF_iff _).1 hnet.1.2) (fun _ => ?_)
    rw [readInfo_other o _ _ (by decide)]
    unfold readInfoOther
    rw [if_neg (by decide), if_neg (by decide), if_neg (by decide), if_neg (by decide), if_neg (by decide), if_pos rfl, hnet.1.1]
    simp
  · exact dom_optLine o _ _ (fun j _ => dom_payload o (asc "_calibrationProfile") _ _ (by decide) (by decide) (C07.strip_no_lf j)) l hl
  · exact dom_optLine o _ _ (fun j _ => dom_payload o (asc "_defaultCalibrationProfile") _ _ (by decide) (by decide) (C07.strip_no_lf j)) l hl
  · exact dom_optLine o _ _ (fun v hv => dom_num o (asc "_sleepTimer") _ _ (by decide) (Or.inl (by decide)) (by rw [hv] at hst; exact hst)) l hl
  · refine dom_optLine o _ _ (fun b _ => ?_) l hl
    have hk : kIsSleeping = asc "_isSleeping" ++ [61] := by decide
    refine inDom_kq o _ _ _ hk (by decide) (by cases b <;> decide) (fun _ => ?_)
    rw [readInfo_other o _ _ (by decide)]
    unfold readInfoOther
    rw [if_neg (by decide), if_pos rfl]
    cases b
    · have : readNum (b01 false) = some 0 := by decide
      simp [ofNum, this]
    · have : readNum (b01 true) = some 1 := by decide
      simp [ofNum, this]
  · exact dom_optLine o _ _ (fun v hv => dom_num o (asc "_heartBeatTimer") _ _ (by decide) (Or.inl (by decide)) (by rw [hv] at hhb; exact hhb)) l hl
  · exact dom_optLine o _ _ (fun v hv => dom_num o (asc "DimmedGain") _ _ (by decide) (Or.inl (by decide)) (by rw [hv] at hdg; exact hdg)) l hl
  · exact dom_optLine o _ _ (fun c hc => dom_items o (asc "_connections") _ c (by decide) (Or.inr rfl) (by rw [hc] at hconn; exact hconn)) l hl
  · exact dom_optLines o _ _ (fun r hr => dom_runTime o r (by rw [hr] at hrts; exact hrts)) l hl
  · exact dom_optLine o _ _ (fun j _ => dom_payload o (asc "ErrorMsg") _ _ (by decide) (by decide) (C07.strip_no_lf j)) l hl
  · exact dom_optLine o _ _ (fun j _ => dom_payload o (asc "Msg") _ _ (by decide) (by decide) (C07.strip_no_lf j)) l hl
  · simp only [List.mem_map] at hl
    obtain ⟨kv, hkv, rfl⟩ := hl
    rw [List.all_eq_true] at hmap
    have := hmap kv hkv
    simp only [Bool.and_eq_true] at this
    exact inDom_of o _ _ (mapLine_noLF kv) (map_line o kv.1 kv.2 (inU32_le _ this.1) (inU32_le _ this.2)) (by simp)
  · exact dom_optLines o _ _ (fun e _ => dom_env o e) l hl
  · exact dom_optLine o _ _ (fun s hs => dom_sysStat o s (by rw [hs] at hsys; exact hsys)) l hl
  · simp only [List.mem_flatMap] at hl
    obtain ⟨e, he, hl⟩ := hl
    rw [List.all_eq_true] at hev
    exact dom_event o e (hev e he) l hl
  · simp only [List.mem_flatMap] at hl
    obtain ⟨r, hr, hl⟩ := hl
    rw [List.all_eq_true] at hreg
    exact dom_register o r (hreg r hr) l hl

/-- **the encoder's output is in the decoder theorem's domain** -/
theorem encOut_inDomainLines (o : OutOracle) (ms : List OutMsg) (h : inDomainOut o ms = true) :
    inDomainLines o (encOut o ms) = true := by
  unfold inDomainOut at h
  rw [List.all_eq_true] at h
  unfold inDomainLines
  rw [List.all_eq_true]
  intro l hl
  unfold encOut at hl
  simp only [List.mem_map, List.mem_flatMap] at hl
  obtain ⟨r, ⟨m, hm, hr⟩, rfl⟩ := hl
  have := encMsgRaw_dom o m (h m hm) r hr
  unfold InDom at this
  simpa using this

end RawPanelVerif.OutLemmas
