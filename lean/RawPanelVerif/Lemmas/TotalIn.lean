import RawPanelVerif.Lemmas.InBits
import RawPanelVerif.Lemmas.StripOneLine
import RawPanelVerif.Lemmas.StripContent
/-!
# Inbound half of C06: the two inbound converters are total and never return a nil message

The Go constructs that can panic are explicit in the models (`Except Panic`): the `TextStyling` dereference of the
text encoder, the slice expression of the chunk loop, the constant indexing of regex sub-matches.  Theorems, for ALL
inputs (any messages: any presence pattern, any integers; any byte strings; any `encoding/json` results):

* `encIn_total`           `encInE O ms = .ok (encIn O ms)`               (repaired tree)
* `encInPinned_panics_counterexample`  the pinned tree panics on formatting 10 without `TextStyling`
* `decIn_total`           `∃ r, decInE O ls = .ok r`
* `decIn_no_nil_message`  every element of the result is a message       (repaired tree)
* `decInPinned_nil_counterexample`     the pinned tree returns a nil message for `[null]`
* `encIn_no_lf`           no returned string contains a line feed
-/
namespace RawPanelVerif.TotalIn
open RawPanelVerif RawPanelVerif.Bytes RawPanelVerif.MsgIn RawPanelVerif.Model.In RawPanelVerif.InBits

/-! ## encoder -/

theorem bpl : Gen.bytesPerLine = 170 := rfl

theorem totalLines_eq (len : Nat) : totalLines len = (len + 169) / 170 := by
  unfold totalLines; rw [bpl]

theorem chunkAt_eq (data : Bytes) (i : Nat) : chunkAt data i = (data.drop (i * 170)).take 170 := by
  unfold chunkAt; rw [bpl]

/-- the slice expression of the chunk loop is always in bounds (for the indices the loop visits) -/
theorem gfxChunk_ok (data : Bytes) (i : Nat) (h : i < totalLines data.length) :
    gfxChunk data i = .ok (chunkAt data i) := by
  rw [totalLines_eq] at h
  rw [chunkAt_eq]
  unfold gfxChunk goSlice
  simp only []
  have hb : ((Gen.bytesPerLine : Nat) : Int) = 170 := by rw [bpl]; rfl
  have hlt : i * 170 < data.length := by omega
  generalize hseg : (if (data.length : Int) - (i : Int) * ((Gen.bytesPerLine : Nat) : Int) > ((Gen.bytesPerLine : Nat) : Int)
      then ((Gen.bytesPerLine : Nat) : Int) else (data.length : Int) - (i : Int) * ((Gen.bytesPerLine : Nat) : Int)) = seg
  have hs : seg = min 170 ((data.length : Int) - i * 170) := by
    rw [← hseg, hb]; split <;> omega
  rw [hb]
  rw [if_pos (by omega)]
  have e1 : ((i : Int) * 170).toNat = i * 170 := by omega
  have e2 : ((i : Int) * 170 + seg - (i : Int) * 170).toNat = min 170 (data.length - i * 170) := by omega
  rw [e1, e2]
  have hl : (data.drop (i * 170)).length = data.length - i * 170 := by simp
  by_cases hc : 170 ≤ data.length - i * 170
  · rw [Nat.min_eq_left hc]
  · rw [Nat.min_eq_right (by omega), List.take_of_length_le (by omega), List.take_of_length_le (by omega)]

theorem chunks_flatten (k : Nat) (n : Nat) (data : Bytes) (h : data.length ≤ n * k) :
    ((List.range n).map (fun i => (data.drop (i * k)).take k)).flatten = data := by
  induction n generalizing data with
  | zero =>
    have : data = [] := by
      cases data with
      | nil => rfl
      | cons a as => simp at h
    subst this; rfl
  | succ n ih =>
    rw [List.range_succ_eq_map, List.map_cons, List.flatten_cons, List.map_map]
    have e : ((fun i => (data.drop (i * k)).take k) ∘ Nat.succ) = fun i => ((data.drop k).drop (i * k)).take k := by
      funext i
      simp only [Function.comp, List.drop_drop]
      congr 2
      rw [Nat.succ_mul]; omega
    rw [e, ih (data.drop k) (by simp only [List.length_drop]; rw [Nat.succ_mul] at h; omega)]
    simp

/-- the chunks, in order, are the image -/
theorem chunks_concat (data : Bytes) :
    ((List.range (totalLines data.length)).map (chunkAt data)).flatten = data := by
  have := chunks_flatten 170 (totalLines data.length) data (by rw [totalLines_eq]; omega)
  have e : chunkAt data = fun i => (data.drop (i * 170)).take 170 := by funext i; exact chunkAt_eq data i
  rw [e]; exact this

theorem chunk_len_le (data : Bytes) (i : Nat) (h : i < totalLines data.length) : (chunkAt data i).length ≤ 170 := by
  rw [totalLines_eq] at h
  rw [chunkAt_eq]
  simp only [List.length_take, List.length_drop]
  omega

theorem mapE_ok {α β : Type} (f : α → Except Panic β) (g : α → β) (l : List α)
    (h : ∀ a ∈ l, f a = .ok (g a)) : mapE f l = .ok (l.map g) := by
  induction l with
  | nil => rfl
  | cons a as ih =>
    unfold mapE
    rw [h a (by simp), ih (fun x hx => h x (by simp [hx]))]
    rfl

theorem textField0_ok (t : Text) : textField0 false t = .ok (textField0P t) := by
  unfold textField0 textField0P
  split
  · rfl
  · split
    · unfold ufsOf; cases t.textStyling <;> rfl
    · rfl

theorem textLines_ok (id : Nat) (t : Option Text) : textLines false id t = .ok (textLinesP id t) := by
  unfold textLines textLinesP
  cases t with
  | none => rfl
  | some t =>
    simp only []
    split
    · rfl
    · unfold textFields
      rw [textField0_ok]

theorem gfxLines_ok (id : Nat) (g : Option Gfx) : gfxLines id g = .ok (gfxLinesP id g) := by
  unfold gfxLines gfxLinesP
  cases g with
  | none => rfl
  | some g =>
    simp only []
    split
    · rfl
    · apply mapE_ok
      intro i hi
      unfold gfxLine
      rw [gfxChunk_ok _ _ (by simpa using hi)]

theorem idLines_ok (s : State) (id : Nat) : idLines false s id = .ok (idLinesP s id) := by
  unfold idLines idLinesP
  rw [textLines_ok, gfxLines_ok]

theorem stateLines_ok (s : State) : stateLines false s = .ok (stateLinesP s) := by
  unfold stateLines stateLinesP
  rw [mapE_ok _ _ _ (fun id _ => idLines_ok s id)]
  simp only [List.flatMap]

theorem msgLines_ok (O : Oracles) (m : InMsg) : msgLines O false m = .ok (msgLinesP O m) := by
  unfold msgLines msgLinesP
  rw [mapE_ok _ _ _ (fun s _ => stateLines_ok s)]
  simp only [List.flatMap]

/-- **the inbound encoder never panics** (repaired tree): for every list of messages it returns `encIn O ms` -/
theorem encIn_total (O : Oracles) (ms : List InMsg) : encInE O ms = .ok (encIn O ms) := by
  unfold encInE encRaw encIn encRawP
  rw [mapE_ok _ _ _ (fun m _ => msgLines_ok O m)]
  simp only [List.flatMap]

/-- the pinned tree dereferences a nil `TextStyling` (line 873): formatting 10 without styling panics -/
theorem encInPinned_panics_counterexample (O : Oracles) :
    encInPinnedE O [{ states := [{ ids := [1], text := some { formatting := 10 } }] }] = .error .nilDeref := by
  rfl

/-- every string the encoder returns is one line -/
theorem encIn_no_lf (O : Oracles) (ms : List InMsg) : ∀ l ∈ encIn O ms, (10 : UInt8) ∉ l := by
  intro l hl
  unfold encIn at hl
  simp only [List.mem_map] at hl
  obtain ⟨r, _, rfl⟩ := hl
  exact C07.singleLine_no_lf r

/-! ## decoder -/

theorem matchCmd_len (s : Bytes) (m : List Bytes) (h : matchCmd s = some m) : ∃ a b c d, m = [a, b, c, d] := by
  unfold matchCmd at h
  repeat' split at h
  all_goals first
    | (simp at h; done)
    | (simp only [Option.some.injEq] at h; exact ⟨_, _, _, _, h.symm⟩)

theorem matchSingle_len (s : Bytes) (m : List Bytes) (h : matchSingle s = some m) : ∃ a b c, m = [a, b, c] := by
  unfold matchSingle at h
  repeat' split at h
  all_goals first
    | (simp at h; done)
    | (simp only [Option.some.injEq] at h; exact ⟨_, _, _, h.symm⟩)

theorem matchDual_len (s : Bytes) (m : List Bytes) (h : matchDual s = some m) : ∃ a b c d, m = [a, b, c, d] := by
  unfold matchDual at h
  repeat' split at h
  all_goals first
    | (simp at h; done)
    | (simp only [Option.some.injEq] at h; exact ⟨_, _, _, _, h.symm⟩)

theorem matchStr_len (s : Bytes) (m : List Bytes) (h : matchStr s = some m) : ∃ a b c, m = [a, b, c] := by
  unfold matchStr at h
  repeat' split at h
  all_goals first
    | (simp at h; done)
    | (simp only [Option.some.injEq] at h; exact ⟨_, _, _, h.symm⟩)

theorem matchReg_len (s : Bytes) (m : List Bytes) (h : matchReg s = some m) : ∃ a b c d, m = [a, b, c, d] := by
  unfold matchReg at h
  repeat' split at h
  all_goals first
    | (simp at h; done)
    | (simp only [Option.some.injEq] at h; exact ⟨_, _, _, _, h.symm⟩)

theorem matchGfx_len (s : Bytes) (m : List Bytes) (h : matchGfx s = some m) :
    ∃ a0 a1 a2 a3 a4 a5 a6 a7 a8 a9 a10 a11, m = [a0, a1, a2, a3, a4, a5, a6, a7, a8, a9, a10, a11] := by
  unfold matchGfx at h
  repeat' split at h
  all_goals first
    | (simp at h; done)
    | (simp only [Option.some.injEq] at h; exact ⟨_, _, _, _, _, _, _, _, _, _, _, _, h.symm⟩)

theorem decCmd_ok (a b c d : Bytes) : ∃ r, decCmd [a, b, c, d] = .ok r := by
  simp only [decCmd, sub, bind, Except.bind, pure, Except.pure, List.getElem?_cons_succ, List.getElem?_cons_zero]
  repeat' split
  all_goals exact ⟨_, rfl⟩

theorem decSingle_ok (a b c : Bytes) : ∃ r, decSingle [a, b, c] = .ok r := by
  simp only [decSingle, sub, bind, Except.bind, pure, Except.pure, List.getElem?_cons_succ, List.getElem?_cons_zero]
  repeat' split
  all_goals exact ⟨_, rfl⟩

theorem decDual_ok (a b c d : Bytes) : ∃ r, decDual [a, b, c, d] = .ok r := by
  simp only [decDual, sub, bind, Except.bind, pure, Except.pure, List.getElem?_cons_succ, List.getElem?_cons_zero]
  repeat' split
  all_goals exact ⟨_, rfl⟩

theorem decStr_ok (O : Oracles) (a b c : Bytes) : ∃ r, decStr O [a, b, c] = .ok r := by
  simp only [decStr, sub, bind, Except.bind, pure, Except.pure, List.getElem?_cons_succ, List.getElem?_cons_zero]
  repeat' split
  all_goals exact ⟨_, rfl⟩

theorem decReg_ok (a b c d : Bytes) : ∃ r, decReg [a, b, c, d] = .ok r := by
  simp only [decReg, sub, bind, Except.bind, pure, Except.pure, List.getElem?_cons_succ, List.getElem?_cons_zero]
  repeat' split
  all_goals exact ⟨_, rfl⟩

theorem decGfx_ok (pinned : Bool) (st : GfxSt) (a0 a1 a2 a3 a4 a5 a6 a7 a8 a9 a10 a11 : Bytes) :
    ∃ r, decGfx pinned st [a0, a1, a2, a3, a4, a5, a6, a7, a8, a9, a10, a11] = .ok r := by
  simp only [decGfx, sub, bind, Except.bind, pure, Except.pure, List.getElem?_cons_succ, List.getElem?_cons_zero]
  repeat' split
  all_goals exact ⟨_, rfl⟩

def AllSome (l : List (Option InMsg)) : Prop := ∀ m ∈ l, m.isSome = true

theorem allSome_append (l : List (Option InMsg)) (msg : InMsg) (h : AllSome l) : AllSome (l ++ [some msg]) := by
  intro x hx
  simp only [List.mem_append, List.mem_singleton] at hx
  rcases hx with hx | hx
  · exact h x hx
  · subst hx; rfl

theorem allSome_push (st : DecSt) (m : Option InMsg) (h : AllSome st.out) :
    AllSome (match m with | some msg => ({ out := st.out ++ [some msg], gfx := st.gfx } : DecSt) | none => st).out := by
  cases m with
  | none => exact h
  | some msg => exact allSome_append _ _ h

theorem allSome_setGfxAt (l : List (Option InMsg)) (pos : Nat) (g : Gfx) (h : AllSome l) : AllSome (setGfxAt l pos g) := by
  unfold setGfxAt
  split
  · intro x hx
    rcases List.mem_or_eq_of_mem_set hx with hx | hx
    · exact h x hx
    · subst hx; rfl
  · exact h

theorem decLine_spec (O : Oracles) (pinned : Bool) (st : DecSt) (s : Bytes) :
    ∃ st', decLine O pinned st s = .ok st' ∧ (pinned = false → AllSome st.out → AllSome st'.out) := by
  unfold decLine
  simp only [bind, Except.bind, pure, Except.pure]
  split
  · -- literal
    rename_i m _
    refine ⟨_, rfl, fun _ h => ?_⟩
    exact allSome_push st m h
  · split
    · refine ⟨_, rfl, fun _ h => allSome_append _ _ h⟩
    · split
      · refine ⟨_, rfl, fun hp h => ?_⟩
        subst hp
        intro x hx
        simp only [Bool.false_eq_true, if_false, List.mem_append, List.mem_filter] at hx
        rcases hx with hx | hx
        · exact h x hx
        · exact hx.2
      · split
        · rename_i m hm
          obtain ⟨a, b, c, d, rfl⟩ := matchCmd_len _ _ hm
          obtain ⟨r, hr⟩ := decCmd_ok a b c d
          rw [hr]
          exact ⟨_, rfl, fun _ h => allSome_push st r h⟩
        · split
          · rename_i m hm
            obtain ⟨a0, a1, a2, a3, a4, a5, a6, a7, a8, a9, a10, a11, rfl⟩ := matchGfx_len _ _ hm
            obtain ⟨⟨g, r⟩, hr⟩ := decGfx_ok pinned st.gfx a0 a1 a2 a3 a4 a5 a6 a7 a8 a9 a10 a11
            rw [hr]
            simp only []
            cases r with
            | none =>
              refine ⟨_, rfl, fun _ h => ?_⟩
              simp only []
              cases g.alias with
              | none => exact h
              | some pos => exact allSome_setGfxAt _ _ _ h
            | some msg =>
              refine ⟨_, rfl, fun _ h => ?_⟩
              simp only []
              have h2 : AllSome (match g.alias with | some pos => setGfxAt st.out pos g.temp | none => st.out) := by
                cases g.alias with
                | none => exact h
                | some pos => exact allSome_setGfxAt _ _ _ h
              exact allSome_append _ msg h2
          · split
            · rename_i m hm
              obtain ⟨a, b, c, rfl⟩ := matchSingle_len _ _ hm
              obtain ⟨r, hr⟩ := decSingle_ok a b c
              rw [hr]
              exact ⟨_, rfl, fun _ h => allSome_push st r h⟩
            · split
              · rename_i m hm
                obtain ⟨a, b, c, d, rfl⟩ := matchDual_len _ _ hm
                obtain ⟨r, hr⟩ := decDual_ok a b c d
                rw [hr]
                exact ⟨_, rfl, fun _ h => allSome_push st r h⟩
              · split
                · rename_i m hm
                  obtain ⟨a, b, c, rfl⟩ := matchStr_len _ _ hm
                  obtain ⟨r, hr⟩ := decStr_ok O a b c
                  rw [hr]
                  exact ⟨_, rfl, fun _ h => allSome_push st r h⟩
                · split
                  · rename_i m hm
                    obtain ⟨a, b, c, d, rfl⟩ := matchReg_len _ _ hm
                    obtain ⟨r, hr⟩ := decReg_ok a b c d
                    rw [hr]
                    exact ⟨_, rfl, fun _ h => allSome_push st r h⟩
                  · exact ⟨_, rfl, fun _ h => allSome_append _ _ h⟩


theorem decLines_spec (O : Oracles) (pinned : Bool) (st : DecSt) (ls : List Bytes) :
    ∃ st', decLines O pinned st ls = .ok st' ∧ (pinned = false → AllSome st.out → AllSome st'.out) := by
  induction ls generalizing st with
  | nil => exact ⟨st, rfl, fun _ h => h⟩
  | cons l ls ih =>
    obtain ⟨st1, h1, k1⟩ := decLine_spec O pinned st l
    obtain ⟨st2, h2, k2⟩ := ih st1
    refine ⟨st2, ?_, fun hp h => k2 hp (k1 hp h)⟩
    unfold decLines
    rw [h1]
    exact h2

/-- **the inbound decoder never panics**: for any byte strings and any JSON results it returns -/
theorem decIn_total (O : Oracles) (ls : List Bytes) : ∃ ms, decInE O ls = .ok ms := by
  obtain ⟨st, h, _⟩ := decLines_spec O false {} ls
  exact ⟨st.out, by unfold decInE; rw [h]⟩

/-- **… and never returns a nil message** (repaired tree) -/
theorem decIn_no_nil_message (O : Oracles) (ls : List Bytes) (ms : List (Option InMsg)) (h : decInE O ls = .ok ms) :
    ∀ m ∈ ms, m.isSome = true := by
  obtain ⟨st, h1, k⟩ := decLines_spec O false {} ls
  unfold decInE at h
  rw [h1] at h
  injection h with h
  subst h
  exact k rfl (fun m hm => by simp at hm)

def nullOracle : Oracles := { netJson := fun _ => [], parseNet := fun _ => none, parseState := fun _ => {}, parseMsgs := fun _ => [none] }

/-- the pinned tree appends the elements of a JSON array unfiltered: `[null]` yields a nil message -/
theorem decInPinned_nil_counterexample :
    decInPinnedE nullOracle [asc "[null]"] = .ok [none] ∧ decInE nullOracle [asc "[null]"] = .ok [] := by
  constructor <;> rfl

end RawPanelVerif.TotalIn
