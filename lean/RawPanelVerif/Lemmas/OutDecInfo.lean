import RawPanelVerif.Lemmas.OutDecKeys
/-! Per-key soundness of the key=value family of the decoder model (C04). -/
namespace RawPanelVerif.OutLemmas
open RawPanelVerif RawPanelVerif.Bytes RawPanelVerif.MsgOut RawPanelVerif.EncOut RawPanelVerif.DecOut
open RawPanelVerif.Spec.Out

/-- effects of what `decGeneric` builds -/
def G (o : OutOracle) (key v : Bytes) : List Effect := (decGeneric o key v).toList.flatMap (effectsOfOut o)

theorem panelTypeEff0 : panelTypeEff 0 = [] := by decide
theorem content_nil : content [] = [] := by decide
theorem payloadEff_nil (k : Bytes) : payloadEff k [] = [] := by unfold payloadEff; simp [normLines_nil]
theorem svgEff_nil : svgEff [] = [] := by unfold svgEff; simp [content_nil]

theorem eff_pi (o : OutOracle) (p : PanelInfo) : effectsOfOut o (piMsg p) = panelInfoEff p := by
  unfold effectsOfOut piMsg
  simp only [flowEff0, optEff, List.flatMap_nil, List.append_nil, List.nil_append, List.map_nil]

theorem eff_topology (o : OutOracle) (t : Topology) :
    effectsOfOut o { topology := some t } = svgEff t.svgbase ++ payloadEff (asc "_panelTopology_HWC") t.json := by
  unfold effectsOfOut
  simp only [flowEff0, optEff, List.flatMap_nil, List.append_nil, List.nil_append, List.map_nil]
theorem eff_burnin (o : OutOracle) (j : Bytes) : effectsOfOut o { burnin := some j } = payloadEff (asc "_burninProfile") j := by
  unfold effectsOfOut
  simp only [flowEff0, optEff, List.flatMap_nil, List.append_nil, List.nil_append, List.map_nil]
theorem eff_cal (o : OutOracle) (j : Bytes) : effectsOfOut o { calibration := some j } = payloadEff (asc "_calibrationProfile") j := by
  unfold effectsOfOut
  simp only [flowEff0, optEff, List.flatMap_nil, List.append_nil, List.nil_append, List.map_nil]
theorem eff_dcal (o : OutOracle) (j : Bytes) : effectsOfOut o { defaultCalibration := some j } = payloadEff (asc "_defaultCalibrationProfile") j := by
  unfold effectsOfOut
  simp only [flowEff0, optEff, List.flatMap_nil, List.append_nil, List.nil_append, List.map_nil]
theorem eff_err (o : OutOracle) (j : Bytes) : effectsOfOut o { errorMsg := some j } = payloadEff (asc "ErrorMsg") j := by
  unfold effectsOfOut
  simp only [flowEff0, optEff, List.flatMap_nil, List.append_nil, List.nil_append, List.map_nil]
theorem eff_msg (o : OutOracle) (j : Bytes) : effectsOfOut o { message := some j } = payloadEff (asc "Msg") j := by
  unfold effectsOfOut
  simp only [flowEff0, optEff, List.flatMap_nil, List.append_nil, List.nil_append, List.map_nil]
theorem eff_st (o : OutOracle) (n : Nat) : effectsOfOut o { sleepTimeout := some n } = numEff (asc "_sleepTimer") n := by
  unfold effectsOfOut
  simp only [flowEff0, optEff, List.flatMap_nil, List.append_nil, List.nil_append, List.map_nil]
theorem eff_hb (o : OutOracle) (n : Nat) : effectsOfOut o { heartBeat := some n } = numEff (asc "_heartBeatTimer") n := by
  unfold effectsOfOut
  simp only [flowEff0, optEff, List.flatMap_nil, List.append_nil, List.nil_append, List.map_nil]
theorem eff_dg (o : OutOracle) (n : Nat) : effectsOfOut o { dimmedGain := some n } = numEff (asc "DimmedGain") n := by
  unfold effectsOfOut
  simp only [flowEff0, optEff, List.flatMap_nil, List.append_nil, List.nil_append, List.map_nil]
theorem eff_ss (o : OutOracle) (b : Bool) : effectsOfOut o { sleepState := some b } = [.info (asc "_isSleeping") (.flag b)] := by
  unfold effectsOfOut
  simp only [flowEff0, optEff, List.flatMap_nil, List.append_nil, List.nil_append, List.map_nil]
theorem eff_conn (o : OutOracle) (c : List Bytes) : effectsOfOut o { connections := some c } = itemsEff (asc "_connections") c := by
  unfold effectsOfOut
  simp only [flowEff0, optEff, List.flatMap_nil, List.append_nil, List.nil_append, List.map_nil]
theorem eff_rts (o : OutOracle) (r : RunTimeStats) : effectsOfOut o { runTimeStats := some r } =
    numEff0 (asc "_bootsCount") r.bootsCount ++ numEff0 (asc "_totalUptimeMin") r.totalUptime ++
    numEff0 (asc "_sessionUptimeMin") r.sessionUptime ++ numEff0 (asc "_screenSaverOnMin") r.screenSaveOnTime := by
  unfold effectsOfOut
  simp only [flowEff0, optEff, List.flatMap_nil, List.append_nil, List.nil_append, List.map_nil]
theorem eff_env (o : OutOracle) (e : Int) : effectsOfOut o { envHealth := some e } = envEff e := by
  unfold effectsOfOut
  simp only [flowEff0, optEff, List.flatMap_nil, List.append_nil, List.nil_append, List.map_nil]
theorem eff_sys (o : OutOracle) (s : SysStat) : effectsOfOut o { sysStat := some s } = sysStatEff o s := by
  unfold effectsOfOut
  simp only [flowEff0, optEff, List.flatMap_nil, List.append_nil, List.nil_append, List.map_nil]
theorem eff_netopt (o : OutOracle) (c : Option NetCfg) : effectsOfOut o { netConfig := c } =
    optEff c (fun c => [.info (asc "_networkConfig") (.net c)]) := by
  unfold effectsOfOut
  simp only [flowEff0, optEff, List.flatMap_nil, List.append_nil, List.nil_append, List.map_nil]

theorem numEff0_zero (k : Bytes) : numEff0 k 0 = [] := by simp [numEff0]

/-! ### capability list in any order, with duplicates / unknown names -/

theorem get_set (s : Support) (c c' : Cap) : (s.set c').get c = (decide (c = c') || s.get c) := by
  cases c <;> cases c' <;> rfl

theorem capOfName_name (c : Cap) : capOfName (Cap.name c) = some c := by cases c <;> decide

theorem capOfName_some (p : Bytes) (c : Cap) (h : capOfName p = some c) : p = Cap.name c := by
  unfold capOfName at h
  by_cases h0 : p = asc "ASCII"
  · rw [if_pos h0] at h; injection h with h; subst h; exact h0
  rw [if_neg h0] at h
  by_cases h1 : p = asc "Binary"
  · rw [if_pos h1] at h; injection h with h; subst h; exact h1
  rw [if_neg h1] at h
  by_cases h2 : p = asc "JSONFeedback"
  · rw [if_pos h2] at h; injection h with h; subst h; exact h2
  rw [if_neg h2] at h
  by_cases h3 : p = asc "JSONonInbound"
  · rw [if_pos h3] at h; injection h with h; subst h; exact h3
  rw [if_neg h3] at h
  by_cases h4 : p = asc "JSONonOutbound"
  · rw [if_pos h4] at h; injection h with h; subst h; exact h4
  rw [if_neg h4] at h
  by_cases h5 : p = asc "System"
  · rw [if_pos h5] at h; injection h with h; subst h; exact h5
  rw [if_neg h5] at h
  by_cases h6 : p = asc "RawADCValues"
  · rw [if_pos h6] at h; injection h with h; subst h; exact h6
  rw [if_neg h6] at h
  by_cases h7 : p = asc "BurninProfile"
  · rw [if_pos h7] at h; injection h with h; subst h; exact h7
  rw [if_neg h7] at h
  by_cases h8 : p = asc "EnvHealth"
  · rw [if_pos h8] at h; injection h with h; subst h; exact h8
  rw [if_neg h8] at h
  by_cases h9 : p = asc "Registers"
  · rw [if_pos h9] at h; injection h with h; subst h; exact h9
  rw [if_neg h9] at h
  by_cases h10 : p = asc "Calibration"
  · rw [if_pos h10] at h; injection h with h; subst h; exact h10
  rw [if_neg h10] at h
  by_cases h11 : p = asc "Processors"
  · rw [if_pos h11] at h; injection h with h; subst h; exact h11
  rw [if_neg h11] at h
  by_cases h12 : p = asc "NetworkSettings"
  · rw [if_pos h12] at h; injection h with h; subst h; exact h12
  rw [if_neg h12] at h
  exact absurd h (by simp)

theorem supportFold_get (parts : List Bytes) (s0 : Support) (c : Cap) :
    (parts.foldl supportStep s0).get c =
      (s0.get c || parts.contains (Cap.name c)) := by
  induction parts generalizing s0 with
  | nil => simp
  | cons p ps ih =>
    simp only [List.foldl_cons, List.contains_cons]
    rw [ih]
    unfold supportStep
    cases hc : capOfName p with
    | none =>
      have : (Cap.name c == p) = false := by
        simp only [beq_eq_false_iff_ne, ne_eq]; intro e
        rw [← e, capOfName_name] at hc; exact absurd hc (by simp)
      simp [this]
    | some c' =>
      have hp := capOfName_some p c' hc
      simp only [get_set]
      by_cases e : c = c'
      · subst e; simp [hp]
      · have : (Cap.name c == p) = false := by
          simp only [beq_eq_false_iff_ne, ne_eq]; intro e'
          rw [hp] at e'; exact e (capName_inj c c' e')
        simp [e, this]

/-- **support_any_order**: for ANY list of parts (any order, duplicates, unknown names) the decoded flag of each of the 13
capabilities is exactly "its name occurs in the list" -/
theorem supportOfParts_get (parts : List Bytes) (c : Cap) : (supportOfParts parts).get c = parts.contains (Cap.name c) := by
  unfold supportOfParts
  rw [supportFold_get]
  cases c <;> rfl

theorem supportFlags_parts (parts : List Bytes) : supportFlags (supportOfParts parts) = capNames.map (fun n => parts.contains n) := by
  rw [supportFlags_eq, capNames_eq, List.map_map]
  apply List.map_congr_left
  intro c _
  exact supportOfParts_get parts c

theorem G_of (o : OutOracle) (key v : Bytes) (m : OutMsg) (h : decGeneric o key v = some m) : G o key v = effectsOfOut o m := by
  unfold G; rw [h]; simp

theorem pi_empty_eff : panelInfoEff {} = [] := by decide

/-- text keys -/
theorem G_text (o : OutOracle) (key v : Bytes) (hk : key ∈ textKeys) (hv : v ≠ []) : G o key v = [.info key (.text v)] := by
  simp only [textKeys, List.mem_cons, List.not_mem_nil, or_false] at hk
  rcases hk with e | e | e | e | e <;> subst e
  · rw [G_of o _ _ _ (dg_model o v), eff_pi]; simp [panelInfoEff, textEff, hv, numEff0, itemsEff, panelTypeEff0, optEff]
  · rw [G_of o _ _ _ (dg_serial o v), eff_pi]; simp [panelInfoEff, textEff, hv, numEff0, itemsEff, panelTypeEff0, optEff]
  · rw [G_of o _ _ _ (dg_version o v), eff_pi]; simp [panelInfoEff, textEff, hv, numEff0, itemsEff, panelTypeEff0, optEff]
  · rw [G_of o _ _ _ (dg_platform o v), eff_pi]; simp [panelInfoEff, textEff, hv, numEff0, itemsEff, panelTypeEff0, optEff]
  · rw [G_of o _ _ _ (dg_name o v), eff_pi]; simp [panelInfoEff, textEff, hv, numEff0, itemsEff, panelTypeEff0, optEff]

/-- payload keys -/
theorem G_payload (o : OutOracle) (key v : Bytes) (hk : key ∈ payloadKeys) :
    G o key v = (if key = asc "_panelTopology_svgbase" then svgEff v else payloadEff key v) := by
  simp only [payloadKeys, List.mem_cons, List.not_mem_nil, or_false] at hk
  rcases hk with e | e | e | e | e | e | e <;> subst e
  · rw [G_of o _ _ _ (dg_svg o v), eff_topology, if_pos rfl]; simp [payloadEff_nil]
  · rw [G_of o _ _ _ (dg_topo o v), eff_topology, if_neg (by decide)]; simp [svgEff_nil]
  · rw [G_of o _ _ _ (dg_burn o v), eff_burnin, if_neg (by decide)]
  · rw [G_of o _ _ _ (dg_cal o v), eff_cal, if_neg (by decide)]
  · rw [G_of o _ _ _ (dg_dcal o v), eff_dcal, if_neg (by decide)]
  · rw [G_of o _ _ _ (dg_err o v), eff_err, if_neg (by decide)]
  · rw [G_of o _ _ _ (dg_msg o v), eff_msg, if_neg (by decide)]

/-- numeric keys (always reported) -/
theorem G_num (o : OutOracle) (key v : Bytes) (hk : key ∈ numKeys) (hn : IsNum v) : G o key v = [.info key (.num (natOfDigits v))] := by
  simp only [numKeys, List.mem_cons, List.not_mem_nil, or_false] at hk
  rcases hk with e | e | e <;> subst e
  · rw [G_of o _ _ _ (dg_st o v), eff_st, u32_num v hn]; rfl
  · rw [G_of o _ _ _ (dg_hb o v), eff_hb, u32_num v hn]; rfl
  · rw [G_of o _ _ _ (dg_dg o v), eff_dg, u32_num v hn]; rfl

/-- numeric keys whose zero means "not reported" -/
theorem G_num0 (o : OutOracle) (key v : Bytes) (hk : key ∈ num0Keys) (hn : IsNum v) : G o key v = numEff0 key (natOfDigits v) := by
  simp only [num0Keys, List.mem_cons, List.not_mem_nil, or_false] at hk
  rcases hk with e | e | e | e | e <;> subst e
  · rw [G_of o _ _ _ (dg_mc o v), eff_pi, u32_num v hn]; simp [panelInfoEff, textEff, itemsEff, panelTypeEff0, optEff]
  · rw [G_of o _ _ _ (dg_boots o v), eff_rts, u32_num v hn]; simp [numEff0_zero]
  · rw [G_of o _ _ _ (dg_total o v), eff_rts, u32_num v hn]; simp [numEff0_zero]
  · rw [G_of o _ _ _ (dg_session o v), eff_rts, u32_num v hn]; simp [numEff0_zero]
  · rw [G_of o _ _ _ (dg_saver o v), eff_rts, u32_num v hn]; simp [numEff0_zero]

theorem ofNum_grammar (v : Bytes) (f : Nat → List Effect) (effs : List Effect) (h : ofNum v f = .grammar effs) :
    IsNum v ∧ effs = f (natOfDigits v) := by
  unfold ofNum at h
  cases hr : readNum v with
  | none => rw [hr] at h; simp at h
  | some n =>
    rw [hr] at h
    obtain ⟨hn, e⟩ := readNum_some v n hr
    simp only [LineClass.grammar.injEq] at h
    exact ⟨hn, by rw [← h, e]⟩

theorem intval_ne_zero (v : Bytes) (hn : IsNum v) : (intval v != 0) = decide (natOfDigits v ≠ 0) := by
  rw [intval_num v hn]
  by_cases h : natOfDigits v = 0
  · simp [h]
  · simp [h]

theorem G_ptype_word (o : OutOracle) (w : Bytes) (t : Int) (e1 : panelTypeOfWord w = some t)
    (e2 : panelTypeEff t = [.info (asc "_panelType") (.word w)]) :
    List.flatMap (effectsOfOut o) (Option.map (fun t => piMsg { panelType := t }) (panelTypeOfWord w)).toList =
      [.info (asc "_panelType") (.word w)] := by
  rw [e1]
  simp only [Option.map_some, Option.toList_some, List.flatMap_cons, List.flatMap_nil, List.append_nil, eff_pi]
  simp [panelInfoEff, textEff, numEff0, itemsEff, optEff, e2]

theorem G_env_word (o : OutOracle) (w : Bytes) (m : Int) (e1 : envOfWord w = some m)
    (e2 : envEff m = [.info (asc "EnvironmentalHealth") (.word w)]) :
    List.flatMap (effectsOfOut o) (Option.map (fun m => ({ envHealth := some m } : OutMsg)) (envOfWord w)).toList =
      [.info (asc "EnvironmentalHealth") (.word w)] := by
  rw [e1]
  simp only [Option.map_some, Option.toList_some, List.flatMap_cons, List.flatMap_nil, List.append_nil, eff_env, e2]

/-- the keys with their own value syntax -/
theorem G_other (o : OutOracle) (key v : Bytes) (effs : List Effect) (hfmt : ∀ p t, o.fmtF p t = t)
    (h : readInfoOther o key v = .grammar effs) : G o key v = effs := by
  unfold readInfoOther at h
  by_cases h1 : key = asc "_bluePillReady"
  · rw [if_pos h1] at h
    obtain ⟨hn, e⟩ := ofNum_grammar v _ effs h
    subst h1
    rw [G_of o _ _ _ (dg_bpr o v), eff_pi, e, intval_ne_zero v hn]
    by_cases hz : natOfDigits v = 0
    · simp [panelInfoEff, textEff, numEff0, itemsEff, panelTypeEff0, optEff, hz]
    · simp [panelInfoEff, textEff, numEff0, itemsEff, panelTypeEff0, optEff, hz]
  rw [if_neg h1] at h
  by_cases h2 : key = asc "_isSleeping"
  · rw [if_pos h2] at h
    obtain ⟨hn, e⟩ := ofNum_grammar v _ effs h
    subst h2
    rw [G_of o _ _ _ (dg_ss o v), eff_ss, e, intval_ne_zero v hn]
  rw [if_neg h2] at h
  by_cases h3 : key = asc "_panelType"
  · rw [if_pos h3] at h
    split at h
    · rename_i hw
      simp only [LineClass.grammar.injEq] at h
      subst h3
      unfold G
      rw [dg_ptype, ← h]
      simp only [panelTypeWords, List.mem_cons, List.not_mem_nil, or_false] at hw
      rcases hw with e | e | e | e | e <;> subst e
      · exact G_ptype_word o _ 1 (by decide) (by decide)
      · exact G_ptype_word o _ 2 (by decide) (by decide)
      · exact G_ptype_word o _ 3 (by decide) (by decide)
      · exact G_ptype_word o _ 4 (by decide) (by decide)
      · exact G_ptype_word o _ 5 (by decide) (by decide)
    · exact absurd h (by simp)
  rw [if_neg h3] at h
  by_cases h4 : key = asc "EnvironmentalHealth"
  · rw [if_pos h4] at h
    split at h
    · rename_i hw
      simp only [LineClass.grammar.injEq] at h
      subst h4
      unfold G
      rw [dg_env, ← h]
      simp only [runModeWords, List.mem_cons, List.not_mem_nil, or_false] at hw
      rcases hw with e | e | e <;> subst e
      · exact G_env_word o _ 0 (by decide) (by decide)
      · exact G_env_word o _ 1 (by decide) (by decide)
      · exact G_env_word o _ 2 (by decide) (by decide)
    · exact absurd h (by simp)
  rw [if_neg h4] at h
  by_cases h5 : key = asc "_support"
  · rw [if_pos h5] at h
    split at h
    · simp only [LineClass.grammar.injEq] at h
      subst h5
      rw [G_of o _ _ _ (dg_sup o v), eff_pi, ← h, ← supportFlags_parts]
      simp [panelInfoEff, textEff, numEff0, itemsEff, panelTypeEff0, optEff]
    · exact absurd h (by simp)
  rw [if_neg h5] at h
  by_cases h6 : key = asc "_networkConfig"
  · rw [if_pos h6] at h
    subst h6
    rw [G_of o _ _ _ (dg_net o v), eff_netopt]
    cases hc : o.netOfJson v with
    | none => rw [hc] at h; simp at h
    | some c => rw [hc] at h; simp only [LineClass.grammar.injEq] at h; rw [← h]; rfl
  rw [if_neg h6] at h
  by_cases h7 : key = asc "_serverModeLockToIP" ∨ key = asc "_connections"
  · rw [if_pos h7] at h
    simp only [LineClass.grammar.injEq] at h
    rcases h7 with e | e <;> subst e
    · rw [G_of o _ _ _ (dg_lock o v), eff_pi, ← h]
      have : trimExplode 59 v = readItems v := trimExplode_eq_readItems v
      simp [panelInfoEff, textEff, numEff0, panelTypeEff0, optEff, this]
    · rw [G_of o _ _ _ (dg_conn o v), eff_conn, ← h, trimExplode_eq_readItems]
  rw [if_neg h7] at h
  by_cases h8 : key = asc "SysStat"
  · rw [if_pos h8] at h
    subst h8
    rw [G_of o _ _ _ (dg_sys o v), eff_sys]
    exact dec_sysstat o v effs hfmt h
  rw [if_neg h8] at h
  exact absurd h (by simp)

/-- the key=value family: whatever the reader accepts for `key=v`, the decoded message carries exactly that -/
theorem dec_info (o : OutOracle) (key v : Bytes) (effs : List Effect) (hfmt : ∀ p t, o.fmtF p t = t) (hv : v ≠ [])
    (h : readInfo o key v = .grammar effs) : G o key v = effs := by
  unfold readInfo at h
  by_cases h1 : key ∈ textKeys
  · rw [if_pos h1] at h
    simp only [LineClass.grammar.injEq] at h
    rw [← h]; exact G_text o key v h1 hv
  rw [if_neg h1] at h
  by_cases h2 : key ∈ payloadKeys
  · rw [if_pos h2] at h
    simp only [LineClass.grammar.injEq] at h
    rw [← h]; exact G_payload o key v h2
  rw [if_neg h2] at h
  by_cases h3 : key ∈ numKeys
  · rw [if_pos h3] at h
    obtain ⟨hn, e⟩ := ofNum_grammar v _ effs h
    rw [e]; exact G_num o key v h3 hn
  rw [if_neg h3] at h
  by_cases h4 : key ∈ num0Keys
  · rw [if_pos h4] at h
    obtain ⟨hn, e⟩ := ofNum_grammar v _ effs h
    rw [e]; exact G_num0 o key v h4 hn
  rw [if_neg h4] at h
  exact G_other o key v effs hfmt h

theorem ofNum_not_ng (v : Bytes) (f : Nat → List Effect) : ofNum v f ≠ .nonGrammar := by
  unfold ofNum; split <;> simp

theorem readMap_not_ng (rest : Bytes) : readMap rest ≠ .nonGrammar := by
  unfold readMap
  repeat' split
  all_goals simp

theorem readSysStat_not_ng (o : OutOracle) (v : Bytes) : readSysStat o v ≠ .nonGrammar := by
  unfold readSysStat
  repeat' split
  all_goals simp

theorem readInfoOther_not_ng (o : OutOracle) (key v : Bytes) : readInfoOther o key v ≠ .nonGrammar := by
  intro h
  unfold readInfoOther at h
  by_cases h1 : key = asc "_bluePillReady"
  · rw [if_pos h1] at h; exact ofNum_not_ng _ _ h
  rw [if_neg h1] at h
  by_cases h2 : key = asc "_isSleeping"
  · rw [if_pos h2] at h; exact ofNum_not_ng _ _ h
  rw [if_neg h2] at h
  by_cases h3 : key = asc "_panelType"
  · rw [if_pos h3] at h; split at h <;> simp at h
  rw [if_neg h3] at h
  by_cases h4 : key = asc "EnvironmentalHealth"
  · rw [if_pos h4] at h; split at h <;> simp at h
  rw [if_neg h4] at h
  by_cases h5 : key = asc "_support"
  · rw [if_pos h5] at h; split at h <;> simp at h
  rw [if_neg h5] at h
  by_cases h6 : key = asc "_networkConfig"
  · rw [if_pos h6] at h; split at h <;> simp at h
  rw [if_neg h6] at h
  by_cases h7 : key = asc "_serverModeLockToIP" ∨ key = asc "_connections"
  · rw [if_pos h7] at h; simp at h
  rw [if_neg h7] at h
  by_cases h8 : key = asc "SysStat"
  · rw [if_pos h8] at h; exact readSysStat_not_ng o v h
  rw [if_neg h8] at h
  simp at h

theorem readInfo_not_ng (o : OutOracle) (key v : Bytes) : readInfo o key v ≠ .nonGrammar := by
  intro h
  unfold readInfo at h
  by_cases h1 : key ∈ textKeys
  · rw [if_pos h1] at h; simp at h
  rw [if_neg h1] at h
  by_cases h2 : key ∈ payloadKeys
  · rw [if_pos h2] at h; simp at h
  rw [if_neg h2] at h
  by_cases h3 : key ∈ numKeys
  · rw [if_pos h3] at h; exact ofNum_not_ng _ _ h
  rw [if_neg h3] at h
  by_cases h4 : key ∈ num0Keys
  · rw [if_pos h4] at h; exact ofNum_not_ng _ _ h
  rw [if_neg h4] at h
  exact readInfoOther_not_ng o key v h

end RawPanelVerif.OutLemmas
