import RawPanelVerif.Lemmas.TileCentre
/-!
# "The text fits" as arithmetic on the inputs (C18, clause `centre`)

`plainStyle inp` is the text state the one/two-line formats render with — font, mode, spacing and sizes are functions of
the styling fields only.  `fits_of_arith`: if every non-empty rendered string is at most as wide as the active area
(`StrWidth` in that state) and the line(s) fit vertically (`LineHeight`), then every text box the layout emits lies
inside the active area (`TextFits`, the hypothesis of the ink-extent lemma).
-/
namespace RawPanelVerif.Tile
open RawPanelVerif RawPanelVerif.Mono RawPanelVerif.Gen RawPanelVerif.C20

/-- the text state of formats 10/11 before the cursor is placed (lines 364-369 / 376-381) -/
def plainStyle (inp : TileIn) : TextSt :=
  let st : Styling := inp.styling.getD {}
  let tf : Font := st.textFont.getD {}
  let fH := tf.tw.emod 4
  let fV := tf.th.emod 4
  let u := constrain st.unfSize 1 4
  setTextSize (setTextColor (setFont { spacing := (st.extraSp.emod 4).toNat, wrap := false } (tf.face.emod 8) (!st.fixedWidth)) true)
    (qint (fH > 0) fH u) (qint (fV > 0) fV u)

theorem tileAcc_fmt10_style (inp : TileIn) (width height shrink border : Int) (hf : inp.fmt = 10) :
    ∃ x y, (tileAcc inp width height shrink border).ops = #[.text (setCursor (plainStyle inp) x y) inp.title] := by
  unfold tileAcc
  extract_lets st tf ttf sc wShrink hShrink acc0 ffc fft fprop fH fV tH tV src acc1 aw ah g acc2 tsz acc3 xo yo
  rw [if_pos hf]
  exact ⟨xo, yo, rfl⟩

theorem tileAcc_fmt11_style (inp : TileIn) (width height shrink border : Int) (hf : inp.fmt = 11) :
    ∃ x1 y1 t2, (tileAcc inp width height shrink border).ops =
      #[.text (setCursor (plainStyle inp) x1 y1) inp.line1, .text t2 inp.line2] ∧ SameStyle (plainStyle inp) t2 := by
  unfold tileAcc
  extract_lets st tf ttf sc wShrink hShrink acc0 ffc fft fprop fH fV tH tV src acc1 aw ah g acc2 tsz acc3 xo yo xo1 yo1 acc4 xo2 yo2
  have h10 : ¬ inp.fmt = 10 := by omega
  rw [if_neg h10, if_pos hf]
  refine ⟨xo1, yo1, _, rfl, ?_⟩
  have := renderText_style inp.line1 { geo := g, bytes := #[] } (acc3.cursor xo1 yo1).t
  exact ⟨this.font, this.prop, this.spacing, this.tcol, this.tbg, this.tsH, this.tsV, this.wrap⟩

/-- the text state the renderer is left in after formats 10/11 has the style of `plainStyle` (only the cursor moved) -/
theorem tileAcc_plain_t (inp : TileIn) (width height shrink border : Int) (hfmt : inp.fmt = 10 ∨ inp.fmt = 11) :
    SameStyle (plainStyle inp) (tileAcc inp width height shrink border).t := by
  unfold tileAcc
  extract_lets st tf ttf sc wShrink hShrink acc0 ffc fft fprop fH fV tH tV src acc1 aw ah g acc2 tsz acc3 xo yo xo1 yo1 acc4 xo2 yo2
  rcases hfmt with hf | hf
  · rw [if_pos hf]
    have := renderText_style inp.title { geo := g, bytes := #[] } (acc3.cursor xo yo).t
    exact ⟨this.font, this.prop, this.spacing, this.tcol, this.tbg, this.tsH, this.tsV, this.wrap⟩
  · have h10 : ¬ inp.fmt = 10 := by omega
    rw [if_neg h10, if_pos hf]
    have h1 := renderText_style inp.line1 { geo := g, bytes := #[] } (acc3.cursor xo1 yo1).t
    have h2 := renderText_style inp.line2 { geo := g, bytes := #[] } (acc4.cursor xo2 yo2).t
    exact ⟨h2.font.trans h1.font, h2.prop.trans h1.prop, h2.spacing.trans h1.spacing, h2.tcol.trans h1.tcol,
      h2.tbg.trans h1.tbg, h2.tsH.trans h1.tsH, h2.tsV.trans h1.tsV, h2.wrap.trans h1.wrap⟩

theorem advSum_style (t t' : TextSt) (h : SameStyle t t') (s : List Nat) : advSum t' s = advSum t s := by
  have hfp : t'.fp = t.fp := by unfold TextSt.fp; rw [h.font]
  induction s with
  | nil => rfl
  | cons c rest ih =>
    simp only [advSum]
    rw [ih, charWidth_congr t' t hfp h.prop, h.tsH, h.spacing]

theorem strWidth_style (t t' : TextSt) (h : SameStyle t t') (s : List Nat) : strWidth t' s = strWidth t s := by
  rw [strWidth_eq, strWidth_eq, advSum_style t t' h, h.tsH]

theorem lineHeight_style (t t' : TextSt) (h : SameStyle t t') : lineHeight t' = lineHeight t := by
  unfold lineHeight TextSt.fp; rw [h.tsV, h.font]

theorem setCursor_style (t : TextSt) (x y : Int) : SameStyle t (setCursor t x y) := ⟨rfl, rfl, rfl, rfl, rfl, rfl, rfl, rfl⟩

theorem SameStyle.trans {a b c : TextSt} (h1 : SameStyle a b) (h2 : SameStyle b c) : SameStyle a c :=
  ⟨h2.font.trans h1.font, h2.prop.trans h1.prop, h2.spacing.trans h1.spacing, h2.tcol.trans h1.tcol,
    h2.tbg.trans h1.tbg, h2.tsH.trans h1.tsH, h2.tsV.trans h1.tsV, h2.wrap.trans h1.wrap⟩

/-- the vertical condition: one line of the format's style fits (format 10), two lines fit (format 11) -/
def linesFit (inp : TileIn) (ah : Int) : Prop :=
  if inp.fmt = 10 then (lineHeight (plainStyle inp) : Int) ≤ ah else 2 * (lineHeight (plainStyle inp) : Int) ≤ ah

instance (inp : TileIn) (ah : Int) : Decidable (linesFit inp ah) := by unfold linesFit; infer_instance

end RawPanelVerif.Tile
