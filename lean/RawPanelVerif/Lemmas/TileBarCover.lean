import RawPanelVerif.Lemmas.TileSteps
import RawPanelVerif.Lemmas.TileGrow
import RawPanelVerif.Lemmas.TileCentre
/-!
# The scale bar stays visible under everything drawn after it (C18, clause `bar` for changing value texts)

`barOps` = the operations of the scale section alone.  The operation list of the whole layout is
`pre ++ barOps ++ post`, where `post` (second value/label row, pair borders) only writes the foreground colour unless one
of the two late `drawAllPixels` icons ("no access", modifier icon) is shown.  Hence on a blank tile every pixel the bar
section lights is lit in the final image (`bar_layer_sub`), whatever text the value is printed as.
-/
namespace RawPanelVerif.Tile
open RawPanelVerif RawPanelVerif.Mono RawPanelVerif.Gen

/-- `b` extends `a` by foreground-only operations, and its text colours are the foreground colour -/
structure Ext (a b : Acc) : Prop where
  post : ∃ p : Array DOp, b.ops = a.ops ++ p ∧ ∀ d ∈ p.toList, litOnly d.toOp
  tcol : b.t.tcol = true
  tbg : b.t.tbg = true

theorem Ext.refl (a : Acc) (h1 : a.t.tcol = true) (h2 : a.t.tbg = true) : Ext a a :=
  ⟨⟨#[], by simp, by simp⟩, h1, h2⟩

theorem Ext.trans {a b c : Acc} (h1 : Ext a b) (h2 : Ext b c) : Ext a c := by
  obtain ⟨p, e1, l1⟩ := h1.post
  obtain ⟨q, e2, l2⟩ := h2.post
  refine ⟨⟨p ++ q, by rw [e2, e1, Array.append_assoc], ?_⟩, h2.tcol, h2.tbg⟩
  intro d hd
  simp only [Array.toList_append, List.mem_append] at hd
  rcases hd with hd | hd
  · exact l1 d hd
  · exact l2 d hd

theorem Ext_emit {a b : Acc} (h : Ext a b) (op : DOp) (hop : litOnly op.toOp) : Ext a (b.emit op) := by
  obtain ⟨p, e, l⟩ := h.post
  refine ⟨⟨p.push op, by unfold Acc.emit; simp only []; rw [e, Array.push_eq_append, Array.append_assoc, ← Array.push_eq_append], ?_⟩,
    h.tcol, h.tbg⟩
  intro d hd
  simp only [Array.toList_push, List.mem_append, List.mem_singleton] at hd
  rcases hd with hd | rfl
  · exact l d hd
  · exact hop

theorem Ext_size {a b : Acc} (h : Ext a b) (hh v : Int) : Ext a (b.size hh v) := ⟨h.post, h.tcol, h.tbg⟩
theorem Ext_cursor {a b : Acc} (h : Ext a b) (x y : Int) : Ext a (b.cursor x y) := ⟨h.post, h.tcol, h.tbg⟩
theorem Ext_font {a b : Acc} (h : Ext a b) (n : Int) (p : Bool) : Ext a (b.font n p) := ⟨h.post, h.tcol, h.tbg⟩

theorem Ext_render {a b : Acc} (h : Ext a b) (g : Geom) (s : List Nat) : Ext a (b.render g s) := by
  obtain ⟨p, e, l⟩ := h.post
  have hs := renderText_style s { geo := g, bytes := #[] } b.t
  refine ⟨⟨p.push (.text b.t s), by unfold Acc.render; simp only []; rw [e, Array.push_eq_append, Array.append_assoc, ← Array.push_eq_append], ?_⟩, ?_, ?_⟩
  · intro d hd
    simp only [Array.toList_push, List.mem_append, List.mem_singleton] at hd
    rcases hd with hd | rfl
    · exact l d hd
    · exact ⟨h.tcol, h.tbg⟩
  · show (renderText _ s).2.tcol = true; rw [hs.tcol]; exact h.tcol
  · show (renderText _ s).2.tbg = true; rw [hs.tbg]; exact h.tbg

theorem Ext_ite {a x y : Acc} (c : Prop) [Decidable c] (hx : Ext a x) (hy : Ext a y) : Ext a (if c then x else y) := by
  split <;> assumption

theorem Ext_labelStep {a b : Acc} (h : Ext a b) (g : Geom) (tl out : List Nat) (pair k aw mAH mCM fH fV : Int) :
    Ext a (labelStep b g tl out pair k aw mAH mCM fH fV) := by
  unfold labelStep
  split
  · split
    · exact Ext_render (Ext_cursor h _ _) g tl
    · exact Ext_render (Ext_cursor (Ext_ite _ (Ext_size h _ _) h) _ _) g tl
  · exact h

theorem Ext_valueStep {a b : Acc} (h : Ext a b) (g : Geom) (tl out : List Nat) (fmt pair k aw mAH mCM fH fV : Int) :
    Ext a (valueStep b g tl out fmt pair k aw mAH mCM fH fV) := by
  unfold valueStep
  split
  · split
    · have h1 := fun x y => Ext_render (Ext_cursor h x y) g out
      simp only []
      split
      · exact Ext_render (Ext_cursor (Ext_size (h1 _ _) 1 1) _ _) g _
      · exact h1 _ _
    · have hn := Ext_ite (aw < b.strWidth out) (Ext_size h (qint (fH > 0) fH 1) (qint (fV > 0) fV (qint (mAH ≥ 12) 2 0))) h
      have h1 := fun x y => Ext_render (Ext_cursor hn x y) g out
      simp only []
      split
      · exact Ext_render (Ext_cursor (Ext_size (h1 _ _) 1 1) _ _) g _
      · exact h1 _ _
  · exact h

theorem Ext_borderStep {a b : Acc} (h : Ext a b) (pair k aw mCM : Int) : Ext a (borderStep b pair k aw mCM) := by
  unfold borderStep
  split
  · exact Ext_emit h _ rfl
  · split
    · split
      · exact Ext_emit h _ rfl
      · exact h
    · exact h

theorem Ext_ite_emit {a b : Acc} (h : Ext a b) (c : Prop) [Decidable c] (op : DOp) (hop : litOnly op.toOp) :
    Ext a (if c then b.emit op else b) := Ext_ite c (Ext_emit h op hop) h

theorem Ext_scaleBar {a b : Acc} (h : Ext a b) (inp : TileIn) (sc : Scale) (width aw ah : Int) :
    Ext a (scaleBar b inp sc width aw ah) := by
  rw [scaleBar_eq]
  split
  · have b0 := Ext_emit h (.rrect 0 (ah - 1) width 1 0 true) rfl
    have b1 : Ext a (barStep (b.emit (.rrect 0 (ah - 1) width 1 0 true)) sc
        (barLen (inp.intVal - sc.rl) (i32 (sc.rh - sc.rl)) aw) ah) := by
      unfold barStep; exact Ext_ite_emit b0 _ _ rfl
    generalize barStep (b.emit (.rrect 0 (ah - 1) width 1 0 true)) sc (barLen (inp.intVal - sc.rl) (i32 (sc.rh - sc.rl)) aw) ah = a1 at b1
    unfold scaleRest
    simp only []
    exact Ext_ite_emit (Ext_ite_emit (Ext_ite_emit (Ext_ite_emit b1 _ _ (by rfl)) _ _ (by rfl)) _ _ (by rfl)) _ _ (by rfl)
  · exact h

theorem Ext_contentIter {a b : Acc} (h : Ext a b) (g : Geom) (inp : TileIn) (sc : Scale)
    (k width height aw ah mAH mCM fH fV : Int) : Ext a (contentIter b g inp sc k width height aw ah mAH mCM fH fV) := by
  rw [contentIter_eq, contentBody_steps]
  have b3 := Ext_borderStep (Ext_valueStep (Ext_labelStep h g (iterLine inp k) (iterValue inp k) inp.pair k aw mAH mCM fH fV)
    g (iterLine inp k) (iterValue inp k) inp.fmt inp.pair k aw mAH mCM fH fV) inp.pair k aw mCM
  split
  · exact Ext_scaleBar b3 inp sc width aw ah
  · exact b3

/-! ## the scale section does not read the accumulator -/

def Acc.setT (a : Acc) (t : TextSt) : Acc := { ops := a.ops, t := t }

theorem setT_emit (a : Acc) (t : TextSt) (op : DOp) : (a.setT t).emit op = (a.emit op).setT t := rfl
theorem setT_ite (t : TextSt) (c : Prop) [Decidable c] (x y : Acc) :
    (if c then x.setT t else y.setT t) = (if c then x else y).setT t := by split <;> rfl

theorem scaleBar_setT (a : Acc) (t : TextSt) (inp : TileIn) (sc : Scale) (width aw ah : Int) :
    scaleBar (a.setT t) inp sc width aw ah = (scaleBar a inp sc width aw ah).setT t := by
  rw [scaleBar_eq, scaleBar_eq]
  unfold scaleRest barStep
  simp only [setT_emit, setT_ite]

theorem scaleBar_prep (p : Array DOp) (a : Acc) (inp : TileIn) (sc : Scale) (width aw ah : Int) :
    scaleBar (a.prep p) inp sc width aw ah = (scaleBar a inp sc width aw ah).prep p := by
  rw [scaleBar_eq, scaleBar_eq]
  unfold barStep
  simp only [prep_emit, prep_ite, scaleRest_prep]

/-- the operations of the scale section -/
def scaleOps (inp : TileIn) (sc : Scale) (width aw ah : Int) : Array DOp := (scaleBar {} inp sc width aw ah).ops

theorem scaleBar_ops (a : Acc) (inp : TileIn) (sc : Scale) (width aw ah : Int) :
    scaleBar a inp sc width aw ah = { ops := a.ops ++ scaleOps inp sc width aw ah, t := a.t } := by
  have e : a = (({} : Acc).setT a.t).prep a.ops := by unfold Acc.prep Acc.setT; simp
  conv => lhs; rw [e]
  rw [scaleBar_prep, scaleBar_setT]
  rfl

/-- the scale section's operations of a whole call: empty when the content section is not rendered (formats 10/11,
or fewer than 8 rows left) -/
def barOps (inp : TileIn) (width height shrink border : Int) : Array DOp :=
  if inp.fmt = 10 ∨ inp.fmt = 11 then #[]
  else if availOf inp (derive inp width height shrink border) width height ≥ 8 then
    scaleOps inp (derive inp width height shrink border).sc width (derive inp width height shrink border).aw
      (derive inp width height shrink border).ah
  else #[]

theorem contentSetup_lit (acc : Acc) (inp : TileIn) (height ffc : Int) (fprop : Bool) (mAH fH fV : Int) :
    (contentSetup acc inp height ffc fprop mAH fH fV).t.tcol = true ∧ (contentSetup acc inp height ffc fprop mAH fH fV).t.tbg = true := by
  unfold contentSetup
  simp only []
  split <;> split <;> exact ⟨rfl, rfl⟩

/-- the first content iteration = label, value, border steps, then the scale section appended -/
theorem contentIter0_ops (A : Acc) (g : Geom) (inp : TileIn) (sc : Scale) (width height aw ah mAH mCM fH fV : Int) :
    contentIter A g inp sc 0 width height aw ah mAH mCM fH fV =
      { ops := (contentBody A g inp 0 aw mAH mCM fH fV).ops ++ scaleOps inp sc width aw ah,
        t := (contentBody A g inp 0 aw mAH mCM fH fV).t } := by
  rw [contentIter_eq, if_pos rfl, scaleBar_ops]

theorem contentBody_ext (A : Acc) (h1 : A.t.tcol = true) (h2 : A.t.tbg = true) (g : Geom) (inp : TileIn) (k aw mAH mCM fH fV : Int) :
    Ext A (contentBody A g inp k aw mAH mCM fH fV) := by
  rw [contentBody_steps]
  exact Ext_borderStep (Ext_valueStep (Ext_labelStep (Ext.refl A h1 h2) _ _ _ _ _ _ _ _ _ _) _ _ _ _ _ _ _ _ _ _ _) _ _ _ _

theorem defaultWith_decomp (inp : TileIn) (d : Derived) (width height : Int)
    (hav : availOf inp d width height ≥ 8) (hic : inp.stateIcon ≠ 3 ∧ ¬ (inp.modIcon ≥ 1 ∧ inp.modIcon ≤ 7)) :
    ∃ pre post : Array DOp,
      (defaultWith (fun acc g sc a w h aw ah m1 m2 f1 f2 => contentIter acc g inp sc a w h aw ah m1 m2 f1 f2) inp d width height).ops =
        pre ++ scaleOps inp d.sc width d.aw d.ah ++ post ∧ ∀ e ∈ post.toList, litOnly e.toOp := by
  unfold defaultWith
  simp only []
  rw [if_pos hav]
  generalize hA0 : contentSetup (headPart inp d width height) inp height d.ffc d.fprop (availOf inp d width height) d.fH d.fV = A0
  have hlit : A0.t.tcol = true ∧ A0.t.tbg = true := by rw [← hA0]; exact contentSetup_lit _ _ _ _ _ _ _ _
  have hCB := contentBody_ext A0 hlit.1 hlit.2 d.g inp 0 d.aw (availOf inp d width height) (middleOf inp d width height) d.fH d.fV
  rw [contentIter0_ops]
  generalize contentBody A0 d.g inp 0 d.aw (availOf inp d width height) (middleOf inp d width height) d.fH d.fV = CB at hCB
  generalize hX : ({ ops := CB.ops ++ scaleOps inp d.sc width d.aw d.ah, t := CB.t } : Acc) = X
  have hXlit : Ext X X := Ext.refl X (by rw [← hX]; exact hCB.tcol) (by rw [← hX]; exact hCB.tbg)
  have h2 : Ext X (if inp.pair > 0 then contentIter X d.g inp d.sc 1 width height d.aw d.ah (availOf inp d width height)
      (middleOf inp d width height) d.fH d.fV else X) :=
    Ext_ite _ (Ext_contentIter hXlit _ _ _ _ _ _ _ _ _ _ _ _) hXlit
  unfold tailIconStep
  simp only []
  rw [if_neg hic.1, if_neg hic.2]
  obtain ⟨post, e, l⟩ := h2.post
  refine ⟨CB.ops, post, ?_, l⟩
  rw [e, ← hX]

/-- **decomposition**: unless one of the two late `drawAllPixels` icons is shown, the layout's operation list is
`pre ++ barOps ++ post` with `post` writing the foreground colour only -/
theorem tileAcc_bar_decomp (inp : TileIn) (width height shrink border : Int)
    (hic : inp.stateIcon ≠ 3 ∧ ¬ (inp.modIcon ≥ 1 ∧ inp.modIcon ≤ 7)) :
    ∃ pre post : Array DOp, (tileAcc inp width height shrink border).ops = pre ++ barOps inp width height shrink border ++ post ∧
      ∀ e ∈ post.toList, litOnly e.toOp := by
  rw [tileAcc_eq_with, tileAccWith_steps]
  unfold barOps
  by_cases h10 : inp.fmt = 10
  · rw [if_pos h10, if_pos (Or.inl h10)]
    refine ⟨(plain10 inp (derive inp width height shrink border)).ops, #[], ?_, ?_⟩ <;> simp
  by_cases h11 : inp.fmt = 11
  · rw [if_neg h10, if_pos h11, if_pos (Or.inr h11)]
    refine ⟨(plain11 inp (derive inp width height shrink border)).ops, #[], ?_, ?_⟩ <;> simp
  rw [if_neg h10, if_neg h11, if_neg (by omega)]
  by_cases hav : availOf inp (derive inp width height shrink border) width height ≥ 8
  · rw [if_pos hav]
    exact defaultWith_decomp inp _ width height hav hic
  · rw [if_neg hav]
    unfold defaultWith
    simp only []
    rw [if_neg hav]
    refine ⟨(headPart inp (derive inp width height shrink border) width height).ops, #[], ?_, ?_⟩ <;> simp

/-! ## what the scale section draws: the bar rectangle per scale type -/

/-- left edge and width of the rectangle the scale section fills in the rows `activeHeight-3 … activeHeight-1`:
type 1 a bar from the left edge, type 2 a 3-pixel marker, type 3 a bar from the centre -/
def barSpan (stype wBar aw : Int) : Option (Int × Int) :=
  if stype = 1 then (if wBar > 0 then some (0, wBar) else none)
  else if stype = 2 then some (constrain (wBar - 1) 0 (aw - 3), 3)
  else if stype = 3 then
    some (qint (wBar - shr1 aw < 0) (constrain (shr1 aw + (wBar - shr1 aw)) 0 aw) (shr1 aw),
          constrain (wBar - shr1 aw).natAbs 1 (shr1 aw))
  else none

theorem mem_emit_self (a : Acc) (op : DOp) : op ∈ (a.emit op).ops.toList := by unfold Acc.emit; simp
theorem mem_emit_of (a : Acc) (op d : DOp) (h : d ∈ a.ops.toList) : d ∈ (a.emit op).ops.toList := by
  unfold Acc.emit; simp only [Array.toList_push, List.mem_append]; exact Or.inl h
theorem mem_ite_emit (a : Acc) (c : Prop) [Decidable c] (op d : DOp) (h : d ∈ a.ops.toList) :
    d ∈ (if c then a.emit op else a).ops.toList := by
  split
  · exact mem_emit_of a op d h
  · exact h

/-- the scale section really draws that rectangle (`scaleBar` with the bar length `barLen (value - low) range width`) -/
theorem scaleOps_bar_mem (inp : TileIn) (sc : Scale) (width aw ah x wd : Int)
    (hs : sc.stype > 0 ∧ i32 (sc.rh - sc.rl) ≠ 0)
    (hb : barSpan sc.stype (barLen (inp.intVal - sc.rl) (i32 (sc.rh - sc.rl)) aw) aw = some (x, wd)) :
    DOp.frrect x (ah - 3) wd 3 0 true ∈ (scaleOps inp sc width aw ah).toList := by
  unfold scaleOps
  rw [scaleBar_eq, if_pos hs]
  generalize barLen (inp.intVal - sc.rl) (i32 (sc.rh - sc.rl)) aw = wBar at hb
  unfold barSpan at hb
  unfold scaleRest barStep
  simp only []
  refine mem_ite_emit _ _ _ _ (mem_ite_emit _ _ _ _ ?_)
  by_cases h1 : sc.stype = 1
  · rw [if_pos h1] at hb
    by_cases hw : wBar > 0
    · rw [if_pos hw] at hb
      simp only [Option.some.injEq, Prod.mk.injEq] at hb
      obtain ⟨rfl, rfl⟩ := hb
      refine mem_ite_emit _ _ _ _ (mem_ite_emit _ _ _ _ ?_)
      rw [if_pos ⟨h1, hw⟩]
      exact mem_emit_self _ _
    · rw [if_neg hw] at hb; cases hb
  · rw [if_neg h1] at hb
    by_cases h2 : sc.stype = 2
    · rw [if_pos h2] at hb
      simp only [Option.some.injEq, Prod.mk.injEq] at hb
      obtain ⟨rfl, rfl⟩ := hb
      refine mem_ite_emit _ _ _ _ ?_
      rw [if_pos h2]
      exact mem_emit_self _ _
    · rw [if_neg h2] at hb
      by_cases h3 : sc.stype = 3
      · rw [if_pos h3] at hb
        simp only [Option.some.injEq, Prod.mk.injEq] at hb
        obtain ⟨rfl, rfl⟩ := hb
        rw [if_pos h3]
        exact mem_emit_self _ _
      · rw [if_neg h3] at hb; cases hb

/-- type 2: the marker moves right (or stays) when the bar length grows -/
theorem marker_monotone (w1 w2 aw : Int) (h : w1 ≤ w2) (haw : 3 ≤ aw) :
    constrain (w1 - 1) 0 (aw - 3) ≤ constrain (w2 - 1) 0 (aw - 3) :=
  constrain_mono _ _ _ _ (by omega) (by omega)

/-- type 3: both edges of the centred bar move right (or stay) when the bar length grows -/
theorem centre_bar_edges_monotone (w1 w2 aw : Int) (h : w1 ≤ w2) (h0 : 0 ≤ w1) (h2 : w2 ≤ aw) (haw : 2 ≤ aw) :
    ∀ x1 d1 x2 d2, barSpan 3 w1 aw = some (x1, d1) → barSpan 3 w2 aw = some (x2, d2) → x1 ≤ x2 ∧ x1 + d1 ≤ x2 + d2 := by
  intro x1 d1 x2 d2 e1 e2
  unfold barSpan at e1 e2
  simp only [show ¬ (3 : Int) = 1 by decide, show ¬ (3 : Int) = 2 by decide, if_false, if_true, Option.some.injEq, Prod.mk.injEq] at e1 e2
  obtain ⟨rfl, rfl⟩ := e1
  obtain ⟨rfl, rfl⟩ := e2
  unfold qint constrain shr1
  repeat' split
  all_goals (simp only [decide_eq_true_eq] at *; omega)

end RawPanelVerif.Tile
