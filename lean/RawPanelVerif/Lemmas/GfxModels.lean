import RawPanelVerif.Lemmas.DecGfx3
import RawPanelVerif.Lemmas.GfxJson
import RawPanelVerif.Lemmas.GfxCor
import RawPanelVerif.Lemmas.GfxTotal
/-!
# `Gfx.Batch.step` (C05) and `DecIn.decGfx` / `decLine` (C01/C02/C06) are models of the same Go code

Two models of the graphics branch of `RawPanelASCIIstringsToInboundMessages` were written independently: the C05 model
(`Model/Gfx.lean`: `matchGfx`, `parsedOf`, `Batch.stepP`, image objects in a store) and the full inbound decoder
(`Model/DecIn.lean`: `matchGfx` returning the sub-match list, `decGfx` in `Except Panic`, `strconv.Atoi` as a digit scan
with overflow detection, base64 as a character-by-character decoder).  This file proves that they agree on EVERY line
sequence (`batch_models_agree`), so that C02's `dec_sound`, C06's `decIn_total` and C05's safety / clean-run theorems
are statements about one function.
-/
namespace RawPanelVerif.Gfx
open RawPanelVerif RawPanelVerif.MsgIn

/-- the sub-match list `FindStringSubmatch` returns for the groups `m` of line `l` -/
def subList (l : Bytes) (m : Sub) : List Bytes :=
  [l, m.g1, m.g2, m.g3, m.g4, m.g5, m.g6, m.g7, m.g8, m.g9, m.g10, m.g11]

/-! ## A. the two matchers -/

theorem isDigit_same : Bytes.isDigit = Gfx.isDigit := rfl

theorem isDigitComma_same : Model.In.isDigitComma = Gfx.isIdChar := by
  funext b
  by_cases hb : b = 44 <;> simp [Model.In.isDigitComma, Gfx.isIdChar, isDigit_same, hb]

theorem noLF_same (s : Bytes) : Model.In.noLF s = tailOK s := rfl

theorem kw_pfx (g1 : Bytes) (h : IsPfx g1) :
    ∃ pre post, Model.In.kwGfx = pre ++ g1 :: post ∧ pre.all (fun p => DecSound.mismatch p g1) = true := by
  rcases h with rfl | rfl | rfl
  · exact ⟨[], [Bytes.asc "HWCgGray#", Bytes.asc "HWCg#"], by decide, by decide⟩
  · exact ⟨[Bytes.asc "HWCgRGB#"], [Bytes.asc "HWCg#"], by decide, by decide⟩
  · exact ⟨[Bytes.asc "HWCgRGB#", Bytes.asc "HWCgGray#"], [], by decide, by decide⟩

/-- what the C05 matcher accepts, the decoder's matcher accepts, with the same groups -/
theorem in_of_shape (pre post : List Bytes) (rhs : Bytes) (m : Sub) (hrhs : RhsShape rhs m)
    (hk : Model.In.kwGfx = pre ++ m.g1 :: post) (hpre : pre.all (fun p => DecSound.mismatch p m.g1) = true)
    (hne : m.g2 ≠ []) (hids : m.g2.all Model.In.isDigitComma = true) (hlf : Model.In.noLF m.g11 = true) :
    Model.In.matchGfx (m.g1 ++ (m.g2 ++ 61 :: (rhs ++ 58 :: m.g11))) =
      some (subList (m.g1 ++ (m.g2 ++ 61 :: (rhs ++ 58 :: m.g11))) m) := by
  match rhs, m, hrhs with
  | _, _, .simple g1 g2 g3 p h3 =>
    have := DecGfx.matchGfx_A pre g1 post g2 g3 p hk hpre hne hids h3.1 (by rw [isDigit_same]; exact h3.2) hlf
    simp only [subList, List.append_assoc] at this ⊢
    exact this
  | _, _, .hdr3 g1 g2 g3 g5 g6 g7 p h3 h5 h6 h7 =>
    have := DecGfx.matchGfx_B1 pre g1 post g2 g3 g5 g6 g7 p hk hpre hne hids h3.1 (by rw [isDigit_same]; exact h3.2)
      h5.1 (by rw [isDigit_same]; exact h5.2) h6.1 (by rw [isDigit_same]; exact h6.2) h7.1
      (by rw [isDigit_same]; exact h7.2) hlf
    simp only [subList, List.append_assoc, List.cons_append, List.nil_append] at this ⊢
    exact this
  | _, _, .hdr5 g1 g2 g3 g5 g6 g7 g9 g10 p h3 h5 h6 h7 h9 h10 =>
    have := DecGfx.matchGfx_B2 pre g1 post g2 g3 g5 g6 g7 g9 g10 p hk hpre hne hids h3.1
      (by rw [isDigit_same]; exact h3.2) h5.1 (by rw [isDigit_same]; exact h5.2) h6.1 (by rw [isDigit_same]; exact h6.2)
      h7.1 (by rw [isDigit_same]; exact h7.2) h9.1 (by rw [isDigit_same]; exact h9.2) h10.1
      (by rw [isDigit_same]; exact h10.2) hlf
    simp only [subList, List.append_assoc, List.cons_append, List.nil_append] at this ⊢
    exact this

/-- what the C05 matcher accepts, the decoder's matcher accepts, with the same groups -/
theorem in_of_gfx (l : Bytes) (m : Sub) (h : Gfx.matchGfx l = some m) : Model.In.matchGfx l = some (subList l m) := by
  obtain ⟨hp, hv, ht, rhs, hrhs, rfl⟩ := shape_of_match l m h
  obtain ⟨pre, post, hk, hpre⟩ := kw_pfx _ hp
  exact in_of_shape pre post rhs m hrhs hk hpre hv.1 (by rw [isDigitComma_same]; exact hv.2) ht

theorem pfx_of_kw (kw : Bytes) (h : kw ∈ Model.In.kwGfx) : IsPfx kw := by
  simp only [Model.In.kwGfx, List.mem_cons, List.not_mem_nil, or_false] at h
  rcases h with rfl | rfl | rfl
  · exact Or.inl (by decide)
  · exact Or.inr (Or.inl (by decide))
  · exact Or.inr (Or.inr (by decide))

theorem isNum_of (d : Bytes) (h1 : d ≠ []) (h2 : d.all Bytes.isDigit = true) : IsNum d :=
  ⟨h1, by rw [← isDigit_same]; exact h2⟩

/-- what the decoder's matcher accepts, the C05 matcher accepts, with the same groups -/
theorem gfx_of_in (l : Bytes) (M : List Bytes) (h : Model.In.matchGfx l = some M) :
    ∃ m, Gfx.matchGfx l = some m ∧ M = subList l m := by
  unfold Model.In.matchGfx at h
  split at h
  · exact absurd h (by simp)
  rename_i kw r hkw
  obtain ⟨hkmem, rfl⟩ := DecShape.firstKw_some _ _ _ _ hkw
  have hp := pfx_of_kw kw hkmem
  simp only [] at h
  have hsp := DecShape.spanP_spec Model.In.isDigitComma r
  generalize Model.In.spanP Model.In.isDigitComma r = sp at h hsp
  obtain ⟨ids, r1⟩ := sp
  simp only [] at h hsp
  split at h
  · exact absurd h (by simp)
  rename_i hne
  have hv : ValidIds ids := ⟨hne, by rw [← isDigitComma_same]; exact hsp.2.1⟩
  -- a successful match with groups `m` whose right-hand side has shape `rhs`
  have fin : ∀ (rhs d : Bytes) (m : Sub), r = ids ++ 61 :: (rhs ++ 58 :: d) → Model.In.noLF d = true →
      m.g1 = kw → m.g2 = ids → m.g11 = d → RhsShape rhs m →
      Gfx.matchGfx (kw ++ r) = some m := by
    intro rhs d m hr hlf e1 e2 e3 hrhs
    apply match_of_shape
    refine ⟨by rw [e1]; exact hp, by rw [e2]; exact hv, by rw [e3]; exact hlf, rhs, hrhs, ?_⟩
    rw [e1, e2, e3, hr]
  split at h
  · rename_i r2
    split at h
    · exact absurd h (by simp)
    rename_i idx r3 hidx
    obtain ⟨rfl, i1, i2⟩ := DecShape.digits1_some _ _ _ hidx
    have n3 := isNum_of idx i1 i2
    split at h
    · -- `idx:payload`
      rename_i d
      split at h
      · rename_i hlf
        injection h with h
        refine ⟨{ g1 := kw, g2 := ids, g3 := idx, g11 := d }, ?_, ?_⟩
        · exact fin idx d _ hsp.1 hlf rfl rfl rfl (.simple kw ids idx d n3)
        · rw [← h]; rfl
      · exact absurd h (by simp)
    · -- `idx/…`
      rename_i r4
      split at h
      · exact absurd h (by simp)
      rename_i mx r5 hmx
      obtain ⟨rfl, m1, m2⟩ := DecShape.digits1_some _ _ _ hmx
      have n5 := isNum_of mx m1 m2
      split at h
      · rename_i r6
        split at h
        · exact absurd h (by simp)
        rename_i w r7 hw
        obtain ⟨rfl, w1, w2⟩ := DecShape.digits1_some _ _ _ hw
        have n6 := isNum_of w w1 w2
        split at h
        · rename_i r8
          split at h
          · exact absurd h (by simp)
          rename_i hh r9 hhh
          obtain ⟨rfl, h1, h2⟩ := DecShape.digits1_some _ _ _ hhh
          have n7 := isNum_of hh h1 h2
          split at h
          · -- `idx/mx,wxh:payload`
            rename_i d
            split at h
            · rename_i hlf
              injection h with h
              refine ⟨{ g1 := kw, g2 := ids, g3 := idx, g4 := [47] ++ mx ++ [44] ++ w ++ [120] ++ hh, g5 := mx, g6 := w,
                        g7 := hh, g11 := d }, ?_, ?_⟩
              · exact fin (idx ++ 47 :: (mx ++ 44 :: (w ++ 120 :: hh))) d _
                  (by rw [hsp.1]; simp [List.append_assoc]) hlf rfl rfl rfl
                  (.hdr3 kw ids idx mx w hh d n3 n5 n6 n7)
              · rw [← h]; simp [subList, List.append_assoc]
            · exact absurd h (by simp)
          · -- `idx/mx,wxh,x,y:payload`
            rename_i r10
            split at h
            · exact absurd h (by simp)
            rename_i x r11 hx
            obtain ⟨rfl, x1, x2⟩ := DecShape.digits1_some _ _ _ hx
            have n9 := isNum_of x x1 x2
            split at h
            · rename_i r12
              split at h
              · exact absurd h (by simp)
              rename_i y r13 hy
              obtain ⟨rfl, y1, y2⟩ := DecShape.digits1_some _ _ _ hy
              have n10 := isNum_of y y1 y2
              split at h
              · rename_i d
                split at h
                · rename_i hlf
                  injection h with h
                  refine ⟨{ g1 := kw, g2 := ids, g3 := idx,
                            g4 := [47] ++ mx ++ [44] ++ w ++ [120] ++ hh ++ [44] ++ x ++ [44] ++ y, g5 := mx, g6 := w,
                            g7 := hh, g8 := [44] ++ x ++ [44] ++ y, g9 := x, g10 := y, g11 := d }, ?_, ?_⟩
                  · exact fin (idx ++ 47 :: (mx ++ 44 :: (w ++ 120 :: (hh ++ 44 :: (x ++ 44 :: y))))) d _
                      (by rw [hsp.1]; simp [List.append_assoc]) hlf rfl rfl rfl
                      (.hdr5 kw ids idx mx w hh x y d n3 n5 n6 n7 n9 n10)
                  · rw [← h]; simp [subList, List.append_assoc]
                · exact absurd h (by simp)
              · exact absurd h (by simp)
            · exact absurd h (by simp)
          · exact absurd h (by simp)
        · exact absurd h (by simp)
      · exact absurd h (by simp)
    · exact absurd h (by simp)
  · exact absurd h (by simp)

/-- **the two matchers agree on every byte string** -/
theorem matchers_agree (l : Bytes) : Model.In.matchGfx l = (Gfx.matchGfx l).map (subList l) := by
  cases hg : Gfx.matchGfx l with
  | some m => rw [Option.map_some]; exact in_of_gfx l m hg
  | none =>
    rw [Option.map_none]
    cases hi : Model.In.matchGfx l with
    | none => rfl
    | some M =>
      obtain ⟨m, hm, _⟩ := gfx_of_in l M hi
      rw [hm] at hg; exact absurd hg (by simp)

/-! ## B. the two readings of a number -/

theorem foldl_same (ds : Bytes) (a : Nat) :
    ds.foldl (fun acc b => 10 * acc + (b.toNat - 48)) a = ds.foldl (fun acc d => acc * 10 + (d.toNat - 48)) a := by
  induction ds generalizing a with
  | nil => rfl
  | cons c cs ih => simp only [List.foldl_cons]; rw [Nat.mul_comm 10 a]; exact ih _

/-- the scan reports a range error when the digits denote more than 64 bits hold -/
theorem scanU_range (ds : Bytes) (a : Nat) (hd : ds.all Bytes.isDigit = true) (ha : a ≤ Bytes.maxUint64)
    (hm : Bytes.maxUint64 < ds.foldl (fun acc b => 10 * acc + (b.toNat - 48)) a) : Bytes.scanU a ds = .range := by
  induction ds generalizing a with
  | nil => simp only [List.foldl_nil] at hm; omega
  | cons c cs ih =>
    simp only [List.all_cons, Bool.and_eq_true] at hd
    simp only [List.foldl_cons] at hm
    unfold Bytes.scanU
    simp only [hd.1, Bool.not_true, Bool.false_eq_true, if_false]
    by_cases h1 : a ≥ Bytes.cutoff10
    · rw [if_pos h1]
    · rw [if_neg h1]
      by_cases h2 : a * 10 + (c.toNat - 48) > Bytes.maxUint64
      · rw [if_pos h2]
      · rw [if_neg h2]
        exact ih _ hd.2 (by omega) (by rw [Nat.mul_comm]; exact hm)

/-- `strconv.Atoi` on a digit string (possibly empty), in both models -/
theorem atoiV_digits (ds : Bytes) (hd : ds.all Gfx.isDigit = true) : Bytes.atoiV ds = (Gfx.atoi ds : Int) := by
  cases ds with
  | nil => rfl
  | cons c cs =>
    have hd' : (c :: cs).all Bytes.isDigit = true := by rw [isDigit_same]; exact hd
    have hc : Gfx.isDigit c = true := by simp only [List.all_cons, Bool.and_eq_true] at hd; exact hd.1
    have h45 : c ≠ 45 := by rintro rfl; exact absurd hc (by decide)
    have h43 : c ≠ 43 := by rintro rfl; exact absurd hc (by decide)
    have hatoi : Gfx.atoi (c :: cs) = min (Gfx.natOfDigits (c :: cs)) Gfx.maxInt := by
      unfold Gfx.atoi
      rw [if_neg (by simp [hd])]
    rw [hatoi]
    have hval : (c :: cs).foldl (fun acc b => 10 * acc + (b.toNat - 48)) 0 = Gfx.natOfDigits (c :: cs) := by
      unfold Gfx.natOfDigits; exact foldl_same _ 0
    generalize hv : Gfx.natOfDigits (c :: cs) = v at hval
    unfold Bytes.atoiV
    split
    · rename_i ds' heq; injection heq with e1 _; exact absurd e1 h45
    · rename_i ds' heq; injection heq with e1 _; exact absurd e1 h43
    · simp only [List.cons_ne_nil, if_false]
      by_cases hfit : v ≤ Bytes.maxUint64
      · rw [Bytes.scanU_ok _ 0 hd' (by rw [hval]; exact hfit), hval]
        simp only [Bool.false_eq_true, if_false]
        unfold Bytes.maxInt64 Gfx.maxInt
        split <;> omega
      · rw [scanU_range _ 0 hd' (by unfold Bytes.maxUint64; omega) (by rw [hval]; omega)]
        simp only [Bool.false_eq_true, if_false]
        unfold Bytes.maxInt64 Gfx.maxInt
        unfold Bytes.maxUint64 at hfit
        omega

theorem u32_atoiV (ds : Bytes) (hd : ds.all Gfx.isDigit = true) : Model.In.u32 (Bytes.atoiV ds) = Gfx.atou32 ds := by
  rw [atoiV_digits ds hd]
  unfold Model.In.u32 Gfx.atou32
  omega

theorem splitOn_same (s : Bytes) : Bytes.splitOn 44 s = splitComma s := by
  induction s with
  | nil => rfl
  | cons c cs ih =>
    by_cases hc : c = 44
    · simp [Bytes.splitOn, splitComma, ih, hc]
    · simp only [Bytes.splitOn, splitComma, ih, hc, if_false]
      cases splitComma cs <;> rfl

theorem intExplode_same (s : Bytes) (h : s.all isIdChar = true) : Model.In.intExplode s = Gfx.intExplode s := by
  unfold Model.In.intExplode Gfx.intExplode
  rw [splitOn_same]
  apply List.map_congr_left
  intro part hp
  exact u32_atoiV part (parts_digits s h part hp)

/-! ## C. the two base64 decoders -/

theorem decChar_same (c : UInt8) : B64In.decChar c = B64.decChar c := by
  unfold B64In.decChar B64.decChar
  simp only []
  repeat' split
  all_goals first | rfl | (congr 1; omega) | omega

def notNL (c : UInt8) : Bool := !B64.isNewline c

theorem isNL_iff (c : UInt8) : B64.isNewline c = true ↔ (c = 10 ∨ c = 13) := by
  simp [B64.isNewline]

/-- one quantum on a text without `\r` `\n` -/
def qF : List Nat → Bytes → Bytes × Option Bytes
  | _, [] => ([], none)
  | acc, c :: r =>
    match B64In.decChar c with
    | some v => if acc.length ≥ 3 then (B64In.quantumBytes (acc ++ [v]), some r) else qF (acc ++ [v]) r
    | none =>
      if c ≠ 61 then ([], none)
      else if acc.length < 2 then ([], none)
      else if acc.length = 2 then
        match r with
        | [] => ([], none)
        | d :: _ => if d ≠ 61 then ([], none) else (B64In.quantumBytes acc, none)
      else (B64In.quantumBytes acc, none)

theorem skipNL_head (r : Bytes) : (B64In.skipNL r).head? = (r.filter notNL).head? := by
  induction r with
  | nil => rfl
  | cons c r ih =>
    unfold B64In.skipNL
    by_cases hc : c = 10 ∨ c = 13
    · rw [if_pos hc, List.filter_cons, if_neg (by simp [notNL, (isNL_iff c).mpr hc])]; exact ih
    · rw [if_neg hc, List.filter_cons, if_pos (by
        have : B64.isNewline c = false := by
          cases h : B64.isNewline c with
          | false => rfl
          | true => exact absurd ((isNL_iff c).mp h) hc
        simp [notNL, this])]
      rfl

theorem quantum_filter : ∀ (s : Bytes) (acc : List Nat),
    (B64In.quantum acc s).1 = (qF acc (s.filter notNL)).1 ∧
      (B64In.quantum acc s).2.map (List.filter notNL) = (qF acc (s.filter notNL)).2 := by
  intro s
  induction s with
  | nil => intro acc; exact ⟨rfl, rfl⟩
  | cons c r ih =>
    intro acc
    by_cases hc : c = 10 ∨ c = 13
    · have hd : B64In.decChar c = none := by rcases hc with rfl | rfl <;> decide
      have hf : (c :: r).filter notNL = r.filter notNL := by
        rw [List.filter_cons, if_neg (by simp [notNL, (isNL_iff c).mpr hc])]
      rw [hf]
      unfold B64In.quantum
      simp only [hd, hc, if_true]
      exact ih acc
    · have hn : notNL c = true := by
        have : B64.isNewline c = false := by
          cases h : B64.isNewline c with
          | false => rfl
          | true => exact absurd ((isNL_iff c).mp h) hc
        simp [notNL, this]
      have hf : (c :: r).filter notNL = c :: r.filter notNL := by rw [List.filter_cons, if_pos hn]
      rw [hf]
      unfold B64In.quantum qF
      cases hd : B64In.decChar c with
      | some v =>
        simp only []
        by_cases h3 : acc.length ≥ 3
        · rw [if_pos h3, if_pos h3]; exact ⟨rfl, rfl⟩
        · rw [if_neg h3, if_neg h3]; exact ih (acc ++ [v])
      | none =>
        simp only [hc, if_false]
        by_cases h61 : c ≠ 61
        · rw [if_pos h61, if_pos h61]; exact ⟨rfl, rfl⟩
        · rw [if_neg h61, if_neg h61]
          by_cases h2 : acc.length < 2
          · rw [if_pos h2, if_pos h2]; exact ⟨rfl, rfl⟩
          · rw [if_neg h2, if_neg h2]
            by_cases he : acc.length = 2
            · rw [if_pos he, if_pos he]
              have hh := skipNL_head r
              cases hs : B64In.skipNL r with
              | nil =>
                rw [hs] at hh
                cases hfr : r.filter notNL with
                | nil => exact ⟨rfl, rfl⟩
                | cons x xs => rw [hfr] at hh; simp at hh
              | cons d ds =>
                rw [hs] at hh
                cases hfr : r.filter notNL with
                | nil => rw [hfr] at hh; simp at hh
                | cons x xs =>
                  rw [hfr] at hh
                  simp only [List.head?_cons, Option.some.injEq] at hh
                  subst hh
                  simp only []
                  split <;> simp
            · rw [if_neg he, if_neg he]; exact ⟨rfl, rfl⟩

/-- the decoder of `B64In` on a text without `\r` `\n` -/
def decodeFT : Nat → Bytes → Bytes
  | 0, _ => []
  | n + 1, t =>
    match qF [] t with
    | (out, none) => out
    | (out, some r) => out ++ decodeFT n r

theorem decodeF_filter : ∀ (fuel : Nat) (s : Bytes), B64In.decodeF fuel s = decodeFT fuel (s.filter notNL) := by
  intro fuel
  induction fuel with
  | zero => intro s; rfl
  | succ n ih =>
    intro s
    obtain ⟨h1, h2⟩ := quantum_filter s []
    unfold B64In.decodeF decodeFT
    generalize B64In.quantum [] s = q at h1 h2
    generalize qF [] (s.filter notNL) = q' at h1 h2
    obtain ⟨o, r⟩ := q
    obtain ⟨o', r'⟩ := q'
    simp only [] at h1 h2
    subst h1
    cases r with
    | none => simp only [Option.map_none] at h2; subst h2; rfl
    | some r => simp only [Option.map_some] at h2; subst h2; simp only []; rw [ih]

theorem qF_short : ∀ (t : Bytes) (acc : List Nat), acc.length + t.length < 4 → qF acc t = ([], none) := by
  intro t
  induction t with
  | nil => intro acc _; rfl
  | cons c r ih =>
    intro acc h
    simp only [List.length_cons] at h
    unfold qF
    cases B64In.decChar c with
    | some v =>
      simp only []
      rw [if_neg (by omega)]
      exact ih (acc ++ [v]) (by simp; omega)
    | none =>
      simp only []
      by_cases h61 : c ≠ 61
      · rw [if_pos h61]
      · rw [if_neg h61]
        by_cases h2 : acc.length < 2
        · rw [if_pos h2]
        · rw [if_neg h2]
          have he : acc.length = 2 := by omega
          rw [if_pos he]
          cases r with
          | nil => rfl
          | cons d ds => simp only [List.length_cons] at h; omega

theorem ofNat_mod (n : Nat) : UInt8.ofNat (n % 256) = UInt8.ofNat n := by
  apply UInt8.toNat_inj.mp
  simp [UInt8.toNat_ofNat]

theorem dec61 : B64.decChar 61 = none := by decide

theorem decodeFT_core (t : Bytes) : ∀ fuel, t.length < fuel → decodeFT fuel t = (B64.decodeCore t).1 := by
  fun_induction B64.decodeCore t with
  | case1 =>
    intro fuel h
    cases fuel with
    | zero => omega
    | succ n => rfl
  | case2 c0 c1 c2 c3 rest s0 s1 h1 h0 s2 h2 s3 h3 r ih =>
    intro fuel h
    cases fuel with
    | zero => omega
    | succ n =>
      simp only [List.length_cons] at h
      unfold decodeFT
      have : qF [] (c0 :: c1 :: c2 :: c3 :: rest) = (B64In.quantumBytes [s0, s1, s2, s3], some rest) := by
        simp [qF, decChar_same, h0, h1, h2, h3]
      rw [this]
      simp only []
      rw [ih n (by omega)]
      simp [B64In.quantumBytes, ofNat_mod, r]
  | case3 c0 c1 c2 rest s0 s1 h1 h0 s2 h2 h3 =>
    intro fuel h
    cases fuel with
    | zero => omega
    | succ n =>
      unfold decodeFT
      have : qF [] (c0 :: c1 :: c2 :: B64.pad :: rest) = (B64In.quantumBytes [s0, s1, s2], none) := by
        simp [qF, decChar_same, h0, h1, h2, h3, B64.pad, dec61]
      rw [this]
      simp [B64In.quantumBytes, ofNat_mod]
  | case4 c0 c1 c2 c3 rest s0 s1 h1 h0 s2 h2 h3 hp =>
    intro fuel h
    cases fuel with
    | zero => omega
    | succ n =>
      unfold decodeFT
      have : qF [] (c0 :: c1 :: c2 :: c3 :: rest) = ([], none) := by
        have hp' : c3 ≠ 61 := hp
        simp [qF, decChar_same, h0, h1, h2, h3, hp']
      rw [this]
  | case5 c0 c1 c2 c3 rest s0 s1 h1 h0 h2 hp =>
    intro fuel h
    cases fuel with
    | zero => omega
    | succ n =>
      unfold decodeFT
      obtain ⟨rfl, rfl⟩ := hp
      have : qF [] (c0 :: c1 :: B64.pad :: B64.pad :: rest) = (B64In.quantumBytes [s0, s1], none) := by
        simp [qF, decChar_same, h0, h1, h2, B64.pad, dec61]
      rw [this]
      simp [B64In.quantumBytes, ofNat_mod]
  | case6 c0 c1 c2 c3 rest s0 s1 h1 h0 h2 hp =>
    intro fuel h
    cases fuel with
    | zero => omega
    | succ n =>
      unfold decodeFT
      have : qF [] (c0 :: c1 :: c2 :: c3 :: rest) = ([], none) := by
        by_cases e2 : c2 = 61
        · have e3 : c3 ≠ 61 := fun e3 => hp ⟨e2, e3⟩
          simp [qF, decChar_same, h0, h1, h2, e2, e3, dec61]
        · simp [qF, decChar_same, h0, h1, h2, e2]
      rw [this]
  | case7 c0 c1 c2 c3 rest hn =>
    intro fuel h
    cases fuel with
    | zero => omega
    | succ n =>
      unfold decodeFT
      have : qF [] (c0 :: c1 :: c2 :: c3 :: rest) = ([], none) := by
        cases h0 : B64.decChar c0 with
        | none =>
          by_cases e : c0 = 61 <;> simp [qF, decChar_same, h0, e, dec61]
        | some s0 =>
          cases h1 : B64.decChar c1 with
          | none => by_cases e : c1 = 61 <;> simp [qF, decChar_same, h0, h1, e, dec61]
          | some s1 => exact absurd (hn s0 s1 h0 h1) id
      rw [this]
  | case8 t h1 h2 =>
    intro fuel h
    cases fuel with
    | zero => omega
    | succ n =>
      unfold decodeFT
      have hl : t.length < 4 := by
        match t, h2 with
        | [], _ => simp
        | [_], _ => simp
        | [_, _], _ => simp
        | [_, _, _], _ => simp
        | a :: b :: c :: d :: r, h2 => exact absurd rfl (h2 a b c d r)
      rw [qF_short t [] (by simpa using hl)]

/-- **the two base64 decoders agree on every text** (bytes produced, error or not) -/
theorem b64_same (s : Bytes) : B64In.decode s = (B64.decodeGo s).1 := by
  unfold B64In.decode B64.decodeGo
  rw [decodeF_filter]
  exact decodeFT_core _ _ (by
    have := List.length_filter_le notNL s
    omega)

/-! ## D. the graphics branch: `decGfx` computes `Batch.stepP` -/

/-- the protobuf image of an image object -/
def toGfx (i : Img) : MsgIn.Gfx :=
  { imageType := (i.ty : Int), w := i.W, h := i.H, xyOffset := i.off, x := i.X, y := i.Y, imageData := i.data }

/-- the message the graphics branch returns for a completed transfer -/
def gfxMsg (ids : List Nat) (i : Img) : InMsg := Model.In.stateMsg { ids := ids, gfx := some (toGfx i) }

/-- "Reset image intake" of `decGfx`, over the values `parsedOf` computes -/
def greset (st : Model.In.GfxSt) (p : Parsed) : Model.In.GfxSt :=
  if p.idx = 0 then
    { st with hwcList := p.list, count := -1, imageType := (p.ty : Int), alias := none, max := p.max,
              temp := toGfx p.img }
  else st

/-- the rest of `decGfx` (repaired tree) -/
def gtail (st : Model.In.GfxSt) (p : Parsed) : Model.In.GfxSt × Option InMsg :=
  if st.imageType = (p.ty : Int) then
    if p.list = st.hwcList then
      if p.idx = st.count + 1 ∧ p.ok = true then
        let st := { st with count := st.count + 1,
                            temp := { st.temp with imageData := st.temp.imageData ++ p.data } }
        if p.idx = st.max then
          ({ st with temp := {}, hwcList := [] },
            some (Model.In.stateMsg { ids := Model.In.intExplode st.hwcList, gfx := some st.temp }))
        else (st, none)
      else ({ st with hwcList := [] }, none)
    else (st, none)
  else (st, none)

/-- `decGfx` (repaired tree) written over the values `parsedOf` computes -/
def gstep (st : Model.In.GfxSt) (p : Parsed) : Model.In.GfxSt × Option InMsg := gtail (greset st p) p

theorem gfxTypeOf_same (g1 : Bytes) : Model.In.gfxTypeOf g1 = (typeOfPrefix g1 : Int) := by
  unfold Model.In.gfxTypeOf typeOfPrefix
  rw [show Bytes.asc "HWCgRGB#" = pRGB ++ [35] by decide, show Bytes.asc "HWCgGray#" = pGray ++ [35] by decide]
  split
  · rfl
  · split <;> rfl

theorem typeOfPrefix_le (g1 : Bytes) : typeOfPrefix g1 ≤ 2 := by
  unfold typeOfPrefix; repeat' split
  all_goals omega

theorem i32_small (n : Nat) (h : n ≤ 2) : Model.In.i32 (n : Int) = (n : Int) := by
  unfold Model.In.i32; omega

/-- every numeric group of a matched line is a (possibly empty) digit string -/
theorem groups_digits (l : Bytes) (m : Sub) (h : Gfx.matchGfx l = some m) :
    m.g3.all isDigit = true ∧ m.g5.all isDigit = true ∧ m.g6.all isDigit = true ∧ m.g7.all isDigit = true ∧
      m.g9.all isDigit = true ∧ m.g10.all isDigit = true ∧ m.g2.all isIdChar = true := by
  obtain ⟨_, hv, _, rhs, hrhs, _⟩ := shape_of_match l m h
  match rhs, m, hrhs with
  | _, _, .simple g1 g2 g3 p h3 => exact ⟨h3.2, rfl, rfl, rfl, rfl, rfl, hv.2⟩
  | _, _, .hdr3 g1 g2 g3 g5 g6 g7 p h3 h5 h6 h7 => exact ⟨h3.2, h5.2, h6.2, h7.2, rfl, rfl, hv.2⟩
  | _, _, .hdr5 g1 g2 g3 g5 g6 g7 g9 g10 p h3 h5 h6 h7 h9 h10 => exact ⟨h3.2, h5.2, h6.2, h7.2, h9.2, h10.2, hv.2⟩

theorem length_pos_iff_ne (x : Bytes) : (x.length > 0) = (x ≠ []) := by
  cases x <;> simp

/-- the panic-carrying `decGfx` on the sub-match list of a matched line never panics and is `gstep` -/
theorem decGfx_eq (l : Bytes) (m : Sub) (h : Gfx.matchGfx l = some m) (st : Model.In.GfxSt) :
    Model.In.decGfx false st (subList l m) = .ok (gstep st (parsedOf m)) := by
  obtain ⟨d3, d5, d6, d7, d9, d10, hid⟩ := groups_digits l m h
  have ty := typeOfPrefix_le m.g1
  simp only [Model.In.decGfx, subList, Model.In.sub, bind, Except.bind, pure, Except.pure,
    List.getElem?_cons_succ, List.getElem?_cons_zero, Bool.false_eq_true, if_false]
  simp only [atoiV_digits _ d3, atoiV_digits _ d5, u32_atoiV _ d6, u32_atoiV _ d7, u32_atoiV _ d9, u32_atoiV _ d10,
    gfxTypeOf_same, b64_same, i32_small _ ty, length_pos_iff_ne]
  unfold gstep greset gtail parsedOf
  simp only []
  by_cases h0 : (atoi m.g3 : Int) = 0
  · by_cases h4 : m.g4 = []
    · simp only [h0, h4, if_true, ne_eq, not_true_eq_false, if_false, toGfx, decide_false]
      repeat' split
      all_goals first | rfl | simp_all
    · simp only [h0, h4, if_true, ne_eq, not_false_eq_true, toGfx]
      repeat' split
      all_goals first | rfl | simp_all
  · simp only [h0, if_false]
    repeat' split
    all_goals first | rfl | simp_all

/-- the decoder's reassembly state `st` and the C05 model's locals `s` describe the same situation -/
structure Rg (st : Model.In.GfxSt) (s : BState) : Prop where
  temp : st.temp = toGfx (s.store.getD s.cur {})
  count : st.count = s.count
  max : st.max = s.max
  list : st.hwcList = s.list
  ty : st.imageType = (s.ty : Int)
  alias : st.alias = none
  cur : s.cur < s.store.length
  idc : s.list.all isIdChar = true

theorem rg_init : Rg {} {} := ⟨rfl, rfl, rfl, rfl, rfl, rfl, by decide, rfl⟩

theorem rg_reset (st : Model.In.GfxSt) (s : BState) (p : Parsed) (h : Rg st s) (hp : p.list.all isIdChar = true) :
    Rg (greset st p) (afterReset s p) := by
  unfold greset afterReset
  split
  · refine ⟨?_, rfl, rfl, rfl, rfl, rfl, by simp [resetIntake], hp⟩
    simp only [resetIntake]
    rw [getD_append_len]
  · exact h

/-- what a returned graphics message looks like to the caller, the image read in the store `st` -/
def outMsg (st : List Img) : Out → InMsg
  | .gfx ids ref => gfxMsg ids (st.getD ref {})
  | .other _ => {}

theorem toGfx_append (i : Img) (d : Bytes) :
    ({ toGfx i with imageData := (toGfx i).imageData ++ d } : MsgIn.Gfx) = toGfx { i with data := i.data ++ d } := rfl

def gAccept (st1 : Model.In.GfxSt) (p : Parsed) : Model.In.GfxSt :=
  { st1 with count := st1.count + 1, temp := { st1.temp with imageData := st1.temp.imageData ++ p.data } }

def gDone (st1 : Model.In.GfxSt) : Model.In.GfxSt := { st1 with count := st1.count + 1, temp := {}, hwcList := [] }

def gMsg (st1 : Model.In.GfxSt) (p : Parsed) : InMsg :=
  Model.In.stateMsg { ids := Model.In.intExplode st1.hwcList, gfx := some (gAccept st1 p).temp }

/-- **the graphics branch of the two models**: from related states, on the values of the same line, the decoder model's
step and `Batch.stepP` lead to related states and return the same message -/
theorem gstep_sim (st : Model.In.GfxSt) (s : BState) (p : Parsed) (h : Rg st s) (hp : p.list.all isIdChar = true) :
    Rg (gstep st p).1 (Batch.stepP s p).1 ∧
      (gstep st p).2 = (Batch.stepP s p).2.map (outMsg (Batch.stepP s p).1.store) := by
  have h1 := rg_reset st s p h hp
  unfold gstep
  generalize greset st p = st1 at h1
  have hc := stepP_cases s p
  simp only [] at hc
  generalize afterReset s p = s1 at h1 hc
  have ety : (st1.imageType = (p.ty : Int)) ↔ s1.ty = p.ty := by rw [h1.ty]; omega
  have elist : (p.list = st1.hwcList) ↔ p.list = s1.list := by rw [h1.list]
  have eidx : (p.idx = st1.count + 1 ∧ p.ok = true) ↔ (p.idx = s1.count + 1 ∧ p.ok = true) := by rw [h1.count]
  rcases hc with ⟨hn, he⟩ | ⟨hm, hn, he⟩ | ⟨hm, ha, hnm, he⟩ | ⟨hm, ha, hmx, he⟩
  · -- not for the transfer in progress
    rw [he]
    have : gtail st1 p = (st1, none) := by
      unfold gtail
      by_cases c1 : st1.imageType = (p.ty : Int)
      · rw [if_pos c1, if_neg (fun c2 => hn ⟨ety.mp c1, elist.mp c2⟩)]
      · rw [if_neg c1]
    rw [this]; exact ⟨h1, rfl⟩
  · -- dropped
    rw [he]
    have : gtail st1 p = (({ st1 with hwcList := [] } : Model.In.GfxSt), none) := by
      unfold gtail
      rw [if_pos (ety.mpr hm.1), if_pos (elist.mpr hm.2), if_neg (fun c => hn (eidx.mp c))]
    rw [this]
    exact ⟨⟨h1.temp, h1.count, h1.max, rfl, h1.ty, h1.alias, h1.cur, rfl⟩, rfl⟩
  · -- accepted, more to come
    rw [he]
    have : gtail st1 p = (gAccept st1 p, none) := by
      unfold gtail
      rw [if_pos (ety.mpr hm.1), if_pos (elist.mpr hm.2), if_pos (eidx.mpr ha)]
      simp only []
      rw [if_neg (by rw [h1.max]; exact hnm)]
      rfl
    rw [this]
    refine ⟨⟨?_, by simp [gAccept, h1.count], h1.max, h1.list, h1.ty, h1.alias,
      by simpa [appendAt_length] using h1.cur, h1.idc⟩, rfl⟩
    simp only [gAccept]
    rw [appendAt_getD_self _ _ _ h1.cur, h1.temp, toGfx_append]
  · -- accepted and complete
    rw [he]
    have : gtail st1 p = (gDone st1, some (gMsg st1 p)) := by
      unfold gtail
      rw [if_pos (ety.mpr hm.1), if_pos (elist.mpr hm.2), if_pos (eidx.mpr ha)]
      simp only []
      rw [if_pos (by rw [h1.max]; exact hmx)]
      rfl
    rw [this]
    refine ⟨⟨?_, by simp [gDone, h1.count], h1.max, rfl, h1.ty, h1.alias, by simp [appendAt_length], rfl⟩, ?_⟩
    · simp only [gDone]
      rw [getD_append_len]; rfl
    · simp only [Option.map_some, outMsg, gfxMsg, gMsg, gAccept]
      rw [getD_append_lt _ _ _ (by rw [appendAt_length]; exact h1.cur), appendAt_getD_self _ _ _ h1.cur,
        h1.temp, toGfx_append, h1.list, intExplode_same _ h1.idc]

/-! ## E. whole line sequences -/

/-- `HWCg`, the first four bytes of every graphics line -/
def hwcg : Bytes := [72, 87, 67, 103]

theorem pfx_hwcg (g1 : Bytes) (h : IsPfx g1) : ∃ t, g1 = hwcg ++ t := by
  rcases h with rfl | rfl | rfl
  · exact ⟨[82, 71, 66, 35], by decide⟩
  · exact ⟨[71, 114, 97, 121, 35], by decide⟩
  · exact ⟨[35], by decide⟩

theorem literal_none (t : Bytes) : Model.In.literalMsg (hwcg ++ t) = none := by
  have hh : (hwcg ++ t).head? = some 72 := rfl
  unfold Model.In.literalMsg
  repeat (rw [if_neg (fun e => absurd (congrArg List.head? e) (by rw [hh]; decide))])

theorem matchCmd_none (t : Bytes) : Model.In.matchCmd (hwcg ++ t) = none := by
  unfold Model.In.matchCmd
  rw [DecGfx.firstKw_none Model.In.kwCmd hwcg t (by decide)]

theorem gtail_alias (st : Model.In.GfxSt) (p : Parsed) : (gtail st p).1.alias = st.alias := by
  unfold gtail
  by_cases c1 : st.imageType = (p.ty : Int)
  · rw [if_pos c1]
    by_cases c2 : p.list = st.hwcList
    · rw [if_pos c2]
      by_cases c3 : p.idx = st.count + 1 ∧ p.ok = true
      · rw [if_pos c3]
        simp only []
        split <;> rfl
      · rw [if_neg c3]
    · rw [if_neg c2]
  · rw [if_neg c1]

theorem gstep_alias (st : Model.In.GfxSt) (p : Parsed) (h : st.alias = none) : (gstep st p).1.alias = none := by
  unfold gstep
  rw [gtail_alias]
  unfold greset
  split
  · rfl
  · exact h

theorem flatMap_congr' {α β : Type} (l : List α) (f g : α → List β) (h : ∀ x ∈ l, f x = g x) :
    l.flatMap f = l.flatMap g := by
  induction l with
  | nil => rfl
  | cons a l ih =>
    rw [List.flatMap_cons, List.flatMap_cons, h a (by simp), ih (fun x hx => h x (by simp [hx]))]

/-- a graphics line reaches the graphics branch of `decLine`, which then does what `gstep` does -/
theorem decLine_on_gfx (O : Oracles) (dst : Model.In.DecSt) (l : Bytes) (m : Sub) (h : Gfx.matchGfx l = some m)
    (ha : dst.gfx.alias = none) :
    Model.In.decLine O false dst l =
      .ok { out := dst.out ++ DecGfx.optList (gstep dst.gfx (parsedOf m)).2, gfx := (gstep dst.gfx (parsedOf m)).1 } := by
  obtain ⟨hp, _, _, rhs, _, hl⟩ := shape_of_match l m h
  obtain ⟨t, ht⟩ := pfx_hwcg _ hp
  have hl' : l = hwcg ++ (t ++ (m.g2 ++ 61 :: (rhs ++ 58 :: m.g11))) := by rw [hl, ht, List.append_assoc]
  have halias : (gstep dst.gfx (parsedOf m)).1.alias = none := gstep_alias _ _ ha
  apply DecGfx.decLine_gfx O dst l (subList l m) _ _
  · rw [hl']; exact literal_none _
  · rw [hl']; simp [hwcg]
  · rw [hl']; simp [hwcg]
  · rw [hl']; exact matchCmd_none _
  · exact in_of_gfx l m h
  · exact decGfx_eq l m h dst.gfx
  · exact halias

/-- the messages the decoder returns for a single non-graphics line (the "opaque per-line function" of the C05 model) -/
def otherOut (O : Oracles) (l : Bytes) : List (Option InMsg) :=
  match Model.In.decLine O false {} l with
  | .ok d => d.out
  | .error _ => []

/-- a non-graphics line: the decoder appends messages that depend on the line only and leaves the graphics state alone -/
theorem decLine_frame (O : Oracles) (l : Bytes) (h : Gfx.matchGfx l = none) :
    ∃ ms, ∀ dst : Model.In.DecSt, Model.In.decLine O false dst l = .ok { out := dst.out ++ ms, gfx := dst.gfx } := by
  have hg : Model.In.matchGfx l = none := by rw [matchers_agree, h]; rfl
  have push : ∀ (dst : Model.In.DecSt) (r : Option InMsg),
      (match r with
        | some msg => ({ dst with out := dst.out ++ [some msg] } : Model.In.DecSt)
        | none => dst) = { out := dst.out ++ DecGfx.optList r, gfx := dst.gfx } := by
    intro dst r; cases r <;> simp [DecGfx.optList]
  cases hl : Model.In.literalMsg l with
  | some mo =>
    refine ⟨DecGfx.optList mo, fun dst => ?_⟩
    unfold Model.In.decLine
    simp only [hl, bind, Except.bind, pure, Except.pure]
    cases mo <;> simp [DecGfx.optList]
  | none =>
    by_cases h1 : l.head? = some 123
    · refine ⟨[some (Model.In.stateMsg (O.parseState l))], fun dst => ?_⟩
      unfold Model.In.decLine
      simp only [hl, bind, Except.bind, pure, Except.pure, h1, if_true]
    · by_cases h2 : l.head? = some 91
      · refine ⟨(O.parseMsgs l).filter Option.isSome, fun dst => ?_⟩
        unfold Model.In.decLine
        simp only [hl, bind, Except.bind, pure, Except.pure, Bool.false_eq_true, if_false]
        rw [if_neg h1, if_pos h2]
      · cases hc : Model.In.matchCmd l with
        | some mc =>
          obtain ⟨a, b, c, d, rfl⟩ := TotalIn.matchCmd_len _ _ hc
          obtain ⟨r, hr⟩ := TotalIn.decCmd_ok a b c d
          refine ⟨DecGfx.optList r, fun dst => ?_⟩
          unfold Model.In.decLine
          simp only [hl, bind, Except.bind, pure, Except.pure, h1, h2, if_false, hc, hr]
          exact congrArg Except.ok (push dst r)
        | none =>
          cases hs : Model.In.matchSingle l with
          | some ms1 =>
            obtain ⟨a, b, c, rfl⟩ := TotalIn.matchSingle_len _ _ hs
            obtain ⟨r, hr⟩ := TotalIn.decSingle_ok a b c
            refine ⟨DecGfx.optList r, fun dst => ?_⟩
            unfold Model.In.decLine
            simp only [hl, bind, Except.bind, pure, Except.pure, h1, h2, if_false, hc, hg, hs, hr]
            exact congrArg Except.ok (push dst r)
          | none =>
            cases hd : Model.In.matchDual l with
            | some md =>
              obtain ⟨a, b, c, d, rfl⟩ := TotalIn.matchDual_len _ _ hd
              obtain ⟨r, hr⟩ := TotalIn.decDual_ok a b c d
              refine ⟨DecGfx.optList r, fun dst => ?_⟩
              unfold Model.In.decLine
              simp only [hl, bind, Except.bind, pure, Except.pure, h1, h2, if_false, hc, hg, hs, hd, hr]
              exact congrArg Except.ok (push dst r)
            | none =>
              cases hst : Model.In.matchStr l with
              | some mst =>
                obtain ⟨a, b, c, rfl⟩ := TotalIn.matchStr_len _ _ hst
                obtain ⟨r, hr⟩ := TotalIn.decStr_ok O a b c
                refine ⟨DecGfx.optList r, fun dst => ?_⟩
                unfold Model.In.decLine
                simp only [hl, bind, Except.bind, pure, Except.pure, h1, h2, if_false, hc, hg, hs, hd, hst, hr]
                exact congrArg Except.ok (push dst r)
              | none =>
                cases hrg : Model.In.matchReg l with
                | some mr =>
                  obtain ⟨a, b, c, d, rfl⟩ := TotalIn.matchReg_len _ _ hrg
                  obtain ⟨r, hr⟩ := TotalIn.decReg_ok a b c d
                  refine ⟨DecGfx.optList r, fun dst => ?_⟩
                  unfold Model.In.decLine
                  simp only [hl, bind, Except.bind, pure, Except.pure, h1, h2, if_false, hc, hg, hs, hd, hst, hrg, hr]
                  exact congrArg Except.ok (push dst r)
                | none =>
                  refine ⟨[some {}], fun dst => ?_⟩
                  unfold Model.In.decLine
                  simp only [hl, bind, Except.bind, pure, Except.pure, h1, h2, if_false, hc, hg, hs, hd, hst, hrg]

theorem decLine_other (O : Oracles) (l : Bytes) (h : Gfx.matchGfx l = none) (dst : Model.In.DecSt) :
    Model.In.decLine O false dst l = .ok { out := dst.out ++ otherOut O l, gfx := dst.gfx } := by
  obtain ⟨ms, hms⟩ := decLine_frame O l h
  have : otherOut O l = ms := by
    unfold otherOut
    rw [hms {}]
    simp
  rw [this]; exact hms dst

/-- the caller's view of the C05 model's messages, the opaque lines expanded by the single-line decoder -/
def expandEv (O : Oracles) (evs : List Event) : List (Option InMsg) :=
  evs.flatMap (fun e =>
    match e.out with
    | .gfx ids ref => [some (gfxMsg ids (e.snap.getD ref {}))]
    | .other l => otherOut O l)

theorem expandEv_cons_gfx (O : Oracles) (pos : Nat) (ids : List Nat) (ref : Nat) (snap : List Img) (evs : List Event) :
    expandEv O (⟨pos, .gfx ids ref, snap⟩ :: evs) = some (gfxMsg ids (snap.getD ref {})) :: expandEv O evs := rfl

theorem expandEv_cons_other (O : Oracles) (pos : Nat) (l : Bytes) (snap : List Img) (evs : List Event) :
    expandEv O (⟨pos, .other l, snap⟩ :: evs) = otherOut O l ++ expandEv O evs := rfl

/-- the loop over the lines: the decoder model never panics and returns the messages of the C05 model's events -/
theorem decLines_agree (O : Oracles) : ∀ (ls : List Bytes) (dst : Model.In.DecSt) (s : BState) (pos : Nat),
    Rg dst.gfx s → ∃ dst', Model.In.decLines O false dst ls = .ok dst' ∧
      dst'.out = dst.out ++ expandEv O (Batch.runFrom Batch.step s pos ls).2 := by
  intro ls
  induction ls with
  | nil => intro dst s pos _; exact ⟨dst, rfl, by simp [Batch.runFrom, expandEv]⟩
  | cons l ls ih =>
    intro dst s pos hr
    cases hm : Gfx.matchGfx l with
    | none =>
      have hstep : Batch.step s l = (s, some (.other l)) := by unfold Batch.step; rw [hm]
      obtain ⟨dst', h1, h2⟩ := ih { out := dst.out ++ otherOut O l, gfx := dst.gfx } s (pos + 1) hr
      refine ⟨dst', ?_, ?_⟩
      · unfold Model.In.decLines; rw [decLine_other O l hm dst]; exact h1
      · rw [h2]; simp only [Batch.runFrom, hstep, expandEv_cons_other, List.append_assoc]
    | some m =>
      have hstep : Batch.step s l = Batch.stepP s (parsedOf m) := by unfold Batch.step; rw [hm]
      obtain ⟨_, _, _, _, _, _, hid⟩ := groups_digits l m hm
      obtain ⟨hrg, hmsg⟩ := gstep_sim dst.gfx s (parsedOf m) hr hid
      obtain ⟨dst', h1, h2⟩ := ih ⟨dst.out ++ DecGfx.optList (gstep dst.gfx (parsedOf m)).2, (gstep dst.gfx (parsedOf m)).1⟩
        (Batch.stepP s (parsedOf m)).1 (pos + 1) hrg
      refine ⟨dst', ?_, ?_⟩
      · unfold Model.In.decLines; rw [decLine_on_gfx O dst l m hm hr.alias]; exact h1
      · rw [h2, hmsg]
        simp only [Batch.runFrom, hstep]
        cases ho : (Batch.stepP s (parsedOf m)).2 with
        | none => simp [DecGfx.optList]
        | some o =>
          cases o with
          | gfx ids ref => simp [DecGfx.optList, outMsg, expandEv_cons_gfx]
          | other x =>
            -- the graphics branch never returns an `other` message
            exfalso
            rcases stepP_cases s (parsedOf m) with ⟨_, he⟩ | ⟨_, _, he⟩ | ⟨_, _, _, he⟩ | ⟨_, _, _, he⟩ <;>
              rw [he] at ho <;> simp at ho

/-- the caller's view of `Batch.decode`, the opaque lines expanded by the single-line decoder -/
def expand (O : Oracles) (seens : List Seen) : List (Option InMsg) :=
  seens.flatMap (fun sn =>
    match sn with
    | .gfx ids img _ => [some (gfxMsg ids img)]
    | .other l => otherOut O l)

/-- **the two models of `RawPanelASCIIstringsToInboundMessages` agree on every line sequence**: the full inbound
decoder (panic-carrying, with its own matcher, number reading and base64) returns exactly the messages of the C05 model
`Batch.decode Batch.step` — a `stateMsg` with the target ids and the image for every delivery, and for every
non-graphics line what the decoder returns for that line alone -/
theorem batch_models_agree (O : Oracles) (ls : List Bytes) :
    Model.In.decInE O ls = .ok (expand O (Batch.decode Batch.step ls)) := by
  obtain ⟨dst', h1, h2⟩ := decLines_agree O ls {} {} 0 rg_init
  unfold Model.In.decInE
  rw [h1]
  simp only []
  rw [h2]
  simp only [List.nil_append, Batch.decode, Batch.run, expand, expandEv, List.flatMap_map]
  congr 1
  apply flatMap_congr'
  intro e he
  cases ho : e.out with
  | other x => simp [see]
  | gfx ids ref =>
    simp only [see]
    rw [run_never_altered ls {} 0 (by decide) e he ids ref ho]

/-! ## F. the panic-carrying `Parse` computes the C05 reader -/

theorem expand_nil (O : Oracles) : expand O [] = [] := rfl

/-- the checks, the buffering and the hand-over of `Parse`, after the optional reset, in both models -/
theorem acceptE_tail (O : Oracles) (t : RState) (ty list : Bytes) (idx : Int) (line : Bytes) :
    Stream.acceptE O t ty list idx line =
      .ok (if t.ty = ty then
            if t.list = list then
              if idx = t.count + 1 then
                if idx = t.max then ((buffered t line).cleared, expand O (Batch.decode Batch.step (t.buf.getD [] ++ [line])))
                else (buffered t line, [])
              else (t.cleared, [])
            else (t, [])
          else (t, [])) := by
  unfold Stream.acceptE
  by_cases c1 : t.ty = ty
  · rw [if_pos c1, if_pos c1]
    by_cases c2 : t.list = list
    · rw [if_pos c2, if_pos c2]
      by_cases c3 : idx = t.count + 1
      · rw [if_pos c3, if_pos c3]
        simp only []
        by_cases c4 : idx = t.max
        · rw [if_pos c4, if_pos c4]
          simp only [bind, Except.bind, pure, Except.pure, Option.getD_some, batch_models_agree]
          rfl
        · rw [if_neg c4, if_neg c4]; rfl
      · rw [if_neg c3, if_neg c3]; rfl
    · rw [if_neg c2, if_neg c2]; rfl
  · rw [if_neg c1, if_neg c1]; rfl

theorem parseP_tail (s : RState) (p : Parsed) (line : Bytes) :
    Stream.parseP s p line =
      (let t := afterIntake s p
       if t.ty = p.pfx then
        if t.list = p.list then
          if p.idx = t.count + 1 then
            if p.idx = t.max then ((buffered t line).cleared, Batch.decode Batch.step (t.buf.getD [] ++ [line]))
            else (buffered t line, [])
          else (t.cleared, [])
        else (t, [])
      else (t, [])) := by
  unfold Stream.parseP afterIntake buffered
  simp only []
  repeat' split
  all_goals first | rfl | simp_all

theorem intakeE_eq (l : Bytes) (m : Sub) (h : Gfx.matchGfx l = some m) :
    Stream.intakeE (subList l m) = .ok (RState.intake (parsedOf m)) := by
  obtain ⟨_, d5, _⟩ := groups_digits l m h
  simp only [Stream.intakeE, subList, Model.In.sub, bind, Except.bind, pure, Except.pure,
    List.getElem?_cons_succ, List.getElem?_cons_zero, length_pos_iff_ne, atoiV_digits _ d5]
  unfold RState.intake parsedOf
  by_cases h4 : m.g4 = [] <;> simp [h4]

/-- **the panic-carrying `Parse` is the C05 reader**: it never panics, leaves the reader in the state `Stream.parse`
computes, and returns `Stream.parse`'s messages (opaque lines expanded by the single-line decoder) -/
theorem parseE_agrees (O : Oracles) (s : RState) (l : Bytes) :
    Stream.parseE O s l = .ok ((Stream.parse s l).1, expand O (Stream.parse s l).2) := by
  rw [parse_eq]
  unfold Stream.parseE parseLine?
  simp only []
  rw [matchers_agree]
  cases hm : Gfx.matchGfx (trimSpace l) with
  | none =>
    simp only [Option.map_none, bind, Except.bind, pure, Except.pure, batch_models_agree]
  | some m =>
    obtain ⟨d3, _⟩ := groups_digits _ m hm
    simp only [Option.map_some]
    have hs : ∀ i b, (subList (trimSpace l) m)[i]? = some b → Model.In.sub (subList (trimSpace l) m) i = .ok b := by
      intro i b h; simp only [Model.In.sub, h]
    simp only [bind, Except.bind, pure, Except.pure, hs 3 m.g3 rfl, hs 1 m.g1 rfl, hs 2 m.g2 rfl,
      atoiV_digits _ d3]
    have hidx : (atoi m.g3 : Int) = (parsedOf m).idx := rfl
    have e1 : m.g1 = (parsedOf m).pfx := rfl
    have e2 : m.g2 = (parsedOf m).list := rfl
    rw [parseP_tail, hidx, e1, e2]
    have hi := intakeE_eq _ m hm
    generalize parsedOf m = p at hi ⊢
    simp only []
    have key : ∀ t : RState, Stream.acceptE O t p.pfx p.list p.idx (trimSpace l) =
        .ok ((if t.ty = p.pfx then
              if t.list = p.list then
                if p.idx = t.count + 1 then
                  if p.idx = t.max then
                    ((buffered t (trimSpace l)).cleared, Batch.decode Batch.step (t.buf.getD [] ++ [trimSpace l]))
                  else (buffered t (trimSpace l), [])
                else (t.cleared, [])
              else (t, [])
            else (t, [])).1,
          expand O (if t.ty = p.pfx then
              if t.list = p.list then
                if p.idx = t.count + 1 then
                  if p.idx = t.max then
                    ((buffered t (trimSpace l)).cleared, Batch.decode Batch.step (t.buf.getD [] ++ [trimSpace l]))
                  else (buffered t (trimSpace l), [])
                else (t.cleared, [])
              else (t, [])
            else (t, [])).2) := by
      intro t
      rw [acceptE_tail]
      repeat' split
      all_goals rfl
    by_cases h0 : p.idx = 0
    · rw [if_pos h0, hi]
      simp only []
      have : afterIntake s.initRule p = RState.intake p := by unfold afterIntake; rw [if_pos h0]
      rw [this]
      exact key _
    · rw [if_neg h0]
      have : afterIntake s.initRule p = s.initRule := by unfold afterIntake; rw [if_neg h0]
      rw [this]
      exact key _

end RawPanelVerif.Gfx
