import RawPanelVerif.Model.MonoChecked
import RawPanelVerif.Lemmas.MonoFont
import RawPanelVerif.Lemmas.MonoWork
import RawPanelVerif.Lemmas.MonoFrame
/-!
# The checked model never panics and equals the plain model; its tick count is bounded by `opWork`

`Runs r c' n K`: the checked run `r`, started with tick counter `n`, ends normally on canvas `c'` after at most `K` more
ticks.  Every function of `Model/MonoChecked.lean` `Runs` to the result of its `Model/Mono.lean` twin — for every canvas
(well-formed or not: `DrawPixel` carries its own index guard) and all arguments.
-/
namespace RawPanelVerif.Mono
open RawPanelVerif.Gen

def Runs (r : Option RunSt) (c' : Canvas) (n K : Nat) : Prop := ∃ k, r = some (c', n + k) ∧ k ≤ K

theorem Runs.mono {r : Option RunSt} {c' : Canvas} {n K K' : Nat} (h : Runs r c' n K) (hK : K ≤ K') : Runs r c' n K' := by
  obtain ⟨k, h1, h2⟩ := h; exact ⟨k, h1, by omega⟩

theorem runs_some (c : Canvas) (n K : Nat) : Runs (some (c, n)) c n K := ⟨0, rfl, by omega⟩

theorem thenC_runs {a : Option RunSt} {f : RunSt → Option RunSt} {c1 c2 : Canvas} {n K1 K2 : Nat}
    (h1 : Runs a c1 n K1) (h2 : ∀ m, Runs (f (c1, m)) c2 m K2) : Runs (thenC a f) c2 n (K1 + K2) := by
  obtain ⟨k1, e1, b1⟩ := h1
  obtain ⟨k2, e2, b2⟩ := h2 (n + k1)
  refine ⟨k1 + k2, ?_, by omega⟩
  rw [e1]; unfold thenC; simp only []; rw [e2, Nat.add_assoc]

theorem ite_runs {b : Bool} {a : Option RunSt} {c c1 : Canvas} {n K : Nat}
    (h : Runs a c1 n K) : Runs (if b then a else some (c, n)) (if b then c1 else c) n K := by
  cases b
  · exact runs_some c n K
  · exact h

/-! ## `DrawPixel` -/

theorem drawPixelC_eq (c : Canvas) (x y : Int) (col : Bool) : drawPixelC c x y col = some (drawPixel c x y col) := by
  unfold drawPixelC drawPixel
  simp only []
  split
  · rename_i hc
    split
    · rename_i hin
      obtain ⟨h0, h1⟩ := hin
      have hX0 : 0 ≤ x + c.geo.bx := (inClip_bounds hc).1
      have hm : 0 ≤ (x + c.geo.bx).tmod 8 := Int.tmod_nonneg _ hX0
      have hm7 : (x + c.geo.bx).tmod 8 < 8 := Int.tmod_lt_of_pos _ (by omega)
      have hs : shiftCount (7 - (x + c.geo.bx).tmod 8) = some (7 - (x + c.geo.bx).tmod 8).toNat := by
        unfold shiftCount; rw [if_neg (by omega)]
      rw [hs]
      simp only []
      have hi : ((y + c.geo.byy) * (c.geo.wib : Int) + (x + c.geo.bx).tdiv 8).toNat < c.bytes.size := by omega
      rw [Array.getElem?_eq_getElem hi]
      simp only []
      rw [dif_pos hi]
      congr 1
      rw [Array.getD_eq_getD_getElem?, Array.getElem?_eq_getElem hi]
      simp only [Option.getD_some]
      rw [Array.setIfInBounds, dif_pos hi]
    · rfl
  · rfl

theorem pxC_runs (c : Canvas) (n : Nat) (x y : Int) (col : Bool) (K : Nat) :
    Runs (pxC (c, n) x y col) (drawPixel c x y col) n K := by
  unfold pxC; rw [drawPixelC_eq]; exact ⟨0, rfl, by omega⟩

/-! ## loops -/

theorem loopC_runs (f : RunSt → Nat → Option RunSt) (g : Canvas → Nat → Canvas) (m K : Nat)
    (hstep : ∀ c n i, i < m → Runs (f (c, n) i) (g c i) n K) (c : Canvas) (n : Nat) :
    Runs (loopC f m (c, n)) (loopN m g c) n (m * (1 + K)) := by
  induction m with
  | zero => exact ⟨0, rfl, by omega⟩
  | succ m ih =>
    obtain ⟨k, e, b⟩ := ih (fun c n i hi => hstep c n i (by omega))
    obtain ⟨k', e', b'⟩ := hstep (loopN m g c) (n + k + 1) m (by omega)
    refine ⟨k + 1 + k', ?_, ?_⟩
    · rw [loopN_succ]
      unfold loopC
      rw [e]
      simp only []
      rw [e']
      congr 2
      omega
    · rw [Nat.succ_mul]; omega

theorem vlineC_runs (c : Canvas) (n : Nat) (x y h : Int) (col : Bool) :
    Runs (vlineC (c, n) x y h col) (vline c x y h col) n h.toNat := by
  unfold vlineC vline
  have := loopC_runs (fun s i => pxC s x (y + i) col) (fun c i => drawPixel c x (y + i) col) h.toNat 0
    (fun c n i _ => pxC_runs c n x (y + i) col 0) c n
  simpa using this

theorem hlineC_runs (c : Canvas) (n : Nat) (x y w : Int) (col : Bool) :
    Runs (hlineC (c, n) x y w col) (hline c x y w col) n w.toNat := by
  unfold hlineC hline
  have := loopC_runs (fun s i => pxC s (x + i) y col) (fun c i => drawPixel c (x + i) y col) w.toNat 0
    (fun c n i _ => pxC_runs c n (x + i) y col 0) c n
  simpa using this

theorem fillRectC_runs (c : Canvas) (n : Nat) (x y w h : Int) (col : Bool) :
    Runs (fillRectC (c, n) x y w h col) (fillRect c x y w h col) n (w.toNat * (1 + h.toNat)) := by
  unfold fillRectC fillRect
  exact loopC_runs (fun s i => vlineC s (x + i) y h col) (fun c i => vline c (x + i) y h col) w.toNat h.toNat
    (fun c n i _ => vlineC_runs c n (x + i) y h col) c n

/-! ## circle helpers -/

theorem px2_runs (c : Canvas) (n : Nat) (x1 y1 x2 y2 : Int) (col : Bool) :
    Runs (thenC (pxC (c, n) x1 y1 col) (fun s => pxC s x2 y2 col)) (drawPixel (drawPixel c x1 y1 col) x2 y2 col) n 0 := by
  have := thenC_runs (f := fun s => pxC s x2 y2 col) (pxC_runs c n x1 y1 col 0) (fun m => pxC_runs _ m x2 y2 col 0)
  simpa using this

theorem circPlotC_runs (c : Canvas) (n : Nat) (x0 y0 corner : Int) (col : Bool) (x y : Int) :
    Runs (circPlotC (c, n) x0 y0 corner col x y) (circPlot c x0 y0 corner col x y) n 0 := by
  unfold circPlotC circPlot
  simp only []
  have s1 : ∀ (c : Canvas) (m : Nat), Runs
      (if cornerBit corner 4 then thenC (pxC (c, m) (x0 + x) (y0 + y) col) (fun s => pxC s (x0 + y) (y0 + x) col) else some (c, m))
      (if cornerBit corner 4 then drawPixel (drawPixel c (x0 + x) (y0 + y) col) (x0 + y) (y0 + x) col else c) m 0 :=
    fun c m => ite_runs (px2_runs c m _ _ _ _ col)
  have s2 : ∀ (c : Canvas) (m : Nat), Runs
      (if cornerBit corner 2 then thenC (pxC (c, m) (x0 + x) (y0 - y) col) (fun s => pxC s (x0 + y) (y0 - x) col) else some (c, m))
      (if cornerBit corner 2 then drawPixel (drawPixel c (x0 + x) (y0 - y) col) (x0 + y) (y0 - x) col else c) m 0 :=
    fun c m => ite_runs (px2_runs c m _ _ _ _ col)
  have s3 : ∀ (c : Canvas) (m : Nat), Runs
      (if cornerBit corner 8 then thenC (pxC (c, m) (x0 - y) (y0 + x) col) (fun s => pxC s (x0 - x) (y0 + y) col) else some (c, m))
      (if cornerBit corner 8 then drawPixel (drawPixel c (x0 - y) (y0 + x) col) (x0 - x) (y0 + y) col else c) m 0 :=
    fun c m => ite_runs (px2_runs c m _ _ _ _ col)
  have s4 : ∀ (c : Canvas) (m : Nat), Runs
      (if cornerBit corner 1 then thenC (pxC (c, m) (x0 - y) (y0 - x) col) (fun s => pxC s (x0 - x) (y0 - y) col) else some (c, m))
      (if cornerBit corner 1 then drawPixel (drawPixel c (x0 - y) (y0 - x) col) (x0 - x) (y0 - y) col else c) m 0 :=
    fun c m => ite_runs (px2_runs c m _ _ _ _ col)
  have a12 := thenC_runs (f := fun s =>
      if cornerBit corner 2 then thenC (pxC s (x0 + x) (y0 - y) col) (fun s => pxC s (x0 + y) (y0 - x) col) else some s)
    (s1 c n) (fun m => s2 _ m)
  have a123 := thenC_runs (f := fun s =>
      if cornerBit corner 8 then thenC (pxC s (x0 - y) (y0 + x) col) (fun s => pxC s (x0 - x) (y0 + y) col) else some s)
    a12 (fun m => s3 _ m)
  have a1234 := thenC_runs (f := fun s =>
      if cornerBit corner 1 then thenC (pxC s (x0 - y) (y0 - x) col) (fun s => pxC s (x0 - x) (y0 - y) col) else some s)
    a123 (fun m => s4 _ m)
  simpa using a1234

theorem drawCircleHelperLoopC_runs (c : Canvas) (x0 y0 corner : Int) (col : Bool) (k : Circ) (n : Nat) :
    Runs (drawCircleHelperLoopC (c, n) x0 y0 corner col k) (drawCircleHelperLoop c x0 y0 corner col k) n (k.y - k.x).toNat := by
  fun_induction drawCircleHelperLoop c x0 y0 corner col k generalizing n with
  | case1 c k h ih =>
    rw [drawCircleHelperLoopC, dif_pos h]
    obtain ⟨k1, e1, b1⟩ := circPlotC_runs c (n + 1) x0 y0 corner col k.next.x k.next.y
    simp only []
    rw [e1]
    simp only []
    obtain ⟨k2, e2, b2⟩ := ih (n + 1 + k1)
    have hm := Circ.next_measure k h
    refine ⟨1 + k1 + k2, ?_, by omega⟩
    rw [e2]; congr 2; omega
  | case2 c k h =>
    rw [drawCircleHelperLoopC, dif_neg h]
    exact runs_some c n _

theorem drawCircleHelperC_runs (c : Canvas) (n : Nat) (x0 y0 r corner : Int) (col : Bool) :
    Runs (drawCircleHelperC (c, n) x0 y0 r corner col) (drawCircleHelper c x0 y0 r corner col) n r.toNat := by
  unfold drawCircleHelperC drawCircleHelper
  have := drawCircleHelperLoopC_runs c x0 y0 corner col (Circ.init r) n
  simpa [Circ.init] using this

theorem vline2_runs (c : Canvas) (n : Nat) (x1 y1 h1 x2 y2 h2 : Int) (col : Bool) (V : Nat)
    (b1 : h1.toNat ≤ V) (b2 : h2.toNat ≤ V) :
    Runs (thenC (vlineC (c, n) x1 y1 h1 col) (fun s => vlineC s x2 y2 h2 col))
      (vline (vline c x1 y1 h1 col) x2 y2 h2 col) n (2 * V) :=
  (thenC_runs (f := fun s => vlineC s x2 y2 h2 col) (vlineC_runs c n x1 y1 h1 col)
    (fun m => vlineC_runs _ m x2 y2 h2 col)).mono (by omega)

theorem fillCircPlotC_runs (c : Canvas) (n : Nat) (x0 y0 corner delta : Int) (col : Bool) (x y : Int) (V : Nat)
    (bx : (2 * x + 1 + delta).toNat ≤ V) (by' : (2 * y + 1 + delta).toNat ≤ V) :
    Runs (fillCircPlotC (c, n) x0 y0 corner delta col x y) (fillCircPlot c x0 y0 corner delta col x y) n (4 * V) := by
  unfold fillCircPlotC fillCircPlot
  simp only []
  have s1 : ∀ (c : Canvas) (m : Nat), Runs
      (if cornerBit corner 1 then thenC (vlineC (c, m) (x0 + x) (y0 - y) (2 * y + 1 + delta) col)
          (fun s => vlineC s (x0 + y) (y0 - x) (2 * x + 1 + delta) col) else some (c, m))
      (if cornerBit corner 1 then vline (vline c (x0 + x) (y0 - y) (2 * y + 1 + delta) col) (x0 + y) (y0 - x) (2 * x + 1 + delta) col else c)
      m (2 * V) :=
    fun c m => ite_runs (vline2_runs c m _ _ _ _ _ _ col V by' bx)
  have s2 : ∀ (c : Canvas) (m : Nat), Runs
      (if cornerBit corner 2 then thenC (vlineC (c, m) (x0 - x) (y0 - y) (2 * y + 1 + delta) col)
          (fun s => vlineC s (x0 - y) (y0 - x) (2 * x + 1 + delta) col) else some (c, m))
      (if cornerBit corner 2 then vline (vline c (x0 - x) (y0 - y) (2 * y + 1 + delta) col) (x0 - y) (y0 - x) (2 * x + 1 + delta) col else c)
      m (2 * V) :=
    fun c m => ite_runs (vline2_runs c m _ _ _ _ _ _ col V by' bx)
  have a12 := thenC_runs (f := fun s =>
      if cornerBit corner 2 then thenC (vlineC s (x0 - x) (y0 - y) (2 * y + 1 + delta) col)
          (fun s => vlineC s (x0 - y) (y0 - x) (2 * x + 1 + delta) col) else some s)
    (s1 c n) (fun m => s2 _ m)
  exact a12.mono (by omega)

theorem Circ.next_bounds' (s : Circ) (r : Int) (h : s.x < s.y) (h0 : 0 ≤ s.x) (hr : s.y ≤ r) :
    0 ≤ s.next.x ∧ s.next.x ≤ r ∧ 0 ≤ s.next.y ∧ s.next.y ≤ r := by
  unfold Circ.next
  by_cases hf : s.f ≥ 0 <;> simp [hf] <;> omega

theorem fillCircleHelperLoopC_runs (c : Canvas) (x0 y0 corner delta : Int) (col : Bool) (k : Circ) (r : Int) (n : Nat)
    (h0 : 0 ≤ k.x) (hr : k.y ≤ r) :
    Runs (fillCircleHelperLoopC (c, n) x0 y0 corner delta col k) (fillCircleHelperLoop c x0 y0 corner delta col k) n
      ((k.y - k.x).toNat * (1 + 4 * (2 * r + 1 + delta).toNat)) := by
  fun_induction fillCircleHelperLoop c x0 y0 corner delta col k generalizing n with
  | case1 c k h ih =>
    rw [fillCircleHelperLoopC, dif_pos h]
    obtain ⟨q1, q2, q3, q4⟩ := Circ.next_bounds' k r h h0 hr
    obtain ⟨k1, e1, b1⟩ := fillCircPlotC_runs c (n + 1) x0 y0 corner delta col k.next.x k.next.y
      (2 * r + 1 + delta).toNat (by omega) (by omega)
    simp only []
    rw [e1]
    simp only []
    obtain ⟨k2, e2, b2⟩ := ih (n + 1 + k1) q1 q4
    have hm := Circ.next_measure k h
    refine ⟨1 + k1 + k2, ?_, ?_⟩
    · rw [e2]; congr 2; omega
    · generalize (2 * r + 1 + delta).toNat = V at *
      generalize (k.next.y - k.next.x).toNat = a at *
      generalize (k.y - k.x).toNat = b at *
      have : (a + 1) * (1 + 4 * V) ≤ b * (1 + 4 * V) := Nat.mul_le_mul_right _ (by omega)
      rw [Nat.succ_mul] at this
      omega
  | case2 c k h =>
    rw [fillCircleHelperLoopC, dif_neg h]
    exact runs_some c n _

theorem fillCircleHelperC_runs (c : Canvas) (n : Nat) (x0 y0 r corner delta : Int) (col : Bool) :
    Runs (fillCircleHelperC (c, n) x0 y0 r corner delta col) (fillCircleHelper c x0 y0 r corner delta col) n (fcircWork r delta) := by
  unfold fillCircleHelperC fillCircleHelper fcircWork
  have := fillCircleHelperLoopC_runs c x0 y0 corner delta col (Circ.init r) r n (by simp [Circ.init]) (by simp [Circ.init])
  simpa [Circ.init] using this

theorem drawRoundRectC_runs (c : Canvas) (n : Nat) (x y w h r : Int) (col : Bool) :
    Runs (drawRoundRectC (c, n) x y w h r col) (drawRoundRect c x y w h r col) n (opWork (.rrect x y w h r col)) := by
  have key : Runs (drawRoundRectC (c, n) x y w h r col) (drawRoundRect c x y w h r col) n
      ((w - 2 * r).toNat + ((w - 2 * r).toNat + ((h - 2 * r).toNat + ((h - 2 * r).toNat +
        (r.toNat + (r.toNat + (r.toNat + r.toNat))))))) := by
    unfold drawRoundRectC drawRoundRect
    simp only []
    refine thenC_runs (hlineC_runs c n _ _ _ col) fun m => ?_
    refine thenC_runs (hlineC_runs _ m _ _ _ col) fun m => ?_
    refine thenC_runs (vlineC_runs _ m _ _ _ col) fun m => ?_
    refine thenC_runs (vlineC_runs _ m _ _ _ col) fun m => ?_
    refine thenC_runs (drawCircleHelperC_runs _ m _ _ _ _ col) fun m => ?_
    refine thenC_runs (drawCircleHelperC_runs _ m _ _ _ _ col) fun m => ?_
    refine thenC_runs (drawCircleHelperC_runs _ m _ _ _ _ col) fun m => ?_
    exact drawCircleHelperC_runs _ m _ _ _ _ col
  exact key.mono (by simp only [opWork]; omega)

theorem fillRoundRectC_runs (c : Canvas) (n : Nat) (x y w h r : Int) (col : Bool) :
    Runs (fillRoundRectC (c, n) x y w h r col) (fillRoundRect c x y w h r col) n (opWork (.frrect x y w h r col)) := by
  have key : Runs (fillRoundRectC (c, n) x y w h r col) (fillRoundRect c x y w h r col) n
      ((w - 2 * r).toNat * (1 + h.toNat) + (fcircWork r (h - 2 * r - 1) + fcircWork r (h - 2 * r - 1))) := by
    unfold fillRoundRectC fillRoundRect
    simp only []
    refine thenC_runs (fillRectC_runs c n _ _ _ _ col) fun m => ?_
    refine thenC_runs (fillCircleHelperC_runs _ m _ _ _ _ _ col) fun m => ?_
    exact fillCircleHelperC_runs _ m _ _ _ _ _ col
  exact key.mono (by simp only [opWork]; omega)

/-! ## bitmaps -/

theorem bitmapBodyC_runs (c : Canvas) (n : Nat) (x y : Int) (bitmap : Array UInt8) (bw : Nat) (col inverted drawAll : Bool)
    (j i : Nat) :
    Runs (bitmapBodyC x y bitmap bw col inverted drawAll j (c, n) i)
      (let idx := j * bw + i / 8
       if idx < bitmap.size then
         let theBit : Bool := (((bitmap.getD idx 0).toNat &&& (128 >>> (i % 8))) != 0) != inverted
         if drawAll || theBit then drawPixel c (x + i) (y + j) (col != (!theBit)) else c
       else c) n 0 := by
  unfold bitmapBodyC
  simp only []
  split
  · rename_i hlt
    rw [Array.getElem?_eq_getElem hlt]
    simp only []
    have hgd : bitmap.getD (j * bw + i / 8) 0 = bitmap[j * bw + i / 8] := by
      rw [Array.getD_eq_getD_getElem?, Array.getElem?_eq_getElem hlt]; rfl
    exact ite_runs (pxC_runs c n _ _ _ 0)
  · exact runs_some c n 0

theorem drawBitmapC_runs (c : Canvas) (n : Nat) (x y : Int) (bits : Array UInt8) (w h : Int) (col inverted drawAll : Bool) :
    Runs (drawBitmapC (c, n) x y bits w h col inverted drawAll) (drawBitmap c x y bits w h col inverted drawAll) n
      (h.toNat * (1 + w.toNat)) := by
  unfold drawBitmapC drawBitmap
  simp only []
  refine loopC_runs _ _ h.toNat w.toNat (fun c1 n1 j _ => ?_) c n
  have := loopC_runs (bitmapBodyC x y bits ((w + 7).tdiv 8).toNat col inverted drawAll j) _ w.toNat 0
    (fun c2 n2 i _ => bitmapBodyC_runs c2 n2 x y bits ((w + 7).tdiv 8).toNat col inverted drawAll j i) c1 n1
  simpa using this

/-! ## text: font-table accesses are in range -/

theorem startBlanksC_eq (p : FontParams) (off : Nat) (n acc : Nat) (h : off + acc + n ≤ p.table.size) :
    startBlanksC p off n acc = some (startBlanks p off n acc) := by
  induction n generalizing acc with
  | zero => rfl
  | succ n ih =>
    unfold startBlanksC startBlanks
    have hlt : off + acc < p.table.size := by omega
    rw [Array.getElem?_eq_getElem hlt]
    simp only []
    have : p.table.getD (off + acc) 0 = p.table[off + acc] := by
      rw [Array.getD_eq_getD_getElem?, Array.getElem?_eq_getElem hlt]; rfl
    rw [this]
    split
    · rfl
    · exact ih (acc + 1) (by omega)

theorem endBlanksC_eq (p : FontParams) (off : Nat) (a acc : Nat) (h : off + a ≤ p.table.size) :
    endBlanksC p off a acc = some (endBlanks p off a acc) := by
  induction a generalizing acc with
  | zero => rfl
  | succ a ih =>
    unfold endBlanksC endBlanks
    have hlt : off + a < p.table.size := by omega
    rw [Array.getElem?_eq_getElem hlt]
    simp only []
    have : p.table.getD (off + a) 0 = p.table[off + a] := by
      rw [Array.getD_eq_getD_getElem?, Array.getElem?_eq_getElem hlt]; rfl
    rw [this]
    split
    · rfl
    · exact ih (acc + 1) (by omega)

/-- the whole table row of an in-range character lies inside the (regenerated) table -/
theorem row_in_table (n : Int) (ch : Nat) (hr : (fontParams n).inRange ch = true) :
    (ch - (fontParams n).first) * (fontParams n).memW + (fontParams n).memW ≤ (fontParams n).table.size := by
  obtain ⟨_, _, _, hall⟩ := font_tables_sized
  obtain ⟨_, _, _, hm1, _, _⟩ := hall n
  have := glyph_index_in_range n ch ((fontParams n).memW - 1) hr (by omega)
  omega

theorem charWidthC_eq (t : TextSt) (ch : Nat) : charWidthC t ch = some (charWidth t ch) := by
  unfold charWidthC charWidth
  simp only []
  split
  · rename_i hc
    have hr : (fontParams t.font).inRange ch = true := by
      simp only [Bool.and_eq_true] at hc; exact hc.1
    have hrow := row_in_table t.font ch hr
    unfold TextSt.fp
    rw [startBlanksC_eq _ _ _ _ (by omega), endBlanksC_eq _ _ _ _ (by omega)]
    simp only []
    split <;> rfl
  · rfl

theorem charStartC_eq (t : TextSt) (ch : Nat) : charStartC t ch = some (charStart t ch) := by
  unfold charStartC charStart
  simp only []
  split
  · rename_i hc
    have hr : (fontParams t.font).inRange ch = true := by
      simp only [Bool.and_eq_true] at hc; exact hc.1
    have hrow := row_in_table t.font ch hr
    unfold TextSt.fp
    rw [startBlanksC_eq _ _ _ _ (by omega)]
    simp only []
    split <;> rfl
  · rfl

theorem glyphColumnC_eq (t : TextSt) (ch i : Nat) (hi : i < charWidth t ch) :
    glyphColumnC t ch (charWidth t ch) (charStart t ch) i = some (glyphColumn t ch (charWidth t ch) i) := by
  unfold glyphColumnC glyphColumn
  simp only []
  split
  · rename_i hr
    split
    · rfl
    · rename_i hskip
      have hr' : (fontParams t.font).inRange ch = true := hr
      have e1 : charWidth t ch = charWidth (tf t.font t.prop) ch := rfl
      have e2 : charStart t ch = charStart (tf t.font t.prop) ch := rfl
      have hidx := drawChar_index_in_range t.font t.prop ch i hr' (by rw [← e1]; exact hi) (by
        intro hh
        apply hskip
        simp only [Bool.and_eq_true, decide_eq_true_eq]
        refine ⟨?_, by rw [e1]; exact hh.2⟩
        have := hh.1
        unfold TextSt.fp
        simpa using this)
      rw [← e2] at hidx
      unfold TextSt.fp
      rw [Array.getElem?_eq_getElem hidx]
      simp only [Option.map_some]
      congr 1
      rw [Array.getD_eq_getD_getElem?, Array.getElem?_eq_getElem hidx]; rfl
  · split <;> rfl

theorem drawBlockC_runs (c : Canvas) (n : Nat) (x y : Int) (i j : Nat) (h v : Int) (col : Bool) :
    Runs (drawBlockC (c, n) x y i j h v col) (drawBlock c x y i j h v col) n (blockWork h v) := by
  unfold drawBlockC drawBlock blockWork
  split
  · exact pxC_runs c n _ _ _ 0
  · exact fillRectC_runs c n _ _ _ _ col

theorem charRowC_runs (c : Canvas) (n : Nat) (x y : Int) (i column : Nat) (col bg : Bool) (h v : Int) (j : Nat) :
    Runs (charRowC x y i column col bg h v (c, n) j)
      (if (column >>> j) % 2 = 1 then drawBlock c x y i j h v col
       else if bg != col then drawBlock c x y i j h v bg else c) n (blockWork h v) := by
  unfold charRowC
  split
  · exact drawBlockC_runs c n x y i j h v col
  · split
    · exact drawBlockC_runs c n x y i j h v bg
    · exact runs_some c n _

theorem drawCharC_runs (c : Canvas) (n : Nat) (t : TextSt) (x y : Int) (ch : Nat) (col bg : Bool) (h v : Int) :
    Runs (drawCharC (c, n) t x y ch col bg h v) (drawChar c t x y ch col bg h v) n
      (glyphWork (charWidth t ch) t.fp.bbH h v) := by
  unfold drawCharC drawChar glyphWork
  simp only []
  rw [charWidthC_eq]
  simp only []
  split
  · exact runs_some c n _
  · rw [charStartC_eq]
    simp only []
    refine loopC_runs _ _ (charWidth t ch) (t.fp.bbH * (1 + blockWork h v)) (fun c1 n1 i hi => ?_) c n
    unfold charColC
    rw [glyphColumnC_eq t ch i hi]
    simp only []
    exact loopC_runs _ _ t.fp.bbH (blockWork h v)
      (fun c2 n2 j _ => charRowC_runs c2 n2 x y i _ col bg h v j) c1 n1

theorem writeCharC_runs (c : Canvas) (n : Nat) (t : TextSt) (ch : Nat) :
    ∃ k, writeCharC ((c, n), t) ch = some (((writeChar (c, t) ch).1, n + k), (writeChar (c, t) ch).2) ∧
      k ≤ glyphWork (charWidth t ch) t.fp.bbH t.tsH t.tsV := by
  unfold writeCharC writeChar
  simp only []
  split
  · exact ⟨0, rfl, by omega⟩
  · split
    · exact ⟨0, rfl, by omega⟩
    · obtain ⟨k, e, b⟩ := drawCharC_runs c n t t.cx t.cy ch t.tcol t.tbg t.tsH t.tsV
      refine ⟨k, ?_, b⟩
      rw [e]
      simp only []
      rw [charWidthC_eq]
      simp only []
      have hg : (drawChar c t t.cx t.cy ch t.tcol t.tbg t.tsH t.tsV).geo = c.geo := by
        unfold drawChar
        simp only []
        split
        · rfl
        · -- loops of `drawPixel`s keep the geometry
          have inner : ∀ (m : Nat) (f : Canvas → Nat → Canvas), (∀ c i, (f c i).geo = c.geo) → ∀ c, (loopN m f c).geo = c.geo := by
            intro m f hf c
            induction m with
            | zero => rfl
            | succ m ih => rw [loopN_succ, hf, ih]
          have hvl : ∀ (c : Canvas) (x y h : Int) (col : Bool), (vline c x y h col).geo = c.geo :=
            fun c x y h col => inner _ _ (fun c i => drawPixel_geo c _ _ _) c
          have hfr : ∀ (c : Canvas) (x y w h : Int) (col : Bool), (fillRect c x y w h col).geo = c.geo :=
            fun c x y w h col => inner _ _ (fun c i => hvl c _ _ _ _) c
          have hblk : ∀ (c : Canvas) (i j : Nat) (colr : Bool), (drawBlock c t.cx t.cy i j t.tsH t.tsV colr).geo = c.geo := by
            intro c i j colr; unfold drawBlock; split
            · exact drawPixel_geo _ _ _ _
            · exact hfr _ _ _ _ _ _
          refine inner _ _ (fun c1 i => ?_) c
          refine inner _ _ (fun c2 j => ?_) c1
          split
          · exact hblk _ _ _ _
          · split
            · exact hblk _ _ _ _
            · rfl
      rw [hg]
      split <;> rfl

theorem writeChar_metrics (c : Canvas) (t : TextSt) (ch : Nat) :
    (writeChar (c, t) ch).2.font = t.font ∧ (writeChar (c, t) ch).2.prop = t.prop ∧
    (writeChar (c, t) ch).2.tsH = t.tsH ∧ (writeChar (c, t) ch).2.tsV = t.tsV := by
  unfold writeChar
  simp only []
  split
  · exact ⟨rfl, rfl, rfl, rfl⟩
  · split
    · exact ⟨rfl, rfl, rfl, rfl⟩
    · split <;> exact ⟨rfl, rfl, rfl, rfl⟩

theorem textWork_congr (t' t : TextSt) (s : List Nat)
    (h : t'.font = t.font ∧ t'.prop = t.prop ∧ t'.tsH = t.tsH ∧ t'.tsV = t.tsV) : textWork t' s = textWork t s := by
  obtain ⟨h1, h2, h3, h4⟩ := h
  induction s with
  | nil => rfl
  | cons a r ih =>
    unfold textWork
    have e1 : charWidth t' a = charWidth t a := by unfold charWidth TextSt.fp; rw [h1, h2]
    have e2 : t'.fp = t.fp := by unfold TextSt.fp; rw [h1]
    rw [e1, e2, h3, h4, ih]

theorem renderTextC_runs (s : List Nat) (c : Canvas) (n : Nat) (t : TextSt) :
    ∃ k, renderTextC ((c, n), t) s = some (((renderText (c, t) s).1, n + k), (renderText (c, t) s).2) ∧
      k ≤ textWork t s := by
  induction s generalizing c n t with
  | nil => exact ⟨0, rfl, by simp [textWork]⟩
  | cons ch rest ih =>
    obtain ⟨k1, e1, b1⟩ := writeCharC_runs c (n + 1) t ch
    obtain ⟨k2, e2, b2⟩ := ih (writeChar (c, t) ch).1 (n + 1 + k1) (writeChar (c, t) ch).2
    have hw : textWork (writeChar (c, t) ch).2 rest = textWork t rest :=
      textWork_congr _ _ rest (writeChar_metrics c t ch)
    refine ⟨1 + k1 + k2, ?_, ?_⟩
    · unfold renderTextC renderText
      simp only []
      rw [e1]
      simp only [List.foldl_cons]
      have : renderTextC (((writeChar (c, t) ch).fst, n + 1 + k1), (writeChar (c, t) ch).snd) rest =
          some (((renderText (writeChar (c, t) ch) rest).1, n + 1 + k1 + k2), (renderText (writeChar (c, t) ch) rest).2) := e2
      rw [this]
      unfold renderText
      congr 3
      omega
    · unfold textWork; rw [hw] at b2; omega

theorem strWidthAccC_eq (t : TextSt) (s : List Nat) (w : Int) :
    strWidthAccC t w s = some (s.foldl (fun w ch => w + (charWidth t ch : Int) * t.tsH + t.spacing) w) := by
  induction s generalizing w with
  | nil => rfl
  | cons ch rest ih =>
    unfold strWidthAccC
    rw [charWidthC_eq]
    simp only [List.foldl_cons]
    exact ih _

/-- **`StrWidth` never panics** (any font number, mode, string) and is the plain model's value -/
theorem strWidthC_eq (t : TextSt) (s : List Nat) : strWidthC t s = some (strWidth t s) := by
  unfold strWidthC strWidth
  rw [strWidthAccC_eq]; rfl

/-- **Every operation**: for every canvas (well-formed or not), tick counter and operation with arbitrary arguments the
checked run ends normally, on the canvas the plain model computes, after at most `opWork op` loop iterations. -/
theorem applyOpC_runs (c : Canvas) (n : Nat) (op : Op) : Runs (applyOpC (c, n) op) (applyOp c op) n (opWork op) := by
  cases op with
  | px x y col => exact pxC_runs c n x y col _
  | hline x y w col => exact hlineC_runs c n x y w col
  | vline x y h col => exact vlineC_runs c n x y h col
  | frect x y w h col => exact fillRectC_runs c n x y w h col
  | rrect x y w h r col => exact drawRoundRectC_runs c n x y w h r col
  | frrect x y w h r col => exact fillRoundRectC_runs c n x y w h r col
  | circ x0 y0 r k col => exact drawCircleHelperC_runs c n x0 y0 r k col
  | fcirc x0 y0 r k d col => exact fillCircleHelperC_runs c n x0 y0 r k d col
  | bitmap x y bits w h col i a => exact drawBitmapC_runs c n x y bits w h col i a
  | glyph t x y ch col bg h v => exact drawCharC_runs c n t x y ch col bg h v
  | text t s =>
    obtain ⟨k, e, b⟩ := renderTextC_runs s c n t
    exact ⟨k, by simp only [applyOpC]; rw [e]; rfl, b⟩
  | bbox x y w h => exact runs_some _ n _
  | inv b => exact runs_some _ n _

theorem applyOpC_eq (c : Canvas) (n : Nat) (op : Op) :
    ∃ k, applyOpC (c, n) op = some (applyOp c op, n + k) ∧ k ≤ opWork op := applyOpC_runs c n op

/-! ## sequences -/

/-- run a list of operations, stopping at the first panic -/
def runOpsC : RunSt → List Op → Option RunSt
  | s, [] => some s
  | s, op :: rest =>
    match applyOpC s op with
    | none => none
    | some s' => runOpsC s' rest

theorem runOpsC_runs (ops : List Op) (c : Canvas) (n : Nat) :
    Runs (runOpsC (c, n) ops) (ops.foldl applyOp c) n (ops.map opWork).sum := by
  induction ops generalizing c n with
  | nil => exact runs_some c n _
  | cons op rest ih =>
    obtain ⟨k1, e1, b1⟩ := applyOpC_runs c n op
    obtain ⟨k2, e2, b2⟩ := ih (applyOp c op) (n + k1)
    refine ⟨k1 + k2, ?_, ?_⟩
    · unfold runOpsC; rw [e1]; simp only [List.foldl_cons]; rw [e2]; congr 2; omega
    · simp only [List.map_cons, List.sum_cons]; omega

/-! ## the budget as a polynomial in the extents -/

theorem mul_succ_le (a b E : Nat) (ha : a ≤ E) (hb : b ≤ E) : a * (1 + b) ≤ E * (E + 1) := by
  rw [Nat.add_comm 1 b]
  exact Nat.mul_le_mul ha (by omega)

theorem toNat_le_of_le (v : Int) (E : Nat) (h : v ≤ E) : v.toNat ≤ E := by omega

theorem fcircWork_le (r d : Int) (E : Nat) (hr : r ≤ E) (hd : 2 * r + 1 + d ≤ E) : fcircWork r d ≤ E + 4 * (E * (E + 1)) := by
  unfold fcircWork
  have h1 : r.toNat ≤ E := by omega
  have h2 : (2 * r + 1 + d).toNat ≤ E := by omega
  generalize r.toNat = a at *
  generalize (2 * r + 1 + d).toNat = b at *
  have : a * b ≤ E * (E + 1) := Nat.mul_le_mul h1 (by omega)
  rw [Nat.mul_add, Nat.mul_one, ← Nat.mul_assoc, Nat.mul_comm a 4, Nat.mul_assoc]
  omega

theorem blockWork_le (h v : Int) (E : Nat) (hh : h ≤ E) (hv : v ≤ E) : blockWork h v ≤ E * (E + 1) := by
  unfold blockWork
  split
  · exact Nat.zero_le _
  · exact mul_succ_le _ _ E (by omega) (by omega)

theorem glyphWork_le (t : TextSt) (ch : Nat) (h v : Int) (E : Nat) (hh : h ≤ E) (hv : v ≤ E) :
    glyphWork (charWidth t ch) t.fp.bbH h v ≤ 81 + 72 * (E * (E + 1)) := by
  unfold glyphWork
  have h1 := charWidth_le t ch
  have h2 := bbH_le t
  have h3 := blockWork_le h v E hh hv
  generalize charWidth t ch = cw at *
  generalize t.fp.bbH = bh at *
  generalize blockWork h v = B at *
  generalize E * (E + 1) = P at *
  have a1 : bh * (1 + B) ≤ 8 * (1 + P) := Nat.mul_le_mul h2 (by omega)
  have a2 : cw * (1 + bh * (1 + B)) ≤ 9 * (1 + 8 * (1 + P)) := Nat.mul_le_mul h1 (by omega)
  omega

theorem textWork_le (t : TextSt) (s : List Nat) (E : Nat) (hh : t.tsH ≤ E) (hv : t.tsV ≤ E) :
    textWork t s ≤ s.length * (82 + 72 * (E * (E + 1))) := by
  induction s with
  | nil => simp [textWork]
  | cons ch rest ih =>
    unfold textWork
    have := glyphWork_le t ch t.tsH t.tsV E hh hv
    rw [List.length_cons, Nat.succ_mul]
    omega

/-- **Work bound**: with every extent (width, height, radius, text size) at most `E` and a string of at most `L` characters,
an operation executes at most `(L+1)·(82 + 72·E·(E+1))` loop bodies — whatever its coordinates, the canvas and the bounding
box are.  (Negative extents count as 0.) -/
theorem opWork_le (op : Op) (E L : Nat) (he : extentsLe E op) (hl : strLen op ≤ L) :
    opWork op ≤ (L + 1) * (82 + 72 * (E * (E + 1))) := by
  have hbase : 82 + 72 * (E * (E + 1)) ≤ (L + 1) * (82 + 72 * (E * (E + 1))) :=
    Nat.le_mul_of_pos_left _ (by omega)
  have hE : E ≤ E * (E + 1) := Nat.le_mul_of_pos_right E (by omega)
  cases op with
  | px x y col => exact Nat.zero_le _
  | hline x y w col =>
    have : w.toNat ≤ E := toNat_le_of_le w E he
    refine Nat.le_trans ?_ hbase
    simp only [opWork]; omega
  | vline x y h col =>
    have : h.toNat ≤ E := toNat_le_of_le h E he
    refine Nat.le_trans ?_ hbase
    simp only [opWork]; omega
  | frect x y w h col =>
    obtain ⟨h1, h2⟩ := he
    have := mul_succ_le w.toNat h.toNat E (by omega) (by omega)
    refine Nat.le_trans ?_ hbase
    simp only [opWork]; omega
  | rrect x y w h r col =>
    obtain ⟨h1, h2, h3⟩ := he
    have a1 : (w - 2 * r).toNat ≤ E := by omega
    have a2 : (h - 2 * r).toNat ≤ E := by omega
    have a3 : r.toNat ≤ E := by omega
    refine Nat.le_trans ?_ hbase
    simp only [opWork]; omega
  | frrect x y w h r col =>
    obtain ⟨h1, h2, h3⟩ := he
    have := mul_succ_le (w - 2 * r).toNat h.toNat E (by omega) (by omega)
    have := fcircWork_le r (h - 2 * r - 1) E h3 (by omega)
    refine Nat.le_trans ?_ hbase
    simp only [opWork]; omega
  | circ x0 y0 r k col =>
    have : r.toNat ≤ E := toNat_le_of_le r E he
    refine Nat.le_trans ?_ hbase
    simp only [opWork]; omega
  | fcirc x0 y0 r k d col =>
    obtain ⟨h1, h2⟩ := he
    have := fcircWork_le r d E h1 h2
    refine Nat.le_trans ?_ hbase
    simp only [opWork]; omega
  | bitmap x y bits w h col i a =>
    obtain ⟨h1, h2⟩ := he
    have := mul_succ_le h.toNat w.toNat E (by omega) (by omega)
    refine Nat.le_trans ?_ hbase
    simp only [opWork]; omega
  | glyph t x y ch col bg h v =>
    obtain ⟨h1, h2⟩ := he
    have := glyphWork_le t ch h v E h1 h2
    refine Nat.le_trans ?_ hbase
    simp only [opWork]; omega
  | text t s =>
    obtain ⟨h1, h2⟩ := he
    have h3 := textWork_le t s E h1 h2
    have hl' : s.length ≤ L := hl
    have h4 : s.length * (82 + 72 * (E * (E + 1))) ≤ (L + 1) * (82 + 72 * (E * (E + 1))) :=
      Nat.mul_le_mul_right _ (by omega)
    simp only [opWork]
    exact Nat.le_trans h3 h4
  | bbox x y w h => exact Nat.zero_le _
  | inv b => exact Nat.zero_le _

end RawPanelVerif.Mono
