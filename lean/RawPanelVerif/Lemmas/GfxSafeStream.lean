import RawPanelVerif.Lemmas.GfxSafe
/-! C05 safety of the repaired streaming reader: the buffer is a run of consecutive chunks of one transfer; at the
wrap-up the batch decoder turns it into exactly one legitimate image, or — if a payload is damaged — into nothing. -/
namespace RawPanelVerif.Gfx
open RawPanelVerif

/-- buffered lines: they read as chunks `k, k+1, …` of the transfer started by `c0`; `pls` are their payloads -/
def IsBuf (c0 : Spec.Gfx.Chunk) : Nat → List Bytes → List (Option Bytes) → Prop
  | _, [], [] => True
  | k, l :: ls, pl :: pls =>
    (∃ p c, parseLine? l = some p ∧ Rel p c ∧ c.idx = k ∧ c.fmt = c0.fmt ∧ c.ids = c0.ids ∧ c.payload = pl) ∧
      IsBuf c0 (k + 1) ls pls
  | _, _, _ => False

theorem isBuf_length (c0 : Spec.Gfx.Chunk) : ∀ ls pls k, IsBuf c0 k ls pls → ls.length = pls.length := by
  intro ls
  induction ls with
  | nil => intro pls k h; cases pls <;> simp_all [IsBuf]
  | cons l ls ih =>
    intro pls k h
    cases pls with
    | nil => simp [IsBuf] at h
    | cons pl pls => simp only [List.length_cons]; rw [ih pls (k + 1) h.2]

theorem isBuf_snoc (c0 : Spec.Gfx.Chunk) : ∀ ls pls k l pl, IsBuf c0 k ls pls →
    (∃ p c, parseLine? l = some p ∧ Rel p c ∧ c.idx = k + ls.length ∧ c.fmt = c0.fmt ∧ c.ids = c0.ids ∧
      c.payload = pl) → IsBuf c0 k (ls ++ [l]) (pls ++ [pl]) := by
  intro ls
  induction ls with
  | nil =>
    intro pls k l pl h hl
    cases pls with
    | nil => simpa [IsBuf] using hl
    | cons _ _ => simp [IsBuf] at h
  | cons a ls ih =>
    intro pls k l pl h hl
    cases pls with
    | nil => simp [IsBuf] at h
    | cons b pls =>
      refine ⟨h.1, ih pls (k + 1) l pl h.2 ?_⟩
      obtain ⟨p, c, h1, h2, h3, h4⟩ := hl
      exact ⟨p, c, h1, h2, by simp only [List.length_cons] at h3; omega, h4⟩

/-- all payloads intact: the buffer is a run in the sense of `run_tail` -/
theorem isRun_of_isBuf (c0 : Spec.Gfx.Chunk) : ∀ ls ds k, IsBuf c0 k ls (ds.map some) →
    IsRun c0.fmt c0.ids k ls ds := by
  intro ls
  induction ls with
  | nil => intro ds k h; cases ds <;> simp_all [IsBuf, IsRun]
  | cons l ls ih =>
    intro ds k h
    cases ds with
    | nil => simp [IsBuf] at h
    | cons d ds =>
      obtain ⟨⟨p, c, hp, hr, hidx, hfmt, hids, hpay⟩, hrest⟩ := h
      refine ⟨⟨p, hp, by rw [hr.idx, hidx], by rw [hr.ty, hfmt], by rw [hr.list, hids], ?_, ?_,
        by rw [hr.pfx, hfmt]⟩, ih ds (k + 1) hrest⟩
      · have := hr.payload; rw [hpay] at this
        by_cases hok : p.ok = true
        · simp [hok] at this; exact this.symm
        · simp [hok] at this
      · have := hr.payload; rw [hpay] at this
        by_cases hok : p.ok = true
        · exact hok
        · simp [hok] at this

/-- in a closed call, later chunks of the buffer do nothing -/
theorem tail_closed (c0 : Spec.Gfx.Chunk) (hne : c0.ids ≠ []) : ∀ ls pls k (s : BState) pos, IsBuf c0 k ls pls → 1 ≤ k →
    s.list = [] → Batch.runFrom Batch.step s pos ls = (s, []) := by
  intro ls
  induction ls with
  | nil => intro pls k s pos _ _ _; rfl
  | cons l ls ih =>
    intro pls k s pos h hk hcl
    cases pls with
    | nil => simp [IsBuf] at h
    | cons pl pls =>
      obtain ⟨⟨p, c, hp, hr, hidx, _, hids, _⟩, hrest⟩ := h
      have hstep : Batch.step s l = (s, none) := by
        rw [step_eq, hp]
        have hp0 : ¬ (p.idx = 0) := by rw [hr.idx, hidx]; omega
        have hs1 : afterReset s p = s := by simp [afterReset, hp0]
        have hcases := stepP_cases s p
        simp only [hs1] at hcases
        have hnl : ¬ (p.list = s.list) := by rw [hr.list, hids, hcl]; exact hne
        rcases hcases with ⟨_, he⟩ | ⟨hm, _⟩ | ⟨hm, _⟩ | ⟨hm, _⟩
        · exact he
        · exact absurd hm.2 hnl
        · exact absurd hm.2 hnl
        · exact absurd hm.2 hnl
      simp only [Batch.runFrom, hstep]
      exact ih pls (k + 1) s (pos + 1) hrest (by omega) hcl

/-- a damaged payload somewhere in the rest of the buffer: nothing is delivered -/
theorem run_tail_bad (c0 : Spec.Gfx.Chunk) (hne : c0.ids ≠ []) (st : List Img) (img : Img) (n : Nat) :
    ∀ (ls : List Bytes) (pls : List (Option Bytes)) (k : Nat) (D : Bytes) (pos : Nat), IsBuf c0 k ls pls → 1 ≤ k →
      k + ls.length = n → (¬ ∃ ds : List Bytes, pls = ds.map some) →
      (Batch.runFrom Batch.step (openState st img D k n c0.ids c0.fmt) pos ls).2 = [] := by
  intro ls
  induction ls with
  | nil =>
    intro pls k D pos h _ _ hbad
    cases pls with
    | nil => exact absurd ⟨[], rfl⟩ hbad
    | cons _ _ => simp [IsBuf] at h
  | cons l ls ih =>
    intro pls k D pos h hk hn hbad
    cases pls with
    | nil => simp [IsBuf] at h
    | cons pl pls =>
      obtain ⟨⟨p, c, hp, hr, hidx, hfmt, hids, hpay⟩, hrest⟩ := h
      simp only [List.length_cons] at hn
      have hp0 : ¬ (p.idx = 0) := by rw [hr.idx, hidx]; omega
      have hs1 : afterReset (openState st img D k n c0.ids c0.fmt) p = openState st img D k n c0.ids c0.fmt := by
        simp [afterReset, hp0]
      have hcases := stepP_cases (openState st img D k n c0.ids c0.fmt) p
      simp only [hs1] at hcases
      have hmatch : (openState st img D k n c0.ids c0.fmt).ty = p.ty ∧
          p.list = (openState st img D k n c0.ids c0.fmt).list := by
        simp [openState, hr.ty, hr.list, hfmt, hids]
      have hnext : p.idx = (openState st img D k n c0.ids c0.fmt).count + 1 := by
        simp only [openState]; rw [hr.idx, hidx]; omega
      simp only [Batch.runFrom, step_eq, hp]
      by_cases hok : p.ok = true
      · -- this one is intact: the damage is further on, so this is not the last chunk
        have hpl : pl = some p.data := by rw [← hpay, hr.payload, hok]; rfl
        have hbad' : ¬ ∃ ds : List Bytes, pls = ds.map some := by
          rintro ⟨ds, hds⟩; exact hbad ⟨p.data :: ds, by rw [hpl, hds]; rfl⟩
        have hls : ls ≠ [] := by
          rintro rfl
          cases pls with
          | nil => exact hbad' ⟨[], rfl⟩
          | cons _ _ => simp [IsBuf] at hrest
        have hlen : 0 < ls.length := List.length_pos_iff.mpr hls
        have hnmax : p.idx ≠ (openState st img D k n c0.ids c0.fmt).max := by
          simp only [openState]; rw [hr.idx, hidx]; omega
        rcases hcases with ⟨hn', _⟩ | ⟨_, hn', _⟩ | ⟨_, _, _, he⟩ | ⟨_, _, hm, _⟩
        · exact absurd hmatch hn'
        · exact absurd ⟨hnext, hok⟩ hn'
        · rw [he]
          have hst : ({ openState st img D k n c0.ids c0.fmt with
              count := (openState st img D k n c0.ids c0.fmt).count + 1,
              store := appendAt (openState st img D k n c0.ids c0.fmt).store
                (openState st img D k n c0.ids c0.fmt).cur p.data } : BState) =
              openState st img (D ++ p.data) (k + 1) n c0.ids c0.fmt := by
            simp only [openState]; rw [appendAt_last]; simp
          simp only [hst]
          exact ih pls (k + 1) (D ++ p.data) (pos + 1) hrest (by omega) (by omega) hbad'
        · exact absurd hm hnmax
      · -- this one is damaged: the transfer is dropped and the rest ignored
        rcases hcases with ⟨hn', _⟩ | ⟨_, _, he⟩ | ⟨_, ha, _⟩ | ⟨_, ha, _⟩
        · exact absurd hmatch hn'
        · rw [he]
          simp only []
          rw [tail_closed c0 hne ls pls (k + 1) _ (pos + 1) hrest (by omega) rfl]
        · exact absurd ha.2 hok
        · exact absurd ha.2 hok

end RawPanelVerif.Gfx

namespace RawPanelVerif.Gfx

/-! ### the batch decoder on a whole buffer -/

theorem decode_of_events_nil (ls : List Bytes) (h : (Batch.runFrom Batch.step {} 0 ls).2 = []) :
    Batch.decode Batch.step ls = [] := by
  simp only [Batch.decode, Batch.run, h, List.map_nil]

theorem decode_buf_ok (c0 : Spec.Gfx.Chunk) (l0 : Bytes) (q0 : Parsed) (ls : List Bytes) (pl0 : Bytes)
    (ds : List Bytes) (hq : parseLine? l0 = some q0) (hr : Rel q0 c0) (h0 : c0.idx = 0)
    (hbuf : IsBuf c0 1 ls (ds.map some)) (hpl : c0.payload = some pl0)
    (hmax : (Spec.Gfx.declared c0).last = ls.length) :
    Batch.decode Batch.step (l0 :: ls) =
      [.gfx (intExplode c0.ids) { q0.img with data := pl0 ++ ds.flatten } 1] := by
  have hok : q0.ok = true ∧ q0.data = pl0 := by
    have := hr.payload; rw [hpl] at this
    by_cases hok : q0.ok = true
    · simp [hok] at this; exact ⟨hok, this.symm⟩
    · simp [hok] at this
  have himg : q0.img.data = [] := by rw [hr.img]; rfl
  rw [decode_whole c0.fmt c0.ids l0 ls ds q0 hq (by rw [hr.idx, h0]; rfl) hr.ty hr.list hok.1
    (by rw [hr.max, hmax]) (isRun_of_isBuf c0 ls ds 1 hbuf)]
  rw [himg, hok.2]; rfl

theorem decode_buf_bad (c0 : Spec.Gfx.Chunk) (l0 : Bytes) (q0 : Parsed) (ls : List Bytes)
    (pls : List (Option Bytes)) (hq : parseLine? l0 = some q0) (hr : Rel q0 c0) (h0 : c0.idx = 0)
    (hbuf : IsBuf c0 1 ls pls) (hmax : (Spec.Gfx.declared c0).last = ls.length)
    (hbad : c0.payload = none ∨ ¬ ∃ ds : List Bytes, pls = ds.map some) :
    Batch.decode Batch.step (l0 :: ls) = [] := by
  apply decode_of_events_nil
  have hp0 : q0.idx = 0 := by rw [hr.idx, h0]; rfl
  have hs1 : afterReset {} q0 = resetIntake {} q0 := by simp [afterReset, hp0]
  have hcases := stepP_cases {} q0
  simp only [hs1] at hcases
  simp only [Batch.runFrom, step_eq, hq]
  by_cases hok : q0.ok = true
  · have hpl : c0.payload = some q0.data := by rw [hr.payload, hok]; rfl
    have hbad' : ¬ ∃ ds : List Bytes, pls = ds.map some := by
      rcases hbad with h | h
      · rw [hpl] at h; exact absurd h (by simp)
      · exact h
    have hls : ls ≠ [] := by
      rintro rfl
      cases pls with
      | nil => exact hbad' ⟨[], rfl⟩
      | cons _ _ => simp [IsBuf] at hbuf
    have hlen : 0 < ls.length := List.length_pos_iff.mpr hls
    have hnmax : q0.idx ≠ (resetIntake {} q0).max := by
      simp only [resetIntake]; rw [hp0, hr.max, hmax]; omega
    rcases hcases with ⟨hn, _⟩ | ⟨_, hn, _⟩ | ⟨_, _, _, he⟩ | ⟨_, _, hm, _⟩
    · exact absurd ⟨rfl, rfl⟩ hn
    · exact absurd ⟨by simp [resetIntake, hp0], hok⟩ hn
    · have h2 : (Batch.stepP {} q0).2 = none := by rw [he]
      have hst : (Batch.stepP {} q0).1 =
          openState [{}] q0.img (q0.img.data ++ q0.data) 1 (ls.length + 1) c0.ids c0.fmt := by
        rw [he]
        simp only [resetIntake, openState]
        rw [appendAt_last [({} : Img)] q0.img q0.data, hr.max, hmax, hr.list, hr.ty]
        simp
      simp only [h2, hst]
      exact run_tail_bad c0 hr.ids_ne [{}] q0.img (ls.length + 1) ls pls 1 _ 1 hbuf (by omega) (by omega) hbad'
    · exact absurd hm hnmax
  · rcases hcases with ⟨hn, _⟩ | ⟨_, _, he⟩ | ⟨_, ha, _⟩ | ⟨_, ha, _⟩
    · exact absurd ⟨rfl, rfl⟩ hn
    · rw [he]
      simp only []
      rw [tail_closed c0 hr.ids_ne ls pls 1 _ 1 hbuf (by omega) rfl]
    · exact absurd ha.2 hok
    · exact absurd ha.2 hok

end RawPanelVerif.Gfx

namespace RawPanelVerif.Gfx

/-! ### the step of the repaired streaming reader, case by case -/

def afterIntake (s : RState) (p : Parsed) : RState := if p.idx = 0 then RState.intake p else s

/-- the reader with one more line buffered -/
def buffered (s : RState) (line : Bytes) : RState :=
  { s with count := s.count + 1, buf := some (s.buf.getD [] ++ [line]) }

theorem parseP_cases (s : RState) (p : Parsed) (line : Bytes) :
    let s1 := afterIntake s p
    (¬ (s1.ty = p.pfx ∧ s1.list = p.list) ∧ Stream.parseP s p line = (s1, [])) ∨
    ((s1.ty = p.pfx ∧ s1.list = p.list) ∧ p.idx ≠ s1.count + 1 ∧ Stream.parseP s p line = (s1.cleared, [])) ∨
    ((s1.ty = p.pfx ∧ s1.list = p.list) ∧ p.idx = s1.count + 1 ∧ p.idx ≠ s1.max ∧
        Stream.parseP s p line = (buffered s1 line, [])) ∨
    ((s1.ty = p.pfx ∧ s1.list = p.list) ∧ p.idx = s1.count + 1 ∧ p.idx = s1.max ∧
        Stream.parseP s p line =
          ((buffered s1 line).cleared, Batch.decode Batch.step (s1.buf.getD [] ++ [line]))) := by
  intro s1
  have hs1 : (if p.idx = 0 then RState.intake p else s) = s1 := rfl
  unfold Stream.parseP
  simp only [hs1]
  by_cases h1 : s1.ty = p.pfx
  · by_cases h2 : s1.list = p.list
    · by_cases h3 : p.idx = s1.count + 1
      · by_cases h4 : p.idx = s1.max
        · right; right; right
          refine ⟨⟨h1, h2⟩, h3, h4, ?_⟩
          rw [if_pos h1, if_pos h2, if_pos h3]
          show (if p.idx = s1.max then _ else _) = _
          rw [if_pos h4]
          rfl
        · right; right; left
          refine ⟨⟨h1, h2⟩, h3, h4, ?_⟩
          rw [if_pos h1, if_pos h2, if_pos h3]
          show (if p.idx = s1.max then _ else _) = _
          rw [if_neg h4]
          rfl
      · right; left
        exact ⟨⟨h1, h2⟩, h3, by rw [if_pos h1, if_pos h2, if_neg h3]⟩
    · left; exact ⟨fun h => h2 h.2, by rw [if_pos h1, if_neg h2]⟩
  · left; exact ⟨fun h => h1 h.1, by rw [if_neg h1]⟩

theorem pfxOf_inj : ∀ a b, a ≤ 2 → b ≤ 2 → pfxOf a = pfxOf b → a = b := by
  intro a b ha hb
  have : a = 0 ∨ a = 1 ∨ a = 2 := by omega
  have : b = 0 ∨ b = 1 ∨ b = 2 := by omega
  rcases ‹a = 0 ∨ a = 1 ∨ a = 2› with h | h | h <;> rcases ‹b = 0 ∨ b = 1 ∨ b = 2› with h' | h' | h' <;>
    subst h <;> subst h' <;> decide

/-- a transfer is open in the reader: buffer = the accepted lines, which read as chunks 0..k of the transfer that
started at the ghost position `p0` -/
structure OpenS (cs : List (Option Spec.Gfx.Chunk)) (i : Nat) (s : RState) (p0 : Nat) (c0 : Spec.Gfx.Chunk)
    (k : Nat) : Prop where
  lt : p0 < i
  at0 : cs[p0]? = some (some c0)
  idx0 : c0.idx = 0
  nozero : ∀ q, p0 < q → q < i → Spec.Gfx.isChunk0 cs[q]? = false
  list : s.list = c0.ids
  ty : s.ty = pfxOf c0.fmt
  max : s.max = ((Spec.Gfx.declared c0).last : Int)
  count : s.count = (k : Int)
  hbuf : ∃ l0 ls q0 pls, s.buf = some (l0 :: ls) ∧ parseLine? l0 = some q0 ∧ Rel q0 c0 ∧ IsBuf c0 1 ls pls ∧
    ls.length = k ∧
    ∀ pl0 (ds : List Bytes), c0.payload = some pl0 → pls = ds.map some → ∀ D,
      Spec.Gfx.prefixAt D 0 (pl0 ++ ds.flatten) = true →
        (k + 1, (pl0 ++ ds.flatten).length) ∈ Spec.Gfx.reach D c0 pl0.length ((cs.take i).drop (p0 + 1))

def InvS (cs : List (Option Spec.Gfx.Chunk)) (i : Nat) (s : RState) (used : List Nat) : Prop :=
  (∀ u ∈ used, u < i) ∧ (s.list = [] ∨ ∃ p0 c0 k, OpenS cs i s p0 c0 k ∧ ∀ u ∈ used, u < p0)

theorem invS_initRule (cs : List (Option Spec.Gfx.Chunk)) (i : Nat) (s : RState) (used : List Nat)
    (h : InvS cs i s used) : InvS cs i s.initRule used := by
  unfold RState.initRule
  split
  · rename_i hc
    exact ⟨h.1, Or.inl hc.1⟩
  · exact h

theorem invS_skip (cs : List (Option Spec.Gfx.Chunk)) (i : Nat) (s : RState) (used : List Nat)
    (oc : Option Spec.Gfx.Chunk) (hi : cs[i]? = some oc) (hz : Spec.Gfx.isChunk0 (some oc) = false)
    (h : InvS cs i s used) : InvS cs (i + 1) s used := by
  obtain ⟨h2, h3⟩ := h
  refine ⟨fun u hu => by have := h2 u hu; omega, ?_⟩
  rcases h3 with h3 | ⟨p0, c0, k, ho, hu⟩
  · exact Or.inl h3
  · refine Or.inr ⟨p0, c0, k, ?_, hu⟩
    obtain ⟨l0, ls, q0, pls, hb1, hb2, hb3, hb4, hb5, hb6⟩ := ho.hbuf
    refine { ho with lt := by have := ho.lt; omega, nozero := ?_, hbuf := ⟨l0, ls, q0, pls, hb1, hb2, hb3, hb4, hb5, ?_⟩ }
    · intro q hq1 hq2
      rcases Nat.lt_or_ge q i with hlt | hge
      · exact ho.nozero q hq1 hlt
      · have : q = i := by omega
        subst this; rw [hi]; exact hz
    · intro pl0 ds h1 h2 D hD
      rw [take_succ_drop cs i p0 oc hi ho.lt, reach_snoc]
      exact mem_reachStep_of_mem _ _ _ _ _ (hb6 pl0 ds h1 h2 D hD)

end RawPanelVerif.Gfx

namespace RawPanelVerif.Gfx

/-- what the Spec gets to see of the messages one `Parse` call returned at line `pos` -/
def seenDelivs (pos : Nat) (seens : List Seen) : List Spec.Gfx.Deliv :=
  seens.filterMap (fun s =>
    match s with
    | .gfx ids img _ => some { pos := some pos, img := specImg ids img, final := img.data }
    | .other _ => none)

def StepOKS (cs : List (Option Spec.Gfx.Chunk)) (i : Nat) (used : List Nat) (r : RState × List Seen) : Prop :=
  (seenDelivs i r.2 = [] ∧ InvS cs (i + 1) r.1 used) ∨
  (∃ d p0, seenDelivs i r.2 = [d] ∧ d.pos = some i ∧ d.final = d.img.data ∧
    Spec.Gfx.legitAt cs i d.img = some p0 ∧ (∀ u ∈ used, u < p0) ∧ InvS cs (i + 1) r.1 (p0 :: used))

theorem map_some_snoc (pls : List (Option Bytes)) (x : Option Bytes) (ds' : List Bytes)
    (h : pls ++ [x] = ds'.map some) : ∃ ds d, ds' = ds ++ [d] ∧ pls = ds.map some ∧ x = some d := by
  obtain ⟨l1, l2, h1, h2, h3⟩ := List.map_eq_append_iff.mp h.symm
  cases l2 with
  | nil => simp at h3
  | cons d l2 =>
    cases l2 with
    | nil => simp at h3; exact ⟨l1, d, h1, h2.symm, h3.symm⟩
    | cons _ _ => simp at h3

theorem invS_step_zero (cs : List (Option Spec.Gfx.Chunk)) (i : Nat) (s : RState) (used : List Nat) (p : Parsed)
    (c : Spec.Gfx.Chunk) (line : Bytes) (hi : cs[i]? = some (some c)) (hp : parseLine? line = some p)
    (hr : Rel p c) (hz : c.idx = 0) (h : InvS cs i s used) : StepOKS cs i used (Stream.parseP s p line) := by
  obtain ⟨hused, _⟩ := h
  have hp0 : p.idx = 0 := by rw [hr.idx, hz]; rfl
  have hs1 : afterIntake s p = RState.intake p := by simp [afterIntake, hp0]
  have hused' : ∀ u ∈ used, u < i + 1 := fun u hu => by have := hused u hu; omega
  have h0 : Spec.Gfx.isChunk0 cs[i]? = true := by rw [hi, isChunk0_some, hz]; rfl
  have hcases := parseP_cases s p line
  simp only [hs1] at hcases
  rcases hcases with ⟨hn, _⟩ | ⟨_, hn, _⟩ | ⟨_, _, hm, he⟩ | ⟨_, _, hm, he⟩
  · exact absurd ⟨rfl, rfl⟩ hn
  · exact absurd (by simp [RState.intake, hp0]) hn
  · left; rw [he]
    refine ⟨rfl, hused', Or.inr ⟨i, c, 0, ?_, hused⟩⟩
    refine { lt := by omega, at0 := hi, idx0 := hz, nozero := fun q h1 h2 => by omega,
             list := by simp [buffered, RState.intake, hr.list], ty := by simp [buffered, RState.intake, hr.pfx],
             max := by simp [buffered, RState.intake, hr.max], count := by simp [buffered, RState.intake],
             hbuf := ⟨line, [], p, [], by simp [buffered, RState.intake], hp, hr, by simp [IsBuf], rfl, ?_⟩ }
    intro pl0 ds _ hds D _
    have : ds = [] := by cases ds <;> simp_all
    subst this
    have : (cs.take (i + 1)).drop (i + 1) = [] := by
      apply List.drop_eq_nil_of_le; rw [List.length_take]; omega
    rw [this]; simp [Spec.Gfx.reach]
  · -- a one-line transfer
    rw [he]
    have hlast : (Spec.Gfx.declared c).last = 0 := by
      have h1 := hr.max; simp only [RState.intake] at hm; omega
    have hclosed : InvS cs (i + 1) (buffered (RState.intake p) line).cleared (i :: used) :=
      ⟨by intro u hu; simp only [List.mem_cons] at hu; rcases hu with rfl | hu
          · omega
          · exact hused' u hu, Or.inl rfl⟩
    have hclosed' : InvS cs (i + 1) (buffered (RState.intake p) line).cleared used := ⟨hused', Or.inl rfl⟩
    simp only [RState.intake, Option.getD_some, List.nil_append]
    cases hpl : c.payload with
    | none =>
      left
      rw [decode_buf_bad c line p [] [] hp hr hz (by simp [IsBuf]) (by simp [hlast]) (Or.inl hpl)]
      exact ⟨rfl, hclosed'⟩
    | some pl0 =>
      right
      rw [decode_buf_ok c line p [] pl0 [] hp hr hz (by simp [IsBuf]) hpl (by simp [hlast])]
      refine ⟨_, i, rfl, rfl, rfl, ?_, hused, hclosed⟩
      simp only [List.flatten_nil, List.append_nil]
      rw [hr.ids]
      refine legitAt_intro cs i i c c pl0 pl0 _ (by simpa using startOf_of cs i h0 0 (fun q h1 h2 => by omega))
        hi hi hpl hpl ?_ rfl rfl (by rw [hz, hlast]) (by simp [specImg])
      rw [metaOK_data, hr.img]; exact metaOK_hdrImg c

end RawPanelVerif.Gfx

namespace RawPanelVerif.Gfx

theorem invS_step_next (cs : List (Option Spec.Gfx.Chunk)) (i : Nat) (s : RState) (used : List Nat) (p : Parsed)
    (c : Spec.Gfx.Chunk) (line : Bytes) (hi : cs[i]? = some (some c)) (hp : parseLine? line = some p)
    (hr : Rel p c) (hz : c.idx ≠ 0) (h : InvS cs i s used) : StepOKS cs i used (Stream.parseP s p line) := by
  have hinv := h
  obtain ⟨hused, hopen⟩ := h
  have hp0 : ¬ (p.idx = 0) := by rw [hr.idx]; omega
  have hs1 : afterIntake s p = s := by simp [afterIntake, hp0]
  have hused' : ∀ u ∈ used, u < i + 1 := fun u hu => by have := hused u hu; omega
  have hnz : Spec.Gfx.isChunk0 (some (some c)) = false := by rw [isChunk0_some]; simpa using hz
  have hcases := parseP_cases s p line
  simp only [hs1] at hcases
  rcases hcases with ⟨_, he⟩ | ⟨_, _, he⟩ | ⟨hmatch, hnext, hm, he⟩ | ⟨hmatch, hnext, hm, he⟩
  · left; rw [he]; exact ⟨rfl, invS_skip cs i s used (some c) hi hnz hinv⟩
  · left; rw [he]; exact ⟨rfl, hused', Or.inl rfl⟩
  · -- buffered, more to come
    left; rw [he]
    rcases hopen with hcl | ⟨p0, c0, k, ho, hu⟩
    · exact absurd (show c.ids = [] by rw [← hr.list, ← hmatch.2, hcl]) hr.ids_ne
    · obtain ⟨l0, ls, q0, pls, hb1, hb2, hb3, hb4, hb5, hb6⟩ := ho.hbuf
      have hfmt : c.fmt = c0.fmt :=
        pfxOf_inj _ _ hr.fmt_le hb3.fmt_le (by rw [← hr.pfx, ← hmatch.1, ho.ty])
      have hids : c.ids = c0.ids := by rw [← hr.list, ← hmatch.2, ho.list]
      have hidx : c.idx = k + 1 := by
        have h1 := hr.idx; have h2 := ho.count; omega
      refine ⟨rfl, hused', Or.inr ⟨p0, c0, k + 1, ?_, hu⟩⟩
      refine { lt := by have := ho.lt; omega, at0 := ho.at0, idx0 := ho.idx0, nozero := ?_,
               list := by simp [buffered, ho.list], ty := by simp [buffered, ho.ty],
               max := by simp [buffered, ho.max], count := by simp [buffered, ho.count],
               hbuf := ⟨l0, ls ++ [line], q0, pls ++ [c.payload], by simp [buffered, hb1], hb2, hb3,
                 isBuf_snoc c0 ls pls 1 line c.payload hb4 ⟨p, c, hp, hr, by omega, hfmt, hids, rfl⟩,
                 by simp [hb5], ?_⟩ }
      · intro q hq1 hq2
        rcases Nat.lt_or_ge q i with hlt | hge
        · exact ho.nozero q hq1 hlt
        · have : q = i := by omega
          subst this; rw [hi]; exact hnz
      · intro pl0 ds' hpl0 hds' D hD
        obtain ⟨ds, d, rfl, hds, hd⟩ := map_some_snoc pls c.payload ds' hds'
        have e : pl0 ++ (ds ++ [d]).flatten = (pl0 ++ ds.flatten) ++ d := by simp
        rw [e] at hD ⊢
        rw [prefixAt_append] at hD
        rw [take_succ_drop cs i p0 (some c) hi ho.lt, reach_snoc, List.length_append]
        exact mem_reachStep_next D c0 c _ d (k + 1) _ hfmt hids hd hidx hD.2 (hb6 pl0 ds hpl0 hds D hD.1)
  · -- buffered and complete: the batch decoder turns the buffer into the image (or into nothing)
    rw [he]
    rcases hopen with hcl | ⟨p0, c0, k, ho, hu⟩
    · exact absurd (show c.ids = [] by rw [← hr.list, ← hmatch.2, hcl]) hr.ids_ne
    · obtain ⟨l0, ls, q0, pls, hb1, hb2, hb3, hb4, hb5, hb6⟩ := ho.hbuf
      have hfmt : c.fmt = c0.fmt :=
        pfxOf_inj _ _ hr.fmt_le hb3.fmt_le (by rw [← hr.pfx, ← hmatch.1, ho.ty])
      have hids : c.ids = c0.ids := by rw [← hr.list, ← hmatch.2, ho.list]
      have hidx : c.idx = k + 1 := by
        have h1 := hr.idx; have h2 := ho.count; omega
      have hlast : c.idx = (Spec.Gfx.declared c0).last := by
        have h1 := hr.idx; have h2 := ho.max; omega
      have hbuf' : IsBuf c0 1 (ls ++ [line]) (pls ++ [c.payload]) :=
        isBuf_snoc c0 ls pls 1 line c.payload hb4 ⟨p, c, hp, hr, by omega, hfmt, hids, rfl⟩
      have hmax' : (Spec.Gfx.declared c0).last = (ls ++ [line]).length := by simp [hb5]; omega
      have hclosed : ∀ us, (∀ u ∈ us, u < i + 1) → InvS cs (i + 1) (buffered s line).cleared us :=
        fun us hus => ⟨hus, Or.inl rfl⟩
      simp only [hb1, Option.getD_some, List.cons_append]
      by_cases hgood : ∃ (pl0 : Bytes) (ds' : List Bytes), c0.payload = some pl0 ∧ pls ++ [c.payload] = ds'.map some
      · right
        obtain ⟨pl0, ds', hpl0, hds'⟩ := hgood
        rw [hds'] at hbuf'
        rw [decode_buf_ok c0 l0 q0 (ls ++ [line]) pl0 ds' hb2 hb3 ho.idx0 hbuf' hpl0 hmax']
        obtain ⟨ds, d, rfl, hds, hd⟩ := map_some_snoc pls c.payload ds' hds'
        refine ⟨_, p0, rfl, rfl, rfl, ?_, hu, hclosed _ (by
          intro u hu'; simp only [List.mem_cons] at hu'; rcases hu' with rfl | hu'
          · have := ho.lt; omega
          · exact hused' u hu')⟩
        simp only []
        rw [hb3.ids]
        have hstart : Spec.Gfx.startOf cs i = some p0 := by
          have h0 : Spec.Gfx.isChunk0 cs[p0]? = true := by rw [ho.at0, isChunk0_some, ho.idx0]; rfl
          have := startOf_of cs p0 h0 (i - p0) (fun q h1 h2 => by
            rcases Nat.lt_or_ge q i with hlt | hge
            · exact ho.nozero q h1 hlt
            · have : q = i := by have := ho.lt; omega
              subst this; rw [hi]; exact hnz)
          rwa [show p0 + (i - p0) = i by have := ho.lt; omega] at this
        refine legitAt_intro cs i p0 c0 c pl0 d _ hstart ho.at0 hi hpl0 hd ?_ hfmt hids hlast ?_
        · rw [metaOK_data, hb3.img]; exact metaOK_hdrImg c0
        · have hne : ¬ (i = p0) := by have := ho.lt; omega
          have e : pl0 ++ (ds ++ [d]).flatten = (pl0 ++ ds.flatten) ++ d := by simp
          simp only [hne, if_false, specImg, e]
          refine ⟨prefixAt_mono _ _ _ (prefixAt_mono _ _ _ (prefixAt_self _)),
            (k + 1, (pl0 ++ ds.flatten).length), ?_, ?_, ?_⟩
          · exact hb6 pl0 ds hpl0 hds _ (prefixAt_mono _ _ _ (prefixAt_self _))
          · simp only []; omega
          · simp only [List.drop_left]
      · left
        have hbad : c0.payload = none ∨ ¬ ∃ ds : List Bytes, pls ++ [c.payload] = ds.map some := by
          cases hpl : c0.payload with
          | none => exact Or.inl rfl
          | some pl0 => exact Or.inr (fun ⟨ds, hds⟩ => hgood ⟨pl0, ds, hpl, hds⟩)
        rw [decode_buf_bad c0 l0 q0 (ls ++ [line]) _ hb2 hb3 ho.idx0 hbuf' hmax' hbad]
        exact ⟨rfl, hclosed _ hused'⟩

end RawPanelVerif.Gfx

namespace RawPanelVerif.Gfx

/-- the line as the streaming reader reads it -/
def readTrimmed (l : Bytes) : Option Spec.Gfx.Chunk := readLine (trimSpace l)

def delivsOfStream (evs : List (Nat × List Seen)) : List Spec.Gfx.Deliv :=
  evs.flatMap (fun ps => seenDelivs ps.1 ps.2)

theorem decode_other (x : Bytes) (h : parseLine? x = none) : Batch.decode Batch.step [x] = [.other x] := by
  simp [Batch.decode, Batch.run, Batch.runFrom, step_eq, h, see]

theorem stream_good (lines : List Bytes) (hdom : Spec.Gfx.inDomainOn (lines.map readTrimmed) = true) :
    ∀ (rest : List Bytes) (i : Nat) (s : RState) (used : List Nat), lines.drop i = rest →
      InvS (lines.map readTrimmed) i s used →
      Good (lines.map readTrimmed) (delivsOfStream (Stream.runFrom Stream.parse s i rest).2) used := by
  intro rest
  induction rest with
  | nil => intro i s used _ _; exact Good.nil used
  | cons l ls ih =>
    intro i s used hdrop hinv
    obtain ⟨hl, hdrop'⟩ := drop_cons_facts lines i l ls hdrop
    have hci : (lines.map readTrimmed)[i]? = some (readLine (trimSpace l)) := by simp [hl, readTrimmed]
    have hinv1 := invS_initRule _ i s used hinv
    simp only [Stream.runFrom, delivsOfStream, List.flatMap_cons]
    rw [parse_eq]
    rcases read_cases (trimSpace l) with ⟨hp, hrd⟩ | ⟨m, hm, hp, hrd⟩
    · simp only [hp, decode_other _ hp]
      rw [hrd] at hci
      have : seenDelivs i [Seen.other (trimSpace l)] = [] := rfl
      rw [this, List.nil_append]
      exact ih (i + 1) _ used hdrop' (invS_skip _ i _ used none hci rfl hinv1)
    · have hsmall : (chunkOf m).small = true := by
        have := List.all_eq_true.mp hdom (some (chunkOf m)) (by
          rw [← hrd]; exact List.mem_of_getElem? hci)
        simpa using this
      have hrel := rel_of_match _ m hm hsmall
      rw [hrd] at hci
      have hok : StepOKS (lines.map readTrimmed) i used (Stream.parseP s.initRule (parsedOf m) (trimSpace l)) := by
        by_cases hz : (chunkOf m).idx = 0
        · exact invS_step_zero _ i _ used _ _ _ hci hp hrel hz hinv1
        · exact invS_step_next _ i _ used _ _ _ hci hp hrel hz hinv1
      simp only [hp]
      rcases hok with ⟨hnone, hinv'⟩ | ⟨d, p0, hsome, hpos, hfin, hleg, hu, hinv'⟩
      · rw [hnone, List.nil_append]
        exact ih (i + 1) _ used hdrop' hinv'
      · rw [hsome, List.singleton_append]
        exact Good.cons d _ used i p0 hpos hleg (fun hmem => by have := hu p0 hmem; omega) hfin
          (ih (i + 1) _ (p0 :: used) hdrop' hinv')

/-- **streaming safety**: for every history in the domain (read with surrounding white space stripped, as the
reader does), the deliveries of the repaired reader pass the Spec's check -/
theorem stream_safe (lines : List Bytes) (hdom : Spec.Gfx.inDomainOn (lines.map readTrimmed) = true) :
    Spec.Gfx.safetyOn (lines.map readTrimmed) (delivsOfStream (Stream.run Stream.parse lines).2) = none := by
  unfold Spec.Gfx.safetyOn Stream.run
  apply safetyLoop_of_good
  exact stream_good lines hdom lines 0 {} [] rfl ⟨fun u hu => by simp at hu, Or.inl rfl⟩

end RawPanelVerif.Gfx
