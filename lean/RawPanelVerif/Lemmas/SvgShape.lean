import RawPanelVerif.Model.SvgIcon
import RawPanelVerif.Spec.SvgSpec
/-!
Helper lemmas for C15: every element the generator builds has one of the three element names, attribute names from
a fixed list of XML names, and no attribute name twice (`SetAttributeValue` replaces an existing name, appends a new
one) — hence `Spec.Svg.shapeOk`.
-/
namespace RawPanelVerif.Topo.Svg
open RawPanelVerif RawPanelVerif.Topo

/-- the attribute names `GenerateCompositeSVGdoc` sets -/
def attrWhitelist : List Str :=
  [b "x", b "y", b "width", b "height", b "rx", b "ry", b "cx", b "cy", b "r", b "transform", b "fill", b "stroke",
   b "stroke-width", b "id", b "pointer-events", b "style", b "text-anchor", b "font-weight", b "font-size",
   b "font-family", b "paint-order"]

def keys (n : Node) : List Str := n.attrs.map (·.1)

structure Good (n : Node) : Prop where
  name : n.name = b "rect" ∨ n.name = b "circle" ∨ n.name = b "text"
  nodup : (keys n).Nodup
  wl : ∀ k ∈ keys n, k ∈ attrWhitelist

theorem keys_setFirst (k v : Str) (l l' : List (Str × Str)) (h : setFirst k v l = some l') :
    l'.map (·.1) = l.map (·.1) := by
  induction l generalizing l' with
  | nil => simp [setFirst] at h
  | cons a r ih =>
    simp only [setFirst] at h
    by_cases ha : a.1 = k
    · simp only [ha, if_true, Option.some.injEq] at h
      subst h; simp [ha]
    · simp only [ha, if_false] at h
      cases hr : setFirst k v r with
      | none => simp [hr] at h
      | some r' =>
        simp only [hr, Option.map_some, Option.some.injEq] at h
        subst h
        simp [ih r' hr]

theorem notMem_of_setFirst_none (k v : Str) (l : List (Str × Str)) (h : setFirst k v l = none) :
    k ∉ l.map (·.1) := by
  induction l with
  | nil => simp
  | cons a r ih =>
    simp only [setFirst] at h
    by_cases ha : a.1 = k
    · simp [ha] at h
    · simp only [ha, if_false, Option.map_eq_none_iff] at h
      simp only [List.map_cons, List.mem_cons, not_or]
      exact ⟨fun e => ha e.symm, ih h⟩

theorem good_setAttr (n : Node) (kv : Str × Str) (h : Good n) (hk : kv.1 ∈ attrWhitelist) : Good (setAttr n kv) := by
  unfold setAttr
  cases hs : setFirst kv.1 kv.2 n.attrs with
  | some l =>
    have e := keys_setFirst _ _ _ _ hs
    exact ⟨h.name, by simpa [keys, e] using h.nodup, by simpa [keys, e] using h.wl⟩
  | none =>
    have hn := notMem_of_setFirst_none _ _ _ hs
    refine ⟨h.name, ?_, ?_⟩
    · simp only [keys, List.map_append, List.map_cons, List.map_nil]
      rw [List.nodup_append]
      refine ⟨h.nodup, by simp, ?_⟩
      intro a ha b' hb
      simp only [List.mem_cons, List.not_mem_nil, or_false] at hb
      subst hb
      intro e; subst e; exact hn ha
    · intro k hk'
      simp only [keys, List.map_append, List.map_cons, List.map_nil, List.mem_append, List.mem_cons,
        List.not_mem_nil, or_false] at hk'
      rcases hk' with hk' | rfl
      · exact h.wl k hk'
      · exact hk

theorem good_setAttrs (l : List (Str × Str)) : ∀ (n : Node), Good n → (∀ kv ∈ l, kv.1 ∈ attrWhitelist) →
    Good (setAttrs n l) := by
  induction l with
  | nil => intro n h _; exact h
  | cons kv r ih =>
    intro n h hl
    exact ih _ (good_setAttr n kv h (hl kv (List.mem_cons_self))) (fun x hx => hl x (List.mem_cons_of_mem _ hx))

theorem good_withRotate (rot : Str → RotInfo) (td : TypeDef) (c : HWc) (n : Node) (h : Good n) :
    Good (withRotate rot td c n) := by
  unfold withRotate
  split
  · exact good_setAttr _ _ h (by dsimp only; decide)
  · exact h

theorem good_text (n : Node) (t : Str) (h : Good n) : Good { n with text := t } := ⟨h.name, h.nodup, h.wl⟩

theorem good_empty (nm : Str) (h : nm = b "rect" ∨ nm = b "circle" ∨ nm = b "text") : Good { name := nm } :=
  ⟨h, List.nodup_nil, by intro k hk; simp [keys] at hk⟩

/-- membership of the names of an explicit attribute list in the whitelist, as a Boolean (closed after `simp`) -/
theorem wl_of_all (l : List (Str × Str)) (h : (l.map (·.1)).all (fun k => attrWhitelist.contains k) = true) :
    ∀ kv ∈ l, kv.1 ∈ attrWhitelist := by
  intro kv hkv
  simp only [List.all_eq_true, List.mem_map, forall_exists_index, and_imp] at h
  have := h kv.1 kv hkv rfl
  simpa using this

/-! ## the builders -/

theorem good_mainShape (rot : Str → RotInfo) (c : HWc) (td : TypeDef) : Good (mainShape rot c td) := by
  unfold mainShape addFormatting
  apply good_setAttrs _ _ _ (wl_of_all _ (by simp only [List.map]; decide))
  apply good_withRotate
  by_cases h : td.h > 0
  · simp only [h, if_true]
    exact good_setAttrs _ _ (good_empty _ (Or.inl rfl)) (wl_of_all _ (by simp only [List.map]; decide))
  · simp only [h, if_false]
    exact good_setAttrs _ _ (good_empty _ (Or.inr (Or.inl rfl))) (wl_of_all _ (by simp only [List.map]; decide))

theorem good_addSubElFormatting (n : Node) (s : SubEl) (h : Good n) : Good (addSubElFormatting n s) := by
  unfold addSubElFormatting
  apply good_setAttrs _ _ _ (wl_of_all _ (by simp only [List.map]; decide))
  have h1 : Good (if s.rx ≠ 0 then setAttr n (b "rx", itoa s.rx) else n) := by
    split
    · exact good_setAttr _ _ h (by dsimp only; decide)
    · exact h
  have h2 : Good (if s.ry ≠ 0 then setAttr (if s.rx ≠ 0 then setAttr n (b "rx", itoa s.rx) else n) (b "ry", itoa s.ry)
      else (if s.rx ≠ 0 then setAttr n (b "rx", itoa s.rx) else n)) := by
    split
    · exact good_setAttr _ _ h1 (by dsimp only; decide)
    · exact h1
  split
  · exact good_setAttr _ _ h2 (by dsimp only; decide)
  · exact h2

theorem good_subShapes (rot : Str → RotInfo) (c : HWc) (td : TypeDef) (s : SubEl) :
    ∀ n ∈ subShapes rot c td s, Good n := by
  intro n hn
  unfold subShapes at hn
  simp only [List.mem_append] at hn
  rcases hn with hn | hn
  · split at hn
    · simp only [List.mem_cons, List.not_mem_nil, or_false] at hn
      subst hn
      apply good_addSubElFormatting
      apply good_withRotate
      exact good_setAttrs _ _ (good_empty _ (Or.inl rfl)) (wl_of_all _ (by simp only [List.map]; decide))
    · simp at hn
  · split at hn
    · simp only [List.mem_cons, List.not_mem_nil, or_false] at hn
      subst hn
      apply good_addSubElFormatting
      apply good_withRotate
      exact good_setAttrs _ _ (good_empty _ (Or.inr (Or.inl rfl))) (wl_of_all _ (by simp only [List.map]; decide))
    · simp at hn

theorem good_labelNode (rot : Str → RotInfo) (o : Opts) (c : HWc) (td : TypeDef) (ro : List Str) (cnt a : Nat) (txt : Str) :
    Good (labelNode rot o c td ro cnt a txt) := by
  unfold labelNode
  apply good_text
  have h0 : Good (setAttrs { name := b "text" }
      [(b "x", itoa c.x), (b "y", itoa (c.y + 27 + (a : Int) * 30 - ((cnt : Int) * 30).tdiv 2)), (b "text-anchor", b "middle"),
       (b "fill", qstr (isIn (b "invtxt") ro) (qstr o.showLabels (b "#FFF") (b "#666")) (qstr o.showLabels (b "#000") (b "#999"))),
       (b "font-weight", b "bold"), (b "font-size", b "30"), (b "font-family", b "sans-serif"), (b "pointer-events", b "none")]) :=
    good_setAttrs _ _ (good_empty _ (Or.inr (Or.inr rfl))) (wl_of_all _ (by simp only [List.map]; decide))
  split
  · split
    · exact h0
    · exact good_setAttr _ _ h0 (by dsimp only; decide)
  · exact good_withRotate _ _ _ _ h0

theorem good_labelNodes (rot : Str → RotInfo) (o : Opts) (c : HWc) (td : TypeDef) (ro : List Str) :
    ∀ n ∈ labelNodes rot o c td ro, Good n := by
  intro n hn
  unfold labelNodes at hn
  split at hn
  · simp only [List.mem_map] at hn
    obtain ⟨a, _, rfl⟩ := hn
    exact good_labelNode _ _ _ _ _ _ _ _
  · simp at hn

theorem good_typeNode (rot : Str → RotInfo) (o : Opts) (c : HWc) (td : TypeDef) : ∀ n ∈ typeNode rot o c td, Good n := by
  intro n hn
  unfold typeNode at hn
  split at hn
  · simp only [List.mem_cons, List.not_mem_nil, or_false] at hn
    subst hn
    apply good_text
    apply good_withRotate
    exact good_setAttrs _ _ (good_empty _ (Or.inr (Or.inr rfl))) (wl_of_all _ (by simp only [List.map]; decide))
  · simp at hn

theorem good_dispSizeNode (rot : Str → RotInfo) (o : Opts) (c : HWc) (td : TypeDef) :
    ∀ n ∈ dispSizeNode rot o c td, Good n := by
  intro n hn
  unfold dispSizeNode at hn
  split at hn
  · simp at hn
  · split at hn
    · simp only [List.mem_cons, List.not_mem_nil, or_false] at hn
      subst hn
      apply good_text
      apply good_withRotate
      exact good_setAttrs _ _ (good_empty _ (Or.inr (Or.inr rfl))) (wl_of_all _ (by simp only [List.map]; decide))
    · simp at hn

theorem good_idNode (rot : Str → RotInfo) (o : Opts) (c : HWc) (td : TypeDef) (ro : List Str) :
    ∀ n ∈ idNode rot o c td ro, Good n := by
  intro n hn
  unfold idNode at hn
  split at hn
  · simp only [List.mem_cons, List.not_mem_nil, or_false] at hn
    subst hn
    apply good_text
    apply good_withRotate
    apply good_setAttrs _ _ _ (wl_of_all _ (by simp only [List.map]; decide))
    have h0 : Good (setAttrs { name := b "text" }
        [(b "x", itoa (c.x - qint (td.h > 0) (td.w.tdiv 2 - 4) 0)), (b "y", itoa (c.y - (qint (td.h > 0) td.h td.w).tdiv 2 + 20))]) :=
      good_setAttrs _ _ (good_empty _ (Or.inr (Or.inr rfl))) (wl_of_all _ (by simp only [List.map]; decide))
    split
    · exact good_setAttr _ _ h0 (by dsimp only; decide)
    · exact h0
  · simp at hn

theorem good_componentNodes (rot : Str → RotInfo) (o : Opts) (t : Topology) (mask : Option (List (Nat × Nat))) (c : HWc) :
    ∀ n ∈ componentNodes rot o t mask c, Good n := by
  intro n hn
  unfold componentNodes at hn
  simp only at hn
  split at hn
  · simp at hn
  · simp only [List.mem_cons, List.mem_append, List.mem_flatMap] at hn
    rcases hn with rfl | ((((⟨s, _, hs⟩ | hl) | ht) | hd) | hi)
    · exact good_mainShape _ _ _
    · exact good_subShapes _ _ _ s n hs
    · exact good_labelNodes _ _ _ _ _ n hl
    · exact good_typeNode _ _ _ _ n ht
    · exact good_dispSizeNode _ _ _ _ n hd
    · exact good_idNode _ _ _ _ _ n hi

/-! ## from `Good` to the Spec's `shapeOk` -/

theorem distinct_of_nodup (l : List Str) (h : l.Nodup) : Spec.Svg.distinct l = true := by
  induction l with
  | nil => rfl
  | cons a r ih =>
    rw [List.nodup_cons] at h
    simp only [Spec.Svg.distinct, Bool.and_eq_true, Bool.not_eq_true']
    refine ⟨?_, ih h.2⟩
    cases hc : r.contains a with
    | false => rfl
    | true => exact absurd (by simpa using hc) h.1

theorem whitelist_names : ∀ k ∈ attrWhitelist, Spec.Svg.isXmlName k = true := by decide

theorem shapeOk_of_good (n : Node) (h : Good n) : Spec.Svg.shapeOk n = true := by
  unfold Spec.Svg.shapeOk
  simp only [Bool.and_eq_true]
  refine ⟨⟨?_, ?_⟩, distinct_of_nodup _ h.nodup⟩
  · rcases h.name with e | e | e <;> rw [e] <;> decide
  · simp only [List.all_eq_true]
    intro k hk
    exact whitelist_names k (h.wl k hk)

end RawPanelVerif.Topo.Svg
