import RawPanelVerif.Lemmas.DecGfx2
/-! C02 `dec_sound`, graphics lines, part 3: whole sequences of the domain `inDomainLines` (any interleaving of graphics
lines with other lines).  `dec_sound_nb` is the unguarded statement (the decoder's effects are the reader's effects
minus the deliveries of the all-default image); `dec_sound` follows under `noBlankImage`, and the guard is exact. -/
namespace RawPanelVerif.DecGfx
open RawPanelVerif RawPanelVerif.Bytes RawPanelVerif.MsgIn RawPanelVerif.Model.In RawPanelVerif.Spec.In
open RawPanelVerif.DecSound RawPanelVerif.DecShape RawPanelVerif.ReadIn RawPanelVerif.EncSound

def optList (r : Option InMsg) : List (Option InMsg) :=
  match r with
  | some m => [some m]
  | none => []

theorem flatMap_optList (r : Option InMsg) : (optList r).flatMap effectsOfMsgOpt = effectsOfMsgOpt r := by
  cases r with
  | none => rfl
  | some m => simp [optList]

theorem alias_eta (g : GfxSt) (h : g.alias = none) : { g with alias := none } = g := by
  cases g; simp_all

/-- the decoder on a line accepted by `regex_gfx` (repaired semantics) -/
theorem decLine_gfx (O : Oracles) (st : DecSt) (l : Bytes) (m : List Bytes) (g' : GfxSt) (r : Option InMsg)
    (hlit : literalMsg l = none) (h1 : l.head? ≠ some 123) (h2 : l.head? ≠ some 91) (h3 : matchCmd l = none)
    (hm : matchGfx l = some m) (hd : decGfx false st.gfx m = .ok (g', r)) (ha : g'.alias = none) :
    decLine O false st l = .ok { out := st.out ++ optList r, gfx := g' } := by
  unfold decLine
  simp only [hlit, h3, hm, hd, bind, Except.bind, pure, Except.pure]
  rw [if_neg h1, if_neg h2]
  simp only [ha, Bool.false_eq_true, if_false]
  cases r with
  | none => simp [optList]
  | some msg => simp only [optList]; rw [alias_eta g' ha]

theorem discipline_gfx (O : Oracles) (x : Option Xfer) (l : Bytes) (ls : List Bytes) (p : GfxPart)
    (h : gfxDiscipline O x (l :: ls) = true) (hr : readLine O l = .gfx p) :
    stepGfx x p ≠ (none, []) ∧ gfxDiscipline O (stepGfx x p).1 ls = true := by
  unfold gfxDiscipline at h
  rw [hr] at h
  simp only [] at h
  split at h
  · simp at h
  · rename_i x' es hne heq
    rw [heq]
    exact ⟨fun e => by
      simp only [Prod.mk.injEq] at e
      exact hne e.1 e.2 |> fun f => f, h⟩

theorem discipline_eff (O : Oracles) (x : Option Xfer) (l : Bytes) (ls : List Bytes) (es : List Effect)
    (h : gfxDiscipline O x (l :: ls) = true) (hr : readLine O l = .effects es) : gfxDiscipline O x ls = true := by
  unfold gfxDiscipline at h
  rw [hr] at h
  exact h

theorem not_outside (c : LineClass) (h : c ≠ .outside) : c = .wellFormed ∨ c = .nonGrammar := by
  cases c <;> simp_all

/-- **all lines** -/
theorem decLines_full (O : Oracles) (ls : List Bytes) :
    ∀ (st : DecSt) (x : Option Xfer), Inv st.gfx x → (∀ l ∈ ls, classify O l ≠ .outside) → gfxDiscipline O x ls = true →
      ∃ st' outs, decLines O false st ls = .ok st' ∧ st'.out = st.out ++ outs ∧
        outs.flatMap effectsOfMsgOpt = readFromNB O x ls := by
  induction ls with
  | nil => intro st x _ _ _; exact ⟨st, [], rfl, by simp, rfl⟩
  | cons l ls ih =>
    intro st x hinv hcl hdisc
    have hrest : ∀ y ∈ ls, classify O y ≠ .outside := fun y hy => hcl y (by simp [hy])
    -- a line that is not a graphics part
    have plain : InNoGfxDomain O l → ∃ st' outs, decLines O false st (l :: ls) = .ok st' ∧ st'.out = st.out ++ outs ∧
        outs.flatMap effectsOfMsgOpt = readFromNB O x (l :: ls) := by
      intro hdom
      obtain ⟨hs, hr⟩ := line_sound_nogfx' O l hdom
      obtain ⟨o1, hd1, he1⟩ := hs false st
      obtain ⟨st', o2, hd2, ho2, he2⟩ := ih { st with out := st.out ++ o1 } x hinv hrest (discipline_eff O x l ls _ hdisc hr)
      refine ⟨st', o1 ++ o2, ?_, ?_, ?_⟩
      · unfold decLines
        rw [hd1]
        exact hd2
      · rw [ho2]; simp
      · rw [List.flatMap_append, he1, he2]
        simp only [readFromNB, hr]
    rcases not_outside _ (hcl l (by simp)) with hw | hn
    · by_cases hg : isGfxLine l = true
      · obtain ⟨p, m, hr, hlit, h1, h2, h3, hm, hrel⟩ := gfx_line O l hw hg
        obtain ⟨hne, hdisc'⟩ := discipline_gfx O x l ls p hdisc hr
        obtain ⟨g', r, hd, hinv', heff⟩ := gfx_step st.gfx x l m p hrel hinv hne
        have hdl := decLine_gfx O st l m g' r hlit h1 h2 h3 hm hd hinv'.1
        obtain ⟨st', o2, hd2, ho2, he2⟩ := ih { out := st.out ++ optList r, gfx := g' } (stepGfx x p).1 hinv' hrest hdisc'
        refine ⟨st', optList r ++ o2, ?_, ?_, ?_⟩
        · unfold decLines
          rw [hdl]
          exact hd2
        · rw [ho2]; simp
        · rw [List.flatMap_append, flatMap_optList, heff, he2]
          simp only [readFromNB, hr]
      · exact plain (Or.inl ⟨hw, by cases h : isGfxLine l <;> simp_all⟩)
    · exact plain (Or.inr hn)

theorem inv_init : Inv ({} : GfxSt) none := ⟨rfl, rfl⟩

/-- **dec_sound, unguarded form**: on every sequence of the domain the decoder does not panic and its messages have
exactly the effects the reference reader reads, minus the deliveries of the all-default image -/
theorem dec_sound_nb (O : Oracles) (ls : List Bytes) (h : inDomainLines O ls = true) :
    ∃ ms, decInE O ls = .ok ms ∧ ms.flatMap effectsOfMsgOpt = readFromNB O none ls := by
  unfold inDomainLines at h
  simp only [Bool.and_eq_true, List.all_eq_true, bne_iff_ne, ne_eq] at h
  obtain ⟨st', outs, hd, ho, he⟩ := decLines_full O ls {} none inv_init h.1 h.2
  refine ⟨outs, ?_, he⟩
  unfold decInE
  rw [hd]
  simp only []
  rw [ho]
  rfl

/-! ## the guard -/

theorem filter_none_blank (es : List Effect) (h : es.any isBlankEffect = false) :
    es.filter (fun e => !isBlankEffect e) = es := by
  rw [List.filter_eq_self]
  intro e he
  have := List.any_eq_false.mp h e he
  simpa using this

theorem readFromNB_eq (O : Oracles) (ls : List Bytes) : ∀ x, noBlankImage O x ls = true → readFromNB O x ls = readFrom O x ls := by
  induction ls with
  | nil => intro x _; rfl
  | cons l ls ih =>
    intro x h
    unfold noBlankImage at h
    unfold readFromNB readFrom
    cases hr : readLine O l with
    | effects es =>
      rw [hr] at h
      simp only [] at h ⊢
      rw [ih x h]
    | gfx p =>
      rw [hr] at h
      simp only [Bool.and_eq_true, Bool.not_eq_true'] at h ⊢
      rw [ih _ h.2, filter_none_blank _ h.1]

theorem filter_length_lt (es : List Effect) (h : es.any isBlankEffect = true) :
    (es.filter (fun e => !isBlankEffect e)).length < es.length := by
  induction es with
  | nil => simp at h
  | cons e es ih =>
    simp only [List.any_cons, Bool.or_eq_true] at h
    simp only [List.filter_cons, List.length_cons]
    by_cases he : isBlankEffect e = true
    · simp only [he, Bool.not_true, Bool.false_eq_true, if_false]
      have := List.length_filter_le (fun e => !isBlankEffect e) es
      omega
    · have he' : isBlankEffect e = false := by simpa using he
      simp only [he', Bool.not_false, if_true, List.length_cons]
      rcases h with h | h
      · exact absurd h he
      · have := ih h; omega

theorem readFromNB_length (O : Oracles) (ls : List Bytes) : ∀ x,
    (readFromNB O x ls).length ≤ (readFrom O x ls).length ∧
    (noBlankImage O x ls = false → (readFromNB O x ls).length < (readFrom O x ls).length) := by
  induction ls with
  | nil => intro x; exact ⟨Nat.le_refl _, fun h => by simp [noBlankImage] at h⟩
  | cons l ls ih =>
    intro x
    unfold noBlankImage readFromNB readFrom
    cases hr : readLine O l with
    | effects es =>
      simp only [List.length_append]
      obtain ⟨i1, i2⟩ := ih x
      exact ⟨by omega, fun h => by have := i2 h; omega⟩
    | gfx p =>
      simp only [List.length_append]
      obtain ⟨i1, i2⟩ := ih (stepGfx x p).1
      have hf := List.length_filter_le (fun e => !isBlankEffect e) (stepGfx x p).2
      refine ⟨by omega, fun h => ?_⟩
      simp only [Bool.and_eq_false_iff, Bool.not_eq_false'] at h
      rcases h with h | h
      · have := filter_length_lt _ h; omega
      · have := i2 h; omega

/-- **dec_sound** under the guard -/
theorem dec_sound (O : Oracles) (ls : List Bytes) (h : inDomainLines O ls = true) (hb : noBlankImage O none ls = true) :
    ∃ ms, decInE O ls = .ok ms ∧ ms.flatMap effectsOfMsgOpt = readInbound O ls := by
  obtain ⟨ms, h1, h2⟩ := dec_sound_nb O ls h
  exact ⟨ms, h1, by rw [h2, readFromNB_eq O ls none hb]; rfl⟩

/-- the guard is exact: on the domain the decoder's effects equal the reader's iff no all-default image is delivered -/
theorem dec_sound_iff (O : Oracles) (ls : List Bytes) (h : inDomainLines O ls = true) :
    (∃ ms, decInE O ls = .ok ms ∧ ms.flatMap effectsOfMsgOpt = readInbound O ls) ↔ noBlankImage O none ls = true := by
  constructor
  · intro ⟨ms, h1, h2⟩
    obtain ⟨ms', h1', h2'⟩ := dec_sound_nb O ls h
    rw [h1] at h1'
    injection h1' with e
    subst e
    cases hb : noBlankImage O none ls with
    | true => rfl
    | false =>
      have := (readFromNB_length O ls none).2 hb
      rw [← h2', h2] at this
      exact absurd this (Nat.lt_irrefl _)
  · exact dec_sound O ls h

end RawPanelVerif.DecGfx
