import RawPanelVerif.Lemmas.MonoTextXform
import RawPanelVerif.Lemmas.MonoTextBox
import RawPanelVerif.Spec.TextSpec
/-!
# Scaling with extra character spacing: the documented deviation, exactly

With extra spacing `s` the renderer advances the cursor by `h·w + s` after a glyph of width `w` (finding
C20.scale_with_spacing), so the size-`(h,v)` rendering is not the size-1 rendering enlarged as a whole.  What it is,
exactly: glyph `n` sits at `x + Σ_{m<n}(h·w_m + s)` and is the size-1 glyph (at `x + Σ_{m<n}(w_m + s)`) enlarged `h × v`;
nothing is lit between the glyph cells.  `Spec.Text.devSource` computes, for a column of the enlarged line, the size-1
column it must show (or `none` outside every glyph cell); `textR0_dev` proves that the model's lit region obeys it for
every string, font, mode, spacing and size.
-/
namespace RawPanelVerif.Mono
open RawPanelVerif.Spec.Text (devSource)

/-- the widths `GetCharWidth` reports for the characters of a line that are drawn (CR is skipped) -/
def glyphWs (t : TextSt) (s : List Nat) : List Int :=
  (s.filter (fun ch => ch ≠ 13)).map (fun ch => (charWidth t ch : Int))

theorem glyphWs_cons13 (t : TextSt) (rest : List Nat) : glyphWs t (13 :: rest) = glyphWs t rest := by
  unfold glyphWs; simp

theorem glyphWs_cons (t : TextSt) (ch : Nat) (rest : List Nat) (h : ch ≠ 13) :
    glyphWs t (ch :: rest) = (charWidth t ch : Int) :: glyphWs t rest := by
  unfold glyphWs; simp [h]

/-- the ink of a glyph lies in its cell, horizontally -/
theorem glyphR_cell (W H : Nat) (t : TextSt) (x y : Int) (ch : Nat) (h v : Int) (hh : 0 < h) (X Y : Nat)
    (hg : glyphR (geo0 W H) t x y ch h v X Y) : x ≤ (X : Int) ∧ (X : Int) < x + (charWidth t ch : Int) * h := by
  unfold glyphR blockR boxR at hg
  obtain ⟨i, j, hi, _, _, _, q1, q2, _, _⟩ := hg
  have b0 : (geo0 W H).bx = 0 := rfl
  rw [b0] at q1 q2
  have h0 : (0 : Int) ≤ (i : Int) * h := Int.mul_nonneg (by omega) (by omega)
  have h1 : ((i : Int) + 1) * h ≤ (charWidth t ch : Int) * h :=
    Int.mul_le_mul_of_nonneg_right (by omega) (by omega)
  rw [Int.add_mul, Int.one_mul] at h1
  constructor <;> omega

/-- the ink of a string lies right of its cursor -/
theorem textR0_left (W H : Nat) (s : List Nat) (t : TextSt) (hh : 0 < t.tsH) (X Y : Nat)
    (hr : textR0 (geo0 W H) t s X Y) : t.cx ≤ (X : Int) := by
  induction s generalizing t with
  | nil => exact hr.elim
  | cons ch rest ih =>
    simp only [textR0] at hr
    by_cases h13 : ch = 13
    · simp only [h13, if_true] at hr; exact ih t hh hr
    · simp only [h13, if_false] at hr
      rcases hr with hg | hrest
      · exact (glyphR_cell W H t t.cx t.cy ch t.tsH t.tsV hh X Y hg).1
      · have := ih { t with cx := t.cx + t.tsH * (charWidth t ch : Int) + t.spacing } hh hrest
        have h0 : (0 : Int) ≤ t.tsH * (charWidth t ch : Int) := Int.mul_nonneg (by omega) (by omega)
        simp only [] at this
        omega

/-- ink is on the canvas -/
theorem textR0_clip (W H : Nat) (s : List Nat) (t : TextSt) (X Y : Nat) (hr : textR0 (geo0 W H) t s X Y) : X < W := by
  induction s generalizing t with
  | nil => exact hr.elim
  | cons ch rest ih =>
    simp only [textR0] at hr
    by_cases h13 : ch = 13
    · simp only [h13, if_true] at hr; exact ih t hr
    · simp only [h13, if_false] at hr
      rcases hr with hg | hrest
      · unfold glyphR blockR boxR at hg
        obtain ⟨_, _, _, _, _, hc, _⟩ := hg
        unfold clipR inClip wMax geo0 at hc
        simp only [] at hc
        have := hc.2.2.1
        split at this <;> omega
      · exact ih _ hrest

/-- `devSource` answers with a column at or right of the size-1 origin -/
theorem devSource_ge (h s : Int) (hh : 0 < h) (hs : 0 ≤ s) (ws : List Int) (hws : ∀ w ∈ ws, 0 ≤ w) (oA oC X xc : Int)
    (e : devSource h s ws oA oC X = some xc) : oC ≤ xc := by
  induction ws generalizing oA oC with
  | nil => simp [devSource] at e
  | cons w ws ih =>
    have hw : 0 ≤ w := hws w (by simp)
    simp only [devSource] at e
    split at e
    · exact absurd e (by simp)
    · split at e
      · rename_i h1 h2
        injection e with e
        have : 0 ≤ (X - oA) / h := Int.ediv_nonneg (by omega) (by omega)
        omega
      · have := ih (fun w' hw' => hws w' (by simp [hw'])) _ _ e
        omega

/-- one glyph: the cell at `oA` of the enlarged rendering is the cell at `oC` of the size-1 rendering enlarged `h × v`
(the two origins are independent) -/
theorem glyphR_dev (W H : Nat) (t : TextSt) (h v oA oC cy : Int) (hh : 0 < h) (hv : 0 < v) (ch : Nat)
    (I J p q : Int) (Xh Yh X1 Y1 : Nat) (hXh : Xh < W) (hYh : Yh < H) (hX1 : X1 < W) (hY1 : Y1 < H)
    (hp0 : 0 ≤ p) (hp : p < h) (hq0 : 0 ≤ q) (hq : q < v)
    (eXh : (Xh : Int) = oA + h * I + p) (eYh : (Yh : Int) = cy + v * J + q)
    (eX1 : (X1 : Int) = oC + I) (eY1 : (Y1 : Int) = cy + J) :
    glyphR (geo0 W H) (atSize t h v oA cy) oA cy ch h v Xh Yh ↔
    glyphR (geo0 W H) (atSize t 1 1 oC cy) oC cy ch 1 1 X1 Y1 := by
  unfold glyphR blockR boxR
  have c1 := clipR_geo0 W H Xh Yh hXh hYh
  have c2 := clipR_geo0 W H X1 Y1 hX1 hY1
  have b0 : (geo0 W H).bx = 0 := rfl
  have b1 : (geo0 W H).byy = 0 := rfl
  rw [b0, b1]
  have hcw : charWidth (atSize t h v oA cy) ch = charWidth (atSize t 1 1 oC cy) ch := rfl
  have hbb : (atSize t h v oA cy).fp.bbH = (atSize t 1 1 oC cy).fp.bbH := rfl
  have hink : ∀ i j, inkBit (atSize t h v oA cy) ch i j = inkBit (atSize t 1 1 oC cy) ch i j := fun _ _ => rfl
  constructor
  · rintro ⟨i, j, hi, hj, hk, _, q1, q2, q3, q4⟩
    have ei : (i : Int) * h = h * i := Int.mul_comm _ _
    have ej : (j : Int) * v = v * j := Int.mul_comm _ _
    have eI : I = i := block_index h i I p hh hp0 hp (by omega) (by omega)
    have eJ : J = j := block_index v j J q hv hq0 hq (by omega) (by omega)
    refine ⟨i, j, by rw [← hcw]; exact hi, by rw [← hbb]; exact hj, by rw [← hink]; exact hk, c2, ?_, ?_, ?_, ?_⟩ <;> omega
  · rintro ⟨i, j, hi, hj, hk, _, q1, q2, q3, q4⟩
    have ei : (i : Int) * h = h * i := Int.mul_comm _ _
    have ej : (j : Int) * v = v * j := Int.mul_comm _ _
    have eI : I = i := by omega
    have eJ : J = j := by omega
    subst eI eJ
    refine ⟨i, j, by rw [hcw]; exact hi, by rw [hbb]; exact hj, by rw [hink]; exact hk, c1, ?_, ?_, ?_, ?_⟩ <;> omega

/-- what the documented advance rule demands of a stored bit of the enlarged line whose column maps to `src` -/
def devR (W H : Nat) (t : TextSt) (s : List Nat) (cy oC : Int) (Y1 : Nat) : Option Int → Prop
  | none => False
  | some xc => textR0 (geo0 W H) (atSize t 1 1 oC cy) s xc.toNat Y1

theorem atSize_adv (t : TextSt) (h v o cy : Int) (ch : Nat) :
    ({ atSize t h v o cy with
        cx := (atSize t h v o cy).cx + (atSize t h v o cy).tsH * (charWidth (atSize t h v o cy) ch : Int)
          + (atSize t h v o cy).spacing } : TextSt) = atSize t h v (o + h * (charWidth t ch : Int) + t.spacing) cy := rfl

/-- **The lit region of the enlarged line is the documented deviation**: for every string (no line feed), font, mode,
extra spacing and size `(h,v)`, a stored bit `(Xh, Yh)` in the row band of the line is lit by the size-`(h,v)` rendering
started at column `oA` iff `devSource` maps its column to a size-1 column `xc` (glyph cells at the advance `h·w + s`) and
the size-1 rendering started at `oC` lights `(xc, cy + J)`, `J` the glyph row of `Yh`. -/
theorem textR0_dev (W H : Nat) (s : List Nat) (t : TextSt) (h v cy : Int) (hh : 0 < h) (hv : 0 < v) (oA oC : Int)
    (hoC : 0 ≤ oC) (hfit : oC + advSum (atSize t 1 1 oC cy) s ≤ W)
    (J q : Int) (Xh Yh Y1 : Nat) (hXh : Xh < W) (hYh : Yh < H) (hY1 : Y1 < H) (hq0 : 0 ≤ q) (hq : q < v)
    (eYh : (Yh : Int) = cy + v * J + q) (eY1 : (Y1 : Int) = cy + J) :
    textR0 (geo0 W H) (atSize t h v oA cy) s Xh Yh ↔
    devR W H t s cy oC Y1 (devSource h t.spacing (glyphWs t s) oA oC Xh) := by
  induction s generalizing oA oC with
  | nil =>
    simp only [textR0, glyphWs, List.filter_nil, List.map_nil, devSource, devR]
  | cons ch rest ih =>
    by_cases h13 : ch = 13
    · subst h13
      rw [glyphWs_cons13]
      have e1 : textR0 (geo0 W H) (atSize t h v oA cy) (13 :: rest) Xh Yh ↔ textR0 (geo0 W H) (atSize t h v oA cy) rest Xh Yh := by
        simp only [textR0, if_true]
      rw [e1]
      have hfit' : oC + advSum (atSize t 1 1 oC cy) rest ≤ W := by
        have h0 : (0 : Int) ≤ (charWidth (atSize t 1 1 oC cy) 13 : Int) * (atSize t 1 1 oC cy).tsH + (atSize t 1 1 oC cy).spacing := by
          have : (0 : Int) ≤ (charWidth (atSize t 1 1 oC cy) 13 : Int) * (atSize t 1 1 oC cy).tsH :=
            Int.mul_nonneg (by omega) (by show (0 : Int) ≤ 1; omega)
          omega
        unfold advSum at hfit
        omega
      rw [ih oA oC hoC hfit']
      cases hd : devSource h (↑t.spacing) (glyphWs t rest) oA oC ↑Xh with
      | none => exact Iff.rfl
      | some xc =>
        simp only [devR, textR0, if_true]
    · rw [glyphWs_cons t ch rest h13]
      have hcw0 : (0 : Int) ≤ (charWidth t ch : Int) := by omega
      have hsp0 : (0 : Int) ≤ (t.spacing : Int) := by omega
      have hhw : (0 : Int) ≤ h * (charWidth t ch : Int) := Int.mul_nonneg (by omega) hcw0
      -- the enlarged side, unfolded one glyph
      have eA : textR0 (geo0 W H) (atSize t h v oA cy) (ch :: rest) Xh Yh ↔
          (glyphR (geo0 W H) (atSize t h v oA cy) oA cy ch h v Xh Yh ∨
           textR0 (geo0 W H) (atSize t h v (oA + h * (charWidth t ch : Int) + t.spacing) cy) rest Xh Yh) := by
        simp only [textR0, h13, if_false]
        rw [atSize_adv]
        exact Iff.rfl
      have eC : ∀ X1 : Nat, textR0 (geo0 W H) (atSize t 1 1 oC cy) (ch :: rest) X1 Y1 ↔
          (glyphR (geo0 W H) (atSize t 1 1 oC cy) oC cy ch 1 1 X1 Y1 ∨
           textR0 (geo0 W H) (atSize t 1 1 (oC + 1 * (charWidth t ch : Int) + t.spacing) cy) rest X1 Y1) := by
        intro X1
        simp only [textR0, h13, if_false]
        rw [atSize_adv]
        exact Iff.rfl
      have hfit' : (oC + 1 * (charWidth t ch : Int) + t.spacing) +
          advSum (atSize t 1 1 (oC + 1 * (charWidth t ch : Int) + t.spacing) cy) rest ≤ W := by
        have e0 : advSum (atSize t 1 1 (oC + 1 * (charWidth t ch : Int) + t.spacing) cy) rest = advSum (atSize t 1 1 oC cy) rest := by
          have := advSum_cx (atSize t 1 1 oC cy) (oC + 1 * (charWidth t ch : Int) + t.spacing) rest
          rw [← this]; rfl
        rw [e0]
        have e1 : advSum (atSize t 1 1 oC cy) (ch :: rest) =
            ((charWidth t ch : Int) * 1 + t.spacing) + advSum (atSize t 1 1 oC cy) rest := rfl
        rw [e1] at hfit
        omega
      have hadv0 : (0 : Int) ≤ advSum (atSize t 1 1 oC cy) rest := advSum_nonneg _ (by show (0 : Int) ≤ 1; omega) rest
      have hfitc : oC + (charWidth t ch : Int) ≤ W := by
        have e1 : advSum (atSize t 1 1 oC cy) (ch :: rest) =
            ((charWidth t ch : Int) * 1 + t.spacing) + advSum (atSize t 1 1 oC cy) rest := rfl
        rw [e1] at hfit
        omega
      rw [eA]
      simp only [devSource]
      by_cases hx1 : (Xh : Int) < oA
      · -- left of the glyph: nothing lit
        rw [if_pos hx1]
        simp only [devR]
        constructor
        · rintro (hg | hr)
          · have := (glyphR_cell W H (atSize t h v oA cy) oA cy ch h v hh Xh Yh hg).1; omega
          · have := textR0_left W H rest (atSize t h v (oA + h * (charWidth t ch : Int) + t.spacing) cy) (by show 0 < h; exact hh) Xh Yh hr
            have e : (atSize t h v (oA + h * (charWidth t ch : Int) + t.spacing) cy).cx = oA + h * (charWidth t ch : Int) + t.spacing := rfl
            omega
        · exact fun hf => hf.elim
      · rw [if_neg hx1]
        by_cases hx2 : (Xh : Int) < oA + h * (charWidth t ch : Int)
        · -- inside the cell of this glyph
          rw [if_pos hx2]
          simp only [devR]
          have hI0 : 0 ≤ ((Xh : Int) - oA) / h := Int.ediv_nonneg (by omega) (by omega)
          have hIlt : ((Xh : Int) - oA) / h < (charWidth t ch : Int) := by
            apply Int.ediv_lt_of_lt_mul hh
            rw [Int.mul_comm]; omega
          have e1 := Int.emod_add_mul_ediv ((Xh : Int) - oA) h
          have m1 := Int.emod_nonneg ((Xh : Int) - oA) (by omega : h ≠ 0)
          have m2 := Int.emod_lt_of_pos ((Xh : Int) - oA) hh
          obtain ⟨X1, hX1⟩ := Int.eq_ofNat_of_zero_le (a := oC + ((Xh : Int) - oA) / h) (by omega)
          have hX1n : (oC + ((Xh : Int) - oA) / h).toNat = X1 := by rw [hX1]; simp
          rw [hX1n, eC X1]
          have hX1W : X1 < W := by omega
          have hg := glyphR_dev W H t h v oA oC cy hh hv ch (((Xh : Int) - oA) / h) J (((Xh : Int) - oA) % h) q Xh Yh X1 Y1
            hXh hYh hX1W hY1 m1 m2 hq0 hq (by omega) eYh hX1.symm eY1
          constructor
          · rintro (h1 | h1)
            · exact Or.inl (hg.1 h1)
            · have := textR0_left W H rest (atSize t h v (oA + h * (charWidth t ch : Int) + t.spacing) cy) (by show 0 < h; exact hh) Xh Yh h1
              have e : (atSize t h v (oA + h * (charWidth t ch : Int) + t.spacing) cy).cx = oA + h * (charWidth t ch : Int) + t.spacing := rfl
              omega
          · rintro (h1 | h1)
            · exact Or.inl (hg.2 h1)
            · have := textR0_left W H rest (atSize t 1 1 (oC + 1 * (charWidth t ch : Int) + t.spacing) cy) (by show (0 : Int) < 1; omega) X1 Y1 h1
              have e : (atSize t 1 1 (oC + 1 * (charWidth t ch : Int) + t.spacing) cy).cx = oC + 1 * (charWidth t ch : Int) + t.spacing := rfl
              omega
        · -- right of the cell: the rest of the line
          rw [if_neg hx2]
          have hrec := ih (oA + h * (charWidth t ch : Int) + t.spacing) (oC + 1 * (charWidth t ch : Int) + t.spacing) (by omega) hfit'
          have e1 : oC + 1 * (charWidth t ch : Int) + (t.spacing : Int) = oC + (charWidth t ch : Int) + t.spacing := by omega
          have hnog : ¬ glyphR (geo0 W H) (atSize t h v oA cy) oA cy ch h v Xh Yh := by
            intro hg
            have := (glyphR_cell W H (atSize t h v oA cy) oA cy ch h v hh Xh Yh hg).2
            have ec : (charWidth (atSize t h v oA cy) ch : Int) * h = h * (charWidth t ch : Int) := Int.mul_comm _ _
            omega
          rw [← e1]
          cases hd : devSource h (↑t.spacing) (glyphWs t rest) (oA + h * ↑(charWidth t ch) + ↑t.spacing)
              (oC + 1 * ↑(charWidth t ch) + ↑t.spacing) ↑Xh with
          | none =>
            rw [hd] at hrec
            simp only [devR] at hrec ⊢
            constructor
            · rintro (h1 | h1)
              · exact hnog h1
              · exact hrec.1 h1
            · exact fun hf => hf.elim
          | some xc =>
            rw [hd] at hrec
            simp only [devR] at hrec ⊢
            have hge := devSource_ge h t.spacing hh hsp0 (glyphWs t rest)
              (by intro w hw; unfold glyphWs at hw; simp only [List.mem_map] at hw; obtain ⟨c, _, rfl⟩ := hw; omega) _ _ _ _ hd
            rw [eC xc.toNat]
            have hnoc : ¬ glyphR (geo0 W H) (atSize t 1 1 oC cy) oC cy ch 1 1 xc.toNat Y1 := by
              intro hg
              have := (glyphR_cell W H (atSize t 1 1 oC cy) oC cy ch 1 1 (by omega) xc.toNat Y1 hg).2
              have ec : (charWidth (atSize t 1 1 oC cy) ch : Int) = (charWidth t ch : Int) := rfl
              rw [ec] at this
              have : (xc.toNat : Int) = xc := Int.toNat_of_nonneg (by omega)
              omega
            constructor
            · rintro (h1 | h1)
              · exact (hnog h1).elim
              · exact Or.inr (hrec.1 h1)
            · rintro (h1 | h1)
              · exact (hnoc h1).elim
              · exact Or.inr (hrec.2 h1)

end RawPanelVerif.Mono
