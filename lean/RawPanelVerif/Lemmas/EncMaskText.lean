import RawPanelVerif.Lemmas.EncMaskState
import RawPanelVerif.Lemmas.EncSoundText
/-! C01 `enc_sound_masked`, text section: the `HWCt#` line of ANY non-default text record whose verbatim-printed fields
are within their Go types (`textWire`) is read back as the normal form of the masked record (`Spec.In.maskText`): icon,
font, size, padding, spacing and colour-index bits beyond the field widths are dropped, RGB wins over the index, a
negative formatting / pair mode is 0, a second line / value implies pair mode 1, a scale without positive type is none. -/
namespace RawPanelVerif.EncMask
open RawPanelVerif RawPanelVerif.Bytes RawPanelVerif.MsgIn RawPanelVerif.Model.In RawPanelVerif.InBits RawPanelVerif.ReadIn
open RawPanelVerif.Spec.In RawPanelVerif.TotalIn RawPanelVerif.EncSound

variable (O : Oracles)

/-! ## projections of the masked record -/

section proj
variable (t : Text) (hne : t ≠ {})
include hne

theorem mt_iv : (maskText t).integerValue = t.integerValue := by unfold maskText; rw [if_neg hne]
theorem mt_fmt : (maskText t).formatting = if t.formatting < 0 then 0 else t.formatting := by unfold maskText; rw [if_neg hne]
theorem mt_si : (maskText t).stateIcon = if iconsOn t then t.stateIcon % 4 else 0 := by unfold maskText; rw [if_neg hne]
theorem mt_mi : (maskText t).modifierIcon = if iconsOn t then t.modifierIcon % 8 else 0 := by unfold maskText; rw [if_neg hne]
theorem mt_title : (maskText t).title = t.title := by unfold maskText; rw [if_neg hne]
theorem mt_solid : (maskText t).solidHeaderBar = t.solidHeaderBar := by unfold maskText; rw [if_neg hne]
theorem mt_l1 : (maskText t).textline1 = t.textline1 := by unfold maskText; rw [if_neg hne]
theorem mt_l2 : (maskText t).textline2 = t.textline2 := by unfold maskText; rw [if_neg hne]
theorem mt_iv2 : (maskText t).integerValue2 = t.integerValue2 := by unfold maskText; rw [if_neg hne]
theorem mt_pm : (maskText t).pairMode =
    if (secondPresent t && decide (t.pairMode < 1)) = true then 1 else if t.pairMode < 0 then 0 else t.pairMode := by
  unfold maskText; rw [if_neg hne]
theorem mt_scale : (maskText t).scale = some (maskScale (t.scale.getD {})) := by unfold maskText; rw [if_neg hne]
theorem mt_sty : (maskText t).textStyling = t.textStyling.map maskStyle := by unfold maskText; rw [if_neg hne]
theorem mt_inv : (maskText t).inverted = t.inverted := by unfold maskText; rw [if_neg hne]
theorem mt_pix : (maskText t).pixelColor = t.pixelColor.map maskColor := by unfold maskText; rw [if_neg hne]
theorem mt_bg : (maskText t).backgroundColor = t.backgroundColor.map maskColor := by unfold maskText; rw [if_neg hne]

/-- a non-default record stays non-default -/
theorem maskText_ne : maskText t ≠ {} := by
  intro h
  have := mt_scale t hne
  rw [h] at this
  exact absurd this (by simp)
end proj

theorem maskText_eq_default_iff (t : Text) : maskText t = {} ↔ t = {} := by
  constructor
  · intro h
    by_cases hne : t = {}
    · exact hne
    · exact absurd h (maskText_ne t hne)
  · intro h; subst h; rfl

/-! ## colour fields -/

theorem readTextColor_encW (c : Option Color) : readTextColor (colorField c) = some (textColorOf (c.map maskColor)) := by
  unfold colorField
  cases c with
  | none => rfl
  | some c =>
    simp only [Option.map_some]
    obtain ⟨rgb, idx⟩ := c
    cases rgb with
    | some rgb =>
      obtain ⟨r, g, b⟩ := rgb
      have hci := colorInt_rgb { red := r, green := g, blue := b } idx
      have hlt : colorInt { rgb := some { red := r, green := g, blue := b }, index := idx } < 4294967296 := by rw [hci]; simp only []; omega
      have hpos : colorInt { rgb := some { red := r, green := g, blue := b }, index := idx } ≠ 0 := by rw [hci]; simp only []; omega
      unfold readTextColor
      rw [numField_utoa _ hlt]
      have hp := InBits.textColor_pack_rgb r g b idx
      generalize colorInt { rgb := some { red := r, green := g, blue := b }, index := idx } = n at *
      cases n with
      | zero => exact absurd rfl hpos
      | succ k =>
        simp only [hp]
        rfl
    | none =>
      cases idx with
      | none => rfl
      | some i =>
        have hci := colorInt_index i
        have hlt : (i % 32).toNat < 32 := by omega
        unfold readTextColor
        rw [hci, numField_utoa _ (by omega)]
        have hm : maskColor { rgb := none, index := some i } = { rgb := none, index := some (i % 32) } := rfl
        rw [hm]
        have hY : textColorOf (some { rgb := none, index := some (i % 32) }) =
            (match (i % 32).toNat with | 0 => none | k => some (.index k)) := by
          unfold textColorOf colorOf
          simp only []
          cases hk : (i % 32).toNat <;> rfl
        rw [hY]
        generalize (i % 32).toNat = k at hlt
        cases k with
        | zero => rfl
        | succ k =>
          have h1 : ¬ ((k + 1) / 64 % 2 = 1) := by omega
          have e : readColor (k + 1) = .index (k + 1) := by
            unfold readColor
            rw [if_neg h1]
            congr 1; omega
          simp only [e]

/-! ## the individual fields -/

theorem L_fmtW (t : Text) :
    (if textField0P t = [] ∧ (if t.formatting > 0 ∧ t.formatting ≠ 7 then t.formatting else 0) = 0 then 7
     else if t.formatting > 0 ∧ t.formatting ≠ 7 then t.formatting else 0) = (if t.formatting < 0 then 0 else t.formatting) := by
  by_cases hneg : t.formatting < 0
  · rw [if_pos hneg]
    have hn : ¬ textField0P t = [] := by
      intro e
      have := (isFmt3 _).mp ((f0_nil_iff t).mp e).1
      omega
    rw [if_neg (fun hc => hn hc.1), if_neg (fun hc => by omega)]
  · rw [if_neg hneg]
    exact L_fmt' t (by omega)

theorem L_valW (t : Text) (h : ((if t.formatting < 0 then 0 else t.formatting) == 7 || is1011 (if t.formatting < 0 then 0 else t.formatting)) = false) :
    f0val t = t.integerValue := by
  by_cases hneg : t.formatting < 0
  · unfold f0val
    have : isFmt t.formatting [7, 10, 11] = false := by
      cases hc : isFmt t.formatting [7, 10, 11]
      · rfl
      · have := (isFmt3 _).mp hc; omega
    simp [this]
  · rw [if_neg hneg] at h
    exact L_val t h

theorem L_fsW (t : Text) (h : is1011 (if t.formatting < 0 then 0 else t.formatting) = true) : (f0val t).toNat = ufsOf t := by
  by_cases hneg : t.formatting < 0
  · rw [if_pos hneg] at h
    exact absurd h (by decide)
  · rw [if_neg hneg] at h
    exact L_fs t h

theorem ufsOf_map (t : Text) : (((t.textStyling.map maskStyle).getD {}).unformattedFontSize) = ufsOf t := by
  unfold ufsOf
  cases t.textStyling <;> rfl

theorem pair_eq (t : Text) :
    (if (t.textline2 ≠ [] ∨ (if t.integerValue2 ≠ 0 then itoa t.integerValue2 else []) ≠ []) ∧
        (if t.pairMode > 0 then t.pairMode else 0) < 1 then (1 : Int) else if t.pairMode > 0 then t.pairMode else 0) =
    (if (secondPresent t && decide (t.pairMode < 1)) = true then 1 else if t.pairMode < 0 then 0 else t.pairMode) := by
  have h7 : ((if t.integerValue2 ≠ 0 then itoa t.integerValue2 else []) ≠ []) ↔ t.integerValue2 ≠ 0 := by
    constructor
    · intro h h0
      rw [if_neg (by simpa using h0)] at h
      exact h rfl
    · intro h
      rw [if_pos h]
      exact itoa_ne_nil _
  have hsp : secondPresent t = true ↔ (t.textline2 ≠ [] ∨ t.integerValue2 ≠ 0) := by
    unfold secondPresent
    simp
  by_cases hs : t.textline2 ≠ [] ∨ t.integerValue2 ≠ 0
  · have hs' : t.textline2 ≠ [] ∨ (if t.integerValue2 ≠ 0 then itoa t.integerValue2 else []) ≠ [] := by
      rcases hs with h | h
      · exact Or.inl h
      · exact Or.inr (h7.mpr h)
    have hb : secondPresent t = true := hsp.mpr hs
    by_cases hp : t.pairMode < 1
    · have : (if t.pairMode > 0 then t.pairMode else 0) < 1 := by split <;> omega
      rw [if_pos ⟨hs', this⟩, hb]
      simp [hp]
    · have h1 : ¬ ((if t.pairMode > 0 then t.pairMode else 0) < 1) := by split <;> omega
      rw [if_neg (fun hc => h1 hc.2), hb]
      have : decide (t.pairMode < 1) = false := by simp [hp]
      rw [this]
      simp only [Bool.and_false, Bool.false_eq_true, if_false]
      rw [if_pos (by omega), if_neg (by omega)]
  · have hs' : ¬ (t.textline2 ≠ [] ∨ (if t.integerValue2 ≠ 0 then itoa t.integerValue2 else []) ≠ []) := by
      intro hc
      rcases hc with h | h
      · exact hs (Or.inl h)
      · exact hs (Or.inr (h7.mp h))
    have hb : secondPresent t = false := by
      cases hc : secondPresent t
      · rfl
      · exact absurd (hsp.mp hc) hs
    rw [if_neg (fun hc => hs' hc.1), hb]
    simp only [Bool.false_and, Bool.false_eq_true, if_false]
    by_cases hp : t.pairMode > 0
    · rw [if_pos hp, if_neg (by omega)]
    · rw [if_neg hp]
      by_cases hn : t.pairMode < 0
      · rw [if_pos hn]
      · rw [if_neg hn]; omega

theorem scaleVal_typeW (t : Text) : scaleVal t (fun s => s.scaleType) = (maskScale (t.scale.getD {})).scaleType := by
  unfold scaleVal scaleOn maskScale
  cases t.scale with
  | none => rfl
  | some s =>
    simp only [Option.getD_some]
    by_cases hp : s.scaleType > 0
    · rw [if_pos hp, if_pos hp]
    · rw [if_neg hp, if_neg hp]

theorem scaleVal_otherW (t : Text) (f g : Scale → Int) (hfg : ∀ s : Scale, g { s with scaleType := 0 } = f s ∧ g s = f s)
    (h : (maskScale (t.scale.getD {})).scaleType ≠ 0) :
    scaleVal t f = g (maskScale (t.scale.getD {})) := by
  unfold scaleVal scaleOn
  cases hs : t.scale with
  | none =>
    rw [hs] at h
    exact absurd (by decide) h
  | some s =>
    rw [hs] at h
    simp only [Option.getD_some] at h ⊢
    unfold maskScale at h ⊢
    by_cases hp : s.scaleType > 0
    · rw [if_pos hp, if_pos hp]
      exact ((hfg s).2).symm
    · rw [if_neg hp] at h
      exact absurd rfl h

theorem faceOf_mask (f : Option Font) : ((f.map maskFont).getD {}).face.toNat = faceOf f := by
  cases f <;> rfl
theorem wOf_mask (f : Option Font) : ((f.map maskFont).getD {}).width = wOf f := by
  cases f <;> rfl
theorem hOf_mask (f : Option Font) : ((f.map maskFont).getD {}).height = hOf f := by
  cases f <;> rfl

theorem faceOf_lt (f : Option Font) : faceOf f < 8 := by
  unfold faceOf; cases f with
  | none => decide
  | some f => simp only []; omega
theorem wOf_lt (f : Option Font) : wOf f < 4 := by
  unfold wOf; cases f with
  | none => decide
  | some f => simp only []; omega
theorem hOf_lt (f : Option Font) : hOf f < 4 := by
  unfold hOf; cases f with
  | none => decide
  | some f => simp only []; omega

theorem styleVal_faceW (t : Text) :
    styleVal t fontFaceBits % 8 = (((t.textStyling.map maskStyle).getD {}).textFont.getD {}).face.toNat ∧
    styleVal t fontFaceBits / 8 % 8 = (((t.textStyling.map maskStyle).getD {}).titleFont.getD {}).face.toNat ∧
    decide (styleVal t fontFaceBits / 64 % 2 = 1) = ((t.textStyling.map maskStyle).getD {}).fixedWidth := by
  unfold styleVal
  cases t.textStyling with
  | none => exact ⟨rfl, rfl, rfl⟩
  | some ts =>
    simp only [Option.map_some, Option.getD_some, fontFaceBits_eq]
    show _ = ((ts.textFont.map maskFont).getD {}).face.toNat ∧ _ = ((ts.titleFont.map maskFont).getD {}).face.toNat ∧ _ = ts.fixedWidth
    rw [faceOf_mask, faceOf_mask]
    have k1 := faceOf_lt ts.textFont
    have k2 := faceOf_lt ts.titleFont
    generalize faceOf ts.textFont = a at k1
    generalize faceOf ts.titleFont = b at k2
    cases ts.fixedWidth <;> simp <;> omega

theorem styleVal_sizeW (t : Text) :
    styleVal t fontSizeBits % 4 = (((t.textStyling.map maskStyle).getD {}).textFont.getD {}).width ∧
    styleVal t fontSizeBits / 4 % 4 = (((t.textStyling.map maskStyle).getD {}).textFont.getD {}).height ∧
    styleVal t fontSizeBits / 16 % 4 = (((t.textStyling.map maskStyle).getD {}).titleFont.getD {}).width ∧
    styleVal t fontSizeBits / 64 % 4 = (((t.textStyling.map maskStyle).getD {}).titleFont.getD {}).height := by
  unfold styleVal
  cases t.textStyling with
  | none => exact ⟨rfl, rfl, rfl, rfl⟩
  | some ts =>
    simp only [Option.map_some, Option.getD_some, fontSizeBits_eq]
    show _ = ((ts.textFont.map maskFont).getD {}).width ∧ _ = ((ts.textFont.map maskFont).getD {}).height ∧
      _ = ((ts.titleFont.map maskFont).getD {}).width ∧ _ = ((ts.titleFont.map maskFont).getD {}).height
    rw [wOf_mask, hOf_mask, wOf_mask, hOf_mask]
    have k1 := wOf_lt ts.textFont
    have k2 := hOf_lt ts.textFont
    have k3 := wOf_lt ts.titleFont
    have k4 := hOf_lt ts.titleFont
    omega

theorem styleVal_advW (t : Text) :
    styleVal t advSettingsBits % 4 = ((t.textStyling.map maskStyle).getD {}).titleBarPadding ∧
    styleVal t advSettingsBits / 4 % 8 = ((t.textStyling.map maskStyle).getD {}).extraSpacing := by
  unfold styleVal
  cases t.textStyling with
  | none => exact ⟨rfl, rfl⟩
  | some ts =>
    simp only [Option.map_some, Option.getD_some, advSettingsBits_eq]
    show _ = ts.titleBarPadding % 4 ∧ _ = ts.extraSpacing % 8
    omega

theorem iconsOn_iff (t : Text) : iconsOn t = true ↔ (t.stateIcon > 0 ∨ t.modifierIcon > 0) := by
  unfold iconsOn; simp

/-! ## the text line -/

theorem readText_encW (t : Text) (hne : t ≠ {}) (hok : textWire t = true) :
    readText (implodeRTE 124 (textField0P t :: textFieldsTail t)) = some (normText (textOf (maskText t))) := by
  unfold textWire at hok
  simp only [Bool.and_eq_true] at hok
  obtain ⟨⟨⟨⟨⟨⟨⟨⟨hiv, hfmt⟩, hti⟩, hl1⟩, hl2⟩, hiv2⟩, hpm⟩, hsc⟩, hsty⟩ := hok
  have hf : ∀ i, fld (splitOn 124 (implodeRTE 124 (textField0P t :: textFieldsTail t))) i = (textField0P t :: textFieldsTail t).getD i [] :=
    fun i => fields_roundtrip 124 _ (fields_nobar t hti hl1 hl2) i
  unfold readText
  simp only [hf]
  simp only [textFieldsTail, List.getD_cons_succ, List.getD_cons_zero]
  have rfmt := i32ok_rangeW _ hfmt
  have rpm := i32ok_rangeW _ hpm
  have riv2 := i32ok_rangeW _ hiv2
  rw [f0_parse t hiv hsty]
  have e1 : intField? (if t.formatting > 0 ∧ t.formatting ≠ 7 then itoa t.formatting else []) =
      some (if t.formatting > 0 ∧ t.formatting ≠ 7 then t.formatting else 0) := by
    split
    · exact intField_itoa _ (by omega)
    · rfl
  have hicon : iconInt t = (t.stateIcon % 4).toNat + 8 * (t.modifierIcon % 8).toNat := iconInt_eq t
  have e2 : numField? (if t.stateIcon > 0 ∨ t.modifierIcon > 0 then posField (iconInt t) else []) =
      some (if t.stateIcon > 0 ∨ t.modifierIcon > 0 then iconInt t else 0) := by
    split
    · exact numField_posField _ (by rw [hicon]; omega)
    · rfl
  have e4 : numField? (if (!t.solidHeaderBar) = true then asc "1" else []) = some (if t.solidHeaderBar then 0 else 1) := by
    cases t.solidHeaderBar <;> rfl
  have e7 := intField_ifne t.integerValue2 (by omega)
  have e8 : intField? (if t.pairMode > 0 then itoa t.pairMode else []) = some (if t.pairMode > 0 then t.pairMode else 0) := by
    split
    · exact intField_itoa _ (by omega)
    · rfl
  have hscr : ∀ s, t.scale = some s → (-2147483648 ≤ s.scaleType ∧ s.scaleType ≤ 2147483647) ∧ (-2147483648 ≤ s.rangeLow ∧ s.rangeLow ≤ 2147483647) ∧
      (-2147483648 ≤ s.rangeHigh ∧ s.rangeHigh ≤ 2147483647) ∧ (-2147483648 ≤ s.limitLow ∧ s.limitLow ≤ 2147483647) ∧
      (-2147483648 ≤ s.limitHigh ∧ s.limitHigh ≤ 2147483647) := by
    intro s hs
    rw [hs] at hsc
    simp only [Bool.and_eq_true] at hsc
    exact ⟨i32ok_rangeW _ hsc.1.1.1.1, i32ok_rangeW _ hsc.1.1.1.2, i32ok_rangeW _ hsc.1.1.2, i32ok_rangeW _ hsc.1.2, i32ok_rangeW _ hsc.2⟩
  have e9 := scale_parse t (fun s => s.scaleType) (fun s hs => by have := hscr s hs; omega)
  have e10 := scale_parse t (fun s => s.rangeLow) (fun s hs => by have := hscr s hs; omega)
  have e11 := scale_parse t (fun s => s.rangeHigh) (fun s hs => by have := hscr s hs; omega)
  have e12 := scale_parse t (fun s => s.limitLow) (fun s hs => by have := hscr s hs; omega)
  have e13 := scale_parse t (fun s => s.limitHigh) (fun s hs => by have := hscr s hs; omega)
  have hstr : ∀ ts, t.textStyling = some ts →
      fontFaceBits ts < 128 ∧ fontSizeBits ts < 256 ∧ advSettingsBits ts < 32 := by
    intro ts _
    rw [fontFaceBits_eq, fontSizeBits_eq, advSettingsBits_eq]
    have k1 := faceOf_lt ts.textFont
    have k2 := faceOf_lt ts.titleFont
    have k3 := wOf_lt ts.textFont
    have k4 := hOf_lt ts.textFont
    have k5 := wOf_lt ts.titleFont
    have k6 := hOf_lt ts.titleFont
    refine ⟨?_, ?_, ?_⟩
    · cases ts.fixedWidth <;> simp <;> omega
    · omega
    · omega
  have e15 := style_parse t fontFaceBits (fun ts h => by have := hstr ts h; omega)
  have e16 := style_parse t fontSizeBits (fun ts h => by have := hstr ts h; omega)
  have e17 := style_parse t advSettingsBits (fun ts h => by have := hstr ts h; omega)
  have e18 : numField? (if t.inverted = true then asc "1" else []) = some (if t.inverted then 1 else 0) := by
    cases t.inverted <;> rfl
  rw [e1, e2, e4, e7, e8, e9, e10, e11, e12, e13, e15, e16, e17, e18, readTextColor_encW, readTextColor_encW]
  simp only [bind, Option.bind, pure]
  congr 1
  have hface := styleVal_faceW t
  have hsize := styleVal_sizeW t
  have hadv := styleVal_advW t
  apply normText_eq_of
  all_goals simp only []
  case hfmt => show _ = (maskText t).formatting; rw [mt_fmt t hne]; exact L_fmtW t
  case hval =>
    show ((maskText t).formatting == 7 || is1011 (maskText t).formatting) = false → _ = (maskText t).integerValue
    rw [mt_fmt t hne, mt_iv t hne]
    exact fun h => L_valW t h
  case hfs =>
    show is1011 (maskText t).formatting = true → _ = (((maskText t).textStyling).getD {}).unformattedFontSize
    rw [mt_fmt t hne, mt_sty t hne, ufsOf_map]
    exact fun h => L_fsW t h
  case hsolid => intro _ _; show _ = (maskText t).solidHeaderBar; rw [mt_solid t hne]; cases t.solidHeaderBar <;> rfl
  case hpair =>
    intro _
    show _ = (maskText t).pairMode
    rw [mt_pm t hne]
    exact pair_eq t
  case hst => show _ = (((maskText t).scale).getD {}).scaleType; rw [mt_scale t hne]; exact scaleVal_typeW t
  case hrl =>
    show (((maskText t).scale).getD {}).scaleType ≠ 0 → _ = (((maskText t).scale).getD {}).rangeLow
    rw [mt_scale t hne]
    exact fun h => scaleVal_otherW t _ (fun s => s.rangeLow) (fun s => ⟨rfl, rfl⟩) h
  case hrh =>
    show (((maskText t).scale).getD {}).scaleType ≠ 0 → _ = (((maskText t).scale).getD {}).rangeHigh
    rw [mt_scale t hne]
    exact fun h => scaleVal_otherW t _ (fun s => s.rangeHigh) (fun s => ⟨rfl, rfl⟩) h
  case hll =>
    show (((maskText t).scale).getD {}).scaleType ≠ 0 → _ = (((maskText t).scale).getD {}).limitLow
    rw [mt_scale t hne]
    exact fun h => scaleVal_otherW t _ (fun s => s.limitLow) (fun s => ⟨rfl, rfl⟩) h
  case hlh =>
    show (((maskText t).scale).getD {}).scaleType ≠ 0 → _ = (((maskText t).scale).getD {}).limitHigh
    rw [mt_scale t hne]
    exact fun h => scaleVal_otherW t _ (fun s => s.limitHigh) (fun s => ⟨rfl, rfl⟩) h
  case h1 =>
    show _ = (maskText t).stateIcon.toNat
    rw [mt_si t hne]
    by_cases hc : t.stateIcon > 0 ∨ t.modifierIcon > 0
    · rw [if_pos hc, (iconsOn_iff t).mpr hc, hicon]
      simp only [if_true]
      omega
    · have : iconsOn t = false := by
        cases hx : iconsOn t
        · rfl
        · exact absurd ((iconsOn_iff t).mp hx) hc
      rw [if_neg hc, this]
      rfl
  case h2 =>
    show _ = (maskText t).modifierIcon.toNat
    rw [mt_mi t hne]
    by_cases hc : t.stateIcon > 0 ∨ t.modifierIcon > 0
    · rw [if_pos hc, (iconsOn_iff t).mpr hc, hicon]
      simp only [if_true]
      omega
    · have : iconsOn t = false := by
        cases hx : iconsOn t
        · rfl
        · exact absurd ((iconsOn_iff t).mp hx) hc
      rw [if_neg hc, this]
      rfl
  case h3 => show _ = (maskText t).title; rw [mt_title t hne]
  case h4 => show _ = (maskText t).textline1; rw [mt_l1 t hne]
  case h5 => show _ = (maskText t).textline2; rw [mt_l2 t hne]
  case h6 => show _ = (maskText t).integerValue2; rw [mt_iv2 t hne]
  case h7 => show _ = ((((maskText t).textStyling).getD {}).textFont.getD {}).face.toNat; rw [mt_sty t hne]; exact hface.1
  case h8 => show _ = ((((maskText t).textStyling).getD {}).titleFont.getD {}).face.toNat; rw [mt_sty t hne]; exact hface.2.1
  case h9 => show _ = (((maskText t).textStyling).getD {}).fixedWidth; rw [mt_sty t hne]; exact hface.2.2
  case h10 => show _ = ((((maskText t).textStyling).getD {}).textFont.getD {}).width; rw [mt_sty t hne]; exact hsize.1
  case h11 => show _ = ((((maskText t).textStyling).getD {}).textFont.getD {}).height; rw [mt_sty t hne]; exact hsize.2.1
  case h12 => show _ = ((((maskText t).textStyling).getD {}).titleFont.getD {}).width; rw [mt_sty t hne]; exact hsize.2.2.1
  case h13 => show _ = ((((maskText t).textStyling).getD {}).titleFont.getD {}).height; rw [mt_sty t hne]; exact hsize.2.2.2
  case h14 => show _ = (((maskText t).textStyling).getD {}).titleBarPadding; rw [mt_sty t hne]; exact hadv.1
  case h15 => show _ = (((maskText t).textStyling).getD {}).extraSpacing; rw [mt_sty t hne]; exact hadv.2
  case h16 => show _ = (maskText t).inverted; rw [mt_inv t hne]; cases t.inverted <;> rfl
  case h17 => show _ = textColorOf (maskText t).pixelColor; rw [mt_pix t hne]
  case h18 => show _ = textColorOf (maskText t).backgroundColor; rw [mt_bg t hne]

theorem text_readsW (id : Nat) (hid : id < 4294967296) (t : Option Text)
    (h : (match t with | some t => t = {} || textWire t | none => true) = true) :
    Reads O (textLinesP id t)
      (opt (t.map maskText) (fun t => if t = {} then [] else [Effect.setText id (normText (textOf t))])) := by
  cases t with
  | none => exact Reads.nil O
  | some t =>
    simp only [] at h
    unfold textLinesP opt
    simp only [Option.map_some]
    by_cases he : t = {}
    · have : textIsEmpty t = true := by unfold textIsEmpty; simp [he]
      rw [if_pos this, if_pos ((maskText_eq_default_iff t).mpr he)]
      exact Reads.nil O
    · have hne : ¬ textIsEmpty t = true := by unfold textIsEmpty; simpa using he
      rw [if_neg hne, if_neg (maskText_ne t he)]
      simp only [he, decide_false, Bool.false_or] at h
      refine Reads.single ?_
      rw [read_hash O (asc "HWCt") (asc "HWCt#") id _ (by decide) (by decide) (by decide) (by decide)]
      unfold readHash
      rw [if_neg (by decide), if_neg (by decide), if_neg (by decide), if_pos rfl, readText_encW t he h]
      simp only []
      rw [forIds_utoa id hid]

end RawPanelVerif.EncMask
