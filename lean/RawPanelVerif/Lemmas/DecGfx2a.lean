import RawPanelVerif.Lemmas.DecGfx1
/-! C02 `dec_sound`, graphics lines, part 2a: the three shapes of a graphics line accepted by `regex_gfx`
(`matchGfx_A`, `matchGfx_B1`, `matchGfx_B2`); canonical base64 decodes without error. -/
namespace RawPanelVerif.DecGfx
open RawPanelVerif RawPanelVerif.Bytes RawPanelVerif.MsgIn RawPanelVerif.Model.In RawPanelVerif.Spec.In
open RawPanelVerif.DecSound RawPanelVerif.DecShape RawPanelVerif.ReadIn RawPanelVerif.EncSound

theorem encChar_same : ∀ n, n < 64 → B64In.encChar n = B64.encChar n := by decide

theorem encode_same (b : Bytes) : B64In.encode b = B64.encode b := by
  fun_induction B64In.encode b with
  | case1 => rfl
  | case2 a =>
    have ha := a.toNat_lt
    simp only [B64.encode, B64.pad, encChar_same (a.toNat / 4) (by omega), encChar_same (a.toNat % 4 * 16) (by omega)]
  | case3 a b =>
    have ha := a.toNat_lt; have hb := b.toNat_lt
    simp only [B64.encode, B64.pad, encChar_same (a.toNat / 4) (by omega),
      encChar_same (a.toNat % 4 * 16 + b.toNat / 16) (by omega), encChar_same (b.toNat % 16 * 4) (by omega)]
  | case4 a b c r ih =>
    have ha := a.toNat_lt; have hb := b.toNat_lt; have hc := c.toNat_lt
    simp only [B64.encode, encChar_same (a.toNat / 4) (by omega),
      encChar_same (a.toNat % 4 * 16 + b.toNat / 16) (by omega), encChar_same (b.toNat % 16 * 4 + c.toNat / 64) (by omega),
      encChar_same (c.toNat % 64) (by omega), ih]

theorem canonical_ok (d : Bytes) (h : canonicalB64 d = true) : (B64.decodeGo d).2 = true := by
  unfold canonicalB64 at h
  have e : B64In.encode (B64In.decode d) = d := by simpa using h
  rw [← e, encode_same, B64.decode_encode]

theorem digits1_append (a : Bytes) (c : UInt8) (r : Bytes) (hne : a ≠ []) (ha : a.all isDigit = true) (hc : isDigit c = false) :
    digits1 (a ++ c :: r) = some (a, c :: r) := by
  unfold digits1
  rw [spanP_append isDigit a c r ha hc]
  simp only [hne, if_false]

theorem matchGfx_A (pre : List Bytes) (kw : Bytes) (post : List Bytes) (ids idx d : Bytes)
    (hk : kwGfx = pre ++ kw :: post) (hpre : pre.all (fun p => mismatch p kw) = true)
    (hne : ids ≠ []) (hids : ids.all isDigitComma = true)
    (i1 : idx ≠ []) (i2 : idx.all isDigit = true) (hlf : noLF d = true) :
    matchGfx (kw ++ ids ++ 61 :: (idx ++ 58 :: d)) =
      some [kw ++ ids ++ 61 :: (idx ++ 58 :: d), kw, ids, idx, [], [], [], [], [], [], [], d] := by
  unfold matchGfx
  rw [hk, List.append_assoc, firstKw_hit pre kw post _ hpre]
  simp only []
  rw [spanP_append isDigitComma ids 61 _ hids (by decide)]
  simp only [hne, if_false]
  rw [digits1_append idx 58 d i1 i2 (by decide)]
  simp only [hlf, if_true]

theorem matchGfx_B1 (pre : List Bytes) (kw : Bytes) (post : List Bytes) (ids idx mx w h d : Bytes)
    (hk : kwGfx = pre ++ kw :: post) (hpre : pre.all (fun p => mismatch p kw) = true)
    (hne : ids ≠ []) (hids : ids.all isDigitComma = true)
    (i1 : idx ≠ []) (i2 : idx.all isDigit = true) (m1 : mx ≠ []) (m2 : mx.all isDigit = true)
    (w1 : w ≠ []) (w2 : w.all isDigit = true) (h1 : h ≠ []) (h2 : h.all isDigit = true) (hlf : noLF d = true) :
    matchGfx (kw ++ ids ++ 61 :: (idx ++ 47 :: (mx ++ 44 :: (w ++ 120 :: (h ++ 58 :: d))))) =
      some [kw ++ ids ++ 61 :: (idx ++ 47 :: (mx ++ 44 :: (w ++ 120 :: (h ++ 58 :: d)))), kw, ids, idx,
        47 :: mx ++ 44 :: w ++ 120 :: h, mx, w, h, [], [], [], d] := by
  unfold matchGfx
  rw [hk, List.append_assoc, firstKw_hit pre kw post _ hpre]
  simp only []
  rw [spanP_append isDigitComma ids 61 _ hids (by decide)]
  simp only [hne, if_false]
  rw [digits1_append idx 47 _ i1 i2 (by decide)]
  simp only []
  rw [digits1_append mx 44 _ m1 m2 (by decide)]
  simp only []
  rw [digits1_append w 120 _ w1 w2 (by decide)]
  simp only []
  rw [digits1_append h 58 _ h1 h2 (by decide)]
  simp only [hlf, if_true]

theorem matchGfx_B2 (pre : List Bytes) (kw : Bytes) (post : List Bytes) (ids idx mx w h x y d : Bytes)
    (hk : kwGfx = pre ++ kw :: post) (hpre : pre.all (fun p => mismatch p kw) = true)
    (hne : ids ≠ []) (hids : ids.all isDigitComma = true)
    (i1 : idx ≠ []) (i2 : idx.all isDigit = true) (m1 : mx ≠ []) (m2 : mx.all isDigit = true)
    (w1 : w ≠ []) (w2 : w.all isDigit = true) (h1 : h ≠ []) (h2 : h.all isDigit = true)
    (x1 : x ≠ []) (x2 : x.all isDigit = true) (y1 : y ≠ []) (y2 : y.all isDigit = true) (hlf : noLF d = true) :
    matchGfx (kw ++ ids ++ 61 :: (idx ++ 47 :: (mx ++ 44 :: (w ++ 120 :: (h ++ 44 :: (x ++ 44 :: (y ++ 58 :: d))))))) =
      some [kw ++ ids ++ 61 :: (idx ++ 47 :: (mx ++ 44 :: (w ++ 120 :: (h ++ 44 :: (x ++ 44 :: (y ++ 58 :: d)))))), kw, ids, idx,
        47 :: mx ++ 44 :: w ++ 120 :: h ++ 44 :: x ++ 44 :: y, mx, w, h, 44 :: x ++ 44 :: y, x, y, d] := by
  unfold matchGfx
  rw [hk, List.append_assoc, firstKw_hit pre kw post _ hpre]
  simp only []
  rw [spanP_append isDigitComma ids 61 _ hids (by decide)]
  simp only [hne, if_false]
  rw [digits1_append idx 47 _ i1 i2 (by decide)]
  simp only []
  rw [digits1_append mx 44 _ m1 m2 (by decide)]
  simp only []
  rw [digits1_append w 120 _ w1 w2 (by decide)]
  simp only []
  rw [digits1_append h 44 _ h1 h2 (by decide)]
  simp only []
  rw [digits1_append x 44 _ x1 x2 (by decide)]
  simp only []
  rw [digits1_append y 58 _ y1 y2 (by decide)]
  simp only [hlf, if_true]

end RawPanelVerif.DecGfx
