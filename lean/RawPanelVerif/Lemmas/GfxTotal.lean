import RawPanelVerif.Model.GfxE
import RawPanelVerif.Lemmas.TotalIn
/-! C06, streaming reader: the panic-carrying `Parse` never panics and never returns a nil message. -/
namespace RawPanelVerif.Gfx
open RawPanelVerif RawPanelVerif.MsgIn RawPanelVerif.Model.In RawPanelVerif.TotalIn

theorem intakeE_ok (a0 a1 a2 a3 a4 a5 a6 a7 a8 a9 a10 a11 : Bytes) :
    ∃ r, Stream.intakeE [a0, a1, a2, a3, a4, a5, a6, a7, a8, a9, a10, a11] = .ok r := by
  simp only [Stream.intakeE, sub, bind, Except.bind, pure, Except.pure, List.getElem?_cons_succ,
    List.getElem?_cons_zero]
  split <;> exact ⟨_, rfl⟩

theorem acceptE_ok (O : Oracles) (s : RState) (ty list : Bytes) (idx : Int) (line : Bytes) :
    ∃ r, Stream.acceptE O s ty list idx line = .ok r ∧ ∀ m ∈ r.2, m.isSome = true := by
  unfold Stream.acceptE
  split
  · split
    · split
      · simp only []
        split
        · obtain ⟨ms, hms⟩ := decIn_total O (s.buf.getD [] ++ [line])
          simp only [bind, Except.bind, pure, Except.pure, Option.getD_some, hms]
          exact ⟨_, rfl, decIn_no_nil_message O _ ms hms⟩
        · exact ⟨_, rfl, fun m hm => by simp at hm⟩
      · exact ⟨_, rfl, fun m hm => by simp at hm⟩
    · exact ⟨_, rfl, fun m hm => by simp at hm⟩
  · exact ⟨_, rfl, fun m hm => by simp at hm⟩

/-- **`Parse` never panics and never returns a nil message**: for every reader state (any field values, e.g. restored
from any JSON document), every input string and any `encoding/json` results -/
theorem parseE_total (O : Oracles) (s : RState) (l : Bytes) :
    ∃ r, Stream.parseE O s l = .ok r ∧ ∀ m ∈ r.2, m.isSome = true := by
  unfold Stream.parseE
  simp only []
  cases hm : Model.In.matchGfx (trimSpace l) with
  | none =>
    obtain ⟨ms, hms⟩ := decIn_total O [trimSpace l]
    simp only [bind, Except.bind, pure, Except.pure, hms]
    exact ⟨_, rfl, decIn_no_nil_message O _ ms hms⟩
  | some m =>
    obtain ⟨a0, a1, a2, a3, a4, a5, a6, a7, a8, a9, a10, a11, rfl⟩ := matchGfx_len _ _ hm
    have hsub : ∀ i b, [a0, a1, a2, a3, a4, a5, a6, a7, a8, a9, a10, a11][i]? = some b →
        sub [a0, a1, a2, a3, a4, a5, a6, a7, a8, a9, a10, a11] i = .ok b := by
      intro i b h; simp only [sub, h]
    simp only [bind, Except.bind, pure, Except.pure, hsub 3 a3 rfl, hsub 1 a1 rfl, hsub 2 a2 rfl]
    by_cases h0 : Bytes.atoiV a3 = 0
    · obtain ⟨v, hv⟩ := intakeE_ok a0 a1 a2 a3 a4 a5 a6 a7 a8 a9 a10 a11
      rw [if_pos h0, hv]
      exact acceptE_ok O v a1 a2 _ _
    · rw [if_neg h0]
      exact acceptE_ok O s.initRule a1 a2 _ _

/-- a whole session of any length, from any reader state: no panic, no nil message -/
theorem runE_total (O : Oracles) : ∀ (ls : List Bytes) (s : RState),
    ∃ r, Stream.runE O s ls = .ok r ∧ r.2.length = ls.length ∧ ∀ ms ∈ r.2, ∀ m ∈ ms, m.isSome = true := by
  intro ls
  induction ls with
  | nil => intro s; exact ⟨_, rfl, rfl, fun ms h => by simp at h⟩
  | cons l ls ih =>
    intro s
    obtain ⟨r, hr, hn⟩ := parseE_total O s l
    obtain ⟨rest, hrest, hlen, hnn⟩ := ih r.1
    refine ⟨(rest.1, r.2 :: rest.2), ?_, by simp [hlen], ?_⟩
    · simp only [Stream.runE, hr, hrest]
    · intro ms hms
      simp only [List.mem_cons] at hms
      rcases hms with rfl | hms
      · exact hn
      · exact hnn ms hms

end RawPanelVerif.Gfx
