import RawPanelVerif.Model.Net
/-! Invariants of the timed read-loop LTS (`Net.step`): when a deadline is armed, and how far it can lie ahead. -/
namespace RawPanelVerif.Net

/-- in which read-loop states a read deadline is armed -/
def armed (cfg : Cfg) : RState → Bool
  | .waitHdr [] => false
  | .waitHdr (_ :: _) => cfg.armInHeader
  | .waitPayload _ _ => true
  | .stopped _ => false

structure Inv (cfg : Cfg) (s : CState) : Prop where
  armedIff : s.dl.isSome = armed cfg s.r
  bound : ∀ d, s.dl = some d → d ≤ s.last + frameTimeout
  lastLe : s.last ≤ s.clock
  startLe : s.fstart ≤ s.last
  startBound : ∀ d, s.dl = some d → s.fstart + frameTimeout ≤ d

theorem inv_init (cfg : Cfg) (t0 : Nat) : Inv cfg (CState.init t0) :=
  ⟨by simp [CState.init, RState.init, armed], by simp [CState.init], by simp [CState.init],
   by simp [CState.init], by simp [CState.init]⟩

theorem stepByte_hdr_short (rg : Bytes) (b : UInt8) (h : (b :: rg).length < 4) :
    stepByte (.waitHdr rg) b = (.waitHdr (b :: rg), []) := by
  simp only [stepByte, h, if_true]

theorem stepByte_hdr_zero (rg : Bytes) (b : UInt8) (h : ¬ (b :: rg).length < 4)
    (hl : le32 (b :: rg).reverse < limit) (h0 : le32 (b :: rg).reverse = 0) :
    stepByte (.waitHdr rg) b = (.waitHdr [], [.alloc 0, .deliver []]) := by
  have hl0 : 0 < limit := by rw [h0] at hl; exact hl
  simp only [stepByte, h, h0, hl0, if_true, if_false]

theorem stepByte_hdr_pay (rg : Bytes) (b : UInt8) (h : ¬ (b :: rg).length < 4)
    (hl : le32 (b :: rg).reverse < limit) (h0 : ¬ le32 (b :: rg).reverse = 0) :
    stepByte (.waitHdr rg) b = (.waitPayload (le32 (b :: rg).reverse) [], [.alloc (le32 (b :: rg).reverse)]) := by
  simp only [stepByte, h, hl, h0, if_true, if_false]

theorem stepByte_hdr_over (rg : Bytes) (b : UInt8) (h : ¬ (b :: rg).length < 4)
    (hl : ¬ le32 (b :: rg).reverse < limit) :
    stepByte (.waitHdr rg) b = (.stopped (.overLimit (le32 (b :: rg).reverse)), []) := by
  simp only [stepByte, h, hl, if_false]

theorem stepByte_pay_last (need : Nat) (rg : Bytes) (b : UInt8) (h : need ≤ 1) :
    stepByte (.waitPayload need rg) b = (.waitHdr [], [.deliver (b :: rg).reverse]) := by
  simp only [stepByte, h, if_true]

theorem stepByte_pay_more (need : Nat) (rg : Bytes) (b : UInt8) (h : ¬ need ≤ 1) :
    stepByte (.waitPayload need rg) b = (.waitPayload (need - 1) (b :: rg), []) := by
  simp only [stepByte, h, if_false]

theorem inv_tstep (cfg : Cfg) (s : CState) (now : Nat) (b : UInt8) (h : Inv cfg s) (hn : s.clock ≤ now) :
    Inv cfg (tstep cfg now s b).1 := by
  obtain ⟨h1, h2, h3, h4s, h5⟩ := h
  obtain ⟨r, dl, last, clock, fstart⟩ := s
  simp only at h1 h2 h3 h4s h5 hn
  have hT : ∀ d, dl = some d → d ≤ now + frameTimeout := fun d hd => by have := h2 d hd; omega
  have hF : (if r = RState.waitHdr [] then now else fstart) ≤ now := by split <;> omega
  cases r with
  | waitHdr rg =>
    by_cases h4 : (b :: rg).length < 4
    · simp only [tstep, stepByte_hdr_short rg b h4]
      cases rg with
      | nil =>
        refine ⟨?_, ?_, ?_, ?_, ?_⟩ <;> simp [nextDl, armed] <;> (cases cfg.armInHeader <;> simp)
      | cons x rg =>
        simp only [armed] at h1
        exact ⟨by simp [nextDl, armed, h1], by simpa [nextDl] using hT, by simp, by simp; omega,
               by simpa [nextDl] using h5⟩
    · by_cases hl : le32 (b :: rg).reverse < limit
      · by_cases h0 : le32 (b :: rg).reverse = 0
        · simp only [tstep, stepByte_hdr_zero rg b h4 hl h0]
          refine ⟨?_, ?_, ?_, hF, ?_⟩ <;> simp [nextDl, armed]
        · simp only [tstep, stepByte_hdr_pay rg b h4 hl h0]
          refine ⟨?_, ?_, ?_, hF, ?_⟩ <;> simp [nextDl, armed]
          split <;> omega
      · simp only [tstep, stepByte_hdr_over rg b h4 hl]
        refine ⟨?_, ?_, ?_, hF, ?_⟩ <;> simp [nextDl, armed]
  | waitPayload need rg =>
    simp only [armed] at h1
    by_cases hn1 : need ≤ 1
    · simp only [tstep, stepByte_pay_last need rg b hn1]
      refine ⟨?_, ?_, ?_, hF, ?_⟩ <;> simp [nextDl, armed]
    · simp only [tstep, stepByte_pay_more need rg b hn1]
      exact ⟨by simp [nextDl, armed, h1], by simpa [nextDl] using hT, by simp, by simp; omega,
             by simpa [nextDl] using h5⟩
  | stopped w =>
    simp only [armed] at h1
    refine ⟨?_, ?_, ?_, hF, ?_⟩ <;> simp [tstep, stepByte, nextDl, armed]

theorem inv_step (cfg : Cfg) (s s' : CState) (l : Lbl) (e : List Eff) (h : Inv cfg s)
    (hs : step cfg s l = some (s', e)) : Inv cfg s' := by
  cases l with
  | arrive now b =>
    simp only [step] at hs
    by_cases hc : s.clock ≤ now
    · simp only [hc, if_true] at hs
      by_cases hl : s.r.live = true
      · simp only [hl, if_true, Option.some.injEq] at hs
        have := inv_tstep cfg s now b h hc
        rw [hs] at this; exact this
      · simp only [hl] at hs
        simp only [Bool.false_eq_true, if_false, Option.some.injEq, Prod.mk.injEq] at hs
        obtain ⟨hs, _⟩ := hs
        subst hs
        exact ⟨h.armedIff, h.bound, Nat.le_trans h.lastLe hc, h.startLe, h.startBound⟩
    · simp [hc] at hs
  | expire now =>
    simp only [step] at hs
    split at hs
    · rename_i d hd
      split at hs
      · rename_i hg
        simp only [Option.some.injEq, Prod.mk.injEq] at hs
        obtain ⟨hs, _⟩ := hs
        subst hs
        exact ⟨by simp [armed], by simp, Nat.le_trans h.lastLe hg.1, h.startLe, by simp⟩
      · simp at hs
    · simp at hs
  | peerClose now =>
    simp only [step] at hs
    split at hs
    · rename_i hg
      simp only [Option.some.injEq, Prod.mk.injEq] at hs
      obtain ⟨hs, _⟩ := hs
      subst hs
      exact ⟨by simp [armed], by simp, Nat.le_trans h.lastLe hg.1, h.startLe, by simp⟩
    · simp at hs

theorem inv_runL (cfg : Cfg) (ls : List Lbl) : ∀ (s s' : CState) (e : List Eff), Inv cfg s →
    runL cfg s ls = some (s', e) → Inv cfg s' := by
  induction ls with
  | nil => intro s s' e h hr; simp [runL] at hr; rw [← hr.1]; exact h
  | cons l ls ih =>
    intro s s' e h hr
    simp only [runL] at hr
    split at hr
    · simp at hr
    · rename_i r1 h1
      split at hr
      · simp at hr
      · rename_i r2 h2
        simp only [Option.some.injEq, Prod.mk.injEq] at hr
        have hi := inv_step cfg s r1.1 l r1.2 h (by simpa using h1)
        have := ih r1.1 r2.1 r2.2 hi (by simpa using h2)
        rw [← hr.1]; exact this

/-- states reachable from a fresh connection by any sequence of arrivals, expiries and a close -/
def Reachable (cfg : Cfg) (s : CState) : Prop :=
  ∃ t0 ls e, runL cfg (CState.init t0) ls = some (s, e)

theorem inv_reachable (cfg : Cfg) (s : CState) (h : Reachable cfg s) : Inv cfg s := by
  obtain ⟨t0, ls, e, hr⟩ := h
  exact inv_runL cfg ls _ _ _ (inv_init cfg t0) hr

end RawPanelVerif.Net
