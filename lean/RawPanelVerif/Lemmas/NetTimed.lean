import RawPanelVerif.Model.Net
/-! Invariants of the timed read-loop LTS (`Net.step`): when a read deadline is armed, how far it can lie ahead, that
it lies in the future (urgency), that the write deadline is never touched, and who sets the `exit` flag. -/
namespace RawPanelVerif.Net

theorem frameTimeout_pos : 0 < frameTimeout := by decide

/-- the class of configurations the invariants are proved for: the loop top clears the read deadline, the payload
read arms it, the header rest arms it (repaired) or does nothing (pinned); lines 88 / 117 are arbitrary -/
structure Coded (cfg : Cfg) : Prop where
  loopTop : cfg.loopTop = .clear .read
  payload : cfg.payload = .arm .read frameTimeout
  hdrRest : cfg.hdrRest = .arm .read frameTimeout ∨ cfg.hdrRest = .skip
  afterPayload : cfg.afterPayload = .skip
  zeroShortcut : cfg.zeroShortcut = false

theorem coded_repaired : Coded repaired := ⟨rfl, rfl, Or.inl rfl, rfl, rfl⟩
theorem coded_pinned : Coded pinned := ⟨rfl, rfl, Or.inr rfl, rfl, rfl⟩

def Cfg.armsHeader (cfg : Cfg) : Bool :=
  match cfg.hdrRest with
  | .arm _ _ => true
  | _ => false

/-- in which read-loop states a read deadline is armed -/
def armed (cfg : Cfg) : RState → Bool
  | .waitHdr [] => false
  | .waitHdr (_ :: _) => cfg.armsHeader
  | .waitPayload _ _ => true
  | .stopped _ => false

/-! ### `stepByteT` is `stepByte` plus deadlines -/

theorem stepByteT_state (cfg : Cfg) (now : Nat) (r : RState) (b : UInt8) (dl : Deadlines) :
    (stepByteT cfg now r b dl).1 = (stepByte r b).1 ∧ (stepByteT cfg now r b dl).2.2 = (stepByte r b).2 := by
  cases r with
  | waitHdr rg =>
    simp only [stepByteT, stepByte]
    split
    · exact ⟨rfl, rfl⟩
    · split
      · split
        · split <;> exact ⟨rfl, rfl⟩
        · exact ⟨rfl, rfl⟩
      · exact ⟨rfl, rfl⟩
  | waitPayload need rg =>
    simp only [stepByteT, stepByte]
    split <;> exact ⟨rfl, rfl⟩
  | stopped w => exact ⟨rfl, rfl⟩

theorem stepByte_hdr_short (rg : Bytes) (b : UInt8) (h : (b :: rg).length < 4) :
    stepByte (.waitHdr rg) b = (.waitHdr (b :: rg), []) := by
  simp only [stepByte, h, if_true]

theorem stepByte_hdr_zero (rg : Bytes) (b : UInt8) (h : ¬ (b :: rg).length < 4)
    (hl : le32 (b :: rg).reverse < limit) (h0 : le32 (b :: rg).reverse = 0) :
    stepByte (.waitHdr rg) b = (.waitHdr [], [.alloc 0, .deliver []]) := by
  have hl0 : 0 < limit := by rw [h0] at hl; exact hl
  simp only [stepByte, h, h0, hl0, if_true, if_false]

theorem stepByte_hdr_pay (rg : Bytes) (b : UInt8) (h : ¬ (b :: rg).length < 4)
    (hl : le32 (b :: rg).reverse < limit) (h0 : ¬ le32 (b :: rg).reverse = 0) :
    stepByte (.waitHdr rg) b = (.waitPayload (le32 (b :: rg).reverse) [], [.alloc (le32 (b :: rg).reverse)]) := by
  simp only [stepByte, h, hl, h0, if_true, if_false]

theorem stepByte_hdr_over (rg : Bytes) (b : UInt8) (h : ¬ (b :: rg).length < 4)
    (hl : ¬ le32 (b :: rg).reverse < limit) :
    stepByte (.waitHdr rg) b = (.stopped (.overLimit (le32 (b :: rg).reverse)), []) := by
  simp only [stepByte, h, hl, if_false]

theorem stepByte_pay_last (need : Nat) (rg : Bytes) (b : UInt8) (h : need ≤ 1) :
    stepByte (.waitPayload need rg) b = (.waitHdr [], [.deliver (b :: rg).reverse]) := by
  simp only [stepByte, h, if_true]

theorem stepByte_pay_more (need : Nat) (rg : Bytes) (b : UInt8) (h : ¬ need ≤ 1) :
    stepByte (.waitPayload need rg) b = (.waitPayload (need - 1) (b :: rg), []) := by
  simp only [stepByte, h, if_false]

/-! the deadlines after one byte, case by case (configurations in `Coded`) -/

/-- the read deadline the header-rest call leaves -/
def hdrDl (cfg : Cfg) (now : Nat) (dl : Deadlines) : Deadlines := cfg.hdrRest.apply now dl

theorem stepByteT_dl_first (cfg : Cfg) (now : Nat) (b : UInt8) (dl : Deadlines) :
    (stepByteT cfg now (.waitHdr []) b dl).2.1 = cfg.hdrRest.apply now dl := by
  simp [stepByteT]

theorem stepByteT_dl_hdr_short (cfg : Cfg) (now : Nat) (x : UInt8) (rg : Bytes) (b : UInt8) (dl : Deadlines)
    (h : (b :: x :: rg).length < 4) : (stepByteT cfg now (.waitHdr (x :: rg)) b dl).2.1 = dl := by
  simp only [stepByteT, h, if_true]
  simp

theorem stepByteT_dl_hdr_zero (cfg : Cfg) (hc : Coded cfg) (now : Nat) (x : UInt8) (rg : Bytes) (b : UInt8)
    (dl : Deadlines) (h : ¬ (b :: x :: rg).length < 4) (hl : le32 (b :: x :: rg).reverse < limit)
    (h0 : le32 (b :: x :: rg).reverse = 0) :
    (stepByteT cfg now (.waitHdr (x :: rg)) b dl).2.1 = { dl with rd := none } := by
  have hl0 : 0 < limit := by rw [h0] at hl; exact hl
  simp only [stepByteT, h, h0, hl0, if_true, if_false, hc.loopTop, hc.payload, hc.afterPayload, hc.zeroShortcut, DlOp.apply]
  simp

theorem stepByteT_dl_hdr_pay (cfg : Cfg) (hc : Coded cfg) (now : Nat) (x : UInt8) (rg : Bytes) (b : UInt8)
    (dl : Deadlines) (h : ¬ (b :: x :: rg).length < 4) (hl : le32 (b :: x :: rg).reverse < limit)
    (h0 : ¬ le32 (b :: x :: rg).reverse = 0) :
    (stepByteT cfg now (.waitHdr (x :: rg)) b dl).2.1 = { dl with rd := some (now + frameTimeout) } := by
  simp only [stepByteT, h, h0, hl, if_true, if_false, hc.payload, DlOp.apply]
  simp

theorem stepByteT_dl_hdr_over (cfg : Cfg) (now : Nat) (x : UInt8) (rg : Bytes) (b : UInt8)
    (dl : Deadlines) (h : ¬ (b :: x :: rg).length < 4) (hl : ¬ le32 (b :: x :: rg).reverse < limit) :
    (stepByteT cfg now (.waitHdr (x :: rg)) b dl).2.1 = dl := by
  simp only [stepByteT, h, hl, if_false]
  simp

theorem stepByteT_dl_pay_last (cfg : Cfg) (hc : Coded cfg) (now need : Nat) (rg : Bytes) (b : UInt8) (dl : Deadlines)
    (h : need ≤ 1) : (stepByteT cfg now (.waitPayload need rg) b dl).2.1 = { dl with rd := none } := by
  simp only [stepByteT, h, if_true, hc.loopTop, hc.afterPayload, DlOp.apply]

theorem stepByteT_dl_pay_more (cfg : Cfg) (now need : Nat) (rg : Bytes) (b : UInt8) (dl : Deadlines)
    (h : ¬ need ≤ 1) : (stepByteT cfg now (.waitPayload need rg) b dl).2.1 = dl := by
  simp only [stepByteT, h, if_false]

/-- what the header-rest call does to the read deadline, in terms of `armsHeader` -/
theorem hdrRest_rd (cfg : Cfg) (hc : Coded cfg) (now : Nat) (dl : Deadlines) :
    (cfg.hdrRest.apply now dl).rd = if cfg.armsHeader then some (now + frameTimeout) else dl.rd := by
  rcases hc.hdrRest with h | h <;> simp [Cfg.armsHeader, h, DlOp.apply]

/-! ### the invariant -/

structure Inv (cfg : Cfg) (s : CState) : Prop where
  armedIff : s.entered = true → s.r.live = true → s.dl.rd.isSome = armed cfg s.r
  bound : s.entered = true → s.r.live = true → ∀ d, s.dl.rd = some d → d ≤ s.last + frameTimeout
  lastLe : s.last ≤ s.clock
  startLe : s.fstart ≤ s.last
  startBound : s.entered = true → s.r.live = true → ∀ d, s.dl.rd = some d → s.fstart + frameTimeout ≤ d
  future : s.entered = true → s.r.live = true → ∀ d, s.dl.rd = some d → s.clock < d

theorem inv_probed (cfg : Cfg) (tp : Nat) : Inv cfg (CState.probed cfg tp) :=
  ⟨by simp [CState.probed], by simp [CState.probed], by simp [CState.probed], by simp [CState.probed],
   by simp [CState.probed], by simp [CState.probed]⟩

theorem enterLoop_rd (cfg : Cfg) (hc : Coded cfg) (now : Nat) (s : CState) : (enterLoop cfg now s).dl.rd = none := by
  simp [enterLoop, applyOps, hc.loopTop, DlOp.apply]

theorem inv_enter (cfg : Cfg) (hc : Coded cfg) (now : Nat) (s : CState) (he : s.entered = false) (hr : s.r = .waitHdr []) :
    Inv cfg (enterLoop cfg now s) := by
  have hrd := enterLoop_rd cfg hc now s
  refine ⟨?_, ?_, ?_, ?_, ?_, ?_⟩
  · intro _ _; rw [hrd]; simp [enterLoop, hr, armed]
  · intro _ _ d hd; rw [hrd] at hd; cases hd
  · simp [enterLoop]
  · simp [enterLoop]
  · intro _ _ d hd; rw [hrd] at hd; cases hd
  · intro _ _ d hd; rw [hrd] at hd; cases hd

/-- states before the loop is entered are at a header boundary -/
def PreOk (s : CState) : Prop := s.entered = false → s.r = .waitHdr []

theorem tstep_live (cfg : Cfg) (now : Nat) (s : CState) (b : UInt8) (hl : s.r.live = true) :
    tstep cfg now s b =
      ({ s with r := (stepByte s.r b).1, dl := (stepByteT cfg now s.r b s.dl).2.1, last := now, clock := now,
                fstart := if s.r = .waitHdr [] then now else s.fstart }, (stepByte s.r b).2) := by
  have h := stepByteT_state cfg now s.r b s.dl
  simp only [tstep, hl, if_true, h.1, h.2]

theorem tstep_dead (cfg : Cfg) (now : Nat) (s : CState) (b : UInt8) (hl : s.r.live = false) :
    tstep cfg now s b = ({ s with clock := now }, []) := by
  simp [tstep, hl]

theorem inv_tstep (cfg : Cfg) (hc : Coded cfg) (s : CState) (now : Nat) (b : UInt8) (h : Inv cfg s)
    (he : s.entered = true) (hn : s.clock ≤ now) (hx : s.r.live = true → notExpired s now = true) :
    Inv cfg (tstep cfg now s b).1 := by
  by_cases hlive : s.r.live = true
  · have k1 := h.armedIff he hlive
    have k2 := h.bound he hlive
    have k3 := h.lastLe
    have k4 := h.startLe
    have k5 := h.startBound he hlive
    have hT := frameTimeout_pos
    have hX : ∀ d, s.dl.rd = some d → now < d := by
      intro d hd
      have := hx hlive
      simp [notExpired, hd] at this; exact this
    clear h hx
    rw [tstep_live cfg now s b hlive]
    obtain ⟨r, dl, entered, last, clock, fstart, exit, reported⟩ := s
    simp only at k1 k2 k3 k4 k5 hn he hlive hX ⊢
    cases r with
    | waitHdr rg =>
      cases rg with
      | nil =>
        have h4 : (b :: ([] : Bytes)).length < 4 := by simp
        rw [stepByte_hdr_short [] b h4, stepByteT_dl_first]
        have hrd := hdrRest_rd cfg hc now dl
        have hnone : dl.rd = none := by simpa [armed] using k1
        refine ⟨?_, ?_, ?_, ?_, ?_, ?_⟩
        · intro _ _; simp only [hrd, armed]; cases cfg.armsHeader <;> simp [hnone]
        · intro _ _ d hd; simp only [hrd, hnone] at hd ⊢
          cases ha : cfg.armsHeader <;> rw [ha] at hd <;> simp at hd
          omega
        · simp
        · simp
        · intro _ _ d hd; simp only [hrd, hnone, if_true] at hd ⊢
          cases ha : cfg.armsHeader <;> rw [ha] at hd <;> simp at hd
          omega
        · intro _ _ d hd; simp only [hrd, hnone] at hd ⊢
          cases ha : cfg.armsHeader <;> rw [ha] at hd <;> simp at hd
          omega
      | cons x rg =>
        simp only [armed] at k1
        have hne : ¬ (RState.waitHdr (x :: rg) = RState.waitHdr []) := by simp
        by_cases h4 : (b :: x :: rg).length < 4
        · rw [stepByte_hdr_short _ b h4, stepByteT_dl_hdr_short cfg now x rg b dl h4]
          refine ⟨?_, ?_, ?_, ?_, ?_, ?_⟩
          · intro _ _; simpa [armed] using k1
          · intro _ _ d hd; have := k2 d hd; simp only; omega
          · simp
          · simp only [hne, if_false]; omega
          · intro _ _ d hd; simp only [hne, if_false]; exact k5 d hd
          · intro _ _ d hd; exact hX d hd
        · by_cases hl : le32 (b :: x :: rg).reverse < limit
          · by_cases h0 : le32 (b :: x :: rg).reverse = 0
            · rw [stepByte_hdr_zero _ b h4 hl h0, stepByteT_dl_hdr_zero cfg hc now x rg b dl h4 hl h0]
              refine ⟨?_, ?_, ?_, ?_, ?_, ?_⟩ <;> simp [armed, hne]
              omega
            · rw [stepByte_hdr_pay _ b h4 hl h0, stepByteT_dl_hdr_pay cfg hc now x rg b dl h4 hl h0]
              refine ⟨?_, ?_, ?_, ?_, ?_, ?_⟩ <;> simp [armed, hne]
              all_goals (first | omega | (intros; omega))
          · rw [stepByte_hdr_over _ b h4 hl]
            refine ⟨?_, ?_, ?_, ?_, ?_, ?_⟩ <;> simp [RState.live, hne]
            omega
    | waitPayload need rg =>
      simp only [armed] at k1
      have hne : ¬ (RState.waitPayload need rg = RState.waitHdr []) := by simp
      by_cases hn1 : need ≤ 1
      · rw [stepByte_pay_last need rg b hn1, stepByteT_dl_pay_last cfg hc now need rg b dl hn1]
        refine ⟨?_, ?_, ?_, ?_, ?_, ?_⟩ <;> simp [armed, hne]
        omega
      · rw [stepByte_pay_more need rg b hn1, stepByteT_dl_pay_more cfg now need rg b dl hn1]
        refine ⟨?_, ?_, ?_, ?_, ?_, ?_⟩
        · intro _ _; simpa [armed] using k1
        · intro _ _ d hd; have := k2 d hd; simp only; omega
        · simp
        · simp only [hne, if_false]; omega
        · intro _ _ d hd; simp only [hne, if_false]; exact k5 d hd
        · intro _ _ d hd; exact hX d hd
    | stopped w => simp [RState.live] at hlive
  · have hd : s.r.live = false := by cases hh : s.r.live <;> simp_all
    rw [tstep_dead cfg now s b hd]
    refine ⟨?_, ?_, ?_, ?_, ?_, ?_⟩
    · intro _ hl; simp only at hl; rw [hd] at hl; cases hl
    · intro _ hl; simp only at hl; rw [hd] at hl; cases hl
    · exact Nat.le_trans h.lastLe hn
    · exact h.startLe
    · intro _ hl; simp only at hl; rw [hd] at hl; cases hl
    · intro _ hl; simp only at hl; rw [hd] at hl; cases hl

/-! ### inversion lemmas, one per label -/

theorem step_enter {cfg : Cfg} {s s' : CState} {e : List Eff} {now : Nat} (h : step cfg s (.enter now) = some (s', e)) :
    s.entered = false ∧ s.clock ≤ now ∧ s' = enterLoop cfg now s ∧ e = [] := by
  simp only [step] at h
  split at h
  · rename_i hg
    simp only [Option.some.injEq, Prod.mk.injEq] at h
    exact ⟨hg.1, hg.2, h.1.symm, h.2.symm⟩
  · cases h

theorem step_arrive {cfg : Cfg} {s s' : CState} {e : List Eff} {now : Nat} {b : UInt8}
    (h : step cfg s (.arrive now b) = some (s', e)) :
    s.entered = true ∧ s.clock ≤ now ∧ (s.r.live = true → notExpired s now = true) ∧ (s', e) = tstep cfg now s b := by
  simp only [step] at h
  split at h
  · rename_i hg
    simp only [Option.some.injEq] at h
    exact ⟨hg.1, hg.2.1, hg.2.2, h.symm⟩
  · cases h

theorem step_expire {cfg : Cfg} {s s' : CState} {e : List Eff} {now : Nat} (h : step cfg s (.expire now) = some (s', e)) :
    ∃ d, s.dl.rd = some d ∧ s.entered = true ∧ s.clock ≤ now ∧ d ≤ now ∧ s.r.live = true ∧
      s' = { s with r := .stopped .timeout, clock := now } ∧ e = [] := by
  simp only [step] at h
  split at h
  · rename_i d hd
    split at h
    · rename_i hg
      simp only [Option.some.injEq, Prod.mk.injEq] at h
      exact ⟨d, hd, hg.1, hg.2.1, hg.2.2.1, hg.2.2.2, h.1.symm, h.2.symm⟩
    · cases h
  · cases h

theorem step_peerClose {cfg : Cfg} {s s' : CState} {e : List Eff} {now : Nat}
    (h : step cfg s (.peerClose now) = some (s', e)) :
    s.entered = true ∧ s.clock ≤ now ∧ s.r.live = true ∧ notExpired s now = true ∧
      s' = { s with r := .stopped .peerClosed, clock := now } ∧ e = [] := by
  simp only [step] at h
  split at h
  · rename_i hg
    simp only [Option.some.injEq, Prod.mk.injEq] at h
    exact ⟨hg.1, hg.2.1, hg.2.2.1, hg.2.2.2, h.1.symm, h.2.symm⟩
  · cases h

theorem step_cancel {cfg : Cfg} {s s' : CState} {e : List Eff} {now : Nat} (h : step cfg s (.cancel now) = some (s', e)) :
    s.entered = true ∧ s.clock ≤ now ∧ (s.r.live = true → notExpired s now = true) ∧
      s' = { s with exit := true, r := if s.r.live then .stopped .peerClosed else s.r, clock := now } ∧ e = [] := by
  simp only [step] at h
  split at h
  · rename_i hg
    simp only [Option.some.injEq, Prod.mk.injEq] at h
    exact ⟨hg.1, hg.2.1, hg.2.2, h.1.symm, h.2.symm⟩
  · cases h

theorem step_teardown {cfg : Cfg} {s s' : CState} {e : List Eff} {now : Nat}
    (h : step cfg s (.teardown now) = some (s', e)) :
    s.entered = true ∧ s.clock ≤ now ∧ s.r.live = false ∧ s.reported = none ∧
      s' = { s with reported := some s.exit, clock := now } ∧ e = [] := by
  simp only [step] at h
  split at h
  · rename_i hg
    simp only [Option.some.injEq, Prod.mk.injEq] at h
    exact ⟨hg.1, hg.2.1, hg.2.2.1, hg.2.2.2, h.1.symm, h.2.symm⟩
  · cases h

theorem tstep_entered (cfg : Cfg) (now : Nat) (s : CState) (b : UInt8) : (tstep cfg now s b).1.entered = s.entered := by
  simp only [tstep]; split <;> rfl

theorem inv_step (cfg : Cfg) (hc : Coded cfg) (s s' : CState) (l : Lbl) (e : List Eff) (h : Inv cfg s ∧ PreOk s)
    (hs : step cfg s l = some (s', e)) : Inv cfg s' ∧ PreOk s' := by
  obtain ⟨h, hp⟩ := h
  cases l with
  | enter now =>
    obtain ⟨he, _, rfl, _⟩ := step_enter hs
    exact ⟨inv_enter cfg hc now s he (hp he), fun hh => by simp [enterLoop] at hh⟩
  | arrive now b =>
    obtain ⟨he, hcl, hx, heq⟩ := step_arrive hs
    have hs' : s' = (tstep cfg now s b).1 := congrArg Prod.fst heq
    subst hs'
    refine ⟨inv_tstep cfg hc s now b h he hcl hx, fun hh => ?_⟩
    rw [tstep_entered, he] at hh; cases hh
  | expire now =>
    obtain ⟨d, _, he, hcl, _, _, rfl, _⟩ := step_expire hs
    refine ⟨⟨?_, ?_, Nat.le_trans h.lastLe hcl, h.startLe, ?_, ?_⟩, fun hh => ?_⟩
    · intro _ hl; simp [RState.live] at hl
    · intro _ hl; simp [RState.live] at hl
    · intro _ hl; simp [RState.live] at hl
    · intro _ hl; simp [RState.live] at hl
    · simp only at hh; rw [he] at hh; cases hh
  | peerClose now =>
    obtain ⟨he, hcl, _, _, rfl, _⟩ := step_peerClose hs
    refine ⟨⟨?_, ?_, Nat.le_trans h.lastLe hcl, h.startLe, ?_, ?_⟩, fun hh => ?_⟩
    · intro _ hl; simp [RState.live] at hl
    · intro _ hl; simp [RState.live] at hl
    · intro _ hl; simp [RState.live] at hl
    · intro _ hl; simp [RState.live] at hl
    · simp only at hh; rw [he] at hh; cases hh
  | cancel now =>
    obtain ⟨he, hcl, _, rfl, _⟩ := step_cancel hs
    have hdead : (if s.r.live = true then RState.stopped Stop.peerClosed else s.r).live = false := by
      cases hl : s.r.live
      · simp [hl]
      · simp [RState.live]
    refine ⟨⟨?_, ?_, Nat.le_trans h.lastLe hcl, h.startLe, ?_, ?_⟩, fun hh => ?_⟩
    · intro _ hl; simp only at hl; rw [hdead] at hl; cases hl
    · intro _ hl; simp only at hl; rw [hdead] at hl; cases hl
    · intro _ hl; simp only at hl; rw [hdead] at hl; cases hl
    · intro _ hl; simp only at hl; rw [hdead] at hl; cases hl
    · simp only at hh; rw [he] at hh; cases hh
  | teardown now =>
    obtain ⟨he, hcl, hd, _, rfl, _⟩ := step_teardown hs
    refine ⟨⟨?_, ?_, Nat.le_trans h.lastLe hcl, h.startLe, ?_, ?_⟩, fun hh => ?_⟩
    · intro _ hl; simp only at hl; rw [hd] at hl; cases hl
    · intro _ hl; simp only at hl; rw [hd] at hl; cases hl
    · intro _ hl; simp only at hl; rw [hd] at hl; cases hl
    · intro _ hl; simp only at hl; rw [hd] at hl; cases hl
    · simp only at hh; rw [he] at hh; cases hh

/-- generic induction principle for `runL`: a predicate preserved by every enabled step holds at the end -/
theorem runL_induct (cfg : Cfg) (P : CState → Prop)
    (hstep : ∀ s s' l e, P s → step cfg s l = some (s', e) → P s') :
    ∀ (ls : List Lbl) (s s' : CState) (e : List Eff), P s → runL cfg s ls = some (s', e) → P s' := by
  intro ls
  induction ls with
  | nil => intro s s' e h hr; simp [runL] at hr; rw [← hr.1]; exact h
  | cons l ls ih =>
    intro s s' e h hr
    simp only [runL] at hr
    split at hr
    · cases hr
    · rename_i r1 h1
      split at hr
      · cases hr
      · rename_i r2 h2
        simp only [Option.some.injEq, Prod.mk.injEq] at hr
        have hi := hstep s r1.1 l r1.2 h (by simpa using h1)
        have := ih r1.1 r2.1 r2.2 hi (by simpa using h2)
        rw [← hr.1]; exact this

theorem inv_runL (cfg : Cfg) (hc : Coded cfg) (ls : List Lbl) (s s' : CState) (e : List Eff) (h : Inv cfg s ∧ PreOk s)
    (hr : runL cfg s ls = some (s', e)) : Inv cfg s' ∧ PreOk s' :=
  runL_induct cfg (fun s => Inv cfg s ∧ PreOk s) (fun s s' l e hs hst => inv_step cfg hc s s' l e hs hst) ls s s' e h hr

/-- states reachable from a connection whose probe `Read` has just returned (probe at any time `tp`), by any
sequence of labels -/
def Reachable (cfg : Cfg) (s : CState) : Prop :=
  ∃ tp ls e, runL cfg (CState.probed cfg tp) ls = some (s, e)

theorem inv_reachable (cfg : Cfg) (hc : Coded cfg) (s : CState) (h : Reachable cfg s) : Inv cfg s := by
  obtain ⟨tp, ls, e, hr⟩ := h
  exact (inv_runL cfg hc ls _ _ _ ⟨inv_probed cfg tp, fun _ => rfl⟩ hr).1

theorem reachable_step (cfg : Cfg) (s s' : CState) (l : Lbl) (e : List Eff) (h : Reachable cfg s)
    (hs : step cfg s l = some (s', e)) : Reachable cfg s' := by
  obtain ⟨tp, ls, e0, hr⟩ := h
  refine ⟨tp, ls ++ [l], e0 ++ e, ?_⟩
  have : ∀ (ls : List Lbl) (a b : CState) (ea : List Eff), runL cfg a ls = some (b, ea) →
      runL cfg a (ls ++ [l]) = (match step cfg b l with | none => none | some r => some (r.1, ea ++ r.2)) := by
    intro ls
    induction ls with
    | nil =>
      intro a b ea h
      simp [runL] at h
      obtain ⟨rfl, rfl⟩ := h
      simp only [List.nil_append, runL]
      cases step cfg a l <;> simp
    | cons x xs ih =>
      intro a b ea h
      simp only [runL] at h
      split at h
      · cases h
      · rename_i r1 h1
        split at h
        · cases h
        · rename_i r2 h2
          simp only [Option.some.injEq, Prod.mk.injEq] at h
          have := ih r1.1 r2.1 r2.2 (by simpa using h2)
          simp only [List.cons_append, runL, h1, this]
          rw [h.1]
          cases step cfg b l with
          | none => rfl
          | some r => simp [← h.2, List.append_assoc]
  rw [this ls _ _ _ hr, hs]

theorem runL_reachable (cfg : Cfg) (ls : List Lbl) (s s' : CState) (e : List Eff) (h : Reachable cfg s)
    (hr : runL cfg s ls = some (s', e)) : Reachable cfg s' :=
  runL_induct cfg (Reachable cfg) (fun a b l e ha hs => reachable_step cfg a b l e ha hs) ls s s' e h hr

/-! ### the write deadline, and the `exit` flag -/

def Cfg.readOnly (cfg : Cfg) : Bool := cfg.ops.all DlOp.readOnly

theorem apply_readOnly_wr (op : DlOp) (now : Nat) (d : Deadlines) (h : op.readOnly = true) : (op.apply now d).wr = d.wr := by
  cases op with
  | skip => rfl
  | clear k => cases k <;> simp_all [DlOp.readOnly, DlOp.apply]
  | arm k ms => cases k <;> simp_all [DlOp.readOnly, DlOp.apply]

theorem readOnly_fields (cfg : Cfg) (h : cfg.readOnly = true) :
    cfg.probeArm.readOnly = true ∧ cfg.afterProbe.readOnly = true ∧ cfg.loopTop.readOnly = true ∧
    cfg.hdrRest.readOnly = true ∧ cfg.payload.readOnly = true ∧ cfg.afterPayload.readOnly = true := by
  simpa [Cfg.readOnly, Cfg.ops] using h

theorem stepByteT_wr (cfg : Cfg) (h : cfg.readOnly = true) (now : Nat) (r : RState) (b : UInt8) (dl : Deadlines) :
    (stepByteT cfg now r b dl).2.1.wr = dl.wr := by
  obtain ⟨_, _, h3, h4, h5, h6⟩ := readOnly_fields cfg h
  cases r with
  | waitHdr rg =>
    have e1 : (if rg = [] then cfg.hdrRest.apply now dl else dl).wr = dl.wr := by
      split
      · exact apply_readOnly_wr _ _ _ h4
      · rfl
    simp only [stepByteT]
    split
    · exact e1
    · split
      · split
        · split
          · rw [apply_readOnly_wr _ _ _ h3]; exact e1
          · rw [apply_readOnly_wr _ _ _ h3, apply_readOnly_wr _ _ _ h6, apply_readOnly_wr _ _ _ h5]; exact e1
        · rw [apply_readOnly_wr _ _ _ h5]; exact e1
      · exact e1
  | waitPayload need rg =>
    simp only [stepByteT]
    split
    · rw [apply_readOnly_wr _ _ _ h3, apply_readOnly_wr _ _ _ h6]
    · rfl
  | stopped w => rfl

theorem wr_step (cfg : Cfg) (h : cfg.readOnly = true) (s s' : CState) (l : Lbl) (e : List Eff) (hw : s.dl.wr = none)
    (hs : step cfg s l = some (s', e)) : s'.dl.wr = none := by
  obtain ⟨_, h2, h3, _, _, _⟩ := readOnly_fields cfg h
  cases l with
  | enter now =>
    obtain ⟨_, _, rfl, _⟩ := step_enter hs
    simp only [enterLoop, applyOps]
    rw [apply_readOnly_wr _ _ _ h3, apply_readOnly_wr _ _ _ h2]; exact hw
  | arrive now b =>
    obtain ⟨_, _, _, heq⟩ := step_arrive hs
    have hs' : s' = (tstep cfg now s b).1 := congrArg Prod.fst heq
    subst hs'
    simp only [tstep]
    split
    · simp only; rw [stepByteT_wr cfg h]; exact hw
    · exact hw
  | expire now => obtain ⟨d, _, _, _, _, _, rfl, _⟩ := step_expire hs; exact hw
  | peerClose now => obtain ⟨_, _, _, _, rfl, _⟩ := step_peerClose hs; exact hw
  | cancel now => obtain ⟨_, _, _, rfl, _⟩ := step_cancel hs; exact hw
  | teardown now => obtain ⟨_, _, _, _, rfl, _⟩ := step_teardown hs; exact hw

def hasCancel : List Lbl → Bool
  | [] => false
  | .cancel _ :: _ => true
  | _ :: r => hasCancel r

end RawPanelVerif.Net
