import RawPanelVerif.Model.Tile
import RawPanelVerif.Lemmas.MonoSub
import RawPanelVerif.Lemmas.DblMono
/-!
# The value bar of the tile renderer is monotone in the value (C18, clause `bar`)

`contentBody` is `contentIter` without its last step (definitionally: `contentIter_eq` is `rfl`).  Every layout step
only appends operations and decides from the text state (`contentBody_prep`), so it is congruent for the relation
`R a b` (same text state; running `a.ops` / `b.ops` on `Sub`-related canvases gives `Sub`-related canvases).  The only
place the value enters (with the value text unchanged) is the width of the bar rectangle, which is monotone by
`Dbl.trunc_mulInt_rn_mono`; a wider foreground rectangle only adds lit pixels (`fillRect_sub_widen`).
-/
namespace RawPanelVerif.Tile
open RawPanelVerif RawPanelVerif.Mono RawPanelVerif.Gen

/-- `contentIter` without its last step (the scale bar): label, value, pair borders -/
def contentBody (acc : Acc) (g : Geom) (inp : TileIn) (a : Int)
    (activeWidth mainContentAvailableHeight mainContentMiddle fontTextSizeH fontTextSizeV : Int) : Acc :=
  let pair := inp.pair
  let intValue := if a = 0 then inp.intVal else inp.intVal2
  let outputString := valueString inp.fmt intValue
  let textLine := if a = 0 then inp.line1 else inp.line2
  let narrow (acc : Acc) : Acc :=
    acc.size (qint (fontTextSizeH > 0) fontTextSizeH 1)
      (qint (fontTextSizeV > 0) fontTextSizeV (qint (mainContentAvailableHeight ≥ 12) 2 0))
  -- label
  let acc :=
    if textLine.length > 0 then
      if pair > 0 then
        let xOffset := if outputString.length > 0 then 2
          else shr1 (constrain (activeWidth - acc.strWidth textLine) 0 activeWidth)
        let yOffset := mainContentMiddle + 1 + (a - 1) * (acc.lineHeight + 1)
        (acc.cursor xOffset yOffset).render g textLine
      else
        let acc := if activeWidth < acc.strWidth textLine then narrow acc else acc
        let xOffset := if outputString.length > 0 then 2
          else shr1 (constrain (activeWidth - acc.strWidth textLine) 0 activeWidth)
        let yOffset := mainContentMiddle + 1 - (u32 acc.lineHeight) / 2
        (acc.cursor xOffset yOffset).render g textLine
    else acc
  -- value
  let acc :=
    if outputString.length > 0 then
      if pair > 0 then
        let xOffset := if textLine.length > 0 then constrain (activeWidth - acc.strWidth outputString - 2) 0 activeWidth
          else shr1 (constrain (activeWidth - acc.strWidth outputString) 0 activeWidth)
        let yOffset := mainContentMiddle + 1 + (a - 1) * (u32 (acc.lineHeight + 1))
        let acc := (acc.cursor xOffset yOffset).render g outputString
        if inp.fmt = 5 then
          ((acc.size 1 1).cursor (constrain (xOffset - 10) 0 100) yOffset).render g (asciiBytes "1/")
        else acc
      else
        let acc := if activeWidth < acc.strWidth outputString then narrow acc else acc
        let xOffset := if textLine.length > 0 then constrain (activeWidth - acc.strWidth outputString - 2) 0 activeWidth
          else shr1 (constrain (activeWidth - acc.strWidth outputString) 0 activeWidth)
        let yOffset := mainContentMiddle + 1 - (u32 acc.lineHeight) / 2
        let acc := (acc.cursor xOffset yOffset).render g outputString
        if inp.fmt = 5 then
          ((acc.size 1 1).cursor (constrain (xOffset - 10) 0 100) (yOffset - 2)).render g (asciiBytes "1/")
        else acc
    else acc
  -- borders for pairs
  if pair = a + 2 then
    acc.emit (.rrect 0 (mainContentMiddle - 1 + (a - 1) * (acc.lineHeight + 1)) activeWidth (acc.lineHeight + 3) 1 true)
  else if pair = 4 then
    if a = 0 then
      acc.emit (.rrect 0 (mainContentMiddle - 1 + (a - 1) * (acc.lineHeight + 1)) activeWidth (acc.lineHeight * 2 + 4) 1 true)
    else acc
  else acc

theorem contentIter_eq (acc : Acc) (g : Geom) (inp : TileIn) (sc : Scale) (a : Int)
    (width height activeWidth activeHeight mAH mCM fH fV : Int) :
    contentIter acc g inp sc a width height activeWidth activeHeight mAH mCM fH fV =
      if a = 0 then scaleBar (contentBody acc g inp a activeWidth mAH mCM fH fV) inp sc width activeWidth activeHeight
      else contentBody acc g inp a activeWidth mAH mCM fH fV := rfl

def Acc.prep (p : Array DOp) (a : Acc) : Acc := { ops := p ++ a.ops, t := a.t }

theorem prep_emit (p : Array DOp) (a : Acc) (op : DOp) : (a.prep p).emit op = (a.emit op).prep p := by
  unfold Acc.prep Acc.emit; simp
theorem prep_font (p : Array DOp) (a : Acc) (n : Int) (b : Bool) : (a.prep p).font n b = (a.font n b).prep p := rfl
theorem prep_size (p : Array DOp) (a : Acc) (h v : Int) : (a.prep p).size h v = (a.size h v).prep p := rfl
theorem prep_color (p : Array DOp) (a : Acc) (c : Bool) : (a.prep p).color c = (a.color c).prep p := rfl
theorem prep_cursor (p : Array DOp) (a : Acc) (x y : Int) : (a.prep p).cursor x y = (a.cursor x y).prep p := rfl
theorem prep_render (p : Array DOp) (a : Acc) (g : Geom) (s : List Nat) :
    (a.prep p).render g s = (a.render g s).prep p := by
  unfold Acc.prep Acc.render; simp
theorem prep_strWidth (p : Array DOp) (a : Acc) (s : List Nat) : (a.prep p).strWidth s = a.strWidth s := by
  unfold Acc.strWidth; exact congrArg (fun t => Mono.strWidth t s) rfl
theorem prep_lineHeight (p : Array DOp) (a : Acc) : (a.prep p).lineHeight = a.lineHeight := by
  unfold Acc.lineHeight; exact congrArg (fun t => ((Mono.lineHeight t : Nat) : Int)) rfl
theorem prep_ite (p : Array DOp) (c : Prop) [Decidable c] (x y : Acc) :
    (if c then x.prep p else y.prep p) = (if c then x else y).prep p := by split <;> rfl

theorem contentBody_prep (p : Array DOp) (acc : Acc) (g : Geom) (inp : TileIn) (a : Int)
    (aw mAH mCM fH fV : Int) :
    contentBody (acc.prep p) g inp a aw mAH mCM fH fV = (contentBody acc g inp a aw mAH mCM fH fV).prep p := by
  unfold contentBody
  simp only [prep_emit, prep_size, prep_cursor, prep_render, prep_strWidth, prep_lineHeight,
    prep_ite]


/-! ## relation between two accumulators: same text state, ops monotone -/

def runOps (ops : Array DOp) (c : Canvas) : Canvas := (ops.toList.map DOp.toOp).foldl applyOp c

theorem toOp_not_inv (d : DOp) (b : Bool) : d.toOp ≠ .inv b := by cases d <;> simp [DOp.toOp]

theorem runOps_sub (ops : Array DOp) {c c' : Canvas} (h : Sub c c') : Sub (runOps ops c) (runOps ops c') := by
  unfold runOps
  apply foldl_sub _ _ _ _ h
  intro op hop b
  simp only [List.mem_map] at hop
  obtain ⟨d, _, rfl⟩ := hop
  exact toOp_not_inv d b

theorem runOps_append (p q : Array DOp) (c : Canvas) : runOps (p ++ q) c = runOps q (runOps p c) := by
  unfold runOps; simp [List.foldl_append]

theorem runOps_push (p : Array DOp) (op : DOp) (c : Canvas) : runOps (p.push op) c = applyOp (runOps p c) op.toOp := by
  unfold runOps; simp [List.foldl_append]

structure R (a b : Acc) : Prop where
  t : a.t = b.t
  sub : ∀ c c', Sub c c' → Sub (runOps a.ops c) (runOps b.ops c')

theorem R.refl (a : Acc) : R a a := ⟨rfl, fun _ _ h => runOps_sub _ h⟩

theorem R_emit {a b : Acc} (h : R a b) (op : DOp) : R (a.emit op) (b.emit op) := by
  refine ⟨h.t, fun c c' hs => ?_⟩
  unfold Acc.emit
  simp only [runOps_push]
  exact applyOp_sub (h.sub c c' hs) _ (toOp_not_inv op)

theorem R_ite_emit {a b : Acc} (h : R a b) (c : Prop) [Decidable c] (op : DOp) :
    R (if c then a.emit op else a) (if c then b.emit op else b) := by
  split
  · exact R_emit h op
  · exact h

/-- a step that commutes with prepending operations (it only appends, and decides from the text state) is
congruent for `R` -/
theorem R_good (f : Acc → Acc) (hf : ∀ p a, f (Acc.prep p a) = Acc.prep p (f a)) {a b : Acc} (h : R a b) :
    R (f a) (f b) := by
  have ea : a = Acc.prep a.ops { ops := #[], t := a.t } := by unfold Acc.prep; simp
  have eb : b = Acc.prep b.ops { ops := #[], t := a.t } := by unfold Acc.prep; rw [h.t]; simp
  rw [ea, eb, hf, hf]
  generalize f { ops := #[], t := a.t } = X
  refine ⟨rfl, fun c c' hs => ?_⟩
  unfold Acc.prep
  simp only [runOps_append]
  exact runOps_sub _ (h.sub c c' hs)

/-! ## the bar length and the bar step -/

def setVal (inp : TileIn) (v : Int) : TileIn := { inp with intVal := v }

/-- the bar length `ConstrainValue(int(float64(num)/float64(rangeDiff)*float64(activeWidth)), 0, activeWidth)` -/
def barLen (num rangeDiff activeWidth : Int) : Int :=
  constrain (Dbl.trunc (Dbl.mulInt (Dbl.rn num rangeDiff) activeWidth)) 0 activeWidth

theorem constrain_mono (v1 v2 lo hi : Int) (h : v1 ≤ v2) (hlh : lo ≤ hi) : constrain v1 lo hi ≤ constrain v2 lo hi := by
  unfold constrain
  split <;> split <;> (try split) <;> (try split) <;> omega

/-- monotone in the numerator for a positive range -/
theorem barLen_mono (n1 n2 rd aw : Int) (hrd : 0 < rd) (haw0 : 0 ≤ aw) (h : n1 ≤ n2) :
    barLen n1 rd aw ≤ barLen n2 rd aw := by
  unfold barLen
  by_cases haw : 0 < aw
  · by_cases hn : 0 < n1
    · exact constrain_mono _ _ _ _ (Dbl.trunc_mulInt_rn_mono rd aw n1 n2 hrd haw hn h) (by omega)
    · have := Dbl.trunc_mulInt_rn_nonpos rd aw n1 hrd (by omega) (by omega)
      unfold constrain
      split <;> split <;> (try split) <;> (try split) <;> omega
  · have h0 : aw = 0 := by omega
    subst h0
    unfold constrain
    split <;> split <;> (try split) <;> (try split) <;> omega

/-- the bar stays within its extent -/
theorem barLen_range (n rd aw : Int) (haw : 0 ≤ aw) : 0 ≤ barLen n rd aw ∧ barLen n rd aw ≤ aw := by
  unfold barLen constrain
  split <;> (try split) <;> omega

theorem barLen_nonpos (n rd aw : Int) (haw : aw ≤ 0) : barLen n rd aw ≤ 0 := by
  unfold barLen constrain
  split <;> (try split) <;> omega

theorem R_bar {a b : Acc} (h : R a b) (y w1 w2 : Int) (hw : w1 ≤ w2) (c1 c2 : Prop) [Decidable c1] [Decidable c2]
    (h12 : c1 → c2) :
    R (if c1 ∧ w1 > 0 then a.emit (.frrect 0 y w1 3 0 true) else a)
      (if c2 ∧ w2 > 0 then b.emit (.frrect 0 y w2 3 0 true) else b) := by
  refine ⟨?_, fun c c' hs => ?_⟩
  · split <;> split <;> exact h.t
  · have base := h.sub c c' hs
    have key : ∀ (u1 u2 : Int), u1 ≤ u2 →
        Sub (applyOp (runOps a.ops c) (DOp.frrect 0 y u1 3 0 true).toOp)
            (applyOp (runOps b.ops c') (DOp.frrect 0 y u2 3 0 true).toOp) := by
      intro u1 u2 hu
      show Sub (fillRoundRect _ 0 y u1 3 0 true) (fillRoundRect _ 0 y u2 3 0 true)
      rw [fillRoundRect_r0, fillRoundRect_r0]
      exact fillRect_sub_widen base 0 y u1 u2 3 hu
    have zero : ∀ (cv : Canvas) (u : Int), u ≤ 0 → fillRect cv 0 y u 3 true = cv := by
      intro cv u hu
      unfold fillRect
      have : u.toNat = 0 := by omega
      rw [this]; rfl
    by_cases p1 : c1 ∧ w1 > 0
    · have p2 : c2 ∧ w2 > 0 := ⟨h12 p1.1, by omega⟩
      rw [if_pos p1, if_pos p2]
      unfold Acc.emit
      simp only [runOps_push]
      exact key w1 w2 hw
    · rw [if_neg p1]
      by_cases p2 : c2 ∧ w2 > 0
      · rw [if_pos p2]
        unfold Acc.emit
        simp only [runOps_push]
        have hw1 : min w1 0 ≤ 0 := by omega
        have := key (min w1 0) w2 (by omega)
        have e : applyOp (runOps a.ops c) (DOp.frrect 0 y (min w1 0) 3 0 true).toOp = runOps a.ops c := by
          show fillRoundRect _ 0 y (min w1 0) 3 0 true = _
          rw [fillRoundRect_r0, zero _ _ hw1]
        rw [e] at this
        exact this
      · rw [if_neg p2]; exact base


/-- the part of `scaleBar` after the type-1 in-fill: marker (type 2), centred bar (type 3), limit markers -/
def scaleRest (acc : Acc) (sc : Scale) (wBar activeWidth activeHeight : Int) : Acc :=
  let wOf (num : Int) : Int := barLen num (i32 (sc.rh - sc.rl)) activeWidth
  let acc := if sc.stype = 2 then
      acc.emit (.frrect (constrain (wBar - 1) 0 (activeWidth - 3)) (activeHeight - 3) 3 3 0 true) else acc
  let acc := if sc.stype = 3 then
      let bWidth := wBar - shr1 activeWidth
      let bX := qint (bWidth < 0) (constrain (shr1 activeWidth + bWidth) 0 activeWidth) (shr1 activeWidth)
      acc.emit (.frrect bX (activeHeight - 3) (constrain bWidth.natAbs 1 (shr1 activeWidth)) 3 0 true) else acc
  let acc := if sc.rh > sc.lh then
      let w := wOf (i32 (sc.lh - sc.rl))
      acc.emit (.frrect (constrain w 0 (activeWidth - 1)) (activeHeight - 4) 1 3 0 true) else acc
  let acc := if sc.rl < sc.ll then
      let w := wOf (i32 (sc.ll - sc.rl))
      acc.emit (.frrect (constrain w 0 (activeWidth - 1)) (activeHeight - 4) 1 3 0 true) else acc
  acc

def barStep (acc : Acc) (sc : Scale) (wBar activeHeight : Int) : Acc :=
  if sc.stype = 1 ∧ wBar > 0 then acc.emit (.frrect 0 (activeHeight - 3) wBar 3 0 true) else acc

theorem scaleBar_eq (acc : Acc) (inp : TileIn) (sc : Scale) (width aw ah : Int) :
    scaleBar acc inp sc width aw ah =
      if sc.stype > 0 ∧ i32 (sc.rh - sc.rl) ≠ 0 then
        scaleRest (barStep (acc.emit (.rrect 0 (ah - 1) width 1 0 true)) sc
          (barLen (inp.intVal - sc.rl) (i32 (sc.rh - sc.rl)) aw) ah) sc
          (barLen (inp.intVal - sc.rl) (i32 (sc.rh - sc.rl)) aw) aw ah
      else acc := rfl

theorem scaleRest_prep (p : Array DOp) (acc : Acc) (sc : Scale) (wBar aw ah : Int) :
    scaleRest (acc.prep p) sc wBar aw ah = (scaleRest acc sc wBar aw ah).prep p := by
  unfold scaleRest
  simp only [prep_emit, prep_ite]

theorem scaleRest_type1 (acc : Acc) (sc : Scale) (w1 w2 aw ah : Int) (ht : sc.stype = 1) :
    scaleRest acc sc w1 aw ah = scaleRest acc sc w2 aw ah := by
  unfold scaleRest
  have h2 : ¬ sc.stype = 2 := by omega
  have h3 : ¬ sc.stype = 3 := by omega
  simp only [h2, h3, if_false]

theorem scaleBar_R (X : Acc) (inp : TileIn) (v2 : Int) (sc : Scale) (width aw ah : Int)
    (ht : sc.stype = 1) (hr : 0 < i32 (sc.rh - sc.rl)) (hv : inp.intVal ≤ v2) :
    R (scaleBar X inp sc width aw ah) (scaleBar X (setVal inp v2) sc width aw ah) := by
  rw [scaleBar_eq, scaleBar_eq]
  have hc : sc.stype > 0 ∧ i32 (sc.rh - sc.rl) ≠ 0 := ⟨by omega, by omega⟩
  rw [if_pos hc, if_pos hc]
  have e : (setVal inp v2).intVal = v2 := rfl
  rw [e]
  generalize hw1 : barLen (inp.intVal - sc.rl) (i32 (sc.rh - sc.rl)) aw = w1
  generalize hw2 : barLen (v2 - sc.rl) (i32 (sc.rh - sc.rl)) aw = w2
  rw [scaleRest_type1 _ sc w2 w1 aw ah ht]
  refine R_good (fun a => scaleRest a sc w1 aw ah) (fun p a => scaleRest_prep p a sc w1 aw ah) ?_
  unfold barStep
  by_cases haw : 0 ≤ aw
  · have hm : w1 ≤ w2 := by
      rw [← hw1, ← hw2]; exact barLen_mono _ _ _ _ hr haw (by omega)
    exact R_bar (R.refl _) (ah - 3) w1 w2 hm _ _ id
  · have n1 : ¬ (sc.stype = 1 ∧ w1 > 0) := by
      have := barLen_nonpos (inp.intVal - sc.rl) (i32 (sc.rh - sc.rl)) aw (by omega); omega
    have n2 : ¬ (sc.stype = 1 ∧ w2 > 0) := by
      have := barLen_nonpos (v2 - sc.rl) (i32 (sc.rh - sc.rl)) aw (by omega); omega
    rw [if_neg n1, if_neg n2]
    exact R.refl _


theorem contentBody_setVal_other (acc : Acc) (g : Geom) (inp : TileIn) (v2 k aw mAH mCM fH fV : Int) (hk : ¬ k = 0) :
    contentBody acc g (setVal inp v2) k aw mAH mCM fH fV = contentBody acc g inp k aw mAH mCM fH fV := by
  unfold contentBody setVal
  simp only [hk, if_false]

theorem contentBody_setVal_zero (acc : Acc) (g : Geom) (inp : TileIn) (v2 aw mAH mCM fH fV : Int)
    (hval : valueString inp.fmt inp.intVal = valueString inp.fmt v2) :
    contentBody acc g (setVal inp v2) 0 aw mAH mCM fH fV = contentBody acc g inp 0 aw mAH mCM fH fV := by
  unfold contentBody setVal
  simp only [if_true, hval]

theorem contentIter_R_other {a b : Acc} (h : R a b) (g : Geom) (inp : TileIn) (v2 : Int) (sc : Scale)
    (k width height aw ah mAH mCM fH fV : Int) (hk : ¬ k = 0) :
    R (contentIter a g inp sc k width height aw ah mAH mCM fH fV)
      (contentIter b g (setVal inp v2) sc k width height aw ah mAH mCM fH fV) := by
  rw [contentIter_eq, contentIter_eq, if_neg hk, if_neg hk, contentBody_setVal_other _ _ _ _ _ _ _ _ _ _ hk]
  exact R_good (fun a => contentBody a g inp k aw mAH mCM fH fV)
    (fun p a => contentBody_prep p a g inp k aw mAH mCM fH fV) h

theorem contentIter_R_zero (A : Acc) (g : Geom) (inp : TileIn) (v2 : Int) (sc : Scale)
    (width height aw ah mAH mCM fH fV : Int)
    (hval : valueString inp.fmt inp.intVal = valueString inp.fmt v2)
    (ht : sc.stype = 1) (hr : 0 < i32 (sc.rh - sc.rl)) (hv : inp.intVal ≤ v2) :
    R (contentIter A g inp sc 0 width height aw ah mAH mCM fH fV)
      (contentIter A g (setVal inp v2) sc 0 width height aw ah mAH mCM fH fV) := by
  rw [contentIter_eq, contentIter_eq, if_pos rfl, if_pos rfl, contentBody_setVal_zero _ _ _ _ _ _ _ _ _ hval]
  exact scaleBar_R _ inp v2 sc width aw ah ht hr hv

theorem R_ite_good {a b : Acc} (h : R a b) (c : Prop) [Decidable c] (f f' : Acc → Acc)
    (hf : ∀ a b, R a b → R (f a) (f' b)) : R (if c then f a else a) (if c then f' b else b) := by
  split
  · exact hf a b h
  · exact h

/-- `tileAcc` with the content iteration as a parameter (verbatim copy; `tileAcc_eq_with` is `rfl`) -/
def tileAccWith (ci : Acc → Geom → Scale → Int → Int → Int → Int → Int → Int → Int → Int → Int → Acc)
    (inp : TileIn) (width height shrink border : Int) : Acc :=
  let st : Styling := inp.styling.getD {}
  let tf : Font := st.textFont.getD {}
  let ttf : Font := st.titleFont.getD {}
  let sc : Scale := inp.scale.getD {}
  let wShrink := qint (shrink.emod 2 = 1) 1 0
  let hShrink := qint ((shrink.emod 4) / 2 = 1) 1 0
  let acc : Acc := {}
  let fontFaceContent := tf.face.emod 8
  let fontFaceTitle := ttf.face.emod 8
  let fontProportional := !st.fixedWidth
  let fontTextSizeH := tf.tw.emod 4
  let fontTextSizeV := tf.th.emod 4
  let titleTextSizeH := ttf.tw.emod 4
  let titleTextSizeV := ttf.th.emod 4
  let acc := { acc with t := { acc.t with spacing := (st.extraSp.emod 4).toNat, wrap := false } }
  let activeWidth := qint (border > 0) (width - border * 2) (width - wShrink)
  let activeHeight := qint (border > 0) (height - border * 2) (height - hShrink)
  let g : Geom := { W := width.toNat, H := height.toNat, wib := (width.toNat + 7) / 8,
                    bx := border, byy := border, bw := activeWidth, bh := activeHeight, inv := false }
  if inp.fmt = 10 then
    let acc := (acc.font fontFaceContent fontProportional).color true
    let textSizeH := constrain st.unfSize 1 4
    let acc := acc.size (qint (fontTextSizeH > 0) fontTextSizeH textSizeH) (qint (fontTextSizeV > 0) fontTextSizeV textSizeH)
    let xOffset := shr1 (constrain (activeWidth - acc.strWidth inp.title) 0 activeWidth)
    let yOffset := shr1 (activeHeight - acc.lineHeight)
    (acc.cursor xOffset yOffset).render g inp.title
  else if inp.fmt = 11 then
    let acc := (acc.font fontFaceContent fontProportional).color true
    let textSizeH := constrain st.unfSize 1 4
    let acc := acc.size (qint (fontTextSizeH > 0) fontTextSizeH textSizeH) (qint (fontTextSizeV > 0) fontTextSizeV textSizeH)
    let xOffset := shr1 (constrain (activeWidth - acc.strWidth inp.line1) 0 activeWidth)
    let yOffset := shr1 activeHeight - acc.lineHeight
    let acc := (acc.cursor xOffset yOffset).render g inp.line1
    let xOffset := shr1 (constrain (activeWidth - acc.strWidth inp.line2) 0 activeWidth)
    let yOffset := shr1 activeHeight
    (acc.cursor xOffset yOffset).render g inp.line2
  else
    let isTitle := inp.title.length > 0
    let mini := height < 32 ∧ width ≠ 256
    let titlePadding := qint (st.titlePad > 0) st.titlePad (qint mini 1 (qint (width = 256) 3 1))
    let acc := acc.font (qint mini 2 fontFaceTitle) fontProportional
    let acc := acc.size (qint (titleTextSizeH > 0) titleTextSizeH (qint (width = 256) 2 1)) (qint (titleTextSizeV > 0) titleTextSizeV 1)
    let titleHeight := u32 ((acc.lineHeight - 1) + 2 * u32 titlePadding)
    let acc :=
      if isTitle then
        let acc :=
          if !inp.solid then
            (acc.emit (.hline 1 (u32 (titleHeight - 1)) (activeWidth - 2) true)).color true
          else
            (acc.emit (.frrect 0 0 activeWidth titleHeight 1 true)).color false
        let xOffset := shr1 (constrain (activeWidth - acc.strWidth inp.title - qint (inp.stateIcon = 2) 6 0) 0 activeWidth)
        let yOffset := constrain (titlePadding - qint (!inp.solid) 1 0) 0 10
        let xOffset := if inp.solid ∧ xOffset = 0 then xOffset + 1 else xOffset
        (acc.cursor xOffset yOffset).render g inp.title
      else acc
    let acc := if inp.stateIcon = 1 then
        acc.emit (.bitmap (activeWidth - 7) titleHeight speedGraphic 5 2 true false false) else acc
    let acc := if inp.stateIcon = 2 then
        acc.emit (.bitmap (activeWidth - 8) (constrain ((u32 (titleHeight - 8)) / 2) (-1) 10) lockGraphic 8 8 true (!inp.solid) true) else acc
    let mainContentTopOffset := qint isTitle titleHeight 0
    let mainContentAvailableHeight := activeHeight - mainContentTopOffset - qint (sc.stype > 0) 3 0
    let mainContentMiddle := mainContentTopOffset + shr1 (mainContentAvailableHeight + 1)
    if mainContentAvailableHeight ≥ 8 then
      let acc := acc.font fontFaceContent fontProportional
      let pair := inp.pair
      let acc := acc.color true
      let acc := acc.size (qint (fontTextSizeH > 0) fontTextSizeH (qint (pair > 0) 1 2))
        (qint (fontTextSizeV > 0) fontTextSizeV (qint (height ≥ 48) 2 0))
      let acc := if height < 32 ∧ pair > 0 then acc.font 2 fontProportional else acc
      let acc := if mainContentAvailableHeight < 12 ∧ pair = 0 ∧ fontTextSizeH = 0 ∧ fontTextSizeV = 0 then acc.size 1 1 else acc
      let acc := ci acc g sc 0 width height activeWidth activeHeight mainContentAvailableHeight mainContentMiddle fontTextSizeH fontTextSizeV
      let acc := if pair > 0 then
          ci acc g sc 1 width height activeWidth activeHeight mainContentAvailableHeight mainContentMiddle fontTextSizeH fontTextSizeV
        else acc
      let acc := if inp.stateIcon = 3 then
          acc.emit (.bitmap (activeWidth - 8) (activeHeight - 8) noAccessGraphic 8 8 true true true) else acc
      if inp.modIcon ≥ 1 ∧ inp.modIcon ≤ 7 then
        acc.emit (.bitmap (activeWidth - 8) (qint isTitle (titleHeight + 1) 0) (iconBytes (inp.modIcon - 1).toNat) 8 8 true false true)
      else acc
    else acc


theorem tileAcc_eq_with (inp : TileIn) (width height shrink border : Int) :
    tileAcc inp width height shrink border =
      tileAccWith (fun acc g sc a w h aw ah m1 m2 f1 f2 => contentIter acc g inp sc a w h aw ah m1 m2 f1 f2)
        inp width height shrink border := rfl

theorem tileAcc_setVal_eq_with (inp : TileIn) (v2 width height shrink border : Int) :
    tileAcc (setVal inp v2) width height shrink border =
      tileAccWith (fun acc g sc a w h aw ah m1 m2 f1 f2 => contentIter acc g (setVal inp v2) sc a w h aw ah m1 m2 f1 f2)
        inp width height shrink border := rfl


theorem tileAccWith_R (ci ci' : Acc → Geom → Scale → Int → Int → Int → Int → Int → Int → Int → Int → Int → Acc)
    (inp : TileIn) (width height shrink border : Int)
    (h0 : ∀ A g w h aw ah m1 m2 f1 f2,
      R (ci A g (inp.scale.getD {}) 0 w h aw ah m1 m2 f1 f2) (ci' A g (inp.scale.getD {}) 0 w h aw ah m1 m2 f1 f2))
    (h1 : ∀ a b g w h aw ah m1 m2 f1 f2, R a b →
      R (ci a g (inp.scale.getD {}) 1 w h aw ah m1 m2 f1 f2) (ci' b g (inp.scale.getD {}) 1 w h aw ah m1 m2 f1 f2)) :
    R (tileAccWith ci inp width height shrink border) (tileAccWith ci' inp width height shrink border) := by
  unfold tileAccWith
  extract_lets
  split
  · exact R.refl _
  split
  · exact R.refl _
  split
  · refine R_ite_emit ?_ _ _
    refine R_ite_emit ?_ _ _
    refine R_ite_good ?_ _ _ _ (fun a b h => h1 a b _ _ _ _ _ _ _ _ _ h)
    exact h0 _ _ _ _ _ _ _ _ _ _
  · exact R.refl _


/-- with the value text unchanged, scale type 1 and a positive range, raising the value only widens the bar -/
theorem tileAcc_R (inp : TileIn) (v2 width height shrink border : Int)
    (hval : valueString inp.fmt inp.intVal = valueString inp.fmt v2)
    (ht : (inp.scale.getD {}).stype = 1) (hr : 0 < i32 ((inp.scale.getD {}).rh - (inp.scale.getD {}).rl))
    (hv : inp.intVal ≤ v2) :
    R (tileAcc inp width height shrink border) (tileAcc (setVal inp v2) width height shrink border) := by
  rw [tileAcc_eq_with, tileAcc_setVal_eq_with]
  apply tileAccWith_R
  · intro A g w h aw ah m1 m2 f1 f2
    exact contentIter_R_zero A g inp v2 _ w h aw ah m1 m2 f1 f2 hval ht hr hv
  · intro a b g w h aw ah m1 m2 f1 f2 hab
    exact contentIter_R_other hab g inp v2 _ 1 w h aw ah m1 m2 f1 f2 (by decide)

end RawPanelVerif.Tile
