import RawPanelVerif.Model.EncIn
import RawPanelVerif.Model.DecIn
import RawPanelVerif.Spec.GrammarIn
/-!
Arithmetic of the packed integers of the inbound protocol (`HWC#`, `HWCx#`, `HWCc#`, text fields 2, 15, 16, 17, 19,
20): the model's bit operations rewritten to `%`, `/`, `*`, `+`, for all values.
-/
namespace RawPanelVerif.InBits
open RawPanelVerif RawPanelVerif.Bytes RawPanelVerif.MsgIn RawPanelVerif.Model.In

theorem or_shl (a b k : Nat) (h : a < 2^k) : a ||| (b <<< k) = b * 2^k + a := by
  rw [Nat.or_comm, ← Nat.shiftLeft_add_eq_or_of_lt h, Nat.shiftLeft_eq]

/-- disjoint bit ranges: `|` is `+` -/
theorem or_add (a b k : Nat) (ha : a < 2^k) (hb : b % 2^k = 0) : a ||| b = a + b := by
  have e : b = (b / 2^k) <<< k := by
    rw [Nat.shiftLeft_eq]
    have := Nat.div_add_mod b (2^k)
    rw [hb] at this
    rw [Nat.mul_comm]; omega
  rw [e, or_shl a _ k ha, ← Nat.shiftLeft_eq, ← e]; omega

theorem or_add' (a b k : Nat) (ha : a < 2^k) (hb : b % 2^k = 0) : b ||| a = b + a := by
  rw [Nat.or_comm, or_add a b k ha hb]; omega

/-- single-bit test -/
theorem and_pow (n k : Nat) : n &&& 2^k = (n / 2^k % 2) * 2^k := by
  have h1 : (n &&& 2^k) / 2^k = n / 2^k % 2 := by
    rw [Nat.and_div_two_pow, Nat.div_self (Nat.two_pow_pos k), Nat.and_one_is_mod]
  have h2 : (n &&& 2^k) % 2^k = 0 := by
    rw [Nat.and_mod_two_pow, Nat.mod_self, Nat.and_zero]
  have := Nat.div_add_mod (n &&& 2^k) (2^k)
  rw [h1, h2] at this
  rw [Nat.mul_comm]; omega

theorem mask1 (n : Nat) : n &&& 1 = n % 2 := Nat.and_two_pow_sub_one_eq_mod n 1
theorem mask3 (n : Nat) : n &&& 3 = n % 4 := Nat.and_two_pow_sub_one_eq_mod n 2
theorem mask7 (n : Nat) : n &&& 7 = n % 8 := Nat.and_two_pow_sub_one_eq_mod n 3
theorem mask15 (n : Nat) : n &&& 15 = n % 16 := Nat.and_two_pow_sub_one_eq_mod n 4
theorem mask31 (n : Nat) : n &&& 31 = n % 32 := Nat.and_two_pow_sub_one_eq_mod n 5
theorem mask4095 (n : Nat) : n &&& 4095 = n % 4096 := Nat.and_two_pow_sub_one_eq_mod n 12

/-- `x & (2^k - 1)` of a Go signed integer (two's complement): the Euclidean remainder -/
theorem landNatI_1 (x : Int) : landNat x 1 = (x % 2).toNat := by unfold landNat; rw [mask1]; omega
theorem landNatI_3 (x : Int) : landNat x 3 = (x % 4).toNat := by unfold landNat; rw [mask3]; omega
theorem landNatI_7 (x : Int) : landNat x 7 = (x % 8).toNat := by unfold landNat; rw [mask7]; omega
theorem landNatI_15 (x : Int) : landNat x 15 = (x % 16).toNat := by unfold landNat; rw [mask15]; omega
theorem landNatI_31 (x : Int) : landNat x 31 = (x % 32).toNat := by unfold landNat; rw [mask31]; omega
theorem landNatI_4095 (x : Int) : landNat x 4095 = (x % 4096).toNat := by unfold landNat; rw [mask4095]; omega

theorem landNat_1 (n : Nat) : landNat (n : Int) 1 = n % 2 := by rw [landNatI_1]; omega
theorem landNat_3 (n : Nat) : landNat (n : Int) 3 = n % 4 := by rw [landNatI_3]; omega
theorem landNat_7 (n : Nat) : landNat (n : Int) 7 = n % 8 := by rw [landNatI_7]; omega
theorem landNat_15 (n : Nat) : landNat (n : Int) 15 = n % 16 := by rw [landNatI_15]; omega
theorem landNat_31 (n : Nat) : landNat (n : Int) 31 = n % 32 := by rw [landNatI_31]; omega
theorem landNat_4095 (n : Nat) : landNat (n : Int) 4095 = n % 4096 := by rw [landNatI_4095]; omega

/-- single bit of a non-negative Go int below 2^64 -/
theorem landNat_bit (n k : Nat) (h : n < 18446744073709551616) : landNat (n : Int) (2^k) = (n / 2^k % 2) * 2^k := by
  unfold landNat
  have : ((n : Int) % 18446744073709551616).toNat = n := by omega
  rw [this, and_pow]

/-- `>>` of a non-negative Go int -/
theorem shr_nat (n k : Nat) : ((n : Int) >>> k) = ((n / 2^k : Nat) : Int) := by
  rw [Int.shiftRight_eq_div_pow]
  norm_cast

/-! ## colour quantisation -/

/-- `su.MapAndConstrainValue(int(c), 0, 0xFF, 0, 0x3) & 0x3` is `⌊c/85⌋` capped at 3, for every `c` -/
theorem quant2_eq (c : Nat) : quant2 c = min 3 (c / 85) := by
  unfold quant2 mapConstrain mapValue constrainValue
  have h0 : Int.tdiv (((c : Int) - 0) * (3 - 0)) (255 - 0) + 0 = ((c / 85 : Nat) : Int) := by
    rw [Int.tdiv_eq_ediv_of_nonneg (by omega)]
    omega
  rw [h0]
  by_cases h : c / 85 > 3
  · have h1 : ¬ ((c / 85 : Nat) : Int) < 0 := by omega
    have h2 : ((c / 85 : Nat) : Int) > 3 := by omega
    simp only [h1, h2, if_false, if_true]
    have := landNat_3 3
    exact this.trans (by omega)
  · have h1 : ¬ ((c / 85 : Nat) : Int) < 0 := by omega
    have h2 : ¬ ((c / 85 : Nat) : Int) > 3 := by omega
    simp only [h1, h2, if_false]
    rw [landNat_3]; omega

theorem quant2_lt (c : Nat) : quant2 c < 4 := by rw [quant2_eq]; omega

/-- `uint32(su.MapAndConstrainValue(k, 0, 0x3, 0, 0xFF))` is `85·k` for a 2-bit `k` -/
theorem expand2_eq (k : Nat) (h : k < 4) : expand2 k = 85 * k := by
  unfold expand2 mapConstrain mapValue constrainValue u32
  have h0 : Int.tdiv (((k : Int) - 0) * (255 - 0)) (3 - 0) + 0 = ((85 * k : Nat) : Int) := by
    rw [Int.tdiv_eq_ediv_of_nonneg (by omega)]
    omega
  rw [h0]
  have h1 : ¬ ((85 * k : Nat) : Int) < 0 := by omega
  have h2 : ¬ ((85 * k : Nat) : Int) > 255 := by omega
  simp only [h1, h2, if_false]
  omega

open RawPanelVerif.Spec.In

/-! ## packed integers as sums, and what the reference reader makes of them -/

theorem or_right_comm' (a b c : Nat) : (a ||| b) ||| c = (a ||| c) ||| b := by
  rw [Nat.or_assoc, Nat.or_comm b c, ← Nat.or_assoc]

theorem modeInt_eq (s : Int) (b : Nat) (o : Bool) :
    modeInt { state := s, output := o, blink := b } = (s % 8).toNat + (b % 16) * 256 + (if o then 32 else 0) := by
  unfold modeInt
  simp only []
  rw [landNatI_7, mask15, Nat.shiftLeft_eq, or_right_comm']
  have hs : (s % 8).toNat < 8 := by omega
  cases o
  · simp only [Bool.false_eq_true, if_false, Nat.or_zero, Nat.add_zero]
    exact or_add _ _ 8 (by omega) (by omega)
  · simp only [if_true]
    rw [or_add _ 32 3 (by omega) (by decide)]
    rw [or_add _ _ 8 (by omega) (by omega)]
    omega

theorem extInt_eq (i : Int) (v : Nat) :
    extInt { interp := i, value := v } = v % 4096 + (i % 16).toNat * 4096 := by
  unfold extInt
  simp only []
  rw [landNatI_15, mask4095, Nat.shiftLeft_eq]
  exact or_add _ _ 12 (by omega) (by omega)

theorem colorIndexInt_eq (i : Int) : colorIndexInt i = 128 + (i % 32).toNat := by
  unfold colorIndexInt
  rw [landNatI_31, or_add' _ 128 5 (by omega) (by decide)]

theorem rgbBits (r g b : Nat) (hr : r < 4) (hg : g < 4) (hb : b < 4) (base : Nat) (hbase : base % 64 = 0) :
    base ||| (r <<< 4) ||| (g <<< 2) ||| (b <<< 0) = base + 16 * r + 4 * g + b := by
  rw [Nat.shiftLeft_eq, Nat.shiftLeft_eq, Nat.shiftLeft_eq]
  rw [or_add' (r * 2^4) base 6 (by omega) (by omega)]
  rw [or_add' (g * 2^2) (base + r * 2^4) 4 (by omega) (by omega)]
  rw [or_add' (b * 2^0) _ 2 (by omega) (by omega)]
  omega

theorem colorRGBInt_eq (c : ColorRGB) :
    colorRGBInt c = 192 + 16 * min 3 (c.red / 85) + 4 * min 3 (c.green / 85) + min 3 (c.blue / 85) := by
  unfold colorRGBInt
  rw [rgbBits _ _ _ (quant2_lt _) (quant2_lt _) (quant2_lt _) 192 (by decide), quant2_eq, quant2_eq, quant2_eq]

theorem colorInt_rgb (c : ColorRGB) (i : Option Int) :
    colorInt { rgb := some c, index := i } = 64 + 16 * min 3 (c.red / 85) + 4 * min 3 (c.green / 85) + min 3 (c.blue / 85) := by
  unfold colorInt
  simp only []
  rw [rgbBits _ _ _ (quant2_lt _) (quant2_lt _) (quant2_lt _) 64 (by decide), quant2_eq, quant2_eq, quant2_eq]

theorem colorInt_index (i : Int) : colorInt { rgb := none, index := some i } = (i % 32).toNat := by
  unfold colorInt
  simp only []
  rw [landNatI_31]

theorem iconInt_eq (t : Text) : iconInt t = (t.stateIcon % 4).toNat + 8 * (t.modifierIcon % 8).toNat := by
  unfold iconInt
  rw [landNatI_3, landNatI_7, Nat.shiftLeft_eq, Nat.shiftLeft_eq]
  rw [or_add _ _ 3 (by omega) (by omega)]
  omega

theorem advSettingsBits_eq (ts : TextStyle) : advSettingsBits ts = ts.titleBarPadding % 4 + 4 * (ts.extraSpacing % 8) := by
  unfold advSettingsBits
  rw [mask3, mask7, Nat.shiftLeft_eq, or_add _ _ 2 (by omega) (by omega)]
  omega

def faceOf (f : Option Font) : Nat := match f with | some f => (f.face % 8).toNat | none => 0
def wOf (f : Option Font) : Nat := match f with | some f => f.width % 4 | none => 0
def hOf (f : Option Font) : Nat := match f with | some f => f.height % 4 | none => 0

theorem or3 (A B C : Nat) (hA : A < 8) (hB : B % 8 = 0) (hB' : B < 64) (hC : C % 64 = 0) :
    (A ||| B) ||| C = A + B + C := by
  rw [or_add A B 3 (by omega) (by omega), or_add (A + B) C 6 (by omega) (by omega)]

theorem or4 (A B C D : Nat) (hA : A < 4) (hB : B % 4 = 0) (hB' : B < 16) (hC : C % 16 = 0) (hC' : C < 64) (hD : D % 64 = 0) :
    (A ||| B) ||| (C ||| D) = A + B + C + D := by
  rw [or_add A B 2 (by omega) (by omega), or_add C D 6 (by omega) (by omega),
      or_add (A + B) (C + D) 4 (by omega) (by omega)]
  omega

theorem fontFaceBits_eq (ts : TextStyle) :
    fontFaceBits ts = faceOf ts.textFont + 8 * faceOf ts.titleFont + 64 * (if ts.fixedWidth then 1 else 0) := by
  obtain ⟨tf, xf, fixed, pad, sp, ufs⟩ := ts
  unfold fontFaceBits faceOf
  cases tf <;> cases xf <;> cases fixed <;>
    simp only [landNatI_7, Nat.shiftLeft_eq, if_true, Bool.false_eq_true, if_false] <;>
    rw [or3 _ _ _ (by omega) (by omega) (by omega) (by omega)] <;> try omega

theorem fontSizeBits_eq (ts : TextStyle) :
    fontSizeBits ts = wOf ts.textFont + 4 * hOf ts.textFont + 16 * wOf ts.titleFont + 64 * hOf ts.titleFont := by
  obtain ⟨tf, xf, fixed, pad, sp, ufs⟩ := ts
  unfold fontSizeBits wOf hOf
  cases tf <;> cases xf <;> simp only [mask3, Nat.shiftLeft_eq]
  · rfl
  · rw [Nat.or_zero, or_add _ _ 2 (by omega) (by omega)]; omega
  · rw [Nat.zero_or, or_add _ _ 6 (by omega) (by omega)]; omega
  · rw [or4 _ _ _ _ (by omega) (by omega) (by omega) (by omega) (by omega) (by omega)]; omega

/-! ## kernels: the reader on the packed integers -/

/-- `HWC#`: for every state 0-5, output flag and blink mask 0-15 the reader recovers exactly these -/
theorem mode_pack (s b : Nat) (o : Bool) (hs : s < 6) (hb : b < 16) :
    readMode (modeInt { state := (s : Int), output := o, blink := b }) = { state := s, output := o, blink := b } := by
  rw [modeInt_eq]
  unfold readMode
  have e : ((s : Int) % 8).toNat = s := by omega
  rw [e]
  cases o <;> simp <;> omega


/-- `HWCx#`: every interpretation 0-15 and value 0-4095 -/
theorem ext_pack (i v : Nat) (hi : i < 16) (hv : v < 4096) :
    readExt (extInt { interp := (i : Int), value := v }) = { interp := i, value := v } := by
  rw [extInt_eq]
  unfold readExt
  have e : ((i : Int) % 16).toNat = i := by omega
  rw [e]
  simp; omega


/-- `HWCc#` index colours 0-31 -/
theorem colIndex_pack (i : Nat) (hi : i < 32) : readColor (colorIndexInt (i : Int)) = .index i := by
  rw [colorIndexInt_eq]
  unfold readColor
  have e : ((i : Int) % 32).toNat = i := by omega
  rw [e]
  have h1 : ¬ ((128 + i) / 64 % 2 = 1) := by omega
  simp only [h1, if_false]
  congr 1; omega


/-- `HWCc#` RGB: for EVERY triple (any 32-bit channel values) the reader yields the 2-bit level of each channel -/
theorem colRGB_pack (r g b : Nat) :
    readColor (colorRGBInt { red := r, green := g, blue := b }) = .rgb (level2 r) (level2 g) (level2 b) := by
  rw [colorRGBInt_eq]
  unfold readColor level2
  simp only []
  have h1 : (192 + 16 * min 3 (r / 85) + 4 * min 3 (g / 85) + min 3 (b / 85)) / 64 % 2 = 1 := by omega
  simp only [h1, if_true]
  congr 1 <;> omega


/-- colour fields 19/20 of a text line (`convertToColorInteger`) -/
theorem textColor_pack_rgb (r g b : Nat) (i : Option Int) :
    readColor (colorInt { rgb := some { red := r, green := g, blue := b }, index := i }) = .rgb (level2 r) (level2 g) (level2 b) := by
  rw [colorInt_rgb]
  unfold readColor level2
  simp only []
  have h1 : (64 + 16 * min 3 (r / 85) + 4 * min 3 (g / 85) + min 3 (b / 85)) / 64 % 2 = 1 := by omega
  simp only [h1, if_true]
  congr 1 <;> omega

theorem textColor_pack_index (i : Nat) (hi : i < 32) : readColor (colorInt { rgb := none, index := some (i : Int) }) = .index i := by
  rw [colorInt_index]
  unfold readColor
  have e : ((i : Int) % 32).toNat = i := by omega
  rw [e]
  have h1 : ¬ (i / 64 % 2 = 1) := by omega
  simp only [h1, if_false]
  rw [Nat.mod_eq_of_lt hi]


end RawPanelVerif.InBits
