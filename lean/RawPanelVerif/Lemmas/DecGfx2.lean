import RawPanelVerif.Lemmas.DecGfx2a
/-! C02 `dec_sound`, graphics lines, part 2: a well-formed graphics line is a part `p` for the reference reader and is
accepted by the decoder's `regex_gfx` with sub-matches that denote `p` (`gfx_line`). -/
namespace RawPanelVerif.DecGfx
open RawPanelVerif RawPanelVerif.Bytes RawPanelVerif.MsgIn RawPanelVerif.Model.In RawPanelVerif.Spec.In
open RawPanelVerif.DecSound RawPanelVerif.DecShape RawPanelVerif.ReadIn RawPanelVerif.EncSound

theorem noLF_tail (a : Bytes) (c : UInt8) (b : Bytes) (h : noLF (a ++ c :: b) = true) : noLF b = true := by
  unfold noLF at h ⊢
  simp only [Bool.not_eq_true', List.contains_eq_mem, List.mem_append, List.mem_cons, decide_eq_false_iff_not] at h ⊢
  intro hm; exact h (Or.inr (Or.inr hm))

theorem header_inv (hh : Bytes) (hd : Nat × Nat × Nat × Option (Nat × Nat)) (h : readGfxHeader hh = some hd) :
    ∃ mx w h' MX W H, num? mx = some MX ∧ num? w = some W ∧ num? h' = some H ∧
      ((hh = mx ++ 44 :: (w ++ 120 :: h') ∧ hd = (MX, W, H, none)) ∨
       (∃ x y X Y, num? x = some X ∧ num? y = some Y ∧ hh = mx ++ 44 :: (w ++ 120 :: (h' ++ 44 :: (x ++ 44 :: y))) ∧
          hd = (MX, W, H, some (X, Y)))) := by
  have hj := join_splitOn 44 hh
  unfold readGfxHeader at h
  split at h
  · rename_i mx wh heq
    rw [heq] at hj
    cases hmx : num? mx with
    | none => rw [hmx] at h; simp at h
    | some MX =>
      cases hc : cut 120 wh with
      | none => rw [hmx, hc] at h; simp at h
      | some q =>
        obtain ⟨w, h'⟩ := q
        rw [hmx, hc] at h
        simp only [] at h
        cases hw : num? w with
        | none => rw [hw] at h; simp at h
        | some W =>
          cases hh' : num? h' with
          | none => rw [hw, hh'] at h; simp at h
          | some H =>
            rw [hw, hh'] at h
            simp only [Option.some.injEq] at h
            obtain ⟨e, _⟩ := cut_some 120 wh w h' hc
            refine ⟨mx, w, h', MX, W, H, hmx, hw, hh', Or.inl ⟨?_, h.symm⟩⟩
            rw [← hj, e]; rfl
  · rename_i mx wh x y heq
    rw [heq] at hj
    cases hmx : num? mx with
    | none => rw [hmx] at h; simp at h
    | some MX =>
      cases hc : cut 120 wh with
      | none => rw [hmx, hc] at h; simp at h
      | some q =>
        obtain ⟨w, h'⟩ := q
        rw [hmx, hc] at h
        simp only [] at h
        cases hw : num? w with
        | none => rw [hw] at h; simp at h
        | some W =>
          cases hh' : num? h' with
          | none => rw [hw, hh'] at h; simp at h
          | some H =>
            cases hx : num? x with
            | none => rw [hw, hh', hx] at h; simp at h
            | some X =>
              cases hy : num? y with
              | none => rw [hw, hh', hx, hy] at h; simp at h
              | some Y =>
                rw [hw, hh', hx, hy] at h
                simp only [Option.some.injEq] at h
                obtain ⟨e, _⟩ := cut_some 120 wh w h' hc
                refine ⟨mx, w, h', MX, W, H, hmx, hw, hh', Or.inr ⟨x, y, X, Y, hx, hy, ?_, h.symm⟩⟩
                rw [← hj, e]
                simp [join]
  · simp at h

theorem u32_num (s : Bytes) (n : Nat) (h : num? s = some n) : u32 (atoiV s) = n := by
  rw [num_atoiV s n h, u32_cast n (num_spec s n h).2.2.2]

theorem gfx_line_core (kind : GfxKind) (pre : List Bytes) (kw : Bytes) (post : List Bytes) (ids v : Bytes) (idl : List Nat)
    (hk : kwGfx = pre ++ kw :: post) (hpre : pre.all (fun p => mismatch p kw) = true) (hcode : gfxTypeOf kw = codeOf kind)
    (hids : ids? ids = some idl) (hlf : noLF v = true) (hwf : gfxWellFormed kind ids v = true) :
    ∃ p m, readGfx kind ids v = some p ∧ matchGfx (kw ++ ids ++ 61 :: v) = some m ∧ GRel (kw ++ ids ++ 61 :: v) m p := by
  obtain ⟨i1, i2, i3⟩ := ids_spec ids idl hids
  unfold gfxWellFormed at hwf
  simp only [Bool.and_eq_true] at hwf
  obtain ⟨hsome, hcan⟩ := hwf
  obtain ⟨p, hp⟩ := isSome_iff _ hsome
  cases hcut : cut 58 v with
  | none => rw [hcut] at hcan; simp at hcan
  | some pb =>
    obtain ⟨pr, b64⟩ := pb
    rw [hcut] at hcan
    simp only [] at hcan
    obtain ⟨ev, _⟩ := cut_some 58 v pr b64 hcut
    have hok := canonical_ok b64 hcan
    have hlfd : noLF b64 = true := by rw [ev] at hlf; exact noLF_tail _ _ _ hlf
    refine ⟨p, ?_⟩
    have hp' := hp
    unfold readGfx at hp'
    rw [hids, hcut] at hp'
    simp only [] at hp'
    split at hp'
    · simp at hp'
    · cases h47 : cut 47 pr with
      | none =>
        rw [h47] at hp'
        simp only [] at hp'
        cases hn : num? pr with
        | none => rw [hn] at hp'; simp at hp'
        | some i =>
          rw [hn] at hp'
          simp only [Option.map_some, Option.some.injEq] at hp'
          obtain ⟨n1, n2, n3, n4⟩ := num_spec pr i hn
          subst ev
          refine ⟨_, hp, matchGfx_A pre kw post ids pr b64 hk hpre i1 i2 n1 n2 hlfd, ?_⟩
          refine ⟨kw, ids, pr, [], [], [], [], [], [], [], b64, rfl, ?_, ?_, i1, ?_, ?_, ?_, hok, Or.inl ⟨rfl, ?_⟩⟩
          all_goals rw [← hp']
          · exact hcode
          · exact i3
          · exact num_atoiV pr i hn
      | some q =>
        obtain ⟨si, hh⟩ := q
        rw [h47] at hp'
        simp only [] at hp'
        obtain ⟨e47, _⟩ := cut_some 47 pr si hh h47
        cases hn : num? si with
        | none => rw [hn] at hp'; simp at hp'
        | some i =>
          cases hhd : readGfxHeader hh with
          | none => rw [hn, hhd] at hp'; simp at hp'
          | some hd =>
            rw [hn, hhd] at hp'
            simp only [Option.some.injEq] at hp'
            obtain ⟨n1, n2, n3, n4⟩ := num_spec si i hn
            obtain ⟨mx, w, h', MX, W, H, hmx, hw, hh', hcase⟩ := header_inv hh hd hhd
            obtain ⟨m1, m2, _, _⟩ := num_spec mx MX hmx
            obtain ⟨w1, w2, _, _⟩ := num_spec w W hw
            obtain ⟨h1, h2, _, _⟩ := num_spec h' H hh'
            rcases hcase with ⟨ehh, ehd⟩ | ⟨x, y, X, Y, hx, hy, ehh, ehd⟩
            · have evv : v = si ++ 47 :: (mx ++ 44 :: (w ++ 120 :: (h' ++ 58 :: b64))) := by
                rw [ev, e47, ehh]; simp
              subst evv
              refine ⟨_, hp, matchGfx_B1 pre kw post ids si mx w h' b64 hk hpre i1 i2 n1 n2 m1 m2 w1 w2 h1 h2 hlfd, ?_⟩
              refine ⟨kw, ids, si, _, mx, w, h', [], [], [], b64, rfl, ?_, ?_, i1, ?_, ?_, ?_, hok,
                Or.inr ⟨MX, W, H, by simp, num_atoiV mx MX hmx, u32_num w W hw, u32_num h' H hh', Or.inl ⟨rfl, rfl, rfl, ?_⟩⟩⟩
              all_goals rw [← hp']
              · exact hcode
              · exact i3
              · exact num_atoiV si i hn
              · rw [ehd]
            · obtain ⟨x1, x2, _, _⟩ := num_spec x X hx
              obtain ⟨y1, y2, _, _⟩ := num_spec y Y hy
              have evv : v = si ++ 47 :: (mx ++ 44 :: (w ++ 120 :: (h' ++ 44 :: (x ++ 44 :: (y ++ 58 :: b64))))) := by
                rw [ev, e47, ehh]; simp
              subst evv
              refine ⟨_, hp, matchGfx_B2 pre kw post ids si mx w h' x y b64 hk hpre i1 i2 n1 n2 m1 m2 w1 w2 h1 h2 x1 x2 y1 y2 hlfd, ?_⟩
              refine ⟨kw, ids, si, _, mx, w, h', _, x, y, b64, rfl, ?_, ?_, i1, ?_, ?_, ?_, hok,
                Or.inr ⟨MX, W, H, by simp, num_atoiV mx MX hmx, u32_num w W hw, u32_num h' H hh',
                  Or.inr ⟨X, Y, by simp, u32_num x X hx, u32_num y Y hy, ?_⟩⟩⟩
              all_goals rw [← hp']
              · exact hcode
              · exact i3
              · exact num_atoiV si i hn
              · rw [ehd]

/-! ## the whole line -/

theorem firstKw_none (ks : List Bytes) (kw r : Bytes) (h : ks.all (fun k => mismatch k kw) = true) :
    firstKw ks (kw ++ r) = none := by
  induction ks with
  | nil => rfl
  | cons k ks ih =>
    simp only [List.all_cons, Bool.and_eq_true] at h
    simp only [firstKw, stripPrefix_mismatch k kw r h.1]
    exact ih h.2

/-- what `classify` demands of a graphics line -/
theorem classify_gfx (O : Oracles) (l key v fam ids : Bytes) (kind : GfxKind)
    (hc : cut 61 l = some (key, v)) (hf : cut 35 key = some (fam, ids))
    (hfam : (fam = asc "HWCg" ∧ kind = .mono) ∨ (fam = asc "HWCgRGB" ∧ kind = .rgb) ∨ (fam = asc "HWCgGray" ∧ kind = .gray))
    (hw : classify O l = .wellFormed) :
    l.contains 10 = false ∧ ∃ idl, ids? ids = some idl ∧ gfxWellFormed kind ids v = true := by
  obtain ⟨hl, _⟩ := hash_line_eq l key v _ ids hc hf
  have hhead : l.head? = some 72 := by
    rw [hl]
    rcases hfam with ⟨rfl, _⟩ | ⟨rfl, _⟩ | ⟨rfl, _⟩ <;> rfl
  unfold classify at hw
  split at hw
  · simp at hhead
  · simp at hhead
  · rw [hc] at hw
    simp only [] at hw
    rw [hf] at hw
    simp only [] at hw
    split at hw
    · simp at hw
    · split at hw
      · simp at hw
      · rename_i hg hlf
        refine ⟨bool_not_true hlf, ?_⟩
        have hok := wf_of_ite _ hw
        rcases hfam with ⟨rfl, rfl⟩ | ⟨rfl, rfl⟩ | ⟨rfl, rfl⟩
        · rw [if_neg (show ¬ asc "HWCg" = asc "Flag" by decide)] at hok
          cases hids : ids? ids with
          | none => rw [hids] at hok; simp at hok
          | some idl =>
            rw [hids] at hok
            simp only [Option.isNone_some, Bool.false_eq_true, if_false] at hok
            rw [if_neg (show ¬ (asc "HWCg" = asc "HWC" ∨ asc "HWCg" = asc "HWCx" ∨ asc "HWCg" = asc "HWCc") by decide),
              if_neg (show ¬ asc "HWCg" = asc "HWCt" by decide),
              if_neg (show ¬ asc "HWCg" = asc "HWCrawADCValues" by decide), if_pos trivial] at hok
            exact ⟨idl, rfl, hok⟩
        · rw [if_neg (show ¬ asc "HWCgRGB" = asc "Flag" by decide)] at hok
          cases hids : ids? ids with
          | none => rw [hids] at hok; simp at hok
          | some idl =>
            rw [hids] at hok
            simp only [Option.isNone_some, Bool.false_eq_true, if_false] at hok
            rw [if_neg (show ¬ (asc "HWCgRGB" = asc "HWC" ∨ asc "HWCgRGB" = asc "HWCx" ∨ asc "HWCgRGB" = asc "HWCc") by decide),
              if_neg (show ¬ asc "HWCgRGB" = asc "HWCt" by decide),
              if_neg (show ¬ asc "HWCgRGB" = asc "HWCrawADCValues" by decide),
              if_neg (show ¬ asc "HWCgRGB" = asc "HWCg" by decide), if_pos trivial] at hok
            exact ⟨idl, rfl, hok⟩
        · rw [if_neg (show ¬ asc "HWCgGray" = asc "Flag" by decide)] at hok
          cases hids : ids? ids with
          | none => rw [hids] at hok; simp at hok
          | some idl =>
            rw [hids] at hok
            simp only [Option.isNone_some, Bool.false_eq_true, if_false] at hok
            rw [if_neg (show ¬ (asc "HWCgGray" = asc "HWC" ∨ asc "HWCgGray" = asc "HWCx" ∨ asc "HWCgGray" = asc "HWCc") by decide),
              if_neg (show ¬ asc "HWCgGray" = asc "HWCt" by decide),
              if_neg (show ¬ asc "HWCgGray" = asc "HWCrawADCValues" by decide),
              if_neg (show ¬ asc "HWCgGray" = asc "HWCg" by decide),
              if_neg (show ¬ asc "HWCgGray" = asc "HWCgRGB" by decide)] at hok
            exact ⟨idl, rfl, hok⟩

/-- what the decoder and the reader see in a graphics line -/
def GfxLine (O : Oracles) (l : Bytes) : Prop :=
  ∃ p m, readLine O l = .gfx p ∧ literalMsg l = none ∧ l.head? ≠ some 123 ∧ l.head? ≠ some 91 ∧ matchCmd l = none ∧
    matchGfx l = some m ∧ GRel l m p

theorem gfx_line_fam (O : Oracles) (l key v fam ids kw : Bytes) (kind : GfxKind) (pre post : List Bytes)
    (hc : cut 61 l = some (key, v)) (hf : cut 35 key = some (fam, ids))
    (hkw : kw = fam ++ [35]) (hk0 : keyHeadOk kw = true)
    (hk : kwGfx = pre ++ kw :: post) (hpre : pre.all (fun p => mismatch p kw) = true) (hcode : gfxTypeOf kw = codeOf kind)
    (hcmd : kwCmd.all (fun k => mismatch k kw) = true)
    (hread : ∀ p, readGfx kind ids v = some p → readHash fam ids v = .gfx p)
    (hlf : l.contains 10 = false) (idl : List Nat) (hids : ids? ids = some idl) (hwf : gfxWellFormed kind ids v = true) :
    GfxLine O l := by
  obtain ⟨hl, h35⟩ := hash_line_eq l key v _ ids hc hf
  have hl' : l = kw ++ ids ++ 61 :: v := by rw [hl, hkw]
  obtain ⟨p, m, hp, hm, hrel⟩ := gfx_line_core kind pre kw post ids v idl hk hpre hcode hids (noLF_of_contains l key v hc hlf) hwf
  have hh : l.head? ≠ some 123 ∧ l.head? ≠ some 91 := by rw [hl', List.append_assoc]; exact head_kw _ _ hk0
  refine ⟨p, m, ?_, literal_none_of_hash l h35, hh.1, hh.2, ?_, by rw [hl']; exact hm, by rw [hl']; exact hrel⟩
  · rw [readLine_hash O l key v _ ids hh.1 hh.2 hc hf]
    exact hread p hp
  · rw [hl', List.append_assoc]
    unfold matchCmd
    rw [firstKw_none kwCmd kw _ hcmd]

theorem isGfxLine_inv (l : Bytes) (h : isGfxLine l = true) :
    ∃ key v fam ids, cut 61 l = some (key, v) ∧ cut 35 key = some (fam, ids) ∧
      (fam = asc "HWCg" ∨ fam = asc "HWCgRGB" ∨ fam = asc "HWCgGray") := by
  unfold isGfxLine at h
  cases hc : cut 61 l with
  | none => rw [hc] at h; simp at h
  | some kv =>
    obtain ⟨key, v⟩ := kv
    rw [hc] at h
    simp only [] at h
    cases hf : cut 35 key with
    | none => rw [hf] at h; simp at h
    | some fi =>
      obtain ⟨fam, ids⟩ := fi
      rw [hf] at h
      simp only [Bool.or_eq_true, beq_iff_eq] at h
      refine ⟨key, v, fam, ids, rfl, hf, ?_⟩
      rcases h with (h | h) | h
      · exact Or.inl h
      · exact Or.inr (Or.inl h)
      · exact Or.inr (Or.inr h)

/-- **a well-formed graphics line** -/
theorem gfx_line (O : Oracles) (l : Bytes) (hw : classify O l = .wellFormed) (hg : isGfxLine l = true) : GfxLine O l := by
  obtain ⟨key, v, fam, ids, hc, hf, hfam⟩ := isGfxLine_inv l hg
  rcases hfam with rfl | rfl | rfl
  · obtain ⟨hlf, idl, hids, hwf⟩ := classify_gfx O l key v _ ids .mono hc hf (Or.inl ⟨rfl, rfl⟩) hw
    refine gfx_line_fam O l key v _ ids (asc "HWCg#") .mono [asc "HWCgRGB#", asc "HWCgGray#"] [] hc hf (by decide) (by decide)
      (by decide) (by decide) (by decide) (by decide) ?_ hlf idl hids hwf
    intro p hp
    unfold readHash
    rw [if_neg (by decide), if_neg (by decide), if_neg (by decide), if_neg (by decide), if_neg (by decide), if_pos rfl, hp]
  · obtain ⟨hlf, idl, hids, hwf⟩ := classify_gfx O l key v _ ids .rgb hc hf (Or.inr (Or.inl ⟨rfl, rfl⟩)) hw
    refine gfx_line_fam O l key v _ ids (asc "HWCgRGB#") .rgb [] [asc "HWCgGray#", asc "HWCg#"] hc hf (by decide) (by decide)
      (by decide) (by decide) (by decide) (by decide) ?_ hlf idl hids hwf
    intro p hp
    unfold readHash
    rw [if_neg (by decide), if_neg (by decide), if_neg (by decide), if_neg (by decide), if_neg (by decide), if_neg (by decide),
      if_pos rfl, hp]
  · obtain ⟨hlf, idl, hids, hwf⟩ := classify_gfx O l key v _ ids .gray hc hf (Or.inr (Or.inr ⟨rfl, rfl⟩)) hw
    refine gfx_line_fam O l key v _ ids (asc "HWCgGray#") .gray [asc "HWCgRGB#"] [asc "HWCg#"] hc hf (by decide) (by decide)
      (by decide) (by decide) (by decide) (by decide) ?_ hlf idl hids hwf
    intro p hp
    unfold readHash
    rw [if_neg (by decide), if_neg (by decide), if_neg (by decide), if_neg (by decide), if_neg (by decide), if_neg (by decide),
      if_neg (by decide), if_pos rfl, hp]

end RawPanelVerif.DecGfx
