import RawPanelVerif.Model.DecIn
import RawPanelVerif.Spec.GrammarIn
/-! C02 `dec_sound`, graphics lines: DEFINITIONS only (no proofs).
* `gfxOpen` / `gfxAccept`: the two halves of `Model.In.decGfx` (repaired semantics, `pinned = false`) as pure functions
  of the twelve sub-matches;
* `Inv`: the correspondence between the decoder's reassembly state and the reference reader's transfer state;
* `blankGfx`, `noBlankImage`: the guard of `dec_sound_partial_gfx` — no graphics transfer delivers the all-default
  image (mono, 0×0, no offset, no data), the one image whose message `effectsOfStateId` gives no effect. -/
namespace RawPanelVerif.DecGfx
open RawPanelVerif RawPanelVerif.Bytes RawPanelVerif.MsgIn RawPanelVerif.Model.In RawPanelVerif.Spec.In

/-- chunk 0 (re)opens the transfer: lines 352-375 -/
def gfxOpen (g : GfxSt) (kw ids idx hdr mx w h xy x y : Bytes) : GfxSt :=
  if atoiV idx = 0 then
    if hdr.length > 0 then
      { g with hwcList := ids, count := -1, imageType := gfxTypeOf kw, alias := none, max := atoiV mx,
               temp := { imageType := i32 (gfxTypeOf kw), w := u32 (atoiV w), h := u32 (atoiV h),
                         xyOffset := xy.length > 0, x := u32 (atoiV x), y := u32 (atoiV y) } }
    else
      { g with hwcList := ids, count := -1, imageType := gfxTypeOf kw, alias := none, max := 2,
               temp := { imageType := i32 (gfxTypeOf kw), w := 64, h := 32 } }
  else g

/-- a chunk is accepted, delivered, or drops the transfer: lines 377-405 (after `fix:` 87cf381) -/
def gfxAccept (st : GfxSt) (kw ids idx d : Bytes) : GfxSt × Option InMsg :=
  if st.imageType = gfxTypeOf kw then
    if ids = st.hwcList then
      if atoiV idx = st.count + 1 ∧ (B64.decodeGo d).2 = true then
        if atoiV idx = st.max then
          ({ st with count := st.count + 1, temp := {}, hwcList := [] },
           some (stateMsg { ids := intExplode st.hwcList,
                            gfx := some { st.temp with imageData := st.temp.imageData ++ B64In.decode d } }))
        else ({ st with count := st.count + 1,
                        temp := { st.temp with imageData := st.temp.imageData ++ B64In.decode d } }, none)
      else ({ st with hwcList := [] }, none)
    else (st, none)
  else (st, none)

/-- the `imageType` number of a graphics family -/
def codeOf : GfxKind → Int
  | .mono => 0
  | .rgb => 1
  | .gray => 2

def xyX (xy : Option (Nat × Nat)) : Nat := match xy with | some (x, _) => x | none => 0
def xyY (xy : Option (Nat × Nat)) : Nat := match xy with | some (_, y) => y | none => 0

/-- the image under construction of an open transfer -/
def tempOf (t : Xfer) : Gfx :=
  { imageType := codeOf t.kind, w := t.w, h := t.h, xyOffset := t.xy.isSome, x := xyX t.xy, y := xyY t.xy, imageData := t.data }

/-- decoder state `g` and reader state `x` describe the same transfer (or both none) -/
def Inv (g : GfxSt) (x : Option Xfer) : Prop :=
  g.alias = none ∧
  (match x with
   | none => g.hwcList = []
   | some t => g.hwcList = t.idsText ∧ g.count + 1 = (t.next : Int) ∧ g.max = (t.last : Int) ∧ g.imageType = codeOf t.kind ∧
       g.temp = tempOf t ∧ intExplode t.idsText = t.ids)

/-- the sub-matches `m` of a graphics line denote the part `p` -/
def GRel (l : Bytes) (m : List Bytes) (p : GfxPart) : Prop :=
  ∃ kw ids idx hdr mx w h xy x y d,
    m = [l, kw, ids, idx, hdr, mx, w, h, xy, x, y, d] ∧ gfxTypeOf kw = codeOf p.kind ∧ ids = p.idsText ∧ ids ≠ [] ∧
    intExplode ids = p.ids ∧ atoiV idx = (p.index : Int) ∧ p.data = B64In.decode d ∧ (B64.decodeGo d).2 = true ∧
    ((hdr = [] ∧ p.header = none) ∨
     (∃ MX W H : Nat, hdr ≠ [] ∧ atoiV mx = (MX : Int) ∧ u32 (atoiV w) = W ∧ u32 (atoiV h) = H ∧
        ((xy = [] ∧ x = [] ∧ y = [] ∧ p.header = some (MX, W, H, none)) ∨
         (∃ X Y : Nat, xy ≠ [] ∧ u32 (atoiV x) = X ∧ u32 (atoiV y) = Y ∧ p.header = some (MX, W, H, some (X, Y))))))

/-- the all-default image: the message carrying it has no effect (`effectsOfStateId`) -/
def blankGfx : GfxE := { kind := .mono, w := 0, h := 0, xy := none, data := [] }

def isBlankEffect (e : Effect) : Bool :=
  match e with
  | .setGfx _ g => g == blankGfx
  | _ => false

/-- no graphics transfer of the sequence delivers the all-default image -/
def noBlankImage (O : Oracles) : Option Xfer → List Bytes → Bool
  | _, [] => true
  | x, l :: ls =>
    match readLine O l with
    | .effects _ => noBlankImage O x ls
    | .gfx p => !(stepGfx x p).2.any isBlankEffect && noBlankImage O (stepGfx x p).1 ls

/-- the reference reader with the deliveries of the all-default image left out -/
def readFromNB (O : Oracles) : Option Xfer → List Bytes → List Effect
  | _, [] => []
  | x, l :: ls =>
    match readLine O l with
    | .effects es => es ++ readFromNB O x ls
    | .gfx p => (stepGfx x p).2.filter (fun e => !isBlankEffect e) ++ readFromNB O (stepGfx x p).1 ls

end RawPanelVerif.DecGfx
