import RawPanelVerif.Model.Topology
/-! Finite maps as strictly ascending association lists: `Map.lookup` / `Map.insert` laws, extensionality. -/
namespace RawPanelVerif.Topo

/-- keys strictly ascending (canonical form of a Go map in the model) -/
def Map.Sorted {α : Type} (m : Map α) : Prop := List.Pairwise (· < ·) (Map.keys m)

theorem Map.lookup_insert_self {α : Type} (m : Map α) (k : Nat) (v : α) :
    Map.lookup (Map.insert m k v) k = some v := by
  induction m with
  | nil => simp [Map.insert, Map.lookup]
  | cons e r ih =>
    obtain ⟨k', v'⟩ := e
    simp only [Map.insert]
    by_cases h1 : k < k'
    · simp [h1, Map.lookup]
    · by_cases h2 : k = k'
      · simp [h2, Map.lookup]
      · simp [h1, h2, Map.lookup, ih]

theorem Map.lookup_insert_ne {α : Type} (m : Map α) (k q : Nat) (v : α) (h : q ≠ k) :
    Map.lookup (Map.insert m k v) q = Map.lookup m q := by
  induction m with
  | nil => simp [Map.insert, Map.lookup, h]
  | cons e r ih =>
    obtain ⟨k', v'⟩ := e
    simp only [Map.insert]
    by_cases h1 : k < k'
    · simp [h1, Map.lookup, h]
    · by_cases h2 : k = k'
      · subst h2; simp [Map.lookup, h]
      · simp only [h1, h2, if_false, Map.lookup, ih]

theorem Map.mem_keys_insert {α : Type} (m : Map α) (k q : Nat) (v : α) :
    q ∈ Map.keys (Map.insert m k v) ↔ q = k ∨ q ∈ Map.keys m := by
  induction m with
  | nil => simp [Map.insert, Map.keys]
  | cons e r ih =>
    obtain ⟨k', v'⟩ := e
    simp only [Map.insert]
    by_cases h1 : k < k'
    · simp [h1, Map.keys]
    · by_cases h2 : k = k'
      · subst h2; simp [Map.keys]
      · simp only [h1, h2, if_false]
        simp only [Map.keys, List.map_cons, List.mem_cons] at ih ⊢
        rw [ih]
        constructor
        · rintro (h | h | h)
          · exact Or.inr (Or.inl h)
          · exact Or.inl h
          · exact Or.inr (Or.inr h)
        · rintro (h | h | h)
          · exact Or.inr (Or.inl h)
          · exact Or.inl h
          · exact Or.inr (Or.inr h)

theorem Map.insert_sorted {α : Type} (m : Map α) (k : Nat) (v : α) (hs : Map.Sorted m) :
    Map.Sorted (Map.insert m k v) := by
  induction m with
  | nil => simp [Map.insert, Map.Sorted, Map.keys]
  | cons e r ih =>
    obtain ⟨k', v'⟩ := e
    unfold Map.Sorted Map.keys at hs
    simp only [List.map_cons, List.pairwise_cons] at hs
    obtain ⟨hlt, hr⟩ := hs
    simp only [Map.insert]
    by_cases h1 : k < k'
    · simp only [h1, if_true, Map.Sorted, Map.keys, List.map_cons, List.pairwise_cons]
      refine ⟨?_, hlt, hr⟩
      intro a ha
      simp only [List.mem_cons] at ha
      rcases ha with ha | ha
      · omega
      · have := hlt a ha; omega
    · by_cases h2 : k = k'
      · subst h2
        simp only [Nat.lt_irrefl, if_false, if_true, Map.Sorted, Map.keys, List.map_cons, List.pairwise_cons]
        exact ⟨hlt, hr⟩
      · simp only [h1, h2, if_false, Map.Sorted, Map.keys, List.map_cons, List.pairwise_cons]
        refine ⟨?_, ih hr⟩
        intro a ha
        have := (Map.mem_keys_insert r k a v).1 ha
        rcases this with h | h
        · omega
        · exact hlt a h

theorem Map.lookup_isSome_iff {α : Type} (m : Map α) (k : Nat) :
    (Map.lookup m k).isSome ↔ k ∈ Map.keys m := by
  induction m with
  | nil => simp [Map.lookup, Map.keys]
  | cons e r ih =>
    obtain ⟨k', v'⟩ := e
    simp only [Map.lookup, Map.keys, List.map_cons, List.mem_cons]
    by_cases h : k = k'
    · simp [h]
    · simp only [h, if_false, false_or]
      exact ih

theorem Map.lookup_none_iff {α : Type} (m : Map α) (k : Nat) :
    Map.lookup m k = none ↔ k ∉ Map.keys m := by
  rw [← Map.lookup_isSome_iff]
  cases Map.lookup m k <;> simp

theorem Map.mem_of_lookup {α : Type} (m : Map α) (k : Nat) (v : α) (h : Map.lookup m k = some v) : (k, v) ∈ m := by
  induction m with
  | nil => simp [Map.lookup] at h
  | cons e r ih =>
    obtain ⟨k', v'⟩ := e
    simp only [Map.lookup] at h
    by_cases hk : k = k'
    · simp only [hk, if_true, Option.some.injEq] at h
      subst hk h
      exact List.mem_cons_self
    · simp only [hk, if_false] at h
      exact List.mem_cons_of_mem _ (ih h)

theorem Map.lookup_of_mem {α : Type} (m : Map α) (hs : (Map.keys m).Nodup) (k : Nat) (v : α) (h : (k, v) ∈ m) :
    Map.lookup m k = some v := by
  induction m with
  | nil => cases h
  | cons e r ih =>
    obtain ⟨k', v'⟩ := e
    simp only [Map.keys, List.map_cons, List.nodup_cons] at hs
    simp only [List.mem_cons, Prod.mk.injEq] at h
    simp only [Map.lookup]
    rcases h with ⟨h1, h2⟩ | h
    · simp [h1, h2]
    · have hk : k ∈ r.map (·.1) := List.mem_map.2 ⟨(k, v), h, rfl⟩
      have : k ≠ k' := by intro e; subst e; exact hs.1 hk
      simp only [this, if_false]
      exact ih hs.2 h

theorem Map.sorted_nodup {α : Type} (m : Map α) (hs : Map.Sorted m) : (Map.keys m).Nodup := by
  unfold Map.Sorted at hs
  exact hs.imp (fun h => Nat.ne_of_lt h)

theorem Map.length_insert_new {α : Type} (m : Map α) (k : Nat) (v : α) (h : Map.lookup m k = none) :
    (Map.insert m k v).length = m.length + 1 := by
  induction m with
  | nil => simp [Map.insert]
  | cons e r ih =>
    obtain ⟨k', v'⟩ := e
    simp only [Map.lookup] at h
    by_cases hk : k = k'
    · simp [hk] at h
    · simp only [hk, if_false] at h
      simp only [Map.insert]
      by_cases h1 : k < k'
      · simp [h1]
      · simp [h1, hk, ih h]

/-- inserting a key larger than all present ones appends -/
theorem Map.keys_insert_max {α : Type} (m : Map α) (k : Nat) (v : α) (h : ∀ q ∈ Map.keys m, q < k) :
    Map.keys (Map.insert m k v) = Map.keys m ++ [k] := by
  induction m with
  | nil => simp [Map.insert, Map.keys]
  | cons e r ih =>
    obtain ⟨k', v'⟩ := e
    have hk' : k' < k := h k' (by simp [Map.keys])
    have h1 : ¬ k < k' := by omega
    have h2 : ¬ k = k' := by omega
    simp only [Map.insert, h1, h2, if_false]
    simp only [Map.keys, List.map_cons, List.cons_append] at ih ⊢
    rw [ih (fun q hq => h q (by simp only [Map.keys, List.map_cons, List.mem_cons]; exact Or.inr hq))]

/-- extensionality: strictly ascending association lists with the same look-ups are equal -/
theorem Map.ext {α : Type} (a b : Map α) (ha : Map.Sorted a) (hb : Map.Sorted b)
    (h : ∀ k, Map.lookup a k = Map.lookup b k) : a = b := by
  induction a generalizing b with
  | nil =>
    cases b with
    | nil => rfl
    | cons e r =>
      obtain ⟨k, v⟩ := e
      have := h k
      simp [Map.lookup] at this
  | cons e r ih =>
    obtain ⟨k, v⟩ := e
    cases b with
    | nil =>
      have := h k
      simp [Map.lookup] at this
    | cons e' r' =>
      obtain ⟨k', v'⟩ := e'
      unfold Map.Sorted Map.keys at ha hb
      simp only [List.map_cons, List.pairwise_cons] at ha hb
      have hkk : k = k' := by
        rcases Nat.lt_trichotomy k k' with hlt | heq | hgt
        · -- k is a key of a, smaller than every key of b
          have h1 := h k
          simp only [Map.lookup, if_true] at h1
          have : k ≠ k' := by omega
          simp only [this, if_false] at h1
          have hm : k ∈ Map.keys r' := (Map.lookup_isSome_iff r' k).1 (by rw [← h1]; rfl)
          have := hb.1 k hm
          omega
        · exact heq
        · have h1 := h k'
          simp only [Map.lookup, if_true] at h1
          have : k' ≠ k := by omega
          simp only [this, if_false] at h1
          have hm : k' ∈ Map.keys r := (Map.lookup_isSome_iff r k').1 (by rw [h1]; rfl)
          have := ha.1 k' hm
          omega
      subst hkk
      have hv : v = v' := by
        have h1 := h k
        simp only [Map.lookup, if_true, Option.some.injEq] at h1
        exact h1
      subst hv
      congr 1
      apply ih r' ha.2 hb.2
      intro q
      have h1 := h q
      simp only [Map.lookup] at h1
      by_cases hq : q = k
      · subst hq
        have e1 : Map.lookup r q = none := (Map.lookup_none_iff r q).2 (fun hm => by have := ha.1 q hm; omega)
        have e2 : Map.lookup r' q = none := (Map.lookup_none_iff r' q).2 (fun hm => by have := hb.1 q hm; omega)
        rw [e1, e2]
      · simp only [hq, if_false] at h1
        exact h1

end RawPanelVerif.Topo
