import RawPanelVerif.Lemmas.StripLemmas
/-!
# C07, first part — the three flattening functions never output a line feed

These property theorems (`C07.strip_no_lf`, `C07.stripSvg_no_lf`, `C07.singleLine_no_lf`, `C07.singleLine_only_lf`,
`C07.singleLine_id`; audited in Audit/C07.lean) live in this file rather than in Props/C07.lean because the encoder
lemma files (`Lemmas/TotalIn`, `Lemmas/TotalOut`, `Lemmas/OutLemmas`) need them, and Props/C07.lean in turn states the
full-encoder theorem `encoders_frame` on top of those files.
-/
namespace RawPanelVerif.C07
open RawPanelVerif RawPanelVerif.Bytes RawPanelVerif.Strip

theorem trimSpace_no_lf (p : Bytes) (h : (10 : UInt8) ∉ p) : (10 : UInt8) ∉ trimSpace p :=
  fun hb => h (mem_of_mem_trimSpace p 10 hb)

/-- `stripLineBreaks` never outputs a line feed. -/
theorem strip_no_lf (s : Bytes) : (10 : UInt8) ∉ stripLineBreaks s := by
  unfold stripLineBreaks
  apply not_mem_flatten_map (α := Unit)
  intro l hl
  exact trimSpace_no_lf l (not_mem_of_mem_splitOn 10 s l hl)

/-- `stripLineBreaksSvg` never outputs a line feed. -/
theorem stripSvg_no_lf (s : Bytes) : (10 : UInt8) ∉ stripLineBreaksSvg s := by
  unfold stripLineBreaksSvg
  apply not_mem_flatten_map (α := Unit)
  intro l hl
  have h := trimSpace_no_lf l (not_mem_of_mem_splitOn 10 s l hl)
  unfold svgPart
  simp only []
  split
  · exact h
  · intro hb
    simp only [List.mem_append, List.mem_singleton] at hb
    rcases hb with hb | hb
    · exact h hb
    · exact absurd hb (by decide)

/-- the return-site flattening never outputs a line feed … -/
theorem singleLine_no_lf (s : Bytes) : (10 : UInt8) ∉ singleLine s := by
  unfold singleLine
  intro h
  simp only [List.mem_map] at h
  obtain ⟨b, _, hb⟩ := h
  split at hb
  · exact absurd hb (by decide)
  · rename_i hne; exact hne hb

/-- … keeps the length, and changes a byte only if it is a line feed (into a space) -/
theorem singleLine_only_lf (s : Bytes) :
    (singleLine s).length = s.length ∧
    ∀ i (h : i < s.length), (singleLine s)[i]'(by unfold singleLine; simpa using h) = (if s[i] = 10 then 32 else s[i]) := by
  unfold singleLine
  exact ⟨by simp, fun i h => by simp⟩

theorem singleLine_id (s : Bytes) (h : (10 : UInt8) ∉ s) : singleLine s = s := by
  unfold singleLine
  induction s with
  | nil => rfl
  | cons b bs ih =>
    have hb : b ≠ 10 := fun e => h (by simp [e])
    have hbs : (10 : UInt8) ∉ bs := fun e => h (by simp [e])
    simp [hb, ih hbs]

/-- `é NBSP ⏎ EM-SPACE x IDEOGRAPHIC-SPACE ⏎ SP €` -/
def exUtf8 : Bytes := [0xC3, 0xA9, 0xC2, 0xA0, 0x0A, 0xE2, 0x80, 0x83, 0x78, 0xE3, 0x80, 0x80, 0x0A, 0x20, 0xE2, 0x82, 0xAC]

end RawPanelVerif.C07
