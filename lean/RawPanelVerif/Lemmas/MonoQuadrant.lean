import RawPanelVerif.Lemmas.MonoOps
/-!
# Corner helpers paint only the quadrants their corner-name bits select; bitmaps paint exactly their set bits

`circQR` / `fcircQR`: the bounding box of the helper intersected with the quadrants (resp. half planes) of the bits that are
set in the corner name — bit 1 upper left, 2 upper right, 4 lower right, 8 lower left for `DrawCircleHelper`; bit 1 right
half, bit 2 left half for `FillCircleHelper`.  A regression that draws a corner into the wrong quadrant leaves these regions.
`drawBitmap_exact`: the value of every stored bit after `DrawBitmap`.
-/
namespace RawPanelVerif.Mono

theorem touch_ite_of {R : Region} {c : Canvas} (hwf : c.WF) (b : Bool) (f : Canvas → Canvas)
    (h : b = true → Touch R c (f c)) : Touch R c (if b then f c else c) := by
  cases b
  · exact Touch.refl R c hwf
  · exact h rfl

def circQR (g : Geom) (x0 y0 r corner : Int) : Region := fun X Y =>
  circR g x0 y0 r X Y ∧
  ((cornerBit corner 4 = true ∧ x0 + g.bx ≤ (X : Int) ∧ y0 + g.byy ≤ (Y : Int)) ∨
   (cornerBit corner 2 = true ∧ x0 + g.bx ≤ (X : Int) ∧ (Y : Int) ≤ y0 + g.byy) ∨
   (cornerBit corner 8 = true ∧ (X : Int) ≤ x0 + g.bx ∧ y0 + g.byy ≤ (Y : Int)) ∨
   (cornerBit corner 1 = true ∧ (X : Int) ≤ x0 + g.bx ∧ (Y : Int) ≤ y0 + g.byy))

theorem circPlot_touchQ (c : Canvas) (hwf : c.WF) (g : Geom) (hg : c.geo = g) (x0 y0 corner : Int) (col : Bool)
    (x y r : Int) (hx0 : 0 ≤ x) (hxr : x ≤ r) (hy0 : 0 ≤ y) (hyr : y ≤ r) :
    Touch (circQR g x0 y0 r corner) c (circPlot c x0 y0 corner col x y) := by
  unfold circPlot
  simp only []
  have hin : ∀ (a b : Int), (x0 - r ≤ a ∧ a ≤ x0 + r) → (y0 - r ≤ b ∧ b ≤ y0 + r) →
      ((cornerBit corner 4 = true ∧ x0 ≤ a ∧ y0 ≤ b) ∨ (cornerBit corner 2 = true ∧ x0 ≤ a ∧ b ≤ y0) ∨
       (cornerBit corner 8 = true ∧ a ≤ x0 ∧ y0 ≤ b) ∨ (cornerBit corner 1 = true ∧ a ≤ x0 ∧ b ≤ y0)) →
      ∀ X Y : Nat, clipR g X Y → (X : Int) = a + g.bx → (Y : Int) = b + g.byy → circQR g x0 y0 r corner X Y := by
    intro a b ha hb hq X Y hc hX hY
    refine ⟨⟨hc, by omega, by omega, by omega, by omega⟩, ?_⟩
    rcases hq with ⟨q, q1, q2⟩ | ⟨q, q1, q2⟩ | ⟨q, q1, q2⟩ | ⟨q, q1, q2⟩
    · exact Or.inl ⟨q, by omega, by omega⟩
    · exact Or.inr (Or.inl ⟨q, by omega, by omega⟩)
    · exact Or.inr (Or.inr (Or.inl ⟨q, by omega, by omega⟩))
    · exact Or.inr (Or.inr (Or.inr ⟨q, by omega, by omega⟩))
  have s1 : Touch (circQR g x0 y0 r corner) c
      (if cornerBit corner 4 then drawPixel (drawPixel c (x0 + x) (y0 + y) col) (x0 + y) (y0 + x) col else c) :=
    touch_ite_of hwf _ (fun c => drawPixel (drawPixel c (x0 + x) (y0 + y) col) (x0 + y) (y0 + x) col) (fun hb =>
      drawPixel2_touch c hwf g hg _ _ _ _ _ col
        (hin _ _ (by omega) (by omega) (Or.inl ⟨hb, by omega, by omega⟩))
        (hin _ _ (by omega) (by omega) (Or.inl ⟨hb, by omega, by omega⟩)))
  generalize (if cornerBit corner 4 then drawPixel (drawPixel c (x0 + x) (y0 + y) col) (x0 + y) (y0 + x) col else c) = c1 at s1 ⊢
  have s2 : Touch (circQR g x0 y0 r corner) c1
      (if cornerBit corner 2 then drawPixel (drawPixel c1 (x0 + x) (y0 - y) col) (x0 + y) (y0 - x) col else c1) :=
    touch_ite_of s1.wf _ (fun c => drawPixel (drawPixel c (x0 + x) (y0 - y) col) (x0 + y) (y0 - x) col) (fun hb =>
      drawPixel2_touch c1 s1.wf g (s1.geo.trans hg) _ _ _ _ _ col
        (hin _ _ (by omega) (by omega) (Or.inr (Or.inl ⟨hb, by omega, by omega⟩)))
        (hin _ _ (by omega) (by omega) (Or.inr (Or.inl ⟨hb, by omega, by omega⟩))))
  have s12 := s1.trans s2
  generalize (if cornerBit corner 2 then drawPixel (drawPixel c1 (x0 + x) (y0 - y) col) (x0 + y) (y0 - x) col else c1) = c2 at s12 s2 ⊢
  have s3 : Touch (circQR g x0 y0 r corner) c2
      (if cornerBit corner 8 then drawPixel (drawPixel c2 (x0 - y) (y0 + x) col) (x0 - x) (y0 + y) col else c2) :=
    touch_ite_of s12.wf _ (fun c => drawPixel (drawPixel c (x0 - y) (y0 + x) col) (x0 - x) (y0 + y) col) (fun hb =>
      drawPixel2_touch c2 s12.wf g (s12.geo.trans hg) _ _ _ _ _ col
        (hin _ _ (by omega) (by omega) (Or.inr (Or.inr (Or.inl ⟨hb, by omega, by omega⟩))))
        (hin _ _ (by omega) (by omega) (Or.inr (Or.inr (Or.inl ⟨hb, by omega, by omega⟩)))))
  have s123 := s12.trans s3
  generalize (if cornerBit corner 8 then drawPixel (drawPixel c2 (x0 - y) (y0 + x) col) (x0 - x) (y0 + y) col else c2) = c3 at s123 s3 ⊢
  have s4 : Touch (circQR g x0 y0 r corner) c3
      (if cornerBit corner 1 then drawPixel (drawPixel c3 (x0 - y) (y0 - x) col) (x0 - x) (y0 - y) col else c3) :=
    touch_ite_of s123.wf _ (fun c => drawPixel (drawPixel c (x0 - y) (y0 - x) col) (x0 - x) (y0 - y) col) (fun hb =>
      drawPixel2_touch c3 s123.wf g (s123.geo.trans hg) _ _ _ _ _ col
        (hin _ _ (by omega) (by omega) (Or.inr (Or.inr (Or.inr ⟨hb, by omega, by omega⟩))))
        (hin _ _ (by omega) (by omega) (Or.inr (Or.inr (Or.inr ⟨hb, by omega, by omega⟩)))))
  exact s123.trans s4

theorem drawCircleHelperLoop_touchQ (g : Geom) (x0 y0 corner : Int) (col : Bool) (r : Int)
    (c : Canvas) (s : Circ) (hwf : c.WF) (hg : c.geo = g) (h0 : 0 ≤ s.x) (hr : s.y ≤ r) :
    Touch (circQR g x0 y0 r corner) c (drawCircleHelperLoop c x0 y0 corner col s) := by
  fun_induction drawCircleHelperLoop c x0 y0 corner col s with
  | case1 c s h ih =>
    obtain ⟨b1, b2, b3, b4⟩ := Circ.next_bounds s r h h0 hr
    have t := circPlot_touchQ c hwf g hg x0 y0 corner col s.next.x s.next.y r b1 b2 b3 b4
    exact t.trans (ih t.wf (t.geo.trans hg) b1 b4)
  | case2 c s h => exact Touch.refl _ c hwf

/-- **`DrawCircleHelper` stays in the quadrants its corner name selects** -/
theorem drawCircleHelper_touchQ (c : Canvas) (hwf : c.WF) (x0 y0 r corner : Int) (col : Bool) :
    Touch (circQR c.geo x0 y0 r corner) c (drawCircleHelper c x0 y0 r corner col) := by
  unfold drawCircleHelper
  exact drawCircleHelperLoop_touchQ c.geo x0 y0 corner col r c (Circ.init r) hwf rfl (by simp [Circ.init]) (by simp [Circ.init])

def fcircQR (g : Geom) (x0 y0 r corner delta : Int) : Region := fun X Y =>
  fcircR g x0 y0 r delta X Y ∧
  ((cornerBit corner 1 = true ∧ x0 + g.bx ≤ (X : Int)) ∨ (cornerBit corner 2 = true ∧ (X : Int) ≤ x0 + g.bx))

theorem fillCircPlot_touchQ (c : Canvas) (hwf : c.WF) (g : Geom) (hg : c.geo = g) (x0 y0 corner delta : Int) (col : Bool)
    (x y r : Int) (hx0 : 0 ≤ x) (hxr : x ≤ r) (hy0 : 0 ≤ y) (hyr : y ≤ r) :
    Touch (fcircQR g x0 y0 r corner delta) c (fillCircPlot c x0 y0 corner delta col x y) := by
  unfold fillCircPlot
  simp only []
  have hin : ∀ (a b hh : Int), (x0 - r ≤ a ∧ a ≤ x0 + r) → (y0 - r ≤ b) → (b + hh ≤ y0 + r + 1 + delta) →
      ((cornerBit corner 1 = true ∧ x0 ≤ a) ∨ (cornerBit corner 2 = true ∧ a ≤ x0)) →
      ∀ X Y, boxR g (a + g.bx) (b + g.byy) (a + g.bx + 1) (b + g.byy + hh) X Y → fcircQR g x0 y0 r corner delta X Y := by
    intro a b hh ha hb hbh hq X Y ⟨hc, q1, q2, q3, q4⟩
    refine ⟨⟨hc, by omega, by omega, by omega, by omega⟩, ?_⟩
    rcases hq with ⟨q, q5⟩ | ⟨q, q5⟩
    · exact Or.inl ⟨q, by omega⟩
    · exact Or.inr ⟨q, by omega⟩
  have s1 : Touch (fcircQR g x0 y0 r corner delta) c
      (if cornerBit corner 1 then
        vline (vline c (x0 + x) (y0 - y) (2 * y + 1 + delta) col) (x0 + y) (y0 - x) (2 * x + 1 + delta) col else c) :=
    touch_ite_of hwf _ (fun c => vline (vline c (x0 + x) (y0 - y) (2 * y + 1 + delta) col) (x0 + y) (y0 - x) (2 * x + 1 + delta) col)
      (fun hb => vline2_touch c hwf g hg _ _ _ _ _ _ _ col
        (hin _ _ _ (by omega) (by omega) (by omega) (Or.inl ⟨hb, by omega⟩))
        (hin _ _ _ (by omega) (by omega) (by omega) (Or.inl ⟨hb, by omega⟩)))
  generalize (if cornerBit corner 1 then
        vline (vline c (x0 + x) (y0 - y) (2 * y + 1 + delta) col) (x0 + y) (y0 - x) (2 * x + 1 + delta) col else c) = c1 at s1 ⊢
  have s2 : Touch (fcircQR g x0 y0 r corner delta) c1
      (if cornerBit corner 2 then
        vline (vline c1 (x0 - x) (y0 - y) (2 * y + 1 + delta) col) (x0 - y) (y0 - x) (2 * x + 1 + delta) col else c1) :=
    touch_ite_of s1.wf _ (fun c => vline (vline c (x0 - x) (y0 - y) (2 * y + 1 + delta) col) (x0 - y) (y0 - x) (2 * x + 1 + delta) col)
      (fun hb => vline2_touch c1 s1.wf g (s1.geo.trans hg) _ _ _ _ _ _ _ col
        (hin _ _ _ (by omega) (by omega) (by omega) (Or.inr ⟨hb, by omega⟩))
        (hin _ _ _ (by omega) (by omega) (by omega) (Or.inr ⟨hb, by omega⟩)))
  exact s1.trans s2

theorem fillCircleHelperLoop_touchQ (g : Geom) (x0 y0 corner delta : Int) (col : Bool) (r : Int)
    (c : Canvas) (s : Circ) (hwf : c.WF) (hg : c.geo = g) (h0 : 0 ≤ s.x) (hr : s.y ≤ r) :
    Touch (fcircQR g x0 y0 r corner delta) c (fillCircleHelperLoop c x0 y0 corner delta col s) := by
  fun_induction fillCircleHelperLoop c x0 y0 corner delta col s with
  | case1 c s h ih =>
    obtain ⟨b1, b2, b3, b4⟩ := Circ.next_bounds s r h h0 hr
    have t := fillCircPlot_touchQ c hwf g hg x0 y0 corner delta col s.next.x s.next.y r b1 b2 b3 b4
    exact t.trans (ih t.wf (t.geo.trans hg) b1 b4)
  | case2 c s h => exact Touch.refl _ c hwf

/-- **`FillCircleHelper` stays on the side(s) its corner name selects** -/
theorem fillCircleHelper_touchQ (c : Canvas) (hwf : c.WF) (x0 y0 r corner delta : Int) (col : Bool) :
    Touch (fcircQR c.geo x0 y0 r corner delta) c (fillCircleHelper c x0 y0 r corner delta col) := by
  unfold fillCircleHelper
  exact fillCircleHelperLoop_touchQ c.geo x0 y0 corner delta col r c (Circ.init r) hwf rfl (by simp [Circ.init]) (by simp [Circ.init])

/-! ## rounded rectangles with quadrant-exact corners -/

def rrectQR (g : Geom) (x y w h r : Int) : Region := fun X Y =>
  boxR g (x + r + g.bx) (y + g.byy) (x + r + g.bx + (w - 2 * r)) (y + g.byy + 1) X Y ∨
  boxR g (x + r + g.bx) (y + h - 1 + g.byy) (x + r + g.bx + (w - 2 * r)) (y + h - 1 + g.byy + 1) X Y ∨
  boxR g (x + g.bx) (y + r + g.byy) (x + g.bx + 1) (y + r + g.byy + (h - 2 * r)) X Y ∨
  boxR g (x + w - 1 + g.bx) (y + r + g.byy) (x + w - 1 + g.bx + 1) (y + r + g.byy + (h - 2 * r)) X Y ∨
  circQR g (x + r) (y + r) r 1 X Y ∨ circQR g (x + w - r - 1) (y + r) r 2 X Y ∨
  circQR g (x + w - r - 1) (y + h - r - 1) r 4 X Y ∨ circQR g (x + r) (y + h - r - 1) r 8 X Y

theorem drawRoundRect_touchQ (c : Canvas) (hwf : c.WF) (x y w h r : Int) (col : Bool) :
    Touch (rrectQR c.geo x y w h r) c (drawRoundRect c x y w h r col) := by
  unfold drawRoundRect
  simp only []
  generalize hg : c.geo = g
  have t1 := hline_touch c hwf g hg (x + r) y (w - 2 * r) col (rrectQR g x y w h r)
    (fun X Y hh => Or.inl hh)
  have t2 := hline_touch _ t1.wf g (t1.geo.trans hg) (x + r) (y + h - 1) (w - 2 * r) col (rrectQR g x y w h r)
    (fun X Y hh => Or.inr (Or.inl hh))
  have t12 := t1.trans t2
  have t3 := vline_touch _ t12.wf g (t12.geo.trans hg) x (y + r) (h - 2 * r) col (rrectQR g x y w h r)
    (fun X Y hh => Or.inr (Or.inr (Or.inl hh)))
  have t123 := t12.trans t3
  have t4 := vline_touch _ t123.wf g (t123.geo.trans hg) (x + w - 1) (y + r) (h - 2 * r) col (rrectQR g x y w h r)
    (fun X Y hh => Or.inr (Or.inr (Or.inr (Or.inl hh))))
  have t1234 := t123.trans t4
  have c1 := (drawCircleHelper_touchQ _ t1234.wf (x + r) (y + r) r 1 col)
  rw [t1234.geo.trans hg] at c1
  have c1' : Touch (rrectQR g x y w h r) _ _ := c1.mono (fun X Y hh => Or.inr (Or.inr (Or.inr (Or.inr (Or.inl hh)))))
  have u1 := t1234.trans c1'
  have c2 := (drawCircleHelper_touchQ _ u1.wf (x + w - r - 1) (y + r) r 2 col)
  rw [u1.geo.trans hg] at c2
  have c2' : Touch (rrectQR g x y w h r) _ _ := c2.mono (fun X Y hh => Or.inr (Or.inr (Or.inr (Or.inr (Or.inr (Or.inl hh))))))
  have u2 := u1.trans c2'
  have c3 := (drawCircleHelper_touchQ _ u2.wf (x + w - r - 1) (y + h - r - 1) r 4 col)
  rw [u2.geo.trans hg] at c3
  have c3' : Touch (rrectQR g x y w h r) _ _ := c3.mono (fun X Y hh => Or.inr (Or.inr (Or.inr (Or.inr (Or.inr (Or.inr (Or.inl hh)))))))
  have u3 := u2.trans c3'
  have c4 := (drawCircleHelper_touchQ _ u3.wf (x + r) (y + h - r - 1) r 8 col)
  rw [u3.geo.trans hg] at c4
  have c4' : Touch (rrectQR g x y w h r) _ _ := c4.mono (fun X Y hh => Or.inr (Or.inr (Or.inr (Or.inr (Or.inr (Or.inr (Or.inr hh)))))))
  exact u3.trans c4'

def frrectQR (g : Geom) (x y w h r : Int) : Region := fun X Y =>
  boxR g (x + r + g.bx) (y + g.byy) (x + r + g.bx + (w - 2 * r)) (y + g.byy + h) X Y ∨
  fcircQR g (x + w - r - 1) (y + r) r 1 (h - 2 * r - 1) X Y ∨
  fcircQR g (x + r) (y + r) r 2 (h - 2 * r - 1) X Y

theorem fillRoundRect_touchQ (c : Canvas) (hwf : c.WF) (x y w h r : Int) (col : Bool) :
    Touch (frrectQR c.geo x y w h r) c (fillRoundRect c x y w h r col) := by
  unfold fillRoundRect
  simp only []
  generalize hg : c.geo = g
  have t1 := fillRect_touch c hwf g hg (x + r) y (w - 2 * r) h col (frrectQR g x y w h r)
    (fun X Y hh => Or.inl hh)
  have c1 := fillCircleHelper_touchQ _ t1.wf (x + w - r - 1) (y + r) r 1 (h - 2 * r - 1) col
  rw [t1.geo.trans hg] at c1
  have c1' : Touch (frrectQR g x y w h r) _ _ := c1.mono (fun X Y hh => Or.inr (Or.inl hh))
  have u1 := t1.trans c1'
  have c2 := fillCircleHelper_touchQ _ u1.wf (x + r) (y + r) r 2 (h - 2 * r - 1) col
  rw [u1.geo.trans hg] at c2
  have c2' : Touch (frrectQR g x y w h r) _ _ := c2.mono (fun X Y hh => Or.inr (Or.inr hh))
  exact u1.trans c2'

/-! ## bitmaps: exact value of every stored bit -/

/-- bit `(i, j)` of a `w`-wide bitmap as `DrawBitmap` reads it (`none` beyond the supplied slice) -/
def bitmapBit (bits : Array UInt8) (w : Int) (inverted : Bool) (i j : Nat) : Option Bool :=
  let idx := j * ((w + 7).tdiv 8).toNat + i / 8
  if idx < bits.size then some ((((bits.getD idx 0).toNat &&& (128 >>> (i % 8))) != 0) != inverted) else none

/-- the stored bits `DrawBitmap` writes: inside clip and the `w × h` box, covered by the slice, and (`drawAll` or bit set) -/
def bitmapR (g : Geom) (x y : Int) (bits : Array UInt8) (w h : Int) (inverted drawAll : Bool) : Region := fun X Y =>
  clipR g X Y ∧ ∃ i j : Nat, (i : Int) < w ∧ (j : Int) < h ∧ (X : Int) = x + i + g.bx ∧ (Y : Int) = y + j + g.byy ∧
    ∃ b, bitmapBit bits w inverted i j = some b ∧ (drawAll = true ∨ b = true)

/-- a region painted with a value that depends on the position -/
structure PaintF (R : Region) (V : Nat → Nat → Bool) (c c' : Canvas) : Prop extends Touch R c c' where
  inside : ∀ X Y, X < c.geo.wib * 8 → Y < c.geo.H → R X Y → getPx c' X Y = V X Y

theorem PaintF.seq {R R' : Region} {V : Nat → Nat → Bool} {a b c : Canvas} (h1 : PaintF R V a b) (h2 : PaintF R' V b c) :
    PaintF (fun X Y => R X Y ∨ R' X Y) V a c where
  wf := h2.wf
  geo := h2.geo.trans h1.geo
  size := h2.size.trans h1.size
  tail := fun i hi => by rw [h2.tail i (by rw [h1.geo]; exact hi), h1.tail i hi]
  same := fun X Y hX hY hn => by
    have hX' : X < b.geo.wib * 8 := by rw [h1.geo]; exact hX
    have hY' : Y < b.geo.H := by rw [h1.geo]; exact hY
    rw [h2.same X Y hX' hY' (fun h => hn (Or.inr h)), h1.same X Y hX hY (fun h => hn (Or.inl h))]
  inside := fun X Y hX hY hr => by
    have hX' : X < b.geo.wib * 8 := by rw [h1.geo]; exact hX
    have hY' : Y < b.geo.H := by rw [h1.geo]; exact hY
    by_cases h' : R' X Y
    · exact h2.inside X Y hX' hY' h'
    · rw [h2.same X Y hX' hY' h']
      rcases hr with hr | hr
      · exact h1.inside X Y hX hY hr
      · exact absurd hr h'

theorem PaintF.congr {R R' : Region} {V : Nat → Nat → Bool} {a b : Canvas} (h : PaintF R V a b)
    (hiff : ∀ X Y, R X Y ↔ R' X Y) : PaintF R' V a b where
  wf := h.wf
  geo := h.geo
  size := h.size
  tail := h.tail
  same := fun X Y hX hY hn => h.same X Y hX hY (fun hr => hn ((hiff X Y).1 hr))
  inside := fun X Y hX hY hr => h.inside X Y hX hY ((hiff X Y).2 hr)

theorem PaintF.refl_empty (V : Nat → Nat → Bool) (c : Canvas) (h : c.WF) : PaintF (fun _ _ => False) V c c :=
  { Touch.refl _ c h with inside := fun _ _ _ _ hf => hf.elim }

theorem loopN_paintF (g : Geom) (V : Nat → Nat → Bool) (R : Nat → Region) (f : Canvas → Nat → Canvas) (n : Nat)
    (hstep : ∀ (c : Canvas) (i : Nat), i < n → c.WF → c.geo = g → PaintF (R i) V c (f c i))
    (c : Canvas) (hwf : c.WF) (hg : c.geo = g) :
    PaintF (fun X Y => ∃ i, i < n ∧ R i X Y) V c (loopN n f c) := by
  induction n with
  | zero =>
    rw [loopN_zero]
    exact (PaintF.refl_empty V c hwf).congr (fun X Y => ⟨fun h => h.elim, fun ⟨i, hi, _⟩ => by omega⟩)
  | succ n ih =>
    rw [loopN_succ]
    have ih := ih (fun c i hi => hstep c i (by omega))
    have h2 := hstep (loopN n f c) n (by omega) ih.wf (ih.geo.trans hg)
    exact (ih.seq h2).congr (fun X Y => by
      constructor
      · rintro (⟨i, hi, hr⟩ | hr)
        · exact ⟨i, by omega, hr⟩
        · exact ⟨n, by omega, hr⟩
      · rintro ⟨i, hi, hr⟩
        by_cases h : i = n
        · subst h; exact Or.inr hr
        · exact Or.inl ⟨i, by omega, hr⟩)

/-- value `DrawBitmap` gives the stored bit `(X, Y)` it writes: `color != !theBit`, xor the inversion flag -/
def bitmapV (g : Geom) (x y : Int) (bits : Array UInt8) (w : Int) (col inverted : Bool) (X Y : Nat) : Bool :=
  match bitmapBit bits w inverted ((X : Int) - x - g.bx).toNat ((Y : Int) - y - g.byy).toNat with
  | some b => (col != (!b)) != g.inv
  | none => false

/-- body of the inner loop of `DrawBitmap` -/
def bitmapInner (x y : Int) (bits : Array UInt8) (w : Int) (col inverted drawAll : Bool) (j : Nat) (c : Canvas) (i : Nat) : Canvas :=
  if j * ((w + 7).tdiv 8).toNat + i / 8 < bits.size then
    if drawAll || ((((bits.getD (j * ((w + 7).tdiv 8).toNat + i / 8) 0).toNat &&& (128 >>> (i % 8))) != 0) != inverted) then
      drawPixel c (x + i) (y + j)
        (col != (!((((bits.getD (j * ((w + 7).tdiv 8).toNat + i / 8) 0).toNat &&& (128 >>> (i % 8))) != 0) != inverted)))
    else c
  else c

theorem drawBitmap_eq_loops (c : Canvas) (x y : Int) (bits : Array UInt8) (w h : Int) (col inverted drawAll : Bool) :
    drawBitmap c x y bits w h col inverted drawAll =
      loopN h.toNat (fun c j => loopN w.toNat (bitmapInner x y bits w col inverted drawAll j) c) c := rfl

/-- **Exact effect of `DrawBitmap`**: the stored bits of `bitmapR` get the value `bitmapV`, every other stored bit is kept -/
theorem drawBitmap_paintF (c : Canvas) (hwf : c.WF) (x y : Int) (bits : Array UInt8) (w h : Int)
    (col inverted drawAll : Bool) :
    PaintF (bitmapR c.geo x y bits w h inverted drawAll) (bitmapV c.geo x y bits w col inverted) c
      (drawBitmap c x y bits w h col inverted drawAll) := by
  rw [drawBitmap_eq_loops]
  generalize hg : c.geo = g
  have key := loopN_paintF g (bitmapV g x y bits w col inverted)
    (fun j X Y => clipR g X Y ∧ ∃ i : Nat, (i : Int) < w ∧ (X : Int) = x + i + g.bx ∧ (Y : Int) = y + j + g.byy ∧
      ∃ b, bitmapBit bits w inverted i j = some b ∧ (drawAll = true ∨ b = true))
    (fun c j => loopN w.toNat (bitmapInner x y bits w col inverted drawAll j) c) h.toNat (fun c1 j hj hwf1 hg1 => by
      have inner := loopN_paintF g (bitmapV g x y bits w col inverted)
        (fun i X Y => clipR g X Y ∧ (X : Int) = x + i + g.bx ∧ (Y : Int) = y + j + g.byy ∧
          ∃ b, bitmapBit bits w inverted i j = some b ∧ (drawAll = true ∨ b = true))
        (bitmapInner x y bits w col inverted drawAll j) w.toNat (fun c2 i hi hwf2 hg2 => by
          unfold bitmapInner
          by_cases hidx : j * ((w + 7).tdiv 8).toNat + i / 8 < bits.size
          · rw [if_pos hidx]
            have hbit : bitmapBit bits w inverted i j =
                some ((((bits.getD (j * ((w + 7).tdiv 8).toNat + i / 8) 0).toNat &&& (128 >>> (i % 8))) != 0) != inverted) := by
              unfold bitmapBit; simp only []; rw [if_pos hidx]
            by_cases hdraw : (drawAll || ((((bits.getD (j * ((w + 7).tdiv 8).toNat + i / 8) 0).toNat &&& (128 >>> (i % 8))) != 0) != inverted)) = true
            · rw [if_pos hdraw]
              have p := drawPixel_paint c2 hwf2 (x + i) (y + j) (col != !((((bits.getD (j * ((w + 7).tdiv 8).toNat + i / 8) 0).toNat &&& (128 >>> (i % 8))) != 0) != inverted))
              rw [hg2] at p
              refine { p.toTouch.mono ?_ with inside := ?_ }
              · rintro X Y ⟨hc, hX, hY⟩
                refine ⟨hc, hX, hY, _, hbit, ?_⟩
                simpa using hdraw
              · rw [hg2]
                intro X Y hX hY ⟨hc, eX, eY, _⟩
                have := p.inside X Y (by rw [hg2]; exact hX) (by rw [hg2]; exact hY) ⟨hc, eX, eY⟩
                rw [this]
                unfold bitmapV
                have e1 : ((X : Int) - x - g.bx).toNat = i := by omega
                have e2 : ((Y : Int) - y - g.byy).toNat = j := by omega
                rw [e1, e2, hbit]
            · rw [if_neg hdraw]
              rw [← hg2]
              refine { Touch.refl _ c2 hwf2 with inside := ?_ }
              rintro X Y _ _ ⟨_, _, _, b, hb, hd⟩
              exfalso
              rw [hbit] at hb
              cases hb
              apply hdraw
              rcases hd with hd | hd
              · rw [hd]; rfl
              · rw [hd]; simp
          · rw [if_neg hidx]
            rw [← hg2]
            refine { Touch.refl _ c2 hwf2 with inside := ?_ }
            rintro X Y _ _ ⟨_, _, _, b, hb, _⟩
            exfalso
            unfold bitmapBit at hb
            simp only [] at hb
            rw [if_neg hidx] at hb
            cases hb) c1 hwf1 hg1
      exact inner.congr (fun X Y => by
        constructor
        · rintro ⟨i, hi, hc, eX, eY, hb⟩; exact ⟨hc, i, by omega, eX, eY, hb⟩
        · rintro ⟨hc, i, hi, eX, eY, hb⟩; exact ⟨i, by omega, hc, eX, eY, hb⟩)) c hwf hg
  refine key.congr (fun X Y => ?_)
  unfold bitmapR
  constructor
  · rintro ⟨j, hj, hc, i, hi, eX, eY, hb⟩; exact ⟨hc, i, j, hi, by omega, eX, eY, hb⟩
  · rintro ⟨hc, i, j, hi, hj, eX, eY, hb⟩; exact ⟨j, by omega, hc, i, hi, eX, eY, hb⟩

end RawPanelVerif.Mono
