import RawPanelVerif.Model.Mono
/-!
# Work (loop-iteration) budget of every drawing operation, as a closed form in its arguments

`opWork op` bounds the number of loop bodies the real code executes for `op` (proved against the tick counter of
`Model/MonoChecked.lean` in `Lemmas/MonoTotal.lean`).  It depends on the *extents* (widths, heights, radii, text sizes,
string length) only — never on coordinates, canvas size or bounding box: huge coordinates cannot make a call slow,
huge positive extents can (`DrawFastVLine(0,0,1<<31,…)` runs 2^31 iterations, each dropped by the clip test).
Negative extents give zero iterations.
-/
namespace RawPanelVerif.Mono
open RawPanelVerif.Gen

/-- iterations of `FillCircleHelper`: `r` rounds, each with up to four vertical lines of at most `2r+1+delta` pixels -/
def fcircWork (r delta : Int) : Nat := r.toNat * (1 + 4 * (2 * r + 1 + delta).toNat)

/-- one ink bit of a glyph: a pixel (size 1×1) or a filled `h × v` rectangle -/
def blockWork (h v : Int) : Nat := if h = 1 ∧ v = 1 then 0 else h.toNat * (1 + v.toNat)

/-- `DrawChar`: `cw` columns × `bbH` rows × one block -/
def glyphWork (cw bbH : Nat) (h v : Int) : Nat := cw * (1 + bbH * (1 + blockWork h v))

def textWork (t : TextSt) : List Nat → Nat
  | [] => 0
  | ch :: rest => 1 + glyphWork (charWidth t ch) t.fp.bbH t.tsH t.tsV + textWork t rest

def opWork : Op → Nat
  | .px _ _ _ => 0
  | .hline _ _ w _ => w.toNat
  | .vline _ _ h _ => h.toNat
  | .frect _ _ w h _ => w.toNat * (1 + h.toNat)
  | .rrect _ _ w h r _ => (w - 2 * r).toNat + (w - 2 * r).toNat + (h - 2 * r).toNat + (h - 2 * r).toNat +
      r.toNat + r.toNat + r.toNat + r.toNat
  | .frrect _ _ w h r _ => (w - 2 * r).toNat * (1 + h.toNat) + fcircWork r (h - 2 * r - 1) + fcircWork r (h - 2 * r - 1)
  | .circ _ _ r _ _ => r.toNat
  | .fcirc _ _ r _ d _ => fcircWork r d
  | .bitmap _ _ _ w h _ _ _ => h.toNat * (1 + w.toNat)
  | .glyph t _ _ ch _ _ h v => glyphWork (charWidth t ch) t.fp.bbH h v
  | .text t s => textWork t s
  | .bbox _ _ _ _ => 0
  | .inv _ => 0

/-- the extents of an operation (everything a loop bound is computed from) are at most `E` -/
def extentsLe (E : Int) : Op → Prop
  | .px _ _ _ => True
  | .hline _ _ w _ => w ≤ E
  | .vline _ _ h _ => h ≤ E
  | .frect _ _ w h _ => w ≤ E ∧ h ≤ E
  | .rrect _ _ w h r _ => w - 2 * r ≤ E ∧ h - 2 * r ≤ E ∧ r ≤ E
  | .frrect _ _ w h r _ => w - 2 * r ≤ E ∧ h ≤ E ∧ r ≤ E
  | .circ _ _ r _ _ => r ≤ E
  | .fcirc _ _ r _ d _ => r ≤ E ∧ 2 * r + 1 + d ≤ E
  | .bitmap _ _ _ w h _ _ _ => w ≤ E ∧ h ≤ E
  | .glyph _ _ _ _ _ _ h v => h ≤ E ∧ v ≤ E
  | .text t _ => t.tsH ≤ E ∧ t.tsV ≤ E
  | .bbox _ _ _ _ => True
  | .inv _ => True

def strLen : Op → Nat
  | .text _ s => s.length
  | _ => 0

end RawPanelVerif.Mono
