import RawPanelVerif.Model.Net
import RawPanelVerif.Spec.NetSpec
/-! Helper lemmas for C08-C10: the byte-wise read loop against the reference parser `Spec.Net.parse`. -/
namespace RawPanelVerif.Net
open RawPanelVerif

theorem le32_lt (b : Bytes) : le32 b < 4294967296 := by
  unfold le32
  split
  · rename_i a b c d _
    have := a.toNat_lt; have := b.toNat_lt; have := c.toNat_lt; have := d.toNat_lt
    omega
  · omega

theorem le32_putLe32 (n : Nat) (h : n < 4294967296) (rest : Bytes) : le32 (putLe32 n ++ rest) = n := by
  simp only [putLe32, le32, List.cons_append, List.nil_append, UInt8.toNat_ofNat']
  omega

theorem putLe32_length (n : Nat) : (putLe32 n).length = 4 := rfl

/-- the Spec's little-endian reader agrees with the model's on four bytes -/
theorem u32le_eq_le32 (a b c d : UInt8) : Spec.Net.u32le [a, b, c, d] = le32 [a, b, c, d] := by
  simp only [Spec.Net.u32le, le32, List.foldr]
  omega

/-! ### `feed` basics -/

theorem feed_nil (s : RState) : feed s [] = (s, []) := rfl

theorem feed_cons (s : RState) (b : UInt8) (bs : Bytes) :
    feed s (b :: bs) = ((feed (stepByte s b).1 bs).1, (stepByte s b).2 ++ (feed (stepByte s b).1 bs).2) := rfl

theorem feed_append (s : RState) (a b : Bytes) :
    feed s (a ++ b) = ((feed (feed s a).1 b).1, (feed s a).2 ++ (feed (feed s a).1 b).2) := by
  induction a generalizing s with
  | nil => simp [feed]
  | cons x xs ih => simp only [List.cons_append, feed_cons, ih, List.append_assoc]

theorem feedAll_eq_feed_flatten (s : RState) (segs : List Bytes) : feedAll s segs = feed s segs.flatten := by
  induction segs generalizing s with
  | nil => rfl
  | cons seg segs ih => simp only [feedAll, List.flatten_cons, feed_append, ih]

theorem feed_stopped (w : Stop) (bs : Bytes) : feed (.stopped w) bs = (.stopped w, []) := by
  induction bs with
  | nil => rfl
  | cons b bs ih => simp [feed_cons, stepByte, ih]

theorem deliveries_append (a b : List Eff) : deliveries (a ++ b) = deliveries a ++ deliveries b := by
  induction a with
  | nil => rfl
  | cons e r ih => cases e <;> simp [deliveries, ih]

theorem allocs_append (a b : List Eff) : allocs (a ++ b) = allocs a ++ allocs b := by
  induction a with
  | nil => rfl
  | cons e r ih => cases e <;> simp [allocs, ih]

/-- fewer bytes than the header still needs: they are only accumulated -/
theorem feed_hdr_short (rg bs : Bytes) (h : rg.length + bs.length < 4) :
    feed (.waitHdr rg) bs = (.waitHdr (bs.reverse ++ rg), []) := by
  induction bs generalizing rg with
  | nil => simp [feed]
  | cons b bs ih =>
    simp only [List.length_cons] at h
    have h1 : (b :: rg).length < 4 := by simp only [List.length_cons]; omega
    simp only [feed_cons, stepByte, h1, if_true]
    rw [ih (b :: rg) (by simp only [List.length_cons]; omega)]
    simp

/-- the payload read: fewer bytes than needed are accumulated … -/
theorem feed_payload_short (need : Nat) (rg bs : Bytes) (h : bs.length < need) :
    feed (.waitPayload need rg) bs = (.waitPayload (need - bs.length) (bs.reverse ++ rg), []) := by
  induction bs generalizing need rg with
  | nil => simp [feed]
  | cons b bs ih =>
    simp only [List.length_cons] at h
    have h1 : ¬ need ≤ 1 := by omega
    simp only [feed_cons, stepByte, h1, if_false]
    rw [ih (need - 1) (b :: rg) (by omega)]
    simp only [List.length_cons, List.reverse_cons, List.append_assoc, List.cons_append, List.nil_append,
      List.nil_append, Prod.mk.injEq, and_true]
    congr 1
    omega

/-- … and once `need` bytes are there, the payload is delivered and the loop is back at a header -/
theorem feed_payload_full (need : Nat) (rg bs : Bytes) (h1 : 1 ≤ need) (h : need ≤ bs.length) :
    feed (.waitPayload need rg) bs =
      ((feed (.waitHdr []) (bs.drop need)).1,
       [.deliver (rg.reverse ++ bs.take need)] ++ (feed (.waitHdr []) (bs.drop need)).2) := by
  induction bs generalizing need rg with
  | nil => simp at h; omega
  | cons b bs ih =>
    simp only [List.length_cons] at h
    by_cases hn : need ≤ 1
    · have : need = 1 := by omega
      subst this
      simp [feed_cons, stepByte]
    · simp only [feed_cons, stepByte, hn, if_false]
      rw [ih (need - 1) (b :: rg) (by omega) (by omega)]
      have e : need = (need - 1) + 1 := by omega
      rw [e]
      simp [List.take_succ_cons, List.drop_succ_cons]

end RawPanelVerif.Net

namespace RawPanelVerif.Net
open RawPanelVerif

/-- the read-loop state that corresponds to the way the reference parser's input ends -/
def stateOfTail : Spec.Net.Tail → RState
  | .done => .waitHdr []
  | .incomplete r =>
    if r.length < 4 then .waitHdr r.reverse
    else .waitPayload (le32 r - (r.length - 4)) (r.drop 4).reverse
  | .over len => .stopped (.overLimit len)

theorem feed_init_parse_aux (n : Nat) : ∀ s : Bytes, s.length ≤ n →
    (feed .init s).1 = stateOfTail (Spec.Net.parse limit s).2 ∧
    deliveries (feed .init s).2 = (Spec.Net.parse limit s).1 := by
  induction n with
  | zero =>
    intro s hs
    have : s = [] := List.eq_nil_of_length_eq_zero (by omega)
    subst this
    rw [Spec.Net.parse]
    simp [feed, RState.init, stateOfTail, deliveries]
  | succ n ih =>
    intro s hs
    rw [Spec.Net.parse]
    by_cases h4 : s.length < 4
    · -- still inside the first header
      simp only [h4, if_true]
      have := feed_hdr_short [] s (by simpa using h4)
      simp only [RState.init, this, List.append_nil, deliveries, and_true]
      cases s with
      | nil => simp [stateOfTail]
      | cons b r =>
        have h3 : r.length < 3 := by simp only [List.length_cons] at h4; omega
        simp [stateOfTail, h3]
    · simp only [h4, if_false]
      rcases s with _ | ⟨a, _ | ⟨b, _ | ⟨c, _ | ⟨d, rest⟩⟩⟩⟩
      · simp at h4
      · simp at h4
      · simp at h4
      · simp at h4
      ·
        have hlen : Spec.Net.u32le (List.take 4 (a :: b :: c :: d :: rest)) = le32 [a, b, c, d] := by
          simp only [List.take_succ_cons, List.take_zero]; exact u32le_eq_le32 a b c d
        have hle : le32 (a :: b :: c :: d :: rest) = le32 [a, b, c, d] := rfl
        simp only [hlen, List.drop_succ_cons, List.drop_zero]
        -- the four header bytes
        have hfeed : feed .init (a :: b :: c :: d :: rest) =
            (if le32 [a, b, c, d] < limit then
              (if le32 [a, b, c, d] = 0 then
                ((feed (.waitHdr []) rest).1, [.alloc 0, .deliver []] ++ (feed (.waitHdr []) rest).2)
               else ((feed (.waitPayload (le32 [a, b, c, d]) []) rest).1,
                     [.alloc (le32 [a, b, c, d])] ++ (feed (.waitPayload (le32 [a, b, c, d]) []) rest).2))
             else (.stopped (.overLimit (le32 [a, b, c, d])), [])) := by
          simp only [RState.init, feed_cons, stepByte, List.length_cons, List.length_nil, List.reverse_cons,
            List.reverse_nil, List.nil_append, List.cons_append]
          by_cases hl : le32 [a, b, c, d] < limit
          · by_cases h0 : le32 [a, b, c, d] = 0
            · have hl0 : 0 < limit := by rw [h0] at hl; exact hl
              simp [h0, hl0]
            · simp [hl, h0]
          · simp [hl, feed_stopped]
        rw [hfeed]
        by_cases hl : le32 [a, b, c, d] < limit
        · have hge : ¬ le32 [a, b, c, d] ≥ limit := by omega
          simp only [hl, hge, if_true, if_false]
          by_cases hshort : rest.length < le32 [a, b, c, d]
          · -- payload incomplete
            have h0 : ¬ le32 [a, b, c, d] = 0 := by omega
            simp only [hshort, h0, if_true, if_false]
            rw [feed_payload_short _ _ _ hshort]
            simp [stateOfTail, deliveries, hle]
          · simp only [hshort, if_false]
            by_cases h0 : le32 [a, b, c, d] = 0
            · simp only [h0, if_true, List.take_zero, Nat.add_zero]
              have := ih rest (by simp only [List.length_cons] at hs; omega)
              simp only [RState.init] at this
              simp only [List.drop_succ_cons, List.drop_zero]
              refine ⟨this.1, ?_⟩
              simp [deliveries, this.2]
            · simp only [h0, if_false]
              rw [feed_payload_full _ _ _ (by omega) (by omega)]
              have := ih (rest.drop (le32 [a, b, c, d])) (by
                simp only [List.length_cons] at hs; simp only [List.length_drop]; omega)
              simp only [RState.init] at this
              have hd : List.drop (4 + le32 [a, b, c, d]) (a :: b :: c :: d :: rest) = rest.drop (le32 [a, b, c, d]) := by
                rw [Nat.add_comm]; simp [List.drop_succ_cons]
              rw [hd]
              refine ⟨this.1, ?_⟩
              simp [deliveries, deliveries_append, this.2]
        · have hge : le32 [a, b, c, d] ≥ limit := by omega
          simp [hl, hge, stateOfTail, deliveries]

/-- **the read loop against the reference parser**: after consuming any byte stream the loop has delivered exactly
the messages the reference parser finds, and is in the state that matches how the stream ends -/
theorem feed_init_parse (s : Bytes) :
    (feed .init s).1 = stateOfTail (Spec.Net.parse limit s).2 ∧
    deliveries (feed .init s).2 = (Spec.Net.parse limit s).1 :=
  feed_init_parse_aux s.length s (Nat.le_refl _)

end RawPanelVerif.Net

namespace RawPanelVerif.Net
open RawPanelVerif

/-- frames of a message sequence, as a stream -/
def encode (fs : List Bytes) : Bytes := (fs.map frame).flatten

theorem encode_cons (f : Bytes) (fs : List Bytes) : encode (f :: fs) = putLe32 f.length ++ (f ++ encode fs) := by
  simp [encode, frame]

theorem u32le_putLe32 (n : Nat) (h : n < 4294967296) : Spec.Net.u32le (putLe32 n) = n := by
  have := le32_putLe32 n h []
  simp only [List.append_nil] at this
  unfold putLe32 at this ⊢
  rw [u32le_eq_le32]; exact this

/-- the reference parser reads back an encoded message sequence, then continues with what follows -/
theorem parse_encode_append (lim : Nat) (hlim : lim ≤ 4294967296) (fs : List Bytes) (t : Bytes)
    (hfs : ∀ f ∈ fs, f.length < lim) :
    Spec.Net.parse lim (encode fs ++ t) = (fs ++ (Spec.Net.parse lim t).1, (Spec.Net.parse lim t).2) := by
  induction fs with
  | nil => simp [encode]
  | cons f fs ih =>
    have hf : f.length < lim := hfs f (by simp)
    have ih := ih (fun g hg => hfs g (by simp [hg]))
    rw [Spec.Net.parse]
    have hlen : ¬ (encode (f :: fs) ++ t).length < 4 := by
      rw [encode_cons]; simp only [List.length_append, putLe32_length]; omega
    have htake : (encode (f :: fs) ++ t).take 4 = putLe32 f.length := by
      rw [encode_cons, List.append_assoc]
      exact List.take_left' (putLe32_length _)
    have hdrop : (encode (f :: fs) ++ t).drop 4 = f ++ (encode fs ++ t) := by
      rw [encode_cons, List.append_assoc, List.append_assoc]
      exact List.drop_left' (putLe32_length _)
    have hdrop2 : (encode (f :: fs) ++ t).drop (4 + f.length) = encode fs ++ t := by
      rw [← List.drop_drop, hdrop]
      exact List.drop_left' rfl
    simp only [hlen, if_false, htake, u32le_putLe32 f.length (by omega), hdrop, hdrop2]
    have h1 : ¬ f.length ≥ lim := by omega
    have h2 : ¬ (f ++ (encode fs ++ t)).length < f.length := by simp only [List.length_append]; omega
    simp only [h1, h2, if_false, ih]
    simp [List.take_left']

theorem parse_encode (lim : Nat) (hlim : lim ≤ 4294967296) (fs : List Bytes) (hfs : ∀ f ∈ fs, f.length < lim) :
    Spec.Net.parse lim (encode fs) = (fs, .done) := by
  have := parse_encode_append lim hlim fs [] hfs
  simp only [List.append_nil] at this
  rw [this, Spec.Net.parse]
  simp

end RawPanelVerif.Net
