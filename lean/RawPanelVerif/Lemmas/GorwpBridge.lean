import RawPanelVerif.Model.Gorwp
import RawPanelVerif.Spec.GorwpSpec
/-! Translation of the model's vocabulary into the specification's (used by `Props/C19.lean` and the driver). -/
namespace RawPanelVerif.GorwpBridge
open RawPanelVerif.Gorwp RawPanelVerif.Spec.Gorwp

def toSEvent (e : Event) : SEvent :=
  { id := e.id, binary := e.binary.map (fun b => (b.pressed, b.edge)), pulsed := e.pulsed,
    absolute := e.absolute, speed := e.speed }

def toSInv : Invocation → SInv
  | .trigger id ev => .trigger id (toSEvent ev)
  | .binary id s e => .binary id s e
  | .pulsed id v => .pulsed id v
  | .absolute id v => .absolute id v
  | .intensity id v => .intensity id v

def toSBindings (b : Bindings) : SBindings :=
  { trigger := b.trigger, binary := b.binary, pulsed := b.pulsed, absolute := b.absolute, intensity := b.intensity }

def flowItems (f : Flow) : List Item := if f = .ping then [Item.ping] else []
def infoItems : Option PanelInfo → List Item
  | some i => [Item.info i.model i.serial i.name]
  | none => []
def availItems : Option (List (Nat × Nat)) → List Item
  | some kv => [Item.avail kv]
  | none => []
def topoItems : Option Topo → List Item
  | some t => [Item.topo t.json t.svg 0]
  | none => []
def eventItems (es : List Event) : List Item := es.map (fun e => Item.event (toSEvent e))

/-- a message as the items it stands for in the specification's vocabulary (same order as the Go code reads the fields) -/
def toItems (m : OutMsg) : List Item :=
  flowItems m.flow ++ infoItems m.info ++ availItems m.avail ++ topoItems m.topo ++ eventItems m.events

def histItems (h : List OutMsg) : List Item := h.flatMap toItems

def toSKind : RawPanelVerif.Gorwp.Kind → RawPanelVerif.Spec.Gorwp.Kind
  | .trigger => .trigger
  | .binary => .binary
  | .pulsed => .pulsed
  | .absolute => .absolute
  | .intensity => .intensity

/-- a run of registrations and events in the specification's vocabulary -/
def toSDyn : DynItem → SDyn
  | .bind k id => .bind (toSKind k) id
  | .event e => .event (toSEvent e)

/-- what arrived within the initialisation window: the items of the messages the client got before the window closed
or the connection ended (nothing arrives on a connection that is gone) -/
def windowItems (evs : List InitEv) : List Item := histItems (windowMsgs evs)

end RawPanelVerif.GorwpBridge
