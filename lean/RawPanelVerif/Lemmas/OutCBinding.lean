import RawPanelVerif.Lemmas.TotalOut
import RawPanelVerif.Lemmas.OutLemmas
/-!
# The C binding of the outbound encoder: LF-join, NUL termination

`cbinding_lines` : if no returned string contains NUL, the C caller — reading up to the first NUL and splitting at LF —
recovers exactly the strings the encoder returned.
`encOut_bytes` : every byte of every returned string is a byte of one of the message's string fields / oracle texts
(`msgStrings`), a printable ASCII byte, or the blank that replaces a line feed — for any byte predicate `P` that holds of
the printable ASCII bytes; with `P := (· ≠ 0)`: a NUL in the output comes from a NUL in a field (`encOut_no_nul`).
-/
namespace RawPanelVerif.OutLemmas
open RawPanelVerif RawPanelVerif.Bytes RawPanelVerif.MsgOut RawPanelVerif.EncOut RawPanelVerif.Strip

theorem cRead_noNul (s : Bytes) (h : (0 : UInt8) ∉ s) : cRead s = s := by
  induction s with
  | nil => rfl
  | cons b r ih =>
    have hb : b ≠ 0 := fun e => h (by simp [e])
    have hr : (0 : UInt8) ∉ r := fun e => h (by simp [e])
    simp [cRead, hb, ih hr]

theorem cRead_prefix (s : Bytes) : ∃ t, s = cRead s ++ t ∧ (0 : UInt8) ∉ cRead s := by
  induction s with
  | nil => exact ⟨[], rfl, by simp [cRead]⟩
  | cons b r ih =>
    by_cases hb : b = 0
    · exact ⟨b :: r, by simp [cRead, hb], by simp [cRead, hb]⟩
    · obtain ⟨t, e, hn⟩ := ih
      refine ⟨t, by simp only [cRead, hb, if_false, List.cons_append]; rw [← e], ?_⟩
      simp only [cRead, hb, if_false, List.mem_cons, not_or]
      exact ⟨fun e => hb e.symm, hn⟩

/-- **the C caller recovers the returned strings** when none of them contains NUL (none contains LF: `encOut_no_lf`) -/
theorem cbinding_lines (o : OutOracle) (m : OutMsg) (h0 : ∀ l ∈ encOut o [m], (0 : UInt8) ∉ l) :
    cBindingLines o m = (if encOut o [m] = [[]] then [] else encOut o [m]) := by
  unfold cBindingLines cBinding
  have hno : (0 : UInt8) ∉ join 10 (encOut o [m]) := by
    intro h
    rcases mem_join 10 0 _ h with h | ⟨f, hf, hb⟩
    · exact absurd h (by decide)
    · exact h0 f hf hb
  rw [cRead_noNul _ hno]
  by_cases hne : encOut o [m] = []
  · rw [hne]; simp [join]
  · have hs := splitOn_join 10 (encOut o [m]) hne (fun f hf => TotalOut.encOut_no_lf o [m] f hf)
    by_cases hj : join 10 (encOut o [m]) = []
    · rw [if_pos hj]
      rw [hj] at hs
      have : encOut o [m] = [[]] := by rw [← hs]; rfl
      rw [if_pos this]
    · rw [if_neg hj, hs]
      have : encOut o [m] ≠ [[]] := by
        intro e; rw [e] at hj; exact hj rfl
      rw [if_neg this]

/-! ## where the bytes of the returned strings come from -/

/-- every byte string a message's lines are assembled from: its string fields, list items, register ids, and the oracle
texts (float formatting, JSON of the network configuration) -/
def msgStrings (o : OutOracle) (m : OutMsg) : List Bytes :=
  (match m.panelInfo with
   | some p => [p.model, p.serial, p.softwareVersion, p.name, p.platform] ++ p.lockedToIPs
   | none => []) ++
  (match m.topology with | some t => [t.svgbase, t.json] | none => []) ++
  m.burnin.toList ++ (m.netConfig.map o.jsonOfNet).toList ++ m.calibration.toList ++ m.defaultCalibration.toList ++
  (m.connections.getD []) ++ m.errorMsg.toList ++ m.message.toList ++
  (match m.sysStat with | some s => [o.fmtF 1 s.cpuTemp, o.fmtF 1 s.extTemp, o.fmtF 2 s.cpuVoltage] | none => []) ++
  m.registers.map (·.id)

theorem mem_of_mem_splitOn (sep : UInt8) (s l : Bytes) (b : UInt8) (hl : l ∈ splitOn sep s) (hb : b ∈ l) : b ∈ s := by
  induction s generalizing l with
  | nil => simp [splitOn] at hl; subst hl; simp at hb
  | cons c cs ih =>
    unfold splitOn at hl
    split at hl
    · simp only [List.mem_cons] at hl
      rcases hl with rfl | hl
      · simp at hb
      · exact List.mem_cons_of_mem _ (ih l hl hb)
    · have hne := splitOn_ne_nil sep cs
      cases hs : splitOn sep cs with
      | nil => exact absurd hs hne
      | cons a as =>
        rw [hs] at hl ih
        simp only [List.mem_cons] at hl
        rcases hl with rfl | hl
        · simp only [List.mem_cons] at hb
          rcases hb with rfl | hb
          · simp
          · exact List.mem_cons_of_mem _ (ih a (by simp) hb)
        · exact List.mem_cons_of_mem _ (ih l (by simp [hl]) hb)

/-- all bytes of `l` satisfy `P` -/
def AllB (P : UInt8 → Bool) (l : Bytes) : Prop := ∀ b ∈ l, P b = true

/-- printable ASCII incl. blank -/
def printable (b : UInt8) : Bool := 32 ≤ b && b ≤ 126

section
variable (P : UInt8 → Bool) (hP : ∀ b, printable b = true → P b = true)
include hP

theorem allB_lit (k : Bytes) (hk : k.all printable = true) : AllB P k := by
  intro b hb
  rw [List.all_eq_true] at hk
  exact hP b (hk b hb)

omit hP in
theorem allB_append (a b : Bytes) (ha : AllB P a) (hb : AllB P b) : AllB P (a ++ b) := by
  intro x hx
  simp only [List.mem_append] at hx
  rcases hx with hx | hx
  · exact ha x hx
  · exact hb x hx

theorem allB_cons (c : UInt8) (r : Bytes) (hc : printable c = true) (hr : AllB P r) : AllB P (c :: r) := by
  intro x hx
  simp only [List.mem_cons] at hx
  rcases hx with rfl | hx
  · exact hP _ hc
  · exact hr x hx

theorem allB_digits (n : Nat) : AllB P (digitsOf n) := by
  intro b hb
  have := digitsOf_isDigit n b hb
  apply hP
  unfold isDigit at this
  unfold printable
  simp only [Bool.and_eq_true, decide_eq_true_eq] at this ⊢
  constructor
  · exact Nat.le_trans (by decide) this.1
  · exact Nat.le_trans this.2 (by decide)

theorem allB_itoa (v : Int) : AllB P (itoa v) := by
  unfold itoa
  split
  · exact allB_cons P hP 45 _ (by decide) (allB_digits P hP _)
  · exact allB_digits P hP _

theorem allB_join (sep : UInt8) (hs : printable sep = true) (fs : List Bytes) (h : ∀ f ∈ fs, AllB P f) : AllB P (join sep fs) := by
  intro b hb
  rcases mem_join sep b fs hb with e | ⟨f, hf, hbf⟩
  · subst e; exact hP _ hs
  · exact h f hf b hbf

omit hP in
theorem allB_trim (l : Bytes) (h : AllB P l) : AllB P (trimSpace l) :=
  fun b hb => h b (mem_of_mem_trimSpace l b hb)

omit hP in
theorem allB_of_mem_splitOn (sep : UInt8) (s l : Bytes) (h : AllB P s) (hl : l ∈ splitOn sep s) : AllB P l :=
  fun b hb => h b (mem_of_mem_splitOn sep s l b hl hb)

omit hP in
theorem allB_strip (s : Bytes) (h : AllB P s) : AllB P (stripLineBreaks s) := by
  intro b hb
  unfold stripLineBreaks at hb
  simp only [List.mem_flatten, List.mem_map] at hb
  obtain ⟨_, ⟨l, hl, rfl⟩, hbl⟩ := hb
  exact allB_trim P l (allB_of_mem_splitOn P 10 s l h hl) b hbl

theorem allB_stripSvg (s : Bytes) (h : AllB P s) : AllB P (stripLineBreaksSvg s) := by
  intro b hb
  unfold stripLineBreaksSvg at hb
  simp only [List.mem_flatten, List.mem_map] at hb
  obtain ⟨_, ⟨l, hl, rfl⟩, hbl⟩ := hb
  have ht := allB_trim P l (allB_of_mem_splitOn P 10 s l h hl)
  unfold svgPart at hbl
  simp only [] at hbl
  split at hbl
  · exact ht b hbl
  · simp only [List.mem_append, List.mem_singleton] at hbl
    rcases hbl with hbl | rfl
    · exact ht b hbl
    · exact hP _ (by decide)

theorem allB_singleLine (s : Bytes) (h : AllB P s) : AllB P (singleLine s) := by
  intro b hb
  unfold singleLine at hb
  simp only [List.mem_map] at hb
  obtain ⟨c, hc, rfl⟩ := hb
  split
  · exact hP _ (by decide)
  · exact h c hc

end

/-- all key literals and words of the encoder are printable ASCII -/
theorem keys_printable : ∀ k ∈ [kModel, kSerial, kVersion, kName, kPlatform, kBluePill1, kMaxClients, kLockToIP, kPanelType, kSupport,
    kSvgbase, kTopoHWC, kBurnin, kNetCfg, kCalib, kDefCalib, kSleepTimer, kIsSleeping, kHeartBeat, kDimmedGain, kConnections,
    kBoots, kTotalUp, kSessionUp, kScreenSaver, kErrorMsg, kMsg, kMap, kEnvHealth, kSysStat, kHWC], k.all printable = true := by
  decide

theorem flowLines_printable (f : Int) : ∀ l ∈ flowLines f, l.all printable = true := by
  unfold flowLines
  repeat' split
  all_goals decide

theorem panelTypeWord_printable (t : Int) (w : Bytes) (h : panelTypeWord t = some w) : w.all printable = true := by
  unfold panelTypeWord at h
  repeat' split at h
  all_goals first | (injection h with h; subst h; decide) | exact absurd h (by simp)

theorem envWord_printable (t : Int) (w : Bytes) (h : envWord t = some w) : w.all printable = true := by
  unfold envWord at h
  repeat' split at h
  all_goals first | (injection h with h; subst h; decide) | exact absurd h (by simp)

theorem regPrefix_printable (t : Int) (w : Bytes) (h : regPrefix t = some w) : w.all printable = true := by
  unfold regPrefix at h
  repeat' split at h
  all_goals first | (injection h with h; subst h; decide) | exact absurd h (by simp)

theorem capName_printable (c : Cap) : (Cap.name c).all printable = true := by cases c <;> decide

section
variable (P : UInt8 → Bool) (hP : ∀ b, printable b = true → P b = true)
include hP

theorem allB_key (k : Bytes) (hk : k.all printable = true) (v : Bytes) (hv : AllB P v) : AllB P (k ++ v) :=
  allB_append P _ _ (allB_lit P hP k hk) hv

theorem allB_utoa (n : Nat) : AllB P (utoa n) := allB_digits P hP n

theorem allB_b01 (b : Bool) : AllB P (b01 b) := by
  cases b <;> exact allB_lit P hP _ (by decide)

theorem textLine_bytes (k v : Bytes) (hk : k.all printable = true) (hv : AllB P v) : ∀ l ∈ textLine k v, AllB P l := by
  intro l hl
  unfold textLine at hl
  split at hl
  · simp only [List.mem_singleton] at hl; subst hl; exact allB_key P hP k hk v hv
  · simp at hl

theorem panelInfo_bytes (p : PanelInfo)
    (h : ∀ s ∈ [p.model, p.serial, p.softwareVersion, p.name, p.platform] ++ p.lockedToIPs, AllB P s) :
    ∀ l ∈ panelInfoLines p, AllB P l := by
  intro l hl
  unfold panelInfoLines panelInfoHead at hl
  simp only [List.mem_append] at hl
  rcases hl with (((((((((hl | hl) | hl) | hl) | hl) | hl) | hl) | hl) | hl) | hl)
  · exact textLine_bytes P hP _ _ (by decide) (h _ (by simp)) l hl
  · exact textLine_bytes P hP _ _ (by decide) (h _ (by simp)) l hl
  · exact textLine_bytes P hP _ _ (by decide) (h _ (by simp)) l hl
  · exact textLine_bytes P hP _ _ (by decide) (h _ (by simp)) l hl
  · exact textLine_bytes P hP _ _ (by decide) (h _ (by simp)) l hl
  · split at hl
    · simp only [List.mem_singleton] at hl; subst hl; exact allB_lit P hP _ (by decide)
    · simp at hl
  · split at hl
    · simp only [List.mem_singleton] at hl; subst hl; exact allB_key P hP _ (by decide) _ (allB_utoa P hP _)
    · simp at hl
  · split at hl
    · simp only [List.mem_singleton] at hl; subst hl
      exact allB_key P hP _ (by decide) _ (allB_join P hP 59 (by decide) _ (fun f hf => h f (by simp [hf])))
    · simp at hl
  · unfold panelTypeLines at hl
    cases hw : panelTypeWord p.panelType with
    | none => rw [hw] at hl; simp at hl
    | some w =>
      rw [hw] at hl
      simp only [List.mem_singleton] at hl; subst hl
      exact allB_key P hP _ (by decide) _ (allB_lit P hP w (panelTypeWord_printable _ w hw))
  · cases hsup : p.support with
    | none => rw [hsup] at hl; simp at hl
    | some sp =>
      rw [hsup] at hl
      simp only [List.mem_singleton] at hl; subst hl
      unfold supportLine supportNames
      refine allB_key P hP _ (by decide) _ (allB_join P hP 44 (by decide) _ ?_)
      intro f hf
      simp only [List.mem_map] at hf
      obtain ⟨c, _, rfl⟩ := hf
      exact allB_lit P hP _ (capName_printable c)

theorem optLine_bytes {α : Type} (x : Option α) (f : α → Bytes) (h : ∀ a, x = some a → AllB P (f a)) :
    ∀ l ∈ optLine x f, AllB P l := by
  intro l hl
  cases x with
  | none => simp [optLine] at hl
  | some a => simp only [optLine, List.mem_singleton] at hl; subst hl; exact h a rfl

theorem optLines_bytes {α : Type} (x : Option α) (f : α → List Bytes) (h : ∀ a, x = some a → ∀ l ∈ f a, AllB P l) :
    ∀ l ∈ optLines x f, AllB P l := by
  intro l hl
  cases x with
  | none => simp [optLines] at hl
  | some a => exact h a rfl l hl

theorem runTime_bytes (r : RunTimeStats) : ∀ l ∈ runTimeLines r, AllB P l := by
  intro l hl
  unfold runTimeLines at hl
  simp only [List.mem_append] at hl
  rcases hl with ((hl | hl) | hl) | hl <;>
  · split at hl
    · simp only [List.mem_singleton] at hl; subst hl; exact allB_key P hP _ (by decide) _ (allB_utoa P hP _)
    · simp at hl

theorem sysStat_bytes (o : OutOracle) (s : SysStat)
    (h : ∀ t ∈ [o.fmtF 1 s.cpuTemp, o.fmtF 1 s.extTemp, o.fmtF 2 s.cpuVoltage], AllB P t) : AllB P (sysStatLine o s) := by
  unfold sysStatLine
  refine allB_key P hP _ (by decide) _ ?_
  intro b hb
  simp only [List.mem_flatMap] at hb
  obtain ⟨kv, hkv, hb⟩ := hb
  have hfield : AllB P kv.1 ∧ AllB P kv.2 := by
    unfold sysStatFields at hkv
    simp only [List.mem_cons, List.not_mem_nil, or_false] at hkv
    rcases hkv with e | e | e | e | e | e | e | e | e | e | e | e | e | e | e | e | e | e | e | e <;> subst e
    all_goals dsimp only
    all_goals refine ⟨allB_lit P hP _ (by decide), ?_⟩
    all_goals first
      | exact allB_utoa P hP _
      | exact allB_itoa P hP _
      | exact allB_b01 P hP _
      | exact h _ (by simp)
  simp only [List.mem_append, List.mem_cons, List.not_mem_nil, or_false] at hb
  rcases hb with hb | rfl | hb | rfl
  · exact hfield.1 b hb
  · exact hP _ (by decide)
  · exact hfield.2 b hb
  · exact hP _ (by decide)

theorem event_bytes (e : Event) : ∀ l ∈ eventLines e, AllB P l := by
  intro l hl
  unfold eventLines at hl
  simp only [List.mem_append] at hl
  have hval : ∀ (k v : Bytes), k.all printable = true → AllB P v → AllB P (valueLine e.hwcid k v) := by
    intro k v hk hv
    unfold valueLine
    exact allB_append P _ _ (allB_key P hP _ (by decide) _ (allB_utoa P hP _))
      (allB_cons P hP 61 _ (by decide) (allB_append P _ _ (allB_lit P hP k hk) (allB_cons P hP 58 _ (by decide) hv)))
  rcases hl with (((hl | hl) | hl) | hl) | hl
  · refine optLine_bytes P hP _ _ (fun b _ => ?_) l hl
    unfold binaryLine
    refine allB_append P _ _ (allB_append P _ _ (allB_key P hP _ (by decide) _ (allB_utoa P hP _)) ?_)
      (allB_cons P hP 61 _ (by decide) (by cases b.pressed <;> exact allB_lit P hP _ (by decide)))
    unfold edgeSuffix
    split
    · exact allB_cons P hP 46 _ (by decide) (allB_itoa P hP _)
    · intro x hx; simp at hx
  · exact optLine_bytes P hP _ _ (fun v _ => hval _ _ (by decide) (allB_itoa P hP v)) l hl
  · exact optLine_bytes P hP _ _ (fun v _ => hval _ _ (by decide) (allB_utoa P hP v)) l hl
  · exact optLine_bytes P hP _ _ (fun v _ => hval _ _ (by decide) (allB_itoa P hP v)) l hl
  · exact optLine_bytes P hP _ _ (fun v _ => hval _ _ (by decide) (allB_utoa P hP v)) l hl

theorem register_bytes (r : Register) (h : AllB P r.id) : ∀ l ∈ registerLines r, AllB P l := by
  intro l hl
  unfold registerLines at hl
  cases hp : regPrefix r.reg with
  | none => rw [hp] at hl; simp at hl
  | some p =>
    rw [hp] at hl
    simp only [List.mem_singleton] at hl; subst hl
    exact allB_append P _ _ (allB_key P hP _ (regPrefix_printable _ p hp) _ h) (allB_cons P hP 61 _ (by decide) (allB_utoa P hP _))

/-- **every byte of every string one message is encoded to** satisfies `P`, if the bytes of the message's strings do -/
theorem encMsgRaw_bytes (o : OutOracle) (m : OutMsg) (hs : ∀ s ∈ msgStrings o m, AllB P s) : ∀ l ∈ encMsgRaw o m, AllB P l := by
  intro l hl
  unfold encMsgRaw at hl
  simp only [List.mem_append] at hl
  rcases hl with (((((((((((((((((((hl | hl) | hl) | hl) | hl) | hl) | hl) | hl) | hl) | hl) | hl) | hl) | hl) | hl) | hl) | hl) | hl) | hl) | hl) | hl)
  · exact allB_lit P hP l (flowLines_printable m.flow l hl)
  · refine optLines_bytes P hP _ _ (fun p hp => panelInfo_bytes P hP p (fun s hs' => hs s ?_)) l hl
    unfold msgStrings; rw [hp]; simp only [List.mem_append]; exact Or.inl (Or.inl (Or.inl (Or.inl (Or.inl (Or.inl (Or.inl (Or.inl (Or.inl (Or.inl (by simpa only [List.mem_append] using hs'))))))))))
  · refine optLines_bytes P hP _ _ (fun t ht => ?_) l hl
    intro l' hl'
    have h1 : AllB P t.svgbase := hs _ (by unfold msgStrings; rw [ht]; simp)
    have h2 : AllB P t.json := hs _ (by unfold msgStrings; rw [ht]; simp)
    unfold topologyLines at hl'
    simp only [List.mem_cons, List.not_mem_nil, or_false] at hl'
    rcases hl' with rfl | rfl
    · exact allB_key P hP _ (by decide) _ (allB_stripSvg P hP _ h1)
    · exact allB_key P hP _ (by decide) _ (allB_strip P _ h2)
  · exact optLine_bytes P hP _ _ (fun j hj => allB_key P hP _ (by decide) _ (allB_strip P _ (hs _ (by unfold msgStrings; rw [hj]; simp)))) l hl
  · exact optLine_bytes P hP _ _ (fun c hc => allB_key P hP _ (by decide) _ (hs _ (by unfold msgStrings; rw [hc]; simp))) l hl
  · exact optLine_bytes P hP _ _ (fun j hj => allB_key P hP _ (by decide) _ (allB_strip P _ (hs _ (by unfold msgStrings; rw [hj]; simp)))) l hl
  · exact optLine_bytes P hP _ _ (fun j hj => allB_key P hP _ (by decide) _ (allB_strip P _ (hs _ (by unfold msgStrings; rw [hj]; simp)))) l hl
  · exact optLine_bytes P hP _ _ (fun v _ => allB_key P hP _ (by decide) _ (allB_utoa P hP v)) l hl
  · exact optLine_bytes P hP _ _ (fun b _ => allB_key P hP _ (by decide) _ (allB_b01 P hP b)) l hl
  · exact optLine_bytes P hP _ _ (fun v _ => allB_key P hP _ (by decide) _ (allB_utoa P hP v)) l hl
  · exact optLine_bytes P hP _ _ (fun v _ => allB_key P hP _ (by decide) _ (allB_utoa P hP v)) l hl
  · exact optLine_bytes P hP _ _ (fun c hc => allB_key P hP _ (by decide) _
      (allB_join P hP 59 (by decide) _ (fun f hf => hs f (by unfold msgStrings; rw [hc]; simp [hf])))) l hl
  · exact optLines_bytes P hP _ _ (fun r _ => runTime_bytes P hP r) l hl
  · exact optLine_bytes P hP _ _ (fun j hj => allB_key P hP _ (by decide) _ (allB_strip P _ (hs _ (by unfold msgStrings; rw [hj]; simp)))) l hl
  · exact optLine_bytes P hP _ _ (fun j hj => allB_key P hP _ (by decide) _ (allB_strip P _ (hs _ (by unfold msgStrings; rw [hj]; simp)))) l hl
  · simp only [List.mem_map] at hl
    obtain ⟨kv, _, rfl⟩ := hl
    unfold mapLine
    exact allB_append P _ _ (allB_key P hP _ (by decide) _ (allB_utoa P hP _)) (allB_cons P hP 58 _ (by decide) (allB_utoa P hP _))
  · refine optLines_bytes P hP _ _ (fun e _ => ?_) l hl
    intro l' hl'
    unfold envLines at hl'
    cases hw : envWord e with
    | none => rw [hw] at hl'; simp at hl'
    | some w =>
      rw [hw] at hl'
      simp only [List.mem_singleton] at hl'; subst hl'
      exact allB_key P hP _ (by decide) _ (allB_lit P hP w (envWord_printable _ w hw))
  · exact optLine_bytes P hP _ _ (fun st hst => sysStat_bytes P hP o st (fun t ht => hs t (by
      unfold msgStrings; rw [hst]; simp only [List.mem_append]; exact Or.inl (Or.inr ht)))) l hl
  · simp only [List.mem_flatMap] at hl
    obtain ⟨e, _, hl⟩ := hl
    exact event_bytes P hP e l hl
  · simp only [List.mem_flatMap] at hl
    obtain ⟨r, hr, hl⟩ := hl
    exact register_bytes P hP r (hs _ (by unfold msgStrings; simp only [List.mem_append, List.mem_map]; exact Or.inr ⟨r, hr, rfl⟩)) l hl

/-- the same for the strings the encoder returns (after the return-site flattening) -/
theorem encOut_bytes (o : OutOracle) (ms : List OutMsg) (hs : ∀ m ∈ ms, ∀ s ∈ msgStrings o m, AllB P s) :
    ∀ l ∈ encOut o ms, AllB P l := by
  intro l hl
  unfold encOut at hl
  simp only [List.mem_map, List.mem_flatMap] at hl
  obtain ⟨r, ⟨m, hm, hr⟩, rfl⟩ := hl
  exact allB_singleLine P hP r (encMsgRaw_bytes P hP o m (hs m hm) r hr)

end

/-- **no NUL in, no NUL out**: if no string field / list item / register id / oracle text of the messages contains a NUL
byte, no returned string does -/
theorem encOut_no_nul (o : OutOracle) (ms : List OutMsg) (hs : ∀ m ∈ ms, ∀ s ∈ msgStrings o m, (0 : UInt8) ∉ s) :
    ∀ l ∈ encOut o ms, (0 : UInt8) ∉ l := by
  intro l hl h0
  have := encOut_bytes (fun b => b != 0) (by intro b hb; revert hb; unfold printable; intro hb; simp only [Bool.and_eq_true, decide_eq_true_eq] at hb; simp only [bne_iff_ne, ne_eq]; intro e; subst e; exact absurd hb.1 (by decide))
    o ms (fun m hm s hsm b hb => by
      simp only [bne_iff_ne, ne_eq]; intro e; subst e; exact hs m hm s hsm hb) l hl 0 h0
  simp at this

end RawPanelVerif.OutLemmas
