import RawPanelVerif.Lemmas.MonoTextDev
import RawPanelVerif.Lemmas.MonoTextPerLine
/-!
# The documented deviation `scale.spacing`, line by line

`Lemmas/MonoTextDev.textR0_dev` is about one line with the enlarged and the size-1 rendering in the same row band.  For a
string with line feeds line `n` starts at row `cy + n·v·cellHeight` in the enlarged rendering and at `cy + n·cellHeight` at
size 1: `textR0_dev2` lets the two vertical origins differ, `line_dev` is the statement for line `n` of a string
(`lineSt`), `devSource_lt_adv` bounds the glyph cells `devSource` knows by the sum of the line's advances.
-/
namespace RawPanelVerif.Mono
open RawPanelVerif.Spec.Text (devSource)

theorem glyphWs_atSize (t : TextSt) (h v cx cy : Int) (l : List Nat) : glyphWs (atSize t h v cx cy) l = glyphWs t l := rfl

/-- a column that `devSource` puts into a glyph cell lies left of the end of the line's advances (`= StrWidth + h`) -/
theorem devSource_lt_adv (t : TextSt) (hh : 0 ≤ t.tsH) (l : List Nat) (oA oC X xc : Int)
    (e : devSource t.tsH t.spacing (glyphWs t l) oA oC X = some xc) : X < oA + advSum t l := by
  induction l generalizing oA oC with
  | nil => simp [glyphWs, devSource] at e
  | cons ch rest ih =>
    have hadv : advSum t (ch :: rest) = ((charWidth t ch : Int) * t.tsH + t.spacing) + advSum t rest := rfl
    have hcwh : (0 : Int) ≤ (charWidth t ch : Int) * t.tsH := Int.mul_nonneg (by omega) hh
    have hnn := advSum_nonneg t hh rest
    have ec : t.tsH * (charWidth t ch : Int) = (charWidth t ch : Int) * t.tsH := Int.mul_comm _ _
    by_cases h13 : ch = 13
    · subst h13
      rw [glyphWs_cons13] at e
      have := ih oA oC e
      omega
    · rw [glyphWs_cons t ch rest h13] at e
      simp only [devSource] at e
      split at e
      · exact absurd e (by simp)
      · split at e
        · omega
        · have := ih _ _ e
          omega

/-- `textR0_dev` with independent vertical origins: the enlarged line in the rows from `cyA`, the size-1 line from `cyC` -/
theorem textR0_dev2 (W H : Nat) (s : List Nat) (t : TextSt) (h v cyA cyC : Int) (hh : 0 < h) (hv : 0 < v) (oA oC : Int)
    (hoC : 0 ≤ oC) (hfit : oC + advSum (atSize t 1 1 oC cyC) s ≤ W) (hcy : cyC ≤ cyA)
    (J q : Int) (Xh Yh Y1 : Nat) (hXh : Xh < W) (hYh : Yh < H) (hY1 : Y1 < H) (hq0 : 0 ≤ q) (hq : q < v) (hJ0 : 0 ≤ J)
    (eYh : (Yh : Int) = cyA + v * J + q) (eY1 : (Y1 : Int) = cyC + J) :
    textR0 (geo0 W H) (atSize t h v oA cyA) s Xh Yh ↔
    devR W H t s cyC oC Y1 (devSource h t.spacing (glyphWs t s) oA oC Xh) := by
  have hJ : J ≤ v * J := by
    have : 0 ≤ (v - 1) * J := Int.mul_nonneg (by omega) hJ0
    rw [Int.sub_mul, Int.one_mul] at this; omega
  obtain ⟨Y1', hY1'⟩ := Int.eq_ofNat_of_zero_le (a := cyA + J) (by omega)
  have hY1'H : Y1' < H := by omega
  have hfit' : oC + advSum (atSize t 1 1 oC cyA) s ≤ W := by
    have e0 : advSum (atSize t 1 1 oC cyA) s = advSum (atSize t 1 1 oC cyC) s := by
      have a := advSum_cxy (atSize t 1 1 oC cyC) oC cyA s
      rw [← a]; rfl
    rw [e0]; exact hfit
  have key := textR0_dev W H s t h v cyA hh hv oA oC hoC hfit' J q Xh Yh Y1' hXh hYh hY1'H hq0 hq eYh hY1'.symm
  rw [key]
  cases hd : devSource h (↑t.spacing) (glyphWs t s) oA oC ↑Xh with
  | none => exact Iff.rfl
  | some xc =>
    simp only [devR]
    by_cases hxW : xc.toNat < W
    · have e : atSize t 1 1 oC cyA =
          { atSize t 1 1 oC cyC with cx := (atSize t 1 1 oC cyC).cx + 0, cy := (atSize t 1 1 oC cyC).cy + (cyA - cyC) } := by
        have e1 : oC + 0 = oC := by omega
        have e2 : cyC + (cyA - cyC) = cyA := by omega
        show atSize t 1 1 oC cyA = atSize t 1 1 (oC + 0) (cyC + (cyA - cyC))
        rw [e1, e2]
      rw [e]
      exact textR0_shift W H s (atSize t 1 1 oC cyC) 0 (cyA - cyC) xc.toNat Y1 xc.toNat Y1' hxW hY1 hxW hY1'H (by omega) (by omega)
    · constructor <;> intro hr <;> exact absurd (textR0_clip W H s _ _ _ hr) hxW

/-- the state at the start of line `n` of a rendering at size `(h,v)`: column `lineX cx n`, `n` line heights down -/
theorem lineSt_atSize (base : TextSt) (h v cx cy : Int) (n : Nat) :
    lineSt (atSize base h v cx cy) n =
      atSize base h v (Spec.Text.lineX cx n) (cy + n * ((base.fp.bbH : Int) * v)) := by
  rw [lineSt_eq]
  unfold Spec.Text.lineX
  have ela : lineAdvance (atSize base h v cx cy) = v * (base.fp.bbH : Int) := rfl
  have em : (n : Int) * (v * (base.fp.bbH : Int)) = (n : Int) * ((base.fp.bbH : Int) * v) := by rw [Int.mul_comm v]
  by_cases h0 : n = 0
  · subst h0
    unfold atSize
    simp
  · rw [if_neg h0, if_neg h0, ela, em]
    rfl

/-- **Line `n` of the enlarged rendering is the documented deviation of line `n` of the size-1 rendering**, any extra
spacing: a stored bit `(Xh, Yh)` in the row band of line `n` (glyph row `J`, sub-row `q`) is in the lit region of line `n`
at size `(h,v)` iff `devSource` maps its column to a size-1 column `xc` and `(xc, cy + n·cellHeight + J)` is in the lit
region of line `n` at size 1. -/
theorem line_dev (W H : Nat) (base : TextSt) (h v cx cy : Int) (hh : 0 < h) (hv : 0 < v) (n : Nat) (l : List Nat)
    (hx0 : 0 ≤ Spec.Text.lineX cx n) (hfit : Spec.Text.lineX cx n + advSum (atSize base 1 1 cx cy) l ≤ W)
    (J q : Int) (Xh Yh Y1 : Nat) (hXh : Xh < W) (hYh : Yh < H) (hY1 : Y1 < H) (hq0 : 0 ≤ q) (hq : q < v) (hJ0 : 0 ≤ J)
    (eYh : (Yh : Int) = cy + n * ((base.fp.bbH : Int) * v) + v * J + q)
    (eY1 : (Y1 : Int) = cy + n * ((base.fp.bbH : Int) * 1) + J) :
    textR0 (geo0 W H) (lineSt (atSize base h v cx cy) n) l Xh Yh ↔
    devR W H base l (cy + n * ((base.fp.bbH : Int) * 1)) (Spec.Text.lineX cx n) Y1
      (devSource h base.spacing (glyphWs base l) (Spec.Text.lineX cx n) (Spec.Text.lineX cx n) Xh) := by
  rw [lineSt_atSize]
  have hfit' : Spec.Text.lineX cx n +
      advSum (atSize base 1 1 (Spec.Text.lineX cx n) (cy + n * ((base.fp.bbH : Int) * 1))) l ≤ W := by
    have e0 : advSum (atSize base 1 1 (Spec.Text.lineX cx n) (cy + n * ((base.fp.bbH : Int) * 1))) l =
        advSum (atSize base 1 1 cx cy) l := by
      have a := advSum_cxy (atSize base 1 1 cx cy) (Spec.Text.lineX cx n) (cy + n * ((base.fp.bbH : Int) * 1)) l
      rw [← a]; rfl
    rw [e0]; exact hfit
  have hcy : cy + n * ((base.fp.bbH : Int) * 1) ≤ cy + n * ((base.fp.bbH : Int) * v) := by
    have : (n : Int) * ((base.fp.bbH : Int) * 1) ≤ (n : Int) * ((base.fp.bbH : Int) * v) :=
      Int.mul_le_mul_of_nonneg_left (Int.mul_le_mul_of_nonneg_left (by omega) (by omega)) (by omega)
    omega
  exact textR0_dev2 W H l base h v _ _ hh hv _ _ hx0 hfit' hcy J q Xh Yh Y1 hXh hYh hY1 hq0 hq hJ0 eYh eY1

end RawPanelVerif.Mono
