import RawPanelVerif.Lemmas.GfxStream
import RawPanelVerif.Model.GfxReading
/-!
C05: the model's reading of a line as a Spec-level chunk (`readLine`), and how the values the decoder computes
(`Parsed`) relate to it (`Rel`) when every number fits its field (`Chunk.small`: ids, dimensions, offsets below 2^32,
chunk indices below 2^63).

`readLine` is what the safety theorems use for "the chunk a line denotes". The Spec's own, independently written
line grammar (`Spec.Gfx.parseLine`) is compared with it by the driver on every line of every record (and with the
real regular expression by the `gfx.match` records).
-/
namespace RawPanelVerif.Gfx
open RawPanelVerif

/-! ### numbers -/

theorem natOfDigits_lt_aux (ds : Bytes) (h : ds.all isDigit = true) : ∀ acc,
    ds.foldl (fun acc d => acc * 10 + (d.toNat - 48)) acc < (acc + 1) * 10 ^ ds.length := by
  induction ds with
  | nil => intro acc; simp
  | cons d ds ih =>
    intro acc
    simp only [List.all_cons, Bool.and_eq_true] at h
    have hd : d.toNat - 48 ≤ 9 := by
      have := h.1
      simp only [isDigit, Bool.and_eq_true, decide_eq_true_eq] at this
      have h2 : d.toNat ≤ 57 := by have := this.2; exact UInt8.le_iff_toNat_le.mp this
      omega
    have := ih h.2 (acc * 10 + (d.toNat - 48))
    simp only [List.foldl_cons, List.length_cons]
    calc _ < (acc * 10 + (d.toNat - 48) + 1) * 10 ^ ds.length := this
      _ ≤ ((acc + 1) * 10) * 10 ^ ds.length := Nat.mul_le_mul_right _ (by omega)
      _ = (acc + 1) * 10 ^ (ds.length + 1) := by rw [Nat.mul_assoc, Nat.pow_succ, Nat.mul_comm 10]

theorem atoiNat_le (ds : Bytes) : atoiNat ds ≤ natOfDigits ds := by
  unfold atoiNat
  split
  · exact Nat.zero_le _
  · exact Nat.le_refl _

/-- below 2^63 `strconv.Atoi` does not clamp -/
theorem atoi_eq_atoiNat (ds : Bytes) (h : intB ds = true) : atoi ds = atoiNat ds := by
  simp only [intB, decide_eq_true_eq] at h
  unfold atoi atoiNat
  split
  · rfl
  · exact Nat.min_eq_left (by unfold maxInt; omega)

/-- below 2^32 the conversion `uint32(su.Intval(s))` keeps the value -/
theorem atou32_eq_atoiNat (ds : Bytes) (h : u32B ds = true) : atou32 ds = atoiNat ds := by
  simp only [u32B, decide_eq_true_eq] at h
  unfold atou32
  rw [atoi_eq_atoiNat ds (by simp only [intB, decide_eq_true_eq]; omega)]
  exact Nat.mod_eq_of_lt (by have := atoiNat_le ds; omega)

/-! #### beyond the domain: what the code does with larger numbers -/

/-- from 2^63 on `strconv.Atoi` returns `MaxInt64` (with a range error that `su.Intval` drops) -/
theorem atoi_clamps (ds : Bytes) (hne : ds ≠ []) (hd : ds.all isDigit = true) (h : 2 ^ 63 ≤ natOfDigits ds) :
    atoi ds = maxInt := by
  unfold atoi
  have : ¬ (ds.isEmpty = true ∨ (!ds.all isDigit) = true) := by
    cases ds with
    | nil => exact absurd rfl hne
    | cons _ _ => simp [hd]
  rw [if_neg this]
  exact Nat.min_eq_right (by unfold maxInt; omega)

/-- a number in `2^32 .. 2^63-1` is stored in a `uint32` field modulo 2^32 -/
theorem atou32_wraps (ds : Bytes) (hne : ds ≠ []) (hd : ds.all isDigit = true) (h : natOfDigits ds < 2 ^ 63) :
    atou32 ds = natOfDigits ds % 2 ^ 32 := by
  unfold atou32 atoi
  have : ¬ (ds.isEmpty = true ∨ (!ds.all isDigit) = true) := by
    cases ds with
    | nil => exact absurd rfl hne
    | cons _ _ => simp [hd]
  rw [if_neg this, Nat.min_eq_left (by unfold maxInt; omega)]

/-- … and from 2^63 on as `MaxInt64 mod 2^32 = 2^32 - 1` -/
theorem atou32_clamped (ds : Bytes) (hne : ds ≠ []) (hd : ds.all isDigit = true) (h : 2 ^ 63 ≤ natOfDigits ds) :
    atou32 ds = 2 ^ 32 - 1 := by
  unfold atou32
  rw [atoi_clamps ds hne hd h]
  decide

theorem atoiNat_nil : atoiNat [] = 0 := by decide

/-! ### the matcher's groups -/

theorem spanP_fst_all (p : UInt8 → Bool) (l a b : Bytes) (h : spanP p l = (a, b)) : a.all p = true := by
  induction l generalizing a b with
  | nil => simp [spanP] at h; obtain ⟨rfl, rfl⟩ := h; rfl
  | cons c cs ih =>
    unfold spanP at h
    split at h
    · rename_i hc
      simp only [Prod.mk.injEq] at h
      rw [← h.1]
      simp only [List.all_cons, hc, Bool.true_and]
      exact ih _ _ rfl
    · simp only [Prod.mk.injEq] at h; simp [← h.1]

theorem matchTail_fields (g1 g2 g3 r : Bytes) (m : Sub) (h : matchTail g1 g2 g3 r = some m) :
    m.g1 = g1 ∧ m.g2 = g2 ∧ m.g3 = g3 ∧ (m.g8 = [] → m.g9 = [] ∧ m.g10 = []) := by
  unfold matchTail at h
  repeat' split at h
  all_goals first | contradiction | (injection h with h; subst h; exact ⟨rfl, rfl, rfl, by simp⟩)

theorem matchAfterPrefix_fields (g1 r : Bytes) (m : Sub) (h : matchAfterPrefix g1 r = some m) :
    m.g1 = g1 ∧ m.g2 ≠ [] ∧ m.g2.all isIdChar = true ∧ (m.g8 = [] → m.g9 = [] ∧ m.g10 = []) := by
  unfold matchAfterPrefix at h
  repeat' split at h
  all_goals first | contradiction | skip
  have key : ∀ g2 rest, spanP isIdChar r = (g2, rest) → g2.all isIdChar = true :=
    fun _ _ h => spanP_fst_all _ _ _ _ h
  have := matchTail_fields _ _ _ _ _ h
  refine ⟨this.1, ?_, ?_, this.2.2.2⟩
  · rw [this.2.1]; assumption
  · rw [this.2.1]; exact key _ _ (by assumption)

theorem matchGfx_fields (l : Bytes) (m : Sub) (h : matchGfx l = some m) :
    (m.g1 = pRGB ++ [35] ∨ m.g1 = pGray ++ [35] ∨ m.g1 = pHWCg ++ [35]) ∧ m.g2 ≠ [] ∧ m.g2.all isIdChar = true ∧
      (m.g8 = [] → m.g9 = [] ∧ m.g10 = []) := by
  unfold matchGfx at h
  repeat' split at h
  all_goals first | contradiction | skip
  · have := matchAfterPrefix_fields _ _ _ h; exact ⟨Or.inl this.1, this.2⟩
  · have := matchAfterPrefix_fields _ _ _ h; exact ⟨Or.inr (Or.inl this.1), this.2⟩
  · have := matchAfterPrefix_fields _ _ _ h; exact ⟨Or.inr (Or.inr this.1), this.2⟩

theorem pfx_of_g1 (g1 : Bytes) (h : g1 = pRGB ++ [35] ∨ g1 = pGray ++ [35] ∨ g1 = pHWCg ++ [35]) :
    g1 = pfxOf (typeOfPrefix g1) := by
  rcases h with h | h | h <;> subst h <;> decide

end RawPanelVerif.Gfx

namespace RawPanelVerif.Gfx

/-! ### target lists -/

theorem splitOn_eq (s : Bytes) : Spec.Gfx.splitOn 44 s = splitComma s := by
  induction s with
  | nil => rfl
  | cons c cs ih =>
    by_cases hc : c = 44
    · simp [Spec.Gfx.splitOn, splitComma, ih, hc]
    · simp only [Spec.Gfx.splitOn, splitComma, ih, hc, if_false]
      cases splitComma cs <;> rfl

theorem value_eq (s : Bytes) : Spec.Gfx.value s = natOfDigits s := rfl

theorem splitComma_ne_nil (s : Bytes) : splitComma s ≠ [] := by
  cases s with
  | nil => simp [splitComma]
  | cons c cs =>
    unfold splitComma
    split
    · simp
    · split <;> simp

theorem parts_digits (s : Bytes) (h : s.all isIdChar = true) : ∀ part ∈ splitComma s, part.all isDigit = true := by
  induction s with
  | nil => intro part hp; simp [splitComma] at hp; subst hp; rfl
  | cons c cs ih =>
    simp only [List.all_cons, Bool.and_eq_true] at h
    intro part hp
    unfold splitComma at hp
    split at hp
    · simp only [List.mem_cons] at hp
      rcases hp with rfl | hp
      · rfl
      · exact ih h.2 part hp
    · rename_i hc
      have hd : isDigit c = true := by
        have := h.1
        simp only [isIdChar, Bool.or_eq_true, beq_iff_eq] at this
        rcases this with h | h
        · exact h
        · exact absurd h hc
      split at hp
      · simp only [List.mem_cons, List.not_mem_nil, or_false] at hp
        subst hp; simp [hd]
      · rename_i p ps heq
        simp only [List.mem_cons] at hp
        rcases hp with rfl | hp
        · simp only [List.all_cons, hd, Bool.true_and]
          exact ih h.2 p (by rw [heq]; simp)
        · exact ih h.2 part (by rw [heq]; simp [hp])

theorem atou32_part (part : Bytes) (hd : part.all isDigit = true) (hs : u32B part = true) :
    atou32 part = Spec.Gfx.value part := by
  rw [atou32_eq_atoiNat part hs, value_eq]
  unfold atoiNat
  cases part with
  | nil => rfl
  | cons c cs => simp [hd]

theorem intExplode_eq (s : Bytes) (h : s.all isIdChar = true) (hs : (splitComma s).all u32B = true) :
    intExplode s = Spec.Gfx.idsOf s := by
  unfold intExplode Spec.Gfx.idsOf
  rw [splitOn_eq]
  apply List.map_congr_left
  intro part hp
  exact atou32_part part (parts_digits s h part hp) (List.all_eq_true.mp hs part hp)

/-! ### decoder values vs chunk -/

/-- the image object (no data) that a header declares -/
def hdrImg (h : Spec.Gfx.Header) (fmt : Nat) : Img :=
  { ty := fmt, W := h.W, H := h.H, off := h.xy.isSome,
    X := match h.xy with | some (x, _) => x | none => 0,
    Y := match h.xy with | some (_, y) => y | none => 0 }

/-- how the values the graphics branch computes relate to the chunk the line denotes -/
structure Rel (p : Parsed) (c : Spec.Gfx.Chunk) : Prop where
  idx : p.idx = (c.idx : Int)
  ty : p.ty = c.fmt
  list : p.list = c.ids
  max : p.max = ((Spec.Gfx.declared c).last : Int)
  payload : c.payload = if p.ok then some p.data else none
  img : p.img = hdrImg (Spec.Gfx.declared c) c.fmt
  ids : intExplode c.ids = Spec.Gfx.idsOf c.ids
  ids_ne : c.ids ≠ []
  pfx : p.pfx = pfxOf c.fmt
  fmt_le : c.fmt ≤ 2

theorem rel_of_match (l : Bytes) (m : Sub) (h : matchGfx l = some m) (hs : (chunkOf m).small = true) :
    Rel (parsedOf m) (chunkOf m) := by
  obtain ⟨hg1, hne, hid, h89⟩ := matchGfx_fields l m h
  simp only [chunkOf, Bool.and_eq_true, Bool.or_eq_true, decide_eq_true_eq] at hs
  obtain ⟨⟨hids, h3⟩, hh⟩ := hs
  refine ⟨?_, rfl, rfl, ?_, ?_, ?_, intExplode_eq _ hid hids, hne, ?_, ?_⟩
  · simp [parsedOf, chunkOf, atoi_eq_atoiNat _ h3]
  · by_cases h4 : m.g4 = []
    · simp [parsedOf, chunkOf, h4, Spec.Gfx.declared]
    · rcases hh with hh | hh
      · exact absurd hh h4
      · simp [parsedOf, chunkOf, h4, Spec.Gfx.declared, atoi_eq_atoiNat _ hh.1.1.1]
  · simp only [chunkOf, parsedOf, B64.decode?]
    by_cases hb : (B64.decodeGo m.g11).snd = true <;> simp [hb]
  · by_cases h4 : m.g4 = []
    · simp [parsedOf, chunkOf, h4, Spec.Gfx.declared, hdrImg]
    · rcases hh with hh | hh
      · exact absurd hh h4
      · obtain ⟨⟨⟨h5, h6⟩, h7⟩, h8⟩ := hh
        by_cases h8' : m.g8 = []
        · simp [parsedOf, chunkOf, h4, h8', Spec.Gfx.declared, hdrImg, atou32_eq_atoiNat _ h6,
            atou32_eq_atoiNat _ h7, (h89 h8').1, (h89 h8').2, atou32_nil]
        · rcases h8 with h8 | h8
          · exact absurd h8 h8'
          · simp [parsedOf, chunkOf, h4, h8', Spec.Gfx.declared, hdrImg, atou32_eq_atoiNat _ h6,
              atou32_eq_atoiNat _ h7, atou32_eq_atoiNat _ h8.1, atou32_eq_atoiNat _ h8.2]
  · simp only [parsedOf, chunkOf]; exact pfx_of_g1 _ hg1
  · simp only [chunkOf, typeOfPrefix]; repeat' split
    all_goals decide

end RawPanelVerif.Gfx
