import RawPanelVerif.Lemmas.MonoOps
/-!
# Exact effect of text rendering (transparent background): `DrawChar` / `RenderText` as `Paint`

`glyphR`: the stored bits a character lights (before clipping is applied by `boxR`): the union of the `h × v` blocks
of its ink bits.  `textR`: the union over the characters of a string with the cursor advancing as `writeChar` does.
-/
namespace RawPanelVerif.Mono

def inkBit (t : TextSt) (ch i j : Nat) : Bool := decide ((glyphColumn t ch (charWidth t ch) i >>> j) % 2 = 1)

/-- block of ink bit (i,j) of a character drawn at `(x,y)` with size `(h,v)` (absolute coordinates, clipped) -/
def blockR (g : Geom) (x y : Int) (i j : Nat) (h v : Int) : Region :=
  boxR g (x + i * h + g.bx) (y + j * v + g.byy) (x + i * h + g.bx + h) (y + j * v + g.byy + v)

def glyphR (g : Geom) (t : TextSt) (x y : Int) (ch : Nat) (h v : Int) : Region := fun X Y =>
  ∃ i j, i < charWidth t ch ∧ j < t.fp.bbH ∧ inkBit t ch i j = true ∧ blockR g x y i j h v X Y

/-- the clip tests at the head of `DrawChar` -/
def earlyRet (g : Geom) (t : TextSt) (x y : Int) (ch : Nat) (h v : Int) : Prop :=
  x > getBWidth g - ((charWidth t ch : Int) - 1) * h ∨ y > g.H ∨
  x + t.fp.bbW * h - 1 < 0 ∨ y + t.fp.bbH * v - 1 < 0

instance (g : Geom) (t : TextSt) (x y : Int) (ch : Nat) (h v : Int) : Decidable (earlyRet g t x y ch h v) := by
  unfold earlyRet; infer_instance

theorem drawBlock_paint (c : Canvas) (hwf : c.WF) (x y : Int) (i j : Nat) (h v : Int) (col : Bool) :
    Paint (blockR c.geo x y i j h v) (col != c.geo.inv) c (drawBlock c x y i j h v col) := by
  unfold drawBlock blockR
  split
  · rename_i h1
    obtain ⟨hH, hV⟩ := h1
    subst hH hV
    refine (drawPixel_paint c hwf (x + i) (y + j) col).congr (fun X Y => ?_)
    unfold boxR
    constructor
    · rintro ⟨hc, hX, hY⟩; exact ⟨hc, by omega, by omega, by omega, by omega⟩
    · rintro ⟨hc, q1, q2, q3, q4⟩; exact ⟨hc, by omega, by omega⟩
  · exact fillRect_paint c hwf _ _ _ _ col

/-- a step that does nothing paints the empty region -/
theorem Paint.skip (v : Bool) (c : Canvas) (hwf : c.WF) (R : Region) (hR : ∀ X Y, ¬ R X Y) : Paint R v c c :=
  (Paint.refl_empty v c hwf).congr (fun X Y => ⟨fun h => h.elim, fun h => (hR X Y h).elim⟩)

/-- `DrawChar` with transparent background (`bg = col`), when not skipped by its clip tests: paints exactly the ink -/
theorem drawChar_paint (c : Canvas) (hwf : c.WF) (t : TextSt) (x y : Int) (ch : Nat) (col : Bool) (h v : Int)
    (hne : ¬ earlyRet c.geo t x y ch h v) :
    Paint (glyphR c.geo t x y ch h v) (col != c.geo.inv) c (drawChar c t x y ch col col h v) := by
  unfold drawChar
  simp only []
  have hcond : ¬ (x > getBWidth c.geo - ((charWidth t ch : Int) - 1) * h ∨ y > (c.geo.H : Int) ∨
      x + (t.fp.bbW : Int) * h - 1 < 0 ∨ y + (t.fp.bbH : Int) * v - 1 < 0) := hne
  rw [if_neg hcond]
  generalize hg : c.geo = g
  have key := loopN_paint g (col != g.inv)
    (fun i X Y => ∃ j, j < t.fp.bbH ∧ inkBit t ch i j = true ∧ blockR g x y i j h v X Y)
    (fun c i =>
      loopN t.fp.bbH (fun c j =>
        if (glyphColumn t ch (charWidth t ch) i >>> j) % 2 = 1 then drawBlock c x y i j h v col
        else if (col != col) = true then drawBlock c x y i j h v col else c) c)
    (charWidth t ch)
    (fun c1 i _ hwf1 hg1 => by
      have inner := loopN_paint g (col != g.inv)
        (fun j X Y => inkBit t ch i j = true ∧ blockR g x y i j h v X Y)
        (fun c j =>
          if (glyphColumn t ch (charWidth t ch) i >>> j) % 2 = 1 then drawBlock c x y i j h v col
          else if (col != col) = true then drawBlock c x y i j h v col else c)
        t.fp.bbH
        (fun c2 j _ hwf2 hg2 => by
          by_cases hb : (glyphColumn t ch (charWidth t ch) i >>> j) % 2 = 1
          · rw [if_pos hb]
            have := drawBlock_paint c2 hwf2 x y i j h v col
            rw [hg2] at this
            exact this.congr (fun X Y => ⟨fun hh => ⟨by unfold inkBit; simp [hb], hh⟩, fun hh => hh.2⟩)
          · rw [if_neg hb]
            have hcc : ¬ ((col != col) = true) := by cases col <;> simp
            rw [if_neg hcc]
            rw [← hg2]
            refine Paint.skip _ c2 hwf2 _ (fun X Y hh => ?_)
            unfold inkBit at hh; simp [hb] at hh)
        c1 hwf1 hg1
      exact inner.congr (fun X Y => ⟨fun ⟨j, hj, hi, hb⟩ => ⟨j, hj, hi, hb⟩, fun ⟨j, hj, hi, hb⟩ => ⟨j, hj, hi, hb⟩⟩))
    c hwf hg
  refine key.congr (fun X Y => ?_)
  unfold glyphR
  constructor
  · rintro ⟨i, hi, j, hj, hink, hb⟩; exact ⟨i, j, hi, hj, hink, hb⟩
  · rintro ⟨i, j, hi, hj, hink, hb⟩; exact ⟨i, hi, j, hj, hink, hb⟩

/-- region lit by a string (no line feed, wrapping off), cursor advancing as `writeChar` does -/
def textR (g : Geom) : TextSt → List Nat → Region
  | _, [] => fun _ _ => False
  | t, ch :: rest =>
    if ch = 13 then textR g t rest
    else fun X Y =>
      (¬ earlyRet g t t.cx t.cy ch t.tsH t.tsV ∧ glyphR g t t.cx t.cy ch t.tsH t.tsV X Y) ∨
      textR g { t with cx := t.cx + t.tsH * (charWidth t ch : Int) + t.spacing } rest X Y

theorem renderText_paint (s : List Nat) (hs : 10 ∉ s) (c : Canvas) (hwf : c.WF) (t : TextSt)
    (hw : t.wrap = false) (hbg : t.tbg = t.tcol) :
    Paint (textR c.geo t s) (t.tcol != c.geo.inv) c (renderText (c, t) s).1 := by
  unfold renderText
  induction s generalizing c t with
  | nil => exact Paint.skip _ c hwf _ (fun _ _ h => h)
  | cons ch rest ih =>
    have hch : ch ≠ 10 := fun e => hs (by simp [e])
    have hrest : 10 ∉ rest := fun e => hs (by simp [e])
    rw [List.foldl_cons]
    by_cases h13 : ch = 13
    · have hw13 : writeChar (c, t) ch = (c, t) := by unfold writeChar; simp [h13]
      rw [hw13]
      have := ih hrest c hwf t hw hbg
      unfold textR; rw [if_pos h13]; exact this
    · have hwc : writeChar (c, t) ch =
          (drawChar c t t.cx t.cy ch t.tcol t.tbg t.tsH t.tsV,
            { t with cx := t.cx + t.tsH * (charWidth t ch : Int) + t.spacing }) := by
        unfold writeChar; simp [hch, h13, hw]
      rw [hwc]
      have edc : drawChar c t t.cx t.cy ch t.tcol t.tbg t.tsH t.tsV = drawChar c t t.cx t.cy ch t.tcol t.tcol t.tsH t.tsV := by
        rw [hbg]
      rw [edc]
      have p1 : Paint (fun X Y => ¬ earlyRet c.geo t t.cx t.cy ch t.tsH t.tsV ∧ glyphR c.geo t t.cx t.cy ch t.tsH t.tsV X Y)
          (t.tcol != c.geo.inv) c (drawChar c t t.cx t.cy ch t.tcol t.tcol t.tsH t.tsV) := by
        by_cases he : earlyRet c.geo t t.cx t.cy ch t.tsH t.tsV
        · have : drawChar c t t.cx t.cy ch t.tcol t.tcol t.tsH t.tsV = c := by
            have he' : t.cx > getBWidth c.geo - ((charWidth t ch : Int) - 1) * t.tsH ∨ t.cy > (c.geo.H : Int) ∨
                t.cx + (t.fp.bbW : Int) * t.tsH - 1 < 0 ∨ t.cy + (t.fp.bbH : Int) * t.tsV - 1 < 0 := he
            unfold drawChar; simp only []; rw [if_pos he']
          rw [this]
          exact Paint.skip _ c hwf _ (fun X Y hh => hh.1 he)
        · exact (drawChar_paint c hwf t t.cx t.cy ch t.tcol t.tsH t.tsV he).congr
            (fun X Y => ⟨fun hh => ⟨he, hh⟩, fun hh => hh.2⟩)
      have p2 := ih hrest _ p1.wf { t with cx := t.cx + t.tsH * (charWidth t ch : Int) + t.spacing } hw hbg
      rw [p1.geo] at p2
      have := p1.seq p2
      unfold textR; rw [if_neg h13]
      exact this

end RawPanelVerif.Mono
