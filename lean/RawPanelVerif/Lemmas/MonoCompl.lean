import RawPanelVerif.Lemmas.MonoOps
/-!
# Inversion = complement

`Compl c c'`: the two canvases have the same geometry except that the inversion flag is flipped, both are
well-formed, and every *visible* pixel of `c'` is the complement of the pixel of `c`.  Every drawing primitive maps
complementary canvases to complementary canvases (its control flow never reads the pixels), hence so does every
operation sequence.
-/
namespace RawPanelVerif.Mono

def flipInv (g : Geom) : Geom := { g with inv := !g.inv }

structure Compl (c c' : Canvas) : Prop where
  wf : c.WF
  wf' : c'.WF
  geo : c'.geo = flipInv c.geo
  vis : ∀ X Y, X < c.geo.W → Y < c.geo.H → getPx c' X Y = !getPx c X Y

theorem inClip_flip (g : Geom) (X Y : Int) : inClip (flipInv g) X Y ↔ inClip g X Y := Iff.rfl

theorem drawPixel_compl {c c' : Canvas} (h : Compl c c') (x y : Int) (col : Bool) :
    Compl (drawPixel c x y col) (drawPixel c' x y col) where
  wf := drawPixel_wf c x y col h.wf
  wf' := drawPixel_wf c' x y col h.wf'
  geo := by rw [drawPixel_geo, drawPixel_geo, h.geo]
  vis := fun X Y hX hY => by
    rw [drawPixel_geo] at hX hY
    have hw := h.wf.1
    have hX8 : X < c.geo.wib * 8 := by omega
    have hg := h.geo
    have hX8' : X < c'.geo.wib * 8 := by rw [hg]; exact hX8
    have hY' : Y < c'.geo.H := by rw [hg]; exact hY
    rw [drawPixel_exact c h.wf x y col X Y hX8 hY, drawPixel_exact c' h.wf' x y col X Y hX8' hY']
    rw [hg]
    have e1 : (flipInv c.geo).bx = c.geo.bx := rfl
    have e2 : (flipInv c.geo).byy = c.geo.byy := rfl
    have e3 : (flipInv c.geo).inv = !c.geo.inv := rfl
    rw [e1, e2, e3]
    by_cases hc : inClip c.geo (x + c.geo.bx) (y + c.geo.byy) ∧ (X : Int) = x + c.geo.bx ∧ (Y : Int) = y + c.geo.byy
    · have hc' : inClip (flipInv c.geo) (x + c.geo.bx) (y + c.geo.byy) ∧ (X : Int) = x + c.geo.bx ∧ (Y : Int) = y + c.geo.byy :=
        ⟨(inClip_flip _ _ _).2 hc.1, hc.2⟩
      rw [if_pos hc, if_pos hc']
      cases col <;> cases c.geo.inv <;> rfl
    · have hc' : ¬ (inClip (flipInv c.geo) (x + c.geo.bx) (y + c.geo.byy) ∧ (X : Int) = x + c.geo.bx ∧ (Y : Int) = y + c.geo.byy) :=
        fun hh => hc ⟨(inClip_flip _ _ _).1 hh.1, hh.2⟩
      rw [if_neg hc, if_neg hc']
      exact h.vis X Y hX hY

/-- a loop whose body preserves a relation preserves it -/
theorem loopN_rel (Rel : Canvas → Canvas → Prop) (f g : Canvas → Nat → Canvas)
    (h : ∀ a b i, Rel a b → Rel (f a i) (g b i)) (n : Nat) (a b : Canvas) (hab : Rel a b) :
    Rel (loopN n f a) (loopN n g b) := by
  induction n with
  | zero => exact hab
  | succ n ih => rw [loopN_succ, loopN_succ]; exact h _ _ n ih

theorem vline_compl {c c' : Canvas} (h : Compl c c') (x y hh : Int) (col : Bool) :
    Compl (vline c x y hh col) (vline c' x y hh col) :=
  loopN_rel Compl _ _ (fun _ _ i hab => drawPixel_compl hab x (y + i) col) _ c c' h

theorem hline_compl {c c' : Canvas} (h : Compl c c') (x y w : Int) (col : Bool) :
    Compl (hline c x y w col) (hline c' x y w col) :=
  loopN_rel Compl _ _ (fun _ _ i hab => drawPixel_compl hab (x + i) y col) _ c c' h

theorem fillRect_compl {c c' : Canvas} (h : Compl c c') (x y w hh : Int) (col : Bool) :
    Compl (fillRect c x y w hh col) (fillRect c' x y w hh col) :=
  loopN_rel Compl _ _ (fun _ _ i hab => vline_compl hab (x + i) y hh col) _ c c' h

theorem ite_compl {c c' : Canvas} (b : Bool) (f : Canvas → Canvas) (h : Compl c c')
    (hf : Compl (f c) (f c')) : Compl (if b then f c else c) (if b then f c' else c') := by
  cases b
  · exact h
  · exact hf

theorem circPlot_compl {c c' : Canvas} (h : Compl c c') (x0 y0 corner : Int) (col : Bool) (x y : Int) :
    Compl (circPlot c x0 y0 corner col x y) (circPlot c' x0 y0 corner col x y) := by
  unfold circPlot
  simp only []
  have s1 := ite_compl (cornerBit corner 4) (fun c => drawPixel (drawPixel c (x0 + x) (y0 + y) col) (x0 + y) (y0 + x) col) h
    (drawPixel_compl (drawPixel_compl h _ _ col) _ _ col)
  have s2 := ite_compl (cornerBit corner 2) (fun c => drawPixel (drawPixel c (x0 + x) (y0 - y) col) (x0 + y) (y0 - x) col) s1
    (drawPixel_compl (drawPixel_compl s1 _ _ col) _ _ col)
  have s3 := ite_compl (cornerBit corner 8) (fun c => drawPixel (drawPixel c (x0 - y) (y0 + x) col) (x0 - x) (y0 + y) col) s2
    (drawPixel_compl (drawPixel_compl s2 _ _ col) _ _ col)
  exact ite_compl (cornerBit corner 1) (fun c => drawPixel (drawPixel c (x0 - y) (y0 - x) col) (x0 - x) (y0 - y) col) s3
    (drawPixel_compl (drawPixel_compl s3 _ _ col) _ _ col)

theorem drawCircleHelperLoop_compl (x0 y0 corner : Int) (col : Bool) (c : Canvas) (s : Circ) (c' : Canvas)
    (h : Compl c c') :
    Compl (drawCircleHelperLoop c x0 y0 corner col s) (drawCircleHelperLoop c' x0 y0 corner col s) := by
  fun_induction drawCircleHelperLoop c x0 y0 corner col s generalizing c' with
  | case1 c s hlt ih =>
    rw [drawCircleHelperLoop.eq_def c']
    simp only [hlt, dite_true]
    exact ih _ (circPlot_compl h x0 y0 corner col s.next.x s.next.y)
  | case2 c s hlt =>
    rw [drawCircleHelperLoop.eq_def c']
    simp only [hlt, dite_false]
    exact h

theorem drawCircleHelper_compl {c c' : Canvas} (h : Compl c c') (x0 y0 r corner : Int) (col : Bool) :
    Compl (drawCircleHelper c x0 y0 r corner col) (drawCircleHelper c' x0 y0 r corner col) :=
  drawCircleHelperLoop_compl x0 y0 corner col c _ c' h

theorem fillCircPlot_compl {c c' : Canvas} (h : Compl c c') (x0 y0 corner delta : Int) (col : Bool) (x y : Int) :
    Compl (fillCircPlot c x0 y0 corner delta col x y) (fillCircPlot c' x0 y0 corner delta col x y) := by
  unfold fillCircPlot
  simp only []
  have s1 := ite_compl (cornerBit corner 1)
    (fun c => vline (vline c (x0 + x) (y0 - y) (2 * y + 1 + delta) col) (x0 + y) (y0 - x) (2 * x + 1 + delta) col) h
    (vline_compl (vline_compl h _ _ _ col) _ _ _ col)
  exact ite_compl (cornerBit corner 2)
    (fun c => vline (vline c (x0 - x) (y0 - y) (2 * y + 1 + delta) col) (x0 - y) (y0 - x) (2 * x + 1 + delta) col) s1
    (vline_compl (vline_compl s1 _ _ _ col) _ _ _ col)

theorem fillCircleHelperLoop_compl (x0 y0 corner delta : Int) (col : Bool) (c : Canvas) (s : Circ) (c' : Canvas)
    (h : Compl c c') :
    Compl (fillCircleHelperLoop c x0 y0 corner delta col s) (fillCircleHelperLoop c' x0 y0 corner delta col s) := by
  fun_induction fillCircleHelperLoop c x0 y0 corner delta col s generalizing c' with
  | case1 c s hlt ih =>
    rw [fillCircleHelperLoop.eq_def c']
    simp only [hlt, dite_true]
    exact ih _ (fillCircPlot_compl h x0 y0 corner delta col s.next.x s.next.y)
  | case2 c s hlt =>
    rw [fillCircleHelperLoop.eq_def c']
    simp only [hlt, dite_false]
    exact h

theorem fillCircleHelper_compl {c c' : Canvas} (h : Compl c c') (x0 y0 r corner delta : Int) (col : Bool) :
    Compl (fillCircleHelper c x0 y0 r corner delta col) (fillCircleHelper c' x0 y0 r corner delta col) :=
  fillCircleHelperLoop_compl x0 y0 corner delta col c _ c' h

theorem drawRoundRect_compl {c c' : Canvas} (h : Compl c c') (x y w hh r : Int) (col : Bool) :
    Compl (drawRoundRect c x y w hh r col) (drawRoundRect c' x y w hh r col) := by
  unfold drawRoundRect
  simp only []
  exact drawCircleHelper_compl (drawCircleHelper_compl (drawCircleHelper_compl (drawCircleHelper_compl
    (vline_compl (vline_compl (hline_compl (hline_compl h _ _ _ col) _ _ _ col) _ _ _ col) _ _ _ col)
    _ _ _ _ col) _ _ _ _ col) _ _ _ _ col) _ _ _ _ col

theorem fillRoundRect_compl {c c' : Canvas} (h : Compl c c') (x y w hh r : Int) (col : Bool) :
    Compl (fillRoundRect c x y w hh r col) (fillRoundRect c' x y w hh r col) := by
  unfold fillRoundRect
  simp only []
  exact fillCircleHelper_compl (fillCircleHelper_compl (fillRect_compl h _ _ _ _ col) _ _ _ _ _ col) _ _ _ _ _ col

theorem drawBitmap_compl {c c' : Canvas} (h : Compl c c') (x y : Int) (bits : Array UInt8) (w hh : Int)
    (col inverted drawAll : Bool) :
    Compl (drawBitmap c x y bits w hh col inverted drawAll) (drawBitmap c' x y bits w hh col inverted drawAll) := by
  unfold drawBitmap
  simp only []
  refine loopN_rel Compl _ _ (fun a b j hab => ?_) _ c c' h
  refine loopN_rel Compl _ _ (fun a b i hab => ?_) _ a b hab
  split
  · split
    · exact drawPixel_compl hab _ _ _
    · exact hab
  · exact hab

theorem getBWidth_flip (g : Geom) : getBWidth (flipInv g) = getBWidth g := rfl

theorem drawBlock_compl {c c' : Canvas} (h : Compl c c') (x y : Int) (i j : Nat) (tsH tsV : Int) (col : Bool) :
    Compl (drawBlock c x y i j tsH tsV col) (drawBlock c' x y i j tsH tsV col) := by
  unfold drawBlock
  split
  · exact drawPixel_compl h _ _ col
  · exact fillRect_compl h _ _ _ _ col

theorem drawChar_compl {c c' : Canvas} (h : Compl c c') (t : TextSt) (x y : Int) (ch : Nat) (col bg : Bool)
    (tsH tsV : Int) :
    Compl (drawChar c t x y ch col bg tsH tsV) (drawChar c' t x y ch col bg tsH tsV) := by
  unfold drawChar
  simp only []
  rw [h.geo, getBWidth_flip]
  have eH : (flipInv c.geo).H = c.geo.H := rfl
  rw [eH]
  split
  · exact h
  · refine loopN_rel Compl _ _ (fun a b i hab => ?_) _ c c' h
    refine loopN_rel Compl _ _ (fun a b j hab => ?_) _ a b hab
    split
    · exact drawBlock_compl hab _ _ _ _ _ _ col
    · split
      · exact drawBlock_compl hab _ _ _ _ _ _ bg
      · exact hab

theorem writeChar_compl {c c' : Canvas} (h : Compl c c') (t : TextSt) (ch : Nat) :
    Compl (writeChar (c, t) ch).1 (writeChar (c', t) ch).1 ∧ (writeChar (c', t) ch).2 = (writeChar (c, t) ch).2 := by
  unfold writeChar
  simp only []
  rw [h.geo, getBWidth_flip]
  split
  · exact ⟨h, rfl⟩
  · split
    · exact ⟨h, rfl⟩
    · split
      · exact ⟨drawChar_compl h _ _ _ _ _ _ _ _, rfl⟩
      · exact ⟨drawChar_compl h _ _ _ _ _ _ _ _, rfl⟩

theorem renderText_compl (s : List Nat) (c c' : Canvas) (h : Compl c c') (t : TextSt) :
    Compl (renderText (c, t) s).1 (renderText (c', t) s).1 := by
  unfold renderText
  induction s generalizing c c' t with
  | nil => exact h
  | cons ch s ih =>
    rw [List.foldl_cons, List.foldl_cons]
    obtain ⟨h1, h2⟩ := writeChar_compl h t ch
    have e : writeChar (c', t) ch = ((writeChar (c', t) ch).1, (writeChar (c, t) ch).2) := by
      rw [← h2]
    rw [e]
    exact ih _ _ h1 _

theorem setBoundingBox_compl {c c' : Canvas} (h : Compl c c') (x y w hh : Int) :
    Compl (setBoundingBox c x y w hh) (setBoundingBox c' x y w hh) where
  wf := by have := h.wf; unfold setBoundingBox Canvas.WF at *; simpa using this
  wf' := by have := h.wf'; unfold setBoundingBox Canvas.WF at *; simpa using this
  geo := by unfold setBoundingBox; simp only []; rw [h.geo]; rfl
  vis := fun X Y hX hY => by
    have := h.vis X Y hX hY
    unfold getPx setBoundingBox at *
    simp only [] at *
    rw [h.geo] at this ⊢
    exact this

/-- every operation except `InvertPixels` maps complementary canvases to complementary canvases -/
theorem applyOp_compl {c c' : Canvas} (h : Compl c c') (op : Op) (hop : ∀ b, op ≠ .inv b) :
    Compl (applyOp c op) (applyOp c' op) := by
  cases op with
  | px x y col => exact drawPixel_compl h x y col
  | hline x y w col => exact hline_compl h x y w col
  | vline x y hh col => exact vline_compl h x y hh col
  | frect x y w hh col => exact fillRect_compl h x y w hh col
  | rrect x y w hh r col => exact drawRoundRect_compl h x y w hh r col
  | frrect x y w hh r col => exact fillRoundRect_compl h x y w hh r col
  | circ x0 y0 r k col => exact drawCircleHelper_compl h x0 y0 r k col
  | fcirc x0 y0 r k d col => exact fillCircleHelper_compl h x0 y0 r k d col
  | bitmap x y bits w hh col i a => exact drawBitmap_compl h x y bits w hh col i a
  | glyph t x y ch col bg hs vs => exact drawChar_compl h t x y ch col bg hs vs
  | text t s => exact renderText_compl s c c' h t
  | bbox x y w hh => exact setBoundingBox_compl h x y w hh
  | inv b => exact absurd rfl (hop b)

theorem foldl_compl (ops : List Op) (hops : ∀ op ∈ ops, ∀ b, op ≠ .inv b) (c c' : Canvas) (h : Compl c c') :
    Compl (ops.foldl applyOp c) (ops.foldl applyOp c') := by
  induction ops generalizing c c' with
  | nil => exact h
  | cons op ops ih =>
    rw [List.foldl_cons, List.foldl_cons]
    exact ih (fun o ho => hops o (by simp [ho])) _ _ (applyOp_compl h op (hops op (by simp)))

end RawPanelVerif.Mono
