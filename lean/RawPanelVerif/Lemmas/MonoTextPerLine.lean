import RawPanelVerif.Lemmas.MonoTextBox
/-!
# Text with line feeds, line by line

`lineSt t n` = the text state at the start of line `n` (after `n` line feeds: cursor column 0, `n` line advances down).
`textR0L_lines`: the region painted by a string is the union over its LF-separated lines `lines s` of the one-line regions
`textR0` at `lineSt t n`; `noEarlyL_of_lines` the same for the whole-glyph tests.  `textR0_rows`: the ink of one line lies
in the rows of its band.  `renderText_blankL`: pixel values of a rendering on a blank canvas of ANY width (stored bits up
to the row stride, padding included).
-/
namespace RawPanelVerif.Mono
open RawPanelVerif.Gen

/-- text state at the start of line `n`: `n` line feeds after `t` -/
def lineSt : TextSt → Nat → TextSt
  | t, 0 => t
  | t, n + 1 => lineSt (nl t) n

/-- closed form: column 0 (line 0: the cursor column), `n` line advances down, everything else unchanged -/
theorem lineSt_eq (t : TextSt) (n : Nat) :
    lineSt t n = if n = 0 then t else { t with cx := 0, cy := t.cy + n * lineAdvance t } := by
  induction n generalizing t with
  | zero => rfl
  | succ n ih =>
    have hne : ¬ (n + 1 = 0) := Nat.succ_ne_zero n
    rw [if_neg hne]
    show lineSt (nl t) n = _
    rw [ih (nl t)]
    have em : ((n + 1 : Nat) : Int) * lineAdvance t = (n : Int) * lineAdvance t + lineAdvance t := by
      rw [Int.natCast_add, Int.add_mul]; simp
    by_cases h0 : n = 0
    · subst h0
      rw [if_pos rfl]
      unfold nl
      simp only [TextSt.mk.injEq, and_true, true_and]
      omega
    · rw [if_neg h0]
      have e1 : lineAdvance (nl t) = lineAdvance t := rfl
      have e2 : (nl t).cy = t.cy + lineAdvance t := rfl
      rw [e1, e2]
      unfold nl
      simp only [TextSt.mk.injEq, and_true, true_and]
      omega

theorem lines_cons_lf (rest : List Nat) : lines (10 :: rest) = [] :: lines rest := by simp [lines]

theorem lines_cons_ne (ch : Nat) (rest : List Nat) (h10 : ch ≠ 10) :
    ∃ l ls, lines rest = l :: ls ∧ lines (ch :: rest) = (ch :: l) :: ls := by
  cases h : lines rest with
  | nil => exact absurd h (lines_ne_nil rest)
  | cons l ls =>
    refine ⟨l, ls, rfl, ?_⟩
    show (if ch = 10 then [] :: lines rest else match lines rest with | [] => [[ch]] | l :: ls => (ch :: l) :: ls) = _
    rw [if_neg h10, h]

/-- **The painted region, line by line**: the union over the lines of the one-line regions -/
theorem textR0L_lines (g : Geom) (s : List Nat) (t : TextSt) (X Y : Nat) :
    textR0L g t s X Y ↔ ∃ n l, (lines s)[n]? = some l ∧ textR0 g (lineSt t n) l X Y := by
  induction s generalizing t with
  | nil =>
    constructor
    · intro h; exact h.elim
    · rintro ⟨n, l, hn, hr⟩
      cases n with
      | zero =>
        have : l = [] := by simpa [lines] using hn.symm
        subst this; exact hr.elim
      | succ n => simp [lines] at hn
  | cons ch rest ih =>
    by_cases h10 : ch = 10
    · subst h10
      rw [lines_cons_lf]
      simp only [textR0L, if_true]
      rw [ih (nl t)]
      constructor
      · rintro ⟨n, l, hn, hr⟩; exact ⟨n + 1, l, by simpa using hn, hr⟩
      · rintro ⟨n, l, hn, hr⟩
        cases n with
        | zero =>
          have : l = [] := by simpa using hn.symm
          subst this; exact hr.elim
        | succ n => exact ⟨n, l, by simpa using hn, hr⟩
    · obtain ⟨l, ls, hl, e⟩ := lines_cons_ne ch rest h10
      rw [e]
      by_cases h13 : ch = 13
      · subst h13
        simp only [textR0L, h10, if_true, if_false]
        rw [ih t, hl]
        constructor
        · rintro ⟨n, l', hn, hr⟩
          cases n with
          | zero =>
            have : l' = l := by simpa using hn.symm
            subst this
            refine ⟨0, 13 :: l', rfl, ?_⟩
            show textR0 g t (13 :: l') X Y
            simp only [textR0, if_true]; exact hr
          | succ n => exact ⟨n + 1, l', hn, hr⟩
        · rintro ⟨n, l', hn, hr⟩
          cases n with
          | zero =>
            have : l' = 13 :: l := by simpa using hn.symm
            subst this
            refine ⟨0, l, rfl, ?_⟩
            have hr' : textR0 g t (13 :: l) X Y := hr
            simp only [textR0, if_true] at hr'; exact hr'
          | succ n => exact ⟨n + 1, l', hn, hr⟩
      · simp only [textR0L, h10, h13, if_false]
        rw [ih { t with cx := t.cx + t.tsH * (charWidth t ch : Int) + t.spacing }, hl]
        constructor
        · rintro (hg | ⟨n, l', hn, hr⟩)
          · refine ⟨0, ch :: l, rfl, ?_⟩
            show textR0 g t (ch :: l) X Y
            simp only [textR0, h13, if_false]; exact Or.inl hg
          · cases n with
            | zero =>
              have : l' = l := by simpa using hn.symm
              subst this
              refine ⟨0, ch :: l', rfl, ?_⟩
              show textR0 g t (ch :: l') X Y
              simp only [textR0, h13, if_false]; exact Or.inr hr
            | succ n => exact ⟨n + 1, l', hn, hr⟩
        · rintro ⟨n, l', hn, hr⟩
          cases n with
          | zero =>
            have : l' = ch :: l := by simpa using hn.symm
            subst this
            have hr' : textR0 g t (ch :: l) X Y := hr
            simp only [textR0, h13, if_false] at hr'
            rcases hr' with hg | hr'
            · exact Or.inl hg
            · exact Or.inr ⟨0, l, rfl, hr'⟩
          | succ n => exact Or.inr ⟨n + 1, l', hn, hr⟩

/-- no glyph of any line rejected ⇒ no glyph of the string rejected -/
theorem noEarlyL_of_lines (g : Geom) (s : List Nat) (t : TextSt)
    (h : ∀ n l, (lines s)[n]? = some l → NoEarly g (lineSt t n) l) : NoEarlyL g t s := by
  induction s generalizing t with
  | nil => simp [NoEarlyL]
  | cons ch rest ih =>
    by_cases h10 : ch = 10
    · subst h10
      rw [lines_cons_lf] at h
      simp only [NoEarlyL, if_true]
      exact ih (nl t) (fun n l hn => h (n + 1) l (by simpa using hn))
    · obtain ⟨l, ls, hl, e⟩ := lines_cons_ne ch rest h10
      rw [e] at h
      by_cases h13 : ch = 13
      · subst h13
        simp only [NoEarlyL, h10, if_true, if_false]
        refine ih t (fun n l' hn => ?_)
        rw [hl] at hn
        cases n with
        | zero =>
          have : l' = l := by simpa using hn.symm
          subst this
          have h0 : NoEarly g t (13 :: l') := h 0 (13 :: l') rfl
          simp only [NoEarly, if_true] at h0; exact h0
        | succ n => exact h (n + 1) l' hn
      · simp only [NoEarlyL, h10, h13, if_false]
        have h0 : NoEarly g t (ch :: l) := h 0 (ch :: l) rfl
        simp only [NoEarly, h13, if_false] at h0
        refine ⟨h0.1, ih _ (fun n l' hn => ?_)⟩
        rw [hl] at hn
        cases n with
        | zero =>
          have : l' = l := by simpa using hn.symm
          subst this; exact h0.2
        | succ n => exact h (n + 1) l' hn

/-! ## rows of a line -/

theorem glyphR_rows (g : Geom) (t : TextSt) (x y : Int) (ch : Nat) (h v : Int) (hv : 0 ≤ v) (X Y : Nat)
    (hg : glyphR g t x y ch h v X Y) :
    clipR g X Y ∧ y + g.byy ≤ (Y : Int) ∧ (Y : Int) < y + g.byy + (t.fp.bbH : Int) * v := by
  unfold glyphR blockR boxR at hg
  obtain ⟨i, j, _, hj, _, hc, _, _, q3, q4⟩ := hg
  have h0 : (0 : Int) ≤ (j : Int) * v := Int.mul_nonneg (by omega) hv
  have h1 : ((j : Int) + 1) * v ≤ (t.fp.bbH : Int) * v := Int.mul_le_mul_of_nonneg_right (by omega) hv
  rw [Int.add_mul, Int.one_mul] at h1
  exact ⟨hc, by omega, by omega⟩

/-- the ink of one line lies inside the clip rectangle and in the rows `[cy, cy + v·cellHeight)` -/
theorem textR0_rows (g : Geom) (s : List Nat) (t : TextSt) (hv : 0 ≤ t.tsV) (X Y : Nat) (hr : textR0 g t s X Y) :
    clipR g X Y ∧ t.cy + g.byy ≤ (Y : Int) ∧ (Y : Int) < t.cy + g.byy + (t.fp.bbH : Int) * t.tsV := by
  induction s generalizing t with
  | nil => exact hr.elim
  | cons ch rest ih =>
    simp only [textR0] at hr
    by_cases h13 : ch = 13
    · simp only [h13, if_true] at hr; exact ih t hv hr
    · simp only [h13, if_false] at hr
      rcases hr with hg | hrest
      · exact glyphR_rows g t t.cx t.cy ch t.tsH t.tsV hv X Y hg
      · exact ih { t with cx := t.cx + t.tsH * (charWidth t ch : Int) + t.spacing } hv hrest

/-! ## pixel values on a blank canvas of any width -/

/-- **Pixel value of a rendered text (line feeds included) on a blank canvas of any width**, for every stored bit of the
row — the padding bits `W ≤ X < 8·⌈W/8⌉` included: lit (in the text colour) exactly on `textR0L` -/
theorem renderText_blankL (W H : Nat) (t : TextSt) (s : List Nat) (hw : t.wrap = false)
    (hbg : t.tbg = t.tcol) (hne : NoEarlyL (geo0 W H) t s) (X Y : Nat) (hX : X < (W + 7) / 8 * 8) (hY : Y < H) :
    (textR0L (geo0 W H) t s X Y → getPx (renderText (newCanvas W H, t) s).1 X Y = t.tcol) ∧
    (¬ textR0L (geo0 W H) t s X Y → getPx (renderText (newCanvas W H, t) s).1 X Y = false) := by
  have p := renderText_paintL s (newCanvas W H) (newCanvas_wf' W H) t hw hbg
  rw [newCanvas_geo] at p
  have hX8 : X < (newCanvas W H).geo.wib * 8 := by rw [newCanvas_geo]; exact hX
  have hY' : Y < (newCanvas W H).geo.H := by rw [newCanvas_geo]; exact hY
  constructor
  · intro hr
    rw [p.inside X Y hX8 hY' ((textRL_iff_textR0L _ s t hne X Y).2 hr)]
    unfold geo0; simp
  · intro hr
    rw [p.same X Y hX8 hY' (fun h => hr ((textRL_iff_textR0L _ s t hne X Y).1 h))]
    exact getPx_newCanvas W H X Y

/-- width of a line at size `(h, v)` = `h ×` its width at size 1, extra spacing 0 -/
theorem advSum_scale (t : TextSt) (hsp : t.spacing = 0) (h v cx cy cx' cy' : Int) (l : List Nat) :
    advSum (atSize t h v cx cy) l = h * advSum (atSize t 1 1 cx' cy') l := by
  induction l with
  | nil => simp [advSum]
  | cons ch rest ih =>
    have e1 : advSum (atSize t h v cx cy) (ch :: rest) =
        ((charWidth t ch : Int) * h + (t.spacing : Int)) + advSum (atSize t h v cx cy) rest := rfl
    have e2 : advSum (atSize t 1 1 cx' cy') (ch :: rest) =
        ((charWidth t ch : Int) * 1 + (t.spacing : Int)) + advSum (atSize t 1 1 cx' cy') rest := rfl
    rw [e1, e2, ih, hsp, Int.mul_add, Int.mul_add]
    have : (charWidth t ch : Int) * h = h * ((charWidth t ch : Int) * 1) := by rw [Int.mul_one, Int.mul_comm]
    rw [this]; simp

end RawPanelVerif.Mono
