import RawPanelVerif.Base.Dbl
/-!
# Monotonicity of the correctly rounded double operations of Base/Dbl.lean

`rn` (nearest double, half-even), `mulInt` (double × integer, correctly rounded) and `trunc` are monotone.
The value of a non-negative double `(m, e)` is the fraction `m · de e / nu e` with `de e = 2^e⁺`, `nu e = 2^(-e)⁺`;
fractions are compared by cross-multiplication (`D.Le`).  Key facts: `divRNE_mono` (round-half-even division is
monotone on fractions), `rnE_norm` (the exponent chosen by `rn` normalises the quotient into `[2^52, 2^53)`),
`rnD_mono`, and the composite `barLen_mono` used by the tile renderer's value bar.
-/
namespace RawPanelVerif.Dbl

/-! ## round-half-even division -/

/-- characterisation of round-half-even division: within half a unit, ties go to the even quotient -/
theorem divRNE_spec (a b : Nat) (hb : 0 < b) :
    2 * (divRNE a b * b) ≤ 2 * a + b ∧ 2 * a ≤ 2 * (divRNE a b * b) + b ∧
    (2 * a = 2 * (divRNE a b * b) + b → divRNE a b % 2 = 0) ∧
    (2 * (divRNE a b * b) = 2 * a + b → divRNE a b % 2 = 0) := by
  have h1 := Nat.div_add_mod a b
  have h2 := Nat.mod_lt a hb
  unfold divRNE
  simp only []
  generalize a / b = q at *
  generalize a % b = r at *
  have e1 : (q + 1) * b = q * b + b := Nat.succ_mul q b
  have e2 : b * q = q * b := Nat.mul_comm b q
  rw [e2] at h1
  generalize hqb : q * b = qb at *
  by_cases c1 : 2 * r < b
  · rw [if_pos c1]; rw [hqb]; omega
  · rw [if_neg c1]
    by_cases c2 : 2 * r > b
    · rw [if_pos c2, e1]; omega
    · rw [if_neg c2]
      by_cases c3 : q % 2 = 0
      · rw [if_pos c3, hqb]; omega
      · rw [if_neg c3, e1]; omega

/-- round-half-even division is monotone on fractions (`a1/b1 ≤ a2/b2`) -/
theorem divRNE_mono (a1 b1 a2 b2 : Nat) (h1 : 0 < b1) (h2 : 0 < b2) (h : a1 * b2 ≤ a2 * b1) :
    divRNE a1 b1 ≤ divRNE a2 b2 := by
  obtain ⟨p1, _, p3, p4⟩ := divRNE_spec a1 b1 h1
  obtain ⟨_, q2, q3, q4⟩ := divRNE_spec a2 b2 h2
  generalize divRNE a1 b1 = k1 at *
  generalize divRNE a2 b2 = k2 at *
  apply Nat.le_of_not_lt
  intro hlt
  have hb : 0 < b1 * b2 := Nat.mul_pos h1 h2
  have s1 : 2 * (k1 * b1) * b2 ≤ (2 * a1 + b1) * b2 := Nat.mul_le_mul_right b2 p1
  have s2 : 2 * a2 * b1 ≤ (2 * (k2 * b2) + b2) * b1 := Nat.mul_le_mul_right b1 q2
  have e1 : 2 * (k1 * b1) * b2 = 2 * (k1 * (b1 * b2)) := by grind
  have e2 : (2 * a1 + b1) * b2 = 2 * (a1 * b2) + b1 * b2 := by grind
  have e3 : 2 * a2 * b1 = 2 * (a2 * b1) := by grind
  have e4 : (2 * (k2 * b2) + b2) * b1 = 2 * (k2 * (b1 * b2)) + b1 * b2 := by grind
  rw [e1, e2] at s1
  rw [e3, e4] at s2
  obtain ⟨d, rfl⟩ : ∃ d, k1 = k2 + 1 + d := ⟨k1 - (k2 + 1), by omega⟩
  have e5 : (k2 + 1 + d) * (b1 * b2) = k2 * (b1 * b2) + b1 * b2 + d * (b1 * b2) := by grind
  rw [e5] at s1
  have hd : d = 0 := by
    apply Nat.eq_zero_of_not_pos
    intro hd
    have : b1 * b2 ≤ d * (b1 * b2) := Nat.le_mul_of_pos_left _ hd
    omega
  subst hd
  have t1 : 2 * ((k2 + 1 + 0) * b1) = 2 * a1 + b1 := by
    have : 2 * ((k2 + 1 + 0) * b1) * b2 = (2 * a1 + b1) * b2 := by
      have e6 : 2 * ((k2 + 1 + 0) * b1) * b2 = 2 * (k2 * (b1 * b2)) + 2 * (b1 * b2) := by grind
      rw [e6, e2]; omega
    exact Nat.eq_of_mul_eq_mul_right h2 this
  have t2 : 2 * a2 = 2 * (k2 * b2) + b2 := by
    have : 2 * a2 * b1 = (2 * (k2 * b2) + b2) * b1 := by rw [e3, e4]; omega
    exact Nat.eq_of_mul_eq_mul_right h1 this
  have := p4 t1
  have := q3 t2
  omega

theorem divRNE_exact (k b : Nat) (hb : 0 < b) : divRNE (k * b) b = k := by
  unfold divRNE
  simp only [Nat.mul_mod_left, Nat.mul_zero]
  rw [if_pos hb]
  exact Nat.mul_div_cancel _ hb

/-! ## powers of two with integer exponents: `2^e = de e / nu e` -/

def de (e : Int) : Nat := 2 ^ e.toNat
def nu (e : Int) : Nat := 2 ^ (-e).toNat

theorem de_pos (e : Int) : 0 < de e := Nat.pow_pos (by decide)
theorem nu_pos (e : Int) : 0 < nu e := Nat.pow_pos (by decide)

theorem de_nu_succ (e : Int) : de (e + 1) * nu e = 2 * (de e * nu (e + 1)) := by
  unfold de nu
  by_cases h : 0 ≤ e
  · have e1 : (e + 1).toNat = e.toNat + 1 := by omega
    have e2 : (-e).toNat = 0 := by omega
    have e3 : (-(e + 1)).toNat = 0 := by omega
    rw [e1, e2, e3, Nat.pow_succ]; omega
  · have e1 : (e + 1).toNat = 0 := by omega
    have e2 : e.toNat = 0 := by omega
    have e3 : (-e).toNat = (-(e + 1)).toNat + 1 := by omega
    rw [e1, e2, e3, Nat.pow_succ]; omega

theorem de_nu_add (e : Int) (k : Nat) : de (e + k) * nu e = 2 ^ k * (de e * nu (e + k)) := by
  induction k with
  | zero => simp
  | succ k ih =>
    have h := de_nu_succ (e + k)
    have e1 : e + ((k + 1 : Nat) : Int) = e + k + 1 := by omega
    rw [e1]
    have hp := nu_pos (e + k)
    apply Nat.eq_of_mul_eq_mul_right hp
    calc de (e + k + 1) * nu e * nu (e + k) = (de (e + k + 1) * nu (e + k)) * nu e := by ac_rfl
      _ = 2 * (de (e + k) * nu (e + k + 1)) * nu e := by rw [h]
      _ = 2 * ((de (e + k) * nu e) * nu (e + k + 1)) := by ac_rfl
      _ = 2 * ((2 ^ k * (de e * nu (e + k))) * nu (e + k + 1)) := by rw [ih]
      _ = 2 ^ (k + 1) * (de e * nu (e + k + 1)) * nu (e + k) := by rw [Nat.pow_succ]; ac_rfl

theorem bitLen_spec (a : Nat) (h : 0 < a) : 0 < bitLen a ∧ 2 ^ (bitLen a - 1) ≤ a ∧ a < 2 ^ bitLen a := by
  unfold bitLen
  have h0 : a ≠ 0 := by omega
  simp only [h0, if_false]
  refine ⟨by omega, ?_, ?_⟩
  · simpa using Nat.log2_self_le h0
  · exact Nat.lt_log2_self

/-! ## the exponent chosen by `rn` normalises the quotient -/

/-- `2^52 ≤ (a/b) / 2^e < 2^53` -/
def Norm (a b : Nat) (e : Int) : Prop :=
  2 ^ 52 * (b * de e) ≤ a * nu e ∧ a * nu e < 2 ^ 53 * (b * de e)

def e0 (a b : Nat) : Int := (bitLen a : Int) - (bitLen b : Int) - 53

theorem e0_bounds (a b : Nat) (ha : 0 < a) (hb : 0 < b) :
    2 ^ 52 * (b * de (e0 a b)) ≤ a * nu (e0 a b) ∧ a * nu (e0 a b) < 2 ^ 54 * (b * de (e0 a b)) := by
  obtain ⟨la0, la1, la2⟩ := bitLen_spec a ha
  obtain ⟨lb0, lb1, lb2⟩ := bitLen_spec b hb
  unfold e0 de nu
  generalize bitLen a = la at *
  generalize bitLen b = lb at *
  obtain ⟨la', rfl⟩ : ∃ n, la = n + 1 := ⟨la - 1, by omega⟩
  obtain ⟨lb', rfl⟩ : ∃ n, lb = n + 1 := ⟨lb - 1, by omega⟩
  simp only [Nat.add_sub_cancel] at la1 lb1
  rw [Nat.pow_succ] at la2 lb2
  by_cases h : (0:Int) ≤ ((la' + 1 : Nat) : Int) - ((lb' + 1 : Nat) : Int) - 53
  · obtain ⟨k, hk⟩ : ∃ k : Nat, la' = lb' + 53 + k := ⟨la' - (lb' + 53), by omega⟩
    subst hk
    have e1 : (((lb' + 53 + k + 1 : Nat) : Int) - ((lb' + 1 : Nat) : Int) - 53).toNat = k := by omega
    have e2 : (-(((lb' + 53 + k + 1 : Nat) : Int) - ((lb' + 1 : Nat) : Int) - 53)).toNat = 0 := by omega
    rw [e1, e2]
    have e3 : 2 ^ (lb' + 53 + k) = 2 ^ 53 * (2 ^ lb' * 2 ^ k) := by
      rw [Nat.pow_add, Nat.pow_add]; ac_rfl
    rw [e3] at la1 la2
    have hP : 0 < 2 ^ k := Nat.pow_pos (by decide)
    have m1 : 2 ^ lb' * 2 ^ k ≤ b * 2 ^ k := Nat.mul_le_mul_right _ lb1
    have m2 : b * 2 ^ k < 2 ^ lb' * 2 * 2 ^ k := Nat.mul_lt_mul_of_pos_right lb2 hP
    have e4 : 2 ^ lb' * 2 * 2 ^ k = 2 * (2 ^ lb' * 2 ^ k) := by ac_rfl
    rw [e4] at m2
    generalize 2 ^ lb' * 2 ^ k = BP at *
    generalize b * 2 ^ k = bP at *
    omega
  · obtain ⟨k, hk⟩ : ∃ k : Nat, lb' + 53 = la' + k := ⟨lb' + 53 - la', by omega⟩
    have e1 : (((la' + 1 : Nat) : Int) - ((lb' + 1 : Nat) : Int) - 53).toNat = 0 := by omega
    have e2 : (-(((la' + 1 : Nat) : Int) - ((lb' + 1 : Nat) : Int) - 53)).toNat = k := by omega
    rw [e1, e2]
    have e3 : 2 ^ la' * 2 ^ k = 2 ^ 53 * 2 ^ lb' := by
      rw [← Nat.pow_add, ← hk, Nat.pow_add]; ac_rfl
    have hP : 0 < 2 ^ k := Nat.pow_pos (by decide)
    have m1 : 2 ^ la' * 2 ^ k ≤ a * 2 ^ k := Nat.mul_le_mul_right _ la1
    have m2 : a * 2 ^ k < 2 ^ la' * 2 * 2 ^ k := Nat.mul_lt_mul_of_pos_right la2 hP
    have e4 : 2 ^ la' * 2 * 2 ^ k = 2 * (2 ^ la' * 2 ^ k) := by ac_rfl
    rw [e4, e3] at m2
    rw [e3] at m1
    generalize 2 ^ lb' = B at *
    generalize a * 2 ^ k = aP at *
    omega

/-- the exponent `rn` settles on (before the final renormalisation of a mantissa rounded up to `2^53`) -/
def rnE (a b : Nat) : Int :=
  let f := (a * nu (e0 a b)) / (b * de (e0 a b))
  if f < 2 ^ 52 then e0 a b - 1 else if f ≥ 2 ^ 53 then e0 a b + 1 else e0 a b

theorem rnE_norm (a b : Nat) (ha : 0 < a) (hb : 0 < b) : Norm a b (rnE a b) := by
  obtain ⟨h1, h2⟩ := e0_bounds a b ha hb
  unfold rnE Norm
  simp only []
  generalize e0 a b = e at *
  have hden : 0 < b * de e := Nat.mul_pos hb (de_pos e)
  have f1 : 2 ^ 52 ≤ (a * nu e) / (b * de e) := (Nat.le_div_iff_mul_le hden).2 h1
  rw [if_neg (by omega)]
  by_cases hf : (a * nu e) / (b * de e) ≥ 2 ^ 53
  · rw [if_pos hf]
    have f2 : 2 ^ 53 * (b * de e) ≤ a * nu e := (Nat.le_div_iff_mul_le hden).1 hf
    unfold de nu at *
    by_cases he : 0 ≤ e
    · have e1 : (e + 1).toNat = e.toNat + 1 := by omega
      have e2 : (-e).toNat = 0 := by omega
      have e3 : (-(e + 1)).toNat = 0 := by omega
      have e5 : 2 ^ (e.toNat + 1) = 2 ^ e.toNat * 2 := by rw [Nat.pow_succ]
      rw [e1, e3, e5]
      rw [e2] at h1 h2 f2
      have e4 : b * (2 ^ e.toNat * 2) = 2 * (b * 2 ^ e.toNat) := by ac_rfl
      rw [e4]
      generalize b * 2 ^ e.toNat = bD at *
      omega
    · have e1 : (e + 1).toNat = 0 := by omega
      have e2 : e.toNat = 0 := by omega
      have e3 : (-e).toNat = (-(e + 1)).toNat + 1 := by omega
      have e5 : 2 ^ ((-(e + 1)).toNat + 1) = 2 ^ (-(e + 1)).toNat * 2 := by rw [Nat.pow_succ]
      rw [e1]
      rw [e2, e3, e5] at h1 h2 f2
      have e4 : a * (2 ^ (-(e + 1)).toNat * 2) = 2 * (a * 2 ^ (-(e + 1)).toNat) := by ac_rfl
      rw [e4] at h1 h2 f2
      generalize a * 2 ^ (-(e + 1)).toNat = aN at *
      omega
  · rw [if_neg hf]
    refine ⟨h1, ?_⟩
    exact (Nat.div_lt_iff_lt_mul hden).1 (Nat.lt_of_not_le hf)

/-! ## `rn` in terms of `rnE` and `divRNE` -/

theorem floorq_eq (a b : Nat) (e : Int) :
    (if e ≥ 0 then a / (b * 2 ^ e.toNat) else (a * 2 ^ (-e).toNat) / b) = (a * nu e) / (b * de e) := by
  unfold de nu
  by_cases h : e ≥ 0
  · rw [if_pos h]
    have : (-e).toNat = 0 := by omega
    rw [this]; simp
  · rw [if_neg h]
    have : e.toNat = 0 := by omega
    rw [this]; simp

theorem scaled_eq (a b : Nat) (e : Int) :
    (if e ≥ 0 then divRNE a (b * 2 ^ e.toNat) else divRNE (a * 2 ^ (-e).toNat) b) = divRNE (a * nu e) (b * de e) := by
  unfold de nu
  by_cases h : e ≥ 0
  · rw [if_pos h]
    have : (-e).toNat = 0 := by omega
    rw [this]; simp
  · rw [if_neg h]
    have : e.toNat = 0 := by omega
    rw [this]; simp

/-- `rn` on non-zero operands: sign, and magnitude from the natural numbers `|p|`, `|q|` -/
def rnD (neg : Bool) (a b : Nat) : D :=
  let e := rnE a b
  let m := divRNE (a * nu e) (b * de e)
  if m = 2 ^ 53 then { neg := neg, m := 2 ^ 52, e := e + 1 } else { neg := neg, m := m, e := e }

theorem rn_eq (p q : Int) (hp : p ≠ 0) (hq : q ≠ 0) :
    rn p q = rnD ((p < 0) != (q < 0)) p.natAbs q.natAbs := by
  unfold rn
  simp only []
  rw [if_neg (by omega)]
  simp only [scaled_eq, floorq_eq]
  rfl

theorem rnD_neg (neg : Bool) (a b : Nat) : (rnD neg a b).neg = neg := by
  unfold rnD; simp only []; split <;> rfl

/-! ## `rn` is monotone -/

/-- order of the values of two non-negative doubles (`m·de e/nu e`, compared by cross-multiplication) -/
def D.Le (d1 d2 : D) : Prop := d1.m * de d1.e * nu d2.e ≤ d2.m * de d2.e * nu d1.e

/-- the order on fractions does not depend on the representatives -/
theorem frac_le_congr (x1 X1 x1' X1' x2 X2 x2' X2' : Nat) (p1 : 0 < X1) (p2 : 0 < X2)
    (h1 : x1' * X1 = x1 * X1') (h2 : x2' * X2 = x2 * X2') (h : x1 * X2 ≤ x2 * X1) : x1' * X2' ≤ x2' * X1' := by
  have hp : 0 < X1 * X2 := Nat.mul_pos p1 p2
  apply Nat.le_of_mul_le_mul_right _ hp
  have f1 : x1 * X2 * (X1' * X2') ≤ x2 * X1 * (X1' * X2') := Nat.mul_le_mul_right _ h
  have f2 : x1' * X1 * (X2' * X2) = x1 * X1' * (X2' * X2) := by rw [h1]
  have f3 : x2' * X2 * (X1' * X1) = x2 * X2' * (X1' * X1) := by rw [h2]
  grind

theorem exp_contra (a1 b1 a2 b2 d1 n1 d2 n2 K : Nat) (hK : 2 ≤ K) (hdn : d1 * n2 = K * (d2 * n1))
    (N1 : 2^52 * (b1*d1) ≤ a1*n1) (N2 : a2 * n2 < 2^53 * (b2 * d2)) (h : a1*b2 ≤ a2*b1)
    (hb1 : 0 < b1) (hn1 : 0 < n1) : False := by
  have f1 : 2^52 * (b1*d1) * (b2*n2) ≤ a1*n1 * (b2*n2) := Nat.mul_le_mul_right _ N1
  have f2 : a2*n2 * (b1*n1) < 2^53*(b2*d2) * (b1*n1) := Nat.mul_lt_mul_of_pos_right N2 (Nat.mul_pos hb1 hn1)
  have f3 : a1*b2*(n1*n2) ≤ a2*b1*(n1*n2) := Nat.mul_le_mul_right _ h
  have f4 : d1*n2*(b1*b2) = K*(d2*n1)*(b1*b2) := by rw [hdn]
  have f5 : 2 * (d2*n1*b1*b2) ≤ K * (d2*n1*b1*b2) := Nat.mul_le_mul_right _ hK
  grind

theorem two_le_pow (k : Nat) (hk : 0 < k) : 2 ≤ 2 ^ k := by
  obtain ⟨j, rfl⟩ : ∃ j, k = j + 1 := ⟨k - 1, by omega⟩
  rw [Nat.pow_succ]
  have : 0 < 2 ^ j := Nat.pow_pos (by decide)
  omega

/-- mantissa bounds under normalisation -/
theorem mant_bounds (N Dn : Nat) (hD : 0 < Dn) (h1 : 2 ^ 52 * Dn ≤ N) (h2 : N < 2 ^ 53 * Dn) :
    2 ^ 52 ≤ divRNE N Dn ∧ divRNE N Dn ≤ 2 ^ 53 := by
  constructor
  · have := divRNE_mono (2 ^ 52 * Dn) Dn N Dn hD hD (Nat.mul_le_mul_right _ h1)
    rwa [divRNE_exact _ _ hD] at this
  · have := divRNE_mono N Dn (2 ^ 53 * Dn) Dn hD hD (Nat.mul_le_mul_right _ (Nat.le_of_lt h2))
    rwa [divRNE_exact _ _ hD] at this

/-- value of the (possibly renormalised) result equals `m · 2^e` of the un-renormalised pair -/
theorem rnD_val (neg : Bool) (a b : Nat) :
    (rnD neg a b).m * de (rnD neg a b).e * nu (rnE a b) =
      divRNE (a * nu (rnE a b)) (b * de (rnE a b)) * de (rnE a b) * nu (rnD neg a b).e := by
  unfold rnD
  simp only []
  split
  · rename_i h
    simp only []
    rw [h]
    have := de_nu_succ (rnE a b)
    have e : (2:Nat) ^ 53 = 2 ^ 52 * 2 := by decide
    rw [e]
    calc 2 ^ 52 * de (rnE a b + 1) * nu (rnE a b) = 2 ^ 52 * (de (rnE a b + 1) * nu (rnE a b)) := by ac_rfl
      _ = 2 ^ 52 * (2 * (de (rnE a b) * nu (rnE a b + 1))) := by rw [this]
      _ = 2 ^ 52 * 2 * de (rnE a b) * nu (rnE a b + 1) := by ac_rfl
  · rfl

/-- pre-normalisation inequality -/
theorem pre_mono (a1 b1 a2 b2 : Nat) (e1 e2 : Int) (hb1 : 0 < b1) (hb2 : 0 < b2)
    (n1 : Norm a1 b1 e1) (n2 : Norm a2 b2 e2) (h : a1 * b2 ≤ a2 * b1) :
    divRNE (a1 * nu e1) (b1 * de e1) * de e1 * nu e2 ≤ divRNE (a2 * nu e2) (b2 * de e2) * de e2 * nu e1 := by
  have hD1 : 0 < b1 * de e1 := Nat.mul_pos hb1 (de_pos _)
  have hD2 : 0 < b2 * de e2 := Nat.mul_pos hb2 (de_pos _)
  obtain ⟨_, u1⟩ := mant_bounds _ _ hD1 n1.1 n1.2
  obtain ⟨l2, _⟩ := mant_bounds _ _ hD2 n2.1 n2.2
  rcases Int.lt_trichotomy e1 e2 with hlt | heq | hgt
  · obtain ⟨k, hk, rfl⟩ : ∃ k : Nat, 0 < k ∧ e2 = e1 + k := ⟨(e2 - e1).toNat, by omega, by omega⟩
    have hdn := de_nu_add e1 k
    have hK := two_le_pow k hk
    generalize divRNE (a1 * nu e1) (b1 * de e1) = m1 at *
    generalize divRNE (a2 * nu (e1 + k)) (b2 * de (e1 + k)) = m2 at *
    generalize 2 ^ k = K at *
    -- m1 de1 nu2 ≤ 2^53 de1 nu2 ; m2 de2 nu1 = m2 K de1 nu2 ≥ 2^52 * 2 * de1 nu2
    have f1 : m1 * (de e1 * nu (e1 + k)) ≤ 2 ^ 53 * (de e1 * nu (e1 + k)) := Nat.mul_le_mul_right _ u1
    have f2 : 2 ^ 52 * (K * (de e1 * nu (e1 + k))) ≤ m2 * (K * (de e1 * nu (e1 + k))) := Nat.mul_le_mul_right _ l2
    have f3 : 2 * (de e1 * nu (e1 + k)) ≤ K * (de e1 * nu (e1 + k)) := Nat.mul_le_mul_right _ hK
    rw [← hdn] at f2
    grind
  · subst heq
    have hm := divRNE_mono (a1 * nu e1) (b1 * de e1) (a2 * nu e1) (b2 * de e1) hD1 hD2 (by
      have : a1 * b2 * (nu e1 * de e1) ≤ a2 * b1 * (nu e1 * de e1) := Nat.mul_le_mul_right _ h
      grind)
    exact Nat.mul_le_mul_right _ (Nat.mul_le_mul_right _ hm)
  · exfalso
    obtain ⟨k, hk, rfl⟩ : ∃ k : Nat, 0 < k ∧ e1 = e2 + k := ⟨(e1 - e2).toNat, by omega, by omega⟩
    exact exp_contra a1 b1 a2 b2 (de (e2 + k)) (nu (e2 + k)) (de e2) (nu e2) (2 ^ k) (two_le_pow k hk)
      (de_nu_add e2 k) n1.1 n2.2 h hb1 (nu_pos _)

theorem rnD_mono (n n' : Bool) (a1 b1 a2 b2 : Nat) (ha1 : 0 < a1) (hb1 : 0 < b1) (ha2 : 0 < a2) (hb2 : 0 < b2)
    (h : a1 * b2 ≤ a2 * b1) : D.Le (rnD n a1 b1) (rnD n' a2 b2) := by
  have p := pre_mono a1 b1 a2 b2 _ _ hb1 hb2 (rnE_norm a1 b1 ha1 hb1) (rnE_norm a2 b2 ha2 hb2) h
  unfold D.Le
  have v1 := rnD_val n a1 b1
  have v2 := rnD_val n' a2 b2
  exact frac_le_congr _ _ _ _ _ _ _ _ (nu_pos _) (nu_pos _) v1 v2 p

/-! ## `mulInt`, `trunc` and the composite -/

theorem rn_nat (A B : Nat) (hA : 0 < A) (hB : 0 < B) : rn (A : Int) (B : Int) = rnD false A B := by
  rw [rn_eq _ _ (by omega) (by omega)]
  have h1 : decide ((A : Int) < 0) = false := by simp
  have h2 : decide ((B : Int) < 0) = false := by simp
  rw [h1, h2, Int.natAbs_natCast, Int.natAbs_natCast]
  rfl

theorem mulInt_pos (d : D) (c : Nat) (hm : 0 < d.m) (hc : 0 < c) (hneg : d.neg = false) :
    mulInt d (c : Int) = rnD false (d.m * c * de d.e) (nu d.e) := by
  unfold mulInt
  rw [if_neg (by omega)]
  simp only [hneg]
  have hA : 0 < d.m * c * de d.e := Nat.mul_pos (Nat.mul_pos hm hc) (de_pos d.e)
  by_cases he : d.e ≥ 0
  · rw [if_pos he]
    have hp : (if false = true then (-1 : Int) else 1) * (d.m : Int) * (c : Int) * 2 ^ d.e.toNat =
        ((d.m * c * de d.e : Nat) : Int) := by
      unfold de; simp [Int.natCast_mul, Int.natCast_pow]
    have hn : nu d.e = 1 := by
      unfold nu
      have : (-d.e).toNat = 0 := by omega
      rw [this]
    have h1 : (1 : Int) = ((1 : Nat) : Int) := rfl
    rw [hp, hn, h1, rn_nat _ _ hA (by decide)]
  · rw [if_neg he]
    have hd : de d.e = 1 := by
      unfold de
      have : d.e.toNat = 0 := by omega
      rw [this]
    have hp : (if false = true then (-1 : Int) else 1) * (d.m : Int) * (c : Int) = ((d.m * c * de d.e : Nat) : Int) := by
      rw [hd]; simp [Int.natCast_mul]
    have hq : (2 : Int) ^ (-d.e).toNat = ((nu d.e : Nat) : Int) := by unfold nu; simp [Int.natCast_pow]
    rw [hp, hq, rn_nat _ _ hA (nu_pos d.e)]

theorem trunc_pos (d : D) (hneg : d.neg = false) : trunc d = ((d.m * de d.e / nu d.e : Nat) : Int) := by
  unfold trunc
  simp only [hneg]
  unfold de nu
  by_cases he : d.e ≥ 0
  · have : (-d.e).toNat = 0 := by omega
    rw [if_pos he, this]; simp
  · have : d.e.toNat = 0 := by omega
    rw [if_neg he, this]; simp

theorem trunc_neg (d : D) (hneg : d.neg = true) : trunc d ≤ 0 := by
  unfold trunc
  simp only [hneg, if_true]
  omega

theorem trunc_mono (d1 d2 : D) (h1 : d1.neg = false) (h2 : d2.neg = false) (h : D.Le d1 d2) : trunc d1 ≤ trunc d2 := by
  rw [trunc_pos d1 h1, trunc_pos d2 h2]
  unfold D.Le at h
  have p1 := nu_pos d1.e
  have p2 := nu_pos d2.e
  generalize d1.m * de d1.e = x1 at *
  generalize d2.m * de d2.e = x2 at *
  generalize nu d1.e = X1 at *
  generalize nu d2.e = X2 at *
  have : x1 / X1 ≤ x2 / X2 := by
    rw [Nat.le_div_iff_mul_le p2]
    have q := Nat.div_mul_le_self x1 X1
    have f1 : x1 / X1 * X1 * X2 ≤ x1 * X2 := Nat.mul_le_mul_right _ q
    have f2 : x1 / X1 * X2 * X1 ≤ x2 * X1 := by
      have : x1 / X1 * X2 * X1 = x1 / X1 * X1 * X2 := by ac_rfl
      omega
    exact Nat.le_of_mul_le_mul_right f2 p1
  omega

theorem rnD_m_pos (neg : Bool) (a b : Nat) (ha : 0 < a) (hb : 0 < b) : 0 < (rnD neg a b).m := by
  have n := rnE_norm a b ha hb
  obtain ⟨l, _⟩ := mant_bounds _ _ (Nat.mul_pos hb (de_pos _)) n.1 n.2
  unfold rnD
  simp only []
  split
  · exact Nat.pow_pos (by decide)
  · simp only []
    have : 0 < 2 ^ 52 := Nat.pow_pos (by decide)
    omega


theorem trunc_m0 (d : D) (h : d.m = 0) : trunc d = 0 := by
  unfold trunc
  simp only [h, Nat.zero_mul, Nat.zero_div, ite_self]
  split <;> rfl

theorem rn_neg_flag (p q : Int) (hp : p < 0) (hq : 0 < q) : (rn p q).neg = true := by
  rw [rn_eq _ _ (by omega) (by omega), rnD_neg]
  have h1 : decide (p < 0) = true := by simp [hp]
  have h2 : decide (q < 0) = false := by simp; omega
  rw [h1, h2]; rfl

theorem mulInt_neg_trunc (d : D) (c : Int) (hc : 0 ≤ c) (hneg : d.neg = true) : trunc (mulInt d c) ≤ 0 := by
  unfold mulInt
  by_cases h0 : d.m = 0 ∨ c = 0
  · rw [if_pos h0, trunc_m0 _ rfl]; exact Int.le_refl 0
  · rw [if_neg h0]
    simp only [hneg, if_true]
    have hm : (0 : Int) < d.m := by omega
    have hc' : 0 < c := by omega
    have hp : (-1 : Int) * d.m * c < 0 := by
      have : 0 < (d.m : Int) * c := Int.mul_pos hm hc'
      have e : (-1 : Int) * d.m * c = -((d.m : Int) * c) := by rw [Int.mul_assoc]; omega
      omega
    apply trunc_neg
    split
    · refine rn_neg_flag _ _ ?_ (by decide)
      have hk : (0 : Int) < 2 ^ d.e.toNat := Int.pow_pos (by decide)
      exact Int.mul_neg_of_neg_of_pos hp hk
    · exact rn_neg_flag _ _ hp (Int.pow_pos (by decide))

/-- `int(float64(n)/float64(q)*float64(c))` is monotone in `n` for positive `q`, `c`, `n` -/
theorem trunc_mulInt_rn_mono (q c n1 n2 : Int) (hq : 0 < q) (hc : 0 < c) (h0 : 0 < n1) (h : n1 ≤ n2) :
    trunc (mulInt (rn n1 q) c) ≤ trunc (mulInt (rn n2 q) c) := by
  obtain ⟨Q, rfl⟩ := Int.eq_ofNat_of_zero_le (Int.le_of_lt hq)
  obtain ⟨C, rfl⟩ := Int.eq_ofNat_of_zero_le (Int.le_of_lt hc)
  obtain ⟨N1, rfl⟩ := Int.eq_ofNat_of_zero_le (Int.le_of_lt h0)
  obtain ⟨N2, rfl⟩ := Int.eq_ofNat_of_zero_le (Int.le_trans (Int.le_of_lt h0) h)
  have hQ : 0 < Q := by omega
  have hC : 0 < C := by omega
  have hN1 : 0 < N1 := by omega
  have hN2 : 0 < N2 := by omega
  have hN : N1 ≤ N2 := by omega
  rw [rn_nat N1 Q hN1 hQ, rn_nat N2 Q hN2 hQ]
  have l1 : D.Le (rnD false N1 Q) (rnD false N2 Q) :=
    rnD_mono _ _ _ _ _ _ hN1 hQ hN2 hQ (Nat.mul_le_mul_right _ hN)
  generalize hd1 : rnD false N1 Q = d1 at *
  generalize hd2 : rnD false N2 Q = d2 at *
  have m1 : 0 < d1.m := by rw [← hd1]; exact rnD_m_pos _ _ _ hN1 hQ
  have m2 : 0 < d2.m := by rw [← hd2]; exact rnD_m_pos _ _ _ hN2 hQ
  have g1 : d1.neg = false := by rw [← hd1]; exact rnD_neg _ _ _
  have g2 : d2.neg = false := by rw [← hd2]; exact rnD_neg _ _ _
  rw [mulInt_pos d1 C m1 hC g1, mulInt_pos d2 C m2 hC g2]
  apply trunc_mono _ _ (rnD_neg _ _ _) (rnD_neg _ _ _)
  apply rnD_mono _ _ _ _ _ _ (Nat.mul_pos (Nat.mul_pos m1 hC) (de_pos _)) (nu_pos _)
    (Nat.mul_pos (Nat.mul_pos m2 hC) (de_pos _)) (nu_pos _)
  unfold D.Le at l1
  have : d1.m * de d1.e * nu d2.e * C ≤ d2.m * de d2.e * nu d1.e * C := Nat.mul_le_mul_right _ l1
  grind

theorem trunc_mulInt_rn_nonpos (q c n : Int) (hq : 0 < q) (hc : 0 ≤ c) (hn : n ≤ 0) :
    trunc (mulInt (rn n q) c) ≤ 0 := by
  by_cases h0 : n = 0
  · subst h0
    have : rn 0 q = { neg := false, m := 0, e := 0 } := by
      unfold rn; simp
    rw [this]
    unfold mulInt
    simp only [true_or, if_true]
    rw [trunc_m0 _ rfl]; exact Int.le_refl 0
  · exact mulInt_neg_trunc _ _ hc (rn_neg_flag _ _ (by omega) hq)

end RawPanelVerif.Dbl
