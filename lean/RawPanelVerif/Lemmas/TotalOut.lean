import RawPanelVerif.Lemmas.StripOneLine
import RawPanelVerif.Lemmas.StripContent
import RawPanelVerif.Model.DecOut
/-!
# Totality of the outbound converters (the outbound half of C06)

Go constructs that can panic are explicit in `EncOut.encMsgE` (pointer dereference `deref`) and `DecOut.decLineE`
(sub-match / slice indexing `idx`, the SysStat loop's `parts[a]`, `parts[a+1]`).  The theorems say that for EVERY input —
any list of messages (any presence pattern, enums / integers anywhere; a Lean `List` has no nil elements), any list of
byte strings — these functions return `.ok`, and return exactly what the pure models `encOut` / `decOut` return; the
decoder's result slice contains no nil pointer.  Termination is by construction (structural recursion).

* `encOut_total`, `decOut_total`, `decOut_no_nil_message`, `encOut_no_lf`.
The pinned `case "Raw"` (indexing a 4-group regex at [6]) is `Props/C04.raw_case_would_panic`.
-/
namespace RawPanelVerif.TotalOut
open RawPanelVerif RawPanelVerif.Bytes RawPanelVerif.MsgOut RawPanelVerif.EncOut RawPanelVerif.DecOut RawPanelVerif.Strip

theorem mapM_ok {α β : Type} (f : α → Except Panic β) (g : α → β) (l : List α) (h : ∀ x ∈ l, f x = .ok (g x)) :
    l.mapM f = .ok (l.map g) := by
  induction l with
  | nil => rfl
  | cons a as ih =>
    rw [List.mapM_cons, h a (by simp), ih (fun x hx => h x (by simp [hx]))]
    rfl

theorem guardedSection_eq {α : Type} (p : Option α) (body : α → Except Panic (List Bytes)) :
    guardedSection p body = (match p with | some a => body a | none => .ok []) := by
  cases p <;> rfl

theorem guardedSection_ok {α : Type} (p : Option α) (f : α → List Bytes) :
    guardedSection p (fun a => .ok (f a)) = .ok (optLines p f) := by
  cases p <;> rfl

theorem guardedSection_ok1 {α : Type} (p : Option α) (f : α → Bytes) :
    guardedSection p (fun a => .ok [f a]) = .ok (optLine p f) := by
  cases p <;> rfl

theorem panelInfoLinesE_ok (p : PanelInfo) : panelInfoLinesE p = .ok (panelInfoLines p) := by
  unfold panelInfoLinesE panelInfoLines
  rw [guardedSection_ok1]
  cases p.support <;> rfl

theorem eventLinesE_ok (e : Event) : eventLinesE e = .ok (eventLines e) := by
  unfold eventLinesE
  simp only [guardedSection_ok1]
  rfl

/-- **The encoder never dereferences a nil pointer**: with every dereference explicit, the function returns normally
for every list of messages (any presence pattern, any values) and returns what the pure model returns. -/
theorem encMsgE_ok (o : OutOracle) (m : OutMsg) : encMsgE o m = .ok (encMsgRaw o m) := by
  unfold encMsgE encMsgRaw
  have hpi : guardedSection m.panelInfo panelInfoLinesE = .ok (optLines m.panelInfo panelInfoLines) := by
    cases h : m.panelInfo with
    | none => rfl
    | some p => simp [guardedSection, deref, panelInfoLinesE_ok, optLines]; rfl
  rw [hpi]
  simp only [guardedSection_ok1, guardedSection_ok]
  rw [mapM_ok eventLinesE eventLines m.events (fun e _ => eventLinesE_ok e)]
  simp only [bind, Except.bind, List.flatMap, List.append_assoc]

theorem encOut_total (o : OutOracle) (ms : List OutMsg) : encOutE o ms = .ok (encOut o ms) := by
  unfold encOutE encOut
  rw [mapM_ok _ (encMsgRaw o) ms (fun m _ => encMsgE_ok o m)]
  simp only [bind, Except.bind, List.flatMap]


/-! ## decoder -/

theorem idx_ok (xs : List Bytes) (i : Nat) (x : Bytes) (h : xs[i]? = some x) : idx xs i = .ok x := by
  unfold idx; rw [h]

/-- the SysStat loop with explicit indices never indexes out of range and computes the sliding scan -/
theorem sysLoopE_ok (o : OutOracle) (parts : List Bytes) (fuel a : Nat) (st : SysStat) (hf : parts.length ≤ a + fuel) :
    sysLoopE o parts fuel a st = .ok (sysScan o (parts.drop a) st) := by
  induction fuel generalizing a st with
  | zero =>
    unfold sysLoopE
    have : parts.drop a = [] := List.drop_eq_nil_of_le (by omega)
    rw [this]; rfl
  | succ n ih =>
    unfold sysLoopE
    by_cases hlt : a + 1 < parts.length
    · rw [if_pos hlt]
      have h0 : a < parts.length := by omega
      have e0 : parts[a]? = some parts[a] := List.getElem?_eq_getElem h0
      have e1 : parts[a + 1]? = some parts[a + 1] := List.getElem?_eq_getElem hlt
      rw [idx_ok parts (a + 1) _ e1, idx_ok parts a _ e0]
      simp only [bind, Except.bind]
      rw [ih (a + 1) _ (by omega)]
      have hd : parts.drop a = parts[a] :: parts[a + 1] :: parts.drop (a + 2) := by
        rw [List.drop_eq_getElem_cons h0, List.drop_eq_getElem_cons hlt]
      rw [hd]
      have hd1 : parts.drop (a + 1) = parts[a + 1] :: parts.drop (a + 2) := List.drop_eq_getElem_cons hlt
      rw [hd1]
      rfl
    · rw [if_neg hlt]
      have : (parts.drop a).length ≤ 1 := by rw [List.length_drop]; omega
      cases hd : parts.drop a with
      | nil => rfl
      | cons x xs =>
        cases xs with
        | nil => rfl
        | cons y ys => rw [hd] at this; simp at this

theorem decGenericE_ok (o : OutOracle) (key v : Bytes) : decGenericE o key v = .ok (decGeneric o key v) := by
  unfold decGenericE
  by_cases h : key = asc "SysStat"
  · rw [if_pos h]
    simp only []
    rw [sysLoopE_ok o (splitOn 58 v) (splitOn 58 v).length 0 _ (by omega)]
    subst h
    simp only [bind, Except.bind, List.drop_zero]
    rfl
  · rw [if_neg h]

theorem decEventE_ok (s : Bytes) (m : CmdM) :
    decEventE repaired s (m.subs s) = .ok (decEvent m.id m.edge m.kind m.val) := by
  unfold decEventE decEvent CmdM.subs
  simp only [idx, List.getElem?_cons_succ, List.getElem?_cons_zero, bind, Except.bind, repaired]
  repeat' split
  all_goals rfl

/-- **No index panic in the decoder**: with every sub-match / slice index explicit, one line decodes without panic
and to what the pure model returns — for EVERY byte string -/
theorem decLineE_ok (o : OutOracle) (s : Bytes) : decLineE repaired o s = .ok (decLine repaired o s) := by
  unfold decLineE decLine
  split
  · rfl
  · split
    · rfl
    · cases hc : matchCmd repaired.kinds s with
      | some m => simp only [Option.map_some]; exact decEventE_ok s m
      | none =>
        simp only [Option.map_none]
        cases hm : matchMap s with
        | some kv => simp [idx, bind, Except.bind]
        | none =>
          simp only [Option.map_none]
          cases hg : matchGeneric s with
          | some kv =>
            simp only [Option.map_some, idx, List.getElem?_cons_succ, List.getElem?_cons_zero, bind, Except.bind]
            exact decGenericE_ok o kv.1 kv.2
          | none =>
            simp only [Option.map_none]
            cases hr : matchReg s with
            | some t => simp [idx, bind, Except.bind]
            | none => rfl

theorem decOut_total (o : OutOracle) (ls : List Bytes) : decOutE repaired o ls = .ok (decOut o ls) := by
  unfold decOutE decOut decOutV
  rw [mapM_ok _ (decLine repaired o) ls (fun l _ => decLineE_ok o l)]
  simp only [bind, Except.bind]
  rw [List.filterMap_map]
  rfl

/-- the slice of message pointers the Go function builds: a pointer is appended only under `if msg != nil` -/
def decOutPtrs (V : Variant) (o : OutOracle) (ls : List Bytes) : List (Option OutMsg) :=
  ls.foldl (fun acc l => match decLine V o l with | some m => acc ++ [some m] | none => acc) []

theorem foldl_ptrs (V : Variant) (o : OutOracle) (ls : List Bytes) (acc : List (Option OutMsg)) :
    ls.foldl (fun acc l => match decLine V o l with | some m => acc ++ [some m] | none => acc) acc =
      acc ++ (ls.filterMap (decLine V o)).map some := by
  induction ls generalizing acc with
  | nil => simp
  | cons l ls ih =>
    simp only [List.foldl_cons, List.filterMap_cons]
    cases decLine V o l with
    | none => exact ih acc
    | some m => rw [ih]; simp

/-- **The decoder never returns a nil message**, for every list of byte strings -/
theorem decOut_no_nil_message (V : Variant) (o : OutOracle) (ls : List Bytes) :
    (∀ p ∈ decOutPtrs V o ls, p ≠ none) ∧ decOutPtrs V o ls = (decOutV V o ls).map some := by
  have h : decOutPtrs V o ls = (decOutV V o ls).map some := by
    unfold decOutPtrs decOutV
    rw [foldl_ptrs]; simp
  refine ⟨?_, h⟩
  intro p hp
  rw [h] at hp
  simp only [List.mem_map] at hp
  obtain ⟨m, _, rfl⟩ := hp
  simp

/-- no returned string contains a line feed -/
theorem encOut_no_lf (o : OutOracle) (ms : List OutMsg) : ∀ l ∈ encOut o ms, (10 : UInt8) ∉ l := by
  intro l hl
  unfold encOut at hl
  simp only [List.mem_map] at hl
  obtain ⟨r, _, rfl⟩ := hl
  exact C07.singleLine_no_lf r

end RawPanelVerif.TotalOut
