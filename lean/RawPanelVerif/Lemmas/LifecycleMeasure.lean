import RawPanelVerif.Lemmas.LifecycleInvA
import RawPanelVerif.Lemmas.LifecycleInvC
/-! A measure that every program step of the lifecycle LTS decreases, and progress after cancellation. -/
namespace RawPanelVerif.Lifecycle

def wRank : WSt → Nat
  | .unborn => 3 | .spawned => 3 | .writing => 2 | .running => 1 | .exited => 0

def phaseRank : Phase → Nat
  | .returned => 0 | .dialing => 0
  | .exiting => 1 | .noConnWait => 1 | .retrySleep => 1
  | .teardown .callback => 2 | .teardown .close => 3 | .teardown .quit => 4
  | .connected => 5 | .announcing => 6 | .probing => 9

/-- writer goroutine + two steps (take, send) per frame that has arrived and is not delivered (one if already taken) -/
def connRank (c : Conn) : Nat := wRank c.w + 2 * (c.arrived - c.delivered) + (if c.held then 0 else 1)

def connsRank : List Conn → Nat
  | [] => 0
  | c :: r => connRank c + connsRank r

/-- upper bound on the number of program steps that can follow without a step of the environment -/
def measure (s : St) : Nat := phaseRank s.phase + connsRank s.conns + 2 * s.offered

theorem connsRank_set : ∀ (cs : List Conn) (i : Nat) (c c' : Conn), cs[i]? = some c →
    connsRank (cs.set i c') + connRank c = connsRank cs + connRank c'
  | [], i, c, c', h => by simp at h
  | d :: r, 0, c, c', h => by simp at h; subst h; simp [connsRank]; omega
  | d :: r, i + 1, c, c', h => by
    simp at h
    have := connsRank_set r i c c' h
    simp [connsRank]; omega

/-- the rank of a connection whose writer state alone changes -/
theorem connRank_w (c : Conn) (w' : WSt) : connRank { c with w := w' } + wRank c.w = connRank c + wRank w' := by
  simp [connRank, Conn.arrived]; omega

theorem program_step_decreases (ae : Bool) (s s' : St) (l : Lbl) (hC : InvC s) (hl : l.isProgram = true)
    (hs : step ae s l = some s') : measure s' < measure s := by
  unfold measure
  cases l with
  | cancel => simp [Lbl.isProgram, Lbl.isEnv] at hl
  | offer => simp [Lbl.isProgram, Lbl.isEnv] at hl
  | consumerStop => simp [Lbl.isProgram, Lbl.isEnv] at hl
  | consumerResume => simp [Lbl.isProgram, Lbl.isEnv] at hl
  | tick d => simp [Lbl.isProgram, Lbl.isEnv] at hl
  | writeDone i => simp [Lbl.isProgram, Lbl.isEnv] at hl
  | dialOk bin => simp [Lbl.isProgram, Lbl.isEnv] at hl
  | dialFail => simp [Lbl.isProgram, Lbl.isEnv] at hl
  | peerClose => simp [Lbl.isProgram, Lbl.isEnv] at hl
  | byteArrive fin => simp [Lbl.isProgram, Lbl.isEnv] at hl
  | noConnTimer => obtain ⟨hp, _, rfl⟩ := step_noConnTimer hs; simp [hp, phaseRank]
  | noConnDrain => obtain ⟨hp, ho, rfl⟩ := step_noConnDrain hs; simp [hp, phaseRank]; omega
  | sleepDone => obtain ⟨hp, _, rfl⟩ := step_sleepDone hs; simp [hp, phaseRank]
  | onConnect => obtain ⟨hp, rfl⟩ := step_onConnect hs; simp [hp, phaseRank]
  | ret => obtain ⟨hp, rfl⟩ := step_ret hs; rcases hp with hp | ⟨hp, _⟩ <;> simp [hp, phaseRank]
  | readErr => obtain ⟨c, rest, hc, hp, _, _, rfl⟩ := step_readErr hs; simp [hp, phaseRank]
  | readFault =>
    obtain ⟨c, rest, hc, hp, _, _, _, _, _, rfl⟩ := step_readFault hs
    simp [hc, hp, phaseRank, connsRank, connRank, Conn.arrived]
  | onDisconnect b =>
    obtain ⟨c, rest, hc, hp, _, rfl⟩ := step_onDisconnect hs
    cases b <;> simp [hp, phaseRank]
  | spawnWriter =>
    obtain ⟨c, rest, hc, hp, rfl⟩ := step_spawnWriter hs
    have : wRank c.w ≤ 3 := by cases c.w <;> simp [wRank]
    have hu : c.w = .unborn := (hC 0 c (by simp [hc])).unbornIff.mpr ⟨rfl, hp⟩
    simp [hc, hp, phaseRank, connsRank, connRank, wRank, hu, Conn.arrived]
  | takeFrame =>
    obtain ⟨c, rest, hc, hp, hh, hlt, _, rfl⟩ := step_takeFrame hs
    simp [hc, connsRank, connRank, hh, Conn.arrived]
  | deliver =>
    obtain ⟨c, rest, hc, hp, hh, _, rfl⟩ := step_deliver hs
    have := (hC 0 c (by simp [hc])).delLe
    simp [hh] at this
    simp [hc, connsRank, connRank, hh, Conn.arrived] at this ⊢; omega
  | closeQuit =>
    obtain ⟨c, rest, hc, hp, rfl⟩ := step_closeQuit hs
    simp [hc, hp, phaseRank, connsRank, connRank, Conn.arrived]
  | connClose =>
    obtain ⟨c, rest, hc, hp, rfl⟩ := step_connClose hs
    simp [hc, hp, phaseRank, connsRank, connRank, Conn.arrived]
  | writerStart i =>
    obtain ⟨c, hc, hw, rfl⟩ := step_writerStart hs
    have h1 := connsRank_set s.conns i c { c with w := .running } hc
    have h2 := connRank_w c .running
    simp [wRank, hw] at h1 h2 ⊢; omega
  | writerSeesCancel i =>
    obtain ⟨c, hc, hw, _, rfl⟩ := step_writerSeesCancel hs
    have h1 := connsRank_set s.conns i c { c with w := .exited, exit := true, closed := true } hc
    have h2 : connRank { c with w := .exited, exit := true, closed := true } + wRank c.w = connRank c + wRank .exited := by
      simp [connRank, Conn.arrived]; omega
    simp [wRank, hw] at h1 h2 ⊢; omega
  | writerSeesQuit i =>
    obtain ⟨c, hc, hw, _, rfl⟩ := step_writerSeesQuit hs
    have h1 := connsRank_set s.conns i c { c with w := .exited } hc
    have h2 := connRank_w c .exited
    simp [wRank, hw] at h1 h2 ⊢; omega
  | writerTake i =>
    obtain ⟨c, hc, hw, ho, rfl⟩ := step_writerTake hs
    have h1 := connsRank_set s.conns i c { c with w := .writing } hc
    have h2 := connRank_w c .writing
    simp [wRank, hw] at h1 h2 ⊢; omega
  | writeErr i =>
    obtain ⟨c, hc, hw, _, rfl⟩ := step_writeErr hs
    have h1 := connsRank_set s.conns i c { c with w := .running } hc
    have h2 := connRank_w c .running
    simp [wRank, hw] at h1 h2 ⊢; omega

/-- a program-only execution from a reachable state is no longer than the measure of its first state -/
theorem program_run_bounded (ae : Bool) : ∀ (ls : List Lbl) (s s' : St), Reachable ae s → (∀ l ∈ ls, l.isProgram = true) →
    run ae s ls = some s' → ls.length + measure s' ≤ measure s
  | [], s, s', _, _, hr => by simp [run] at hr; subst hr; simp
  | l :: ls, s, s', hR, hp, hr => by
    simp only [run] at hr
    cases hst : step ae s l with
    | none => simp [hst] at hr
    | some s1 =>
      simp [hst] at hr
      have h1 := program_step_decreases ae s s1 l (invC_reachable hR) (hp l (by simp)) hst
      have h2 := program_run_bounded ae ls s1 s' (Reachable.step l hR hst) (fun l hl => hp l (by simp [hl])) hr
      simp; omega

/-- the four states in which a cancelled call waits for somebody else:
`net.Dial` has not answered; the retry sleep is not over; the reader is in `msgsFromPanel <-` and nobody receives;
the writer of the current connection is inside `conn.Write` on a socket that is open at both ends -/
inductive Waiting (s : St) : Prop
  | dial : s.phase = .dialing → Waiting s
  | sleep : s.phase = .retrySleep → s.now < s.wake → Waiting s
  | consumer (c : Conn) (rest : List Conn) : s.phase = .connected → s.conns = c :: rest → c.held = true → s.consumer = false → Waiting s
  | write (c : Conn) (rest : List Conn) : s.phase = .connected → s.conns = c :: rest → c.held = false → c.w = .writing →
      c.closed = false → c.peerClosed = false → Waiting s

/-- after cancellation the program can always move on unless the call has returned or it is in one of the four
waiting states -/
theorem cancelled_progress (ae : Bool) (s : St) (ha : InvA s) (hc : InvC s) (hcan : s.cancelled = true)
    (hph : s.phase ≠ .returned) : (∃ l, l.isProgram = true ∧ (step ae s l).isSome = true) ∨ Waiting s := by
  cases hp : s.phase with
  | returned => simp [hp] at hph
  | dialing => exact Or.inr (.dial hp)
  | noConnWait => exact Or.inl ⟨.ret, rfl, by simp [step, hp, hcan]⟩
  | retrySleep =>
    by_cases hw : s.wake ≤ s.now
    · exact Or.inl ⟨.sleepDone, rfl, by simp [step, hp, hw]⟩
    · exact Or.inr (.sleep hp (by omega))
  | exiting => exact Or.inl ⟨.ret, rfl, by simp [step, hp]⟩
  | announcing => exact Or.inl ⟨.onConnect, rfl, by simp [step, hp]⟩
  | probing =>
    have hne := ha.nonempty (Or.inl hp)
    cases hcs : s.conns with
    | nil => exact absurd hcs hne
    | cons c rest => exact Or.inl ⟨.spawnWriter, rfl, by simp [step, hp, hcs]⟩
  | teardown t =>
    have hne := ha.nonempty (Or.inr (Or.inr (by simp [hp, Phase.live])))
    cases hcs : s.conns with
    | nil => exact absurd hcs hne
    | cons c rest =>
      cases t with
      | quit => exact Or.inl ⟨.closeQuit, rfl, by simp [step, hp, hcs]⟩
      | close => exact Or.inl ⟨.connClose, rfl, by simp [step, hp, hcs]⟩
      | callback => exact Or.inl ⟨.onDisconnect c.exit, rfl, by simp [step, hp, hcs]⟩
  | connected =>
    have hne := ha.nonempty (Or.inr (Or.inr (by simp [hp, Phase.live])))
    cases hcs : s.conns with
    | nil => exact absurd hcs hne
    | cons c rest =>
      have g := hc 0 c (by simp [hcs])
      rw [hp] at g
      cases hh : c.held with
      | true =>
        cases hco : s.consumer with
        | true => exact Or.inl ⟨.deliver, rfl, by simp [step, hp, hcs, hh, hco]⟩
        | false => exact Or.inr (.consumer c rest hp hcs hh hco)
      | false =>
        cases hw : c.w with
        | unborn => have := g.unbornIff.mp hw; simp at this
        | spawned => exact Or.inl ⟨.writerStart 0, rfl, by simp [step, hcs, hw]⟩
        | running => exact Or.inl ⟨.writerSeesCancel 0, rfl, by simp [step, hcs, hw, hcan]⟩
        | writing =>
          cases hcl : c.closed with
          | true => exact Or.inl ⟨.writeErr 0, rfl, by simp [step, hcs, hw, hcl]⟩
          | false =>
            cases hpc : c.peerClosed with
            | true => exact Or.inl ⟨.writeErr 0, rfl, by simp [step, hcs, hw, hpc]⟩
            | false => exact Or.inr (.write c rest hp hcs hh hw hcl hpc)
        | exited =>
          have hq : c.quit = false := g.noQuit rfl (by simp [Phase.preQuit])
          rcases g.exited hw with he | he
          · have hcl := (g.exitDone he).2
            exact Or.inl ⟨.readErr, rfl, by simp [step, hp, hcs, hcl, hh]⟩
          · simp [hq] at he

end RawPanelVerif.Lifecycle
