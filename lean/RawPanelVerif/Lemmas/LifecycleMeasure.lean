import RawPanelVerif.Lemmas.LifecycleInvA
import RawPanelVerif.Lemmas.LifecycleInvC
/-! A measure that every program step of the lifecycle LTS decreases, and progress after cancellation. -/
namespace RawPanelVerif.Lifecycle

def wRank : WSt → Nat
  | .unborn => 2 | .spawned => 2 | .running => 1 | .exited => 0

def phaseRank : Phase → Nat
  | .returned => 0 | .dialing => 0
  | .exiting => 1 | .noConnWait => 1 | .retrySleep => 1
  | .teardown .callback => 2 | .teardown .close => 3 | .teardown .quit => 4
  | .connected => 5 | .announcing => 6 | .probing => 9

def connRank (c : Conn) : Nat := wRank c.w + (c.arrived - c.delivered)

def connsRank : List Conn → Nat
  | [] => 0
  | c :: r => connRank c + connsRank r

/-- upper bound on the number of program steps that can follow without a step of the environment -/
def measure (s : St) : Nat := phaseRank s.phase + connsRank s.conns

theorem connsRank_set : ∀ (cs : List Conn) (i : Nat) (c c' : Conn), cs[i]? = some c →
    connsRank (cs.set i c') + connRank c = connsRank cs + connRank c'
  | [], i, c, c', h => by simp at h
  | d :: r, 0, c, c', h => by simp at h; subst h; simp [connsRank]; omega
  | d :: r, i + 1, c, c', h => by
    simp at h
    have := connsRank_set r i c c' h
    simp [connsRank]; omega

theorem program_step_decreases (ae : Bool) (s s' : St) (l : Lbl) (hl : l.isProgram = true)
    (hs : step ae s l = some s') : measure s' < measure s := by
  unfold measure
  cases l with
  | cancel => simp [Lbl.isProgram, Lbl.isEnv] at hl
  | dialOk => simp [Lbl.isProgram, Lbl.isEnv] at hl
  | dialFail => simp [Lbl.isProgram, Lbl.isEnv] at hl
  | peerClose => simp [Lbl.isProgram, Lbl.isEnv] at hl
  | frameComplete => simp [Lbl.isProgram, Lbl.isEnv] at hl
  | noConnTimer => obtain ⟨hp, rfl⟩ := step_noConnTimer hs; simp [hp, phaseRank]
  | sleepDone => obtain ⟨hp, rfl⟩ := step_sleepDone hs; simp [hp, phaseRank]
  | onConnect => obtain ⟨hp, rfl⟩ := step_onConnect hs; simp [hp, phaseRank]
  | ret => obtain ⟨hp, rfl⟩ := step_ret hs; rcases hp with hp | ⟨hp, _⟩ <;> simp [hp, phaseRank]
  | readErr => obtain ⟨c, rest, hc, hp, _, rfl⟩ := step_readErr hs; simp [hp, phaseRank]
  | onDisconnect b =>
    obtain ⟨c, rest, hc, hp, _, rfl⟩ := step_onDisconnect hs
    cases b <;> simp [hp, phaseRank]
  | spawnWriter =>
    obtain ⟨c, rest, hc, hp, rfl⟩ := step_spawnWriter hs
    have : wRank c.w ≤ 2 := by cases c.w <;> simp [wRank]
    simp [hc, hp, phaseRank, connsRank, connRank, wRank]
    omega
  | deliver =>
    obtain ⟨c, rest, hc, hp, hlt, _, rfl⟩ := step_deliver hs
    simp [hc, connsRank, connRank]; omega
  | closeQuit =>
    obtain ⟨c, rest, hc, hp, rfl⟩ := step_closeQuit hs
    simp [hc, hp, phaseRank, connsRank, connRank]
  | connClose =>
    obtain ⟨c, rest, hc, hp, rfl⟩ := step_connClose hs
    simp [hc, hp, phaseRank, connsRank, connRank]
  | writerStart i =>
    obtain ⟨c, hc, hw, rfl⟩ := step_writerStart hs
    have := connsRank_set s.conns i c { c with w := .running } hc
    simp [connRank, wRank, hw] at this ⊢; omega
  | writerSeesCancel i =>
    obtain ⟨c, hc, hw, _, rfl⟩ := step_writerSeesCancel hs
    have := connsRank_set s.conns i c { c with w := .exited, exit := true, closed := true } hc
    simp [connRank, wRank, hw] at this ⊢; omega
  | writerSeesQuit i =>
    obtain ⟨c, hc, hw, _, rfl⟩ := step_writerSeesQuit hs
    have := connsRank_set s.conns i c { c with w := .exited } hc
    simp [connRank, wRank, hw] at this ⊢; omega

/-- a program-only execution is no longer than the measure of its first state -/
theorem program_run_bounded (ae : Bool) : ∀ (ls : List Lbl) (s s' : St), (∀ l ∈ ls, l.isProgram = true) →
    run ae s ls = some s' → ls.length + measure s' ≤ measure s
  | [], s, s', _, hr => by simp [run] at hr; subst hr; simp
  | l :: ls, s, s', hp, hr => by
    simp only [run] at hr
    cases hst : step ae s l with
    | none => simp [hst] at hr
    | some s1 =>
      simp [hst] at hr
      have h1 := program_step_decreases ae s s1 l (hp l (by simp)) hst
      have h2 := program_run_bounded ae ls s1 s' (fun l hl => hp l (by simp [hl])) hr
      simp; omega

/-- after cancellation the program can always move on unless the call has returned or it waits for the dial result -/
theorem cancelled_progress (ae : Bool) (s : St) (ha : InvA s) (hc : InvC s) (hcan : s.cancelled = true)
    (hph : s.phase ≠ .returned ∧ s.phase ≠ .dialing) : ∃ l, l.isProgram = true ∧ (step ae s l).isSome = true := by
  cases hp : s.phase with
  | returned => simp [hp] at hph
  | dialing => simp [hp] at hph
  | noConnWait => exact ⟨.ret, rfl, by simp [step, hp, hcan]⟩
  | retrySleep => exact ⟨.sleepDone, rfl, by simp [step, hp]⟩
  | exiting => exact ⟨.ret, rfl, by simp [step, hp]⟩
  | announcing => exact ⟨.onConnect, rfl, by simp [step, hp]⟩
  | probing =>
    have hne := ha.nonempty (Or.inl hp)
    cases hcs : s.conns with
    | nil => exact absurd hcs hne
    | cons c rest => exact ⟨.spawnWriter, rfl, by simp [step, hp, hcs]⟩
  | teardown t =>
    have hne := ha.nonempty (Or.inr (Or.inr (by simp [hp, Phase.live])))
    cases hcs : s.conns with
    | nil => exact absurd hcs hne
    | cons c rest =>
      cases t with
      | quit => exact ⟨.closeQuit, rfl, by simp [step, hp, hcs]⟩
      | close => exact ⟨.connClose, rfl, by simp [step, hp, hcs]⟩
      | callback => exact ⟨.onDisconnect c.exit, rfl, by simp [step, hp, hcs]⟩
  | connected =>
    have hne := ha.nonempty (Or.inr (Or.inr (by simp [hp, Phase.live])))
    cases hcs : s.conns with
    | nil => exact absurd hcs hne
    | cons c rest =>
      have g := hc 0 c (by simp [hcs])
      rw [hp] at g
      cases hw : c.w with
      | unborn => have := g.unbornIff.mp hw; simp at this
      | spawned => exact ⟨.writerStart 0, rfl, by simp [step, hcs, hw]⟩
      | running => exact ⟨.writerSeesCancel 0, rfl, by simp [step, hcs, hw, hcan]⟩
      | exited =>
        have hq : c.quit = false := g.noQuit rfl (by simp [Phase.preQuit])
        rcases g.exited hw with he | he
        · have hcl := (g.exitDone he).2
          exact ⟨.readErr, rfl, by simp [step, hp, hcs, hcl]⟩
        · simp [hq] at he

end RawPanelVerif.Lifecycle
