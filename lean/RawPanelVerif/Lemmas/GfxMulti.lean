import RawPanelVerif.Lemmas.GfxSpecLift
/-!
C05: clean runs for a whole target-id list (the encoder emits one complete transfer per id), with unrelated lines
woven in anywhere, from ANY state of the decoder's locals / of the streaming reader (hence from every state reachable by
an earlier history) — in the Spec's terms (`cleanRuns`, `checkClean`).
-/
namespace RawPanelVerif.Gfx
open RawPanelVerif

/-! ### splitting a woven history after the first run -/

theorem weave_append_split (cs all : List Bytes) (w : Weave cs all) : ∀ (init : List Bytes) (last : Bytes)
    (E : List Bytes), cs = init ++ last :: E →
    ∃ pre all2, all = pre ++ last :: all2 ∧ Weave init pre ∧ Weave E all2 := by
  induction w with
  | nil => intro init last E h; simp at h
  | skip o cs all h _ ih =>
    intro init last E hcs
    obtain ⟨pre, all2, e, w1, w2⟩ := ih init last E hcs
    exact ⟨o :: pre, all2, by rw [e]; rfl, .skip o init pre h w1, w2⟩
  | take c cs all w' ih =>
    intro init last E hcs
    cases init with
    | nil =>
      simp only [List.nil_append, List.cons.injEq] at hcs
      obtain ⟨rfl, rfl⟩ := hcs
      exact ⟨[], all, rfl, .nil, w'⟩
    | cons c' init' =>
      simp only [List.cons_append, List.cons.injEq] at hcs
      obtain ⟨rfl, hcs⟩ := hcs
      obtain ⟨pre, all2, e, w1, w2⟩ := ih init' last E hcs
      exact ⟨c :: pre, all2, by rw [e]; rfl, .take c init' pre w1, w2⟩

theorem weave_snoc (init pre : List Bytes) (last : Bytes) (w : Weave init pre) :
    Weave (init ++ [last]) (pre ++ [last]) := by
  induction w with
  | nil => exact .take last [] [] .nil
  | skip o cs all h _ ih => exact .skip o _ _ h ih
  | take c cs all _ ih => exact .take c _ _ ih

/-! ### what the Spec's clean-run loop wants to see, as a relation -/

/-- per target id: a group of graphics lines that is a clean run of `g` for that id, and a delivery of `g` to that id
at the group's last line, unaltered -/
inductive CleanObs (g : Img) : List Nat → List (List (Nat × Spec.Gfx.Chunk)) → List Spec.Gfx.Deliv → Prop where
  | nil : CleanObs g [] [] []
  | cons (id : Nat) (ids : List Nat) (G : List (Nat × Spec.Gfx.Chunk)) (grps : List (List (Nat × Spec.Gfx.Chunk)))
      (d : Spec.Gfx.Deliv) (ds : List Spec.Gfx.Deliv) (q : Nat) (c : Spec.Gfx.Chunk)
      (hlast : G.getLast? = some (q, c))
      (hrun : Spec.Gfx.isRun (sentOf g) (Spec.Gfx.decimal id) (G.map (·.2)) = true)
      (hsame : Spec.Gfx.sameImage (sentOf g) id d.img = true) (hpos : d.pos = some q) (hfin : d.final = g.data)
      (rest : CleanObs g ids grps ds) : CleanObs g (id :: ids) (G :: grps) (d :: ds)

theorem CleanObs.length {g : Img} {ids grps ds} (h : CleanObs g ids grps ds) : grps.length = ids.length := by
  induction h with
  | nil => rfl
  | cons => simp [*]

theorem CleanObs.runs {g : Img} {ids grps ds} (h : CleanObs g ids grps ds) :
    ∀ p ∈ grps.zip ids, Spec.Gfx.isRun (sentOf g) (Spec.Gfx.decimal p.2) (p.1.map (·.2)) = true := by
  induction h with
  | nil => intro p hp; simp at hp
  | cons id ids G grps d ds q c hlast hrun hsame hpos hfin rest ih =>
    intro p hp
    rw [List.zip_cons_cons, List.mem_cons] at hp
    rcases hp with rfl | hp
    · exact hrun
    · exact ih p hp

theorem CleanObs.loop {g : Img} {ids grps ds} (h : CleanObs g ids grps ds) :
    ∀ j, Spec.Gfx.cleanLoop (sentOf g) (grps.zip ids) ds j = none := by
  induction h with
  | nil => intro j; rfl
  | cons id ids G grps d ds q c hlast hrun hsame hpos hfin rest ih =>
    intro j
    rw [List.zip_cons_cons]
    unfold Spec.Gfx.cleanLoop
    have hf : (d.final != (sentOf g).data) = false := by simp [hfin, sentOf]
    simp only [hsame, hf, hpos, hlast, Bool.not_true, Bool.false_eq_true, if_false, if_true]
    exact ih (j + 1)

/-- the Spec's two clean-run judgements follow -/
theorem checkClean_of_obs (g : Img) (h : g.data ≠ []) (ids : List Nat) (lines : List Bytes)
    (grps : List (List (Nat × Spec.Gfx.Chunk))) (ds : List Spec.Gfx.Deliv)
    (hg : Spec.Gfx.groups (Spec.Gfx.gfxLines lines) = grps) (hobs : CleanObs g ids grps ds) :
    Spec.Gfx.cleanRuns (sentOf g) ids lines = true ∧ Spec.Gfx.checkClean (sentOf g) ids lines ds = none := by
  have hcr : Spec.Gfx.cleanRuns (sentOf g) ids lines = true := by
    unfold Spec.Gfx.cleanRuns
    simp only [hg, sent_data_nonempty g h, Bool.false_eq_true, if_false, hobs.length, beq_self_eq_true,
      Bool.true_and, List.all_eq_true]
    intro p hp
    exact hobs.runs p hp
  refine ⟨hcr, ?_⟩
  unfold Spec.Gfx.checkClean
  rw [hcr, hg]
  simp only [Bool.not_true, Bool.false_eq_true, if_false]
  exact hobs.loop 0

/-! ### one run at the front of a woven history: groups -/

theorem gfxFrom_front (f : Bytes → Bytes) (hf : ∀ o, Unrelated o → Spec.Gfx.parseLine (f o) = none)
    (g : Img) (id : Nat) (hty : g.ty ≤ 2) (h : g.data ≠ []) (hfc : ∀ c ∈ chunkLines g (dec id), f c = c)
    (init pre : List Bytes) (last : Bytes) (hcl : chunkLines g (dec id) = init ++ [last]) (w : Weave init pre)
    (k : Nat) :
    ∃ pc rest c, gfxFrom k ((pre ++ [last]).map f) = pc :: rest ∧ pc.2.idx = 0 ∧ (∀ q ∈ rest, q.2.idx ≠ 0) ∧
      (pc :: rest).getLast? = some (k + pre.length, c) ∧
      Spec.Gfx.isRun (sentOf g) (Spec.Gfx.decimal id) ((pc :: rest).map (·.2)) = true := by
  have hlast_mem : last ∈ chunkLines g (dec id) := by rw [hcl]; simp
  have hlast : f last = last := hfc last hlast_mem
  obtain ⟨c, hc⟩ : ∃ c, Spec.Gfx.parseLine last = some c := by
    simp only [chunkLines, List.mem_map, List.mem_range] at hlast_mem
    obtain ⟨i, _, rfl⟩ := hlast_mem
    obtain ⟨c, hc, _⟩ := parseLine_chunkLine g (dec id) (validIds_dec id) hty (totalLines g.data.length) i
    exact ⟨c, hc⟩
  have hG : gfxFrom k ((pre ++ [last]).map f) = gfxFrom k (pre.map f) ++ [(k + pre.length, c)] := by
    rw [List.map_append, List.map_cons, List.map_nil, hlast, gfxFrom_append, gfxFrom_cons_some _ _ _ _ hc, gfxFrom_nil]
    simp
  have hsnd : (gfxFrom k ((pre ++ [last]).map f)).map (·.2) = (chunkLines g (dec id)).filterMap Spec.Gfx.parseLine := by
    rw [gfxFrom_snd, hcl, weave_chunks f hf _ _ (weave_snoc init pre last w) (by rw [← hcl]; exact hfc)]
  obtain ⟨pc, rest, e, h0, hrest, hrun⟩ := group_of_chunks g (dec id) (validIds_dec id) hty h _ hsnd
  refine ⟨pc, rest, c, e, h0, hrest, ?_, ?_⟩
  · rw [← e, hG]; simp
  · rw [← e, decimal_eq_dec]; exact hrun

/-! ### one run at the front: the deliveries -/

/-- the batch decoder's locals after a whole transfer from `s0`: image cell at `s0.store.length`, current cell above it -/
theorem run_init_last_cells (g : Img) (ids : Bytes) (hv : ValidIds ids) (hr : InRange g) (h : g.data ≠ [])
    (init : List Bytes) (last : Bytes) (hcl : chunkLines g ids = init ++ [last]) (s0 : BState) (pos : Nat) :
    (Batch.runFrom Batch.step s0 pos init).2 = [] ∧
    ∃ final, Batch.step (Batch.runFrom Batch.step s0 pos init).1 last =
        (final, some (.gfx (intExplode ids) s0.store.length)) ∧
      final.store.getD s0.store.length {} = received g ∧ final.cur < final.store.length ∧
      s0.store.length < final.cur := by
  obtain ⟨hnone, final, hstep, hget⟩ := run_init_last g ids hv hr h init last hcl s0 pos
  refine ⟨hnone, final, hstep, hget, ?_⟩
  -- the final locals are `doneState …` (from `run_whole`)
  have hl := totalLines_lt g hr
  have hpos := totalLines_pos g h
  have hrun := run_whole g.ty ids s0 (chunkLine g ids (totalLines g.data.length) 0)
    ((List.range' 1 (totalLines g.data.length - 1)).map (chunkLine g ids (totalLines g.data.length)))
    ((List.range' 1 (totalLines g.data.length - 1)).map (segment g))
    { idx := 0, ty := g.ty, pfx := pfxOf g.ty, list := ids, max := ((totalLines g.data.length - 1 : Nat) : Int),
      img := headerImg g, data := segment g 0, ok := true } pos
    (parseLine?_chunk_zero g ids hv hr _ hl) rfl rfl rfl rfl (by simp)
    (isRun_chunkLines g ids hv hr _ _ 1 (by omega) (by omega))
  rw [← chunkLines_cons g ids h, hcl, runFrom_append] at hrun
  have hfin := congrArg Prod.fst hrun
  simp only [Batch.runFrom] at hfin
  rw [hstep] at hfin
  simp only [] at hfin
  have : final = doneState s0.store (headerImg g)
      ((headerImg g).data ++ segment g 0 ++ ((List.range' 1 (totalLines g.data.length - 1)).map (segment g)).flatten)
      (((List.range' 1 (totalLines g.data.length - 1)).map (chunkLine g ids (totalLines g.data.length))).length + 1)
      g.ty := hfin
  rw [this]
  simp [doneState]

theorem delivsOf_single (F : List Img) (pos : Nat) (ids : List Nat) (ref : Nat) (snap : List Img) :
    delivsOf F [⟨pos, .gfx ids ref, snap⟩] =
      [{ pos := some pos, img := specImg ids (snap.getD ref {}), final := (F.getD ref {}).data }] := rfl

end RawPanelVerif.Gfx

namespace RawPanelVerif.Gfx

/-! ### the whole id list, from any state -/

theorem sameImage_specImg (g : Img) (id : Nat) (hid : id < 2 ^ 32) :
    Spec.Gfx.sameImage (sentOf g) id (specImg (intExplode (dec id)) (received g)) = true :=
  sameImage_received g id hid

/-- **every id list, woven, from any state**: the Spec's groups of the history (as it is / every line trimmed) and the
deliveries of the batch call (from any locals `s0`) and of the streaming reader (from any reader state `s`),
positions counted from `k` -/
theorem multi_obs (g : Img) (hr : InRange g) (h : g.data ≠ []) :
    ∀ (ids : List Nat), (∀ id ∈ ids, id < 2 ^ 32) → ∀ (all : List Bytes), Weave (encodeState g ids) all →
      ∀ (k : Nat) (s0 : BState) (s : RState),
      ∃ grps1 grps2,
        Spec.Gfx.groups (gfxFrom k all) = grps1 ∧ (∀ x xs, gfxFrom k all = x :: xs → x.2.idx = 0) ∧
        Spec.Gfx.groups (gfxFrom k (all.map trimSpace)) = grps2 ∧
        (∀ x xs, gfxFrom k (all.map trimSpace) = x :: xs → x.2.idx = 0) ∧
        CleanObs g ids grps1
          (delivsOf (Batch.runFrom Batch.step s0 k all).1.store (Batch.runFrom Batch.step s0 k all).2) ∧
        CleanObs g ids grps2 (delivsOfStream (Stream.runFrom Stream.parse s k all).2) := by
  have hf1 : ∀ o, Unrelated o → Spec.Gfx.parseLine ((fun x => x) o) = none :=
    fun o h => parseLine_none_of_parseLine? o h.1
  have hf2 : ∀ o, Unrelated o → Spec.Gfx.parseLine (trimSpace o) = none :=
    fun o h => parseLine_none_of_parseLine? _ h.2
  intro ids
  induction ids with
  | nil =>
    intro _ all w k s0 s
    have hu := weave_nil_unrelated all (by simpa [encodeState] using w)
    have e1 : gfxFrom k all = [] := gfxFrom_none all (fun l hl => hf1 l (hu l hl)) k
    have e2 : gfxFrom k (all.map trimSpace) = [] := gfxFrom_none _ (by
      intro l hl
      obtain ⟨o, ho, rfl⟩ := List.mem_map.mp hl
      exact hf2 o (hu o ho)) k
    refine ⟨[], [], by rw [e1]; rfl, by rw [e1]; intro x xs hx; simp at hx, by rw [e2]; rfl,
      by rw [e2]; intro x xs hx; simp at hx, ?_, ?_⟩
    · rw [delivsOf_nil_of_gfxOuts _ _ (run_unrelated all hu s0 k).2]; exact .nil
    · rw [stream_unrelated all hu s k]; exact .nil
  | cons id ids ih =>
    intro hids all w k s0 s
    have hid : id < 2 ^ 32 := hids id (by simp)
    have hv := validIds_dec id
    have hcl := chunkLines_snoc g (dec id) h
    generalize hinit : (List.range (totalLines g.data.length - 1)).map (chunkLine g (dec id) (totalLines g.data.length)) = init at hcl
    generalize hlastdef : chunkLine g (dec id) (totalLines g.data.length) (totalLines g.data.length - 1) = last at hcl
    have e : encodeState g (id :: ids) = init ++ last :: encodeState g ids := by
      simp only [encodeState, List.flatMap_cons]
      rw [hcl]; simp
    rw [e] at w
    obtain ⟨pre, all2, hall, w1, w2⟩ := weave_append_split _ _ w init last _ rfl
    -- the rest of the history, after the first run's last line
    have hsplit : all = (pre ++ [last]) ++ all2 := by rw [hall]; simp
    have hlen : (pre ++ [last]).length = pre.length + 1 := by simp
    -- batch: the first run
    obtain ⟨hnone, final, hstep, hget, hcur, hlt⟩ := run_init_last_cells g (dec id) hv hr h init last hcl s0 k
    obtain ⟨hw1, hw2⟩ := batch_weave init pre w1 s0 k k
    rw [hnone] at hw2
    -- streaming: the first run
    obtain ⟨hq, hl⟩ := stream_init_last g (dec id) hv hr h init last hcl s k
    have hst := stream_weave_state init pre w1 s s k k rfl
    have hh := stream_weave init pre w1 s s k k rfl
    rw [hq] at hh
    have hpre := delivs_nil_of_hits _ pre (stream_length _ _ _ _) hh
    obtain ⟨g1, g2, hg1, hh1, hg2, hh2, ob1, ob2⟩ :=
      ih (fun x hx => hids x (by simp [hx])) all2 w2 (k + pre.length + 1) final
        (Stream.parse (Stream.runFrom Stream.parse s k pre).1 last).1
    -- groups
    obtain ⟨pc1, rest1, c1, f1, z1, nz1, l1, r1⟩ :=
      gfxFrom_front (fun x => x) hf1 g id hr.ty h (fun _ _ => rfl) init pre last hcl w1 k
    obtain ⟨pc2, rest2, c2, f2, z2, nz2, l2, r2⟩ :=
      gfxFrom_front trimSpace hf2 g id hr.ty h (trimSpace_chunkLines g (dec id)) init pre last hcl w1 k
    rw [List.map_id'] at f1
    have G1 : gfxFrom k all = pc1 :: (rest1 ++ gfxFrom (k + pre.length + 1) all2) := by
      rw [hsplit, gfxFrom_append, f1, hlen]; simp [Nat.add_assoc]
    have G2 : gfxFrom k (all.map trimSpace) = pc2 :: (rest2 ++ gfxFrom (k + pre.length + 1) (all2.map trimSpace)) := by
      rw [hsplit, List.map_append, gfxFrom_append, f2, List.length_map, hlen]; simp [Nat.add_assoc]
    refine ⟨(pc1 :: rest1) :: g1, (pc2 :: rest2) :: g2, ?_, ?_, ?_, ?_, ?_, ?_⟩
    · rw [G1, groups_run rest1 _ nz1 hh1 pc1, hg1]
    · intro x xs hx; rw [G1] at hx; simp only [List.cons.injEq] at hx; rw [← hx.1]; exact z1
    · rw [G2, groups_run rest2 _ nz2 hh2 pc2, hg2]
    · intro x xs hx; rw [G2] at hx; simp only [List.cons.injEq] at hx; rw [← hx.1]; exact z2
    · -- batch deliveries
      have hrun : Batch.runFrom Batch.step s0 k all =
          ((Batch.runFrom Batch.step final (k + pre.length + 1) all2).1,
            (Batch.runFrom Batch.step s0 k pre).2 ++
              (⟨k + pre.length, .gfx (intExplode (dec id)) s0.store.length, final.store⟩ ::
                (Batch.runFrom Batch.step final (k + pre.length + 1) all2).2)) := by
        rw [hall, runFrom_append]
        simp only [Batch.runFrom, hw1, hstep]
      rw [hrun]
      simp only []
      rw [delivsOf_append, delivsOf_nil_of_gfxOuts _ _ hw2, List.nil_append]
      have ec : ∀ (x : Event) (xs : List Event), x :: xs = [x] ++ xs := fun _ _ => rfl
      rw [ec, delivsOf_append, delivsOf_single]
      have hstable := run_stable all2 final (k + pre.length + 1) hcur s0.store.length hlt
      refine .cons id ids _ g1 _ _ (k + pre.length) c1 l1 r1 ?_ rfl ?_ ob1
      · simp only [hget]; exact sameImage_specImg g id hid
      · simp only [hstable, hget, received]
    · -- streaming deliveries
      have hrun : (Stream.runFrom Stream.parse s k all).2 =
          (Stream.runFrom Stream.parse s k pre).2 ++
            ((k + pre.length, (Stream.parse (Stream.runFrom Stream.parse s k pre).1 last).2) ::
              (Stream.runFrom Stream.parse (Stream.parse (Stream.runFrom Stream.parse s k pre).1 last).1
                (k + pre.length + 1) all2).2) := by
        rw [hall, stream_append]
        simp only [Stream.runFrom]
      rw [hrun]
      have ed : ∀ (a : List (Nat × List Seen)) x b, delivsOfStream (a ++ x :: b) =
          delivsOfStream a ++ seenDelivs x.1 x.2 ++ delivsOfStream b := by
        intro a x b; simp [delivsOfStream, List.flatMap_append]
      rw [ed, hpre, List.nil_append, parse_initRule _ _ hst last, hl]
      have hsd : seenDelivs (k + pre.length) [Seen.gfx (intExplode (dec id)) (received g) 1] =
          [{ pos := some (k + pre.length), img := specImg (intExplode (dec id)) (received g),
             final := (received g).data }] := rfl
      rw [hsd, List.singleton_append]
      rw [parse_initRule _ _ hst last] at ob2
      exact .cons id ids _ g2 _ _ (k + pre.length) c2 l2 r2 (sameImage_specImg g id hid) rfl rfl ob2

/-- an empty image: no lines, no deliveries -/
theorem multi_empty (g : Img) (h : g.data = []) (ids : List Nat) (all : List Bytes)
    (w : Weave (encodeState g ids) all) (k : Nat) (s0 : BState) (s : RState) :
    (∀ l ∈ all, Spec.Gfx.parseLine l = none) ∧ (∀ l ∈ all.map trimSpace, Spec.Gfx.parseLine l = none) ∧
    delivsOf (Batch.runFrom Batch.step s0 k all).1.store (Batch.runFrom Batch.step s0 k all).2 = [] ∧
    delivsOfStream (Stream.runFrom Stream.parse s k all).2 = [] := by
  rw [encodeState_nil_of_empty g ids h] at w
  have hu := weave_nil_unrelated all w
  refine ⟨fun l hl => parseLine_none_of_parseLine? l (hu l hl).1, ?_, ?_, stream_unrelated all hu s k⟩
  · intro l hl
    obtain ⟨o, ho, rfl⟩ := List.mem_map.mp hl
    exact parseLine_none_of_parseLine? _ (hu o ho).2
  · exact delivsOf_nil_of_gfxOuts _ _ (run_unrelated all hu s0 k).2

theorem checkClean_nothing (g : Img) (ids : List Nat) (h : g.data = []) (lines : List Bytes)
    (hl : ∀ l ∈ lines, Spec.Gfx.parseLine l = none) :
    Spec.Gfx.cleanRuns (sentOf g) ids lines = true ∧ Spec.Gfx.checkClean (sentOf g) ids lines [] = none := by
  have hcr : Spec.Gfx.cleanRuns (sentOf g) ids lines = true := by
    unfold Spec.Gfx.cleanRuns
    simp [gfxLines_eq, gfxFrom_none lines hl 0, Spec.Gfx.groups, sentOf, h]
  refine ⟨hcr, ?_⟩
  unfold Spec.Gfx.checkClean
  rw [hcr]
  simp [gfxLines_eq, gfxFrom_none lines hl 0, Spec.Gfx.groups, Spec.Gfx.cleanLoop]

/-- the Spec-level clean-run statement for a whole id list, from any state of the batch decoder's locals, any state
of the streaming reader and any serialised reader state -/
theorem clean_run_multi_any (g : Img) (ids : List Nat) (hids : ∀ id ∈ ids, id < 2 ^ 32) (hr : InRange g)
    (all : List Bytes) (w : Weave (encodeState g ids) all) (s0 : BState) (s : RState) (wire : Option Wire) :
    Spec.Gfx.cleanRuns (sentOf g) ids all = true ∧
    Spec.Gfx.checkClean (sentOf g) ids all
      (delivsOf (Batch.runFrom Batch.step s0 0 all).1.store (Batch.runFrom Batch.step s0 0 all).2) = none ∧
    Spec.Gfx.cleanRuns (sentOf g) ids (all.map trimSpace) = true ∧
    Spec.Gfx.checkClean (sentOf g) ids (all.map trimSpace)
      (delivsOfStream (Stream.runFrom Stream.parse s 0 all).2) = none ∧
    Spec.Gfx.checkClean (sentOf g) ids (all.map trimSpace)
      (delivsOfStream (Serial.runFrom Stream.parse wire 0 all).2) = none := by
  by_cases h : g.data = []
  · have hs := multi_empty g h ids all w 0 s0 s
    have hs' := multi_empty g h ids all w 0 s0 (restore wire)
    rw [(serial_stream all wire 0).1, hs.2.2.1, hs.2.2.2, hs'.2.2.2]
    have c1 := checkClean_nothing g ids h all hs.1
    have c2 := checkClean_nothing g ids h (all.map trimSpace) hs.2.1
    exact ⟨c1.1, c1.2, c2.1, c2.2, c2.2⟩
  · obtain ⟨g1, g2, hg1, _, hg2, _, ob1, ob2⟩ := multi_obs g hr h ids hids all w 0 s0 s
    obtain ⟨g1', g2', _, _, hg2', _, _, ob2'⟩ := multi_obs g hr h ids hids all w 0 s0 (restore wire)
    rw [(serial_stream all wire 0).1]
    have k1 := checkClean_of_obs g h ids all g1 _ (by rw [gfxLines_eq]; exact hg1) ob1
    have k2 := checkClean_of_obs g h ids (all.map trimSpace) g2 _ (by rw [gfxLines_eq]; exact hg2) ob2
    have k3 := checkClean_of_obs g h ids (all.map trimSpace) g2' _ (by rw [gfxLines_eq]; exact hg2') ob2'
    exact ⟨k1.1, k1.2, k2.1, k2.2, k3.2⟩

/-! ### erasing positions from a clean-run observation; shifting positions -/

theorem cleanLoop_erase (g : Spec.Gfx.Sent) : ∀ (zs : List (List (Nat × Spec.Gfx.Chunk) × Nat)) (ds : List Spec.Gfx.Deliv)
    (j : Nat), Spec.Gfx.cleanLoop g zs ds j = none →
    Spec.Gfx.cleanLoop g zs (ds.map (fun d => { d with pos := none })) j = none := by
  intro zs
  induction zs with
  | nil =>
    intro ds j h
    cases ds with
    | nil => rfl
    | cons _ _ => simp [Spec.Gfx.cleanLoop] at h
  | cons z zs ih =>
    intro ds j h
    obtain ⟨grp, id⟩ := z
    cases ds with
    | nil => simp [Spec.Gfx.cleanLoop] at h
    | cons d ds =>
      unfold Spec.Gfx.cleanLoop at h
      rw [List.map_cons]
      unfold Spec.Gfx.cleanLoop
      simp only []
      by_cases h1 : (!Spec.Gfx.sameImage g id d.img) = true
      · rw [if_pos h1] at h; exact absurd h (by simp)
      · rw [if_neg h1] at h ⊢
        by_cases h2 : (d.final != g.data) = true
        · rw [if_pos h2] at h; exact absurd h (by simp)
        · rw [if_neg h2] at h ⊢
          apply ih
          cases hp : d.pos with
          | none => rw [hp] at h; exact h
          | some p =>
            rw [hp] at h
            cases hl : grp.getLast? with
            | none => rw [hl] at h; exact h
            | some qc =>
              obtain ⟨q, c⟩ := qc
              rw [hl] at h
              simp only [] at h
              by_cases hpq : p = q
              · rw [if_pos hpq] at h; exact h
              · rw [if_neg hpq] at h; exact absurd h (by simp)

theorem checkClean_erase (g : Spec.Gfx.Sent) (ids : List Nat) (lines : List Bytes) (ds : List Spec.Gfx.Deliv)
    (h : Spec.Gfx.checkClean g ids lines ds = none) :
    Spec.Gfx.checkClean g ids lines (ds.map (fun d => { d with pos := none })) = none := by
  unfold Spec.Gfx.checkClean at h ⊢
  split
  · rfl
  · rename_i hc
    rw [if_neg hc] at h
    exact cleanLoop_erase g _ ds 0 h

/-- the streaming run does not depend on where the position count starts -/
theorem stream_shift (parse : RState → Bytes → RState × List Seen) (k : Nat) : ∀ (ls : List Bytes) (s : RState) (pos : Nat),
    (Stream.runFrom parse s (k + pos) ls).1 = (Stream.runFrom parse s pos ls).1 ∧
    (Stream.runFrom parse s (k + pos) ls).2 = (Stream.runFrom parse s pos ls).2.map (fun e => (k + e.1, e.2)) := by
  intro ls
  induction ls with
  | nil => intro s pos; exact ⟨rfl, rfl⟩
  | cons l ls ih =>
    intro s pos
    have := ih (parse s l).1 (pos + 1)
    simp only [Stream.runFrom, List.map_cons]
    rw [show k + pos + 1 = k + (pos + 1) by omega, this.1, this.2]
    exact ⟨rfl, rfl⟩

/-- … nor does the batch loop (only the ghost positions of the events move) -/
theorem batch_shift (step : BState → Bytes → BState × Option Out) (k : Nat) : ∀ (ls : List Bytes) (s : BState) (pos : Nat),
    (Batch.runFrom step s (k + pos) ls).1 = (Batch.runFrom step s pos ls).1 ∧
    (Batch.runFrom step s (k + pos) ls).2 =
      (Batch.runFrom step s pos ls).2.map (fun e => { e with pos := k + e.pos }) := by
  intro ls
  induction ls with
  | nil => intro s pos; exact ⟨rfl, rfl⟩
  | cons l ls ih =>
    intro s pos
    have := ih (step s l).1 (pos + 1)
    simp only [Batch.runFrom]
    rw [show k + pos + 1 = k + (pos + 1) by omega]
    cases (step s l).2 with
    | none => exact this
    | some o => simp only [List.map_cons]; rw [this.1, this.2]; exact ⟨rfl, rfl⟩

end RawPanelVerif.Gfx
