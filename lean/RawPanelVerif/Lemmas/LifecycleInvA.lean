import RawPanelVerif.Lemmas.LifecycleStep
/-! Invariant A of the lifecycle LTS: callbacks and the exit flag. -/
namespace RawPanelVerif.Lifecycle

def Ev.isCb : Ev → Bool
  | .connect => true
  | .disconnect _ => true
  | _ => false

/-- the callbacks of a history, newest first -/
def cbs (log : List Ev) : List Ev := log.filter Ev.isCb

/-- newest first: callbacks alternate and the oldest one is `connect` -/
def alt : List Ev → Bool
  | [] => true
  | [.connect] => true
  | .connect :: .disconnect b :: r => alt (.disconnect b :: r)
  | .disconnect _ :: .connect :: r => alt (.connect :: r)
  | _ => false

def Phase.live : Phase → Bool      -- a connection is being served (the last callback was `connect`)
  | .connected => true
  | .teardown _ => true
  | _ => false

def Phase.between : Phase → Bool   -- no connection has been announced since the last disconnect
  | .dialing | .noConnWait | .probing | .announcing | .retrySleep => true
  | _ => false

structure InvA (s : St) : Prop where
  alt : alt (cbs s.log) = true
  live : s.phase.live = true → (cbs s.log).head? = some .connect
  between : s.phase.between = true → (cbs s.log = [] ∨ ∃ r, cbs s.log = .disconnect false :: r)
  exiting : s.phase = .exiting → ∃ r, cbs s.log = .disconnect true :: r
  returned : s.phase = .returned → (cbs s.log = [] ∨ ∃ b r, cbs s.log = .disconnect b :: r)
  discTrue : ∀ r, cbs s.log = .disconnect true :: r → s.cancelled = true ∧ (s.phase = .exiting ∨ s.phase = .returned)
  once : Ev.disconnect true ∉ (cbs s.log).tail
  exitFlag : ∀ c ∈ s.conns, c.exit = true → s.cancelled = true
  nonempty : (s.phase = .probing ∨ s.phase = .announcing ∨ s.phase.live = true) → s.conns ≠ []

theorem alt_connect_cons (r : List Ev) (h : alt r = true) (h2 : r = [] ∨ ∃ t, r = .disconnect false :: t) :
    alt (.connect :: r) = true := by
  rcases h2 with h2 | ⟨t, h2⟩ <;> subst h2 <;> simp_all [alt]

theorem alt_disc_cons (b : Bool) (r : List Ev) (h : alt r = true) (h2 : r.head? = some .connect) :
    alt (.disconnect b :: r) = true := by
  cases r with
  | nil => simp at h2
  | cons x t => simp at h2; subst h2; simpa [alt] using h

theorem mem_set_conn {cs : List Conn} {i : Nat} {c d : Conn} (h : d ∈ cs.set i c) : d = c ∨ d ∈ cs := by
  rcases List.mem_or_eq_of_mem_set h with h | h
  · exact Or.inr h
  · exact Or.inl h

theorem invA_init (nc rc : Nat) : InvA (initWith nc rc) := by
  constructor <;> simp [initWith, cbs, alt, Phase.live, Phase.between]

/-- steps that neither log a callback nor touch exit flags: only the phase facts have to be re-established -/
theorem InvA.of_same_cbs {s s' : St} (hi : InvA s) (hlog : cbs s'.log = cbs s.log) (hc : s'.cancelled = s.cancelled ∨ s'.cancelled = true)
    (hex : ∀ c ∈ s'.conns, c.exit = true → s'.cancelled = true)
    (hlive : s'.phase.live = true → s.phase.live = true)
    (hbetween : s'.phase.between = true → s.phase.between = true)
    (hexiting : s'.phase = .exiting → s.phase = .exiting)
    (hret : s'.phase = .returned → (s.phase = .returned ∨ s.phase = .exiting ∨ s.phase.between = true))
    (hdt : (s.phase = .exiting ∨ s.phase = .returned) → (s'.phase = .exiting ∨ s'.phase = .returned))
    (hne : (s'.phase = .probing ∨ s'.phase = .announcing ∨ s'.phase.live = true) → s'.conns ≠ []) : InvA s' := by
  refine ⟨by rw [hlog]; exact hi.alt, fun h => by rw [hlog]; exact hi.live (hlive h),
    fun h => by rw [hlog]; exact hi.between (hbetween h), fun h => by rw [hlog]; exact hi.exiting (hexiting h),
    ?_, ?_, by rw [hlog]; exact hi.once, hex, hne⟩
  · intro h
    rw [hlog]
    rcases hret h with h | h | h
    · exact hi.returned h
    · obtain ⟨r, hr⟩ := hi.exiting h; exact Or.inr ⟨true, r, hr⟩
    · rcases hi.between h with h | ⟨r, hr⟩
      · exact Or.inl h
      · exact Or.inr ⟨false, r, hr⟩
  · intro r hr
    rw [hlog] at hr
    obtain ⟨h1, h2⟩ := hi.discTrue r hr
    refine ⟨?_, hdt h2⟩
    rcases hc with hc | hc
    · rw [hc]; exact h1
    · exact hc

/-- exit flags after an update of the head connection that keeps its flag -/
theorem InvA.exit_head {s : St} (hi : InvA s) {c c' : Conn} {rest : List Conn} (hc : s.conns = c :: rest)
    (he : c'.exit = c.exit) : ∀ d ∈ c' :: rest, d.exit = true → s.cancelled = true := by
  intro d hd hx
  simp at hd
  rcases hd with hd | hd
  · subst hd; exact hi.exitFlag c (by simp [hc]) (by rw [← he]; exact hx)
  · exact hi.exitFlag d (by simp [hc, hd]) hx

/-- … of the connection at index `i` -/
theorem InvA.exit_set {s : St} (hi : InvA s) {c c' : Conn} {i : Nat} (hc : s.conns[i]? = some c)
    (he : c'.exit = c.exit) : ∀ d ∈ s.conns.set i c', d.exit = true → s.cancelled = true := by
  intro d hd hx
  rcases mem_set_conn hd with hd | hd
  · subst hd; exact hi.exitFlag c (List.mem_of_getElem? hc) (by rw [← he]; exact hx)
  · exact hi.exitFlag d hd hx

theorem set_ne_nil {cs : List Conn} {i : Nat} {c : Conn} (h : cs ≠ []) : cs.set i c ≠ [] := by
  intro hnil; apply h
  have := congrArg List.length hnil; simp at this; exact this

/-- a step that changes neither the phase, nor the callbacks, nor the cancel flag, nor any exit flag -/
theorem InvA.frame {s s' : St} (hi : InvA s) (hp : s'.phase = s.phase) (hlog : cbs s'.log = cbs s.log)
    (hc : s'.cancelled = s.cancelled) (hex : ∀ c ∈ s'.conns, c.exit = true → s.cancelled = true)
    (hne : s.conns ≠ [] → s'.conns ≠ []) : InvA s' :=
  hi.of_same_cbs hlog (Or.inl hc) (fun c h1 h2 => by rw [hc]; exact hex c h1 h2) (by rw [hp]; exact id) (by rw [hp]; exact id)
    (by rw [hp]; exact id) (by rw [hp]; exact fun h => Or.inl h) (by rw [hp]; exact id)
    (by rw [hp]; exact fun h => hne (hi.nonempty h))

theorem invA_step (ae : Bool) (s s' : St) (l : Lbl) (hi : InvA s) (hs : step ae s l = some s') : InvA s' := by
  cases l with
  | cancel =>
    have := step_cancel hs; subst this
    exact hi.of_same_cbs rfl (Or.inr rfl) (fun _ _ _ => rfl) id id id (fun h => Or.inl h) id hi.nonempty
  | offer => have := step_offer hs; subst this; exact hi.frame rfl rfl rfl hi.exitFlag id
  | consumerStop => have := step_consumerStop hs; subst this; exact hi.frame rfl rfl rfl hi.exitFlag id
  | consumerResume => have := step_consumerResume hs; subst this; exact hi.frame rfl rfl rfl hi.exitFlag id
  | tick d => have := step_tick hs; subst this; exact hi.frame rfl rfl rfl hi.exitFlag id
  | dialFail =>
    obtain ⟨hp, rfl⟩ := step_dialFail hs
    exact hi.of_same_cbs rfl (Or.inl rfl) hi.exitFlag (by simp [Phase.live]) (by simp [hp, Phase.between])
      (by simp) (by simp) (by simp [hp]) (by simp [Phase.live])
  | noConnTimer =>
    obtain ⟨hp, _, rfl⟩ := step_noConnTimer hs
    exact hi.of_same_cbs rfl (Or.inl rfl) hi.exitFlag (by simp [Phase.live]) (by simp [hp, Phase.between])
      (by simp) (by simp) (by simp [hp]) (by simp [Phase.live])
  | noConnDrain =>
    obtain ⟨hp, _, rfl⟩ := step_noConnDrain hs
    exact hi.of_same_cbs rfl (Or.inl rfl) hi.exitFlag (by simp [Phase.live]) (by simp [hp, Phase.between])
      (by simp) (by simp) (by simp [hp]) (by simp [Phase.live])
  | dialOk bin =>
    obtain ⟨hp, rfl⟩ := step_dialOk hs
    refine hi.of_same_cbs (by simp [cbs, Ev.isCb]) (Or.inl rfl) ?_ (by simp [Phase.live]) (by simp [hp, Phase.between])
      (by simp) (by simp) (by simp [hp]) (by simp)
    intro c hc he
    simp at hc
    rcases hc with hc | hc
    · subst hc; simp at he
    · exact hi.exitFlag c hc he
  | peerClose =>
    obtain ⟨c, rest, hc, _, rfl⟩ := step_peerClose hs
    exact hi.frame rfl rfl rfl (hi.exit_head hc rfl) (by simp)
  | byteArrive fin =>
    obtain ⟨c, rest, hc, _, _, rfl⟩ := step_byteArrive hs
    exact hi.frame rfl rfl rfl (hi.exit_head hc rfl) (by simp)
  | takeFrame =>
    obtain ⟨c, rest, hc, _, _, _, _, rfl⟩ := step_takeFrame hs
    exact hi.frame rfl rfl rfl (hi.exit_head hc rfl) (by simp)
  | spawnWriter =>
    obtain ⟨c, rest, hc, hp, rfl⟩ := step_spawnWriter hs
    exact hi.of_same_cbs rfl (Or.inl rfl) (hi.exit_head hc rfl) (by simp [Phase.live]) (by simp [hp, Phase.between]) (by simp) (by simp)
      (by simp [hp]) (by simp)
  | deliver =>
    obtain ⟨c, rest, hc, hp, _, _, rfl⟩ := step_deliver hs
    exact hi.frame rfl (by simp [cbs, Ev.isCb]) rfl (hi.exit_head hc rfl) (by simp)
  | readErr =>
    obtain ⟨c, rest, hc, hp, _, _, rfl⟩ := step_readErr hs
    exact hi.of_same_cbs rfl (Or.inl rfl) hi.exitFlag (by simp [hp, Phase.live]) (by simp [Phase.between]) (by simp) (by simp)
      (by simp [hp]) (by simp [hc])
  | readFault =>
    obtain ⟨c, rest, hc, hp, _, _, _, _, _, rfl⟩ := step_readFault hs
    exact hi.of_same_cbs rfl (Or.inl rfl) (hi.exit_head hc rfl) (by simp [hp, Phase.live]) (by simp [Phase.between]) (by simp) (by simp)
      (by simp [hp]) (by simp)
  | closeQuit =>
    obtain ⟨c, rest, hc, hp, rfl⟩ := step_closeQuit hs
    exact hi.of_same_cbs rfl (Or.inl rfl) (hi.exit_head hc rfl) (by simp [hp, Phase.live]) (by simp [Phase.between]) (by simp) (by simp)
      (by simp [hp]) (by simp)
  | connClose =>
    obtain ⟨c, rest, hc, hp, rfl⟩ := step_connClose hs
    exact hi.of_same_cbs rfl (Or.inl rfl) (hi.exit_head hc rfl) (by simp [hp, Phase.live]) (by simp [Phase.between]) (by simp) (by simp)
      (by simp [hp]) (by simp)
  | sleepDone =>
    obtain ⟨hp, _, rfl⟩ := step_sleepDone hs
    exact hi.of_same_cbs (by simp [cbs, Ev.isCb]) (Or.inl rfl) hi.exitFlag (by simp [Phase.live]) (by simp [hp, Phase.between])
      (by simp) (by simp) (by simp [hp]) (by simp [Phase.live])
  | ret =>
    obtain ⟨hp, rfl⟩ := step_ret hs
    refine hi.of_same_cbs (by simp [cbs, Ev.isCb]) (Or.inl rfl) hi.exitFlag (by simp [Phase.live]) (by simp [Phase.between])
      (by simp) ?_ (by simp) (by simp [Phase.live])
    intro _
    rcases hp with hp | ⟨hp, _⟩
    · exact Or.inr (Or.inl hp)
    · exact Or.inr (Or.inr (by simp [hp, Phase.between]))
  | writerStart i =>
    obtain ⟨c, hc, _, rfl⟩ := step_writerStart hs
    exact hi.frame rfl rfl rfl (hi.exit_set hc rfl) set_ne_nil
  | writerSeesQuit i =>
    obtain ⟨c, hc, _, _, rfl⟩ := step_writerSeesQuit hs
    exact hi.frame rfl rfl rfl (hi.exit_set hc rfl) set_ne_nil
  | writerTake i =>
    obtain ⟨c, hc, _, _, rfl⟩ := step_writerTake hs
    exact hi.frame rfl rfl rfl (hi.exit_set hc rfl) set_ne_nil
  | writeDone i =>
    obtain ⟨c, hc, _, _, rfl⟩ := step_writeDone hs
    exact hi.frame rfl rfl rfl (hi.exit_set hc rfl) set_ne_nil
  | writeErr i =>
    obtain ⟨c, hc, _, _, rfl⟩ := step_writeErr hs
    exact hi.frame rfl rfl rfl (hi.exit_set hc rfl) set_ne_nil
  | writerSeesCancel i =>
    obtain ⟨c, hc, _, hcan, rfl⟩ := step_writerSeesCancel hs
    exact hi.frame rfl rfl rfl (fun _ _ _ => hcan) set_ne_nil
  | onConnect =>
    obtain ⟨hp, rfl⟩ := step_onConnect hs
    have hb := hi.between (by simp [hp, Phase.between])
    have hcb : cbs (Ev.connect :: s.log) = .connect :: cbs s.log := by simp [cbs, List.filter_cons, Ev.isCb]
    refine ⟨by simp only [hcb]; exact alt_connect_cons _ hi.alt hb, by simp [hcb], by simp [Phase.between], by simp, by simp,
      by simp [hcb], ?_, hi.exitFlag, fun _ => hi.nonempty (Or.inr (Or.inl hp))⟩
    simp only [hcb, List.tail_cons]
    rcases hb with hb | ⟨r, hr⟩
    · simp [hb]
    · rw [hr]; intro hm; simp at hm; exact hi.once (by rw [hr]; simpa using hm)
  | onDisconnect b =>
    obtain ⟨c, rest, hc, hp, hb, rfl⟩ := step_onDisconnect hs
    have hhead := hi.live (by simp [hp, Phase.live])
    have hcb : cbs (Ev.disconnect b :: s.log) = .disconnect b :: cbs s.log := by simp [cbs, List.filter_cons, Ev.isCb]
    have hcanc : b = true → s.cancelled = true := by
      intro h; exact hi.exitFlag c (by simp [hc]) (by rw [← hb]; exact h)
    have honce : Ev.disconnect true ∉ cbs s.log := by
      intro hm
      cases hcs : cbs s.log with
      | nil => simp [hcs] at hm
      | cons x t =>
        rw [hcs] at hhead; simp at hhead; subst hhead
        rw [hcs] at hm; simp at hm
        exact hi.once (by rw [hcs]; simpa using hm)
    refine ⟨by simp only [hcb]; exact alt_disc_cons _ _ hi.alt hhead, ?_, ?_, ?_, ?_, ?_, by simpa [hcb] using honce,
      hi.exitFlag, ?_⟩
    · cases b <;> simp [Phase.live]
    · cases b <;> simp [Phase.between, hcb]
    · cases b <;> simp [hcb]
    · cases b <;> simp
    · intro r hr
      rw [hcb] at hr; simp at hr
      obtain ⟨hbt, _⟩ := hr
      subst hbt
      exact ⟨hcanc rfl, by simp⟩
    · cases b <;> simp [Phase.live]

theorem invA_reachable {ae : Bool} {s : St} (h : Reachable ae s) : InvA s := by
  induction h with
  | init nc rc => exact invA_init nc rc
  | step l _ hs ih => exact invA_step ae _ _ l ih hs

end RawPanelVerif.Lifecycle
