import RawPanelVerif.Lemmas.DecSound2
/-! C02 `dec_sound`, text lines: `decText` against the reference reader's `readText` on every well-formed `HWCt#`
value (`textWellFormed`).  `decText` is factored (definitionally) into the record built from the 21 fields (`pre`)
and the chain of conditional overrides (`post`), whose closed form is `post_eq`. -/
namespace RawPanelVerif.DecText
open RawPanelVerif RawPanelVerif.Bytes RawPanelVerif.MsgIn RawPanelVerif.Model.In RawPanelVerif.InBits RawPanelVerif.ReadIn
open RawPanelVerif.Spec.In RawPanelVerif.EncSound RawPanelVerif.TotalIn RawPanelVerif.DecShape RawPanelVerif.DecSound

/-! ## `decText` = `post ∘ pre` -/

/-- the overrides of `decText` (lines 300-326), on an arbitrary text record -/
def post (hd : Bool) (c19 c20 : Int) (t : Text) : Text :=
  let t := if hd ∧ t.formatting = 0 then { t with formatting := 7 } else t
  let t := if c19 > 0 then { t with pixelColor := some (colorStruct c19) } else t
  let t := if c20 > 0 then { t with backgroundColor := some (colorStruct c20) } else t
  let t := match t.textStyling with
    | some ts => if (ts.unformattedFontSize : Int) > 0 then { t with integerValue := 0 } else t
    | none => t
  let t := if t.formatting = 7 then { t with integerValue := 0 } else t
  let t := if t.formatting = 10 ∨ t.formatting = 11 then { t with solidHeaderBar := false, pairMode := 0 } else t
  let t := if t.title = [] then { t with solidHeaderBar := false } else t
  t

/-- the record `decText` builds from the fields (lines 238-299) -/
def pre (f : List Bytes) : Text :=
  let fmt10or11 : Bool := idxInt f 1 = 10 ∨ idxInt f 1 = 11
  let pairMode0 : Int := i32 (idxInt f 8)
  let pairMode : Int :=
    if (idxS f 7).length > 0 ∨ (idxS f 6).length > 0 then (if pairMode0 > 0 then pairMode0 else 1) else pairMode0
  {
    integerValue := i32 (idxInt f 0)
    formatting := i32 (idxInt f 1)
    stateIcon := (landNat (idxInt f 2) 3 : Nat)
    modifierIcon := (landNat (idxInt f 2 >>> 3) 7 : Nat)
    title := idxS f 3
    solidHeaderBar := idxInt f 4 == 0
    textline1 := idxS f 5
    textline2 := idxS f 6
    integerValue2 := i32 (idxInt f 7)
    pairMode := pairMode
    scale := some { scaleType := i32 (idxInt f 9), rangeLow := i32 (idxInt f 10), rangeHigh := i32 (idxInt f 11),
                    limitLow := i32 (idxInt f 12), limitHigh := i32 (idxInt f 13) }
    textStyling := some {
      textFont := some { face := (landNat (idxInt f 15 >>> 0) 7 : Nat), width := u32 (landNat (idxInt f 16 >>> 0) 3),
                         height := u32 (landNat (idxInt f 16 >>> 2) 3) }
      titleFont := some { face := (landNat (idxInt f 15 >>> 3) 7 : Nat), width := u32 (landNat (idxInt f 16 >>> 4) 3),
                          height := u32 (landNat (idxInt f 16 >>> 6) 3) }
      unformattedFontSize := u32 (if fmt10or11 then idxInt f 0 else 0)
      fixedWidth := landNat (idxInt f 15 >>> 6) 1 > 0
      titleBarPadding := u32 (landNat (idxInt f 17 >>> 0) 3)
      extraSpacing := u32 (landNat (idxInt f 17 >>> 2) 7) }
    inverted := idxInt f 18 > 0 }

theorem decText_eq (v : Bytes) :
    decText v = post ((splitOn 124 v).head? == some []) (idxInt (splitOn 124 v) 19) (idxInt (splitOn 124 v) 20)
      (pre (splitOn 124 v)) := rfl

def fmtOf (hd : Bool) (fm : Int) : Int := if hd ∧ fm = 0 then 7 else fm

/-- closed form of the overrides -/
theorem post_eq (hd : Bool) (c19 c20 : Int) (iv fm si mi : Int) (ti : Bytes) (shb : Bool) (l1 l2 : Bytes) (iv2 pm : Int)
    (sc : Option Scale) (ts : TextStyle) (inv : Bool) :
    post hd c19 c20 ⟨iv, fm, si, mi, ti, shb, l1, l2, iv2, pm, sc, some ts, inv, none, none⟩ =
      ⟨if fmtOf hd fm = 7 then 0 else if (ts.unformattedFontSize : Int) > 0 then 0 else iv,
       fmtOf hd fm, si, mi, ti,
       if ti = [] then false else if fmtOf hd fm = 10 ∨ fmtOf hd fm = 11 then false else shb,
       l1, l2, iv2,
       if fmtOf hd fm = 10 ∨ fmtOf hd fm = 11 then 0 else pm,
       sc, some ts, inv,
       if c19 > 0 then some (colorStruct c19) else none,
       if c20 > 0 then some (colorStruct c20) else none⟩ := by
  unfold post fmtOf
  by_cases h1 : hd = true ∧ fm = 0 <;> by_cases h2 : c19 > 0 <;> by_cases h3 : c20 > 0 <;>
  by_cases h4 : (ts.unformattedFontSize : Int) > 0 <;> simp only [h1, h2, h3, h4, if_true, if_false] <;>
  by_cases h5 : ti = [] <;> simp only [h5, if_true, if_false] <;>
  by_cases h6 : fm = 7 <;> by_cases h7 : fm = 10 <;> by_cases h8 : fm = 11 <;> simp_all

/-! ## numeric fields -/

theorem i32_id (n : Int) (h : i32ok n = true) : i32 n = n := by
  unfold i32ok at h
  simp only [Bool.and_eq_true, decide_eq_true_eq] at h
  unfold i32; omega

theorem idxInt_fld (F : List Bytes) (i : Nat) : idxInt F i = atoiV (fld F i) := by
  unfold idxInt fld
  rw [List.getD_eq_getElem?_getD]
  cases F[i]? with
  | none => rfl
  | some f => rfl

theorem idxS_fld (F : List Bytes) (i : Nat) : idxS F i = fld F i := rfl

theorem atoiV_neg (r : Bytes) (k : Nat) (h : num? r = some k) : atoiV (45 :: r) = -(k : Int) := by
  obtain ⟨h1, h2, h3, h4⟩ := num_spec r k h
  have hs := scanU_ok r 0 h2 (by unfold natOfDigits at h3; rw [h3]; unfold maxUint64; omega)
  unfold natOfDigits at h3
  rw [h3] at hs
  unfold atoiV
  split
  · rename_i ds heq
    injection heq with _ e2
    subst e2
    simp only []
    rw [if_neg h1, hs]
    simp only [if_true]
    unfold minInt64
    rw [if_neg (by omega)]
  · rename_i ds heq; injection heq with e1 _; exact absurd e1 (by decide)
  · rename_i hn _; exact absurd rfl (hn r)

theorem int_atoiV (s : Bytes) (n : Int) (h : int? s = some n) : atoiV s = n := by
  unfold int? at h
  split at h
  · rename_i r
    cases hk : num? r with
    | none => rw [hk] at h; simp at h
    | some k =>
      rw [hk] at h
      simp [bind, Option.bind, pure] at h
      rw [atoiV_neg r k hk, h]
  · cases hk : num? s with
    | none => rw [hk] at h; simp at h
    | some k =>
      rw [hk] at h
      simp [bind, Option.bind, pure] at h
      rw [num_atoiV s k hk, h]

theorem intField_atoiV (s : Bytes) (n : Int) (h : intField? s = some n) : atoiV s = n := by
  unfold intField? at h
  split at h
  · rename_i e; subst e
    simp only [Option.some.injEq] at h
    rw [← h]; rfl
  · exact int_atoiV s n h

theorem numField_atoiV (s : Bytes) (n : Nat) (h : numField? s = some n) : atoiV s = (n : Int) ∧ n < 4294967296 := by
  unfold numField? at h
  split at h
  · rename_i e; subst e
    simp only [Option.some.injEq] at h
    rw [← h]; exact ⟨rfl, by omega⟩
  · exact ⟨num_atoiV s n h, (num_spec s n h).2.2.2⟩

theorem idxInt_int (F : List Bytes) (i : Nat) (n : Int) (h : intField? (fld F i) = some n) : idxInt F i = n := by
  rw [idxInt_fld]; exact intField_atoiV _ _ h

theorem idxInt_num (F : List Bytes) (i : Nat) (n : Nat) (h : numField? (fld F i) = some n) : idxInt F i = (n : Int) := by
  rw [idxInt_fld]; exact (numField_atoiV _ _ h).1

/-! ## colour fields 19 / 20 -/

theorem textColor_kernel (s : Bytes) (c : Option ColorE) (h : readTextColor s = some c) :
    ∃ n : Nat, numField? s = some n ∧ c = textColorOf (if (n : Int) > 0 then some (colorStruct n) else none) := by
  unfold readTextColor at h
  cases hn : numField? s with
  | none => rw [hn] at h; simp at h
  | some n =>
    refine ⟨n, rfl, ?_⟩
    rw [hn] at h
    have hlt := (numField_atoiV s n hn).2
    cases n with
    | zero => simp at h; subst h; rfl
    | succ k =>
      simp only [Option.some.injEq] at h
      subst h
      rw [if_pos (by omega)]
      unfold textColorOf colorStruct readColor
      have hb := landNat_bit (k+1) 6 (by omega)
      simp only [show (2:Nat)^6 = 64 from rfl] at hb
      rw [hb]
      by_cases hq : (k+1) / 64 % 2 = 1
      · have h' : (k+1) / 64 % 2 * 64 > 0 := by omega
        rw [if_pos h', if_pos hq]
        simp only [colorOf]
        rw [shr_nat, shr_nat, shr_nat, landNat_3, landNat_3, landNat_3,
          expand2_eq _ (by omega), expand2_eq _ (by omega), expand2_eq _ (by omega),
          C02kern.level2_85 _ (by omega), C02kern.level2_85 _ (by omega), C02kern.level2_85 _ (by omega)]
        simp only [show (2:Nat)^4 = 16 from rfl, show (2:Nat)^2 = 4 from rfl, show (2:Nat)^0 = 1 from rfl, Nat.div_one]
      · have h' : ¬ (k+1) / 64 % 2 * 64 > 0 := by omega
        rw [if_neg h', if_neg hq]
        simp only [colorOf]
        rw [landNat_31]
        simp only [Int.toNat_natCast]
        cases hm : (k+1) % 32 with
        | zero => rfl
        | succ j => rfl

/-! ## per-field arithmetic -/

theorem int32Field_ok (s : Bytes) (n : Int) (h : intField? s = some n) (w : int32Field s = true) : i32ok n = true := by
  unfold int32Field at w
  rw [h] at w
  exact w

theorem num_int (s : Bytes) (n : Nat) (h : num? s = some n) : int? s = some (n : Int) := by
  obtain ⟨h1, h2, _, _⟩ := num_spec s n h
  unfold int?
  split
  · rename_i r
    simp only [List.all_cons, Bool.and_eq_true] at h2
    exact absurd h2.1 (by decide)
  · rw [h]
    simp [bind, Option.bind, pure]

theorem numField_int (s : Bytes) (f0 : Int) (h0 : intField? s = some f0) (h : (numField? s).isSome = true) :
    0 ≤ f0 ∧ f0 < 4294967296 := by
  unfold numField? at h
  unfold intField? at h0
  by_cases e : s = []
  · rw [if_pos e] at h0
    simp only [Option.some.injEq] at h0
    omega
  · rw [if_neg e] at h h0
    obtain ⟨n, hn⟩ := isSome_iff _ h
    rw [num_int s n hn] at h0
    simp only [Option.some.injEq] at h0
    have := (num_spec s n hn).2.2.2
    omega

theorem head_fld (v : Bytes) : ((splitOn 124 v).head? == some []) = decide (fld (splitOn 124 v) 0 = []) := by
  have hne := splitOn_ne_nil 124 v
  cases hs : splitOn 124 v with
  | nil => exact absurd hs hne
  | cons a as =>
    simp only [List.head?_cons, fld, List.getD_cons_zero]
    by_cases ha : a = []
    · subst ha; simp
    · simp [ha]

theorem fmtS_eq (p : Prop) [Decidable p] (f1 : Int) : (if p ∧ f1 = 0 then 7 else f1) = fmtOf (decide p) f1 := by
  unfold fmtOf
  simp only [decide_eq_true_eq]

theorem is1011_iff (f : Int) : is1011 f = true ↔ (f = 10 ∨ f = 11) := by
  unfold is1011
  simp only [Bool.or_eq_true, beq_iff_eq]

theorem is1011_fmtOf (b : Bool) (f1 : Int) : is1011 (fmtOf b f1) = is1011 f1 := by
  unfold fmtOf
  split
  · rename_i h; rw [h.2]; rfl
  · rfl

theorem fmtOf_or (b : Bool) (f1 : Int) : (fmtOf b f1 = 10 ∨ fmtOf b f1 = 11) ↔ (f1 = 10 ∨ f1 = 11) := by
  rw [← is1011_iff, ← is1011_iff, is1011_fmtOf]

theorem L_value (b : Bool) (f0 f1 : Int) (H : is1011 f1 = false → i32ok f0 = true) :
    (if (fmtOf b f1 == 7 || is1011 (fmtOf b f1)) = true then 0
      else if fmtOf b f1 = 7 then 0
      else if ((u32 (if decide (f1 = 10 ∨ f1 = 11) = true then f0 else 0) : Nat) : Int) > 0 then 0 else i32 f0) =
    if (fmtOf b f1 == 7 || is1011 (fmtOf b f1)) = true then (0 : Int) else f0 := by
  by_cases hc : (fmtOf b f1 == 7 || is1011 (fmtOf b f1)) = true
  · rw [if_pos hc, if_pos hc]
  · rw [if_neg hc, if_neg hc]
    simp only [Bool.or_eq_true, beq_iff_eq, not_or] at hc
    obtain ⟨c1, c2⟩ := hc
    rw [is1011_fmtOf] at c2
    have c3 : ¬ (f1 = 10 ∨ f1 = 11) := by rw [← is1011_iff]; exact c2
    rw [if_neg c1]
    simp only [c3, decide_false, Bool.false_eq_true, if_false]
    have : ¬ (((u32 0 : Nat) : Int) > 0) := by unfold u32; omega
    rw [if_neg this]
    exact i32_id f0 (H (by simpa using c2))

theorem L_fontSize (b : Bool) (f0 f1 : Int) (H : is1011 f1 = true → 0 ≤ f0 ∧ f0 < 4294967296) :
    (if is1011 (fmtOf b f1) = true then u32 (if decide (f1 = 10 ∨ f1 = 11) = true then f0 else 0) else 0) =
    if is1011 (fmtOf b f1) = true then f0.toNat else 0 := by
  rw [is1011_fmtOf]
  by_cases hc : is1011 f1 = true
  · rw [if_pos hc, if_pos hc]
    have := (is1011_iff f1).mp hc
    simp only [this, decide_true, if_true]
    have := H hc
    unfold u32; omega
  · rw [if_neg hc, if_neg hc]

theorem L_solidBar (b : Bool) (f1 : Int) (f4 : Nat) (ti : Bytes) :
    ((if ti = [] then false else if fmtOf b f1 = 10 ∨ fmtOf b f1 = 11 then false else (f4 : Int) == 0) && ti != [] &&
      !is1011 (fmtOf b f1)) = (decide (f4 = 0) && ti != [] && !is1011 (fmtOf b f1)) := by
  rw [is1011_fmtOf]
  by_cases ht : ti = []
  · subst ht; simp
  · rw [if_neg ht]
    by_cases hc : is1011 f1 = true
    · rw [hc]; simp
    · have c3 : ¬ (fmtOf b f1 = 10 ∨ fmtOf b f1 = 11) := by rw [fmtOf_or, ← is1011_iff]; exact hc
      rw [if_neg c3]
      congr 2
      by_cases h4 : f4 = 0
      · subst h4; rfl
      · have : ¬ ((f4 : Int) = 0) := by omega
        simp [h4]

theorem L_pairMode (b : Bool) (f1 f8 : Int) (s6 s7 : Bytes) :
    (if is1011 (fmtOf b f1) = true then 0
      else if fmtOf b f1 = 10 ∨ fmtOf b f1 = 11 then 0
      else if List.length s7 > 0 ∨ List.length s6 > 0 then (if f8 > 0 then f8 else 1) else f8) =
    if is1011 (fmtOf b f1) = true then (0 : Int) else if (s6 ≠ [] ∨ s7 ≠ []) ∧ f8 < 1 then 1 else f8 := by
  by_cases hc : is1011 (fmtOf b f1) = true
  · rw [if_pos hc, if_pos hc]
  · rw [if_neg hc, if_neg hc]
    have c3 : ¬ (fmtOf b f1 = 10 ∨ fmtOf b f1 = 11) := by rw [← is1011_iff]; exact hc
    rw [if_neg c3]
    have e6 : List.length s6 > 0 ↔ s6 ≠ [] := by cases s6 <;> simp
    have e7 : List.length s7 > 0 ↔ s7 ≠ [] := by cases s7 <;> simp
    by_cases hp : s6 ≠ [] ∨ s7 ≠ []
    · have hp' : List.length s7 > 0 ∨ List.length s6 > 0 := by rw [e6, e7]; exact hp.symm
      rw [if_pos hp']
      by_cases h8 : f8 > 0
      · rw [if_pos h8, if_neg (by intro h; omega)]
      · rw [if_neg h8, if_pos ⟨hp, by omega⟩]
    · have hp' : ¬ (List.length s7 > 0 ∨ List.length s6 > 0) := by rw [e6, e7]; intro h; exact hp h.symm
      rw [if_neg hp', if_neg (fun h => hp h.1)]

theorem L_u32mask3 (n k : Nat) : u32 ((landNat ((n : Int) >>> k) 3 : Nat) : Int) = n / 2^k % 4 := by
  rw [shr_nat, landNat_3, C02kern.u32_nat _ (by omega)]
theorem L_u32mask7 (n k : Nat) : u32 ((landNat ((n : Int) >>> k) 7 : Nat) : Int) = n / 2^k % 8 := by
  rw [shr_nat, landNat_7, C02kern.u32_nat _ (by omega)]
theorem L_mask7 (n k : Nat) : (((landNat ((n : Int) >>> k) 7 : Nat) : Int)).toNat = n / 2^k % 8 := by
  rw [shr_nat, landNat_7]; exact Int.toNat_natCast _
theorem L_mask3 (n : Nat) : (((landNat (n : Int) 3 : Nat) : Int)).toNat = n % 4 := by
  rw [landNat_3]; exact Int.toNat_natCast _
theorem L_bit (n k : Nat) : decide (landNat ((n : Int) >>> k) 1 > 0) = decide (n / 2^k % 2 = 1) := by
  rw [shr_nat, landNat_1]
  by_cases h : n / 2^k % 2 = 1
  · simp [h]
  · have : n / 2^k % 2 = 0 := by omega
    simp [this]

/-! ## the kernel -/

/-- **`decText` against `readText`**: on every well-formed `HWCt#` value the reference reader reads a text state, and
it is the (normalised) meaning of the record the decoder builds -/
theorem text_kernel (v : Bytes) (hwf : textWellFormed v = true) :
    ∃ t, readText v = some t ∧ normText (textOf (decText v)) = t := by
  unfold textWellFormed at hwf
  simp only [Bool.and_eq_true] at hwf
  obtain ⟨⟨⟨⟨⟨⟨⟨⟨⟨⟨_, hsome⟩, w1⟩, w7⟩, w8⟩, w9⟩, w10⟩, w11⟩, w12⟩, w13⟩, w0⟩ := hwf
  obtain ⟨t, ht⟩ := isSome_iff _ hsome
  refine ⟨t, ht, ?_⟩
  unfold readText at ht
  simp only [Option.bind_eq_bind, Option.bind_eq_some_iff, pure, Option.some.injEq] at ht
  obtain ⟨f0, h0, f1, h1, f2, h2, f4, h4, f7, h7, f8, h8, f9, h9, f10, h10, f11, h11, f12, h12, f13, h13, f15, h15, f16, h16,
    f17, h17, f18, h18, c19, h19, c20, h20, ht⟩ := ht
  subst ht
  obtain ⟨n19, g19, rfl⟩ := textColor_kernel _ _ h19
  obtain ⟨n20, g20, rfl⟩ := textColor_kernel _ _ h20
  rw [decText_eq, head_fld]
  generalize hF : splitOn 124 v = F at *
  have k1 := int32Field_ok _ _ h1 w1
  have k7 := int32Field_ok _ _ h7 w7
  have k8 := int32Field_ok _ _ h8 w8
  have k9 := int32Field_ok _ _ h9 w9
  have k10 := int32Field_ok _ _ h10 w10
  have k11 := int32Field_ok _ _ h11 w11
  have k12 := int32Field_ok _ _ h12 w12
  have k13 := int32Field_ok _ _ h13 w13
  rw [h1] at w0
  simp only [] at w0
  have H0a : is1011 f1 = false → i32ok f0 = true := by
    intro hc
    rw [hc] at w0
    simp only [Bool.false_eq_true, if_false] at w0
    exact int32Field_ok _ _ h0 w0
  have H0b : is1011 f1 = true → 0 ≤ f0 ∧ f0 < 4294967296 := by
    intro hc
    rw [if_pos hc] at w0
    exact numField_int _ _ h0 w0
  unfold pre
  simp only [idxInt_int F _ _ h0, idxInt_int F _ _ h1, idxInt_num F _ _ h2, idxInt_num F _ _ h4, idxInt_int F _ _ h7,
    idxInt_int F _ _ h8, idxInt_int F _ _ h9, idxInt_int F _ _ h10, idxInt_int F _ _ h11, idxInt_int F _ _ h12,
    idxInt_int F _ _ h13, idxInt_num F _ _ h15, idxInt_num F _ _ h16, idxInt_num F _ _ h17, idxInt_num F _ _ h18,
    idxInt_num F _ _ g19, idxInt_num F _ _ g20, idxS_fld]
  rw [post_eq]
  unfold textOf
  simp only [Option.getD_some]
  unfold normText
  simp only [i32_id f1 k1, i32_id f7 k7, i32_id f8 k8, i32_id f9 k9, i32_id f10 k10, i32_id f11 k11, i32_id f12 k12,
    i32_id f13 k13, fmtS_eq]
  congr 1
  case e_value => exact L_value _ f0 f1 H0a
  case e_stateIcon => exact L_mask3 f2
  case e_modIcon => exact L_mask7 f2 3
  case e_solidBar => exact L_solidBar _ f1 f4 _
  case e_pairMode => exact L_pairMode _ f1 f8 _ _
  case e_textFace => have := L_mask7 f15 0; rw [Nat.pow_zero, Nat.div_one] at this; exact this
  case e_titleFace => exact L_mask7 f15 3
  case e_fixedWidth => exact L_bit f15 6
  case e_textW => have := L_u32mask3 f16 0; rw [Nat.pow_zero, Nat.div_one] at this; exact this
  case e_textH => exact L_u32mask3 f16 2
  case e_titleW => exact L_u32mask3 f16 4
  case e_titleH => exact L_u32mask3 f16 6
  case e_padding => have := L_u32mask3 f17 0; rw [Nat.pow_zero, Nat.div_one] at this; exact this
  case e_spacing => exact L_u32mask7 f17 2
  case e_fontSize => exact L_fontSize _ f0 f1 H0b
  case e_inverted =>
    by_cases h : f18 > 0
    · simp [h]
    · simp [h]

/-- the record the decoder builds is never the all-default text (its scale and styling are always present) -/
theorem decText_ne_default (v : Bytes) : decText v ≠ {} := by
  intro h
  have := congrArg Text.scale h
  rw [decText_eq] at this
  unfold pre at this
  rw [post_eq] at this
  simp at this

end RawPanelVerif.DecText
