import RawPanelVerif.Lemmas.GfxMulti
/-!
C05: ONE encoder call that carries SEVERAL images (several states of one `InboundMessage`, several messages), each with
its own format, dimensions, offset, bytes and target ids.

* `encodeMsgs_eq_runs`   the call's lines are, run after run, the transfers of `runsOfImgs` (image, id) — one per image in
                         message order and per id in order, none for an empty image
* `checkEncAll_encodeMsgs`  the Spec's whole-call encoder check passes on them
* `runs_obs`             the generalisation of `multi_obs` from one image to a list of runs with their own images: woven
                         with unrelated lines, from any decoder locals / reader state, one group and one delivery per run
* `clean_msgs_any`       the Spec-level clean-run statement for the whole call
* `cleanRunsAll_single`, `checkEncAll_single`, `checkCleanAll_single`  on a single image the whole-call predicates ARE
                         the single-image predicates `cleanRuns`, `checkEnc`, `checkClean`
-/
namespace RawPanelVerif.Gfx
open RawPanelVerif

/-! ### the call as a list of runs -/

/-- the transfers of a call: per image in message order, per id in order; an empty image has none -/
def runsOfImgs (imgs : List (Img × List Nat)) : List (Img × Nat) :=
  imgs.flatMap (fun gi => if gi.1.data = [] then [] else gi.2.map (fun id => (gi.1, id)))

/-- the lines of a list of runs -/
def encodeRuns (runs : List (Img × Nat)) : List Bytes := runs.flatMap (fun r => chunkLines r.1 (dec r.2))

theorem encodeRuns_cons (r : Img × Nat) (runs : List (Img × Nat)) :
    encodeRuns (r :: runs) = chunkLines r.1 (dec r.2) ++ encodeRuns runs := by
  simp [encodeRuns]

theorem encodeRuns_append (a b : List (Img × Nat)) : encodeRuns (a ++ b) = encodeRuns a ++ encodeRuns b := by
  simp [encodeRuns]

theorem encodeState_eq_runs (g : Img) (ids : List Nat) :
    encodeState g ids = encodeRuns (if g.data = [] then [] else ids.map (fun id => (g, id))) := by
  by_cases h : g.data = []
  · rw [if_pos h, encodeState_nil_of_empty g ids h]; rfl
  · rw [if_neg h]
    simp [encodeState, encodeRuns, List.flatMap_map]

theorem encodeMsg_eq_runs (imgs : List (Img × List Nat)) : encodeMsg imgs = encodeRuns (runsOfImgs imgs) := by
  induction imgs with
  | nil => rfl
  | cons gi imgs ih =>
    have e1 : encodeMsg (gi :: imgs) = encodeState gi.1 gi.2 ++ encodeMsg imgs := by simp [encodeMsg]
    have e2 : runsOfImgs (gi :: imgs) =
        (if gi.1.data = [] then [] else gi.2.map (fun id => (gi.1, id))) ++ runsOfImgs imgs := by
      simp [runsOfImgs]
    rw [e1, e2, encodeRuns_append, ih, encodeState_eq_runs]

/-- a call is its messages' states, one after the other -/
theorem encodeMsgs_eq_flatten (msgs : List (List (Img × List Nat))) : encodeMsgs msgs = encodeMsg msgs.flatten := by
  induction msgs with
  | nil => rfl
  | cons m ms ih =>
    have e1 : encodeMsgs (m :: ms) = encodeMsg m ++ encodeMsgs ms := by simp [encodeMsgs]
    have e2 : encodeMsg (m ++ ms.flatten) = encodeMsg m ++ encodeMsg ms.flatten := by simp [encodeMsg]
    rw [e1, List.flatten_cons, e2, ih]

theorem encodeMsgs_eq_runs (msgs : List (List (Img × List Nat))) :
    encodeMsgs msgs = encodeRuns (runsOfImgs msgs.flatten) := by
  rw [encodeMsgs_eq_flatten, encodeMsg_eq_runs]

/-- what the Spec is told was sent -/
def sentImgs (imgs : List (Img × List Nat)) : List (Spec.Gfx.Sent × List Nat) := imgs.map (fun gi => (sentOf gi.1, gi.2))

def sentRuns (runs : List (Img × Nat)) : List (Spec.Gfx.Sent × Nat) := runs.map (fun r => (sentOf r.1, r.2))

theorem sentOf_data_isEmpty (g : Img) : (sentOf g).data.isEmpty = decide (g.data = []) := by
  cases h : g.data with
  | nil => simp [sentOf, h]
  | cons _ _ => simp [sentOf, h]

theorem runsOf_sentImgs (imgs : List (Img × List Nat)) :
    Spec.Gfx.runsOf (sentImgs imgs) = sentRuns (runsOfImgs imgs) := by
  induction imgs with
  | nil => rfl
  | cons gi imgs ih =>
    have e1 : Spec.Gfx.runsOf (sentImgs (gi :: imgs)) =
        (if (sentOf gi.1).data.isEmpty then [] else gi.2.map (fun id => (sentOf gi.1, id))) ++
          Spec.Gfx.runsOf (sentImgs imgs) := by
      simp [Spec.Gfx.runsOf, sentImgs]
    have e2 : runsOfImgs (gi :: imgs) =
        (if gi.1.data = [] then [] else gi.2.map (fun id => (gi.1, id))) ++ runsOfImgs imgs := by
      simp [runsOfImgs]
    rw [e1, e2, ih, sentOf_data_isEmpty]
    by_cases h : gi.1.data = []
    · simp [h, sentRuns]
    · simp [h, sentRuns, List.map_map, Function.comp_def]

/-! ### the observation relation, each run with its own image -/

/-- per run: a group of graphics lines that is a clean run of the run's image for its id, and a delivery of that image
to that id at the group's last line, unaltered -/
inductive CleanObsR : List (Img × Nat) → List (List (Nat × Spec.Gfx.Chunk)) → List Spec.Gfx.Deliv → Prop where
  | nil : CleanObsR [] [] []
  | cons (g : Img) (id : Nat) (runs : List (Img × Nat)) (G : List (Nat × Spec.Gfx.Chunk))
      (grps : List (List (Nat × Spec.Gfx.Chunk))) (d : Spec.Gfx.Deliv) (ds : List Spec.Gfx.Deliv) (q : Nat)
      (c : Spec.Gfx.Chunk) (hlast : G.getLast? = some (q, c))
      (hrun : Spec.Gfx.isRun (sentOf g) (Spec.Gfx.decimal id) (G.map (·.2)) = true)
      (hsame : Spec.Gfx.sameImage (sentOf g) id d.img = true) (hpos : d.pos = some q) (hfin : d.final = g.data)
      (rest : CleanObsR runs grps ds) : CleanObsR ((g, id) :: runs) (G :: grps) (d :: ds)

theorem CleanObsR.length {runs grps ds} (h : CleanObsR runs grps ds) : grps.length = runs.length := by
  induction h with
  | nil => rfl
  | cons => simp [*]

theorem CleanObsR.runs {runs grps ds} (h : CleanObsR runs grps ds) :
    ∀ p ∈ grps.zip (sentRuns runs), Spec.Gfx.isRun p.2.1 (Spec.Gfx.decimal p.2.2) (p.1.map (·.2)) = true := by
  induction h with
  | nil => intro p hp; simp [sentRuns] at hp
  | cons g id runs G grps d ds q c hlast hrun hsame hpos hfin rest ih =>
    intro p hp
    have e : sentRuns ((g, id) :: runs) = (sentOf g, id) :: sentRuns runs := rfl
    rw [e, List.zip_cons_cons, List.mem_cons] at hp
    rcases hp with rfl | hp
    · exact hrun
    · exact ih p hp

theorem CleanObsR.loop {runs grps ds} (h : CleanObsR runs grps ds) :
    ∀ j, Spec.Gfx.cleanLoopAll (grps.zip (sentRuns runs)) ds j = none := by
  induction h with
  | nil => intro j; rfl
  | cons g id runs G grps d ds q c hlast hrun hsame hpos hfin rest ih =>
    intro j
    have e : sentRuns ((g, id) :: runs) = (sentOf g, id) :: sentRuns runs := rfl
    rw [e, List.zip_cons_cons]
    unfold Spec.Gfx.cleanLoopAll
    have hf : (d.final != (sentOf g).data) = false := by simp [hfin, sentOf]
    simp only [hsame, hf, hpos, hlast, Bool.not_true, Bool.false_eq_true, if_false, if_true]
    exact ih (j + 1)

/-- the Spec's two whole-call judgements follow -/
theorem checkCleanAll_of_obs (imgs : List (Spec.Gfx.Sent × List Nat)) (runs : List (Img × Nat))
    (hruns : Spec.Gfx.runsOf imgs = sentRuns runs) (lines : List Bytes)
    (grps : List (List (Nat × Spec.Gfx.Chunk))) (ds : List Spec.Gfx.Deliv)
    (hg : Spec.Gfx.groups (Spec.Gfx.gfxLines lines) = grps) (hobs : CleanObsR runs grps ds) :
    Spec.Gfx.cleanRunsAll imgs lines = true ∧ Spec.Gfx.checkCleanAll imgs lines ds = none := by
  have hcr : Spec.Gfx.cleanRunsAll imgs lines = true := by
    unfold Spec.Gfx.cleanRunsAll
    have hl : grps.length = (sentRuns runs).length := by rw [hobs.length]; simp [sentRuns]
    simp only [hg, hruns, hl, beq_self_eq_true, Bool.true_and, List.all_eq_true]
    intro p hp
    exact hobs.runs p hp
  refine ⟨hcr, ?_⟩
  unfold Spec.Gfx.checkCleanAll
  rw [hcr, hg, hruns]
  simp only [Bool.not_true, Bool.false_eq_true, if_false]
  exact hobs.loop 0

/-! ### the runs of a call, woven, from any state -/

/-- every run has an image whose fields fit the message types, at least one byte, and a `uint32` target id -/
def RunsOK (runs : List (Img × Nat)) : Prop := ∀ r ∈ runs, InRange r.1 ∧ r.1.data ≠ [] ∧ r.2 < 2 ^ 32

/-- **every list of runs, each with its own image, woven, from any state**: the Spec's groups of the history (as it is /
every line trimmed) and the deliveries of the batch call (from any locals `s0`) and of the streaming reader (from any
reader state `s`), positions counted from `k` -/
theorem runs_obs : ∀ (runs : List (Img × Nat)), RunsOK runs → ∀ (all : List Bytes), Weave (encodeRuns runs) all →
      ∀ (k : Nat) (s0 : BState) (s : RState),
      ∃ grps1 grps2,
        Spec.Gfx.groups (gfxFrom k all) = grps1 ∧ (∀ x xs, gfxFrom k all = x :: xs → x.2.idx = 0) ∧
        Spec.Gfx.groups (gfxFrom k (all.map trimSpace)) = grps2 ∧
        (∀ x xs, gfxFrom k (all.map trimSpace) = x :: xs → x.2.idx = 0) ∧
        CleanObsR runs grps1
          (delivsOf (Batch.runFrom Batch.step s0 k all).1.store (Batch.runFrom Batch.step s0 k all).2) ∧
        CleanObsR runs grps2 (delivsOfStream (Stream.runFrom Stream.parse s k all).2) := by
  have hf1 : ∀ o, Unrelated o → Spec.Gfx.parseLine ((fun x => x) o) = none :=
    fun o h => parseLine_none_of_parseLine? o h.1
  have hf2 : ∀ o, Unrelated o → Spec.Gfx.parseLine (trimSpace o) = none :=
    fun o h => parseLine_none_of_parseLine? _ h.2
  intro runs
  induction runs with
  | nil =>
    intro _ all w k s0 s
    have hu := weave_nil_unrelated all (by simpa [encodeRuns] using w)
    have e1 : gfxFrom k all = [] := gfxFrom_none all (fun l hl => hf1 l (hu l hl)) k
    have e2 : gfxFrom k (all.map trimSpace) = [] := gfxFrom_none _ (by
      intro l hl
      obtain ⟨o, ho, rfl⟩ := List.mem_map.mp hl
      exact hf2 o (hu o ho)) k
    refine ⟨[], [], by rw [e1]; rfl, by rw [e1]; intro x xs hx; simp at hx, by rw [e2]; rfl,
      by rw [e2]; intro x xs hx; simp at hx, ?_, ?_⟩
    · rw [delivsOf_nil_of_gfxOuts _ _ (run_unrelated all hu s0 k).2]; exact .nil
    · rw [stream_unrelated all hu s k]; exact .nil
  | cons r runs ih =>
    intro hok all w k s0 s
    obtain ⟨g, id⟩ := r
    obtain ⟨hr, h, hid⟩ := hok (g, id) (by simp)
    simp only [] at hr h hid
    have hv := validIds_dec id
    have hcl := chunkLines_snoc g (dec id) h
    generalize hinit : (List.range (totalLines g.data.length - 1)).map (chunkLine g (dec id) (totalLines g.data.length)) = init at hcl
    generalize hlastdef : chunkLine g (dec id) (totalLines g.data.length) (totalLines g.data.length - 1) = last at hcl
    have e : encodeRuns ((g, id) :: runs) = init ++ last :: encodeRuns runs := by
      rw [encodeRuns_cons]
      simp only []
      rw [hcl]; simp
    rw [e] at w
    obtain ⟨pre, all2, hall, w1, w2⟩ := weave_append_split _ _ w init last _ rfl
    have hsplit : all = (pre ++ [last]) ++ all2 := by rw [hall]; simp
    have hlen : (pre ++ [last]).length = pre.length + 1 := by simp
    -- batch: the first run
    obtain ⟨hnone, final, hstep, hget, hcur, hlt⟩ := run_init_last_cells g (dec id) hv hr h init last hcl s0 k
    obtain ⟨hw1, hw2⟩ := batch_weave init pre w1 s0 k k
    rw [hnone] at hw2
    -- streaming: the first run
    obtain ⟨hq, hl⟩ := stream_init_last g (dec id) hv hr h init last hcl s k
    have hst := stream_weave_state init pre w1 s s k k rfl
    have hh := stream_weave init pre w1 s s k k rfl
    rw [hq] at hh
    have hpre := delivs_nil_of_hits _ pre (stream_length _ _ _ _) hh
    obtain ⟨g1, g2, hg1, hh1, hg2, hh2, ob1, ob2⟩ :=
      ih (fun x hx => hok x (by simp [hx])) all2 w2 (k + pre.length + 1) final
        (Stream.parse (Stream.runFrom Stream.parse s k pre).1 last).1
    -- groups
    obtain ⟨pc1, rest1, c1, f1, z1, nz1, l1, r1⟩ :=
      gfxFrom_front (fun x => x) hf1 g id hr.ty h (fun _ _ => rfl) init pre last hcl w1 k
    obtain ⟨pc2, rest2, c2, f2, z2, nz2, l2, r2⟩ :=
      gfxFrom_front trimSpace hf2 g id hr.ty h (trimSpace_chunkLines g (dec id)) init pre last hcl w1 k
    rw [List.map_id'] at f1
    have G1 : gfxFrom k all = pc1 :: (rest1 ++ gfxFrom (k + pre.length + 1) all2) := by
      rw [hsplit, gfxFrom_append, f1, hlen]; simp [Nat.add_assoc]
    have G2 : gfxFrom k (all.map trimSpace) = pc2 :: (rest2 ++ gfxFrom (k + pre.length + 1) (all2.map trimSpace)) := by
      rw [hsplit, List.map_append, gfxFrom_append, f2, List.length_map, hlen]; simp [Nat.add_assoc]
    refine ⟨(pc1 :: rest1) :: g1, (pc2 :: rest2) :: g2, ?_, ?_, ?_, ?_, ?_, ?_⟩
    · rw [G1, groups_run rest1 _ nz1 hh1 pc1, hg1]
    · intro x xs hx; rw [G1] at hx; simp only [List.cons.injEq] at hx; rw [← hx.1]; exact z1
    · rw [G2, groups_run rest2 _ nz2 hh2 pc2, hg2]
    · intro x xs hx; rw [G2] at hx; simp only [List.cons.injEq] at hx; rw [← hx.1]; exact z2
    · -- batch deliveries
      have hrun : Batch.runFrom Batch.step s0 k all =
          ((Batch.runFrom Batch.step final (k + pre.length + 1) all2).1,
            (Batch.runFrom Batch.step s0 k pre).2 ++
              (⟨k + pre.length, .gfx (intExplode (dec id)) s0.store.length, final.store⟩ ::
                (Batch.runFrom Batch.step final (k + pre.length + 1) all2).2)) := by
        rw [hall, runFrom_append]
        simp only [Batch.runFrom, hw1, hstep]
      rw [hrun]
      simp only []
      rw [delivsOf_append, delivsOf_nil_of_gfxOuts _ _ hw2, List.nil_append]
      have ec : ∀ (x : Event) (xs : List Event), x :: xs = [x] ++ xs := fun _ _ => rfl
      rw [ec, delivsOf_append, delivsOf_single]
      have hstable := run_stable all2 final (k + pre.length + 1) hcur s0.store.length hlt
      refine .cons g id runs _ g1 _ _ (k + pre.length) c1 l1 r1 ?_ rfl ?_ ob1
      · simp only [hget]; exact sameImage_specImg g id hid
      · simp only [hstable, hget, received]
    · -- streaming deliveries
      have hrun : (Stream.runFrom Stream.parse s k all).2 =
          (Stream.runFrom Stream.parse s k pre).2 ++
            ((k + pre.length, (Stream.parse (Stream.runFrom Stream.parse s k pre).1 last).2) ::
              (Stream.runFrom Stream.parse (Stream.parse (Stream.runFrom Stream.parse s k pre).1 last).1
                (k + pre.length + 1) all2).2) := by
        rw [hall, stream_append]
        simp only [Stream.runFrom]
      rw [hrun]
      have ed : ∀ (a : List (Nat × List Seen)) x b, delivsOfStream (a ++ x :: b) =
          delivsOfStream a ++ seenDelivs x.1 x.2 ++ delivsOfStream b := by
        intro a x b; simp [delivsOfStream, List.flatMap_append]
      rw [ed, hpre, List.nil_append, parse_initRule _ _ hst last, hl]
      have hsd : seenDelivs (k + pre.length) [Seen.gfx (intExplode (dec id)) (received g) 1] =
          [{ pos := some (k + pre.length), img := specImg (intExplode (dec id)) (received g),
             final := (received g).data }] := rfl
      rw [hsd, List.singleton_append]
      rw [parse_initRule _ _ hst last] at ob2
      exact .cons g id runs _ g2 _ _ (k + pre.length) c2 l2 r2 (sameImage_specImg g id hid) rfl rfl ob2

/-- the images of a call fit the message types and the target ids are `uint32` -/
def ImgsOK (imgs : List (Img × List Nat)) : Prop := ∀ gi ∈ imgs, InRange gi.1 ∧ ∀ id ∈ gi.2, id < 2 ^ 32

theorem runsOK_of_imgsOK (imgs : List (Img × List Nat)) (h : ImgsOK imgs) : RunsOK (runsOfImgs imgs) := by
  intro r hr
  simp only [runsOfImgs, List.mem_flatMap] at hr
  obtain ⟨gi, hgi, hr⟩ := hr
  by_cases he : gi.1.data = []
  · simp [he] at hr
  · rw [if_neg he, List.mem_map] at hr
    obtain ⟨id, hid, rfl⟩ := hr
    exact ⟨(h gi hgi).1, he, (h gi hgi).2 id hid⟩

/-- the Spec-level clean-run statement for a whole call (any number of messages, states, formats, targets), woven with
unrelated lines, from any state of the batch decoder's locals, any state of the streaming reader and any serialised
reader state -/
theorem clean_msgs_any (msgs : List (List (Img × List Nat))) (hok : ImgsOK msgs.flatten)
    (all : List Bytes) (w : Weave (encodeMsgs msgs) all) (s0 : BState) (s : RState) (wire : Option Wire) :
    Spec.Gfx.cleanRunsAll (sentImgs msgs.flatten) all = true ∧
    Spec.Gfx.checkCleanAll (sentImgs msgs.flatten) all
      (delivsOf (Batch.runFrom Batch.step s0 0 all).1.store (Batch.runFrom Batch.step s0 0 all).2) = none ∧
    Spec.Gfx.cleanRunsAll (sentImgs msgs.flatten) (all.map trimSpace) = true ∧
    Spec.Gfx.checkCleanAll (sentImgs msgs.flatten) (all.map trimSpace)
      (delivsOfStream (Stream.runFrom Stream.parse s 0 all).2) = none ∧
    Spec.Gfx.checkCleanAll (sentImgs msgs.flatten) (all.map trimSpace)
      (delivsOfStream (Serial.runFrom Stream.parse wire 0 all).2) = none := by
  rw [encodeMsgs_eq_runs] at w
  have hro := runsOK_of_imgsOK _ hok
  have hruns := runsOf_sentImgs msgs.flatten
  obtain ⟨g1, g2, hg1, _, hg2, _, ob1, ob2⟩ := runs_obs _ hro all w 0 s0 s
  obtain ⟨g1', g2', _, _, hg2', _, _, ob2'⟩ := runs_obs _ hro all w 0 s0 (restore wire)
  rw [(serial_stream all wire 0).1]
  have k1 := checkCleanAll_of_obs _ _ hruns all g1 _ (by rw [gfxLines_eq]; exact hg1) ob1
  have k2 := checkCleanAll_of_obs _ _ hruns (all.map trimSpace) g2 _ (by rw [gfxLines_eq]; exact hg2) ob2
  have k3 := checkCleanAll_of_obs _ _ hruns (all.map trimSpace) g2' _ (by rw [gfxLines_eq]; exact hg2') ob2'
  exact ⟨k1.1, k1.2, k2.1, k2.2, k3.2⟩

/-! ### the encoder's output for a whole call -/

theorem encodeRuns_all_parse (runs : List (Img × Nat)) (hty : ∀ r ∈ runs, r.1.ty ≤ 2) :
    ∀ l ∈ encodeRuns runs, (Spec.Gfx.parseLine l).isSome = true := by
  intro l hl
  simp only [encodeRuns, List.mem_flatMap, chunkLines, List.mem_map, List.mem_range] at hl
  obtain ⟨r, hr, i, _, rfl⟩ := hl
  obtain ⟨c, hc, _⟩ := parseLine_chunkLine r.1 (dec r.2) (validIds_dec r.2) (hty r hr) (totalLines r.1.data.length) i
  rw [hc]; rfl

/-- the whole-call encoder check of the Spec passes on the model encoder's lines: only chunk lines, one clean run per
image (in message order) and id, each with its own image's format, metadata and bytes -/
theorem checkEncAll_encodeMsgs (msgs : List (List (Img × List Nat))) (hok : ImgsOK msgs.flatten) :
    Spec.Gfx.checkEncAll (sentImgs msgs.flatten) (encodeMsgs msgs) = none := by
  have hro := runsOK_of_imgsOK _ hok
  have hcr := (clean_msgs_any msgs hok (encodeMsgs msgs) (Weave.refl _) {} {} none).1
  unfold Spec.Gfx.checkEncAll
  have h1 : (encodeMsgs msgs).all (fun l => (Spec.Gfx.parseLine l).isSome) = true := by
    rw [List.all_eq_true, encodeMsgs_eq_runs]
    exact encodeRuns_all_parse _ (fun r hr => (hro r hr).1.ty)
  rw [h1, hcr]
  rfl

/-! ### erasing positions -/

theorem cleanLoopAll_erase : ∀ (zs : List (List (Nat × Spec.Gfx.Chunk) × (Spec.Gfx.Sent × Nat))) (ds : List Spec.Gfx.Deliv)
    (j : Nat), Spec.Gfx.cleanLoopAll zs ds j = none →
    Spec.Gfx.cleanLoopAll zs (ds.map (fun d => { d with pos := none })) j = none := by
  intro zs
  induction zs with
  | nil =>
    intro ds j h
    cases ds with
    | nil => rfl
    | cons _ _ => simp [Spec.Gfx.cleanLoopAll] at h
  | cons z zs ih =>
    intro ds j h
    obtain ⟨grp, r⟩ := z
    cases ds with
    | nil => simp [Spec.Gfx.cleanLoopAll] at h
    | cons d ds =>
      unfold Spec.Gfx.cleanLoopAll at h
      rw [List.map_cons]
      unfold Spec.Gfx.cleanLoopAll
      simp only []
      by_cases h1 : (!Spec.Gfx.sameImage r.1 r.2 d.img) = true
      · rw [if_pos h1] at h; exact absurd h (by simp)
      · rw [if_neg h1] at h ⊢
        by_cases h2 : (d.final != r.1.data) = true
        · rw [if_pos h2] at h; exact absurd h (by simp)
        · rw [if_neg h2] at h ⊢
          apply ih
          cases hp : d.pos with
          | none => rw [hp] at h; exact h
          | some p =>
            rw [hp] at h
            cases hl : grp.getLast? with
            | none => rw [hl] at h; exact h
            | some qc =>
              obtain ⟨q, c⟩ := qc
              rw [hl] at h
              simp only [] at h
              by_cases hpq : p = q
              · rw [if_pos hpq] at h; exact h
              · rw [if_neg hpq] at h; exact absurd h (by simp)

theorem checkCleanAll_erase (imgs : List (Spec.Gfx.Sent × List Nat)) (lines : List Bytes) (ds : List Spec.Gfx.Deliv)
    (h : Spec.Gfx.checkCleanAll imgs lines ds = none) :
    Spec.Gfx.checkCleanAll imgs lines (ds.map (fun d => { d with pos := none })) = none := by
  unfold Spec.Gfx.checkCleanAll at h ⊢
  split
  · rfl
  · rename_i hc
    rw [if_neg hc] at h
    exact cleanLoopAll_erase _ ds 0 h

/-! ### on a single image the whole-call predicates are the single-image predicates -/

theorem runsOf_single (g : Spec.Gfx.Sent) (ids : List Nat) :
    Spec.Gfx.runsOf [(g, ids)] = if g.data.isEmpty then [] else ids.map (fun id => (g, id)) := by
  simp [Spec.Gfx.runsOf]

theorem cleanRunsAll_single (g : Spec.Gfx.Sent) (ids : List Nat) (lines : List Bytes) :
    Spec.Gfx.cleanRunsAll [(g, ids)] lines = Spec.Gfx.cleanRuns g ids lines := by
  unfold Spec.Gfx.cleanRunsAll Spec.Gfx.cleanRuns
  rw [runsOf_single]
  by_cases h : g.data.isEmpty = true
  · simp only [h, if_true, List.length_nil, List.zip_nil_right, List.all_nil, Bool.and_true]
    cases Spec.Gfx.groups (Spec.Gfx.gfxLines lines) <;> simp
  · simp only [h, Bool.false_eq_true, if_false, List.length_map]
    congr 1
    rw [List.zip_map_right, List.all_map]
    rfl

theorem checkEncAll_single (g : Spec.Gfx.Sent) (ids : List Nat) (lines : List Bytes) :
    Spec.Gfx.checkEncAll [(g, ids)] lines = Spec.Gfx.checkEnc g ids lines := by
  unfold Spec.Gfx.checkEncAll Spec.Gfx.checkEnc
  rw [cleanRunsAll_single]

theorem cleanLoopAll_same (g : Spec.Gfx.Sent) : ∀ (grps : List (List (Nat × Spec.Gfx.Chunk))) (ids : List Nat)
    (ds : List Spec.Gfx.Deliv) (j : Nat),
    Spec.Gfx.cleanLoopAll (grps.zip (ids.map (fun id => (g, id)))) ds j = Spec.Gfx.cleanLoop g (grps.zip ids) ds j := by
  intro grps
  induction grps with
  | nil =>
    intro ids ds j
    cases ds <;> simp [Spec.Gfx.cleanLoopAll, Spec.Gfx.cleanLoop]
  | cons G grps ih =>
    intro ids ds j
    cases ids with
    | nil => cases ds <;> simp [Spec.Gfx.cleanLoopAll, Spec.Gfx.cleanLoop]
    | cons id ids =>
      rw [List.map_cons, List.zip_cons_cons, List.zip_cons_cons]
      cases ds with
      | nil => simp [Spec.Gfx.cleanLoopAll, Spec.Gfx.cleanLoop]
      | cons d ds =>
        unfold Spec.Gfx.cleanLoopAll Spec.Gfx.cleanLoop
        simp only [ih]

theorem checkCleanAll_single (g : Spec.Gfx.Sent) (ids : List Nat) (lines : List Bytes) (ds : List Spec.Gfx.Deliv) :
    Spec.Gfx.checkCleanAll [(g, ids)] lines ds = Spec.Gfx.checkClean g ids lines ds := by
  unfold Spec.Gfx.checkCleanAll Spec.Gfx.checkClean
  rw [cleanRunsAll_single]
  by_cases hc : Spec.Gfx.cleanRuns g ids lines = true
  · simp only [hc, Bool.not_true, Bool.false_eq_true, if_false]
    rw [runsOf_single]
    by_cases h : g.data.isEmpty = true
    · -- an empty image: no groups (clean), so both loops run on the empty list
      have hgs : Spec.Gfx.groups (Spec.Gfx.gfxLines lines) = [] := by
        unfold Spec.Gfx.cleanRuns at hc
        simp only [h, if_true] at hc
        cases hg : Spec.Gfx.groups (Spec.Gfx.gfxLines lines) with
        | nil => rfl
        | cons _ _ => rw [hg] at hc; simp at hc
      simp only [h, if_true, hgs, List.zip_nil_left]
      cases ds <;> simp [Spec.Gfx.cleanLoopAll, Spec.Gfx.cleanLoop]
    · simp only [h, Bool.false_eq_true, if_false]
      exact cleanLoopAll_same g _ ids ds 0
  · simp [hc]

end RawPanelVerif.Gfx
