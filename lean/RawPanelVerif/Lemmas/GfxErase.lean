import RawPanelVerif.Lemmas.GfxCor
/-!
C05: the batch call shows its caller a *list* of messages, not the lines at which they were created.  The Spec's
check for deliveries without positions (`Deliv.pos = none`) searches an assignment of strictly increasing line
positions itself.  This file proves that erasing the (ghost) positions of deliveries that pass the check with
positions keeps the check passing (`safetyLoop_erase`), so that the batch safety theorem can be stated about exactly
the observation the driver evaluates: positions unknown, the image as the caller reads it after the call returned.
-/
namespace RawPanelVerif.Gfx
open RawPanelVerif

/-! ### the start of a transfer is monotone in the position -/

theorem startOf_le (cs : List (Option Spec.Gfx.Chunk)) : ∀ p q, Spec.Gfx.startOf cs p = some q → q ≤ p := by
  intro p
  induction p with
  | zero =>
    intro q h
    simp only [Spec.Gfx.startOf] at h
    split at h
    · injection h with h; omega
    · exact absurd h (by simp)
  | succ p ih =>
    intro q h
    simp only [Spec.Gfx.startOf] at h
    split at h
    · injection h with h; omega
    · have := ih q h; omega

theorem startOf_mono (cs : List (Option Spec.Gfx.Chunk)) (p q : Nat) (hq : Spec.Gfx.startOf cs p = some q) :
    ∀ p' q', p ≤ p' → Spec.Gfx.startOf cs p' = some q' → q ≤ q' := by
  intro p'
  induction p' with
  | zero =>
    intro q' hle h
    have : p = 0 := by omega
    subst this
    rw [hq] at h; injection h with h; omega
  | succ r ih =>
    intro q' hle h
    rcases Nat.lt_or_ge p (r + 1) with hlt | hge
    · simp only [Spec.Gfx.startOf] at h
      split at h
      · injection h with h
        have := startOf_le cs p q hq
        omega
      · exact ih q' (by omega) h
    · have : p = r + 1 := by omega
      subst this
      rw [hq] at h; injection h with h; omega

theorem legitAt_start (cs : List (Option Spec.Gfx.Chunk)) (p p0 : Nat) (d : Spec.Gfx.Img)
    (h : Spec.Gfx.legitAt cs p d = some p0) : Spec.Gfx.startOf cs p = some p0 := by
  unfold Spec.Gfx.legitAt at h
  split at h
  · exact absurd h (by simp)
  · rename_i q hs
    have key : ∀ (c : Prop) [Decidable c], (if c then some q else none) = some p0 → q = p0 := by
      intro c _ hc
      split at hc
      · exact Option.some.inj hc
      · exact absurd hc (by simp)
    split at h
    · split at h
      · rw [hs, key _ h]
      · exact absurd h (by simp)
    · exact absurd h (by simp)

theorem legitAt_lt (cs : List (Option Spec.Gfx.Chunk)) (p p0 : Nat) (d : Spec.Gfx.Img)
    (h : Spec.Gfx.legitAt cs p d = some p0) : p < cs.length := by
  unfold Spec.Gfx.legitAt at h
  split at h
  · exact absurd h (by simp)
  · split at h
    · rename_i hp
      rcases Nat.lt_or_ge p cs.length with hlt | hge
      · exact hlt
      · rw [List.getElem?_eq_none hge] at hp; exact absurd hp (by simp)
    · exact absurd h (by simp)

/-! ### the Spec's search finds a position no later than any legitimate one -/

/-- the function `findLegit` searches with -/
def legitOK (cs : List (Option Spec.Gfx.Chunk)) (d : Spec.Gfx.Img) (ok : Nat → Bool) (p : Nat) : Option (Nat × Nat) :=
  match Spec.Gfx.legitAt cs p d with
  | some p0 => if ok p0 then some (p, p0) else none
  | none => none

theorem findLegit_eq (cs : List (Option Spec.Gfx.Chunk)) (d : Spec.Gfx.Img) (n frm : Nat) (ok : Nat → Bool) :
    Spec.Gfx.findLegit cs d n frm ok = ((List.range n).filter (· ≥ frm)).findSome? (legitOK cs d ok) := rfl

theorem legitOK_some (cs : List (Option Spec.Gfx.Chunk)) (d : Spec.Gfx.Img) (ok : Nat → Bool) (p p' q : Nat)
    (h : legitOK cs d ok p = some (p', q)) : p' = p ∧ Spec.Gfx.legitAt cs p d = some q ∧ ok q = true := by
  unfold legitOK at h
  split at h
  · rename_i p0 hl
    split at h
    · rename_i hok
      injection h with h
      injection h with h1 h2
      subst h1; subst h2
      exact ⟨rfl, hl, hok⟩
    · exact absurd h (by simp)
  · exact absurd h (by simp)

theorem candidates_sorted (n frm : Nat) : ((List.range n).filter (· ≥ frm)).Pairwise (· < ·) :=
  List.Pairwise.filter _ List.pairwise_lt_range

/-- if `d` is legitimate at `p ≥ frm` with an acceptable transfer, the search succeeds at some `p' ≤ p` -/
theorem findLegit_le (cs : List (Option Spec.Gfx.Chunk)) (d : Spec.Gfx.Img) (frm : Nat) (ok : Nat → Bool) (p q : Nat)
    (hl : Spec.Gfx.legitAt cs p d = some q) (hok : ok q = true) (hfrm : frm ≤ p) :
    ∃ p' q', Spec.Gfx.findLegit cs d cs.length frm ok = some (p', q') ∧ frm ≤ p' ∧ p' ≤ p ∧
      Spec.Gfx.legitAt cs p' d = some q' ∧ ok q' = true := by
  rw [findLegit_eq]
  have hmem : p ∈ (List.range cs.length).filter (· ≥ frm) := by
    simp only [List.mem_filter, List.mem_range, ge_iff_le, decide_eq_true_eq]
    exact ⟨legitAt_lt cs p q d hl, hfrm⟩
  have hfp : legitOK cs d ok p = some (p, q) := by simp [legitOK, hl, hok]
  cases hres : ((List.range cs.length).filter (· ≥ frm)).findSome? (legitOK cs d ok) with
  | none =>
    rw [List.findSome?_eq_none_iff] at hres
    have := hres p hmem
    rw [hfp] at this; exact absurd this (by simp)
  | some r =>
    obtain ⟨p', q'⟩ := r
    rw [List.findSome?_eq_some_iff] at hres
    obtain ⟨l1, a, l2, hsplit, hfa, hnone⟩ := hres
    obtain ⟨rfl, hla, hoka⟩ := legitOK_some cs d ok a p' q' hfa
    have hamem : p' ∈ (List.range cs.length).filter (· ≥ frm) := by rw [hsplit]; simp
    have hge : frm ≤ p' := by
      simp only [List.mem_filter, ge_iff_le, decide_eq_true_eq] at hamem; exact hamem.2
    refine ⟨p', q', rfl, hge, ?_, hla, hoka⟩
    have hs := candidates_sorted cs.length frm
    rw [hsplit] at hs hmem
    simp only [List.mem_append, List.mem_cons] at hmem
    rcases hmem with h1 | rfl | h2
    · have := hnone p h1; rw [hfp] at this; exact absurd this (by simp)
    · exact Nat.le_refl _
    · have := (List.pairwise_append.mp hs).2.1
      have := (List.pairwise_cons.mp this).1 p h2
      omega

/-! ### the Spec's loop on deliveries with positions: passing it is `Good` -/

theorem good_of_safetyLoop (cs : List (Option Spec.Gfx.Chunk)) (n : Nat) : ∀ (ds : List Spec.Gfx.Deliv) (j next : Nat)
    (used : List Nat), (∀ d ∈ ds, d.pos.isSome = true) → Spec.Gfx.safetyLoop cs n ds j next used = none →
    Good cs ds used := by
  intro ds
  induction ds with
  | nil => intro j next used _ _; exact Good.nil used
  | cons d ds ih =>
    intro j next used hp h
    obtain ⟨p, hpos⟩ := Option.isSome_iff_exists.mp (hp d (by simp))
    unfold Spec.Gfx.safetyLoop at h
    simp only [hpos] at h
    cases hl : Spec.Gfx.legitAt cs p d.img with
    | none => rw [hl] at h; exact absurd h (by simp)
    | some p0 =>
      rw [hl] at h
      simp only [] at h
      by_cases hu : used.contains p0 = true
      · rw [if_pos hu] at h; exact absurd h (by simp)
      · rw [if_neg hu] at h
        by_cases hf : (d.final != d.img.data) = true
        · rw [if_pos hf] at h; exact absurd h (by simp)
        · rw [if_neg hf] at h
          refine Good.cons d ds used p p0 hpos hl (by simpa using hu) (by simpa using hf)
            (ih (j + 1) next (p0 :: used) (fun d' hd' => hp d' (by simp [hd'])) h)

/-! ### erasing positions -/

def erasePos (d : Spec.Gfx.Deliv) : Spec.Gfx.Deliv := { d with pos := none }

/-- the deliveries carry strictly increasing positions, the first at least `lb` -/
def PosSorted : Nat → List Spec.Gfx.Deliv → Prop
  | _, [] => True
  | lb, d :: ds => ∃ p, d.pos = some p ∧ lb ≤ p ∧ PosSorted (p + 1) ds

theorem posSorted_mono : ∀ (ds : List Spec.Gfx.Deliv) (a b : Nat), a ≤ b → PosSorted b ds → PosSorted a ds := by
  intro ds a b hab h
  cases ds with
  | nil => trivial
  | cons d ds =>
    obtain ⟨p, h1, h2, h3⟩ := h
    exact ⟨p, h1, by omega, h3⟩

theorem posSorted_ge : ∀ (ds : List Spec.Gfx.Deliv) (lb : Nat), PosSorted lb ds →
    ∀ d ∈ ds, ∃ p, d.pos = some p ∧ lb ≤ p := by
  intro ds
  induction ds with
  | nil => intro lb _ d hd; simp at hd
  | cons x xs ih =>
    intro lb h d hd
    obtain ⟨p, h1, h2, h3⟩ := h
    simp only [List.mem_cons] at hd
    rcases hd with rfl | hd
    · exact ⟨p, h1, h2⟩
    · obtain ⟨p', h4, h5⟩ := ih (p + 1) h3 d hd
      exact ⟨p', h4, by omega⟩

/-- deliveries that pass the check with their positions — strictly increasing ones — pass it with the positions
erased: the Spec's greedy search takes, for each delivery, a position no later than the real one, whose transfer
starts no later than the real transfer, hence before the transfers of all later deliveries -/
theorem safetyLoop_erase (cs : List (Option Spec.Gfx.Chunk)) (ds : List Spec.Gfx.Deliv) (used : List Nat)
    (g : Good cs ds used) : ∀ (j next : Nat) (used' : List Nat), PosSorted next ds →
      (∀ d ∈ ds, ∀ q, transferOf cs d = some q → q ∉ used') →
      Spec.Gfx.safetyLoop cs cs.length (ds.map erasePos) j next used' = none := by
  induction g with
  | nil used => intro j next used' _ _; rfl
  | cons d ds used p p0 hpos hl hu hf hrest ih =>
    intro j next used' hsort hfree
    obtain ⟨p1, hp1, hnext, hsort'⟩ := hsort
    have : p1 = p := by rw [hpos] at hp1; injection hp1 with h; exact h.symm
    subst this
    have htr : transferOf cs d = some p0 := by simp [transferOf, hpos, hl]
    have hfree0 : p0 ∉ used' := hfree d (by simp) p0 htr
    obtain ⟨p', q', hfind, hge, hle, hl', hok'⟩ :=
      findLegit_le cs d.img next (fun x => !used'.contains x) p1 p0 hl (by simpa using hfree0) hnext
    have hfin : ((erasePos d).final != (erasePos d).img.data) = false := by simp [erasePos, hf]
    rw [List.map_cons]
    unfold Spec.Gfx.safetyLoop
    have e1 : (erasePos d).pos = none := rfl
    have e2 : (erasePos d).img = d.img := rfl
    simp only [e1, e2, hfind]
    rw [e2] at hfin
    simp only [hfin, Bool.false_eq_true, if_false]
    apply ih (j + 1) (p' + 1) (q' :: used') (posSorted_mono ds _ _ (by omega) hsort')
    intro d' hd' q hq hmem
    simp only [List.mem_cons] at hmem
    rcases hmem with rfl | hmem
    · -- the transfer found for `d` starts no later than `p0`, which is before the transfer of every later delivery
      obtain ⟨pd, hpd, hpdge⟩ := posSorted_ge ds (p1 + 1) hsort' d' hd'
      have hq' : Spec.Gfx.legitAt cs pd d'.img = some q := by simpa [transferOf, hpd] using hq
      have s1 := legitAt_start cs p' q d.img hl'
      have s2 := legitAt_start cs p1 p0 d.img hl
      have s3 := legitAt_start cs pd q d'.img hq'
      have m1 := startOf_mono cs p' q s1 p1 p0 hle s2
      have m2 := startOf_mono cs p1 p0 s2 pd q (by omega) s3
      obtain ⟨q2, hq2, hq2u⟩ := (good_transfers cs ds (p0 :: used) hrest).2 d' hd'
      rw [hq] at hq2; injection hq2 with hq2; subst hq2
      have : q ≠ p0 := fun e => hq2u (by rw [e]; simp)
      omega
    · exact hfree d' (by simp [hd']) q hq hmem

theorem map_erasePos_nil : ([] : List Spec.Gfx.Deliv).map erasePos = [] := rfl

/-! ### the batch call: positions of the events are increasing -/

theorem delivsOf_posSorted (step : BState → Bytes → BState × Option Out) (st : List Img) :
    ∀ (ls : List Bytes) (s : BState) (pos : Nat), PosSorted pos (delivsOf st (Batch.runFrom step s pos ls).2) := by
  intro ls
  induction ls with
  | nil => intro s pos; trivial
  | cons l ls ih =>
    intro s pos
    have hrest := ih (step s l).1 (pos + 1)
    simp only [Batch.runFrom]
    cases h2 : (step s l).2 with
    | none => simp only []; exact posSorted_mono _ _ _ (by omega) hrest
    | some o =>
      simp only [delivsOf, List.filterMap_cons]
      cases o with
      | other x => simp only []; exact posSorted_mono _ _ _ (by omega) hrest
      | gfx ids ref => exact ⟨pos, rfl, Nat.le_refl _, hrest⟩

/-! ### what the caller of the batch function observes -/

/-- the graphics messages of the returned list as the caller reads them after the call: no positions, the image
object's content at that time (which is also its final content).  This is, field by field, what
`Driver/Gfx.lean: delivsOf sec false` builds from the implementation's printed messages. -/
def observedOf (seens : List Seen) : List Spec.Gfx.Deliv :=
  seens.filterMap (fun s =>
    match s with
    | .gfx ids img _ => some { pos := none, img := specImg ids img, final := img.data }
    | .other _ => none)

theorem observedOf_gfx (ids : List Nat) (img : Img) (r : Nat) (ss : List Seen) :
    observedOf (.gfx ids img r :: ss) = { pos := none, img := specImg ids img, final := img.data } :: observedOf ss := rfl

theorem observedOf_other (l : Bytes) (ss : List Seen) : observedOf (.other l :: ss) = observedOf ss := rfl

theorem delivsOf_cons_gfx (final : List Img) (e : Event) (es : List Event) (ids : List Nat) (ref : Nat)
    (h : e.out = .gfx ids ref) :
    delivsOf final (e :: es) =
      { pos := some e.pos, img := specImg ids (e.snap.getD ref {}), final := (final.getD ref {}).data } ::
        delivsOf final es := by
  simp [delivsOf, h]

theorem delivsOf_cons_other (final : List Img) (e : Event) (es : List Event) (l : Bytes) (h : e.out = .other l) :
    delivsOf final (e :: es) = delivsOf final es := by
  simp [delivsOf, h]

/-- on a run in which no delivered object was altered, the caller's observation is the ghost deliveries with the
positions erased -/
theorem observed_eq_erase (final : List Img) (evs : List Event)
    (h : ∀ e ∈ evs, ∀ ids ref, e.out = .gfx ids ref → final.getD ref {} = e.snap.getD ref {}) :
    observedOf (evs.map (fun e => see final e.out)) = (delivsOf final evs).map erasePos := by
  induction evs with
  | nil => rfl
  | cons e es ih =>
    have ih' := ih (fun e' he' => h e' (by simp [he']))
    rw [List.map_cons]
    cases ho : e.out with
    | other x =>
      have e1 : see final (Out.other x) = Seen.other x := rfl
      rw [delivsOf_cons_other final e es x ho]
      simp only [ho, e1, observedOf_other]
      exact ih'
    | gfx ids ref =>
      have hs := h e (by simp) ids ref ho
      have e1 : see final (Out.gfx ids ref) = Seen.gfx ids (final.getD ref {}) ref := rfl
      rw [delivsOf_cons_gfx final e es ids ref ho, List.map_cons]
      simp only [ho, e1, observedOf_gfx]
      rw [ih', hs]
      rfl

end RawPanelVerif.Gfx
