import RawPanelVerif.Model.EncIn
import RawPanelVerif.Model.DecIn
import RawPanelVerif.Spec.GrammarIn
import RawPanelVerif.Lemmas.DecGfxDefs
import RawPanelVerif.Base.RegexAlts
import RawPanelVerif.Gen.Consts
/-!
# Closed facts of C02, evaluated by the kernel (`decide +kernel`), in their own file to keep Props/C02.lean fast

Definitions of the concrete witnesses (oracles, line lists, message lists, regex source literals) and, for every
evaluated statement of Props/C02.lean, the same statement under the name `<theorem>_fact` (Props/C02.lean carries the
docstrings and re-exports them under the property-theorem names).  Only Model/, Spec/, Base/ and Gen/ are imported: no
proof of another file is needed here.
-/
namespace RawPanelVerif.C02
open RawPanelVerif RawPanelVerif.Bytes RawPanelVerif.MsgIn RawPanelVerif.Model.In
open RawPanelVerif.Spec.In
open RawPanelVerif.DecGfx (noBlankImage)

def jsonStateLine : Bytes := asc "{\"HWCIDs\":[5,6],\"HWCMode\":{\"State\":4,\"BlinkPattern\":3}}"
def jsonArrayLine : Bytes := asc "[{\"FlowMessage\":1},null,{\"Command\":{\"ClearAll\":true}}]"

def jsonOracle : Oracles :=
  { netJson := fun _ => [],
    parseNet := fun _ => none,
    parseState := fun l => if l = jsonStateLine then { ids := [5, 6], mode := some { state := 4, blink := 3 } } else {},
    parseMsgs := fun l => if l = jsonArrayLine then [some { flow := 1 }, none, some { command := some { clearAll := true } }] else [] }

def jsonLines : List Bytes := [asc "HWC#1=4", jsonStateLine, asc "hello", jsonArrayLine, asc "HWCc#2=130"]

/-- decoder output as an `Option` (decidable equality) -/
def decoded (O : Oracles) (ls : List Bytes) : Option (List (Option InMsg)) :=
  match decInE O ls with
  | .ok ms => some ms
  | .error _ => none

/-- effects of the decoder's messages (two `nack`s stand for a panic, which no reader output equals) -/
def decodedEffects (O : Oracles) (ls : List Bytes) : List Effect :=
  match decInE O ls with
  | .ok ms => ms.flatMap effectsOfMsgOpt
  | .error _ => [.flow .nack, .flow .nack]

theorem example_fact_1 : inDomainLines jsonOracle jsonLines = true ∧ noBlankImage jsonOracle none jsonLines = true := by decide +kernel

/-- two transfers A, B woven as A0 B0 A1 B1 (all four lines well-formed) -/
def interleavedXfer : List Bytes :=
  [asc "HWCg#1=0/1,8x8:AAAA", asc "HWCg#2=0/1,8x8:AQID", asc "HWCg#1=1:AAAA", asc "HWCg#2=1:BAUG"]

theorem foreign_part_divergence_fact :
    interleavedXfer.all (fun l => classify default l == .wellFormed) = true ∧ inDomainLines default interleavedXfer = false ∧
    readInbound default interleavedXfer = [] ∧
    decodedEffects default interleavedXfer = [.setGfx 2 { kind := .mono, w := 8, h := 8, xy := none, data := [1, 2, 3, 4, 5, 6] }] := by
  decide +kernel

theorem foreign_format_divergence_fact :
    inDomainLines default [asc "HWCg#1=0/1,8x8:AAAA", asc "HWCgRGB#1=1:AQID", asc "HWCg#1=1:BAUG"] = false ∧
    readInbound default [asc "HWCg#1=0/1,8x8:AAAA", asc "HWCgRGB#1=1:AQID", asc "HWCg#1=1:BAUG"] = [] ∧
    decodedEffects default [asc "HWCg#1=0/1,8x8:AAAA", asc "HWCgRGB#1=1:AQID", asc "HWCg#1=1:BAUG"] =
      [.setGfx 1 { kind := .mono, w := 8, h := 8, xy := none, data := [0, 0, 0, 4, 5, 6] }] := by
  decide +kernel

theorem flag_letter_id_out_of_domain_behaviour_fact :
    classify default (asc "Flag#A=1") = .outside ∧ readInbound default [asc "Flag#A=1"] = [] ∧
    decoded default [asc "Flag#A=1"] = some [some (regMsg { reg := 1, id := asc "0", value := 1 })] ∧
    decoded default [asc "Flag#A7=0"] = some [some (regMsg { reg := 1, id := asc "0", value := 0 })] ∧
    decoded default [asc "Flag#7A=5"] = some [some (regMsg { reg := 1, id := asc "0", value := 1 })] := by
  decide +kernel

theorem example_fact_2 : classify default (asc "Flag#007=2") = .wellFormed ∧
    decoded default [asc "Flag#007=2"] = some [some (regMsg { reg := 1, id := asc "7", value := 1 })] ∧
    readInbound default [asc "Flag#007=2"] = [.reg .flag (asc "7") 1] := by decide +kernel

theorem numeric_overflow_out_of_domain_behaviour_fact :
    classify default (asc "HeartBeatTimer=4294967296") = .outside ∧
    decoded default [asc "HeartBeatTimer=4294967296"] = some [some (cmdOnly { setHeartBeatTimer := some 0 })] ∧
    decoded default [asc "SleepMode=4294967297"] = some [some (cmdOnly { setSleepMode := some 1 })] ∧
    decoded default [asc "SleepMode=2147483648"] = some [some (cmdOnly { setSleepMode := some (-2147483648) })] ∧
    decoded default [asc "HeartBeatTimer=99999999999999999999"] = some [some (cmdOnly { setHeartBeatTimer := some 4294967295 })] ∧
    decoded default [asc "HWC#1=99999999999999999999"] =
      some [some (stateMsg { ids := [1], mode := some { state := 15, output := true, blink := 15 } })] ∧
    readInbound default [asc "HeartBeatTimer=4294967296", asc "SleepMode=4294967297", asc "HWC#1=99999999999999999999"] = [] := by
  decide +kernel

theorem noncanonical_base64_out_of_domain_behaviour_fact :
    classify default (asc "HWCg#1=0/0,1x1:QR==") = .outside ∧
    decodedEffects default [asc "HWCg#1=0/0,1x1:QR=="] = [.setGfx 1 { kind := .mono, w := 1, h := 1, xy := none, data := [65] }] ∧
    readInbound default [asc "HWCg#1=0/0,1x1:QR=="] = [.setGfx 1 { kind := .mono, w := 1, h := 1, xy := none, data := [65] }] ∧
    classify default (asc "HWCg#1=0/0,1x1:QQ=") = .outside ∧
    decoded default [asc "HWCg#1=0/0,1x1:QQ="] = some [] ∧
    readInbound default [asc "HWCg#1=0/0,1x1:QQ="] = [.setGfx 1 { kind := .mono, w := 1, h := 1, xy := none, data := [] }] := by
  decide +kernel

/-- a fully populated 21-field text value -/
def fullText : List Bytes :=
  [asc "-12", asc "3", asc "45", asc "Title", asc "1", asc "L1", asc "L2", asc "34", asc "2", asc "1", asc "-100", asc "100",
   asc "-50", asc "50", [], asc "83", asc "228", asc "22", asc "1", asc "116", asc "13"]

theorem text_prefixes_fact : ∀ n ∈ List.range 22,
    textWellFormed (join 124 (fullText.take n)) = true ∧
    readText (join 124 (fullText.take n)) = some (normText (textOf (decText (join 124 (fullText.take n))))) := by
  decide +kernel

theorem example_fact_3 :
    decoded default [asc "HWCgRGB#4,5=0:AAEC", asc "HWCgRGB#4,5=1:", asc "HWCgRGB#4,5=2:AwQF"] =
      decoded default [asc "HWCgRGB#4,5=0/2,64x32:AAEC", asc "HWCgRGB#4,5=1:", asc "HWCgRGB#4,5=2:AwQF"] ∧
    decodedEffects default [asc "HWCgRGB#4,5=0:AAEC", asc "HWCgRGB#4,5=1:", asc "HWCgRGB#4,5=2:AwQF"] =
      readInbound default [asc "HWCgRGB#4,5=0/2,64x32:AAEC", asc "HWCgRGB#4,5=1:", asc "HWCgRGB#4,5=2:AwQF"] ∧
    readInbound default [asc "HWCgRGB#4,5=0:AAEC", asc "HWCgRGB#4,5=1:", asc "HWCgRGB#4,5=2:AwQF"] =
      [.setGfx 4 { kind := .rgb, w := 64, h := 32, xy := none, data := [0, 1, 2, 3, 4, 5] },
       .setGfx 5 { kind := .rgb, w := 64, h := 32, xy := none, data := [0, 1, 2, 3, 4, 5] }] := by
  decide +kernel

theorem enc_in_domain_flag_counterexample_fact :
    inDomainIn default [{ registers := [{ reg := 1, id := asc "4294967296", value := 1 }] }] = true ∧
    roundtripGuard [{ registers := [{ reg := 1, id := asc "4294967296", value := 1 }] }] = false ∧
    encIn default [{ registers := [{ reg := 1, id := asc "4294967296", value := 1 }] }] = [asc "Flag#4294967296=1"] ∧
    inDomainLines default [asc "Flag#4294967296=1"] = false ∧
    decodedEffects default [asc "Flag#4294967296=1"] = [.reg .flag (asc "4294967296") 1] := by
  decide +kernel

def hugeFlag : List InMsg := [{ registers := [{ reg := 1, id := asc "99999999999999999999", value := 1 }] }]

def badCal : List InMsg := [{ command := some { setCalibrationProfile := some [0xE2, 0x80, 10, 0x85, 0x41] } }]

theorem roundtrip_in_calibration_counterexample_fact :
    inDomainIn default badCal = true ∧ roundtripGuard badCal = false ∧
    encIn default badCal = [asc "SetCalibrationProfile=" ++ [0xE2, 0x80, 0x85, 0x41]] ∧
    inDomainLines default (encIn default badCal) = false ∧
    decodedEffects default (encIn default badCal) = [.cmd (.setCalibrationProfile [0x41])] ∧
    badCal.flatMap effectsOfIn = [.cmd (.setCalibrationProfile [0xE2, 0x80, 0x85, 0x41])] := by
  decide +kernel

/-- non-vacuity of the round trip: every section in one message list (two ids, all six state sections, a two-line
image, commands incl. a multi-line calibration payload, registers of all four kinds) -/
def rtSample : List InMsg :=
  [ { flow := 2,
      command := some { clearAll := true, panelBrightness := some (5, 7), setSleepMode := some 1,
                        setCalibrationProfile := some (asc "{\n  \"a\": 1\n}") },
      states := [ { ids := [3, 40],
                    mode := some { state := 4, output := true, blink := 9 },
                    color := some { rgb := some { red := 255, green := 128, blue := 0 } },
                    ext := some { interp := 3, value := 1000 },
                    text := some { integerValue := -12, formatting := 3, title := asc "Vol", solidHeaderBar := true,
                                   textline1 := asc "L1", textline2 := asc "L2", pairMode := 2,
                                   scale := some { scaleType := 1, rangeLow := -100, rangeHigh := 100 },
                                   textStyling := some { textFont := some { face := 2, height := 1, width := 3 }, fixedWidth := true },
                                   pixelColor := some { index := some 13 } },
                    gfx := some { imageType := 1, w := 8, h := 8, xyOffset := true, x := 2, y := 3,
                                  imageData := List.replicate 200 7 },
                    rawADC := some true } ],
      registers := [ { reg := 0, id := asc "A1", value := 9 }, { reg := 1, id := asc "012", value := 5 },
                     { reg := 2, id := [], value := 0 }, { reg := 3, id := asc "Z", value := 4294967295 } ] },
    { states := [ { ids := [7], text := some { formatting := 10 } } ] } ]

theorem example_fact_4 : inDomainIn default rtSample = true ∧ roundtripGuard rtSample = true := by decide +kernel

def src_cmd : String := "^(HWC#|HWCx#|HWCc#|HWCt#|HWCrawADCValues#)([0-9,]+)=(.*)$"
def src_gfx : String := "^(HWCgRGB#|HWCgGray#|HWCg#)([0-9,]+)=([0-9]+)(/([0-9]+),([0-9]+)x([0-9]+)(,([0-9]+),([0-9]+)|)|):(.*)$"
def src_genericDual : String := "^(PanelBrightness)=([0-9]+),([0-9]+)$"
def src_genericSingle : String := "^(HeartBeatTimer|DimmedGain|PublishSystemStat|LoadCPU|SleepTimer|SleepMode|SleepScreenSaver|Webserver|JSONonOutbound|PanelBrightness)=([0-9]+)$"
def src_genericSingleStr : String := "^(SetCalibrationProfile|SimulateEnvironmentalHealth|SetNetworkConfig)=(.*)$"
def src_registers : String := "^(Flag#|Mem|Shift|State)([A-Z0-9]*)=([0-9]+)$"

theorem regex_sources_tie_fact :
    Gen.regex_cmd_src = src_cmd ∧ Gen.regex_gfx_src = src_gfx ∧ Gen.regex_genericDual_src = src_genericDual ∧
    Gen.regex_genericSingle_src = src_genericSingle ∧ Gen.regex_genericSingleStr_src = src_genericSingleStr ∧
    Gen.regex_registers_src = src_registers := by
  decide +kernel

theorem regex_keywords_tie_fact :
    RegexAlts.altsOf Gen.regex_cmd_src 0 = kwCmd ∧ RegexAlts.altsOf Gen.regex_gfx_src 0 = kwGfx ∧
    RegexAlts.altsOf Gen.regex_genericSingle_src 0 = kwSingle ∧ RegexAlts.altsOf Gen.regex_genericSingleStr_src 0 = kwStr ∧
    RegexAlts.altsOf Gen.regex_registers_src 0 = kwReg ∧
    RegexAlts.altsOf Gen.regex_genericDual_src 0 = [asc "PanelBrightness"] := by
  decide +kernel

theorem regex_gfx_optional_groups_fact :
    RegexAlts.altsOf Gen.regex_gfx_src 3 = [asc "/([0-9]+),([0-9]+)x([0-9]+)(,([0-9]+),([0-9]+)|)", []] := by
  decide +kernel


theorem jsonLines_dom_fact : inDomainLines jsonOracle jsonLines = true := by decide +kernel
theorem jsonLines_nb_fact : DecGfx.noBlankImage jsonOracle none jsonLines = true := by decide +kernel
theorem jsonLines_effects_fact : readInbound jsonOracle jsonLines =
    [.setMode 1 { state := 4, output := false, blink := 0 }, .setMode 5 { state := 4, output := false, blink := 3 },
     .setMode 6 { state := 4, output := false, blink := 3 }, .flow .ping, .cmd .clearAll, .setColor 2 (.index 2)] := by decide +kernel
theorem hugeFlag_dom_fact : inDomainIn default hugeFlag = true := by decide +kernel
theorem hugeFlag_effects_fact : decodedEffects default (encIn default hugeFlag) = [.reg .flag (asc "9223372036854775807") 1] := by
  decide +kernel
theorem hugeFlag_ne_fact : ¬ ([Effect.reg .flag (asc "9223372036854775807") 1] = hugeFlag.flatMap effectsOfIn) := by decide +kernel
theorem rtSample_dom_fact : inDomainIn default rtSample = true := by decide +kernel
theorem rtSample_guard_fact : roundtripGuard rtSample = true := by decide +kernel
theorem rtSample_len_fact : (rtSample.flatMap effectsOfIn).length = 22 := by decide +kernel

end RawPanelVerif.C02
