import RawPanelVerif.Lemmas.GfxRead
/-!
C05: the Spec's independently written line grammar `Spec.Gfx.parseLine` and the decoder's own matcher (`readLine` =
`matchGfx` packaged as a chunk) agree on **every** byte string.

Both are shown to accept exactly the lines of one explicit `Shape` (prefix, id list, `=`, index, optional header,
`:`, payload without `\n`) and to read the same groups from it:

* `shape_of_match`, `match_of_shape`   `matchGfx l = some m ↔ Shape l m`
* `parse_of_shape`                     `Shape l m → Spec.Gfx.parseLine l = some (chunkOf m)`
* `shape_of_parse`                     `Spec.Gfx.parseLine l = some c → ∃ m, Shape l m`
* `parseLine_eq_readLine`              the agreement
-/
namespace RawPanelVerif.Gfx
open RawPanelVerif

/-! ### a byte not occurring in a string -/

/-- `b` does not occur in `s` -/
def noB (b : UInt8) (s : Bytes) : Bool := s.all (fun c => c != b)

theorem noB_nil (b : UInt8) : noB b [] = true := rfl

theorem noB_cons (b c : UInt8) (s : Bytes) : noB b (c :: s) = (c != b && noB b s) := rfl

theorem noB_append (b : UInt8) (x y : Bytes) : noB b (x ++ y) = (noB b x && noB b y) := by
  simp [noB]

theorem noB_of_all (p : UInt8 → Bool) (b : UInt8) (hb : p b = false) (s : Bytes) (h : s.all p = true) :
    noB b s = true := by
  simp only [noB, List.all_eq_true] at *
  intro c hc
  have := h c hc
  by_cases e : c = b
  · subst e; rw [hb] at this; exact absurd this (by decide)
  · simpa using e

theorem contains_eq_not_noB (b : UInt8) (s : Bytes) : s.contains b = !noB b s := by
  induction s with
  | nil => rfl
  | cons c cs ih =>
    rw [List.contains_cons, ih, noB_cons]
    by_cases e : c = b
    · subst e; simp
    · have e1 : (b == c) = false := by simpa using fun h : b = c => e h.symm
      have e2 : (c != b) = true := by simpa using e
      rw [e1, e2]; rfl

theorem tailOK_iff (p : Bytes) : tailOK p = noB 10 p := by
  unfold tailOK; rw [contains_eq_not_noB]; simp

/-! ### `cut` -/

theorem cut_first (b : UInt8) (a r : Bytes) (h : noB b a = true) : Spec.Gfx.cut b (a ++ b :: r) = some (a, r) := by
  induction a with
  | nil => simp [Spec.Gfx.cut]
  | cons c cs ih =>
    rw [noB_cons, Bool.and_eq_true] at h
    have e : ¬ c = b := by simpa using h.1
    simp [Spec.Gfx.cut, e, ih h.2]

theorem cut_none (b : UInt8) (s : Bytes) (h : noB b s = true) : Spec.Gfx.cut b s = none := by
  induction s with
  | nil => rfl
  | cons c cs ih =>
    rw [noB_cons, Bool.and_eq_true] at h
    have e : ¬ c = b := by simpa using h.1
    simp [Spec.Gfx.cut, e, ih h.2]

theorem cut_inv (b : UInt8) : ∀ (s x y : Bytes), Spec.Gfx.cut b s = some (x, y) → s = x ++ b :: y ∧ noB b x = true := by
  intro s
  induction s with
  | nil => intro x y h; simp [Spec.Gfx.cut] at h
  | cons c cs ih =>
    intro x y h
    unfold Spec.Gfx.cut at h
    split at h
    · rename_i e
      simp only [Option.some.injEq, Prod.mk.injEq] at h
      obtain ⟨rfl, rfl⟩ := h
      subst e
      exact ⟨rfl, rfl⟩
    · rename_i e
      split at h
      · rename_i x' y' hc
        simp only [Option.some.injEq, Prod.mk.injEq] at h
        obtain ⟨rfl, rfl⟩ := h
        obtain ⟨h1, h2⟩ := ih x' y' hc
        refine ⟨by rw [h1]; rfl, ?_⟩
        rw [noB_cons, h2]
        simpa using e
      · exact absurd h (by simp)

/-! ### `splitOn` -/

/-- the parts put together again with `b` between them -/
def joinB (b : UInt8) : List Bytes → Bytes
  | [] => []
  | [a] => a
  | a :: r :: rest => a ++ b :: joinB b (r :: rest)

theorem splitOn_ne_nil (b : UInt8) (s : Bytes) : Spec.Gfx.splitOn b s ≠ [] := by
  cases s with
  | nil => simp [Spec.Gfx.splitOn]
  | cons c cs =>
    unfold Spec.Gfx.splitOn
    split
    · simp
    · split <;> simp

theorem join_splitOn (b : UInt8) (s : Bytes) : joinB b (Spec.Gfx.splitOn b s) = s := by
  induction s with
  | nil => rfl
  | cons c cs ih =>
    unfold Spec.Gfx.splitOn
    split
    · rename_i e
      cases hs : Spec.Gfx.splitOn b cs with
      | nil => exact absurd hs (splitOn_ne_nil b cs)
      | cons p ps => rw [hs] at ih; simp [joinB, ih, e]
    · cases hs : Spec.Gfx.splitOn b cs with
      | nil => exact absurd hs (splitOn_ne_nil b cs)
      | cons p ps =>
        rw [hs] at ih
        cases ps with
        | nil => simp only [joinB] at ih ⊢; rw [ih]
        | cons q qs => simp only [joinB, List.cons_append] at ih ⊢; rw [ih]

theorem splitOn_noB (b : UInt8) (s : Bytes) (h : noB b s = true) : Spec.Gfx.splitOn b s = [s] := by
  induction s with
  | nil => rfl
  | cons c cs ih =>
    rw [noB_cons, Bool.and_eq_true] at h
    have e : ¬ c = b := by simpa using h.1
    simp [Spec.Gfx.splitOn, e, ih h.2]

theorem splitOn_append (b : UInt8) (a r : Bytes) (h : noB b a = true) :
    Spec.Gfx.splitOn b (a ++ b :: r) = a :: Spec.Gfx.splitOn b r := by
  induction a with
  | nil => simp [Spec.Gfx.splitOn]
  | cons c cs ih =>
    rw [noB_cons, Bool.and_eq_true] at h
    have e : ¬ c = b := by simpa using h.1
    simp [Spec.Gfx.splitOn, e, ih h.2]

/-! ### spans, prefixes -/

theorem spanP_eq (p : UInt8 → Bool) : ∀ (l a b : Bytes), spanP p l = (a, b) → l = a ++ b := by
  intro l
  induction l with
  | nil => intro a b h; simp [spanP] at h; obtain ⟨rfl, rfl⟩ := h; rfl
  | cons c cs ih =>
    intro a b h
    unfold spanP at h
    split at h
    · simp only [Prod.mk.injEq] at h
      obtain ⟨rfl, rfl⟩ := h
      have := ih _ _ rfl
      simp only [List.cons_append]
      rw [← this]
    · simp only [Prod.mk.injEq] at h
      obtain ⟨rfl, rfl⟩ := h
      rfl

theorem stripPrefix_inv : ∀ (p l r : Bytes), stripPrefix p l = some r → l = p ++ r := by
  intro p
  induction p with
  | nil => intro l r h; cases l <;> simp [stripPrefix] at h <;> simp [h]
  | cons a p ih =>
    intro l r h
    cases l with
    | nil => simp [stripPrefix] at h
    | cons b l =>
      unfold stripPrefix at h
      split at h
      · rename_i e; subst e; rw [ih l r h]; rfl
      · exact absurd h (by simp)

end RawPanelVerif.Gfx

namespace RawPanelVerif.Gfx

/-! ### the shape of a graphics line -/

/-- a non-empty string of digits -/
def IsNum (s : Bytes) : Prop := s ≠ [] ∧ s.all isDigit = true

/-- one of the three command prefixes, with the `#` -/
def IsPfx (g1 : Bytes) : Prop := g1 = pRGB ++ [35] ∨ g1 = pGray ++ [35] ∨ g1 = pHWCg ++ [35]

/-- the text between `=` and `:` — `index`, `index/last,WxH` or `index/last,WxH,X,Y` — and the groups it fills -/
inductive RhsShape : Bytes → Sub → Prop where
  | simple (g1 g2 g3 p : Bytes) (h3 : IsNum g3) : RhsShape g3 { g1, g2, g3, g11 := p }
  | hdr3 (g1 g2 g3 g5 g6 g7 p : Bytes) (h3 : IsNum g3) (h5 : IsNum g5) (h6 : IsNum g6) (h7 : IsNum g7) :
      RhsShape (g3 ++ 47 :: (g5 ++ 44 :: (g6 ++ 120 :: g7)))
        { g1, g2, g3, g4 := [47] ++ g5 ++ [44] ++ g6 ++ [120] ++ g7, g5, g6, g7, g11 := p }
  | hdr5 (g1 g2 g3 g5 g6 g7 g9 g10 p : Bytes) (h3 : IsNum g3) (h5 : IsNum g5) (h6 : IsNum g6) (h7 : IsNum g7)
      (h9 : IsNum g9) (h10 : IsNum g10) :
      RhsShape (g3 ++ 47 :: (g5 ++ 44 :: (g6 ++ 120 :: (g7 ++ 44 :: (g9 ++ 44 :: g10)))))
        { g1, g2, g3, g4 := [47] ++ g5 ++ [44] ++ g6 ++ [120] ++ g7 ++ [44] ++ g9 ++ [44] ++ g10, g5, g6, g7,
          g8 := [44] ++ g9 ++ [44] ++ g10, g9, g10, g11 := p }

/-- `l` is a graphics line with the groups `m` -/
def Shape (l : Bytes) (m : Sub) : Prop :=
  IsPfx m.g1 ∧ ValidIds m.g2 ∧ tailOK m.g11 = true ∧
    ∃ rhs, RhsShape rhs m ∧ l = m.g1 ++ (m.g2 ++ 61 :: (rhs ++ 58 :: m.g11))

/-! ### the matcher accepts exactly this shape -/

theorem digitsThen_inv (sep : UInt8) (l ds rest : Bytes) (h : digitsThen sep l = some (ds, rest)) :
    IsNum ds ∧ l = ds ++ sep :: rest := by
  unfold digitsThen at h
  split at h
  · rename_i ds' c rest' hsp
    split at h
    · rename_i hc
      simp only [Option.some.injEq, Prod.mk.injEq] at h
      obtain ⟨rfl, rfl⟩ := h
      obtain ⟨hne, rfl⟩ := hc
      exact ⟨⟨hne, spanP_fst_all _ _ _ _ hsp⟩, spanP_eq _ _ _ _ hsp⟩
    · exact absurd h (by simp)
  · exact absurd h (by simp)

theorem matchTail_shape (g1 g2 g3 r : Bytes) (m : Sub) (h3 : IsNum g3) (h : matchTail g1 g2 g3 r = some m) :
    m.g1 = g1 ∧ m.g2 = g2 ∧ tailOK m.g11 = true ∧ ∃ rhs, RhsShape rhs m ∧ g3 ++ r = rhs ++ 58 :: m.g11 := by
  unfold matchTail at h
  split at h
  · rename_i p
    split at h
    · rename_i hp
      injection h with h; subst h
      exact ⟨rfl, rfl, hp, g3, .simple g1 g2 g3 p h3, rfl⟩
    · exact absurd h (by simp)
  · rename_i r1
    split at h
    · exact absurd h (by simp)
    · rename_i g5 r2 hd5
      obtain ⟨h5, rfl⟩ := digitsThen_inv _ _ _ _ hd5
      split at h
      · exact absurd h (by simp)
      · rename_i g6 r3 hd6
        obtain ⟨h6, rfl⟩ := digitsThen_inv _ _ _ _ hd6
        split at h
        rename_i g7 r4 hsp7
        have e7 := spanP_eq _ _ _ _ hsp7
        have a7 := spanP_fst_all _ _ _ _ hsp7
        subst e7
        split at h
        · exact absurd h (by simp)
        · rename_i hne7
          have h7 : IsNum g7 := ⟨hne7, a7⟩
          split at h
          · rename_i p
            split at h
            · rename_i hp
              injection h with h; subst h
              exact ⟨rfl, rfl, hp, _, .hdr3 g1 g2 g3 g5 g6 g7 p h3 h5 h6 h7, by simp⟩
            · exact absurd h (by simp)
          · rename_i r5
            split at h
            · exact absurd h (by simp)
            · rename_i g9 r6 hd9
              obtain ⟨h9, rfl⟩ := digitsThen_inv _ _ _ _ hd9
              split at h
              · exact absurd h (by simp)
              · rename_i g10 p hd10
                obtain ⟨h10, rfl⟩ := digitsThen_inv _ _ _ _ hd10
                split at h
                · rename_i hp
                  injection h with h; subst h
                  exact ⟨rfl, rfl, hp, _, .hdr5 g1 g2 g3 g5 g6 g7 g9 g10 p h3 h5 h6 h7 h9 h10, by simp⟩
                · exact absurd h (by simp)
          · exact absurd h (by simp)
  · exact absurd h (by simp)

theorem matchAfterPrefix_shape (g1 r : Bytes) (m : Sub) (hp : IsPfx g1) (h : matchAfterPrefix g1 r = some m) :
    Shape (g1 ++ r) m := by
  unfold matchAfterPrefix at h
  split at h
  · rename_i g2 r1 hsp2
    have e2 := spanP_eq _ _ _ _ hsp2
    have a2 := spanP_fst_all _ _ _ _ hsp2
    subst e2
    split at h
    · exact absurd h (by simp)
    · rename_i hne2
      split at h
      rename_i g3 r2 hsp3
      have e3 := spanP_eq _ _ _ _ hsp3
      have a3 := spanP_fst_all _ _ _ _ hsp3
      subst e3
      split at h
      · exact absurd h (by simp)
      · rename_i hne3
        obtain ⟨e1, e2, ht, rhs, hrhs, hl⟩ := matchTail_shape g1 g2 g3 r2 m ⟨hne3, a3⟩ h
        refine ⟨by rw [e1]; exact hp, by rw [e2]; exact ⟨hne2, a2⟩, ht, rhs, hrhs, ?_⟩
        rw [e1, e2, ← hl]
  · exact absurd h (by simp)

theorem shape_of_match (l : Bytes) (m : Sub) (h : matchGfx l = some m) : Shape l m := by
  unfold matchGfx at h
  split at h
  · rename_i r hs
    rw [stripPrefix_inv _ _ _ hs]
    exact matchAfterPrefix_shape _ _ _ (Or.inl rfl) h
  · split at h
    · rename_i r hs
      rw [stripPrefix_inv _ _ _ hs]
      exact matchAfterPrefix_shape _ _ _ (Or.inr (Or.inl rfl)) h
    · split at h
      · rename_i r hs
        rw [stripPrefix_inv _ _ _ hs]
        exact matchAfterPrefix_shape _ _ _ (Or.inr (Or.inr rfl)) h
      · exact absurd h (by simp)

end RawPanelVerif.Gfx

namespace RawPanelVerif.Gfx

theorem digitsThen_num (sep : UInt8) (hs : isDigit sep = false) (g rest : Bytes) (h : IsNum g) :
    digitsThen sep (g ++ sep :: rest) = some (g, rest) := by
  unfold digitsThen
  rw [spanP_append isDigit g sep rest h.2 hs]
  simp [h.1]

theorem matchGfx_pfx (g1 rest : Bytes) (h : IsPfx g1) : matchGfx (g1 ++ rest) = matchAfterPrefix g1 rest := by
  rcases h with rfl | rfl | rfl
  · unfold matchGfx; rw [stripPrefix_append]
  · unfold matchGfx; rw [stripPrefix_append]; simp [stripPrefix, pRGB, pGray]
  · unfold matchGfx; rw [stripPrefix_append]; simp [stripPrefix, pRGB, pGray, pHWCg]

theorem matchAfterPrefix_front (g1 g2 g3 : Bytes) (hv : ValidIds g2) (h3 : IsNum g3) (c : UInt8) (t : Bytes)
    (hc : isDigit c = false) :
    matchAfterPrefix g1 (g2 ++ 61 :: (g3 ++ c :: t)) = matchTail g1 g2 g3 (c :: t) := by
  unfold matchAfterPrefix
  rw [spanP_append isIdChar g2 61 _ hv.2 (by decide)]
  simp only [hv.1, if_false]
  rw [spanP_append isDigit g3 c t h3.2 hc]
  simp [h3.1]

theorem match_of_shape (l : Bytes) (m : Sub) (h : Shape l m) : matchGfx l = some m := by
  obtain ⟨hp, hv, ht, rhs, hrhs, rfl⟩ := h
  rw [matchGfx_pfx _ _ hp]
  cases hrhs with
  | simple g1 g2 g3 p h3 =>
    simp only [] at ht hv ⊢
    rw [matchAfterPrefix_front g1 g2 rhs hv h3 58 p (by decide)]
    simp [matchTail, ht]
  | hdr3 g1 g2 g3 g5 g6 g7 p h3 h5 h6 h7 =>
    simp only [List.append_assoc, List.cons_append] at ht hv ⊢
    rw [matchAfterPrefix_front g1 g2 g3 hv h3 47 _ (by decide)]
    unfold matchTail
    simp only []
    rw [digitsThen_num 44 (by decide) g5 _ h5]
    simp only []
    rw [digitsThen_num 120 (by decide) g6 _ h6]
    simp only []
    rw [spanP_append isDigit g7 58 p h7.2 (by decide)]
    simp [h7.1, ht]
  | hdr5 g1 g2 g3 g5 g6 g7 g9 g10 p h3 h5 h6 h7 h9 h10 =>
    simp only [List.append_assoc, List.cons_append] at ht hv ⊢
    rw [matchAfterPrefix_front g1 g2 g3 hv h3 47 _ (by decide)]
    unfold matchTail
    simp only []
    rw [digitsThen_num 44 (by decide) g5 _ h5]
    simp only []
    rw [digitsThen_num 120 (by decide) g6 _ h6]
    simp only []
    rw [spanP_append isDigit g7 44 _ h7.2 (by decide)]
    simp only [h7.1, if_false]
    rw [digitsThen_num 44 (by decide) g9 _ h9]
    simp only []
    rw [digitsThen_num 58 (by decide) g10 _ h10]
    simp [ht]

theorem matchGfx_iff_shape (l : Bytes) (m : Sub) : matchGfx l = some m ↔ Shape l m :=
  ⟨shape_of_match l m, match_of_shape l m⟩

end RawPanelVerif.Gfx

namespace RawPanelVerif.Gfx

/-! ### the Spec's grammar reads this shape, with the same groups -/

def isRhsChar (c : UInt8) : Bool := isDigit c || c == 47 || c == 44 || c == 120

theorem all_rhs_of_num (g : Bytes) (h : IsNum g) : g.all isRhsChar = true := by
  have := h.2
  simp only [List.all_eq_true] at this ⊢
  intro c hc
  simp [isRhsChar, this c hc]

theorem RhsShape.chars (rhs : Bytes) (m : Sub) (h : RhsShape rhs m) : rhs.all isRhsChar = true := by
  cases h with
  | simple g1 g2 g3 p h3 => exact all_rhs_of_num _ h3
  | hdr3 g1 g2 g3 g5 g6 g7 p h3 h5 h6 h7 =>
    simp [List.all_append, all_rhs_of_num _ h3, all_rhs_of_num _ h5, all_rhs_of_num _ h6, all_rhs_of_num _ h7,
      isRhsChar]
  | hdr5 g1 g2 g3 g5 g6 g7 g9 g10 p h3 h5 h6 h7 h9 h10 =>
    simp [List.all_append, all_rhs_of_num _ h3, all_rhs_of_num _ h5, all_rhs_of_num _ h6, all_rhs_of_num _ h7,
      all_rhs_of_num _ h9, all_rhs_of_num _ h10, isRhsChar]

theorem pfx_facts (g1 : Bytes) (h : IsPfx g1) :
    ∃ cmd, g1 = cmd ++ [35] ∧ noB 35 cmd = true ∧ noB 61 cmd = true ∧ noB 58 cmd = true ∧ noB 10 cmd = true ∧
      Spec.Gfx.fmtOf cmd = some (typeOfPrefix g1) := by
  rcases h with rfl | rfl | rfl
  · exact ⟨pRGB, rfl, by decide, by decide, by decide, by decide, by decide⟩
  · exact ⟨pGray, rfl, by decide, by decide, by decide, by decide, by decide⟩
  · exact ⟨pHWCg, rfl, by decide, by decide, by decide, by decide, by decide⟩

theorem isNumber_of_num (g : Bytes) (h : IsNum g) : Spec.Gfx.isNumber g = true := by
  unfold Spec.Gfx.isNumber
  have : g.isEmpty = false := by cases g with | nil => exact absurd rfl h.1 | cons _ _ => rfl
  rw [this]
  exact h.2

theorem num_of_isNumber (g : Bytes) (h : Spec.Gfx.isNumber g = true) : IsNum g := by
  unfold Spec.Gfx.isNumber at h
  simp only [Bool.and_eq_true, Bool.not_eq_true'] at h
  refine ⟨?_, h.2⟩
  intro e; subst e; simp at h

theorem atoiNat_num (g : Bytes) (h : IsNum g) : atoiNat g = Spec.Gfx.value g := by
  unfold atoiNat
  have : g.isEmpty = false := by cases g with | nil => exact absurd rfl h.1 | cons _ _ => rfl
  simp [this, h.2, value_eq]

theorem noB_num (b : UInt8) (hb : isDigit b = false) (g : Bytes) (h : IsNum g) : noB b g = true :=
  noB_of_all isDigit b hb g h.2

theorem parseHeader3 (g5 g6 g7 : Bytes) (h5 : IsNum g5) (h6 : IsNum g6) (h7 : IsNum g7) :
    Spec.Gfx.parseHeader (g5 ++ 44 :: (g6 ++ 120 :: g7)) =
      some (⟨Spec.Gfx.value g5, Spec.Gfx.value g6, Spec.Gfx.value g7, none⟩,
        Spec.Gfx.fitsInt g5 && Spec.Gfx.fits32 g6 && Spec.Gfx.fits32 g7) := by
  unfold Spec.Gfx.parseHeader
  rw [splitOn_append 44 g5 _ (noB_num 44 (by decide) g5 h5), splitOn_noB 44 (g6 ++ 120 :: g7)
    (by simp [noB_append, noB_cons, noB_num 44 (by decide) g6 h6, noB_num 44 (by decide) g7 h7])]
  simp only []
  rw [cut_first 120 g6 g7 (noB_num 120 (by decide) g6 h6)]
  simp [isNumber_of_num _ h5, isNumber_of_num _ h6, isNumber_of_num _ h7]

theorem parseHeader5 (g5 g6 g7 g9 g10 : Bytes) (h5 : IsNum g5) (h6 : IsNum g6) (h7 : IsNum g7) (h9 : IsNum g9)
    (h10 : IsNum g10) :
    Spec.Gfx.parseHeader (g5 ++ 44 :: (g6 ++ 120 :: (g7 ++ 44 :: (g9 ++ 44 :: g10)))) =
      some (⟨Spec.Gfx.value g5, Spec.Gfx.value g6, Spec.Gfx.value g7, some (Spec.Gfx.value g9, Spec.Gfx.value g10)⟩,
        Spec.Gfx.fitsInt g5 && Spec.Gfx.fits32 g6 && Spec.Gfx.fits32 g7 && Spec.Gfx.fits32 g9 && Spec.Gfx.fits32 g10) := by
  unfold Spec.Gfx.parseHeader
  have e : g5 ++ 44 :: (g6 ++ 120 :: (g7 ++ 44 :: (g9 ++ 44 :: g10))) =
      g5 ++ 44 :: ((g6 ++ 120 :: g7) ++ 44 :: (g9 ++ 44 :: g10)) := by simp [List.append_assoc]
  rw [e, splitOn_append 44 g5 _ (noB_num 44 (by decide) g5 h5), splitOn_append 44 (g6 ++ 120 :: g7) _
    (by simp [noB_append, noB_cons, noB_num 44 (by decide) g6 h6, noB_num 44 (by decide) g7 h7]),
    splitOn_append 44 g9 _ (noB_num 44 (by decide) g9 h9), splitOn_noB 44 g10 (noB_num 44 (by decide) g10 h10)]
  simp only []
  rw [cut_first 120 g6 g7 (noB_num 120 (by decide) g6 h6)]
  simp [isNumber_of_num _ h5, isNumber_of_num _ h6, isNumber_of_num _ h7, isNumber_of_num _ h9,
    isNumber_of_num _ h10]

theorem fits32_eq : Spec.Gfx.fits32 = u32B := rfl

theorem fitsInt_eq : Spec.Gfx.fitsInt = intB := rfl

theorem parse_of_shape (l : Bytes) (m : Sub) (h : Shape l m) : Spec.Gfx.parseLine l = some (chunkOf m) := by
  obtain ⟨hp, hv, ht, rhs, hrhs, rfl⟩ := h
  obtain ⟨cmd, hg1, c35, c61, c58, c10, hfmt⟩ := pfx_facts _ hp
  have hch := RhsShape.chars _ _ hrhs
  have r58 : noB 58 rhs = true := noB_of_all isRhsChar 58 (by decide) _ hch
  have r10 : noB 10 rhs = true := noB_of_all isRhsChar 10 (by decide) _ hch
  have i61 : noB 61 m.g2 = true := noB_of_all isIdChar 61 (by decide) _ hv.2
  have i58 : noB 58 m.g2 = true := noB_of_all isIdChar 58 (by decide) _ hv.2
  have i10 : noB 10 m.g2 = true := noB_of_all isIdChar 10 (by decide) _ hv.2
  have i35 : noB 35 m.g2 = true := noB_of_all isIdChar 35 (by decide) _ hv.2
  have t10 : noB 10 m.g11 = true := by rw [← tailOK_iff]; exact ht
  have hcont : (m.g1 ++ (m.g2 ++ 61 :: (rhs ++ 58 :: m.g11))).contains 10 = false := by
    rw [contains_eq_not_noB, hg1]
    simp [noB_append, noB_cons, c10, i10, r10, t10]
  have hc58 : Spec.Gfx.cut 58 (m.g1 ++ (m.g2 ++ 61 :: (rhs ++ 58 :: m.g11))) =
      some (cmd ++ 35 :: m.g2 ++ 61 :: rhs, m.g11) := by
    have e : m.g1 ++ (m.g2 ++ 61 :: (rhs ++ 58 :: m.g11)) = (cmd ++ 35 :: m.g2 ++ 61 :: rhs) ++ 58 :: m.g11 := by
      rw [hg1]; simp [List.append_assoc]
    rw [e, cut_first]
    simp [noB_append, noB_cons, c58, i58, r58]
  have hc61 : Spec.Gfx.cut 61 (cmd ++ 35 :: m.g2 ++ 61 :: rhs) = some (cmd ++ 35 :: m.g2, rhs) := by
    rw [cut_first]
    simp [noB_append, noB_cons, c61, i61]
  have hc35 : Spec.Gfx.cut 35 (cmd ++ 35 :: m.g2) = some (cmd, m.g2) := cut_first _ _ _ c35
  have hne : m.g2.isEmpty = false := by
    cases hm : m.g2 with | nil => exact absurd hm hv.1 | cons _ _ => rfl
  have hall : m.g2.all (fun c => Spec.Gfx.isDigit c || c == 44) = true := hv.2
  unfold Spec.Gfx.parseLine
  simp only [hcont, hc58, hc61, hc35, hfmt, hne, hall, Bool.false_eq_true, if_false, Bool.not_true, or_self]
  cases hrhs with
  | simple g1 g2 g3 p h3 =>
    rw [cut_none 47 rhs (noB_num 47 (by decide) rhs h3)]
    simp only [isNumber_of_num _ h3, if_true, chunkOf, atoiNat_num _ h3, splitOn_eq, fits32_eq, fitsInt_eq]
    simp
  | hdr3 g1 g2 g3 g5 g6 g7 p h3 h5 h6 h7 =>
    rw [cut_first 47 g3 _ (noB_num 47 (by decide) g3 h3)]
    simp only [isNumber_of_num _ h3, if_true, parseHeader3 _ _ _ h5 h6 h7, chunkOf, atoiNat_num _ h3,
      atoiNat_num _ h5, atoiNat_num _ h6, atoiNat_num _ h7, splitOn_eq, fits32_eq, fitsInt_eq]
    simp
  | hdr5 g1 g2 g3 g5 g6 g7 g9 g10 p h3 h5 h6 h7 h9 h10 =>
    rw [cut_first 47 g3 _ (noB_num 47 (by decide) g3 h3)]
    simp only [isNumber_of_num _ h3, if_true, parseHeader5 _ _ _ _ _ h5 h6 h7 h9 h10, chunkOf, atoiNat_num _ h3,
      atoiNat_num _ h5, atoiNat_num _ h6, atoiNat_num _ h7, atoiNat_num _ h9, atoiNat_num _ h10, splitOn_eq,
      fits32_eq, fitsInt_eq]
    simp [Bool.and_assoc]

end RawPanelVerif.Gfx

namespace RawPanelVerif.Gfx

/-! ### every line the Spec's grammar accepts has this shape -/

theorem pfx_of_fmtOf (cmd : Bytes) (f : Nat) (h : Spec.Gfx.fmtOf cmd = some f) : IsPfx (cmd ++ [35]) := by
  unfold Spec.Gfx.fmtOf at h
  split at h
  · rename_i e; subst e; exact Or.inr (Or.inr rfl)
  · split at h
    · rename_i e; subst e; exact Or.inl rfl
    · split at h
      · rename_i e; subst e; exact Or.inr (Or.inl rfl)
      · exact absurd h (by simp)

theorem rhs_of_header (g1 g2 g3 p h : Bytes) (x : Spec.Gfx.Header × Bool) (h3 : IsNum g3)
    (hh : Spec.Gfx.parseHeader h = some x) :
    ∃ m, RhsShape (g3 ++ 47 :: h) m ∧ m.g1 = g1 ∧ m.g2 = g2 ∧ m.g11 = p := by
  unfold Spec.Gfx.parseHeader at hh
  have hj := join_splitOn 44 h
  split at hh
  · rename_i mm wh hs
    rw [hs] at hj
    split at hh
    · rename_i w hgt hc
      obtain ⟨rfl, _⟩ := cut_inv _ _ _ _ hc
      split at hh
      · rename_i hn
        obtain ⟨n1, n2, n3⟩ := hn
        have sh := RhsShape.hdr3 g1 g2 g3 mm w hgt p h3 (num_of_isNumber _ n1) (num_of_isNumber _ n2)
          (num_of_isNumber _ n3)
        rw [← hj]
        exact ⟨_, sh, rfl, rfl, rfl⟩
      · exact absurd hh (by simp)
    · exact absurd hh (by simp)
  · rename_i mm wh x y hs
    rw [hs] at hj
    split at hh
    · rename_i w hgt hc
      obtain ⟨rfl, _⟩ := cut_inv _ _ _ _ hc
      split at hh
      · rename_i hn
        obtain ⟨n1, n2, n3, n4, n5⟩ := hn
        have sh := RhsShape.hdr5 g1 g2 g3 mm w hgt x y p h3 (num_of_isNumber _ n1) (num_of_isNumber _ n2)
          (num_of_isNumber _ n3) (num_of_isNumber _ n4) (num_of_isNumber _ n5)
        rw [← hj]
        have e : g3 ++ 47 :: joinB 44 [mm, w ++ 120 :: hgt, x, y] =
            g3 ++ 47 :: (mm ++ 44 :: (w ++ 120 :: (hgt ++ 44 :: (x ++ 44 :: y)))) := by
          simp [joinB, List.append_assoc]
        rw [e]
        exact ⟨_, sh, rfl, rfl, rfl⟩
      · exact absurd hh (by simp)
    · exact absurd hh (by simp)
  · exact absurd hh (by simp)

theorem shape_of_parse (l : Bytes) (c : Spec.Gfx.Chunk) (h : Spec.Gfx.parseLine l = some c) : ∃ m, Shape l m := by
  unfold Spec.Gfx.parseLine at h
  split at h
  · exact absurd h (by simp)
  rename_i hcont
  split at h
  · exact absurd h (by simp)
  rename_i head payload hc58
  split at h
  · exact absurd h (by simp)
  rename_i lhs rhs hc61
  split at h
  · exact absurd h (by simp)
  rename_i cmd ids hc35
  split at h
  · exact absurd h (by simp)
  rename_i fmt hfmt
  split at h
  · exact absurd h (by simp)
  rename_i hids
  obtain ⟨rfl, _⟩ := cut_inv _ _ _ _ hc58
  obtain ⟨rfl, _⟩ := cut_inv _ _ _ _ hc61
  obtain ⟨rfl, _⟩ := cut_inv _ _ _ _ hc35
  have hp : IsPfx (cmd ++ [35]) := pfx_of_fmtOf cmd fmt hfmt
  have hv : ValidIds ids := by
    refine ⟨?_, ?_⟩
    · intro e; subst e; exact hids (Or.inl rfl)
    · show (ids.all fun c => Spec.Gfx.isDigit c || c == 44) = true
      cases hb : (ids.all fun c => Spec.Gfx.isDigit c || c == 44) with
      | true => rfl
      | false => exact absurd (Or.inr (by rw [hb]; rfl)) hids
  have ht : tailOK payload = true := by
    rw [contains_eq_not_noB] at hcont
    simp only [noB_append, noB_cons] at hcont
    rw [tailOK_iff]
    simp only [Bool.not_eq_true, Bool.not_eq_false', Bool.and_eq_true] at hcont
    exact hcont.2.2
  have key : ∀ m : Sub, RhsShape rhs m → m.g1 = cmd ++ [35] → m.g2 = ids → m.g11 = payload →
      Shape (cmd ++ 35 :: ids ++ 61 :: rhs ++ 58 :: payload) m := by
    intro m hm e1 e2 e3
    refine ⟨by rw [e1]; exact hp, by rw [e2]; exact hv, by rw [e3]; exact ht, rhs, hm, ?_⟩
    rw [e1, e2, e3]; simp [List.append_assoc]
  simp only [] at h
  split at h
  · split at h
    · rename_i hn
      exact ⟨{ g1 := cmd ++ [35], g2 := ids, g3 := rhs, g11 := payload },
        key _ (.simple _ _ _ _ (num_of_isNumber _ hn)) rfl rfl rfl⟩
    · exact absurd h (by simp)
  · rename_i i hh hc47
    obtain ⟨rfl, _⟩ := cut_inv _ _ _ _ hc47
    split at h
    · rename_i hn
      split at h
      · rename_i hd sm hph
        obtain ⟨m, hm, e1, e2, e3⟩ := rhs_of_header (cmd ++ [35]) ids i payload hh _ (num_of_isNumber _ hn) hph
        exact ⟨m, key m hm e1 e2 e3⟩
      · exact absurd h (by simp)
    · exact absurd h (by simp)

/-! ### the agreement -/

/-- the Spec's grammar and the decoder's matcher read every byte string the same way -/
theorem parseLine_eq_readLine (l : Bytes) : Spec.Gfx.parseLine l = readLine l := by
  unfold readLine
  cases hm : matchGfx l with
  | some m => rw [Option.map_some]; exact parse_of_shape l m (shape_of_match l m hm)
  | none =>
    rw [Option.map_none]
    cases hp : Spec.Gfx.parseLine l with
    | none => rfl
    | some c =>
      obtain ⟨m, hs⟩ := shape_of_parse l c hp
      rw [match_of_shape l m hs] at hm
      exact absurd hm (by simp)

end RawPanelVerif.Gfx
