import RawPanelVerif.Lemmas.LifecycleStep
/-! Invariant T of the lifecycle LTS: the clock.  Every history entry carries the time at which it was made; a
connection is established no earlier than the reconnect retry period after the disconnect callback before it. -/
namespace RawPanelVerif.Lifecycle

/-- the timed history, newest first -/
def tl (s : St) : List (Ev × Nat) := s.log.zip s.stamps

/-- time of the most recent disconnect callback in a timed history -/
def lastDisc : List (Ev × Nat) → Option Nat
  | [] => none
  | (.disconnect _, t) :: _ => some t
  | _ :: r => lastDisc r

/-- `t` is at least the retry period after the given disconnect time (if any) -/
def afterDisc (rc t : Nat) : Option Nat → Bool
  | none => true
  | some t0 => decide (t0 + rc ≤ t)

/-- every connection in the history was established at least `rc` after the disconnect callback before it -/
def redialOk (rc : Nat) : List (Ev × Nat) → Bool
  | [] => true
  | (.dial, t) :: r => afterDisc rc t (lastDisc r) && redialOk rc r
  | _ :: r => redialOk rc r

structure InvT (s : St) : Prop where
  mono : ∀ t ∈ s.stamps, t ≤ s.now
  sorted : (tl s).Pairwise (fun a b => b.2 ≤ a.2)
  ok : redialOk s.rc (tl s) = true
  sleeping : s.phase = .retrySleep → ∃ t0, lastDisc (tl s) = some t0 ∧ s.wake = t0 + s.rc
  slept : (s.phase = .dialing ∨ s.phase = .noConnWait) → afterDisc s.rc s.now (lastDisc (tl s)) = true

theorem invT_init (nc rc : Nat) : InvT (initWith nc rc) := by
  constructor <;> simp [initWith, tl, redialOk, lastDisc, afterDisc]

theorem afterDisc_mono {rc t t' : Nat} {o : Option Nat} (h : afterDisc rc t o = true) (ht : t ≤ t') : afterDisc rc t' o = true := by
  cases o with
  | none => rfl
  | some t0 => simp [afterDisc] at h ⊢; omega

/-- a step that leaves history, clock-relevant phase facts and configuration alone -/
theorem InvT.frame {s s' : St} (hi : InvT s) (hlog : s'.log = s.log) (hst : s'.stamps = s.stamps) (hnow : s.now ≤ s'.now)
    (hrc : s'.rc = s.rc)
    (hsl : s'.phase = .retrySleep → s.phase = .retrySleep ∧ s'.wake = s.wake)
    (hdl : (s'.phase = .dialing ∨ s'.phase = .noConnWait) → (s.phase = .dialing ∨ s.phase = .noConnWait)) : InvT s' := by
  have htl : tl s' = tl s := by simp [tl, hlog, hst]
  refine ⟨fun t ht => by rw [hst] at ht; exact Nat.le_trans (hi.mono t ht) hnow, by rw [htl]; exact hi.sorted,
    by rw [htl, hrc]; exact hi.ok, fun h => ?_, fun h => ?_⟩
  · obtain ⟨h1, h2⟩ := hsl h
    obtain ⟨t0, ht0, hw⟩ := hi.sleeping h1
    exact ⟨t0, by rw [htl]; exact ht0, by rw [h2, hrc]; exact hw⟩
  · rw [htl, hrc]; exact afterDisc_mono (hi.slept (hdl h)) hnow

/-- a step that adds the entry `e` (not a dial, not a disconnect) at the current time -/
theorem InvT.push {s s' : St} (hi : InvT s) (e : Ev) (hlog : s'.log = e :: s.log) (hst : s'.stamps = s.now :: s.stamps)
    (hnow : s'.now = s.now) (hrc : s'.rc = s.rc) (he1 : e ≠ .dial) (he2 : ∀ b, e ≠ .disconnect b)
    (hsl : s'.phase ≠ .retrySleep)
    (hdl : (s'.phase = .dialing ∨ s'.phase = .noConnWait) → (s.phase = .dialing ∨ s.phase = .noConnWait) ∨ (s.phase = .retrySleep ∧ s.wake ≤ s.now)) :
    InvT s' := by
  have htl : tl s' = (e, s.now) :: tl s := by simp [tl, hlog, hst]
  have hld : lastDisc ((e, s.now) :: tl s) = lastDisc (tl s) := by
    cases e <;> simp [lastDisc] at he2 ⊢
  refine ⟨fun t ht => ?_, ?_, ?_, fun h => absurd h hsl, fun h => ?_⟩
  · rw [hst] at ht; rw [hnow]
    simp at ht
    rcases ht with ht | ht
    · omega
    · exact hi.mono t ht
  · rw [htl]
    refine List.Pairwise.cons ?_ hi.sorted
    intro x hx
    exact hi.mono x.2 (List.of_mem_zip hx).2
  · rw [htl, hrc]
    cases e <;> simp [redialOk] at he1 ⊢ <;> exact hi.ok
  · rw [htl, hld, hrc, hnow]
    rcases hdl h with h | ⟨h1, h2⟩
    · exact hi.slept h
    · obtain ⟨t0, ht0, hw⟩ := hi.sleeping h1
      rw [ht0]; simp [afterDisc]; omega

theorem tl_push (s s2 : St) (e : Ev) (h1 : s2.log = e :: s.log) (h2 : s2.stamps = s.now :: s.stamps) :
    tl s2 = (e, s.now) :: tl s := by simp [tl, h1, h2]

theorem invT_step (ae : Bool) (s s' : St) (l : Lbl) (hi : InvT s) (hs : step ae s l = some s') : InvT s' := by
  cases l with
  | cancel => have := step_cancel hs; subst this; exact hi.frame rfl rfl (Nat.le_refl _) rfl (fun h => ⟨h, rfl⟩) id
  | offer => have := step_offer hs; subst this; exact hi.frame rfl rfl (Nat.le_refl _) rfl (fun h => ⟨h, rfl⟩) id
  | consumerStop => have := step_consumerStop hs; subst this; exact hi.frame rfl rfl (Nat.le_refl _) rfl (fun h => ⟨h, rfl⟩) id
  | consumerResume => have := step_consumerResume hs; subst this; exact hi.frame rfl rfl (Nat.le_refl _) rfl (fun h => ⟨h, rfl⟩) id
  | tick d => have := step_tick hs; subst this; exact hi.frame rfl rfl (Nat.le_add_right _ _) rfl (fun h => ⟨h, rfl⟩) id
  | dialFail =>
    obtain ⟨hp, rfl⟩ := step_dialFail hs
    exact hi.frame rfl rfl (Nat.le_refl _) rfl (by simp) (fun _ => Or.inl hp)
  | noConnTimer =>
    obtain ⟨hp, _, rfl⟩ := step_noConnTimer hs
    exact hi.frame rfl rfl (Nat.le_refl _) rfl (by simp) (fun _ => Or.inr hp)
  | noConnDrain =>
    obtain ⟨hp, _, rfl⟩ := step_noConnDrain hs
    exact hi.frame rfl rfl (Nat.le_refl _) rfl (by simp) (fun _ => Or.inr hp)
  | peerClose =>
    obtain ⟨c, rest, _, _, rfl⟩ := step_peerClose hs
    exact hi.frame rfl rfl (Nat.le_refl _) rfl (fun h => ⟨h, rfl⟩) id
  | byteArrive fin =>
    obtain ⟨c, rest, _, _, _, rfl⟩ := step_byteArrive hs
    exact hi.frame rfl rfl (Nat.le_refl _) rfl (fun h => ⟨h, rfl⟩) id
  | takeFrame =>
    obtain ⟨c, rest, _, _, _, _, _, rfl⟩ := step_takeFrame hs
    exact hi.frame rfl rfl (Nat.le_refl _) rfl (fun h => ⟨h, rfl⟩) id
  | spawnWriter =>
    obtain ⟨c, rest, _, hp, rfl⟩ := step_spawnWriter hs
    exact hi.frame rfl rfl (Nat.le_refl _) rfl (by simp) (by simp)
  | readErr =>
    obtain ⟨c, rest, _, hp, _, _, rfl⟩ := step_readErr hs
    exact hi.frame rfl rfl (Nat.le_refl _) rfl (by simp) (by simp)
  | readFault =>
    obtain ⟨c, rest, _, hp, _, _, _, _, _, rfl⟩ := step_readFault hs
    exact hi.frame rfl rfl (Nat.le_refl _) rfl (by simp) (by simp)
  | closeQuit =>
    obtain ⟨c, rest, _, hp, rfl⟩ := step_closeQuit hs
    exact hi.frame rfl rfl (Nat.le_refl _) rfl (by simp) (by simp)
  | connClose =>
    obtain ⟨c, rest, _, hp, rfl⟩ := step_connClose hs
    exact hi.frame rfl rfl (Nat.le_refl _) rfl (by simp) (by simp)
  | writerStart i =>
    obtain ⟨c, _, _, rfl⟩ := step_writerStart hs
    exact hi.frame rfl rfl (Nat.le_refl _) rfl (fun h => ⟨h, rfl⟩) id
  | writerSeesCancel i =>
    obtain ⟨c, _, _, _, rfl⟩ := step_writerSeesCancel hs
    exact hi.frame rfl rfl (Nat.le_refl _) rfl (fun h => ⟨h, rfl⟩) id
  | writerSeesQuit i =>
    obtain ⟨c, _, _, _, rfl⟩ := step_writerSeesQuit hs
    exact hi.frame rfl rfl (Nat.le_refl _) rfl (fun h => ⟨h, rfl⟩) id
  | writerTake i =>
    obtain ⟨c, _, _, _, rfl⟩ := step_writerTake hs
    exact hi.frame rfl rfl (Nat.le_refl _) rfl (fun h => ⟨h, rfl⟩) id
  | writeDone i =>
    obtain ⟨c, _, _, _, rfl⟩ := step_writeDone hs
    exact hi.frame rfl rfl (Nat.le_refl _) rfl (fun h => ⟨h, rfl⟩) id
  | writeErr i =>
    obtain ⟨c, _, _, _, rfl⟩ := step_writeErr hs
    exact hi.frame rfl rfl (Nat.le_refl _) rfl (fun h => ⟨h, rfl⟩) id
  | onConnect =>
    obtain ⟨hp, rfl⟩ := step_onConnect hs
    exact hi.push .connect rfl rfl rfl rfl (by simp) (by simp) (by simp) (by simp)
  | deliver =>
    obtain ⟨c, rest, _, hp, _, _, rfl⟩ := step_deliver hs
    exact hi.push (.deliver rest.length c.delivered) rfl rfl rfl rfl (by simp) (by simp) (by simp [hp]) (by simp [hp])
  | sleepDone =>
    obtain ⟨hp, hw, rfl⟩ := step_sleepDone hs
    exact hi.push .sleepDone rfl rfl rfl rfl (by simp) (by simp) (by simp) (fun _ => Or.inr ⟨hp, hw⟩)
  | ret =>
    obtain ⟨hp, rfl⟩ := step_ret hs
    exact hi.push .returned rfl rfl rfl rfl (by simp) (by simp) (by simp) (by simp)
  | dialOk bin =>
    obtain ⟨hp, rfl⟩ := step_dialOk hs
    refine ⟨fun t ht => ?_, ?_, ?_, by simp, by simp⟩
    · simp at ht
      rcases ht with ht | ht
      · subst ht; exact Nat.le_refl _
      · exact hi.mono t ht
    · rw [tl_push s _ .dial rfl rfl]
      refine List.Pairwise.cons ?_ hi.sorted
      intro x hx
      exact hi.mono x.2 (List.of_mem_zip hx).2
    · rw [tl_push s _ .dial rfl rfl]; simp only [redialOk, Bool.and_eq_true]; exact ⟨hi.slept (Or.inl hp), hi.ok⟩
  | onDisconnect b =>
    obtain ⟨c, rest, _, hp, _, rfl⟩ := step_onDisconnect hs
    refine ⟨fun t ht => ?_, ?_, ?_, fun _ => ⟨s.now, by rw [tl_push s _ (.disconnect b) rfl rfl]; simp [lastDisc], rfl⟩, fun h => by cases b <;> simp at h⟩
    · simp at ht
      rcases ht with ht | ht
      · subst ht; exact Nat.le_refl _
      · exact hi.mono t ht
    · rw [tl_push s _ (.disconnect b) rfl rfl]
      refine List.Pairwise.cons ?_ hi.sorted
      intro x hx
      exact hi.mono x.2 (List.of_mem_zip hx).2
    · rw [tl_push s _ (.disconnect b) rfl rfl]; simp only [redialOk]; exact hi.ok

theorem invT_reachable {ae : Bool} {s : St} (h : Reachable ae s) : InvT s := by
  induction h with
  | init nc rc => exact invT_init nc rc
  | step l _ hs ih => exact invT_step ae _ _ l ih hs

/-! ### reading the invariant -/

/-- in a time-sorted history the most recent disconnect is at least as late as any disconnect in it -/
theorem lastDisc_ge : ∀ (r : List (Ev × Nat)), r.Pairwise (fun a b => b.2 ≤ a.2) → ∀ b t0, (Ev.disconnect b, t0) ∈ r →
    ∃ t1, lastDisc r = some t1 ∧ t0 ≤ t1
  | [], _, b, t0, h => by simp at h
  | (e, t) :: r, hs, b, t0, h => by
    have hs' := List.pairwise_cons.mp hs
    by_cases he : ∃ b', e = .disconnect b'
    · obtain ⟨b', rfl⟩ := he
      refine ⟨t, by simp [lastDisc], ?_⟩
      simp at h
      rcases h with h | h
      · omega
      · exact hs'.1 _ h
    · have hne : ∀ b', e ≠ .disconnect b' := fun b' hb => he ⟨b', hb⟩
      have hm : (Ev.disconnect b, t0) ∈ r := by
        simp at h
        rcases h with h | h
        · exact absurd h.1.symm (hne b)
        · exact h
      have hl : lastDisc ((e, t) :: r) = lastDisc r := by cases e <;> simp [lastDisc] at hne ⊢
      rw [hl]; exact lastDisc_ge r hs'.2 b t0 hm

theorem redialOk_split (rc : Nat) : ∀ (pre post : List (Ev × Nat)) (t : Nat), redialOk rc (pre ++ (.dial, t) :: post) = true →
    afterDisc rc t (lastDisc post) = true
  | [], post, t, h => by simp [redialOk] at h; exact h.1
  | (e, t') :: pre, post, t, h => by
    have : redialOk rc (pre ++ (.dial, t) :: post) = true := by
      cases e <;> simp [redialOk] at h <;> first | exact h | exact h.2
    exact redialOk_split rc pre post t this

/-- the retry period and the no-connection period are never changed -/
theorem step_keeps_cfg {ae s s' l} (hs : step ae s l = some s') : s'.rc = s.rc ∧ s'.nc = s.nc := by
  cases l with
  | cancel => have := step_cancel hs; subst this; exact ⟨rfl, rfl⟩
  | offer => have := step_offer hs; subst this; exact ⟨rfl, rfl⟩
  | consumerStop => have := step_consumerStop hs; subst this; exact ⟨rfl, rfl⟩
  | consumerResume => have := step_consumerResume hs; subst this; exact ⟨rfl, rfl⟩
  | tick d => have := step_tick hs; subst this; exact ⟨rfl, rfl⟩
  | dialFail => obtain ⟨_, rfl⟩ := step_dialFail hs; exact ⟨rfl, rfl⟩
  | noConnTimer => obtain ⟨_, _, rfl⟩ := step_noConnTimer hs; exact ⟨rfl, rfl⟩
  | noConnDrain => obtain ⟨_, _, rfl⟩ := step_noConnDrain hs; exact ⟨rfl, rfl⟩
  | peerClose => obtain ⟨c, rest, _, _, rfl⟩ := step_peerClose hs; exact ⟨rfl, rfl⟩
  | byteArrive fin => obtain ⟨c, rest, _, _, _, rfl⟩ := step_byteArrive hs; exact ⟨rfl, rfl⟩
  | takeFrame => obtain ⟨c, rest, _, _, _, _, _, rfl⟩ := step_takeFrame hs; exact ⟨rfl, rfl⟩
  | spawnWriter => obtain ⟨c, rest, _, _, rfl⟩ := step_spawnWriter hs; exact ⟨rfl, rfl⟩
  | readErr => obtain ⟨c, rest, _, _, _, _, rfl⟩ := step_readErr hs; exact ⟨rfl, rfl⟩
  | readFault => obtain ⟨c, rest, _, _, _, _, _, _, _, rfl⟩ := step_readFault hs; exact ⟨rfl, rfl⟩
  | closeQuit => obtain ⟨c, rest, _, _, rfl⟩ := step_closeQuit hs; exact ⟨rfl, rfl⟩
  | connClose => obtain ⟨c, rest, _, _, rfl⟩ := step_connClose hs; exact ⟨rfl, rfl⟩
  | writerStart i => obtain ⟨c, _, _, rfl⟩ := step_writerStart hs; exact ⟨rfl, rfl⟩
  | writerSeesCancel i => obtain ⟨c, _, _, _, rfl⟩ := step_writerSeesCancel hs; exact ⟨rfl, rfl⟩
  | writerSeesQuit i => obtain ⟨c, _, _, _, rfl⟩ := step_writerSeesQuit hs; exact ⟨rfl, rfl⟩
  | writerTake i => obtain ⟨c, _, _, _, rfl⟩ := step_writerTake hs; exact ⟨rfl, rfl⟩
  | writeDone i => obtain ⟨c, _, _, _, rfl⟩ := step_writeDone hs; exact ⟨rfl, rfl⟩
  | writeErr i => obtain ⟨c, _, _, _, rfl⟩ := step_writeErr hs; exact ⟨rfl, rfl⟩
  | onConnect => obtain ⟨_, rfl⟩ := step_onConnect hs; exact ⟨rfl, rfl⟩
  | deliver => obtain ⟨c, rest, _, _, _, _, rfl⟩ := step_deliver hs; exact ⟨rfl, rfl⟩
  | sleepDone => obtain ⟨_, _, rfl⟩ := step_sleepDone hs; exact ⟨rfl, rfl⟩
  | ret => obtain ⟨_, rfl⟩ := step_ret hs; exact ⟨rfl, rfl⟩
  | dialOk bin => obtain ⟨_, rfl⟩ := step_dialOk hs; exact ⟨rfl, rfl⟩
  | onDisconnect b => obtain ⟨c, rest, _, _, _, rfl⟩ := step_onDisconnect hs; exact ⟨rfl, rfl⟩

theorem run_keeps_cfg (ae : Bool) : ∀ (ls : List Lbl) (s s' : St), run ae s ls = some s' → s'.rc = s.rc ∧ s'.nc = s.nc
  | [], s, s', h => by simp [run] at h; subst h; exact ⟨rfl, rfl⟩
  | l :: ls, s, s', h => by
    simp only [run] at h
    cases hst : step ae s l with
    | none => simp [hst] at h
    | some s1 =>
      simp [hst] at h
      have h1 := step_keeps_cfg hst
      have h2 := run_keeps_cfg ae ls s1 s' h
      exact ⟨h2.1.trans h1.1, h2.2.trans h1.2⟩

end RawPanelVerif.Lifecycle
