import RawPanelVerif.Lemmas.DecGfxDefs
import RawPanelVerif.Lemmas.DecSound3
/-! C02 `dec_sound`, graphics lines, part 1: one step of the decoder's chunk reassembly (`decGfx`, repaired semantics)
against one step of the reference reader's transfer state (`stepGfx`), under the correspondence `Inv`. -/
namespace RawPanelVerif.DecGfx
open RawPanelVerif RawPanelVerif.Bytes RawPanelVerif.MsgIn RawPanelVerif.Model.In RawPanelVerif.Spec.In
open RawPanelVerif.DecSound

theorem decGfx_closed (g : GfxSt) (l kw ids idx hdr mx w h xy x y d : Bytes) :
    decGfx false g [l, kw, ids, idx, hdr, mx, w, h, xy, x, y, d] =
      .ok (gfxAccept (gfxOpen g kw ids idx hdr mx w h xy x y) kw ids idx d) := by
  unfold decGfx gfxOpen
  simp only [sub, bind, Except.bind, pure, Except.pure, List.getElem?_cons_succ, List.getElem?_cons_zero]
  by_cases h0 : atoiV idx = 0
  · rw [if_pos h0, if_pos h0]
    by_cases hh : hdr.length > 0
    · rw [if_pos hh, if_pos hh]
      simp only [Bool.false_eq_true, if_false]
      unfold gfxAccept
      simp only []
      split <;> (try split) <;> (try split) <;> (try split) <;> rfl
    · rw [if_neg hh, if_neg hh]
      simp only [Bool.false_eq_true, if_false]
      unfold gfxAccept
      simp only []
      split <;> (try split) <;> (try split) <;> (try split) <;> rfl
  · rw [if_neg h0, if_neg h0]
    simp only [Bool.false_eq_true, if_false]
    unfold gfxAccept
    simp only []
    split <;> (try split) <;> (try split) <;> (try split) <;> rfl

def gfxE (t : Xfer) : GfxE := { kind := t.kind, w := t.w, h := t.h, xy := t.xy, data := t.data }

theorem gfxKindOf_codeOf (k : GfxKind) : gfxKindOf (codeOf k) = k := by cases k <;> rfl
theorem i32_codeOf (k : GfxKind) : i32 (codeOf k) = codeOf k := by cases k <;> rfl

theorem gfxOf_tempOf (t : Xfer) : gfxOf (tempOf t) = gfxE t := by
  unfold gfxOf tempOf gfxE
  simp only [gfxKindOf_codeOf]
  cases hxy : t.xy with
  | none => simp
  | some q => obtain ⟨a, b⟩ := q; simp [xyX, xyY]

theorem tempOf_default (t : Xfer) : tempOf t = {} ↔ gfxE t = blankGfx := by
  unfold tempOf gfxE blankGfx
  cases hk : t.kind <;> cases hxy : t.xy <;> simp [codeOf, xyX, xyY]

theorem filter_blank (ids : List Nat) (E : GfxE) :
    (ids.map (fun id => Effect.setGfx id E)).filter (fun e => !isBlankEffect e) =
      if E = blankGfx then [] else ids.map (fun id => Effect.setGfx id E) := by
  induction ids with
  | nil => simp
  | cons a as ih =>
    simp only [List.map_cons, List.filter_cons, isBlankEffect]
    by_cases h : E = blankGfx
    · rw [if_pos h] at ih ⊢
      simp [h]
    · rw [if_neg h] at ih ⊢
      have : (E == blankGfx) = false := by simpa using h
      simp [this]

theorem effects_gfx (idl : List Nat) (G : Gfx) :
    effectsOfIn (stateMsg { ids := idl, gfx := some G }) = if G = {} then [] else idl.map (fun id => Effect.setGfx id (gfxOf G)) := by
  rw [C02kern.effects_stateMsg]
  unfold effectsOfState effectsOfStateId
  simp only [opt, List.nil_append, List.append_nil]
  by_cases h : G = {}
  · rw [if_pos h]; simp [h]
  · rw [if_neg h]; simp only [if_neg h]; exact C02kern.flatMap_singleton idl _

theorem effects_delivered (t : Xfer) :
    effectsOfIn (stateMsg { ids := t.ids, gfx := some (tempOf t) }) =
      (t.ids.map (fun id => Effect.setGfx id (gfxE t))).filter (fun e => !isBlankEffect e) := by
  rw [effects_gfx, filter_blank, gfxOf_tempOf]
  by_cases h : gfxE t = blankGfx
  · rw [if_pos h, if_pos ((tempOf_default t).mpr h)]
  · rw [if_neg h, if_neg (fun e => h ((tempOf_default t).mp e))]

/-- acceptance of a part by an open transfer, decoder side -/
theorem accept_step (st : GfxSt) (t : Xfer) (p : GfxPart) (kw ids idx d : Bytes)
    (hinv : Inv st (some t)) (hk : gfxTypeOf kw = codeOf p.kind) (hids : ids = p.idsText)
    (hidx : atoiV idx = (p.index : Int)) (hdat : p.data = B64In.decode d) (hok : (B64.decodeGo d).2 = true)
    (hcond : t.kind = p.kind ∧ t.idsText = p.idsText ∧ t.next = p.index) :
    gfxAccept st kw ids idx d =
      if p.index = t.last then
        ({ st with count := st.count + 1, temp := {}, hwcList := [] },
          some (stateMsg { ids := t.ids, gfx := some (tempOf { t with data := t.data ++ p.data }) }))
      else ({ st with count := st.count + 1, temp := tempOf { t with next := t.next + 1, data := t.data ++ p.data } }, none) := by
  obtain ⟨ha, h1, h2, h3, h4, h5, h6⟩ := hinv
  obtain ⟨c1, c2, c3⟩ := hcond
  unfold gfxAccept
  rw [if_pos (by rw [h4, hk, c1]), if_pos (by rw [h1, hids, c2]), if_pos ⟨by rw [hidx, h2, c3], hok⟩]
  have e : (atoiV idx = st.max) ↔ (p.index = t.last) := by rw [hidx, h3]; omega
  have ht : ∀ nx, { st.temp with imageData := st.temp.imageData ++ B64In.decode d } =
      tempOf { t with next := nx, data := t.data ++ p.data } := by
    intro nx
    rw [h5, hdat]; rfl
  by_cases hl : p.index = t.last
  · rw [if_pos (e.mpr hl), if_pos hl, ht t.next, h1, h6]
  · rw [if_neg (fun h => hl (e.mp h)), if_neg hl, ht (t.next + 1)]

theorem inv_continue (st : GfxSt) (t : Xfer) (dat : Bytes) (hinv : Inv st (some t)) :
    Inv { st with count := st.count + 1, temp := tempOf { t with next := t.next + 1, data := dat } }
      (some { t with next := t.next + 1, data := dat }) := by
  obtain ⟨ha, h1, h2, h3, h4, h5, h6⟩ := hinv
  refine ⟨ha, h1, ?_, h3, h4, rfl, h6⟩
  show st.count + 1 + 1 = ((t.next + 1 : Nat) : Int)
  omega

theorem inv_closed (st : GfxSt) (c : Int) (ha : st.alias = none) : Inv { st with count := c, temp := {}, hwcList := [] } none :=
  ⟨ha, rfl⟩

/-- what the reader does with a part once the transfer `t` it belongs to is known -/
def stepOn (t : Xfer) (p : GfxPart) : Option Xfer × List Effect :=
  if p.index = t.last then
    (none, t.ids.map (fun id => Effect.setGfx id { kind := t.kind, w := t.w, h := t.h, xy := t.xy, data := t.data ++ p.data }))
  else (some { t with next := t.next + 1, data := t.data ++ p.data }, [])

theorem open_key (g : GfxSt) (x : Option Xfer) (p : GfxPart) (kw ids idx hdr mx w h xy xx yy : Bytes)
    (hk : gfxTypeOf kw = codeOf p.kind) (hids : ids = p.idsText) (hex : intExplode ids = p.ids)
    (hidx : atoiV idx = (p.index : Int))
    (hhdr : (hdr = [] ∧ p.header = none) ∨
     (∃ MX W H : Nat, hdr ≠ [] ∧ atoiV mx = (MX : Int) ∧ u32 (atoiV w) = W ∧ u32 (atoiV h) = H ∧
        ((xy = [] ∧ xx = [] ∧ yy = [] ∧ p.header = some (MX, W, H, none)) ∨
         (∃ X Y : Nat, xy ≠ [] ∧ u32 (atoiV xx) = X ∧ u32 (atoiV yy) = Y ∧ p.header = some (MX, W, H, some (X, Y))))))
    (hinv : Inv g x) (hdisc : stepGfx x p ≠ (none, [])) :
    ∃ t : Xfer, Inv (gfxOpen g kw ids idx hdr mx w h xy xx yy) (some t) ∧
      (t.kind = p.kind ∧ t.idsText = p.idsText ∧ t.next = p.index) ∧ stepGfx x p = stepOn t p := by
  have hex' : intExplode p.idsText = p.ids := by rw [← hids]; exact hex
  by_cases h0 : p.index = 0
  · have hi0 : atoiV idx = 0 := by rw [hidx, h0]; rfl
    rcases hhdr with ⟨hd, hp⟩ | ⟨MX, W, H, hd, hmx, hw, hh, hxy⟩
    · refine ⟨{ kind := p.kind, idsText := p.idsText, ids := p.ids, next := 0, last := 2, w := 64, h := 32, xy := none, data := [] }, ?_, ⟨rfl, rfl, h0.symm⟩, ?_⟩
      · unfold gfxOpen
        rw [if_pos hi0, if_neg (by rw [hd]; simp)]
        refine ⟨rfl, hids, rfl, rfl, hk, ?_, hex'⟩
        show ({ imageType := i32 (gfxTypeOf kw), w := 64, h := 32 } : Gfx) = _
        rw [hk, i32_codeOf]; rfl
      · unfold stepGfx stepOn
        simp only [h0, hp, if_true, true_or, and_self]
    · have hlen : hdr.length > 0 := by cases hdr with | nil => exact absurd rfl hd | cons _ _ => simp
      rcases hxy with ⟨e1, e2, e3, hp⟩ | ⟨X, Y, e1, e2, e3, hp⟩
      · refine ⟨{ kind := p.kind, idsText := p.idsText, ids := p.ids, next := 0, last := MX, w := W, h := H, xy := none, data := [] }, ?_, ⟨rfl, rfl, h0.symm⟩, ?_⟩
        · unfold gfxOpen
          rw [if_pos hi0, if_pos hlen]
          refine ⟨rfl, hids, rfl, hmx, hk, ?_, hex'⟩
          show ({ imageType := i32 (gfxTypeOf kw), w := u32 (atoiV w), h := u32 (atoiV h), xyOffset := xy.length > 0,
                  x := u32 (atoiV xx), y := u32 (atoiV yy) } : Gfx) = _
          rw [hk, i32_codeOf, hw, hh, e1, e2, e3]; rfl
        · unfold stepGfx stepOn
          simp only [h0, hp, if_true, true_or, and_self]
      · refine ⟨{ kind := p.kind, idsText := p.idsText, ids := p.ids, next := 0, last := MX, w := W, h := H, xy := some (X, Y), data := [] }, ?_, ⟨rfl, rfl, h0.symm⟩, ?_⟩
        · unfold gfxOpen
          rw [if_pos hi0, if_pos hlen]
          refine ⟨rfl, hids, rfl, hmx, hk, ?_, hex'⟩
          show ({ imageType := i32 (gfxTypeOf kw), w := u32 (atoiV w), h := u32 (atoiV h), xyOffset := xy.length > 0,
                  x := u32 (atoiV xx), y := u32 (atoiV yy) } : Gfx) = _
          have : decide (xy.length > 0) = true := by cases xy with | nil => exact absurd rfl e1 | cons _ _ => simp
          rw [hk, i32_codeOf, hw, hh, e2, e3, this]; rfl
        · unfold stepGfx stepOn
          simp only [h0, hp, if_true, true_or, and_self]
  · have hi0 : ¬ atoiV idx = 0 := by rw [hidx]; omega
    have hopen : gfxOpen g kw ids idx hdr mx w h xy xx yy = g := by unfold gfxOpen; rw [if_neg hi0]
    rw [hopen]
    cases x with
    | none => exfalso; apply hdisc; unfold stepGfx; dsimp only; rw [if_neg h0]
    | some t =>
      by_cases hc : t.kind = p.kind ∧ t.idsText = p.idsText ∧ t.next = p.index ∧ (p.index = 0 ∨ p.header = none)
      · refine ⟨t, hinv, ⟨hc.1, hc.2.1, hc.2.2.1⟩, ?_⟩
        unfold stepGfx stepOn
        dsimp only
        rw [if_neg h0]
        dsimp only
        rw [if_pos hc]
      · exfalso; apply hdisc; unfold stepGfx; dsimp only; rw [if_neg h0]; dsimp only; rw [if_neg hc]

/-- **one graphics part**: decoder and reader stay in correspondence, and the decoder's message (if the transfer
completes) has exactly the effects the reader delivers — except that the all-default image has none -/
theorem gfx_step (g : GfxSt) (x : Option Xfer) (l : Bytes) (m : List Bytes) (p : GfxPart)
    (hrel : GRel l m p) (hinv : Inv g x) (hdisc : stepGfx x p ≠ (none, [])) :
    ∃ g' r, decGfx false g m = .ok (g', r) ∧ Inv g' (stepGfx x p).1 ∧
      effectsOfMsgOpt r = (stepGfx x p).2.filter (fun e => !isBlankEffect e) := by
  obtain ⟨kw, ids, idx, hdr, mx, w, h, xy, xx, yy, d, rfl, hk, hids, hne, hex, hidx, hdat, hok, hhdr⟩ := hrel
  obtain ⟨t, hi, hc, hs⟩ := open_key g x p kw ids idx hdr mx w h xy xx yy hk hids hex hidx hhdr hinv hdisc
  rw [decGfx_closed, accept_step _ t p kw ids idx d hi hk hids hidx hdat hok hc, hs]
  unfold stepOn
  by_cases hl : p.index = t.last
  · rw [if_pos hl, if_pos hl]
    refine ⟨_, _, rfl, inv_closed _ _ hi.1, ?_⟩
    simp only [effectsOfMsgOpt]
    exact effects_delivered { t with data := t.data ++ p.data }
  · rw [if_neg hl, if_neg hl]
    exact ⟨_, _, rfl, inv_continue _ t _ hi, rfl⟩

end RawPanelVerif.DecGfx
