import RawPanelVerif.Lemmas.MonoCompl
/-!
# Drawing is monotone in the canvas contents

`Sub c c'`: same geometry, both well-formed, and every *visible* pixel lit in `c` (stored bit ≠ inversion flag) is lit
in `c'`.  No drawing primitive reads the pixels, and `DrawPixel` writes a value that does not depend on the old one,
so every primitive — hence every operation sequence without `InvertPixels` — maps `Sub`-related canvases to
`Sub`-related canvases.  A filled rectangle in the foreground colour grows with its width (`fillRect_sub_widen`).
Used for the value-bar monotonicity clause of C18.
-/
namespace RawPanelVerif.Mono

structure Sub (c c' : Canvas) : Prop where
  wf : c.WF
  wf' : c'.WF
  geo : c'.geo = c.geo
  vis : ∀ X Y, X < c.geo.W → Y < c.geo.H → (getPx c X Y != c.geo.inv) = true → (getPx c' X Y != c.geo.inv) = true

theorem Sub.refl (c : Canvas) (h : c.WF) : Sub c c := ⟨h, h, rfl, fun _ _ _ _ h => h⟩

theorem drawPixel_sub {c c' : Canvas} (h : Sub c c') (x y : Int) (col : Bool) :
    Sub (drawPixel c x y col) (drawPixel c' x y col) where
  wf := drawPixel_wf c x y col h.wf
  wf' := drawPixel_wf c' x y col h.wf'
  geo := by rw [drawPixel_geo, drawPixel_geo, h.geo]
  vis := fun X Y hX hY => by
    rw [drawPixel_geo] at hX hY ⊢
    have hw := h.wf.1
    have hX8 : X < c.geo.wib * 8 := by omega
    have hg := h.geo
    have hX8' : X < c'.geo.wib * 8 := by rw [hg]; exact hX8
    have hY' : Y < c'.geo.H := by rw [hg]; exact hY
    rw [drawPixel_exact c h.wf x y col X Y hX8 hY, drawPixel_exact c' h.wf' x y col X Y hX8' hY']
    rw [hg]
    by_cases hc : inClip c.geo (x + c.geo.bx) (y + c.geo.byy) ∧ (X : Int) = x + c.geo.bx ∧ (Y : Int) = y + c.geo.byy
    · rw [if_pos hc, if_pos hc]; exact id
    · rw [if_neg hc, if_neg hc]
      exact h.vis X Y hX hY

theorem vline_sub {c c' : Canvas} (h : Sub c c') (x y hh : Int) (col : Bool) :
    Sub (vline c x y hh col) (vline c' x y hh col) :=
  loopN_rel Sub _ _ (fun _ _ i hab => drawPixel_sub hab x (y + i) col) _ c c' h

theorem hline_sub {c c' : Canvas} (h : Sub c c') (x y w : Int) (col : Bool) :
    Sub (hline c x y w col) (hline c' x y w col) :=
  loopN_rel Sub _ _ (fun _ _ i hab => drawPixel_sub hab (x + i) y col) _ c c' h

theorem fillRect_sub {c c' : Canvas} (h : Sub c c') (x y w hh : Int) (col : Bool) :
    Sub (fillRect c x y w hh col) (fillRect c' x y w hh col) :=
  loopN_rel Sub _ _ (fun _ _ i hab => vline_sub hab (x + i) y hh col) _ c c' h

theorem ite_sub {c c' : Canvas} (b : Bool) (f : Canvas → Canvas) (h : Sub c c')
    (hf : Sub (f c) (f c')) : Sub (if b then f c else c) (if b then f c' else c') := by
  cases b
  · exact h
  · exact hf

theorem circPlot_sub {c c' : Canvas} (h : Sub c c') (x0 y0 corner : Int) (col : Bool) (x y : Int) :
    Sub (circPlot c x0 y0 corner col x y) (circPlot c' x0 y0 corner col x y) := by
  unfold circPlot
  simp only []
  have s1 := ite_sub (cornerBit corner 4) (fun c => drawPixel (drawPixel c (x0 + x) (y0 + y) col) (x0 + y) (y0 + x) col) h
    (drawPixel_sub (drawPixel_sub h _ _ col) _ _ col)
  have s2 := ite_sub (cornerBit corner 2) (fun c => drawPixel (drawPixel c (x0 + x) (y0 - y) col) (x0 + y) (y0 - x) col) s1
    (drawPixel_sub (drawPixel_sub s1 _ _ col) _ _ col)
  have s3 := ite_sub (cornerBit corner 8) (fun c => drawPixel (drawPixel c (x0 - y) (y0 + x) col) (x0 - x) (y0 + y) col) s2
    (drawPixel_sub (drawPixel_sub s2 _ _ col) _ _ col)
  exact ite_sub (cornerBit corner 1) (fun c => drawPixel (drawPixel c (x0 - y) (y0 - x) col) (x0 - x) (y0 - y) col) s3
    (drawPixel_sub (drawPixel_sub s3 _ _ col) _ _ col)

theorem drawCircleHelperLoop_sub (x0 y0 corner : Int) (col : Bool) (c : Canvas) (s : Circ) (c' : Canvas)
    (h : Sub c c') :
    Sub (drawCircleHelperLoop c x0 y0 corner col s) (drawCircleHelperLoop c' x0 y0 corner col s) := by
  fun_induction drawCircleHelperLoop c x0 y0 corner col s generalizing c' with
  | case1 c s hlt ih =>
    rw [drawCircleHelperLoop.eq_def c']
    simp only [hlt, dite_true]
    exact ih _ (circPlot_sub h x0 y0 corner col s.next.x s.next.y)
  | case2 c s hlt =>
    rw [drawCircleHelperLoop.eq_def c']
    simp only [hlt, dite_false]
    exact h

theorem drawCircleHelper_sub {c c' : Canvas} (h : Sub c c') (x0 y0 r corner : Int) (col : Bool) :
    Sub (drawCircleHelper c x0 y0 r corner col) (drawCircleHelper c' x0 y0 r corner col) :=
  drawCircleHelperLoop_sub x0 y0 corner col c _ c' h

theorem fillCircPlot_sub {c c' : Canvas} (h : Sub c c') (x0 y0 corner delta : Int) (col : Bool) (x y : Int) :
    Sub (fillCircPlot c x0 y0 corner delta col x y) (fillCircPlot c' x0 y0 corner delta col x y) := by
  unfold fillCircPlot
  simp only []
  have s1 := ite_sub (cornerBit corner 1)
    (fun c => vline (vline c (x0 + x) (y0 - y) (2 * y + 1 + delta) col) (x0 + y) (y0 - x) (2 * x + 1 + delta) col) h
    (vline_sub (vline_sub h _ _ _ col) _ _ _ col)
  exact ite_sub (cornerBit corner 2)
    (fun c => vline (vline c (x0 - x) (y0 - y) (2 * y + 1 + delta) col) (x0 - y) (y0 - x) (2 * x + 1 + delta) col) s1
    (vline_sub (vline_sub s1 _ _ _ col) _ _ _ col)

theorem fillCircleHelperLoop_sub (x0 y0 corner delta : Int) (col : Bool) (c : Canvas) (s : Circ) (c' : Canvas)
    (h : Sub c c') :
    Sub (fillCircleHelperLoop c x0 y0 corner delta col s) (fillCircleHelperLoop c' x0 y0 corner delta col s) := by
  fun_induction fillCircleHelperLoop c x0 y0 corner delta col s generalizing c' with
  | case1 c s hlt ih =>
    rw [fillCircleHelperLoop.eq_def c']
    simp only [hlt, dite_true]
    exact ih _ (fillCircPlot_sub h x0 y0 corner delta col s.next.x s.next.y)
  | case2 c s hlt =>
    rw [fillCircleHelperLoop.eq_def c']
    simp only [hlt, dite_false]
    exact h

theorem fillCircleHelper_sub {c c' : Canvas} (h : Sub c c') (x0 y0 r corner delta : Int) (col : Bool) :
    Sub (fillCircleHelper c x0 y0 r corner delta col) (fillCircleHelper c' x0 y0 r corner delta col) :=
  fillCircleHelperLoop_sub x0 y0 corner delta col c _ c' h

theorem drawRoundRect_sub {c c' : Canvas} (h : Sub c c') (x y w hh r : Int) (col : Bool) :
    Sub (drawRoundRect c x y w hh r col) (drawRoundRect c' x y w hh r col) := by
  unfold drawRoundRect
  simp only []
  exact drawCircleHelper_sub (drawCircleHelper_sub (drawCircleHelper_sub (drawCircleHelper_sub
    (vline_sub (vline_sub (hline_sub (hline_sub h _ _ _ col) _ _ _ col) _ _ _ col) _ _ _ col)
    _ _ _ _ col) _ _ _ _ col) _ _ _ _ col) _ _ _ _ col

theorem fillRoundRect_sub {c c' : Canvas} (h : Sub c c') (x y w hh r : Int) (col : Bool) :
    Sub (fillRoundRect c x y w hh r col) (fillRoundRect c' x y w hh r col) := by
  unfold fillRoundRect
  simp only []
  exact fillCircleHelper_sub (fillCircleHelper_sub (fillRect_sub h _ _ _ _ col) _ _ _ _ _ col) _ _ _ _ _ col

theorem drawBitmap_sub {c c' : Canvas} (h : Sub c c') (x y : Int) (bits : Array UInt8) (w hh : Int)
    (col inverted drawAll : Bool) :
    Sub (drawBitmap c x y bits w hh col inverted drawAll) (drawBitmap c' x y bits w hh col inverted drawAll) := by
  unfold drawBitmap
  simp only []
  refine loopN_rel Sub _ _ (fun a b j hab => ?_) _ c c' h
  refine loopN_rel Sub _ _ (fun a b i hab => ?_) _ a b hab
  split
  · split
    · exact drawPixel_sub hab _ _ _
    · exact hab
  · exact hab

theorem drawBlock_sub {c c' : Canvas} (h : Sub c c') (x y : Int) (i j : Nat) (tsH tsV : Int) (col : Bool) :
    Sub (drawBlock c x y i j tsH tsV col) (drawBlock c' x y i j tsH tsV col) := by
  unfold drawBlock
  split
  · exact drawPixel_sub h _ _ col
  · exact fillRect_sub h _ _ _ _ col

theorem drawChar_sub {c c' : Canvas} (h : Sub c c') (t : TextSt) (x y : Int) (ch : Nat) (col bg : Bool)
    (tsH tsV : Int) :
    Sub (drawChar c t x y ch col bg tsH tsV) (drawChar c' t x y ch col bg tsH tsV) := by
  unfold drawChar
  simp only []
  rw [h.geo]
  split
  · exact h
  · refine loopN_rel Sub _ _ (fun a b i hab => ?_) _ c c' h
    refine loopN_rel Sub _ _ (fun a b j hab => ?_) _ a b hab
    split
    · exact drawBlock_sub hab _ _ _ _ _ _ col
    · split
      · exact drawBlock_sub hab _ _ _ _ _ _ bg
      · exact hab

theorem writeChar_sub {c c' : Canvas} (h : Sub c c') (t : TextSt) (ch : Nat) :
    Sub (writeChar (c, t) ch).1 (writeChar (c', t) ch).1 ∧ (writeChar (c', t) ch).2 = (writeChar (c, t) ch).2 := by
  unfold writeChar
  simp only []
  rw [h.geo]
  split
  · exact ⟨h, rfl⟩
  · split
    · exact ⟨h, rfl⟩
    · split
      · exact ⟨drawChar_sub h _ _ _ _ _ _ _ _, rfl⟩
      · exact ⟨drawChar_sub h _ _ _ _ _ _ _ _, rfl⟩

theorem renderText_sub (s : List Nat) (c c' : Canvas) (h : Sub c c') (t : TextSt) :
    Sub (renderText (c, t) s).1 (renderText (c', t) s).1 := by
  unfold renderText
  induction s generalizing c c' t with
  | nil => exact h
  | cons ch s ih =>
    rw [List.foldl_cons, List.foldl_cons]
    obtain ⟨h1, h2⟩ := writeChar_sub h t ch
    have e : writeChar (c', t) ch = ((writeChar (c', t) ch).1, (writeChar (c, t) ch).2) := by
      rw [← h2]
    rw [e]
    exact ih _ _ h1 _

theorem setBoundingBox_sub {c c' : Canvas} (h : Sub c c') (x y w hh : Int) :
    Sub (setBoundingBox c x y w hh) (setBoundingBox c' x y w hh) where
  wf := by have := h.wf; unfold setBoundingBox Canvas.WF at *; simpa using this
  wf' := by have := h.wf'; unfold setBoundingBox Canvas.WF at *; simpa using this
  geo := by unfold setBoundingBox; simp only []; rw [h.geo]
  vis := fun X Y hX hY => by
    have := h.vis X Y hX hY
    unfold getPx setBoundingBox at *
    simp only [] at *
    rw [h.geo] at this ⊢
    exact this

/-- every operation except `InvertPixels` is monotone in the canvas contents -/
theorem applyOp_sub {c c' : Canvas} (h : Sub c c') (op : Op) (hop : ∀ b, op ≠ .inv b) :
    Sub (applyOp c op) (applyOp c' op) := by
  cases op with
  | px x y col => exact drawPixel_sub h x y col
  | hline x y w col => exact hline_sub h x y w col
  | vline x y hh col => exact vline_sub h x y hh col
  | frect x y w hh col => exact fillRect_sub h x y w hh col
  | rrect x y w hh r col => exact drawRoundRect_sub h x y w hh r col
  | frrect x y w hh r col => exact fillRoundRect_sub h x y w hh r col
  | circ x0 y0 r k col => exact drawCircleHelper_sub h x0 y0 r k col
  | fcirc x0 y0 r k d col => exact fillCircleHelper_sub h x0 y0 r k d col
  | bitmap x y bits w hh col i a => exact drawBitmap_sub h x y bits w hh col i a
  | glyph t x y ch col bg hs vs => exact drawChar_sub h t x y ch col bg hs vs
  | text t s => exact renderText_sub s c c' h t
  | bbox x y w hh => exact setBoundingBox_sub h x y w hh
  | inv b => exact absurd rfl (hop b)

theorem foldl_sub (ops : List Op) (hops : ∀ op ∈ ops, ∀ b, op ≠ .inv b) (c c' : Canvas) (h : Sub c c') :
    Sub (ops.foldl applyOp c) (ops.foldl applyOp c') := by
  induction ops generalizing c c' with
  | nil => exact h
  | cons op ops ih =>
    rw [List.foldl_cons, List.foldl_cons]
    exact ih (fun o ho => hops o (by simp [ho])) _ _ (applyOp_sub h op (hops op (by simp)))

/-! ## the value bar: radius-0 rounded rectangle, widening -/

theorem fillCircleHelper_r0 (c : Canvas) (x0 y0 corner delta : Int) (col : Bool) :
    fillCircleHelper c x0 y0 0 corner delta col = c := by
  unfold fillCircleHelper
  rw [fillCircleHelperLoop.eq_def]
  simp [Circ.init]

/-- a rounded rectangle with radius 0 is the plain filled rectangle -/
theorem fillRoundRect_r0 (c : Canvas) (x y w h : Int) (col : Bool) :
    fillRoundRect c x y w h 0 col = fillRect c x y w h col := by
  unfold fillRoundRect
  simp only [fillCircleHelper_r0]
  simp

/-- a foreground-coloured filled rectangle grows with its width -/
theorem fillRect_sub_widen {c c' : Canvas} (h : Sub c c') (x y w1 w2 hh : Int) (hw : w1 ≤ w2) :
    Sub (fillRect c x y w1 hh true) (fillRect c' x y w2 hh true) := by
  have p1 := fillRect_paint c h.wf x y w1 hh true
  have p2 := fillRect_paint c' h.wf' x y w2 hh true
  refine ⟨p1.wf, p2.wf, by rw [p2.geo, p1.geo, h.geo], ?_⟩
  intro X Y hX hY
  rw [p1.geo] at hX hY ⊢
  have hX8 : X < c.geo.wib * 8 := by have := h.wf.1; omega
  have hg := h.geo
  by_cases hr2 : boxR c'.geo (x + c'.geo.bx) (y + c'.geo.byy) (x + c'.geo.bx + w2) (y + c'.geo.byy + hh) X Y
  · intro _
    rw [p2.inside X Y (by rw [hg]; exact hX8) (by rw [hg]; exact hY) hr2, hg]
    cases c.geo.inv <;> rfl
  · have hr1 : ¬ boxR c.geo (x + c.geo.bx) (y + c.geo.byy) (x + c.geo.bx + w1) (y + c.geo.byy + hh) X Y := by
      intro hr1
      apply hr2
      rw [hg]
      obtain ⟨a, b, c1, d, e⟩ := hr1
      exact ⟨a, b, by omega, d, e⟩
    rw [p1.same X Y hX8 hY hr1, p2.same X Y (by rw [hg]; exact hX8) (by rw [hg]; exact hY) hr2]
    exact h.vis X Y hX hY

end RawPanelVerif.Mono
