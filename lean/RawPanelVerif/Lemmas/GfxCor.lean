import RawPanelVerif.Lemmas.GfxWeave
/-! C05: corollaries in the property's own words (at most once, never altered), and clean runs from any state. -/
namespace RawPanelVerif.Gfx
open RawPanelVerif

/-- the transfer (position of its chunk 0) a delivery belongs to, according to the Spec -/
def transferOf (cs : List (Option Spec.Gfx.Chunk)) (d : Spec.Gfx.Deliv) : Option Nat :=
  match d.pos with
  | some p => Spec.Gfx.legitAt cs p d.img
  | none => none

theorem good_transfers (cs : List (Option Spec.Gfx.Chunk)) (ds : List Spec.Gfx.Deliv) (used : List Nat)
    (h : Good cs ds used) :
    (ds.map (transferOf cs)).Nodup ∧ ∀ d ∈ ds, ∃ p0, transferOf cs d = some p0 ∧ p0 ∉ used := by
  induction h with
  | nil used => exact ⟨List.nodup_nil, fun d hd => by simp at hd⟩
  | cons d ds used p p0 hpos hl hu hf _ ih =>
    have hd : transferOf cs d = some p0 := by simp [transferOf, hpos, hl]
    refine ⟨?_, ?_⟩
    · rw [List.map_cons, List.nodup_cons]
      refine ⟨?_, ih.1⟩
      rw [hd]
      intro hmem
      obtain ⟨d', hd', he⟩ := List.mem_map.mp hmem
      obtain ⟨q, hq1, hq2⟩ := ih.2 d' hd'
      rw [hq1] at he
      injection he with he
      exact hq2 (by rw [he]; simp)
    · intro d' hd'
      simp only [List.mem_cons] at hd'
      rcases hd' with rfl | hd'
      · exact ⟨p0, hd, hu⟩
      · obtain ⟨q, hq1, hq2⟩ := ih.2 d' hd'
        exact ⟨q, hq1, fun hmem => hq2 (by simp [hmem])⟩

theorem good_final (cs : List (Option Spec.Gfx.Chunk)) (ds : List Spec.Gfx.Deliv) (used : List Nat)
    (h : Good cs ds used) : ∀ d ∈ ds, d.final = d.img.data := by
  induction h with
  | nil used => intro d hd; simp at hd
  | cons d ds used p p0 hpos hl hu hf _ ih =>
    intro d' hd'
    simp only [List.mem_cons] at hd'
    rcases hd' with rfl | hd'
    · exact hf
    · exact ih d' hd'

/-! ### never altered, for every history whatsoever -/

theorem step_out_ref (s : BState) (l : Bytes) (ids : List Nat) (ref : Nat) (hc : s.cur < s.store.length)
    (h : (Batch.step s l).2 = some (.gfx ids ref)) : ref < (Batch.step s l).1.cur := by
  rw [step_eq] at h ⊢
  cases hp : parseLine? l with
  | none => rw [hp] at h; simp at h
  | some p =>
    rw [hp] at h
    simp only [] at h ⊢
    have h1 : (afterReset s p).cur < (afterReset s p).store.length := by
      unfold afterReset
      split
      · simp [resetIntake]
      · exact hc
    rcases stepP_cases s p with ⟨_, he⟩ | ⟨_, _, he⟩ | ⟨_, _, _, he⟩ | ⟨_, _, _, he⟩
    · rw [he] at h; simp at h
    · rw [he] at h; simp at h
    · rw [he] at h; simp at h
    · rw [he] at h ⊢
      simp only [Option.some.injEq, Out.gfx.injEq] at h
      rw [← h.2]
      simpa [appendAt_length] using h1

theorem run_never_altered : ∀ (ls : List Bytes) (s : BState) (pos : Nat), s.cur < s.store.length →
    ∀ e ∈ (Batch.runFrom Batch.step s pos ls).2, ∀ ids ref, e.out = .gfx ids ref →
      (Batch.runFrom Batch.step s pos ls).1.store.getD ref {} = e.snap.getD ref {} := by
  intro ls
  induction ls with
  | nil => intro s pos _ e he; simp [Batch.runFrom] at he
  | cons l ls ih =>
    intro s pos hc e he ids ref hout
    obtain ⟨h1, _, _⟩ := step_store s l hc
    simp only [Batch.runFrom] at he ⊢
    cases h2 : (Batch.step s l).2 with
    | none =>
      rw [h2] at he
      simp only [h2]
      exact ih _ (pos + 1) h1 e he ids ref hout
    | some o =>
      rw [h2] at he
      simp only [h2]
      simp only [List.mem_cons] at he
      rcases he with rfl | he
      · simp only [] at hout
        subst hout
        exact run_stable ls _ (pos + 1) h1 ref (step_out_ref s l ids ref hc h2)
      · exact ih _ (pos + 1) h1 e he ids ref hout

theorem batch_never_altered (lines : List Bytes) :
    ∀ d ∈ delivsOf (Batch.run Batch.step lines).1.store (Batch.run Batch.step lines).2, d.final = d.img.data := by
  intro d hd
  simp only [delivsOf, List.mem_filterMap] at hd
  obtain ⟨e, he, hd⟩ := hd
  cases hout : e.out with
  | other _ => rw [hout] at hd; simp at hd
  | gfx ids ref =>
    rw [hout] at hd
    simp only [Option.some.injEq] at hd
    rw [← hd]
    simp only [specImg]
    have := run_never_altered lines {} 0 (by decide) e he ids ref hout
    unfold Batch.run
    rw [this]

end RawPanelVerif.Gfx
