import RawPanelVerif.Model.XmldomBase
import RawPanelVerif.Spec.SvgBaseSpec
/-!
# The `go-xmldom` round trip at token level (C15): the element part

`elemToks` (Model/XmldomBase) against the content of the base (`Spec.SvgBase.content`).  Main result
`elem_roundtrip_iff`: for a well-nested stream without prefixes the element part of the printed document equals the
element part of the base's content exactly when no character data is lost or moved (`mixedText = false`).
-/
namespace RawPanelVerif.Xmldom
open RawPanelVerif.Xml RawPanelVerif.Spec.SvgBase
open RawPanelVerif.Topo (Str SvgNode)

/-- start tag, end tag or non-blank character data: the tokens the element part of a document consists of -/
def elemKind : Tok → Bool
  | .start .. => true
  | .stop .. => true
  | .text s => !s.isEmpty
  | _ => false

/-- the element part of the content of a token stream -/
def elemContent (ts : List Tok) : List Tok := ts.filter elemKind

/-- a token the printer of a tree can produce: of element kind and without prefixes -/
def plain (t : Tok) : Bool := elemKind t && !prefixed t

theorem pend_plain (s : Str) : ∀ x ∈ pend s, plain x = true := by
  intro x hx
  unfold pend at hx
  split at hx
  · cases hx
  · rename_i h
    simp only [List.mem_cons, List.not_mem_nil, or_false] at hx
    subst hx
    simp [plain, elemKind, prefixed, h]

/-- every token of the element part is one of the appended ones or a plain one -/
theorem elemToks_mem (app : List Tok) : ∀ (ts : List Tok) (st : List Frame) (seen : Bool),
    ∀ x ∈ elemToks app st seen ts, x ∈ app ∨ plain x = true := by
  intro ts
  induction ts with
  | nil => intro st seen x hx; simp [elemToks] at hx
  | cons t r ih =>
    intro st seen x hx
    cases t with
    | start p l as =>
      simp only [elemToks, List.mem_append] at hx
      rcases hx with hx | hx
      · split at hx
        · simp only [List.mem_cons, List.not_mem_nil, or_false] at hx
          subst hx
          right
          simp [plain, elemKind, prefixed, stripAttr]
        · cases hx
      · exact ih _ _ x hx
    | stop p l =>
      cases st with
      | nil => simp only [elemToks] at hx; exact ih _ _ x hx
      | cons f st' =>
        simp only [elemToks, List.mem_append] at hx
        rcases hx with hx | hx
        · split at hx
          · simp only [List.mem_append, List.mem_cons, List.not_mem_nil, or_false] at hx
            rcases hx with (hx | hx) | hx
            · unfold appAt at hx
              split at hx
              · exact Or.inl hx
              · cases hx
            · exact Or.inr (pend_plain _ x hx)
            · subst hx; right; simp [plain, elemKind, prefixed]
          · cases hx
        · exact ih _ _ x hx
    | text s =>
      cases st with
      | nil => simp only [elemToks] at hx; exact ih _ _ x hx
      | cons f st' => simp only [elemToks] at hx; exact ih _ _ x hx
    | comment s => simp only [elemToks] at hx; exact ih _ _ x hx
    | pi a b => simp only [elemToks] at hx; exact ih _ _ x hx
    | dir s => simp only [elemToks] at hx; exact ih _ _ x hx


/-! ## the element part of the content, token by token -/

@[simp] theorem elemContent_nil : elemContent [] = [] := rfl
@[simp] theorem elemContent_start (p l : Str) (as : List (Str × Str × Str)) (r : List Tok) :
    elemContent (.start p l as :: r) = .start p l as :: elemContent r := rfl
@[simp] theorem elemContent_stop (p l : Str) (r : List Tok) : elemContent (.stop p l :: r) = .stop p l :: elemContent r := rfl
@[simp] theorem elemContent_text (s : Str) (r : List Tok) : elemContent (.text s :: r) = pend s ++ elemContent r := by
  unfold pend
  cases h : s.isEmpty <;> simp [elemContent, elemKind, h]
@[simp] theorem elemContent_comment (s : Str) (r : List Tok) : elemContent (.comment s :: r) = elemContent r := rfl
@[simp] theorem elemContent_pi (a b : Str) (r : List Tok) : elemContent (.pi a b :: r) = elemContent r := rfl
@[simp] theorem elemContent_dir (s : Str) (r : List Tok) : elemContent (.dir s :: r) = elemContent r := rfl

/-! ## without appended elements: the printed element part is never longer than the base's -/

@[simp] theorem appAt_nil (st : List Frame) : appAt [] st = [] := by unfold appAt; split <;> rfl

theorem pend_length (s : Str) : (pend s).length = if s.isEmpty then 0 else 1 := by
  unfold pend; split <;> rfl

/-- number of open elements whose text is not empty -/
def pendCount : List Frame → Nat
  | [] => 0
  | f :: r => (if f.text.isEmpty then 0 else 1) + pendCount r

theorem elemToks_length : ∀ (ts : List Tok) (st : List Frame) (seen : Bool),
    (elemToks [] st seen ts).length ≤ pendCount st + (elemContent ts).length := by
  intro ts
  induction ts with
  | nil => intro st seen; simp [elemToks]
  | cons t r ih =>
    intro st seen
    cases t with
    | start p l as =>
      have h := ih ({ name := l, live := liveNext st seen } :: st) true
      simp only [pendCount, List.isEmpty_nil, if_true, Nat.zero_add] at h
      simp only [elemToks, elemContent_start, List.length_append, List.length_cons]
      split <;> simp <;> omega
    | stop p l =>
      cases st with
      | nil =>
        have h := ih [] seen
        simp only [elemToks, elemContent_stop, List.length_cons]
        omega
      | cons f st' =>
        have h := ih st' seen
        simp only [elemToks, elemContent_stop, List.length_append, List.length_cons, pendCount, appAt_nil, List.nil_append]
        split
        · simp only [List.length_append, pend_length, List.length_cons, List.length_nil]
          split <;> omega
        · simp only [List.length_nil]; omega
    | text s =>
      cases st with
      | nil =>
        have h := ih [] seen
        simp only [elemToks, elemContent_text, List.length_append]
        omega
      | cons f st' =>
        have h := ih ({ f with text := s } :: st') seen
        simp only [pendCount] at h
        simp only [elemToks, elemContent_text, List.length_append, pend_length, pendCount]
        omega
    | comment s => simpa [elemToks] using ih st seen
    | pi a b => simpa [elemToks] using ih st seen
    | dir s => simpa [elemToks] using ih st seen


/-! ## the element part round trip -/

def topText : List Frame → Str
  | [] => []
  | f :: _ => f.text

/-- every open element hangs under the root; only the innermost one may have a text so far -/
def StackOk : List Frame → Prop
  | [] => True
  | f :: below => f.live = true ∧ ∀ g ∈ below, g.live = true ∧ g.text = []

/-- the open elements as the Spec's `docShape` tracks them (no prefixes) -/
def names (st : List Frame) : List (Str × Str) := st.map (fun f => (([] : Str), f.name))

theorem closesNext_start (p l : Str) (as : List (Str × Str × Str)) (r : List Tok) : closesNext (.start p l as :: r) = false := rfl
theorem closesNext_stop (p l : Str) (r : List Tok) : closesNext (.stop p l :: r) = true := rfl
theorem closesNext_text (s : Str) (r : List Tok) : closesNext (.text s :: r) = false := rfl
theorem closesNext_comment (s : Str) (r : List Tok) : closesNext (.comment s :: r) = closesNext r := rfl
theorem closesNext_pi (a b : Str) (r : List Tok) : closesNext (.pi a b :: r) = closesNext r := rfl
theorem closesNext_dir (s : Str) (r : List Tok) : closesNext (.dir s :: r) = closesNext r := rfl
theorem closesNext_nil : closesNext [] = false := rfl

theorem StackOk_tail {f : Frame} {st : List Frame} (h : StackOk (f :: st)) : StackOk st ∧ topText st = [] := by
  cases st with
  | nil => exact ⟨trivial, rfl⟩
  | cons g r =>
    have hg := h.2 g List.mem_cons_self
    exact ⟨⟨hg.1, fun x hx => h.2 x (List.mem_cons_of_mem _ hx)⟩, hg.2⟩

theorem pend_cons (s : Str) (h : s ≠ []) : pend s = [.text s] := by
  unfold pend
  cases s with
  | nil => exact absurd rfl h
  | cons _ _ => rfl

theorem pendCount_zero : ∀ (st : List Frame), (∀ g ∈ st, g.text = []) → pendCount st = 0 := by
  intro st
  induction st with
  | nil => intro _; rfl
  | cons g q ih =>
    intro h
    simp only [pendCount, h g List.mem_cons_self, List.isEmpty_nil, if_true, Nat.zero_add]
    exact ih (fun x hx => h x (List.mem_cons_of_mem _ hx))

/-- For a well-nested stream without prefixes, read with all open elements under the root and no text pending below
the innermost one: the printed element part is the element part of the base's content (preceded by the pending text of
the innermost open element) **exactly when** no character data is lost or moved — every non-blank character data is
directly followed by the end tag of its element — and a pending text is directly followed by the end tag. -/
theorem elem_roundtrip_iff : ∀ (ts : List Tok) (st : List Frame) (seen : Bool), StackOk st →
    docShape (names st) seen ts = true → hasPrefix ts = false →
    (elemToks [] st seen ts = pend (topText st) ++ elemContent ts ↔
      (mixedText ts = false ∧ (topText st ≠ [] → closesNext ts = true))) := by
  intro ts
  induction ts with
  | nil =>
    intro st seen hok hd _
    cases st with
    | nil => simp [elemToks, topText, pend, mixedText]
    | cons f st' => simp [names, docShape] at hd
  | cons t r ih =>
    intro st seen hok hd hp
    have hpr : hasPrefix r = false := by
      simp only [hasPrefix, List.any_cons, Bool.or_eq_false_iff] at hp; exact hp.2
    have hpt : prefixed t = false := by
      simp only [hasPrefix, List.any_cons, Bool.or_eq_false_iff] at hp; exact hp.1
    cases t with
    | start p l as =>
      -- no prefix on the tag or its attributes
      simp only [prefixed, Bool.or_eq_false_iff, Bool.not_eq_false', List.isEmpty_iff] at hpt
      obtain ⟨hp0, hpa⟩ := hpt
      subst hp0
      have has : as.map stripAttr = as := by
        clear hd hp ih
        induction as with
        | nil => rfl
        | cons a q ihq =>
          simp only [List.any_cons, Bool.or_eq_false_iff, Bool.not_eq_false', List.isEmpty_iff] at hpa
          obtain ⟨p1, l1, v1⟩ := a
          simp only at hpa
          simp only [List.map_cons, stripAttr, ihq hpa.2]
          rw [hpa.1]
      have hlive : liveNext st seen = true := by
        cases st with
        | nil => simp [names, docShape] at hd; simp [liveNext, hd.1]
        | cons f st' => exact hok.1
      have hd' : docShape (names ({ name := l, live := true } :: st)) true r = true := by
        cases st with
        | nil => simp only [names, List.map_nil, docShape, Bool.and_eq_true] at hd; simpa [names] using hd.2
        | cons f st' => simpa [names, docShape] using hd
      simp only [elemToks, hlive, if_true, has, elemContent_start, mixedText, closesNext_start]
      by_cases hpt : topText st = []
      · have hok' : StackOk ({ name := l, live := true } :: st) := by
          refine ⟨rfl, ?_⟩
          intro g hg
          cases st with
          | nil => cases hg
          | cons f st' =>
            rcases List.mem_cons.mp hg with rfl | hg'
            · exact ⟨hok.1, hpt⟩
            · exact hok.2 g hg'
        have := ih ({ name := l, live := true } :: st) true hok' hd' hpr
        simp only [topText, pend, List.isEmpty_nil, if_true, List.nil_append, ne_eq, not_true_eq_false, false_implies, and_true] at this
        simp only [hpt, pend, List.isEmpty_nil, if_true, List.nil_append, List.singleton_append, List.cons.injEq, true_and, this,
          ne_eq, not_true_eq_false, false_implies, and_true]
      · rw [pend_cons _ hpt]
        simp [hpt]
    | stop p l =>
      simp only [prefixed, Bool.not_eq_false', List.isEmpty_iff] at hpt
      subst hpt
      cases st with
      | nil => simp [names, docShape] at hd
      | cons f st' =>
        simp only [names, List.map_cons, docShape, Bool.and_eq_true, beq_iff_eq, Prod.mk.injEq, true_and] at hd
        obtain ⟨hn, hd'⟩ := hd
        obtain ⟨hok', htop⟩ := StackOk_tail hok
        have := ih st' seen hok' hd' hpr
        simp only [htop, pend, List.isEmpty_nil, if_true, List.nil_append, ne_eq, not_true_eq_false, false_implies, and_true] at this
        simp only [elemToks, hok.1, if_true, appAt_nil, List.nil_append, elemContent_stop, topText, mixedText, closesNext_stop,
          implies_true, and_true, hn]
        rw [← this]
        constructor
        · intro h
          simp only [List.append_assoc, List.singleton_append] at h
          have h2 := List.append_cancel_left h
          simpa using h2
        · intro h
          rw [h]; simp
    | text s =>
      cases st with
      | nil =>
        simp only [names, List.map_nil, docShape, Bool.and_eq_true, List.isEmpty_iff] at hd
        obtain ⟨hs, hd'⟩ := hd
        subst hs
        have := ih [] seen trivial (by simpa [names] using hd') hpr
        simpa [elemToks, mixedText, topText, pend] using this
      | cons f st' =>
        have hd' : docShape (names ({ f with text := s } :: st')) seen r = true := by simpa [names, docShape] using hd
        have hok' : StackOk ({ f with text := s } :: st') := ⟨hok.1, hok.2⟩
        have := ih ({ f with text := s } :: st') seen hok' hd' hpr
        simp only [topText] at this
        simp only [elemToks, topText, elemContent_text, mixedText, closesNext_text]
        by_cases hft : f.text = []
        · -- nothing pending: the text becomes the pending one
          simp only [hft, pend, List.isEmpty_nil, if_true, List.nil_append, ne_eq, not_true_eq_false, false_implies, and_true]
          rw [show (if s.isEmpty = true then ([] : List Tok) else [Tok.text s]) = pend s from rfl, this]
          by_cases hs : s = []
          · simp [hs]
          · have : s.isEmpty = false := by cases s <;> simp_all
            simp [hs, this, and_comm]
        · -- a text is pending and is overwritten: one token fewer than needed
          have hlen := elemToks_length r ({ f with text := s } :: st') seen
          have hz : pendCount st' = 0 := pendCount_zero st' (fun g hg => (hok.2 g hg).2)
          simp only [pendCount, hz, Nat.add_zero] at hlen
          constructor
          · intro h
            rw [h, pend_cons _ hft] at hlen
            simp only [List.length_append, List.length_cons, List.length_nil, pend_length] at hlen
            exfalso
            split at hlen <;> omega
          · intro h
            exact absurd (h.2 hft) (by simp)
    | comment c =>
      have := ih st seen hok (by cases st <;> simpa [names, docShape] using hd) hpr
      simpa [elemToks, mixedText, closesNext_comment] using this
    | pi a b =>
      have := ih st seen hok (by cases st <;> simpa [names, docShape] using hd) hpr
      simpa [elemToks, mixedText, closesNext_pi] using this
    | dir c =>
      cases st with
      | nil =>
        simp only [names, List.map_nil, docShape, Bool.and_eq_true] at hd
        have := ih [] seen trivial (by simpa [names] using hd.2) hpr
        simpa [elemToks, mixedText, closesNext_dir] using this
      | cons f st' => simp [names, docShape] at hd

end RawPanelVerif.Xmldom
