import RawPanelVerif.Lemmas.NetFeed
import RawPanelVerif.Lemmas.NetTimed
/-! Labelled runs of the timed read loop against the untimed byte-wise loop `feed`: the effects of a run are those of
`feed` on the bytes that arrived before the loop ended, and the final loop state is determined by them and by the
label that ended the loop. -/
namespace RawPanelVerif.Net

/-- labels that end the read loop -/
def Lbl.stops : Lbl → Bool
  | .expire _ => true
  | .peerClose _ => true
  | .cancel _ => true
  | _ => false

/-- the bytes of the `arrive` labels before the first label that ends the loop -/
def arrivedBefore : List Lbl → Bytes
  | [] => []
  | .arrive _ b :: r => b :: arrivedBefore r
  | .enter _ :: r => arrivedBefore r
  | .teardown _ :: r => arrivedBefore r
  | .expire _ :: _ => []
  | .peerClose _ :: _ => []
  | .cancel _ :: _ => []

/-- the first label that ends the loop -/
def firstStop : List Lbl → Option Lbl
  | [] => none
  | l :: r => if l.stops then some l else firstStop r

/-- the loop state after the label that ended the loop (`r` = the state the bytes before it led to) -/
def afterStop : Option Lbl → RState → RState
  | some (.expire _), _ => .stopped .timeout
  | some (.peerClose _), _ => .stopped .peerClosed
  | some (.cancel _), r => if r.live then .stopped .peerClosed else r
  | _, r => r

theorem tstep_r_eff (cfg : Cfg) (now : Nat) (s : CState) (b : UInt8) :
    (tstep cfg now s b).1.r = (stepByte s.r b).1 ∧ (tstep cfg now s b).2 = (stepByte s.r b).2 := by
  by_cases hl : s.r.live = true
  · rw [tstep_live cfg now s b hl]; exact ⟨rfl, rfl⟩
  · have hd : s.r.live = false := by cases hh : s.r.live <;> simp_all
    rw [tstep_dead cfg now s b hd]
    cases hr : s.r with
    | stopped w => simp [stepByte]
    | waitHdr rg => rw [hr] at hd; cases hd
    | waitPayload n rg => rw [hr] at hd; cases hd

/-- once the loop has ended, no label changes its state or has an effect -/
theorem dead_step (cfg : Cfg) (s s' : CState) (l : Lbl) (e : List Eff) (hd : s.r.live = false)
    (hs : step cfg s l = some (s', e)) : s'.r = s.r ∧ e = [] := by
  cases l with
  | enter now => obtain ⟨_, _, rfl, he⟩ := step_enter hs; exact ⟨rfl, he⟩
  | arrive now b =>
    obtain ⟨_, _, _, heq⟩ := step_arrive hs
    rw [tstep_dead cfg now s b hd] at heq
    simp only [Prod.mk.injEq] at heq
    obtain ⟨rfl, rfl⟩ := heq
    exact ⟨rfl, rfl⟩
  | expire now => obtain ⟨_, _, _, _, _, hl, _, _⟩ := step_expire hs; rw [hd] at hl; cases hl
  | peerClose now => obtain ⟨_, _, hl, _, _, _⟩ := step_peerClose hs; rw [hd] at hl; cases hl
  | cancel now => obtain ⟨_, _, _, rfl, he⟩ := step_cancel hs; simp [hd, he]
  | teardown now => obtain ⟨_, _, _, _, rfl, he⟩ := step_teardown hs; exact ⟨rfl, he⟩

theorem runL_cons {cfg : Cfg} {s s' : CState} {l : Lbl} {ls : List Lbl} {e : List Eff}
    (h : runL cfg s (l :: ls) = some (s', e)) :
    ∃ s1 e1 e2, step cfg s l = some (s1, e1) ∧ runL cfg s1 ls = some (s', e2) ∧ e = e1 ++ e2 := by
  simp only [runL] at h
  split at h
  · cases h
  · rename_i r1 h1
    split at h
    · cases h
    · rename_i r2 h2
      simp only [Option.some.injEq, Prod.mk.injEq] at h
      exact ⟨r1.1, r1.2, r2.2, by simpa using h1, by rw [← h.1]; simpa using h2, h.2.symm⟩

theorem runL_dead (cfg : Cfg) (ls : List Lbl) : ∀ (s s' : CState) (e : List Eff), s.r.live = false →
    runL cfg s ls = some (s', e) → s'.r = s.r ∧ e = [] := by
  induction ls with
  | nil => intro s s' e _ h; simp [runL] at h; exact ⟨by rw [← h.1], h.2⟩
  | cons l ls ih =>
    intro s s' e hd h
    obtain ⟨s1, e1, e2, h1, h2, rfl⟩ := runL_cons h
    obtain ⟨hr1, rfl⟩ := dead_step cfg s s1 l e1 hd h1
    obtain ⟨hr2, rfl⟩ := ih s1 s' e2 (by rw [hr1]; exact hd) h2
    exact ⟨by rw [hr2, hr1], rfl⟩

/-- **a labelled run against the untimed loop**: the effects of any run are those of `feed` on the bytes that
arrived before the loop ended, and the final loop state is what these bytes lead to, followed by what ended the loop.
Holds for every configuration of the deadline calls (they decide which runs exist, not what a run delivers). -/
theorem runL_feed (cfg : Cfg) (ls : List Lbl) : ∀ (s s' : CState) (e : List Eff), runL cfg s ls = some (s', e) →
    e = (feed s.r (arrivedBefore ls)).2 ∧ s'.r = afterStop (firstStop ls) (feed s.r (arrivedBefore ls)).1 := by
  induction ls with
  | nil => intro s s' e h; simp [runL] at h; simp [arrivedBefore, firstStop, afterStop, feed, ← h.1, ← h.2]
  | cons l ls ih =>
    intro s s' e h
    obtain ⟨s1, e1, e2, h1, h2, rfl⟩ := runL_cons h
    cases l with
    | arrive now b =>
      obtain ⟨_, _, _, heq⟩ := step_arrive h1
      have q1 : s1 = (tstep cfg now s b).1 := congrArg Prod.fst heq
      have q2 : e1 = (tstep cfg now s b).2 := congrArg Prod.snd heq
      have hs1 : s1.r = (stepByte s.r b).1 := by rw [q1]; exact (tstep_r_eff cfg now s b).1
      have he1 : e1 = (stepByte s.r b).2 := by rw [q2]; exact (tstep_r_eff cfg now s b).2
      obtain ⟨i1, i2⟩ := ih s1 s' e2 h2
      simp only [arrivedBefore, firstStop, Lbl.stops, Bool.false_eq_true, if_false, feed_cons]
      rw [← hs1, ← he1, ← i1, ← i2]; exact ⟨rfl, rfl⟩
    | enter now =>
      obtain ⟨_, _, rfl, rfl⟩ := step_enter h1
      obtain ⟨i1, i2⟩ := ih _ s' e2 h2
      simp only [arrivedBefore, firstStop, Lbl.stops, Bool.false_eq_true, if_false, List.nil_append]
      exact ⟨i1, i2⟩
    | teardown now =>
      obtain ⟨_, _, _, _, rfl, rfl⟩ := step_teardown h1
      obtain ⟨i1, i2⟩ := ih _ s' e2 h2
      simp only [arrivedBefore, firstStop, Lbl.stops, Bool.false_eq_true, if_false, List.nil_append]
      exact ⟨i1, i2⟩
    | expire now =>
      obtain ⟨d, _, _, _, _, _, rfl, rfl⟩ := step_expire h1
      obtain ⟨hr, rfl⟩ := runL_dead cfg ls _ s' e2 rfl h2
      refine ⟨by simp [arrivedBefore, feed], ?_⟩
      simp only [arrivedBefore, firstStop, Lbl.stops, if_true, feed, afterStop]
      exact hr
    | peerClose now =>
      obtain ⟨_, _, _, _, rfl, rfl⟩ := step_peerClose h1
      obtain ⟨hr, rfl⟩ := runL_dead cfg ls _ s' e2 rfl h2
      refine ⟨by simp [arrivedBefore, feed], ?_⟩
      simp only [arrivedBefore, firstStop, Lbl.stops, if_true, feed, afterStop]
      exact hr
    | cancel now =>
      obtain ⟨_, _, _, rfl, rfl⟩ := step_cancel h1
      have hdead : (if s.r.live = true then RState.stopped Stop.peerClosed else s.r).live = false := by
        cases hl : s.r.live
        · simp [hl]
        · simp [RState.live]
      obtain ⟨hr, rfl⟩ := runL_dead cfg ls _ s' e2 hdead h2
      refine ⟨by simp [arrivedBefore, feed], ?_⟩
      simp only [arrivedBefore, firstStop, Lbl.stops, if_true, feed, afterStop]
      exact hr

theorem runL_append (cfg : Cfg) (a b : List Lbl) : ∀ (s : CState), runL cfg s (a ++ b) =
    (match runL cfg s a with
     | none => none
     | some r1 => (match runL cfg r1.1 b with
       | none => none
       | some r2 => some (r2.1, r1.2 ++ r2.2))) := by
  induction a with
  | nil => intro s; simp only [List.nil_append, runL]; cases runL cfg s b <;> simp
  | cons l a ih =>
    intro s
    simp only [List.cons_append, runL]
    cases h1 : step cfg s l with
    | none => rfl
    | some r1 =>
      simp only [ih r1.1]
      cases h2 : runL cfg r1.1 a with
      | none => rfl
      | some r2 =>
        simp only
        cases h3 : runL cfg r2.1 b with
        | none => rfl
        | some r3 => simp [List.append_assoc]

/-- an incomplete tail of the reference parser is never empty -/
theorem parse_incomplete_ne (lim : Nat) (s : Bytes) : ∀ r, (Spec.Net.parse lim s).2 = .incomplete r → r ≠ [] := by
  fun_induction Spec.Net.parse lim s with
  | case1 s h =>
    intro r hr
    split at hr
    · cases hr
    · rename_i hne
      injection hr with hr; subst hr
      intro h0; subst h0; simp at hne
  | case2 s h len hover => intro r hr; cases hr
  | case3 s h len hover hshort =>
    intro r hr; injection hr with hr; subst hr
    intro h0; subst h0; simp at h
  | case4 s h len hover hshort r ih => intro r' hr; exact ih r' hr

/-- inside a frame: at least one byte of it has been consumed and it is not complete -/
def midFrame : RState → Bool
  | .waitHdr (_ :: _) => true
  | .waitPayload _ _ => true
  | _ => false

theorem stateOfTail_incomplete_mid (r : Bytes) (h : r ≠ []) : midFrame (stateOfTail (.incomplete r)) = true := by
  simp only [stateOfTail]
  split
  · cases r with
    | nil => exact absurd rfl h
    | cons x t =>
      cases hrev : (x :: t).reverse with
      | nil => simp at hrev
      | cons y u => rfl
  · rfl

theorem stateOfTail_boundary (t : Spec.Net.Tail) (hne : ∀ r, t = .incomplete r → r ≠ [])
    (h : stateOfTail t = .waitHdr []) : t = .done := by
  cases t with
  | done => rfl
  | over len => simp [stateOfTail] at h
  | incomplete r =>
    have := stateOfTail_incomplete_mid r (hne r rfl)
    rw [h] at this; cases this

end RawPanelVerif.Net
